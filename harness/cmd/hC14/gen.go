package main

// gen-<func> correspondence classes: validation of the Go-to-Gallina translator (harness/cmd/go2coq).
// The REAL functions are called on boundary and generated arguments; case_agrees evaluates the
// definitions GENERATED from their source (props/C14/coq/Gen.v) on the same arguments.

import (
	"time"

	"github.com/ozontech/seq-db/frac/processor"
	"github.com/ozontech/seq-db/seq"
	"github.com/ozontech/seq-db/util"

	"verif/harness/internal/casefile"
	gc "verif/harness/internal/gencase"
	"verif/harness/internal/rng"
)

func runGen(w *casefile.Writer, r *rng.R, thorough bool) {
	n := 120
	if thorough {
		n = 1000
	}
	add := func(it gc.Item) {
		w.Add(it.Coq, it.Class, false, it.Input, it.Impl)
		w.Count("gen:" + it.Class)
	}
	genBM := func() (int, []byte) {
		nb := r.Intn(6)
		bin := make([]byte, nb)
		for i := range bin {
			bin[i] = rng.Pick(r, []byte{0, 0, 0, 1, 128, 255, byte(r.Intn(256))})
		}
		size := rng.Pick(r, []int{nb * 8, nb*8 - 3, 0, gc.Small(r, 64)})
		return size, bin
	}
	pos := func(nb int) int {
		switch r.Intn(6) {
		case 0:
			return gc.Small(r, 64)
		case 1:
			return nb*8 + r.Intn(3) - 1
		}
		if nb == 0 {
			return r.Intn(4)
		}
		return r.Intn(nb * 8)
	}
	for i := 0; i < n; i++ {
		size, bin := genBM()
		bm := util.VerifGenBitmask(size, bin)
		bmArgs := []gc.Arg{gc.S(gc.I(int64(size))), gc.Bytes(bin)}
		add(gc.Case("gen-GetSize", 1, bmArgs, func() []string { return []string{gc.I(int64(bm.GetSize()))} }))
		p := pos(len(bin))
		add(gc.Case("gen-Get", 2, append(append([]gc.Arg{}, bmArgs...), gc.S(gc.I(int64(p)))),
			func() []string { return []string{gc.B(bm.Get(p))} }))
		l, rr := pos(len(bin)), pos(len(bin))
		if r.Bool() && l > rr {
			l, rr = rr, l
		}
		add(gc.Case("gen-HasBitsIn", 3, append(append([]gc.Arg{}, bmArgs...), gc.S(gc.I(int64(l))), gc.S(gc.I(int64(rr)))),
			func() []string { return []string{gc.B(bm.HasBitsIn(l, rr))} }))
		m := gc.U64(r)
		add(gc.Case("gen-MID.Time", 4, []gc.Arg{gc.S(gc.U(m))}, func() []string { return []string{gc.I(seq.MID(m).Time().UnixMilli())} }))
	}
	for i := 0; i < n; i++ {
		// windows: realistic (now-ish, minute buckets), tiny, inverted, extreme instants; buckets incl. 0, 1, negative
		var from, to int64
		switch r.Intn(5) {
		case 0:
			from, to = gc.I64(r), gc.I64(r)
		case 1:
			from = int64(r.Intn(1 << 20))
			to = from - int64(r.Intn(1000))
		default:
			from = int64(1_700_000_000_000) + int64(r.Intn(1<<30))
			to = from + int64(r.Intn(7_200_000))
		}
		bucket := rng.Pick(r, []int64{int64(time.Minute), int64(time.Second), int64(time.Millisecond), 1, 2, 0, -1, -int64(time.Minute), 1<<63 - 1, -(1 << 63), gc.I64(r)})
		size, bin := genBM()
		if r.Bool() { // a consistent bitmask for windows that are not absurdly large
			if bucket > 0 && to >= from && (to-from) < 1<<40 {
				q := (to - from) * 1_000_000 / bucket
				if q >= 0 && q < 200 {
					size = int(q) + 3
					bin = make([]byte, (size+7)/8)
					for j := range bin {
						bin[j] = rng.Pick(r, []byte{0, 0, 1, 64, 255, byte(r.Intn(256))})
					}
				}
			}
		}
		d := seq.VerifGenDist(from, to, time.Duration(bucket), util.VerifGenBitmask(size, bin))
		dArgs := []gc.Arg{gc.S(gc.I(from)), gc.S(gc.I(to)), gc.S(gc.I(bucket)), gc.S(gc.I(int64(size))), gc.Bytes(bin)}
		with := func(xs ...string) []gc.Arg {
			a := append([]gc.Arg{}, dArgs...)
			for _, x := range xs {
				a = append(a, gc.S(x))
			}
			return a
		}
		add(gc.Case("gen-size", 5, dArgs, func() []string { return []string{gc.I(int64(d.VerifGenSize()))} }))
		mid := func() uint64 {
			switch r.Intn(4) {
			case 0:
				return gc.U64(r)
			case 1:
				return uint64(from) + uint64(r.Intn(5)) - 2
			case 2:
				return uint64(to) + uint64(r.Intn(5)) - 2
			}
			return uint64(from) + uint64(r.Intn(8_000_000))
		}
		m := mid()
		add(gc.Case("gen-midToIndex", 6, with(gc.U(m)), func() []string { return []string{gc.I(int64(d.VerifGenMidToIndex(seq.MID(m))))} }))
		add(gc.Case("gen-isUndefined", 7, dArgs, func() []string { return []string{gc.B(d.VerifGenIsUndefined())} }))
		qf, qt := mid(), mid()
		if r.Chance(3, 4) && qf > qt {
			qf, qt = qt, qf
		}
		add(gc.Case("gen-IsIntersecting", 8, with(gc.U(qf), gc.U(qt)), func() []string { return []string{gc.B(d.IsIntersecting(seq.MID(qf), seq.MID(qt)))} }))
	}
	runGen2(w, r, n, add)
}

// fakeIndex is a plain IDs index over a table of (MID, RID) pairs: the index parameter of getLIDsBorders in the
// gen-getLIDsBorders class (GenCase.gen_index is its Coq twin).
type fakeIndex struct{ mids, rids []uint64 }

func (f fakeIndex) at(lid seq.LID) seq.ID {
	if int(lid) < len(f.mids) {
		return seq.ID{MID: seq.MID(f.mids[lid]), RID: seq.RID(f.rids[lid])}
	}
	return seq.ID{}
}
func (f fakeIndex) LessOrEqual(lid seq.LID, id seq.ID) bool { return seq.LessOrEqual(f.at(lid), id) }
func (f fakeIndex) GetMID(lid seq.LID) seq.MID              { return f.at(lid).MID }
func (f fakeIndex) GetRID(lid seq.LID) seq.RID              { return f.at(lid).RID }
func (f fakeIndex) Len() int                                { return len(f.mids) }

// round 2: seq.LessOrEqual, util.BinSearchInRange (predicate = a table of bits, monotone or not, panicking outside
// it), processor.getLIDsBorders (index = a descending or arbitrary table of IDs incl. the stub at LID 0)
func runGen2(w *casefile.Writer, r *rng.R, n int, add func(gc.Item)) {
	u64s := func(xs []uint64) gc.Arg {
		a := make(gc.Arg, len(xs))
		for i, x := range xs {
			a[i] = gc.U(x)
		}
		return a
	}
	for i := 0; i < n; i++ {
		a, b := seq.ID{MID: seq.MID(gc.U64(r)), RID: seq.RID(gc.U64(r))}, seq.ID{MID: seq.MID(gc.U64(r)), RID: seq.RID(gc.U64(r))}
		if r.Bool() {
			b.MID = a.MID
		}
		if r.Chance(1, 4) {
			b.RID = a.RID
		}
		add(gc.Case("gen-LessOrEqual", 9, []gc.Arg{gc.S(gc.U(uint64(a.MID))), gc.S(gc.U(uint64(a.RID))), gc.S(gc.U(uint64(b.MID))), gc.S(gc.U(uint64(b.RID)))},
			func() []string { return []string{gc.B(seq.LessOrEqual(a, b))} }))

		from := r.Intn(40) - 10
		if r.Chance(1, 6) {
			from = int(gc.I64(r) / 4)
		}
		nb := r.Intn(12)
		bits := make([]uint64, nb)
		th := r.Intn(nb + 1)
		for j := range bits {
			if j >= th {
				bits[j] = 1
			}
			if r.Chance(1, 12) { // not monotone
				bits[j] ^= 1
			}
		}
		to := from + nb - 1
		switch r.Intn(8) {
		case 0:
			to = from - 1 - r.Intn(3) // empty / inverted range
		case 1:
			to++ // the predicate panics when the search reaches the last position
		}
		add(gc.Case("gen-BinSearchInRange", 10, []gc.Arg{gc.S(gc.I(int64(from))), gc.S(gc.I(int64(to))), u64s(bits)},
			func() []string {
				return []string{gc.I(int64(util.BinSearchInRange(from, to, func(i int) bool { return bits[i-from] != 0 })))}
			}))

		nt := r.Intn(10)
		mids, rids := make([]uint64, nt), make([]uint64, nt)
		cur := uint64(1000 + r.Intn(50))
		if r.Chance(1, 8) {
			cur = 1<<64 - 1
		}
		for j := 0; j < nt; j++ {
			if j == 0 {
				mids[j], rids[j] = 1<<64-1, 1<<64-1
				continue
			}
			if step := uint64(r.Intn(4)); step <= cur {
				cur -= step
			}
			mids[j], rids[j] = cur, rng.Pick(r, []uint64{0, 1, 1<<64 - 1, r.U64()})
		}
		if r.Chance(1, 8) && nt > 2 { // unsorted table
			mids[1], mids[nt-1] = mids[nt-1], mids[1]
		}
		q := func() uint64 {
			switch r.Intn(5) {
			case 0:
				return gc.U64(r)
			case 1:
				return 0
			}
			return cur + uint64(r.Intn(60)) - 5
		}
		lo, hi := q(), q()
		if r.Chance(3, 4) && lo > hi {
			lo, hi = hi, lo
		}
		ix := fakeIndex{mids, rids}
		add(gc.Case("gen-getLIDsBorders", 11, []gc.Arg{gc.S(gc.U(lo)), gc.S(gc.U(hi)), u64s(mids), u64s(rids)},
			func() []string {
				a, b := processor.VerifC14LIDsBorders(seq.MID(lo), seq.MID(hi), ix)
				return []string{gc.U(uint64(a)), gc.U(uint64(b))}
			}))
	}
}
