package main

// gen-<func> correspondence classes: validation of the Go-to-Gallina translator (harness/cmd/go2coq).
// The REAL functions are called on boundary and generated arguments; case_agrees evaluates the
// definitions GENERATED from their source (props/C14/coq/Gen.v) on the same arguments.

import (
	"time"

	"github.com/ozontech/seq-db/seq"
	"github.com/ozontech/seq-db/util"

	"verif/harness/internal/casefile"
	gc "verif/harness/internal/gencase"
	"verif/harness/internal/rng"
)

func runGen(w *casefile.Writer, r *rng.R, thorough bool) {
	n := 120
	if thorough {
		n = 1000
	}
	add := func(it gc.Item) {
		w.Add(it.Coq, it.Class, false, it.Input, it.Impl)
		w.Count("gen:" + it.Class)
	}
	genBM := func() (int, []byte) {
		nb := r.Intn(6)
		bin := make([]byte, nb)
		for i := range bin {
			bin[i] = rng.Pick(r, []byte{0, 0, 0, 1, 128, 255, byte(r.Intn(256))})
		}
		size := rng.Pick(r, []int{nb * 8, nb*8 - 3, 0, gc.Small(r, 64)})
		return size, bin
	}
	pos := func(nb int) int {
		switch r.Intn(6) {
		case 0:
			return gc.Small(r, 64)
		case 1:
			return nb*8 + r.Intn(3) - 1
		}
		if nb == 0 {
			return r.Intn(4)
		}
		return r.Intn(nb * 8)
	}
	for i := 0; i < n; i++ {
		size, bin := genBM()
		bm := util.VerifGenBitmask(size, bin)
		bmArgs := []gc.Arg{gc.S(gc.I(int64(size))), gc.Bytes(bin)}
		add(gc.Case("gen-GetSize", 1, bmArgs, func() []string { return []string{gc.I(int64(bm.GetSize()))} }))
		p := pos(len(bin))
		add(gc.Case("gen-Get", 2, append(append([]gc.Arg{}, bmArgs...), gc.S(gc.I(int64(p)))),
			func() []string { return []string{gc.B(bm.Get(p))} }))
		l, rr := pos(len(bin)), pos(len(bin))
		if r.Bool() && l > rr {
			l, rr = rr, l
		}
		add(gc.Case("gen-HasBitsIn", 3, append(append([]gc.Arg{}, bmArgs...), gc.S(gc.I(int64(l))), gc.S(gc.I(int64(rr)))),
			func() []string { return []string{gc.B(bm.HasBitsIn(l, rr))} }))
		m := gc.U64(r)
		add(gc.Case("gen-MID.Time", 4, []gc.Arg{gc.S(gc.U(m))}, func() []string { return []string{gc.I(seq.MID(m).Time().UnixMilli())} }))
	}
	for i := 0; i < n; i++ {
		// windows: realistic (now-ish, minute buckets), tiny, inverted, extreme instants; buckets incl. 0, 1, negative
		var from, to int64
		switch r.Intn(5) {
		case 0:
			from, to = gc.I64(r), gc.I64(r)
		case 1:
			from = int64(r.Intn(1 << 20))
			to = from - int64(r.Intn(1000))
		default:
			from = int64(1_700_000_000_000) + int64(r.Intn(1<<30))
			to = from + int64(r.Intn(7_200_000))
		}
		bucket := rng.Pick(r, []int64{int64(time.Minute), int64(time.Second), int64(time.Millisecond), 1, 2, 0, -1, -int64(time.Minute), 1<<63 - 1, -(1 << 63), gc.I64(r)})
		size, bin := genBM()
		if r.Bool() { // a consistent bitmask for windows that are not absurdly large
			if bucket > 0 && to >= from && (to-from) < 1<<40 {
				q := (to - from) * 1_000_000 / bucket
				if q >= 0 && q < 200 {
					size = int(q) + 3
					bin = make([]byte, (size+7)/8)
					for j := range bin {
						bin[j] = rng.Pick(r, []byte{0, 0, 1, 64, 255, byte(r.Intn(256))})
					}
				}
			}
		}
		d := seq.VerifGenDist(from, to, time.Duration(bucket), util.VerifGenBitmask(size, bin))
		dArgs := []gc.Arg{gc.S(gc.I(from)), gc.S(gc.I(to)), gc.S(gc.I(bucket)), gc.S(gc.I(int64(size))), gc.Bytes(bin)}
		with := func(xs ...string) []gc.Arg {
			a := append([]gc.Arg{}, dArgs...)
			for _, x := range xs {
				a = append(a, gc.S(x))
			}
			return a
		}
		add(gc.Case("gen-size", 5, dArgs, func() []string { return []string{gc.I(int64(d.VerifGenSize()))} }))
		mid := func() uint64 {
			switch r.Intn(4) {
			case 0:
				return gc.U64(r)
			case 1:
				return uint64(from) + uint64(r.Intn(5)) - 2
			case 2:
				return uint64(to) + uint64(r.Intn(5)) - 2
			}
			return uint64(from) + uint64(r.Intn(8_000_000))
		}
		m := mid()
		add(gc.Case("gen-midToIndex", 6, with(gc.U(m)), func() []string { return []string{gc.I(int64(d.VerifGenMidToIndex(seq.MID(m))))} }))
		add(gc.Case("gen-isUndefined", 7, dArgs, func() []string { return []string{gc.B(d.VerifGenIsUndefined())} }))
		qf, qt := mid(), mid()
		if r.Chance(3, 4) && qf > qt {
			qf, qt = qt, qf
		}
		add(gc.Case("gen-IsIntersecting", 8, with(gc.U(qf), gc.U(qt)), func() []string { return []string{gc.B(d.IsIntersecting(seq.MID(qf), seq.MID(qt)))} }))
	}
}
