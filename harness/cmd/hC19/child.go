package main

import (
	"context"
	"encoding/hex"
	"encoding/json"
	"fmt"
	"math"
	"math/big"
	"os"
	"path/filepath"
	"sort"
	"sync/atomic"
	"syscall"
	"time"

	"github.com/ozontech/seq-db/frac/processor"
	"github.com/ozontech/seq-db/fracmanager"
	"github.com/ozontech/seq-db/parser"
	pb "github.com/ozontech/seq-db/pkg/storeapi"
	"github.com/ozontech/seq-db/seq"
	realstore "github.com/ozontech/seq-db/storeapi"
	"google.golang.org/grpc/codes"
	"google.golang.org/grpc/status"
	"google.golang.org/protobuf/proto"

	"verif/harness/internal/fracbuild"
	"verif/harness/internal/storectl"
)

// Operations executed inside the controlled child process: the REAL AsyncSearcher (MustStartAsync,
// StartSearch, FetchSearchResult) and the REAL synchronous Searcher on the child's FracManager.

type aggSpec struct {
	Fn       int       `json:"fn"`
	Field    string    `json:"field,omitempty"`
	Group    string    `json:"group,omitempty"`
	Interval int64     `json:"interval,omitempty"`
	Quants   []float64 `json:"quants,omitempty"`
}

type searchSpec struct {
	ID        string    `json:"id"`
	Query     string    `json:"query"`
	Fields    []string  `json:"fields"`                // keyword-mapped
	TextFields []string `json:"text_fields,omitempty"` // text-mapped (several words = conjunction)
	PathFields []string `json:"path_fields,omitempty"` // path-mapped
	From      uint64    `json:"from"`
	To        uint64    `json:"to"`
	Hist      uint64    `json:"hist"`
	Reverse   bool      `json:"reverse"`
	Limit     int       `json:"limit"`
	WithTotal bool      `json:"with_total"`
	Aggs      []aggSpec `json:"aggs,omitempty"`
}

type hexDoc struct {
	MID    uint64   `json:"mid"`
	RID    uint64   `json:"rid"`
	Tokens []string `json:"tokens"` // hex of "field:value" (values may hold any bytes)
}

type childReq struct {
	Docs     []hexDoc `json:"docs,omitempty"`
	AsyncDir    string     `json:"async_dir,omitempty"`
	Parallelism int        `json:"parallelism,omitempty"`
	Spec        searchSpec `json:"spec"`
	Wait        bool       `json:"wait,omitempty"`
	LoadOnly    bool       `json:"load_only,omitempty"` // load the persisted requests, do not resume them
	Gate        bool       `json:"gate,omitempty"`      // start with the mapping provider blocked
	Action      string     `json:"action,omitempty"`
	PBHex       string     `json:"pb,omitempty"`        // a protobuf message of the store API
	TimeoutMs   int        `json:"timeout_ms,omitempty"`
	PoolBufs    int        `json:"pool_bufs,omitempty"` // pool-pressure class: buffers per size class and round
}

// canonical, order-free, text-exact rendering of a seq.QPR
type cBin struct {
	MID     uint64   `json:"mid"`
	TokHex  string   `json:"tok"`
	Min     string   `json:"min"` // exact value in units of 1/16 (decimal integer)
	Max     string   `json:"max"`
	Sum     string   `json:"sum"`
	Total   int64    `json:"total"`
	NE      int64    `json:"ne"`
	Samples []string `json:"samples"` // sorted numerically
}
type cAgg struct {
	NE   int64  `json:"ne"`
	Bins []cBin `json:"bins"` // sorted by (mid, token bytes)
}
type cQPR struct {
	IDs    [][2]uint64 `json:"ids"`
	Hist   [][2]uint64 `json:"hist"` // sorted by bucket
	Aggs   []cAgg      `json:"aggs"`
	Total  uint64      `json:"total"`
	Errors int         `json:"errors"`
}

type fracQPR struct {
	Name string `json:"name"`
	QPR  cQPR   `json:"qpr"`
}

type childResp struct {
	Found   bool      `json:"found"`
	Done    bool      `json:"done"`
	QPR     *cQPR     `json:"qpr,omitempty"`
	ReqOK   bool      `json:"req_ok"` // the parameters handed back by FetchSearchResult equal the request's
	PerFrac []fracQPR `json:"per_frac,omitempty"`
	Files   []string  `json:"files,omitempty"`
	Names   []string  `json:"names,omitempty"`
	PBHex   string    `json:"pb,omitempty"`
	Rounds  int       `json:"rounds,omitempty"`
}

// exactUnits renders f*16 as an integer; values that are not a multiple of 1/16 (never produced by
// the generator) are rendered as 2^200 + bit pattern, so that they compare unequal to everything else.
func exactUnits(f float64) string {
	if math.IsNaN(f) || math.IsInf(f, 0) {
		z := new(big.Int).Lsh(big.NewInt(1), 200)
		return z.Add(z, new(big.Int).SetUint64(math.Float64bits(f))).String()
	}
	bf := new(big.Float).SetPrec(2000).SetFloat64(f)
	bf.Mul(bf, big.NewFloat(16))
	z, acc := bf.Int(nil)
	if acc != big.Exact {
		z = new(big.Int).Lsh(big.NewInt(1), 200)
		return z.Add(z, new(big.Int).SetUint64(math.Float64bits(f))).String()
	}
	return z.String()
}

func canonQPR(q *seq.QPR) *cQPR {
	c := &cQPR{Total: q.Total, Errors: len(q.Errors), IDs: [][2]uint64{}, Hist: [][2]uint64{}, Aggs: []cAgg{}}
	for _, id := range q.IDs {
		c.IDs = append(c.IDs, [2]uint64{uint64(id.ID.MID), uint64(id.ID.RID)})
	}
	for k, v := range q.Histogram {
		c.Hist = append(c.Hist, [2]uint64{uint64(k), v})
	}
	sort.Slice(c.Hist, func(i, j int) bool { return c.Hist[i][0] < c.Hist[j][0] })
	for _, a := range q.Aggs {
		ca := cAgg{NE: a.NotExists, Bins: []cBin{}}
		for bin, sc := range a.SamplesByBin {
			b := cBin{MID: uint64(bin.MID), TokHex: hex.EncodeToString([]byte(bin.Token))}
			if sc != nil {
				b.Min, b.Max, b.Sum, b.Total, b.NE = exactUnits(sc.Min), exactUnits(sc.Max), exactUnits(sc.Sum), sc.Total, sc.NotExists
				fs := append([]float64(nil), sc.Samples...)
				sort.Float64s(fs)
				for _, f := range fs {
					b.Samples = append(b.Samples, exactUnits(f))
				}
			} else {
				b.Min, b.Max, b.Sum = "nil", "nil", "nil"
			}
			if b.Samples == nil {
				b.Samples = []string{}
			}
			ca.Bins = append(ca.Bins, b)
		}
		sort.Slice(ca.Bins, func(i, j int) bool {
			if ca.Bins[i].MID != ca.Bins[j].MID {
				return ca.Bins[i].MID < ca.Bins[j].MID
			}
			return ca.Bins[i].TokHex < ca.Bins[j].TokHex
		})
		c.Aggs = append(c.Aggs, ca)
	}
	return c
}

// mappingProvider is the store's MappingProvider. With a closed gate GetMapping blocks: a resumed
// request calls it (the query is re-parsed) after it has listed its processed fractions and while it
// holds the searcher's only parallelism slot, so the worker can be held at "k partial results exist".
type mappingProvider struct{ m seq.Mapping }

var (
	gateClosed  atomic.Bool
	gateEntered atomic.Int32
	gateCh      = make(chan struct{})
)

func (p mappingProvider) GetMapping() seq.Mapping {
	if gateClosed.Load() {
		gateEntered.Add(1)
		<-gateCh
	}
	return p.m
}

var (
	bgFetch   chan childResp
	pipeFD    = -1
	pipePath  string
)

// mapping of the store (MappingProvider) and of the synchronous reference search
func (s searchSpec) mapping() seq.Mapping {
	m := keywordMapping(s.Fields)
	for _, f := range s.TextFields {
		m[f] = seq.NewSingleType(seq.TokenizerTypeText, "", 0)
	}
	for _, f := range s.PathFields {
		m[f] = seq.NewSingleType(seq.TokenizerTypePath, "", 0)
	}
	return m
}

func keywordMapping(fields []string) seq.Mapping {
	m := seq.Mapping{}
	for _, f := range fields {
		m[f] = seq.NewSingleType(seq.TokenizerTypeKeyword, "", 0)
	}
	return m
}

func literal(field string) *parser.Literal {
	if field == "" {
		return nil
	}
	return &parser.Literal{Field: field, Terms: []parser.Term{{Kind: parser.TermSymbol, Data: "*"}}}
}

func (s searchSpec) aggQ() []processor.AggQuery {
	var out []processor.AggQuery
	for _, a := range s.Aggs {
		out = append(out, processor.AggQuery{Field: literal(a.Field), GroupBy: literal(a.Group), Func: seq.AggFunc(a.Fn),
			Quantiles: a.Quants, Interval: a.Interval})
	}
	return out
}

func (s searchSpec) order() seq.DocsOrder {
	if s.Reverse {
		return seq.DocsOrderAsc
	}
	return seq.DocsOrderDesc
}

// params without AST (as storeapi.StartAsyncSearch builds them)
func (s searchSpec) params() processor.SearchParams {
	return processor.SearchParams{AggQ: s.aggQ(), HistInterval: s.Hist, From: seq.MID(s.From), To: seq.MID(s.To),
		Limit: s.Limit, WithTotal: s.WithTotal, Order: s.order()}
}

func (s searchSpec) parsed() (processor.SearchParams, error) {
	p := s.params()
	ast, err := parser.ParseSeqQL(s.Query, s.mapping())
	if err != nil {
		return p, err
	}
	p.AST = ast.Root
	return p, nil
}

var (
	asyncSearcher *fracmanager.AsyncSearcher
	asyncDir      string
	allFields     []string
)

func decode(r storectl.Req) (childReq, error) {
	var e childReq
	if len(r.Extra) > 0 {
		if err := json.Unmarshal(r.Extra, &e); err != nil {
			return e, err
		}
	}
	return e, nil
}

func answer(v childResp) storectl.Resp {
	b, _ := json.Marshal(v)
	return storectl.Resp{Extra: b}
}

func listDir(dir string) []string {
	ents, err := os.ReadDir(dir)
	if err != nil {
		return []string{}
	}
	out := []string{}
	for _, e := range ents {
		out = append(out, e.Name())
	}
	sort.Strings(out)
	return out
}

func registerChildOps() {
	// one bulk with byte-exact tokens (the built-in bulk carries tokens as JSON strings)
	storectl.Register("c19.bulk", func(c *storectl.Child, r storectl.Req) (storectl.Resp, error) {
		e, err := decode(r)
		if err != nil {
			return storectl.Resp{}, err
		}
		docs := make([]fracbuild.Doc, len(e.Docs))
		for i, d := range e.Docs {
			docs[i] = fracbuild.Doc{MID: d.MID, RID: d.RID, Body: []byte(fmt.Sprintf(`{"n":%d}`, d.RID))}
			for _, t := range d.Tokens {
				b, err := hex.DecodeString(t)
				if err != nil {
					return storectl.Resp{}, err
				}
				docs[i].Tokens = append(docs[i].Tokens, string(b))
			}
		}
		return answer(childResp{}), fracbuild.Append(c.FM, docs)
	})
	// names of the fractions that hold documents (the live list)
	storectl.Register("c19.fracs", func(c *storectl.Child, r storectl.Req) (storectl.Resp, error) {
		var out childResp
		for _, f := range c.FM.GetAllFracs() {
			if f.Info().DocsTotal > 0 {
				out.Names = append(out.Names, f.Info().Name())
			}
		}
		return answer(out), nil
	})
	// start the asynchronous searcher on the open FracManager: loads the persisted requests and resumes
	// the unfinished ones (MustStartAsync)
	storectl.Register("c19.start", func(c *storectl.Child, r storectl.Req) (storectl.Resp, error) {
		e, err := decode(r)
		if err != nil {
			return storectl.Resp{}, err
		}
		if c.FM == nil {
			return storectl.Resp{}, fmt.Errorf("store not open")
		}
		asyncDir, allFields = e.AsyncDir, e.Spec.Fields
		gateClosed.Store(e.Gate)
		if e.LoadOnly {
			as, err := fracmanager.VerifC19LoadAsync(fracmanager.AsyncSearcherConfig{DataDir: e.AsyncDir, Parallelism: e.Parallelism},
				mappingProvider{e.Spec.mapping()}, c.FM)
			asyncSearcher = as
			return answer(childResp{}), err
		}
		asyncSearcher = fracmanager.MustStartAsync(fracmanager.AsyncSearcherConfig{DataDir: e.AsyncDir, Parallelism: e.Parallelism},
			mappingProvider{e.Spec.mapping()}, c.FM)
		return answer(childResp{}), nil
	})
	storectl.Register("c19.search", func(c *storectl.Child, r storectl.Req) (storectl.Resp, error) {
		e, err := decode(r)
		if err != nil {
			return storectl.Resp{}, err
		}
		req := fracmanager.AsyncSearchRequest{ID: e.Spec.ID, Params: e.Spec.params(), Query: e.Spec.Query, Retention: 24 * time.Hour}
		if err := asyncSearcher.StartSearch(req); err != nil {
			return storectl.Resp{}, err
		}
		return answer(childResp{}), nil
	})
	// the gate of the mapping provider: wait until the resumed worker is blocked in it / let it go
	storectl.Register("c19.gate", func(c *storectl.Child, r storectl.Req) (storectl.Resp, error) {
		e, err := decode(r)
		if err != nil {
			return storectl.Resp{}, err
		}
		switch e.Action {
		case "wait_entered":
			deadline := time.Now().Add(time.Duration(e.TimeoutMs) * time.Millisecond)
			for gateEntered.Load() == 0 && time.Now().Before(deadline) {
				time.Sleep(time.Millisecond)
			}
			return answer(childResp{Found: gateEntered.Load() > 0}), nil
		case "open":
			gateClosed.Store(false)
			close(gateCh)
			return answer(childResp{}), nil
		}
		return storectl.Resp{}, fmt.Errorf("unknown gate action")
	})
	// a named pipe <id>.~pipe.qpr among the files FetchSearchResult lists: the fetch blocks on it until
	// the pipe is released
	storectl.Register("c19.pipe", func(c *storectl.Child, r storectl.Req) (storectl.Resp, error) {
		e, err := decode(r)
		if err != nil {
			return storectl.Resp{}, err
		}
		switch e.Action {
		case "make":
			pipePath = filepath.Join(asyncDir, e.Spec.ID+".~pipe.qpr")
			return answer(childResp{}), syscall.Mkfifo(pipePath, 0o644)
		case "wait_reader": // succeeds once the fetch has the pipe open for reading (its file list is fixed then)
			deadline := time.Now().Add(time.Duration(e.TimeoutMs) * time.Millisecond)
			for time.Now().Before(deadline) {
				fd, err := syscall.Open(pipePath, syscall.O_WRONLY|syscall.O_NONBLOCK, 0)
				if err == nil {
					pipeFD = fd
					return answer(childResp{Found: true}), nil
				}
				time.Sleep(time.Millisecond)
			}
			return answer(childResp{Found: false}), nil
		case "release":
			os.Remove(pipePath)
			if pipeFD >= 0 {
				syscall.Close(pipeFD)
				pipeFD = -1
			}
			return answer(childResp{}), nil
		}
		return storectl.Resp{}, fmt.Errorf("unknown pipe action")
	})
	// FetchSearchResult in the background / its answer
	storectl.Register("c19.fetch_bg", func(c *storectl.Child, r storectl.Req) (storectl.Resp, error) {
		e, err := decode(r)
		if err != nil {
			return storectl.Resp{}, err
		}
		bgFetch = make(chan childResp, 1)
		go func() {
			resp, ok := asyncSearcher.FetchSearchResult(fracmanager.FetchSearchResultRequest{ID: e.Spec.ID})
			if !ok {
				bgFetch <- childResp{Found: false}
				return
			}
			bgFetch <- childResp{Found: true, Done: resp.Done, QPR: canonQPR(&resp.QPR)}
		}()
		return answer(childResp{}), nil
	})
	storectl.Register("c19.fetch_join", func(c *storectl.Child, r storectl.Req) (storectl.Resp, error) {
		e, err := decode(r)
		if err != nil {
			return storectl.Resp{}, err
		}
		select {
		case x := <-bgFetch:
			return answer(x), nil
		case <-time.After(time.Duration(e.TimeoutMs) * time.Millisecond):
			return storectl.Resp{}, fmt.Errorf("background fetch did not return")
		}
	})
	// the real gRPC handlers of the store (storeapi/grpc_async_search.go) on the child's searcher
	storectl.Register("c19.pbstart", func(c *storectl.Child, r storectl.Req) (storectl.Resp, error) {
		e, err := decode(r)
		if err != nil {
			return storectl.Resp{}, err
		}
		b, err := hex.DecodeString(e.PBHex)
		if err != nil {
			return storectl.Resp{}, err
		}
		var req pb.StartAsyncSearchRequest
		if err := proto.Unmarshal(b, &req); err != nil {
			return storectl.Resp{}, err
		}
		if _, err := realstore.VerifC19AsyncAPI(asyncSearcher).StartAsyncSearch(context.Background(), &req); err != nil {
			return storectl.Resp{}, err
		}
		return answer(childResp{}), nil
	})
	storectl.Register("c19.pbfetch", func(c *storectl.Child, r storectl.Req) (storectl.Resp, error) {
		e, err := decode(r)
		if err != nil {
			return storectl.Resp{}, err
		}
		resp, err := realstore.VerifC19AsyncAPI(asyncSearcher).FetchAsyncSearchResult(context.Background(),
			&pb.FetchAsyncSearchResultRequest{SearchId: e.Spec.ID})
		if err != nil {
			if status.Code(err) == codes.NotFound {
				return answer(childResp{Found: false}), nil
			}
			return storectl.Resp{}, err
		}
		b, err := proto.Marshal(resp)
		if err != nil {
			return storectl.Resp{}, err
		}
		return answer(childResp{Found: true, Done: resp.Done, PBHex: hex.EncodeToString(b)}), nil
	})
	// fetch the result; with wait: poll until the request reports done
	storectl.Register("c19.fetch", func(c *storectl.Child, r storectl.Req) (storectl.Resp, error) {
		e, err := decode(r)
		if err != nil {
			return storectl.Resp{}, err
		}
		deadline := time.Now().Add(time.Duration(e.TimeoutMs) * time.Millisecond)
		for {
			resp, ok := asyncSearcher.FetchSearchResult(fracmanager.FetchSearchResultRequest{ID: e.Spec.ID})
			if !ok {
				return answer(childResp{Found: false, Files: listDir(asyncDir)}), nil
			}
			if resp.Done || !e.Wait || time.Now().After(deadline) {
				want := e.Spec.aggQ()
				a, _ := json.Marshal(resp.AggQueries)
				b, _ := json.Marshal(want)
				reqOK := resp.HistInterval == e.Spec.Hist && resp.Order == e.Spec.order() &&
					(string(a) == string(b) || (len(resp.AggQueries) == 0 && len(want) == 0))
				return answer(childResp{Found: true, Done: resp.Done, QPR: canonQPR(&resp.QPR), ReqOK: reqOK, Files: listDir(asyncDir)}), nil
			}
			time.Sleep(2 * time.Millisecond)
		}
	})
	// the synchronous search over the same fraction list
	storectl.Register("c19.sync", func(c *storectl.Child, r storectl.Req) (storectl.Resp, error) {
		e, err := decode(r)
		if err != nil {
			return storectl.Resp{}, err
		}
		p, err := e.Spec.parsed()
		if err != nil {
			return storectl.Resp{}, err
		}
		s := fracmanager.NewSearcher(4, fracmanager.SearcherCfg{})
		qpr, err := s.SearchDocs(context.Background(), c.FM.GetAllFracs(), p)
		if err != nil {
			return storectl.Resp{}, err
		}
		return answer(childResp{Found: true, Done: true, QPR: canonQPR(qpr)}), nil
	})
	// the per-fraction partial results (what each .qpr file must hold), in the order of the start-time list
	storectl.Register("c19.perfrac", func(c *storectl.Child, r storectl.Req) (storectl.Resp, error) {
		e, err := decode(r)
		if err != nil {
			return storectl.Resp{}, err
		}
		p, err := e.Spec.parsed()
		if err != nil {
			return storectl.Resp{}, err
		}
		var out childResp
		for _, f := range c.FM.GetAllFracs().FilterInRange(p.From, p.To) {
			dp, release := f.DataProvider(context.Background())
			qpr, err := dp.Search(p)
			release()
			if err != nil {
				return storectl.Resp{}, fmt.Errorf("fraction %s: %w", f.Info().Name(), err)
			}
			out.PerFrac = append(out.PerFrac, fracQPR{Name: f.Info().Name(), QPR: *canonQPR(qpr)})
		}
		return answer(out), nil
	})
}
