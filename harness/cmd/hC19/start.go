package main

// Proxy level, histories that begin with the start: the REAL search.Ingestor.StartAsyncSearch over
// stateful scripted stores (a store that accepted a start remembers the ID and answers later fetches
// with a REAL store-handler answer; one that refused or was never asked says NotFound, exactly like
// storeapi.GrpcV1), followed by the REAL Ingestor.FetchAsyncSearchResult with the returned ID.
// Every replica's reply to the start is scripted: accept, or refuse with Unavailable / a plain error /
// ResourceExhausted / a deadline (the store blocks until the context is cancelled).

import (
	"context"
	"errors"
	"fmt"
	"sort"
	"strings"
	"time"

	pb "github.com/ozontech/seq-db/pkg/storeapi"
	"github.com/ozontech/seq-db/proxy/search"
	"github.com/ozontech/seq-db/proxy/stores"
	"github.com/ozontech/seq-db/seq"
	"google.golang.org/grpc"
	"google.golang.org/grpc/codes"
	"google.golang.org/grpc/status"
	"google.golang.org/protobuf/proto"

	"verif/harness/internal/casefile"
	"verif/harness/internal/rng"
)

const (
	skAccept = iota
	skUnavailable
	skPlainError
	skExhausted
	skDeadline
)

var skNames = []string{"accept", "Unavailable", "error", "ResourceExhausted", "deadline"}

type scriptStore struct {
	pb.StoreApiClient
	shard, rep int
	kind       int
	cancel     context.CancelFunc
	calls      *[][2]int
	known      map[string]bool
	answer     *storeAnswer
	down       bool // unreachable at fetch time
}

func (s *scriptStore) StartAsyncSearch(ctx context.Context, in *pb.StartAsyncSearchRequest, _ ...grpc.CallOption) (*pb.StartAsyncSearchResponse, error) {
	*s.calls = append(*s.calls, [2]int{s.shard, s.rep})
	if err := ctx.Err(); err != nil { // a real client does not even send the request
		return nil, status.FromContextError(err).Err()
	}
	switch s.kind {
	case skAccept:
		s.known[in.SearchId] = true
		return &pb.StartAsyncSearchResponse{}, nil
	case skUnavailable:
		return nil, status.Error(codes.Unavailable, "connection refused")
	case skPlainError:
		return nil, errors.New("store: cannot start search")
	case skExhausted:
		return nil, status.Error(codes.ResourceExhausted, "too many async searches")
	default: // the store does not answer until the caller's deadline
		s.cancel()
		<-ctx.Done()
		return nil, status.Error(codes.DeadlineExceeded, "context deadline exceeded")
	}
}

func (s *scriptStore) FetchAsyncSearchResult(_ context.Context, in *pb.FetchAsyncSearchResultRequest, _ ...grpc.CallOption) (*pb.FetchAsyncSearchResultResponse, error) {
	if s.down {
		return nil, status.Error(codes.Unavailable, "connection refused")
	}
	if !s.known[in.SearchId] || s.answer == nil || !s.answer.Found {
		return nil, status.Error(codes.NotFound, "search not found")
	}
	return proto.Clone(s.answer.pb).(*pb.FetchAsyncSearchResultResponse), nil
}

// genStartScript: kinds[s][r]; the classes are cycled so that every run holds all of them
func genStartScript(r *rng.R, nshards, class int) (kinds [][]int, label string) {
	refuse := func() int { return rng.Pick(r, []int{skUnavailable, skUnavailable, skPlainError, skExhausted}) }
	kinds = make([][]int, nshards)
	healthy := func(s int) {
		n := r.Range(1, 3)
		kinds[s] = make([]int, n)
		acc := 0
		if r.Chance(1, 2) {
			acc = r.Intn(n) // failover: the replicas before the acceptor refuse
		}
		for i := range kinds[s] {
			switch {
			case i < acc:
				kinds[s][i] = refuse()
			case i == acc:
				kinds[s][i] = skAccept
			default:
				kinds[s][i] = rng.Pick(r, []int{skAccept, skAccept, skUnavailable})
			}
		}
	}
	down := func(s, n int) {
		kinds[s] = make([]int, n)
		for i := range kinds[s] {
			kinds[s][i] = refuse()
		}
	}
	for s := 0; s < nshards; s++ {
		healthy(s)
	}
	switch class % 8 {
	case 0:
		label = "one-shard-down-single-replica"
		down(r.Intn(nshards), 1)
	case 1:
		label = "one-shard-down-multi-replica"
		down(r.Intn(nshards), r.Range(2, 3))
	case 2:
		label = "failover-only"
		for s := range kinds {
			n := r.Range(2, 3)
			kinds[s] = make([]int, n)
			acc := r.Range(1, n-1)
			for i := range kinds[s] {
				kinds[s][i] = refuse()
				if i >= acc {
					kinds[s][i] = skAccept
				}
			}
		}
	case 3:
		label = "all-accept"
		for s := range kinds {
			for i := range kinds[s] {
				kinds[s][i] = skAccept
			}
		}
	case 4:
		label = "last-shard-down"
		down(nshards-1, r.Range(1, 3))
	case 5:
		label = "first-shard-down"
		down(0, r.Range(1, 3))
	case 6:
		label = "random"
		for s := range kinds {
			n := r.Range(1, 3)
			kinds[s] = make([]int, n)
			for i := range kinds[s] {
				kinds[s][i] = skAccept
				if r.Chance(1, 2) {
					kinds[s][i] = refuse()
				}
			}
		}
	default:
		label = "all-down"
		for s := range kinds {
			down(s, r.Range(1, 3))
		}
	}
	// a deadline: only where no acceptance is scripted after it (once the context is cancelled every
	// later call fails, whatever the store would have said)
	lastAccept := [2]int{-1, -1}
	for s := range kinds {
		for i, k := range kinds[s] {
			if k == skAccept {
				lastAccept = [2]int{s, i}
			}
		}
	}
	if r.Chance(1, 3) {
		var cand [][2]int
		for s := range kinds {
			for i, k := range kinds[s] {
				if k != skAccept && (s > lastAccept[0] || (s == lastAccept[0] && i > lastAccept[1])) {
					cand = append(cand, [2]int{s, i})
				}
			}
		}
		if len(cand) > 0 {
			c := rng.Pick(r, cand)
			kinds[c[0]][c[1]] = skDeadline
			label += "+deadline"
		}
	}
	return kinds, label
}

// startCases appends the CPStart cases of one cluster
func startCases(res *result, r *rng.R, tier string, shards []shardData, spec searchSpec, size int, bt *binTable, input func() map[string]any) {
	nshards := len(shards)
	n := 16
	if tier == "thorough" {
		n = 48
	}
	naggs := len(spec.Aggs)
	var aggs []search.AggQuery
	for _, a := range spec.Aggs {
		aggs = append(aggs, search.AggQuery{Field: a.Field, GroupBy: a.Group, Func: seq.AggFunc(a.Fn), Quantiles: a.Quants, Interval: seq.MID(a.Interval)})
	}
	order := seq.DocsOrderDesc
	if spec.Reverse {
		order = seq.DocsOrderAsc
	}
	var syncs []string
	for j := range shards {
		syncs = append(syncs, bt.qprCoq(shards[j].sync))
	}
	for ci := 0; ci < n; ci++ {
		kinds, label := genStartScript(r, nshards, ci)
		// what the store of each shard answers at fetch time if it has the request
		avail := make([]*storeAnswer, nshards)
		allDone := r.Chance(1, 2)
		for j := range shards {
			var found []*storeAnswer
			for _, a := range shards[j].answers {
				if a.Found {
					found = append(found, a)
				}
			}
			avail[j] = found[len(found)-1] // "done"
			if !allDone {
				avail[j] = rng.Pick(r, found)
			}
		}
		ctx, cancel := context.WithCancel(context.Background())
		var calls [][2]int
		clients := map[string]pb.StoreApiClient{}
		hot := &stores.Stores{Shards: [][]string{}}
		var patCoq, kindText []string
		refusing := 0
		for s := range kinds {
			var names, pc, kt []string
			for i, k := range kinds[s] {
				nm := fmt.Sprintf("s%dr%d", s, i)
				clients[nm] = &scriptStore{shard: s, rep: i, kind: k, cancel: cancel, calls: &calls, known: map[string]bool{}, answer: avail[s]}
				names = append(names, nm)
				if k == skAccept {
					pc = append(pc, "SAccept")
				} else {
					pc = append(pc, "SRefuse")
					refusing++
				}
				kt = append(kt, skNames[k])
			}
			hot.Shards = append(hot.Shards, names)
			patCoq = append(patCoq, "["+strings.Join(pc, "; ")+"]")
			kindText = append(kindText, strings.Join(kt, ","))
		}
		empty := func() *stores.Stores { return &stores.Stores{Shards: [][]string{}} }
		ing := search.NewIngestor(search.Config{HotStores: hot, HotReadStores: empty(), ReadStores: empty(), WriteStores: empty()}, clients)
		in := input()
		in["kind"] = "proxy-start"
		in["start_case"] = ci
		in["start_replies"] = kindText
		var labels []string
		for j := range avail {
			labels = append(labels, avail[j].Label)
		}
		in["store_states_at_fetch"] = labels

		type sres struct {
			resp search.AsyncResponse
			err  error
		}
		ch := make(chan sres, 1)
		go func() {
			resp, err := ing.StartAsyncSearch(ctx, search.AsyncRequest{Query: spec.Query, From: time.UnixMilli(int64(spec.From)),
				To: time.UnixMilli(int64(spec.To)), Order: order, Aggregations: aggs, HistogramInterval: seq.MID(spec.Hist)})
			ch <- sres{resp, err}
		}()
		var sr sres
		select {
		case sr = <-ch:
		case <-time.After(20 * time.Second):
			cancel()
			res.viols = append(res.viols, violation{"hang:proxy-start", "Ingestor.StartAsyncSearch did not return", in})
			continue
		}
		cancel()
		started := sr.err == nil || sr.resp.ID != ""
		impl := map[string]any{"started": started, "id_returned": sr.resp.ID != "", "calls": calls}
		if sr.err != nil {
			impl["start_error"] = sr.err.Error()
		}
		implCoq := "None"
		if started {
			resp, err := ing.FetchAsyncSearchResult(context.Background(), search.FetchAsyncSearchResultRequest{ID: sr.resp.ID, Size: size})
			if err != nil {
				if status.Code(err) != codes.NotFound {
					res.viols = append(res.viols, violation{"proxy-fetch-error", "Ingestor.FetchAsyncSearchResult failed after a start: " + err.Error(), in})
					continue
				}
				impl["fetch"] = "NotFound"
			} else {
				q := canonQPR(&resp.QPR)
				implCoq = fmt.Sprintf("Some (%s, %s)", casefile.Bool(resp.Done), bt.qprCoq(q))
				impl["done"], impl["qpr"] = resp.Done, q
			}
		}
		// the same fetch while the store that holds the request of one shard is unreachable: whatever the
		// proxy answers, it must not be Done (the shard's part is missing). Judged directly, not modelled.
		if started && len(calls) > 0 {
			var holders []*scriptStore
			for _, c := range clients {
				if ss := c.(*scriptStore); ss.known[sr.resp.ID] {
					holders = append(holders, ss)
				}
			}
			if len(holders) > 0 {
				sort.Slice(holders, func(i, j int) bool { return holders[i].shard < holders[j].shard })
				h := rng.Pick(r, holders)
				h.down = true
				resp, err := ing.FetchAsyncSearchResult(context.Background(), search.FetchAsyncSearchResultRequest{ID: sr.resp.ID, Size: size})
				h.down = false
				res.counts = append(res.counts, "proxy-start:fetch-with-unreachable-holder")
				if err == nil && resp.Done {
					in2 := input()
					in2["kind"], in2["start_case"], in2["start_replies"], in2["unreachable_at_fetch"] = "proxy-start", ci, kindText, fmt.Sprintf("s%dr%d", h.shard, h.rep)
					res.viols = append(res.viols, violation{"proxy-done-without-unreachable-shard",
						"Ingestor.FetchAsyncSearchResult reports Done although the store that holds the request of one shard is unreachable", in2})
				}
			}
		}
		var availCoq, callCoq []string
		for j := range avail {
			availCoq = append(availCoq, fmt.Sprintf("(%s, %s)", casefile.Bool(avail[j].Done), bt.qprCoq(avail[j].QPR)))
		}
		for _, c := range calls {
			callCoq = append(callCoq, fmt.Sprintf("(%d, %d)%%nat", c[0], c[1]))
		}
		res.cases = append(res.cases, ccase{
			term: fmt.Sprintf("CPStart %d%%nat %d %d %s [%s] [%s] [%s] %s [%s] (%s)", naggs, size, spec.Hist, casefile.Bool(spec.Reverse),
				strings.Join(patCoq, "; "), strings.Join(availCoq, "; "), strings.Join(syncs, "; "), casefile.Bool(started),
				strings.Join(callCoq, "; "), implCoq),
			class: "proxy-start", nontrivial: nshards >= 2 && refusing >= 1, input: in, impl: impl})
		res.counts = append(res.counts, "proxy-start:"+label)
		if started {
			res.counts = append(res.counts, "proxy-start:id-returned")
		} else {
			res.counts = append(res.counts, "proxy-start:rejected")
		}
	}
}
