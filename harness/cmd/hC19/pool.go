package main

// Store level, class "pool-pressure": the REAL AsyncSearcher (MustStartAsync, StartSearch, doSearch,
// processFrac, FetchSearchResult) runs in a child with GOMAXPROCS(1) over the real fractions, each
// wrapped so that Info() — the call processFrac makes between zstd.CompressLevel and
// mustWriteFileAtomic — is a scheduling point: there another goroutine (an ordinary user of the global
// bytespool) acquires buffers of the size classes a partial result can live in, fills them with a
// poison pattern and releases them. Afterwards every <id>.<frac>.qpr must decode to that fraction's
// result and the fetched answer must equal the synchronous one.

import (
	"encoding/json"
	"fmt"
	"os"
	"runtime"
	"sort"
	"strings"
	"sync/atomic"
	"time"

	"github.com/ozontech/seq-db/bytespool"
	"github.com/ozontech/seq-db/frac"
	"github.com/ozontech/seq-db/fracmanager"

	"verif/harness/internal/casefile"
	"verif/harness/internal/rng"
	"verif/harness/internal/storectl"
)

type poolFrac struct {
	frac.Fraction
	onInfo func()
}

func (f *poolFrac) Info() *frac.Info {
	f.onInfo()
	return f.Fraction.Info()
}

// poolRound: what any goroutine of the store may do at any time — take free buffers from the global
// pool, write into them, put them back
func poolRound(perClass int) {
	var held []*bytespool.Buffer
	for size := 256; size <= 1<<17; size <<= 1 {
		for i := 0; i < perClass; i++ {
			b := bytespool.Acquire(size)
			b.B = b.B[:cap(b.B)]
			for j := range b.B {
				b.B[j] = 0xAA
			}
			held = append(held, b)
		}
	}
	for _, b := range held {
		b.Reset()
		bytespool.Release(b)
	}
}

func registerPoolOps() {
	storectl.Register("c19.poolrun", func(c *storectl.Child, r storectl.Req) (storectl.Resp, error) {
		e, err := decode(r)
		if err != nil {
			return storectl.Resp{}, err
		}
		if c.FM == nil {
			return storectl.Resp{}, fmt.Errorf("store not open")
		}
		// one P: the per-P caches of sync.Pool hand a released buffer to the next Acquire of its class
		runtime.GOMAXPROCS(1)
		perClass := e.PoolBufs
		if perClass <= 0 {
			perClass = 3
		}
		reqCh, ackCh, stop := make(chan struct{}), make(chan struct{}), make(chan struct{})
		go func() { // the other user of the pool
			for {
				select {
				case <-reqCh:
					poolRound(perClass)
					runtime.Gosched()
					ackCh <- struct{}{}
				case <-stop:
					return
				}
			}
		}()
		var window atomic.Bool
		var rounds atomic.Int32
		view := fracmanager.VerifC19WrapFracs(c.FM, func(f frac.Fraction) frac.Fraction {
			return &poolFrac{Fraction: f, onInfo: func() {
				if window.Load() {
					reqCh <- struct{}{} // yield to the other goroutine ...
					<-ackCh             // ... until it has finished one round
					rounds.Add(1)
				}
			}}
		})
		asyncDir, allFields = e.AsyncDir, e.Spec.Fields
		as := fracmanager.MustStartAsync(fracmanager.AsyncSearcherConfig{DataDir: e.AsyncDir, Parallelism: 1}, mappingProvider{e.Spec.mapping()}, view)
		window.Store(true)
		req := fracmanager.AsyncSearchRequest{ID: e.Spec.ID, Params: e.Spec.params(), Query: e.Spec.Query, Retention: 24 * time.Hour}
		if err := as.StartSearch(req); err != nil {
			window.Store(false)
			close(stop)
			return storectl.Resp{}, err
		}
		deadline := time.Now().Add(20 * time.Second)
		var out childResp
		for {
			resp, ok := as.FetchSearchResult(fracmanager.FetchSearchResultRequest{ID: e.Spec.ID})
			if !ok {
				out = childResp{Found: false}
				break
			}
			if resp.Done || time.Now().After(deadline) {
				out = childResp{Found: true, Done: resp.Done, QPR: canonQPR(&resp.QPR)}
				break
			}
			time.Sleep(time.Millisecond)
		}
		window.Store(false)
		close(stop)
		out.Files = listDir(e.AsyncDir)
		out.Rounds = int(rounds.Load())
		return answer(out), nil
	})
}

// poolSim mirrors the buffer numbering of the model (ModelStart.v: acquire) so that the plan of a case
// names buffers that exist: 0 free, 1 other, 2 mine
type poolSim struct {
	owner map[int]int
	next  int
}

func (s *poolSim) acquire(pick int, who int) int {
	if o, ok := s.owner[pick]; ok && pick >= 0 && o == 0 {
		s.owner[pick] = who
		return pick
	}
	id := s.next
	s.next++
	s.owner[id] = who
	return id
}

func optN(k int) string {
	if k < 0 {
		return "None"
	}
	return fmt.Sprintf("(Some %d)", k)
}

// round renders one round of the other goroutine as model steps: it goes for the buffer processFrac
// uses (or used last), for free buffers and for fresh ones, poisons what it got and releases it
func (s *poolSim) round(r *rng.R, target int) string {
	var steps []string
	var got []int
	picks := []int{target}
	for i, n := 0, r.Range(1, 3); i < n; i++ {
		var free []int
		for id, o := range s.owner {
			if o == 0 {
				free = append(free, id)
			}
		}
		sort.Ints(free)
		if len(free) > 0 && r.Chance(2, 3) {
			picks = append(picks, rng.Pick(r, free))
		} else {
			picks = append(picks, -1)
		}
	}
	for _, p := range picks {
		id := s.acquire(p, 1)
		got = append(got, id)
		steps = append(steps, "OAcquire "+optN(p))
	}
	for _, id := range got {
		pat := make([]string, r.Range(1, 6))
		for i := range pat {
			pat[i] = "170"
		}
		steps = append(steps, fmt.Sprintf("OFill %d [%s]", id, strings.Join(pat, "; ")))
	}
	for _, id := range got {
		s.owner[id] = 0
		steps = append(steps, fmt.Sprintf("ORelease %d", id))
	}
	return "[" + strings.Join(steps, "; ") + "]"
}

// planCoq: per fraction (in the request's order) the buffer Acquire hands out and the interleaving:
// rounds before the first step (Info() calls of StartSearch and doSearch) for the first fraction, one
// round between Compress and Write for every fraction
func planCoq(r *rng.R, fs []int) string {
	sim := &poolSim{owner: map[int]int{}}
	var parts []string
	last := -1
	for i, f := range fs {
		pre := "[]"
		if i == 0 {
			pre = sim.round(r, -1)
		}
		pick := last
		if r.Chance(1, 4) {
			pick = -1
		}
		mine := sim.acquire(pick, 2)
		mid := sim.round(r, mine)
		sim.owner[mine] = 0
		last = mine
		parts = append(parts, fmt.Sprintf("(%d, (%s, [%s; []; %s; []; []]))", f, optN(pick), pre, mid))
	}
	return "[" + strings.Join(parts, "; ") + "]"
}

// worldTerm numbers the fractions of a run and renders the Coq world
func worldTerm(w *world, per, sync childResp, bt *binTable) (*proj, string) {
	p := &proj{id: w.Spec.ID, rank: map[string]int{}, per: map[string]string{}, spec: w.Spec}
	var sorted []string
	for _, f := range per.PerFrac {
		p.names = append(p.names, f.Name)
		sorted = append(sorted, f.Name)
		b, _ := json.Marshal(f.QPR)
		p.per[f.Name] = string(b)
	}
	sort.Strings(sorted)
	for i, n := range sorted {
		p.rank[n] = i
	}
	var fs []int
	for _, n := range p.names {
		fs = append(fs, p.rank[n])
	}
	var pl []string
	for _, n := range sorted {
		for i := range per.PerFrac {
			if per.PerFrac[i].Name == n {
				pl = append(pl, fmt.Sprintf("(%d, %s)", p.rank[n], bt.qprCoq(&per.PerFrac[i].QPR)))
			}
		}
	}
	sq := sync.QPR
	if sq == nil {
		sq = &cQPR{}
	}
	return p, fmt.Sprintf("{| w_id := %s; w_fs := %s; w_hi := %d; w_rev := %s; w_limit := %d; w_naggs := %d%%nat; w_per := [%s]; w_sync := %s |}",
		casefile.Bytes([]byte(w.Spec.ID)), casefile.NList(fs), w.Spec.Hist, casefile.Bool(w.Spec.Reverse), w.Spec.Limit, len(w.Spec.Aggs),
		strings.Join(pl, "; "), bt.qprCoq(sq))
}

// runPool: one pool-pressure run on the corpus in root/data
func runPool(res *result, w *world, r *rng.R, root string, base func() map[string]any, vfp func(string) string) {
	in := base()
	in["kind"] = "pool-pressure"
	perClass := r.Range(2, 4)
	in["pool_buffers_per_class"] = perClass
	adir := root + "/async-pool"
	os.RemoveAll(adir)
	defer os.RemoveAll(adir)
	st, err := storectl.Start("")
	if err != nil {
		panic(fmt.Sprintf("harness: %v", err))
	}
	st.Timeout = 60e9
	defer st.Close()
	if _, err := st.Call(storectl.Req{Op: "open", Dir: root + "/data"}); err != nil {
		panic(fmt.Sprintf("harness: open: %v", err))
	}
	per, err := call(st, "c19.perfrac", childReq{Spec: w.Spec})
	if err != nil {
		panic(fmt.Sprintf("harness: perfrac: %v", err))
	}
	sync, err := call(st, "c19.sync", childReq{Spec: w.Spec})
	if err != nil {
		panic(fmt.Sprintf("harness: sync: %v", err))
	}
	got, err := call(st, "c19.poolrun", childReq{AsyncDir: adir, Spec: w.Spec, PoolBufs: perClass})
	if err != nil {
		if died(err) {
			res.viols = append(res.viols, violation{vfp("died-pool"), "the store process failed during an asynchronous search under bytes-pool pressure: " + err.Error(), in})
			return
		}
		panic(err)
	}
	bt := &binTable{ids: map[string]int{}}
	p, wterm := worldTerm(w, per, sync, bt)
	finCoq, finNames, unknown := p.listing(readAsyncDir(adir))
	for _, u := range unknown {
		res.viols = append(res.viols, violation{vfp("unexpected-file"), "file outside the persistence protocol in the async-search directory: " + u, in})
	}
	var fs []int
	for _, n := range p.names {
		fs = append(fs, p.rank[n])
	}
	q := got.QPR
	if q == nil {
		q = &cQPR{}
	}
	res.cases = append(res.cases, ccase{
		term:  fmt.Sprintf("CPool %s %s %s %s %s %s", wterm, planCoq(r, fs), finCoq, casefile.Bool(got.Found), casefile.Bool(got.Done), bt.qprCoq(q)),
		class: "pool-pressure", nontrivial: len(p.names) >= 2 && (w.Spec.Hist > 0 || len(w.Spec.Aggs) > 0), input: in,
		impl: map[string]any{"final_dir": finNames, "final_dir_classified": finCoq, "pool_rounds_between_steps": got.Rounds,
			"found": got.Found, "done": got.Done, "async": got.QPR, "sync": sync.QPR}})
	if got.Rounds > 0 {
		res.counts = append(res.counts, "pool:rounds-interleaved")
	}
	res.counts = append(res.counts, fmt.Sprintf("pool:fractions:%d", len(p.names)))
}
