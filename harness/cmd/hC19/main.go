package main

import (
	"encoding/hex"
	"encoding/json"
	"fmt"
	"os"

	"verif/harness/internal/storectl"
)

func call(st *storectl.Store, op string, e childReq) (childResp, error) {
	b, _ := json.Marshal(e)
	r, err := st.Call(storectl.Req{Op: op, Extra: b})
	var out childResp
	if err != nil {
		return out, err
	}
	if len(r.Extra) > 0 {
		if err := json.Unmarshal(r.Extra, &out); err != nil {
			return out, err
		}
	}
	return out, nil
}

func probe() {
	root, _ := os.MkdirTemp("", "verif-c19-")
	defer os.RemoveAll(root)
	data := root + "/data"
	os.MkdirAll(data, 0o755)
	st, err := storectl.Start("")
	if err != nil {
		panic(err)
	}
	must := func(r storectl.Resp, err error) storectl.Resp {
		if err != nil {
			panic(err)
		}
		return r
	}
	h := func(s string) string { return hex.EncodeToString([]byte(s)) }
	must(st.Call(storectl.Req{Op: "open", Dir: data}))
	must(st.Call(storectl.Req{Op: "bulk", Docs: []storectl.Doc{
		{MID: 1000, RID: 1, BodyHex: h(`{"a":"x"}`), Tokens: []string{"m:1", "g:a|b", "v:1.5"}},
		{MID: 1007, RID: 2, BodyHex: h(`{"a":"x"}`), Tokens: []string{"m:1", "g:web", "v:-2"}}}}))
	must(st.Call(storectl.Req{Op: "seal"}))
	if _, err := call(st, "c19.bulk", childReq{Docs: []hexDoc{
		{MID: 1000, RID: 1, Tokens: []string{h("m:1"), h("g:a|b"), h("v:1.5")}},
		{MID: 2000, RID: 3, Tokens: []string{h("m:1"), h("g:\xff"), h("v:2e0")}},
		{MID: 2001, RID: 4, Tokens: []string{h("m:1"), h("g:\xfe"), h("v:3")}}}}); err != nil {
		panic(err)
	}
	fmt.Println(must(st.Call(storectl.Req{Op: "fracs"})).Fracs)
	st.Close()

	spec := searchSpec{ID: "req1", Query: "m:1", Fields: []string{"m", "g", "v"}, From: 0, To: 1 << 40, Hist: 100, Limit: 1 << 30,
		Aggs: []aggSpec{{Fn: 1, Field: "v", Group: "g"}}}
	st, err = storectl.Start(root)
	if err != nil {
		panic(err)
	}
	must(st.Call(storectl.Req{Op: "open", Dir: data}))
	if _, err := call(st, "c19.start", childReq{AsyncDir: root + "/async", Parallelism: 1, Spec: spec}); err != nil {
		panic(err)
	}
	if _, err := call(st, "c19.search", childReq{Spec: spec}); err != nil {
		panic(err)
	}
	r, err := call(st, "c19.fetch", childReq{Spec: spec, Wait: true, TimeoutMs: 20000})
	fmt.Println("fetch:", err)
	b, _ := json.Marshal(r)
	fmt.Println(string(b))
	r, err = call(st, "c19.sync", childReq{Spec: spec})
	b, _ = json.Marshal(r)
	fmt.Println("sync:", err, string(b))
	r, err = call(st, "c19.perfrac", childReq{Spec: spec})
	b, _ = json.Marshal(r)
	fmt.Println("perfrac:", err, string(b))
	tr, err := st.Close()
	if err != nil {
		panic(err)
	}
	fmt.Println("verify:", tr.Verify())
	for i, o := range tr.Ops {
		fmt.Println(i, o)
	}
}

func main() {
	registerChildOps()
	storectl.MaybeChild()
	if len(os.Args) > 1 && os.Args[1] == "-probe" {
		probe()
		return
	}
}
