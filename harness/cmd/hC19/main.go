// hC19 — correspondence driver for property C19 (a finished asynchronous search equals the
// synchronous one and survives restarts).
//
// For every generated world (corpus in 0..4 fractions, query, histogram, aggregations) the driver
//  1. builds the fractions with the real append/seal path (controlled child process),
//  2. runs the REAL fracmanager.AsyncSearcher (MustStartAsync, StartSearch, FetchSearchResult) in a
//     child under crashfs (strace): every file operation of the persistence protocol is recorded,
//     together with the synchronous Searcher.SearchDocs answer and the per-fraction partial results,
//  3. rebuilds the directory at crash points of that run (after k operations; a write cut short;
//     power loss dropping unsynced data), starts a fresh child on it (MustStartAsync resumes), waits
//     for Done and fetches; optionally crashes the resumed run again (chain of crashes),
//  4. writes the observations as Coq cases (props/C19/coq/CaseDefs.v).
package main

import (
	"bytes"
	"encoding/hex"
	"encoding/json"
	"flag"
	"fmt"
	"os"
	"path/filepath"
	"sort"
	"strings"
	"sync"
	"time"

	"github.com/ozontech/seq-db/seq"
	"github.com/ozontech/seq-db/zstd"

	"verif/harness/internal/casefile"
	"verif/harness/internal/crashfs"
	"verif/harness/internal/rng"
	"verif/harness/internal/storectl"
)

func call(st *storectl.Store, op string, e childReq) (childResp, error) {
	b, _ := json.Marshal(e)
	r, err := st.Call(storectl.Req{Op: op, Extra: b})
	var out childResp
	if err != nil {
		return out, err
	}
	if len(r.Extra) > 0 {
		if err := json.Unmarshal(r.Extra, &out); err != nil {
			return out, err
		}
	}
	return out, nil
}

// ---------------------------------------------------------------- worlds

type doc struct {
	MID    uint64   `json:"mid"`
	RID    uint64   `json:"rid"`
	Tokens []string `json:"tokens"` // "field:value", hex when not printable
}

type world struct {
	Idx     int        `json:"world"`
	Fracs   [][]doc    `json:"fracs"`
	Sealed  []bool     `json:"sealed"`
	Spec    searchSpec `json:"spec"`
	BadUTF8 bool       `json:"invalid_utf8_group"`
	Dups    int        `json:"ids_in_two_fractions"`
	Span    uint64     `json:"-"`
	TextQuery bool     `json:"-"`
}

var fields = []string{"m", "g", "h", "v"}

// group values that stress the JSON key codec "mid|token"
var groupVals = []string{"api", "web", "7", "a|b", "|", "0|1|2", "x y", "Ünï", "q\"uote", "back\\slash", "<&>", "", "tab\tx", " ", "日本"}
var badVals = []string{"\xff", "\xfe", "ab\xffcd", "\xc3", "\xe2\x82"}

const midBase = 1_000_000

func exactValue(r *rng.R, k int64) string {
	neg := k < 0
	a := k
	if neg {
		a = -k
	}
	n := a * 625 // a/16 = n/10000
	ip, fp := n/10000, n%10000
	var s string
	switch r.Intn(4) {
	case 0, 1:
		fs := strings.TrimRight(fmt.Sprintf("%04d", fp), "0")
		if fs == "" {
			s = fmt.Sprint(ip)
		} else {
			s = fmt.Sprintf("%d.%s", ip, fs)
		}
	case 2:
		s = fmt.Sprintf("%de-4", n)
	default:
		s = fmt.Sprintf("%d.%04dE0", ip, fp)
	}
	if neg {
		s = "-" + s
	}
	return s
}

var textWords = []string{"alpha", "beta", "gamma", "delta"}

// genID: request IDs as the proxy makes them (uuid.New().String(): 8-4-4-4-12 hex digits), with every
// final hex digit covered over consecutive worlds, plus client-chosen IDs that end in a letter of
// "info" or contain "info". (IDs with '.' are not supported by the store: fracNameFromQPRPath.)
func genID(r *rng.R, idx int) string {
	const hexd = "0123456789abcdef"
	b := make([]byte, 32)
	for i := range b {
		b[i] = hexd[r.Intn(16)]
	}
	b[12] = '4'
	u := fmt.Sprintf("%s-%s-%s-%s-%s", b[0:8], b[8:12], b[12:16], b[16:20], b[20:32])
	switch c := idx % 22; {
	case c < 16:
		return u[:len(u)-1] + string(hexd[c])
	case c == 16:
		return "job-" + u[:8] + "-i"
	case c == 17:
		return "job-" + u[:8] + "n"
	case c == 18:
		return "job-" + u[:8] + "-fino"
	case c == 19:
		return "info-" + u[:8] + "-info"
	case c == 20:
		return u[:len(u)-3] + "fff"
	default:
		return "req_info_" + u[:13]
	}
}

func genWorld(seed uint64, idx int) *world {
	r := rng.New(seed*1000003 + uint64(idx)*7919 + 19)
	w := &world{Idx: idx}
	wantBad := idx%8 == 5 // worlds of the known finding resume/invalid-utf8-group (kept apart from all others)
	nf := r.Range(1, 4)
	if idx%16 == 9 {
		nf = 0 // the replica holds no matching fraction: the request is done at once
	}
	r2 := rng.New(seed*2654435761 + uint64(idx)*40503 + 5)
	span := uint64(r.Range(1, 3000))
	w.Span = span
	rid := uint64(r.Intn(1000))
	var all []doc
	for fi := 0; fi < nf; fi++ {
		nd := r.Range(1, 7)
		var ds []doc
		for i := 0; i < nd; i++ {
			if len(all) > 0 && fi > 0 && r.Chance(1, 4) {
				// the same document stored in two fractions (replayed bulk)
				d := rng.Pick(r, all)
				dup := false
				for _, x := range ds {
					if x.MID == d.MID && x.RID == d.RID {
						dup = true
					}
				}
				if !dup {
					ds = append(ds, d)
					w.Dups++
					continue
				}
			}
			rid += uint64(r.Range(1, 9))
			d := doc{MID: midBase + uint64(r.Intn(int(span)+1)), RID: rid}
			if r.Chance(3, 4) {
				d.Tokens = append(d.Tokens, "m:1")
			} else {
				d.Tokens = append(d.Tokens, "m:0")
			}
			if !r.Chance(1, 5) {
				v := rng.Pick(r, groupVals)
				if wantBad && r.Chance(1, 2) {
					v = rng.Pick(r, badVals)
					w.BadUTF8 = true
				}
				d.Tokens = append(d.Tokens, "g:"+v)
			}
			if !r.Chance(1, 4) {
				d.Tokens = append(d.Tokens, "h:"+rng.Pick(r, groupVals[:5]))
			}
			if !r.Chance(1, 5) {
				lim := int64(1) << uint(r.Range(3, 14))
				d.Tokens = append(d.Tokens, "v:"+exactValue(r, int64(r.Intn(int(2*lim+1)))-lim))
			}
			// a text-mapped field (one token per word) and a path-mapped field (one token per prefix)
			if !r2.Chance(1, 6) {
				seen := map[string]bool{}
				for i, nw := 0, r2.Range(1, 3); i < nw; i++ {
					if wd := rng.Pick(r2, textWords); !seen[wd] {
						seen[wd] = true
						d.Tokens = append(d.Tokens, "t:"+wd)
					}
				}
			}
			if r2.Chance(1, 2) {
				pth := ""
				for i, np := 0, r2.Range(1, 3); i < np; i++ {
					pth += "/" + rng.Pick(r2, []string{"api", "v1", "users"})
					d.Tokens = append(d.Tokens, "p:"+pth)
				}
			}
			ds = append(ds, d)
		}
		all = append(all, ds...)
		w.Fracs = append(w.Fracs, ds)
		w.Sealed = append(w.Sealed, fi < nf-1 || r.Bool())
	}
	s := searchSpec{ID: genID(r2, idx), Query: "m:1",
		Fields: fields, TextFields: []string{"t"}, PathFields: []string{"p"}, From: 0, To: 1 << 40, Limit: 1<<31 - 1}
	if r.Chance(1, 3) {
		s.Query = "m:1 or m:0"
	}
	// queries whose meaning depends on the mapping: several words on the text field are a conjunction
	switch r2.Intn(5) {
	case 0:
		a, b := rng.Pick(r2, textWords), rng.Pick(r2, textWords)
		s.Query = fmt.Sprintf(`t:"%s %s"`, a, b)
	case 1:
		a, b := rng.Pick(r2, textWords), rng.Pick(r2, textWords)
		s.Query = fmt.Sprintf(`(%s) and t:"%s %s"`, s.Query, a, b)
	case 2:
		s.Query = fmt.Sprintf(`(%s) or (t:"%s %s" and p:"/api")`, s.Query, rng.Pick(r2, textWords), rng.Pick(r2, textWords))
	}
	w.TextQuery = strings.Contains(s.Query, "t:")
	if r.Chance(1, 4) && nf > 0 {
		a, b := midBase+uint64(r.Intn(int(span)+1)), midBase+uint64(r.Intn(int(span)+1))
		if a > b {
			a, b = b, a
		}
		s.From, s.To = a, b
	}
	s.Reverse = r.Bool()
	if r.Chance(2, 3) {
		s.Hist = uint64(rng.Pick(r, []int{1, 1, 7, 100, 1000, 60000}))
	}
	if r.Chance(1, 5) {
		s.Limit = r.Range(1, 6)
	}
	s.WithTotal = r.Chance(1, 3)
	na := r.Range(0, 2)
	for i := 0; i < na; i++ {
		a := aggSpec{Interval: int64(rng.Pick(r, []int{0, 0, 7, 1000}))}
		a.Fn = rng.Pick(r, []int{seq.AggFuncCount, seq.AggFuncSum, seq.AggFuncMin, seq.AggFuncMax, seq.AggFuncAvg,
			seq.AggFuncQuantile, seq.AggFuncQuantile, seq.AggFuncUnique})
		switch a.Fn {
		case seq.AggFuncCount, seq.AggFuncUnique:
			a.Group = rng.Pick(r, []string{"g", "h"})
		default:
			a.Field = "v"
			if r.Chance(2, 3) {
				a.Group = rng.Pick(r, []string{"g", "h"})
			}
			if a.Fn == seq.AggFuncQuantile {
				a.Quants = [][]float64{{0.5}, {0.25, 0.99}, {0, 1}, {0.5, 0.75, 1}}[r.Intn(4)]
			}
		}
		s.Aggs = append(s.Aggs, a)
	}
	if w.BadUTF8 {
		s.Aggs = append(s.Aggs[:min(len(s.Aggs), 1)], aggSpec{Fn: seq.AggFuncCount, Group: "g"})
		s.Limit = 1<<31 - 1
	}
	w.Spec = s
	return w
}

func (w *world) jsonSafe() map[string]any {
	// tokens as hex when they are not valid printable text, so that the replay file is byte-exact
	fr := [][]map[string]any{}
	for _, f := range w.Fracs {
		var ds []map[string]any
		for _, d := range f {
			var ts []string
			for _, t := range d.Tokens {
				if b, _ := json.Marshal(t); strings.Contains(string(b), `�`) {
					ts = append(ts, "hex:"+hex.EncodeToString([]byte(t)))
				} else {
					ts = append(ts, t)
				}
			}
			ds = append(ds, map[string]any{"mid": d.MID, "rid": d.RID, "tokens": ts})
		}
		fr = append(fr, ds)
	}
	return map[string]any{"world": w.Idx, "fracs": fr, "sealed": w.Sealed, "spec": w.Spec,
		"ids_in_two_fractions": w.Dups}
}

// ---------------------------------------------------------------- results

type ccase struct {
	term, class string
	nontrivial  bool
	input, impl any
}
type violation struct {
	fp, what string
	input    any
}
type result struct {
	cases  []ccase
	viols  []violation
	counts []string
}

// ---------------------------------------------------------------- Coq rendering

type binTable struct {
	ids  map[string]int
	list []string
}

func (t *binTable) id(b cBin) int {
	k := fmt.Sprintf("%020d|%s", b.MID, b.TokHex)
	if v, ok := t.ids[k]; ok {
		return v
	}
	v := len(t.list)
	t.ids[k] = v
	t.list = append(t.list, k)
	return v
}

func zc(s string) string { return "(" + s + ")%Z" }

func (t *binTable) qprCoq(q *cQPR) string {
	var sb strings.Builder
	sb.WriteString("{| q_ids := [")
	for i, id := range q.IDs {
		if i > 0 {
			sb.WriteString("; ")
		}
		fmt.Fprintf(&sb, "(%d, %d)", id[0], id[1])
	}
	sb.WriteString("]; q_hist := [")
	for i, h := range q.Hist {
		if i > 0 {
			sb.WriteString("; ")
		}
		fmt.Fprintf(&sb, "(%d, %d)", h[0], h[1])
	}
	sb.WriteString("]; q_aggs := [")
	for i, a := range q.Aggs {
		if i > 0 {
			sb.WriteString("; ")
		}
		type kb struct {
			k int
			b cBin
		}
		var bs []kb
		for _, b := range a.Bins {
			bs = append(bs, kb{t.id(b), b})
		}
		sort.Slice(bs, func(i, j int) bool { return bs[i].k < bs[j].k })
		fmt.Fprintf(&sb, "(%s, [", zc(fmt.Sprint(a.NE)))
		for j, x := range bs {
			if j > 0 {
				sb.WriteString("; ")
			}
			b := x.b
			if b.Min == "nil" {
				b.Min, b.Max, b.Sum = "1", "-1", "777" // a nil container never equals a real one
			}
			var ss []string
			for _, s := range b.Samples {
				ss = append(ss, zc(s))
			}
			fmt.Fprintf(&sb, "(%d, {| sc_min := %s; sc_max := %s; sc_sum := %s; sc_total := %s; sc_ne := %s; sc_samples := [%s] |})",
				x.k, zc(b.Min), zc(b.Max), zc(b.Sum), zc(fmt.Sprint(b.Total)), zc(fmt.Sprint(b.NE)), strings.Join(ss, "; "))
		}
		sb.WriteString("])")
	}
	fmt.Fprintf(&sb, "]; q_total := %d |}", q.Total)
	return sb.String()
}

// ---------------------------------------------------------------- projection of files and operations

type proj struct {
	id    string
	names []string       // fraction names in start-time order
	rank  map[string]int // fraction name -> number (rank of the name = Glob order)
	per   map[string]string
	spec  searchSpec
	extra map[string]int // fractions that appeared after the request was started
}

func (p *proj) num(name string) (int, bool) {
	if k, ok := p.rank[name]; ok {
		return k, true
	}
	k, ok := p.extra[name]
	return k, ok
}

// live numbers the fractions alive at a resume; unknown names get numbers above the start-time ones
func (p *proj) liveList(names []string) []int {
	sorted := append([]string(nil), names...)
	sort.Strings(sorted)
	var out []int
	for _, n := range sorted {
		if _, ok := p.num(n); !ok {
			if p.extra == nil {
				p.extra = map[string]int{}
			}
			p.extra[n] = len(p.rank) + len(p.extra)
		}
		k, _ := p.num(n)
		out = append(out, k)
	}
	return out
}

// fname: Coq term of the file name, or "" for a file the protocol does not know
func (p *proj) fname(base string) string {
	if base == p.id+".info" {
		return "FInfo"
	}
	if base == p.id+".info.tmp" {
		return "FInfoTmp"
	}
	rest, ok := strings.CutPrefix(base, p.id+".")
	if !ok {
		return ""
	}
	if n, ok := strings.CutSuffix(rest, ".qpr"); ok {
		if k, ok := p.num(n); ok {
			return fmt.Sprintf("(FQpr %d)", k)
		}
	}
	if n, ok := strings.CutSuffix(rest, ".qpr.tmp"); ok {
		if k, ok := p.num(n); ok {
			return fmt.Sprintf("(FQprTmp %d)", k)
		}
	}
	return ""
}

func fkey(fn string) int {
	switch {
	case fn == "FInfo":
		return 0
	case fn == "FInfoTmp":
		return 1
	}
	var k int
	if _, err := fmt.Sscanf(fn, "(FQpr %d)", &k); err == nil {
		return 2 + 2*k
	}
	fmt.Sscanf(fn, "(FQprTmp %d)", &k)
	return 3 + 2*k
}

type infoFile struct {
	Done    bool
	Request struct {
		ID     string
		Query  string
		Params struct {
			AggQ         json.RawMessage
			HistInterval uint64
			From, To     uint64
			Limit        int
			WithTotal    bool
			Order        int
		}
	}
	Fractions []struct{ Name string }
}

// content classifies the bytes of a file: the complete request state, the complete partial result of
// the fraction the name says, or CTorn
func (p *proj) content(fn string, data []byte) (res string) {
	if len(data) >= longPad {
		return "CLong"
	}
	defer func() {
		if recover() != nil {
			res = "CTorn"
		}
	}()
	if strings.HasPrefix(fn, "FInfo") {
		var inf infoFile
		if err := json.Unmarshal(data, &inf); err != nil {
			return "CTorn"
		}
		ok := inf.Request.ID == p.id && inf.Request.Query == p.spec.Query && len(inf.Fractions) == len(p.names) &&
			inf.Request.Params.HistInterval == p.spec.Hist && inf.Request.Params.From == p.spec.From &&
			inf.Request.Params.To == p.spec.To && inf.Request.Params.Limit == p.spec.Limit &&
			inf.Request.Params.WithTotal == p.spec.WithTotal && (inf.Request.Params.Order == 1) == p.spec.Reverse
		for i := range inf.Fractions {
			ok = ok && i < len(p.names) && inf.Fractions[i].Name == p.names[i]
		}
		want, _ := json.Marshal(p.spec.aggQ())
		if len(p.spec.Aggs) == 0 {
			want = []byte("null")
		}
		ok = ok && string(inf.Request.Params.AggQ) == string(want)
		if !ok {
			return "CTorn"
		}
		return "(CInfo " + casefile.Bool(inf.Done) + ")"
	}
	var k int
	if _, err := fmt.Sscanf(fn, "(FQpr %d)", &k); err != nil {
		fmt.Sscanf(fn, "(FQprTmp %d)", &k)
	}
	raw, err := zstd.Decompress(data, nil)
	if err != nil {
		return "CTorn"
	}
	var q seq.QPR
	if err := json.Unmarshal(raw, &q); err != nil {
		return "CTorn"
	}
	b, _ := json.Marshal(canonQPR(&q))
	for name, r := range p.rank {
		if r == k && p.per[name] == string(b) {
			return fmt.Sprintf("(CQpr %d)", k)
		}
	}
	return "CTorn"
}

// listing renders the async directory as a Coq `dir` (sorted by key); unknown holds unexpected names
func (p *proj) listing(files map[string][]byte) (coq string, names []string, unknown []string) {
	type ent struct {
		k int
		s string
	}
	var es []ent
	for n, data := range files {
		names = append(names, n)
		fn := p.fname(n)
		if fn == "" {
			unknown = append(unknown, n)
			continue
		}
		es = append(es, ent{fkey(fn), p.content(fn, data)})
	}
	sort.Strings(names)
	sort.Slice(es, func(i, j int) bool { return es[i].k < es[j].k })
	var parts []string
	for _, e := range es {
		parts = append(parts, fmt.Sprintf("(%d, %s)", e.k, e.s))
	}
	return "[" + strings.Join(parts, "; ") + "]", names, unknown
}

type pop struct {
	coq   string
	text  string
	raw   int // index in the raw trace of the (last) system call of this operation
	first int // index of its first system call
	write bool
}

// ops projects the raw trace onto the operations below async/ ; marks = raw indices of the answers
func (p *proj) ops(tr *crashfs.Trace) (out []pop, marks []int, bad []string) {
	const pre = "async/"
	for i, o := range tr.Ops {
		if o.Kind == crashfs.Mark {
			marks = append(marks, i)
			continue
		}
		if o.Kind == crashfs.Mkdir && o.Path == "async" {
			out = append(out, pop{coq: "OMkdir", text: "mkdir async", raw: i, first: i})
			continue
		}
		if o.Kind == crashfs.FsyncDir && o.Path == "async" {
			out = append(out, pop{coq: "OFsyncDir", text: "fsyncdir async", raw: i, first: i})
			continue
		}
		if !strings.HasPrefix(o.Path, pre) {
			continue
		}
		fn := p.fname(o.Path[len(pre):])
		if fn == "" {
			bad = append(bad, o.String())
			continue
		}
		switch o.Kind {
		case crashfs.Create:
			out = append(out, pop{coq: "OCreate " + fn, text: o.String(), raw: i, first: i})
		case crashfs.Write:
			// consecutive writes to one file form one logical write (content = the file afterwards)
			if n := len(out); n > 0 && out[n-1].write && strings.HasPrefix(out[n-1].coq, "OWrite "+fn+" ") {
				out = out[:n-1]
			}
			first := i
			st := tr.StateAt(i + 1)
			data := st.Files()[o.Path]
			out = append(out, pop{coq: "OWrite " + fn + " " + p.content(fn, data), text: o.String(), raw: i, first: first, write: true})
		case crashfs.Fsync:
			out = append(out, pop{coq: "OFsync " + fn, text: o.String(), raw: i, first: i})
		case crashfs.Rename:
			fn2 := p.fname(strings.TrimPrefix(o.Path2, pre))
			if fn2 == "" {
				bad = append(bad, o.String())
				continue
			}
			out = append(out, pop{coq: "ORename " + fn + " " + fn2, text: o.String(), raw: i, first: i})
		default:
			bad = append(bad, o.String())
		}
	}
	return
}

func opsCoq(ops []pop) string {
	parts := make([]string, len(ops))
	for i, o := range ops {
		parts[i] = o.coq
	}
	return "[" + strings.Join(parts, "; ") + "]"
}
func opsText(ops []pop) []string {
	parts := make([]string, len(ops))
	for i, o := range ops {
		parts[i] = o.text
	}
	return parts
}

func asyncFiles(st *crashfs.State) map[string][]byte {
	out := map[string][]byte{}
	for n, b := range st.Files() {
		if rest, ok := strings.CutPrefix(n, "async/"); ok {
			out[rest] = b
		}
	}
	return out
}

func readAsyncDir(dir string) map[string][]byte {
	out := map[string][]byte{}
	ents, _ := os.ReadDir(dir)
	for _, e := range ents {
		b, err := os.ReadFile(filepath.Join(dir, e.Name()))
		if err == nil {
			out[e.Name()] = b
		}
	}
	return out
}

// ---------------------------------------------------------------- one world

const longPad = 4096

type crashPoint struct {
	K       int `json:"k"`
	Variant int `json:"variant"` // 0 after k operations; 1 the k-th operation (a write) cut short; 2 power loss after k; 3 leftover tmp files longer than any payload
	Cut     int `json:"cut,omitempty"`
	// the fraction list moves between the crash and the resume: after the restart, before the
	// asynchronous searcher is started, new matching documents in the query's range are ingested
	// (1 = into a new active fraction, 2 = and that fraction is sealed too)
	Ingest     int    `json:"ingest,omitempty"`
	IngestSeed uint64 `json:"ingest_seed,omitempty"`
}

type ingest struct {
	docs      []hexDoc
	sealFirst bool // the last start-time fraction is still active: rotate first, so that it does not change
	sealAfter bool
}

func (w *world) newDocs(cp crashPoint) *ingest {
	if cp.Ingest == 0 {
		return nil
	}
	r := rng.New(cp.IngestSeed)
	lo, hi := uint64(midBase), uint64(midBase)+w.Span
	if w.Spec.From > lo {
		lo = w.Spec.From
	}
	if w.Spec.To < hi {
		hi = w.Spec.To
	}
	ing := &ingest{sealAfter: cp.Ingest == 2, sealFirst: len(w.Sealed) > 0 && !w.Sealed[len(w.Sealed)-1]}
	n := r.Range(1, 4)
	for i := 0; i < n; i++ {
		d := hexDoc{MID: lo + uint64(r.Intn(int(hi-lo)+1)), RID: 900000 + cp.IngestSeed%1000*10 + uint64(i)}
		for _, t := range []string{"m:1", "t:alpha", "t:beta", "t:gamma", "t:delta", "p:/api", "g:" + rng.Pick(r, groupVals[:6]), "h:" + rng.Pick(r, groupVals[:5]), "v:" + exactValue(r, int64(r.Intn(200))-100)} {
			d.Tokens = append(d.Tokens, hex.EncodeToString([]byte(t)))
		}
		ing.docs = append(ing.docs, d)
	}
	return ing
}

// crashState builds the directory state for a crash of the run tr (projected ops) at cp
func crashState(tr *crashfs.Trace, ops []pop, cp crashPoint) *crashfs.State {
	rawAfter := func(k int) int { // number of raw operations to apply so that exactly k projected ones are complete
		if k == 0 {
			if len(ops) > 0 {
				return ops[0].first
			}
			return len(tr.Ops)
		}
		return ops[k-1].raw + 1
	}
	switch cp.Variant {
	case 1:
		o := ops[cp.K]
		st := tr.StateAt(o.raw)
		st.ApplyTorn(tr.Ops[o.raw], cp.Cut)
		return st
	case 2:
		st := tr.StateAt(rawAfter(cp.K))
		st.PowerLoss(func(path string, synced, length int) int { return synced })
		return st
	case 3: // every leftover temporary file is longer than anything a later run writes into it
		st := tr.StateAt(rawAfter(cp.K))
		for name, ino := range st.Names {
			if f := st.Inodes[ino]; f != nil && strings.HasPrefix(name, "async/") && strings.HasSuffix(name, ".tmp") {
				f.Data = append(f.Data, bytes.Repeat([]byte{'Z'}, longPad)...)
				f.Synced = len(f.Data)
			}
		}
		return st
	}
	return tr.StateAt(rawAfter(cp.K))
}

type runObs struct {
	tr    *crashfs.Trace
	ops   []pop
	marks []int
	fetch childResp
	sync  childResp
	per   childResp
	final map[string][]byte
	live  []string
}

// runChild starts a traced child on root (data in root/data, requests in root/async), lets
// MustStartAsync resume whatever is there, optionally starts the search, waits for Done and fetches.
func runChild(root string, spec searchSpec, fresh bool, ing *ingest) (*runObs, error) {
	return runChildPB(root, spec, fresh, ing, "")
}

// runChildPB: with pbStart the search is started through the store's real gRPC handler from the
// StartAsyncSearchRequest the proxy sent
func runChildPB(root string, spec searchSpec, fresh bool, ing *ingest, pbStart string) (*runObs, error) {
	st, err := storectl.Start(root)
	if err != nil {
		return nil, fmt.Errorf("harness: %w", err)
	}
	st.Timeout = 60e9
	closed := false
	defer func() {
		if !closed {
			st.Kill()
			st.Close()
		}
	}()
	if _, err := st.Call(storectl.Req{Op: "open", Dir: root + "/data"}); err != nil {
		return nil, fmt.Errorf("open: %w", err)
	}
	o := &runObs{}
	if ing != nil {
		if ing.sealFirst {
			if _, err := st.Call(storectl.Req{Op: "seal"}); err != nil {
				return nil, fmt.Errorf("harness: seal: %w", err)
			}
		}
		if _, err := call(st, "c19.bulk", childReq{Docs: ing.docs}); err != nil {
			return nil, fmt.Errorf("harness: ingest: %w", err)
		}
		if ing.sealAfter {
			if _, err := st.Call(storectl.Req{Op: "seal"}); err != nil {
				return nil, fmt.Errorf("harness: seal: %w", err)
			}
		}
	}
	if fr, err := call(st, "c19.fracs", childReq{}); err == nil {
		o.live = fr.Names
	}
	if _, err := call(st, "c19.start", childReq{AsyncDir: root + "/async", Parallelism: 1, Spec: spec}); err != nil {
		return nil, fmt.Errorf("start: %w", err)
	}
	if fresh && pbStart != "" {
		if _, err := call(st, "c19.pbstart", childReq{PBHex: pbStart}); err != nil {
			return nil, fmt.Errorf("search: %w", err)
		}
	} else if fresh {
		if _, err := call(st, "c19.search", childReq{Spec: spec}); err != nil {
			return nil, fmt.Errorf("search: %w", err)
		}
	}
	// wait for Done by watching <id>.info from this (untraced) process: polling FetchSearchResult in the
	// child would open and close descriptors concurrently with the protocol's own system calls
	waitDone(root+"/async/"+spec.ID+".info", 8*time.Second, st)
	if o.fetch, err = call(st, "c19.fetch", childReq{Spec: spec}); err != nil {
		return nil, fmt.Errorf("fetch: %w", err)
	}
	if fresh {
		if o.sync, err = call(st, "c19.sync", childReq{Spec: spec}); err != nil {
			return nil, fmt.Errorf("sync: %w", err)
		}
		if o.per, err = call(st, "c19.perfrac", childReq{Spec: spec}); err != nil {
			return nil, fmt.Errorf("perfrac: %w", err)
		}
	}
	closed = true
	tr, err := st.Close()
	if err != nil {
		return nil, fmt.Errorf("harness: trace: %w", err)
	}
	if err := tr.Verify(); err != nil {
		return nil, fmt.Errorf("harness: %w", err)
	}
	o.tr = tr
	o.final = readAsyncDir(root + "/async")
	return o, nil
}

// waitDone returns when the request file says Done, cannot be parsed (the request will not be found),
// the child is gone, or the time is up.
func waitDone(path string, limit time.Duration, st *storectl.Store) {
	deadline := time.Now().Add(limit)
	for time.Now().Before(deadline) {
		b, err := os.ReadFile(path)
		if err != nil {
			return
		}
		var inf struct{ Done bool }
		if json.Unmarshal(b, &inf) != nil || inf.Done {
			return
		}
		time.Sleep(time.Millisecond)
	}
}

// shapeOK: the projected operations are a sequence of complete atomic writes (optionally after mkdir)
func shapeOK(ops []pop) bool {
	i := 0
	if len(ops) > 0 && ops[0].coq == "OMkdir" {
		i = 1
	}
	if (len(ops)-i)%5 != 0 {
		return false
	}
	for ; i < len(ops); i += 5 {
		ok := strings.HasPrefix(ops[i].coq, "OCreate ") && strings.HasPrefix(ops[i+1].coq, "OWrite ") &&
			strings.HasPrefix(ops[i+2].coq, "OFsync ") && strings.HasPrefix(ops[i+3].coq, "ORename ") && ops[i+4].coq == "OFsyncDir"
		if !ok {
			return false
		}
	}
	return true
}

// runRace: a fresh process resumes the request on dir with the worker held in the mapping provider
// (it has listed its processed fractions and holds the only parallelism slot); FetchSearchResult is
// started, the worker is let go; the fetch lists the files and blocks on a named pipe among them while
// the worker finishes the request (Done); only then the pipe is released and the fetch returns.
func runRace(dir string, spec searchSpec) (got childResp, skipped string, err error) {
	st, err := storectl.Start("")
	if err != nil {
		return got, "", fmt.Errorf("harness: %w", err)
	}
	st.Timeout = 60e9
	defer st.Close()
	if _, err = st.Call(storectl.Req{Op: "open", Dir: dir + "/data"}); err != nil {
		return got, "", fmt.Errorf("open: %w", err)
	}
	if _, err = call(st, "c19.start", childReq{AsyncDir: dir + "/async", Parallelism: 1, Spec: spec, Gate: true}); err != nil {
		return got, "", fmt.Errorf("start: %w", err)
	}
	r, err := call(st, "c19.gate", childReq{Action: "wait_entered", TimeoutMs: 4000})
	if err != nil {
		return got, "", fmt.Errorf("gate: %w", err)
	}
	if !r.Found {
		return got, "worker-not-resumed", nil
	}
	if _, err = call(st, "c19.pipe", childReq{Action: "make", Spec: spec}); err != nil {
		return got, "", fmt.Errorf("harness: mkfifo: %w", err)
	}
	// the worker re-parses the query under the request lock, so the fetch (started now) waits for that
	// lock; once the gate opens the fetch looks the request up and lists the files long before the worker
	// has searched, compressed and fsynced its next partial result
	if _, err = call(st, "c19.fetch_bg", childReq{Spec: spec}); err != nil {
		return got, "", fmt.Errorf("fetch: %w", err)
	}
	time.Sleep(5 * time.Millisecond)
	if _, err = call(st, "c19.gate", childReq{Action: "open"}); err != nil {
		return got, "", fmt.Errorf("gate: %w", err)
	}
	r, err = call(st, "c19.pipe", childReq{Action: "wait_reader", TimeoutMs: 4000})
	if err != nil {
		return got, "", fmt.Errorf("pipe: %w", err)
	}
	if !r.Found {
		call(st, "c19.pipe", childReq{Action: "release"})
		return got, "fetch-did-not-reach-the-pipe", nil
	}
	waitDone(dir+"/async/"+spec.ID+".info", 8*time.Second, st)
	if _, err = call(st, "c19.pipe", childReq{Action: "release"}); err != nil {
		return got, "", fmt.Errorf("pipe: %w", err)
	}
	got, err = call(st, "c19.fetch_join", childReq{TimeoutMs: 8000})
	if err != nil {
		return got, "", fmt.Errorf("fetch: %w", err)
	}
	return got, "", nil
}

func buildCorpus(root string, w *world) error {
	st, err := storectl.Start("")
	if err != nil {
		return err
	}
	defer st.Close()
	if _, err := st.Call(storectl.Req{Op: "open", Dir: root + "/data"}); err != nil {
		return err
	}
	for fi, f := range w.Fracs {
		var ds []hexDoc
		for _, d := range f {
			hd := hexDoc{MID: d.MID, RID: d.RID}
			for _, t := range d.Tokens {
				hd.Tokens = append(hd.Tokens, hex.EncodeToString([]byte(t)))
			}
			ds = append(ds, hd)
		}
		if _, err := call(st, "c19.bulk", childReq{Docs: ds}); err != nil {
			return err
		}
		if w.Sealed[fi] {
			if _, err := st.Call(storectl.Req{Op: "seal"}); err != nil {
				return err
			}
		}
	}
	return nil
}

func died(err error) bool { return err != nil && !strings.HasPrefix(err.Error(), "harness:") }

func runWorld(seed uint64, idx int, tier string, only [][]crashPoint) (res *result) {
	res = &result{}
	w := genWorld(seed, idx)
	r := rng.New(seed*7777777 + uint64(idx)*104729 + 3)
	base := func() map[string]any {
		m := w.jsonSafe()
		m["seed"] = seed
		return m
	}
	// every observation of a world whose group-by tokens hold invalid UTF-8 is reported under the one
	// fingerprint of the known finding
	class, runClass, twiceClass := "resume", "run", "resume-twice"
	vfp := func(kind string) string { return kind + ":" + class }
	if w.BadUTF8 {
		class, runClass, twiceClass = "resume/invalid-utf8-group", "resume/invalid-utf8-group", "resume/invalid-utf8-group"
		vfp = func(string) string { return class }
	}
	defer func() {
		if p := recover(); p != nil {
			res.viols = append(res.viols, violation{"harness-error", fmt.Sprintf("hC19 internal error: %v", p), base()})
		}
	}()
	top, err := os.MkdirTemp("", "verif-c19-")
	if err != nil {
		panic(err)
	}
	defer os.RemoveAll(top)
	root := top + "/r0"
	os.MkdirAll(root+"/data", 0o755)
	if err := buildCorpus(root, w); err != nil {
		panic(fmt.Sprintf("corpus: %v", err))
	}
	// strace orders the completions of different threads only approximately; an observation whose
	// operations are not a sequence of complete atomic writes is taken again (a real defect shows again)
	var run0 *runObs
	for attempt := 0; attempt < 3; attempt++ {
		os.RemoveAll(root + "/async")
		run0, err = runChild(root, w.Spec, true, nil)
		if err != nil {
			break
		}
		pp := &proj{id: w.Spec.ID, rank: map[string]int{}, per: map[string]string{}, spec: w.Spec}
		for i, f := range run0.per.PerFrac {
			pp.rank[f.Name] = i
		}
		if o, _, bad := pp.ops(run0.tr); shapeOK(o) && len(bad) == 0 {
			break
		}
		res.counts = append(res.counts, "retry:run")
	}
	if err != nil {
		if died(err) {
			res.viols = append(res.viols, violation{vfp("died-run"), "the store process failed during an asynchronous search: " + err.Error(), base()})
			return
		}
		panic(err)
	}
	// fraction numbering
	p := &proj{id: w.Spec.ID, rank: map[string]int{}, per: map[string]string{}, spec: w.Spec}
	var sorted []string
	for _, f := range run0.per.PerFrac {
		p.names = append(p.names, f.Name)
		sorted = append(sorted, f.Name)
		b, _ := json.Marshal(f.QPR)
		p.per[f.Name] = string(b)
	}
	sort.Strings(sorted)
	for i, n := range sorted {
		p.rank[n] = i
	}
	bt := &binTable{ids: map[string]int{}}
	// world term
	var fs []int
	for _, n := range p.names {
		fs = append(fs, p.rank[n])
	}
	var per []string
	for _, n := range sorted {
		for i := range run0.per.PerFrac {
			if run0.per.PerFrac[i].Name == n {
				per = append(per, fmt.Sprintf("(%d, %s)", p.rank[n], bt.qprCoq(&run0.per.PerFrac[i].QPR)))
			}
		}
	}
	wterm := fmt.Sprintf("{| w_id := %s; w_fs := %s; w_hi := %d; w_rev := %s; w_limit := %d; w_naggs := %d%%nat; w_per := [%s]; w_sync := %s |}",
		casefile.Bytes([]byte(w.Spec.ID)), casefile.NList(fs), w.Spec.Hist, casefile.Bool(w.Spec.Reverse), w.Spec.Limit, len(w.Spec.Aggs),
		strings.Join(per, "; "), bt.qprCoq(run0.sync.QPR))
	nontriv := len(p.names) >= 2 && (w.Spec.Hist > 0 || len(w.Spec.Aggs) > 0)
	res.counts = append(res.counts, fmt.Sprintf("fractions:%d", len(p.names)))
	if w.Dups > 0 {
		res.counts = append(res.counts, "world:id-in-two-fractions")
	}
	if w.Spec.Hist > 0 {
		res.counts = append(res.counts, "world:histogram")
	}
	if len(w.Spec.Aggs) > 0 {
		res.counts = append(res.counts, "world:aggregations")
	}
	if w.Spec.Limit < 100 {
		res.counts = append(res.counts, "world:small-limit")
	}
	if w.TextQuery {
		res.counts = append(res.counts, "world:query-depends-on-mapping")
	}
	res.counts = append(res.counts, "request-id-ends-with:"+w.Spec.ID[len(w.Spec.ID)-1:])

	ops0, marks0, bad0 := p.ops(run0.tr)
	for _, b := range bad0 {
		res.viols = append(res.viols, violation{vfp("unexpected-op"), "operation outside the persistence protocol in the async-search directory: " + b, base()})
	}
	// number of projected operations completed when StartSearch was acknowledged (4th answer: open, fracs, start, search)
	acked := 0
	if len(marks0) >= 4 {
		for _, o := range ops0 {
			if o.raw < marks0[3] {
				acked++
			}
		}
	}
	qz := &cQPR{}
	resOf := func(f childResp) *cQPR {
		if f.QPR == nil {
			return qz
		}
		return f.QPR
	}
	// worlds of the known finding are judged here (async answer = sync answer, found, done) and reported
	// directly under its fingerprint; they produce no Coq cases, so that they cannot mask anything else
	sameAnswer := func(f childResp) bool {
		a, _ := json.Marshal(resOf(f))
		b, _ := json.Marshal(resOf(run0.sync))
		return f.Found && f.Done && string(a) == string(b)
	}
	if only == nil && w.BadUTF8 {
		res.counts = append(res.counts, "known-class-observations")
		if !sameAnswer(run0.fetch) {
			in := base()
			in["kind"] = "run"
			res.viols = append(res.viols, violation{class, "finished asynchronous search differs from the synchronous one (group-by tokens with invalid UTF-8)",
				map[string]any{"input": in, "async": run0.fetch.QPR, "sync": run0.sync.QPR}})
		}
	}
	if only == nil && !w.BadUTF8 {
		in := base()
		in["kind"] = "run"
		res.cases = append(res.cases, ccase{
			term: fmt.Sprintf("CRun %s %s %d%%nat %s %s %s %s", wterm, opsCoq(ops0), acked, casefile.Bool(run0.fetch.Found),
				casefile.Bool(run0.fetch.Done), casefile.Bool(run0.fetch.ReqOK), bt.qprCoq(resOf(run0.fetch))),
			class: runClass, nontrivial: nontriv, input: in,
			impl: map[string]any{"ops": opsText(ops0), "acked_after": acked, "async": run0.fetch.QPR, "sync": run0.sync.QPR, "files": run0.fetch.Files}})
	}

	// crash points of the first run
	var points []crashPoint
	for k := 0; k <= len(ops0); k++ {
		points = append(points, crashPoint{K: k})
		if k < len(ops0) && ops0[k].write {
			n := len(run0.tr.Ops[ops0[k].raw].Data)
			if n > 0 {
				points = append(points, crashPoint{K: k, Variant: 1, Cut: r.Intn(n)})
			}
		}
		if k > 0 && ops0[k-1].write {
			points = append(points, crashPoint{K: k, Variant: 2})
		}
		if k > 0 && (strings.HasPrefix(ops0[k-1].coq, "OCreate") || strings.HasPrefix(ops0[k-1].coq, "OWrite") || strings.HasPrefix(ops0[k-1].coq, "OFsync ")) {
			points = append(points, crashPoint{K: k, Variant: 3})
		}
	}
	budget := 10
	if tier == "thorough" {
		budget = 1000
	}
	var chains [][]crashPoint
	if only != nil {
		chains = only
	} else {
		if len(points) > budget {
			rng.Shuffle(r, points)
			points = points[:budget]
			sort.Slice(points, func(i, j int) bool {
				if points[i].K != points[j].K {
					return points[i].K < points[j].K
				}
				return points[i].Variant < points[j].Variant
			})
		}
		for _, cp := range points {
			chains = append(chains, []crashPoint{cp})
			// the same crash, but the fraction list moves before the resume
			if r.Chance(1, 3) {
				cp.Ingest, cp.IngestSeed = r.Range(1, 2), r.U64()%1000000
				chains = append(chains, []crashPoint{cp})
			}
		}
	}
	nsecond := 2
	if tier == "thorough" {
		nsecond = 6
	}
	for ci := 0; ci < len(chains); ci++ {
		chain := chains[ci]
		// replay the chain: first crash on run0, every further crash on the resumed run
		tr, ops := run0.tr, ops0
		var dir string
		var st *crashfs.State
		var obs *runObs
		var live []int
		okChain := true
		for li, cp := range chain {
			if cp.K > len(ops) || (cp.Variant == 1 && (cp.K >= len(ops) || !ops[cp.K].write)) {
				okChain = false
				break
			}
			st = crashState(tr, ops, cp)
			var bad []string
			var nops []pop
			for attempt := 0; attempt < 3; attempt++ {
				dir = fmt.Sprintf("%s/c%d_%d_%d", top, ci, li, attempt)
				if err := st.Materialize(dir); err != nil {
					panic(err)
				}
				os.MkdirAll(dir+"/data", 0o755)
				obs, err = runChild(dir, w.Spec, false, w.newDocs(cp))
				if err != nil {
					break
				}
				live = p.liveList(obs.live)
				nops, _, bad = p.ops(obs.tr)
				if shapeOK(nops) && len(bad) == 0 {
					break
				}
				res.counts = append(res.counts, "retry:restart")
				if attempt < 2 {
					os.RemoveAll(dir)
				}
			}
			if err != nil {
				break
			}
			tr, ops = obs.tr, nops
			for _, b := range bad {
				res.viols = append(res.viols, violation{vfp("unexpected-op"), "operation outside the persistence protocol in the async-search directory: " + b, base()})
			}
		}
		if !okChain {
			continue
		}
		in := base()
		in["kind"] = "crash"
		in["chain"] = chain
		if err != nil {
			if died(err) {
				res.viols = append(res.viols, violation{vfp("died-restart"), "the store process failed when restarted on a crash state of an asynchronous search: " + err.Error(), in})
				continue
			}
			panic(err)
		}
		obsCoq, obsNames, unknown := p.listing(asyncFiles(st))
		finCoq, finNames, unknown2 := p.listing(obs.final)
		for _, u := range append(unknown, unknown2...) {
			res.viols = append(res.viols, violation{vfp("unexpected-file"), "file outside the persistence protocol in the async-search directory: " + u, in})
		}
		var cc []string
		for _, cp := range chain {
			cc = append(cc, fmt.Sprintf("(%d%%nat, %d)", cp.K, cp.Variant))
		}
		if w.BadUTF8 {
			res.counts = append(res.counts, "known-class-observations")
			if strings.Contains(obsCoq, "(0, (CInfo") && !sameAnswer(obs.fetch) {
				res.viols = append(res.viols, violation{class, "finished asynchronous search differs from the synchronous one after a restart (group-by tokens with invalid UTF-8)",
					map[string]any{"input": in, "async": obs.fetch.QPR, "sync": run0.sync.QPR}})
			}
			os.RemoveAll(dir)
			continue
		}
		first := chain[0]
		ack := first.K >= acked && !(first.Variant == 1 && first.K < acked)
		cl := class
		if len(chain) > 1 {
			cl = twiceClass
		}
		res.cases = append(res.cases, ccase{
			term: fmt.Sprintf("CCrash %s [%s] %s %s %s %s %s %s %s %s %s", wterm, strings.Join(cc, "; "), casefile.Bool(ack), casefile.NList(live), obsCoq,
				opsCoq(ops), finCoq, casefile.Bool(obs.fetch.Found), casefile.Bool(obs.fetch.Done), casefile.Bool(obs.fetch.ReqOK),
				bt.qprCoq(resOf(obs.fetch))),
			class: cl, nontrivial: nontriv && strings.Contains(obsCoq, "CInfo false"), input: in,
			impl: map[string]any{"live_fractions_at_resume": obs.live, "crash_dir": obsNames, "crash_dir_classified": obsCoq, "resume_ops": opsText(ops), "final_dir": finNames,
				"found": obs.fetch.Found, "done": obs.fetch.Done, "async": obs.fetch.QPR, "sync": run0.sync.QPR}})
		res.counts = append(res.counts, fmt.Sprintf("crash-variant:%d", chain[len(chain)-1].Variant))
		for _, cp := range chain {
			if cp.Ingest > 0 {
				res.counts = append(res.counts, "resume:fraction-list-moved")
				break
			}
		}
		if strings.Contains(obsCoq, "CQpr") && strings.Contains(obsCoq, "CInfo false") {
			res.counts = append(res.counts, "crash:partial-results-persisted")
		}
		// a second crash inside the resumed run
		if only == nil && len(chain) == 1 && len(ops) > 0 && nsecond > 0 && r.Chance(1, 2) {
			nsecond--
			cp2 := crashPoint{K: r.Intn(len(ops) + 1)}
			if cp2.K < len(ops) && ops[cp2.K].write && r.Bool() {
				if n := len(obs.tr.Ops[ops[cp2.K].raw].Data); n > 0 {
					cp2.Variant, cp2.Cut = 1, r.Intn(n)
				}
			} else if cp2.K > 0 && ops[cp2.K-1].write {
				cp2.Variant = r.Range(2, 3)
			}
			chains = append(chains, []crashPoint{chain[0], cp2})
		}
		os.RemoveAll(dir)
	}
	// FetchSearchResult overlapping the worker (see runRace)
	if only == nil && !w.BadUTF8 && len(p.names) > 0 && shapeOK(ops0) {
		var ks []int
		for i := 0; i < len(p.names); i++ {
			ks = append(ks, 6+5*i)
		}
		if tier != "thorough" && len(ks) > 2 {
			rng.Shuffle(r, ks)
			ks = ks[:2]
			sort.Ints(ks)
		}
		for _, k := range ks {
			if k > len(ops0) {
				continue
			}
			in := base()
			in["kind"] = "race"
			in["k"] = k
			dir := fmt.Sprintf("%s/race%d", top, k)
			if err := crashState(run0.tr, ops0, crashPoint{K: k}).Materialize(dir); err != nil {
				panic(err)
			}
			os.MkdirAll(dir+"/data", 0o755)
			got, skipped, err := runRace(dir, w.Spec)
			os.RemoveAll(dir)
			if err != nil {
				if died(err) {
					res.viols = append(res.viols, violation{vfp("died-race"), "the store process failed while a fetch overlapped the resumed search: " + err.Error(), in})
					continue
				}
				panic(err)
			}
			if skipped != "" {
				res.counts = append(res.counts, "race-skipped:"+skipped)
				continue
			}
			res.cases = append(res.cases, ccase{
				term: fmt.Sprintf("CRace %s %d%%nat %s %s %s", wterm, k, casefile.Bool(got.Found), casefile.Bool(got.Done), bt.qprCoq(resOf(got))),
				class: "fetch-overlaps-worker", nontrivial: len(p.names) >= 2, input: in,
				impl: map[string]any{"partial_results_listed": (k - 6) / 5, "fractions": len(p.names), "found": got.Found, "done": got.Done,
					"async": got.QPR, "sync": run0.sync.QPR}})
		}
	}
	// the uninterrupted run once more, with another goroutine working on the global bytes pool between
	// the steps of processFrac (pool.go)
	if only == nil && !w.BadUTF8 {
		runPool(res, w, r, root, base, vfp)
	}
	return res
}

func main() {
	registerChildOps()
	registerPoolOps()
	storectl.MaybeChild()
	seed := flag.Uint64("seed", 1, "")
	tier := flag.String("tier", "quick", "")
	out := flag.String("out", "", "")
	replay := flag.String("replay", "", "")
	flag.Parse()
	if *out == "" {
		fmt.Fprintln(os.Stderr, "need -out")
		os.Exit(2)
	}
	cw, err := casefile.New(*out, "C19", "From Coq Require Import ZArith List.\nFrom VLib Require Import CaseLib.\nFrom C19 Require Import Model ModelStart CaseDefs.\nImport ListNotations.\nOpen Scope N_scope.", 60)
	if err != nil {
		panic(err)
	}
	flush := func(res *result) {
		for _, c := range res.cases {
			cw.Add(c.term, c.class, c.nontrivial, c.input, c.impl)
		}
		for _, v := range res.viols {
			cw.Violate(v.fp, v.what, v.input)
		}
		for _, k := range res.counts {
			cw.Count(k)
		}
	}
	if *replay != "" {
		doReplay(*replay, flush)
		if err := cw.Close(); err != nil {
			panic(err)
		}
		return
	}
	nworlds := 30
	if *tier == "thorough" {
		nworlds = 160
	}
	results := make([]*result, nworlds)
	var wg sync.WaitGroup
	sem := make(chan struct{}, 4)
	for i := 0; i < nworlds; i++ {
		wg.Add(1)
		sem <- struct{}{}
		go func(i int) {
			defer wg.Done()
			defer func() { <-sem }()
			results[i] = runWorld(*seed, i, *tier, nil)
		}(i)
	}
	nclusters := 8
	if *tier == "thorough" {
		nclusters = 30
	}
	cres := make([]*result, nclusters)
	for i := 0; i < nclusters; i++ {
		wg.Add(1)
		sem <- struct{}{}
		go func(i int) {
			defer wg.Done()
			defer func() { <-sem }()
			cres[i] = runCluster(*seed, i, *tier)
		}(i)
	}
	wg.Wait()
	for _, res := range results {
		flush(res)
	}
	for _, res := range cres {
		flush(res)
	}
	if err := cw.Close(); err != nil {
		panic(err)
	}
}

// replay: regenerate the world of the stored case from (seed, world) and re-run its crash chain only
func doReplay(path string, flush func(*result)) {
	b, err := os.ReadFile(path)
	if err != nil {
		panic(err)
	}
	var rp struct {
		Seed   uint64 `json:"seed"`
		Tier   string `json:"tier"`
		Replay struct {
			Case struct {
				Input map[string]json.RawMessage `json:"input"`
			} `json:"case"`
			Input map[string]json.RawMessage `json:"input"`
		} `json:"replay"`
	}
	if err := json.Unmarshal(b, &rp); err != nil {
		panic(err)
	}
	in := rp.Replay.Case.Input
	if in == nil {
		in = rp.Replay.Input
	}
	seed, wi := rp.Seed, 0
	json.Unmarshal(in["seed"], &seed)
	if _, ok := in["cluster"]; ok {
		ci := 0
		json.Unmarshal(in["cluster"], &ci)
		res := runCluster(seed, ci, "thorough")
		fmt.Printf("replay seed=%d cluster=%d: %d cases, %d direct violations\n", seed, ci, len(res.cases), len(res.viols))
		flush(res)
		return
	}
	json.Unmarshal(in["world"], &wi)
	var chain []crashPoint
	json.Unmarshal(in["chain"], &chain)
	var only [][]crashPoint
	if len(chain) > 0 {
		only = [][]crashPoint{chain}
	}
	res := runWorld(seed, wi, rp.Tier, only)
	fmt.Printf("replay seed=%d world=%d chain=%v: %d cases, %d direct violations\n", seed, wi, chain, len(res.cases), len(res.viols))
	for _, c := range res.cases {
		j, _ := json.Marshal(c.impl)
		fmt.Printf("  %s: %s\n", c.class, j)
	}
	for _, v := range res.viols {
		fmt.Printf("  VIOLATION %s: %s\n", v.fp, v.what)
	}
	flush(res)
}
