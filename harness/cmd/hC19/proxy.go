package main

// Proxy level of property C19: the REAL search.Ingestor (proxy/search/async.go: StartAsyncSearch,
// FetchAsyncSearchResult) over 1-3 shards x replicas of scripted store clients. The StartAsyncSearch
// request the proxy sends is handed to the real store handler of every shard (child process); the
// answers the fake clients give are REAL answers of the store handler FetchAsyncSearchResult taken at
// different progress of the shard's request: unknown, i of n partial results persisted and not resumed
// yet, done, resumed after a crash and done.

import (
	"context"
	"encoding/hex"
	"encoding/json"
	"fmt"
	"os"
	"sort"
	"strings"
	"time"

	pb "github.com/ozontech/seq-db/pkg/storeapi"
	"github.com/ozontech/seq-db/proxy/search"
	"github.com/ozontech/seq-db/proxy/stores"
	"github.com/ozontech/seq-db/seq"
	"google.golang.org/grpc"
	"google.golang.org/grpc/codes"
	"google.golang.org/grpc/status"
	"google.golang.org/protobuf/proto"

	"verif/harness/internal/casefile"
	"verif/harness/internal/rng"
	"verif/harness/internal/storectl"
)

type storeAnswer struct {
	Label string `json:"state"`
	Found bool   `json:"found"`
	Done  bool   `json:"done"`
	pb    *pb.FetchAsyncSearchResultResponse
	QPR   *cQPR `json:"qpr,omitempty"`
}

type fakeStore struct {
	pb.StoreApiClient
	name    string
	starts  *[]startCall
	answer  *storeAnswer // nil or !Found: the store does not know the request
	fetched *[]string
}

type startCall struct {
	host string
	req  *pb.StartAsyncSearchRequest
}

func (f *fakeStore) StartAsyncSearch(ctx context.Context, in *pb.StartAsyncSearchRequest, opts ...grpc.CallOption) (*pb.StartAsyncSearchResponse, error) {
	*f.starts = append(*f.starts, startCall{f.name, proto.Clone(in).(*pb.StartAsyncSearchRequest)})
	return &pb.StartAsyncSearchResponse{}, nil
}

func (f *fakeStore) FetchAsyncSearchResult(ctx context.Context, in *pb.FetchAsyncSearchResultRequest, opts ...grpc.CallOption) (*pb.FetchAsyncSearchResultResponse, error) {
	*f.fetched = append(*f.fetched, f.name)
	if f.answer == nil || !f.answer.Found {
		return nil, status.Error(codes.NotFound, "search not found")
	}
	return proto.Clone(f.answer.pb).(*pb.FetchAsyncSearchResultResponse), nil
}

// layout[s][r] = answer of replica r of shard s (nil = NotFound)
func buildIngestor(layout [][]*storeAnswer, starts *[]startCall, fetched *[]string) *search.Ingestor {
	clients := map[string]pb.StoreApiClient{}
	hot := &stores.Stores{Shards: [][]string{}}
	for si, reps := range layout {
		var names []string
		for ri, a := range reps {
			n := fmt.Sprintf("s%dr%d", si, ri)
			clients[n] = &fakeStore{name: n, starts: starts, answer: a, fetched: fetched}
			names = append(names, n)
		}
		hot.Shards = append(hot.Shards, names)
	}
	empty := func() *stores.Stores { return &stores.Stores{Shards: [][]string{}} }
	return search.NewIngestor(search.Config{HotStores: hot, HotReadStores: empty(), ReadStores: empty(), WriteStores: empty()}, clients)
}

// answerOf asks the real store handler on the async directory state (materialised in dir)
func answerOf(dir string, spec searchSpec, loadOnly bool, label string) (*storeAnswer, error) {
	st, err := storectl.Start("")
	if err != nil {
		return nil, fmt.Errorf("harness: %w", err)
	}
	defer st.Close()
	st.Timeout = 60e9
	if _, err := st.Call(storectl.Req{Op: "open", Dir: dir + "/data"}); err != nil {
		return nil, fmt.Errorf("open: %w", err)
	}
	if _, err := call(st, "c19.start", childReq{AsyncDir: dir + "/async", Parallelism: 1, Spec: spec, LoadOnly: loadOnly}); err != nil {
		return nil, fmt.Errorf("start: %w", err)
	}
	if !loadOnly {
		waitDone(dir+"/async/"+spec.ID+".info", 8*time.Second, st)
	}
	r, err := call(st, "c19.pbfetch", childReq{Spec: spec})
	if err != nil {
		return nil, fmt.Errorf("fetch: %w", err)
	}
	a := &storeAnswer{Label: label, Found: r.Found, Done: r.Done}
	if r.Found {
		b, err := hex.DecodeString(r.PBHex)
		if err != nil {
			return nil, fmt.Errorf("harness: %w", err)
		}
		a.pb = &pb.FetchAsyncSearchResultResponse{}
		if err := proto.Unmarshal(b, a.pb); err != nil {
			return nil, fmt.Errorf("harness: %w", err)
		}
		a.QPR = canonQPR(search.VerifC06ResponseToQPR(a.pb.Response, 0))
	}
	return a, nil
}

type shardData struct {
	w       *world
	sync    *cQPR
	answers []*storeAnswer // answers[0] = unknown
}

func runCluster(seed uint64, ci int, tier string) (res *result) {
	res = &result{}
	r := rng.New(seed*31337 + uint64(ci)*977 + 11)
	nshards := []int{2, 3, 1, 2, 3, 2}[ci%6]
	var ws []*world
	idx := 2000 + ci*8
	for len(ws) < nshards {
		if idx%8 != 5 {
			ws = append(ws, genWorld(seed, idx))
		}
		idx++
	}
	spec := ws[0].Spec
	spec.Limit, spec.WithTotal, spec.ID = 1<<31-1, false, ""
	size := 1<<31 - 1
	if r.Chance(1, 3) {
		size = r.Range(1, 6)
	}
	input := func() map[string]any {
		var shards []any
		for _, w := range ws {
			m := w.jsonSafe()
			delete(m, "spec")
			shards = append(shards, m)
		}
		return map[string]any{"seed": seed, "cluster": ci, "kind": "proxy", "shards": shards, "spec": spec, "size": size}
	}
	defer func() {
		if p := recover(); p != nil {
			res.viols = append(res.viols, violation{"harness-error", fmt.Sprintf("hC19 internal error (proxy class): %v", p), input()})
		}
	}()

	// 1. the proxy starts the search on every shard
	var starts []startCall
	var fetched []string
	startLayout := make([][]*storeAnswer, nshards)
	for i := range startLayout {
		startLayout[i] = make([]*storeAnswer, r.Range(1, 2))
	}
	si := buildIngestor(startLayout, &starts, &fetched)
	var aggs []search.AggQuery
	for _, a := range spec.Aggs {
		aggs = append(aggs, search.AggQuery{Field: a.Field, GroupBy: a.Group, Func: seq.AggFunc(a.Fn), Quantiles: a.Quants, Interval: seq.MID(a.Interval)})
	}
	order := seq.DocsOrderDesc
	if spec.Reverse {
		order = seq.DocsOrderAsc
	}
	sresp, err := si.StartAsyncSearch(context.Background(), search.AsyncRequest{Query: spec.Query, From: time.UnixMilli(int64(spec.From)),
		To: time.UnixMilli(int64(spec.To)), Order: order, Aggregations: aggs, HistogramInterval: seq.MID(spec.Hist)})
	if err != nil {
		res.viols = append(res.viols, violation{"proxy-start", "Ingestor.StartAsyncSearch failed although every store accepted: " + err.Error(), input()})
		return
	}
	okStart := len(starts) == nshards
	for i, s := range starts {
		okStart = okStart && s.host == fmt.Sprintf("s%dr0", i) && s.req.SearchId == sresp.ID && proto.Equal(s.req, starts[0].req)
	}
	if !okStart {
		res.viols = append(res.viols, violation{"proxy-start", "Ingestor.StartAsyncSearch did not send one identical request to the first replica of every shard", input()})
		return
	}
	spec.ID = sresp.ID
	pbStart, _ := proto.Marshal(starts[0].req)

	// 2. every shard runs the request for real; its answers at every progress are collected
	top, err := os.MkdirTemp("", "verif-c19p-")
	if err != nil {
		panic(err)
	}
	defer os.RemoveAll(top)
	var shards []shardData
	for j, w := range ws {
		root := fmt.Sprintf("%s/s%d", top, j)
		os.MkdirAll(root+"/data", 0o755)
		if err := buildCorpus(root, w); err != nil {
			panic(fmt.Sprintf("corpus: %v", err))
		}
		var run0 *runObs
		var ops0 []pop
		p := &proj{id: spec.ID, rank: map[string]int{}, per: map[string]string{}, spec: spec}
		for attempt := 0; attempt < 3; attempt++ {
			os.RemoveAll(root + "/async")
			run0, err = runChildPB(root, spec, true, nil, hex.EncodeToString(pbStart))
			if err != nil {
				break
			}
			p.rank = map[string]int{}
			var sorted []string
			for _, f := range run0.per.PerFrac {
				sorted = append(sorted, f.Name)
			}
			sort.Strings(sorted)
			for i, n := range sorted {
				p.rank[n] = i
			}
			var bad []string
			ops0, _, bad = p.ops(run0.tr)
			if shapeOK(ops0) && len(bad) == 0 {
				break
			}
		}
		if err != nil {
			if died(err) {
				res.viols = append(res.viols, violation{"died-run:proxy", "the store process failed during an asynchronous search started through the gRPC handler: " + err.Error(), input()})
				return
			}
			panic(err)
		}
		if !run0.fetch.Found || !run0.fetch.Done || !run0.fetch.ReqOK {
			res.viols = append(res.viols, violation{"store-start:proxy", "a search started through the store's StartAsyncSearch handler did not finish with the request's parameters", input()})
			return
		}
		n := len(run0.per.PerFrac)
		sd := shardData{w: w, sync: run0.sync.QPR, answers: []*storeAnswer{{Label: "unknown"}}}
		state := func(k int, loadOnly bool, label string) {
			if k > len(ops0) {
				return
			}
			dir := fmt.Sprintf("%s/s%d_%s", top, j, label)
			if err := crashState(run0.tr, ops0, crashPoint{K: k}).Materialize(dir); err != nil {
				panic(err)
			}
			os.MkdirAll(dir+"/data", 0o755)
			a, err := answerOf(dir, spec, loadOnly, label)
			os.RemoveAll(dir)
			if err != nil {
				if died(err) {
					res.viols = append(res.viols, violation{"died-restart:proxy", "the store process failed on a crash state: " + err.Error(), input()})
					return
				}
				panic(err)
			}
			sd.answers = append(sd.answers, a)
		}
		if n > 0 {
			for i := 0; i < n; i++ {
				state(6+5*i, true, fmt.Sprintf("running-%d-of-%d", i, n))
			}
			state(6+5*r.Intn(n), false, "resumed")
		}
		state(len(ops0), true, "done")
		shards = append(shards, sd)
	}

	// 3. every combination of per-shard progress (sampled when there are too many)
	bt := &binTable{ids: map[string]int{}}
	budget := 24
	if tier == "thorough" {
		budget = 400
	}
	var combos [][]int
	var rec func(pre []int)
	rec = func(pre []int) {
		if len(pre) == nshards {
			combos = append(combos, append([]int(nil), pre...))
			return
		}
		for i := range shards[len(pre)].answers {
			rec(append(pre, i))
		}
	}
	rec(nil)
	if len(combos) > budget {
		rng.Shuffle(r, combos)
		keep := combos[:budget]
		allDone := make([]int, nshards)
		for j := range allDone {
			allDone[j] = len(shards[j].answers) - 1
		}
		keep = append(keep, allDone)
		combos = keep
	}
	naggs := len(spec.Aggs)
	for _, combo := range combos {
		layout := make([][]*storeAnswer, nshards)
		var shardCoq, labels []string
		for j, ai := range combo {
			a := shards[j].answers[ai]
			labels = append(labels, a.Label)
			var reps []*storeAnswer
			switch {
			case !a.Found:
				reps = make([]*storeAnswer, r.Range(1, 2)) // no replica knows the request
			default:
				switch r.Intn(3) {
				case 0:
					reps = []*storeAnswer{a}
				case 1:
					reps = []*storeAnswer{nil, a} // the first replica does not know it
				default:
					reps = []*storeAnswer{a, nil}
				}
			}
			layout[j] = reps
			var rc []string
			for _, x := range reps {
				if x == nil || !x.Found {
					rc = append(rc, "RNotFound")
				} else {
					rc = append(rc, fmt.Sprintf("RAnswer %s %s", casefile.Bool(x.Done), bt.qprCoq(x.QPR)))
				}
			}
			shardCoq = append(shardCoq, "["+strings.Join(rc, "; ")+"]")
		}
		var st2 []startCall
		var ft []string
		ing := buildIngestor(layout, &st2, &ft)
		resp, err := ing.FetchAsyncSearchResult(context.Background(), search.FetchAsyncSearchResultRequest{ID: spec.ID, Size: size})
		implCoq := "None"
		impl := map[string]any{"store_states": labels, "asked": ft}
		if err != nil {
			if status.Code(err) != codes.NotFound {
				res.viols = append(res.viols, violation{"proxy-fetch-error", "Ingestor.FetchAsyncSearchResult failed: " + err.Error(),
					map[string]any{"input": input(), "store_states": labels}})
				continue
			}
			impl["error"] = "NotFound"
		} else {
			q := canonQPR(&resp.QPR)
			implCoq = fmt.Sprintf("Some (%s, %s)", casefile.Bool(resp.Done), bt.qprCoq(q))
			impl["done"], impl["qpr"] = resp.Done, q
		}
		var syncs []string
		for j := range shards {
			syncs = append(syncs, bt.qprCoq(shards[j].sync))
		}
		in := input()
		in["store_states"] = labels
		notDone, known := 0, 0
		for j, ai := range combo {
			if a := shards[j].answers[ai]; a.Found {
				known++
				if !a.Done {
					notDone++
				}
			}
		}
		b, _ := json.Marshal(impl)
		_ = b
		res.cases = append(res.cases, ccase{
			term: fmt.Sprintf("CProxy %d%%nat %d %d %s [%s] [%s] (%s)", naggs, size, spec.Hist, casefile.Bool(spec.Reverse),
				strings.Join(shardCoq, "; "), strings.Join(syncs, "; "), implCoq),
			class: "proxy", nontrivial: known >= 2 && notDone >= 1, input: in, impl: impl})
		switch {
		case known == 0:
			res.counts = append(res.counts, "proxy:no-shard-knows")
		case notDone == 0:
			res.counts = append(res.counts, "proxy:all-done")
		default:
			res.counts = append(res.counts, "proxy:some-shard-running")
		}
	}
	// 4. histories that begin with the start: scripted refusals of StartAsyncSearch, then the fetch (start.go)
	startCases(res, r, tier, shards, spec, size, bt, input)
	res.counts = append(res.counts, fmt.Sprintf("proxy-shards:%d", nshards))
	return res
}
