package main

// gen-<func> correspondence classes: validation of the Go-to-Gallina translator (harness/cmd/go2coq).
// The REAL functions are called on boundary and generated arguments; case_agrees evaluates the
// definitions GENERATED from their source (props/C04/coq/Gen.v) on the same arguments.

import (
	"github.com/ozontech/seq-db/conf"
	"github.com/ozontech/seq-db/seq"
	"github.com/ozontech/seq-db/storeapi"

	gc "verif/harness/internal/gencase"
	"verif/harness/internal/rng"
)

func runGen(w *cwriter, seed uint64, tier string) error {
	r := rng.New(seed ^ 0x47454E04)
	n := 120
	if tier == "thorough" {
		n = 1000
	}
	var rs []result
	add := func(it gc.Item) {
		rs = append(rs, result{coq: it.Coq, class: it.Class, nontrivial: false, input: it.Input, impl: it.Impl,
			counts: []string{"gen:" + it.Class}})
	}
	ids := func() (seq.ID, seq.ID) {
		a := seq.ID{MID: seq.MID(gc.U64(r)), RID: seq.RID(gc.U64(r))}
		b := seq.ID{MID: seq.MID(gc.U64(r)), RID: seq.RID(gc.U64(r))}
		switch r.Intn(4) {
		case 0:
			b.MID = a.MID
		case 1:
			b = a
		}
		return a, b
	}
	idArgs := func(a, b seq.ID) []gc.Arg {
		return []gc.Arg{gc.S(gc.U(uint64(a.MID))), gc.S(gc.U(uint64(a.RID))), gc.S(gc.U(uint64(b.MID))), gc.S(gc.U(uint64(b.RID)))}
	}
	for i := 0; i < n; i++ {
		a, b := ids()
		add(gc.Case("gen-LessOrEqual", 1, idArgs(a, b), func() []string { return []string{gc.B(seq.LessOrEqual(a, b))} }))
		a, b = ids()
		add(gc.Case("gen-Less", 2, idArgs(a, b), func() []string { return []string{gc.B(seq.Less(a, b))} }))
	}
	for i := 0; i < n; i++ {
		blk := gc.U32(r)
		off := rng.Pick(r, []uint64{0, 1, 1<<30 - 2, 1<<30 - 1, 1 << 30, 1<<30 + 1, uint64(r.Intn(1 << 30)), gc.U64(r)})
		add(gc.Case("gen-PackDocPos", 3, []gc.Arg{gc.S(gc.U(uint64(blk))), gc.S(gc.U(off))},
			func() []string { return []string{gc.U(uint64(seq.PackDocPos(blk, off)))} }))
		p := gc.U64(r)
		add(gc.Case("gen-Unpack", 4, []gc.Arg{gc.S(gc.U(p))}, func() []string {
			b, o := seq.DocPos(p).Unpack()
			return []string{gc.U(uint64(b)), gc.U(o)}
		}))
	}
	// calcChunkSize: conf.MaxFetchSizeBytes is a package variable (a leading parameter of the generated definition)
	saved := conf.MaxFetchSizeBytes
	defer func() { conf.MaxFetchSizeBytes = saved }()
	for i := 0; i < n; i++ {
		nd := r.Intn(6)
		docs := make([][]byte, nd)
		lens := make([]int, nd)
		for j := range docs {
			l := rng.Pick(r, []int{0, 0, 1, 2, 3, 100, 4096, 1 << 16, 1<<20 + 1, r.Intn(5000)})
			docs[j] = make([]byte, l)
			lens[j] = l
		}
		mf := int(rng.Pick(r, []int64{0, 1, 2, 4 << 20, 4<<20 - 1, 1<<31 - 1, 1 << 32, 1<<63 - 1, -1, -(1 << 63), gc.I64(r)}))
		prev := int(rng.Pick(r, []int64{1, 1000, 0, -1, 1<<63 - 1, gc.I64(r)}))
		conf.MaxFetchSizeBytes = mf
		add(gc.Case("gen-calcChunkSize", 5, []gc.Arg{gc.S(gc.I(int64(mf))), gc.S(gc.I(int64(nd))), gc.Ints(lens), gc.S(gc.I(int64(prev)))},
			func() []string { return []string{gc.I(int64(storeapi.VerifC04CalcChunkSize(docs, prev)))} }))
	}
	conf.MaxFetchSizeBytes = saved
	for len(rs) > 0 {
		k := min(len(rs), 300)
		if err := w.File("", rs[:k]); err != nil {
			return err
		}
		rs = rs[k:]
	}
	return nil
}
