package main

// Class docs-cache-far-offset: the docs block cache in front of disk.DocsReader (disk/docs_reader.go,
// ReadDocsFunc + cache.Cache.GetWithError), permanent regression for repair 871e0d8.
//
// Every case builds a SPARSE file: real doc blocks (disk.CompressDocBlock / disk.PackDocBlock over a payload
// of length-prefixed documents) written with WriteAt at offsets x and x + k*2^32 (k = 1..3) for several x, and
// reads it through the REAL disk.DocsReader with a REAL cache.Cache (no cleaner, a cleaner with a small or a
// large limit). Operations: ReadDocs of a block (repeated; aliased offsets one after the other in both
// orders), ReadDocs past the end of the file (an error), a cleaner pass (Rotate + Cleanup +
// CleanEmptyGenerations; the keys that disappeared are recorded as evictions), a cache Reset. Observed: for
// every read the number of the block whose documents came back, and the keys the cache holds at the end
// (cache/export_verif_c04.go).

import (
	"bytes"
	"encoding/binary"
	"fmt"
	"os"
	"path/filepath"
	"strings"

	"github.com/prometheus/client_golang/prometheus"

	"github.com/ozontech/seq-db/cache"
	"github.com/ozontech/seq-db/disk"

	"verif/harness/internal/rng"
)

const (
	dcUnknownBytes = uint64(999999999)
	dcPanicked     = uint64(999999998)
)

type dcBlock struct {
	Off    uint64   `json:"offset"`
	No     uint64   `json:"block"`
	Starts []uint64 `json:"doc_offsets"`
	docs   [][]byte
}

func runDocsCache(w *cwriter, seed uint64, tier string) error {
	r := rng.New(seed ^ 0xD0C5CA)
	n := 60
	if tier == "thorough" {
		n = 500
	}
	dir, err := os.MkdirTemp("", "verif-c04-dc-")
	if err != nil {
		return err
	}
	defer os.RemoveAll(dir)
	rl := disk.NewReadLimiter(1, prometheus.NewCounter(prometheus.CounterOpts{Name: "verif_c04_dc_reads"}))
	var rs []result
	for i := 0; i < n; i++ {
		res, err := oneDocsCache(r, rl, filepath.Join(dir, fmt.Sprintf("s%d.docs", i)), i)
		if err != nil {
			return err
		}
		rs = append(rs, res)
		if len(rs) >= 100 {
			if err := w.File("", rs); err != nil {
				return err
			}
			rs = nil
		}
	}
	return w.File("", rs)
}

func oneDocsCache(r *rng.R, rl *disk.ReadLimiter, path string, idx int) (result, error) {
	const two32 = uint64(1) << 32
	f, err := os.Create(path)
	if err != nil {
		return result{}, err
	}
	defer func() {
		f.Close()
		os.Remove(path)
	}()

	// base offsets x (pairwise at least 64 KiB apart, also modulo 2^32)
	pool := []uint64{0, 100, 4096, 1 << 20, 1 << 31, two32 - 1, two32 - 70000, two32 - 200000, uint64(r.Intn(1 << 30)), uint64(r.Intn(1<<31)) + 1<<31}
	nx := r.Range(1, 3)
	var xs []uint64
	for try := 0; len(xs) < nx && try < 100; try++ {
		x := rng.Pick(r, pool)
		if idx%7 == 0 && len(xs) == 0 {
			x = rng.Pick(r, []uint64{0, two32 - 1}) // the boundary: 2^32 is the first offset past the cache, MaxUint32 the last inside
		}
		ok := true
		for _, y := range xs {
			d := (x - y) % two32
			if d > two32/2 {
				d = two32 - d
			}
			if d < 1<<16 {
				ok = false
			}
		}
		if ok {
			xs = append(xs, x)
		}
	}
	var blocks []dcBlock
	var corrupt []uint64 // offsets of blocks that cannot be decoded (zstd codec, garbage body): a read is an error
	aliased := false
	for _, x := range xs {
		// the documents of every block of this column have the same lengths (so that another block of the
		// column, returned by mistake, shows as that block) unless the column is "ragged"
		ragged := r.Chance(1, 5)
		lens := make([]int, r.Range(1, 4))
		for j := range lens {
			lens[j] = r.Range(0, 40)
		}
		ks := []uint64{0}
		switch r.Intn(4) {
		case 0:
			ks = []uint64{0, 1}
		case 1:
			ks = []uint64{0, 1, 2, 3}
		case 2:
			ks = []uint64{0, uint64(r.Range(1, 3))}
		default:
			ks = []uint64{uint64(r.Range(1, 3)), 0} // written in the other order
			if r.Chance(1, 3) {
				ks = []uint64{1, 2} // nothing below 4 GiB in this column
			}
		}
		if len(ks) > 1 {
			aliased = true
		}
		for ki, k := range ks {
			if len(ks) > 1 && ki == r.Intn(3*len(ks)) && (len(blocks) > 0 || ki+1 < len(ks)) {
				// malformed: this block of the column does not decode (below 4 GiB the failed load goes through the cache)
				junk := make([]byte, r.Range(8, 60))
				for q := range junk {
					junk[q] = byte(r.Intn(256))
				}
				blk := disk.PackDocBlock(junk, nil)
				blk.SetCodec(disk.CodecZSTD)
				if _, err := f.WriteAt(blk, int64(x+k*two32)); err != nil {
					return result{}, fmt.Errorf("harness: sparse write at %d: %w", x+k*two32, err)
				}
				corrupt = append(corrupt, x+k*two32)
				continue
			}
			b := dcBlock{Off: x + k*two32, No: uint64(len(blocks) + 1)}
			ls := lens
			if ragged {
				ls = make([]int, r.Range(1, 4))
				for j := range ls {
					ls[j] = r.Range(0, 60)
				}
			}
			var payload []byte
			for _, l := range ls {
				doc := make([]byte, l)
				for q := range doc {
					doc[q] = byte(r.Intn(256))
				}
				if l >= 2 { // distinct blocks never hold equal documents
					doc[0], doc[1] = byte(b.No), byte(idx)
				}
				b.Starts = append(b.Starts, uint64(len(payload)))
				payload = binary.LittleEndian.AppendUint32(payload, uint32(l))
				payload = append(payload, doc...)
				b.docs = append(b.docs, doc)
			}
			// one document that names the block, whatever the random lengths were
			tag := []byte(fmt.Sprintf("block-%d-of-case-%d", b.No, idx))
			b.Starts = append(b.Starts, uint64(len(payload)))
			payload = binary.LittleEndian.AppendUint32(payload, uint32(len(tag)))
			payload = append(payload, tag...)
			b.docs = append(b.docs, tag)
			var blk disk.DocBlock
			if r.Chance(1, 4) {
				blk = disk.PackDocBlock(payload, nil)
			} else {
				blk = disk.CompressDocBlock(payload, nil, 1)
			}
			if _, err := f.WriteAt(blk, int64(b.Off)); err != nil {
				return result{}, fmt.Errorf("harness: sparse write at %d: %w", b.Off, err)
			}
			blocks = append(blocks, b)
		}
	}
	st, err := f.Stat()
	if err != nil {
		return result{}, err
	}
	fileEnd := uint64(st.Size())

	// the reader
	var cl *cache.Cleaner
	limit := "none"
	switch r.Intn(3) {
	case 0:
		cl = cache.NewCleaner(uint64(r.Range(1, 400)), nil) // small: every pass drops old generations
		limit = "small"
	case 1:
		cl = cache.NewCleaner(1<<30, nil)
		limit = "large"
	}
	c := cache.NewCache[[]byte](cl, nil)
	rd := disk.NewDocsReader(rl, f, c)

	identify := func(docs [][]byte) uint64 {
		for _, b := range blocks {
			if len(b.docs) != len(docs) {
				continue
			}
			same := true
			for j := range docs {
				if !bytes.Equal(docs[j], b.docs[j]) {
					same = false
				}
			}
			if same {
				return b.No
			}
		}
		return dcUnknownBytes
	}

	type opRec struct {
		Op   string   `json:"op"`
		Off  *uint64  `json:"offset,omitempty"`
		Keys []uint32 `json:"evicted_keys,omitempty"`
	}
	var (
		ops   []string
		impl  []string
		recs  []opRec
		reads []any
	)
	read := func(off uint64, starts []uint64) {
		var docs [][]byte
		var rerr error
		pn := guard(func() { docs, rerr = rd.ReadDocs(off, starts) })
		ops = append(ops, fmt.Sprintf("DRead %d", off))
		recs = append(recs, opRec{Op: "read", Off: &off})
		switch {
		case pn != "":
			impl = append(impl, fmt.Sprintf("Some %d", dcPanicked))
			reads = append(reads, map[string]any{"offset": off, "panic": pn})
		case rerr != nil:
			impl = append(impl, "None")
			reads = append(reads, map[string]any{"offset": off, "error": rerr.Error()})
		default:
			no := identify(docs)
			impl = append(impl, fmt.Sprintf("Some %d", no))
			reads = append(reads, map[string]any{"offset": off, "block": no})
		}
	}
	readBlock := func(b dcBlock) { read(b.Off, b.Starts) }
	column := func(b dcBlock) []dcBlock {
		var out []dcBlock
		for _, o := range blocks {
			if o.Off%two32 == b.Off%two32 {
				out = append(out, o)
			}
		}
		return out
	}
	nops := r.Range(5, 18)
	forcedAt := r.Intn(nops) // every undecodable block is read (twice) at least once
	forced := len(corrupt) == 0
	for len(ops) < nops {
		if !forced && len(ops) >= forcedAt {
			forced = true
			for _, off := range corrupt {
				read(off, []uint64{0})
				read(off, []uint64{0})
			}
			continue
		}
		switch k := r.Intn(12); {
		case k < 5:
			readBlock(rng.Pick(r, blocks))
		case k < 8: // every block of one column, one after the other: the offsets share their low 32 bits
			col := column(rng.Pick(r, blocks))
			if r.Bool() {
				for a, b := 0, len(col)-1; a < b; a, b = a+1, b-1 {
					col[a], col[b] = col[b], col[a]
				}
			}
			for _, b := range col {
				readBlock(b)
				if r.Chance(1, 3) {
					readBlock(b) // again, now from the cache (if it is cached)
				}
			}
		case k == 8: // past the end of the file or a block that does not decode: a read error, nothing cached
			off := fileEnd + uint64(r.Intn(1000))
			if r.Bool() {
				off = rng.Pick(r, blocks).Off + 4*two32 // shares its low 32 bits with a block
			}
			if len(corrupt) > 0 && r.Chance(2, 3) {
				off = rng.Pick(r, corrupt)
			}
			read(off, []uint64{0})
			if r.Chance(2, 3) { // the caller tries again: the failed load must not have left anything behind
				read(off, []uint64{0})
			}
			if r.Bool() { // and then a block whose offset has the same low 32 bits
				for _, b := range blocks {
					if b.Off%two32 == off%two32 {
						readBlock(b)
						break
					}
				}
			}
		case k == 9 && cl != nil: // a cleaner pass as the cache maintainer does it
			before := c.VerifC04Keys()
			cl.Rotate()
			cl.Cleanup(&cache.CleanStat{})
			cl.CleanEmptyGenerations()
			after := map[uint32]bool{}
			for _, key := range c.VerifC04Keys() {
				after[key] = true
			}
			rec := opRec{Op: "cleaner-pass"}
			for _, key := range before {
				if !after[key] {
					ops = append(ops, fmt.Sprintf("DEvict %d", key))
					rec.Keys = append(rec.Keys, key)
				}
			}
			recs = append(recs, rec)
		case k == 10:
			if cl != nil {
				cl.Reset()
			} else {
				c.Reset(cache.NewGeneration())
			}
			ops = append(ops, "DReset")
			recs = append(recs, opRec{Op: "reset"})
		default:
			readBlock(rng.Pick(r, blocks))
		}
	}
	keys := c.VerifC04Keys()

	bparts := make([]string, len(blocks))
	for j, b := range blocks {
		bparts[j] = fmt.Sprintf("(%d,%d)", b.Off, b.No)
	}
	coq := fmt.Sprintf("CDocsCache [%s]\n   [%s]\n   [%s] %s", strings.Join(bparts, ";"), strings.Join(ops, "; "),
		strings.Join(impl, "; "), nlist(keys))
	counts := []string{"docs-cache:limit-" + limit, fmt.Sprintf("docs-cache:columns-%d", len(xs))}
	if aliased {
		counts = append(counts, "docs-cache:aliased-offsets")
	}
	if len(corrupt) > 0 {
		counts = append(counts, "docs-cache:undecodable-block")
	}
	return result{coq: coq, class: "docs-cache-far-offset", nontrivial: aliased,
		input:  map[string]any{"case": idx, "blocks": blocks, "undecodable_blocks_at": corrupt, "cache_limit": limit, "ops": recs, "file_size": fileEnd},
		impl:   map[string]any{"reads": reads, "keys_at_end": keys},
		counts: counts}, nil
}
