package main

// Unit-level correspondence classes for the position layer of the fetch path: seq.PackDocPos / Unpack,
// seq.GroupDocsOffsets, processor.IndexFetch over a real disk.DocsReader (blocks written with the real
// doc block packer), activeFetchIndex.GetDocPos (state built directly through frac/export_verif_c04.go)
// and sealedFetchIndex.getDocPosByLIDs.

import (
	"encoding/binary"
	"fmt"
	"os"
	"path/filepath"
	"strings"

	"github.com/prometheus/client_golang/prometheus"

	"github.com/ozontech/seq-db/cache"
	"github.com/ozontech/seq-db/disk"
	"github.com/ozontech/seq-db/frac"
	"github.com/ozontech/seq-db/frac/processor"
	"github.com/ozontech/seq-db/metric/stopwatch"
	"github.com/ozontech/seq-db/seq"

	"verif/harness/internal/rng"
)

const notFound = ^uint64(0)

func nlist[T ~uint64 | ~uint32 | ~int](xs []T) string {
	parts := make([]string, len(xs))
	for i, x := range xs {
		parts[i] = fmt.Sprint(uint64(x))
	}
	return "[" + strings.Join(parts, ";") + "]"
}

func guard(f func()) (panicked string) {
	defer func() {
		if p := recover(); p != nil {
			panicked = fmt.Sprint(p)
			if len(panicked) > 200 {
				panicked = panicked[:200]
			}
		}
	}()
	f()
	return ""
}

func rawPos(b, off uint64) uint64 { return (b<<30 | off) + 1 }

func genPos(r *rng.R, nblocks int) uint64 {
	if r.Chance(1, 6) {
		return notFound
	}
	b := uint64(r.Intn(max(nblocks, 1)))
	if r.Chance(1, 20) {
		b = rng.Pick(r, []uint64{1<<32 - 1, 1 << 31, 70000})
	}
	off := uint64(r.Intn(50))
	if r.Chance(1, 10) {
		off = rng.Pick(r, []uint64{1<<30 - 1, 1<<30 - 2, 1 << 29})
	}
	return rawPos(b, off)
}

type fakeIndex struct {
	tbl []uint64
	ps  []seq.DocPos
	rd  *disk.DocsReader
}

func (f *fakeIndex) GetBlocksOffsets(i uint32) uint64    { return f.tbl[i] }
func (f *fakeIndex) GetDocPos(ids []seq.ID) []seq.DocPos { return f.ps }
func (f *fakeIndex) ReadDocs(bo uint64, offs []uint64) ([][]byte, error) {
	return f.rd.ReadDocs(bo, offs)
}

func runUnits(w *cwriter, seed uint64, tier string, cs constsResp) error {
	r := rng.New(seed ^ 0x504F53)
	mul := 1
	if tier == "thorough" {
		mul = 8
	}
	var rs []result
	flush := func(force bool) error {
		if len(rs) >= 100 || (force && len(rs) > 0) {
			if err := w.File("", rs); err != nil {
				return err
			}
			rs = nil
		}
		return nil
	}
	add := func(class, coq string, nontrivial bool, input, impl any) error {
		rs = append(rs, result{coq: coq, class: class, nontrivial: nontrivial, input: input, impl: impl,
			counts: []string{"unit:" + class}})
		return flush(false)
	}

	// ---- PackDocPos / Unpack
	for i := 0; i < 150*mul; i++ {
		b := rng.Pick(r, []uint64{0, 1, 2, 1<<32 - 1, 1 << 31, uint64(r.Intn(1 << 20)), r.U64() >> 32})
		off := rng.Pick(r, []uint64{0, 1, 4, 1<<30 - 2, 1<<30 - 1, 1 << 30, 1<<30 + 1, uint64(r.Intn(1 << 30)), uint64(r.Intn(1<<30)) + 1<<30, 1 << 40})
		var p seq.DocPos
		pn := guard(func() { p = seq.PackDocPos(uint32(b), off) })
		impl, ub, uo := "None", uint32(0), uint64(0)
		if pn == "" {
			impl = fmt.Sprintf("(Some %d)", uint64(p))
			ub, uo = p.Unpack()
		}
		if err := add("pack-docpos", fmt.Sprintf("CPack %d %d %s %d %d", b, off, impl, ub, uo), off < 1<<30,
			map[string]any{"block": b, "offset": off}, map[string]any{"pos": uint64(p), "panic": pn, "unpack": []uint64{uint64(ub), uo}}); err != nil {
			return err
		}
	}
	for i := 0; i < 80*mul; i++ {
		p := rng.Pick(r, []uint64{0, 1, 2, notFound, notFound - 1, 1 << 62, 1<<62 + 1, 1 << 30, 1<<30 + 1, r.U64(), r.U64() >> 2, r.U64() >> 20})
		ub, uo := seq.DocPos(p).Unpack()
		if err := add("unpack-docpos", fmt.Sprintf("CUnpack %d %d %d", p, ub, uo), p >= 1 && p <= 1<<62,
			map[string]any{"pos": p}, []uint64{uint64(ub), uo}); err != nil {
			return err
		}
	}

	// ---- GroupDocsOffsets
	for i := 0; i < 120*mul; i++ {
		n := r.Range(0, 60)
		nb := r.Range(1, 6)
		ps := make([]seq.DocPos, n)
		raw := make([]uint64, n)
		for j := range ps {
			raw[j] = genPos(r, nb)
			if j > 0 && r.Chance(1, 8) {
				raw[j] = raw[r.Intn(j)] // the same position twice
			}
			ps[j] = seq.DocPos(raw[j])
		}
		blocks, offsets, index := seq.GroupDocsOffsets(ps)
		var parts []string
		for k := range blocks {
			parts = append(parts, fmt.Sprintf("(%d,%s,%s)", blocks[k], nlist(offsets[k]), nlist(index[k])))
		}
		if err := add("group-offsets", fmt.Sprintf("CGroup %s [%s]", nlist(raw), strings.Join(parts, ";")), len(blocks) > 1,
			map[string]any{"positions": raw}, map[string]any{"blocks": blocks, "offsets": offsets, "index": index}); err != nil {
			return err
		}
	}

	// ---- IndexFetch over a real DocsReader
	dir, err := os.MkdirTemp("", "verif-c04-unit-")
	if err != nil {
		return err
	}
	defer os.RemoveAll(dir)
	rl := disk.NewReadLimiter(1, prometheus.NewCounter(prometheus.CounterOpts{Name: "verif_c04_reads"}))
	for i := 0; i < 120*mul; i++ {
		nb := r.Range(1, 4)
		f, err := os.Create(filepath.Join(dir, fmt.Sprintf("b%d.docs", i)))
		if err != nil {
			return err
		}
		var (
			foffs  []uint64
			starts [][]uint64
			blocks [][][]byte
			off    uint64
		)
		if r.Chance(1, 3) { // something before the first block, so that file offsets do not start at 0
			junk := disk.CompressDocBlock([]byte("junkjunk"), nil, 1)
			f.Write(junk)
			off = uint64(len(junk))
		}
		for b := 0; b < nb; b++ {
			var payload []byte
			var st []uint64
			var docs [][]byte
			for d, nd := 0, r.Range(1, 6); d < nd; d++ {
				doc := make([]byte, r.Range(0, 20))
				for k := range doc {
					doc[k] = byte(r.Intn(256))
				}
				st = append(st, uint64(len(payload)))
				payload = binary.LittleEndian.AppendUint32(payload, uint32(len(doc)))
				payload = append(payload, doc...)
				docs = append(docs, doc)
			}
			var blk disk.DocBlock
			if r.Chance(1, 4) {
				blk = disk.PackDocBlock(payload, nil) // not compressed
			} else {
				blk = disk.CompressDocBlock(payload, nil, 1)
			}
			if _, err := f.Write(blk); err != nil {
				return err
			}
			foffs = append(foffs, off)
			off += uint64(len(blk))
			starts = append(starts, st)
			blocks = append(blocks, docs)
		}
		// the block offsets table the index serves: the blocks in some order, possibly one listed twice
		perm := make([]int, nb)
		for k := range perm {
			perm[k] = k
		}
		rng.Shuffle(r, perm)
		if r.Chance(1, 4) {
			perm = append(perm, perm[0])
		}
		tbl := make([]uint64, len(perm))
		for k, p := range perm {
			tbl[k] = foffs[p]
		}
		n := r.Range(1, 25)
		raw := make([]uint64, n)
		bad := false
		for j := range raw {
			switch {
			case r.Chance(1, 6):
				raw[j] = notFound
			case r.Chance(1, 60):
				raw[j] = rawPos(uint64(len(tbl)+r.Intn(3)), 0) // block index past the table: panic
				bad = true
			default:
				t := r.Intn(len(tbl))
				raw[j] = rawPos(uint64(t), rng.Pick(r, starts[perm[t]]))
			}
		}
		ps := make([]seq.DocPos, n)
		for j := range ps {
			ps[j] = seq.DocPos(raw[j])
		}
		rd := disk.NewDocsReader(rl, f, cache.NewCache[[]byte](nil, nil))
		res := make([][]byte, n)
		var ferr error
		pn := guard(func() {
			ferr = processor.IndexFetch(make([]seq.ID, n), stopwatch.New(), &fakeIndex{tbl: tbl, ps: ps, rd: &rd}, res)
		})
		f.Close()
		impl := "None"
		if pn == "" && ferr == nil {
			parts := make([]string, n)
			for j, d := range res {
				if d == nil {
					parts[j] = "None"
				} else {
					parts[j] = "Some " + nlist(bytesU(d))
				}
			}
			impl = "(Some [" + strings.Join(parts, ";") + "])"
		}
		var bparts []string
		for _, docs := range blocks {
			dparts := make([]string, len(docs))
			for k, d := range docs {
				dparts[k] = nlist(bytesU(d))
			}
			bparts = append(bparts, "["+strings.Join(dparts, ";")+"]")
		}
		errs := pn
		if ferr != nil {
			errs = ferr.Error()
		}
		if err := add("index-fetch", fmt.Sprintf("CIndexFetch [%s] %s %s %s %s", strings.Join(bparts, ";"), nlist(foffs), nlist(tbl), nlist(raw), impl),
			!bad && nb > 1, map[string]any{"blocks": blocks, "file_offsets": foffs, "table": tbl, "positions": raw},
			map[string]any{"docs": res, "error": errs}); err != nil {
			return err
		}
	}

	// ---- activeFetchIndex.GetDocPos: snapshot of k blocks, positions in blocks < k, = k, > k
	for i := 0; i < 150*mul; i++ {
		k := r.Range(0, 4)
		ns := r.Range(0, 12)
		ids := make([]seq.ID, ns)
		pos := make([]seq.DocPos, ns)
		var sparts []string
		for j := range ids {
			ids[j] = seq.ID{MID: seq.MID(r.Range(1, 6)), RID: seq.RID(r.Range(0, 5))}
			b := uint64(r.Range(0, 5))
			if r.Chance(1, 2) {
				b = uint64(max(0, k+r.Range(-1, 1))) // around the snapshot length
			}
			p := rawPos(b, uint64(r.Intn(40)))
			if r.Chance(1, 25) {
				p = notFound
			}
			pos[j] = seq.DocPos(p)
			sparts = append(sparts, fmt.Sprintf("((%d,%d),%d)", ids[j].MID, ids[j].RID, p))
		}
		nr := r.Range(1, 15)
		req := make([]seq.ID, nr)
		var rparts []string
		for j := range req {
			if ns > 0 && r.Chance(3, 4) {
				req[j] = ids[r.Intn(ns)]
			} else {
				req[j] = seq.ID{MID: seq.MID(r.Range(0, 7)), RID: seq.RID(r.Range(0, 6))}
			}
			rparts = append(rparts, fmt.Sprintf("(%d,%d)", req[j].MID, req[j].RID))
		}
		var got []seq.DocPos
		pn := guard(func() { got = frac.VerifC04ActiveGetDocPos(k, ids, pos, req) })
		if pn != "" {
			got = nil // a panic shows as a result of the wrong length
		}
		if err := add("active-docpos", fmt.Sprintf("CActivePos %d [%s] [%s] %s", k, strings.Join(sparts, ";"), strings.Join(rparts, ";"), nlist(got)),
			ns > 0, map[string]any{"snapshot_blocks": k, "ids": ids, "positions": pos, "request": req},
			map[string]any{"positions": got, "panic": pn}); err != nil {
			return err
		}
	}

	// ---- sealedFetchIndex.getDocPosByLIDs
	for i := 0; i < 100*mul+4; i++ {
		n := r.Range(1, 60)
		if i%(100*mul/4+1) == 0 {
			n = r.Range(cs.IDsPerBlock-2, 2*cs.IDsPerBlock+100) // more than one position block
		}
		ptab := make([]uint64, n)
		ptab[0] = notFound // the sentinel has no position
		for j := 1; j < n; j++ {
			ptab[j] = rawPos(uint64(r.Intn(3)), uint64(r.Intn(5000)))
		}
		nl := r.Range(1, 40)
		lids := make([]seq.LID, nl)
		bad := false
		for j := range lids {
			switch {
			case r.Chance(1, 6):
				lids[j] = 0
			case r.Chance(1, 80):
				lids[j] = seq.LID(n + r.Intn(3)) // past the table
				bad = true
			case n > cs.IDsPerBlock && r.Chance(1, 3):
				lids[j] = seq.LID(cs.IDsPerBlock + r.Range(-2, 2)) // around the block border
			default:
				lids[j] = seq.LID(r.Intn(n))
			}
			if int(lids[j]) >= n {
				bad = true
			}
		}
		if r.Chance(1, 3) { // descending, as findLIDs produces them for sorted requests
			for a := 0; a < nl; a++ {
				for b := a + 1; b < nl; b++ {
					if lids[b] > lids[a] {
						lids[a], lids[b] = lids[b], lids[a]
					}
				}
			}
		}
		var got []seq.DocPos
		pn := guard(func() { got = frac.VerifC04SealedDocPosByLIDs(ptab, lids) })
		impl := "None"
		if pn == "" {
			impl = "(Some " + nlist(got) + ")"
		}
		if err := add("sealed-docpos", fmt.Sprintf("CSealedPos (mkCfg %d %d %d) %s %s %s", cs.IDsPerBlock, cs.MaxFetch, cs.InitChunk, nlist(ptab), nlist(lids), impl),
			!bad && n > cs.IDsPerBlock, map[string]any{"table_len": n, "lids": lids}, map[string]any{"positions": got, "panic": pn}); err != nil {
			return err
		}
	}
	return flush(true)
}

func bytesU(b []byte) []uint64 {
	out := make([]uint64, len(b))
	for i, x := range b {
		out[i] = uint64(x)
	}
	return out
}
