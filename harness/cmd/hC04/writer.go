package main

import (
	"bufio"
	"encoding/json"
	"fmt"
	"os"
	"path/filepath"
	"strings"

	"verif/harness/internal/casefile"
)

// cwriter writes the same artefacts as casefile.Writer (cases_NNN.v, cases.jsonl, violations.jsonl,
// stats.json; see lib/vcheck.py) but one Coq file per scenario, with the scenario's fractions defined
// once in the file (`frs`) and shared by all its cases: elaborating the corpus literal is by far the most
// expensive part of evaluating a case.
type cwriter struct {
	dir     string
	imports string
	nfile   int
	jf      *os.File
	jsonl   *bufio.Writer
	Dist    map[string]int
	Total   int
	Extra   map[string]any
}

func newCWriter(dir, imports string) (*cwriter, error) {
	if err := os.MkdirAll(dir, 0o755); err != nil {
		return nil, err
	}
	jf, err := os.Create(filepath.Join(dir, "cases.jsonl"))
	if err != nil {
		return nil, err
	}
	if err := os.WriteFile(filepath.Join(dir, "violations.jsonl"), nil, 0o644); err != nil {
		return nil, err
	}
	return &cwriter{dir: dir, imports: imports, jf: jf, jsonl: bufio.NewWriter(jf), Dist: map[string]int{},
		Extra: map[string]any{}}, nil
}

func (w *cwriter) Count(key string) { w.Dist[key]++ }

// File writes one Coq file: preamble (definitions, may be empty) and the cases.
func (w *cwriter) File(preamble string, rs []result) error {
	if len(rs) == 0 {
		return nil
	}
	name := fmt.Sprintf("cases_%03d.v", w.nfile)
	var sb strings.Builder
	sb.WriteString(w.imports)
	sb.WriteString("\n")
	sb.WriteString(preamble)
	sb.WriteString("\n")
	for _, r := range rs {
		sb.WriteString(r.pre)
	}
	sb.WriteString("Definition cases : list case := [\n")
	for i, r := range rs {
		if i > 0 {
			sb.WriteString(";\n")
		}
		sb.WriteString("  ")
		sb.WriteString(r.coq)
		b, _ := json.Marshal(casefile.Case{File: name, Index: i, Class: r.class, Nontrivial: r.nontrivial,
			Input: r.input, Impl: r.impl})
		w.jsonl.Write(b)
		w.jsonl.WriteByte('\n')
		w.Dist["class:"+r.class]++
		for _, c := range r.counts {
			w.Dist[c]++
		}
		w.Total++
	}
	sb.WriteString("\n].\n")
	sb.WriteString("Eval vm_compute in (diff_indices cases).\n")
	sb.WriteString("Eval vm_compute in (specfail_indices cases).\n")
	w.nfile++
	return os.WriteFile(filepath.Join(w.dir, name), []byte(sb.String()), 0o644)
}

func (w *cwriter) Close() error {
	w.jsonl.Flush()
	w.jf.Close()
	st := map[string]any{"evaluations": w.Total, "distribution": w.Dist, "exhaustive": false,
		"direct_violations": 0, "extra": w.Extra}
	b, _ := json.MarshalIndent(st, "", " ")
	return os.WriteFile(filepath.Join(w.dir, "stats.json"), b, 0o644)
}
