package main

// Histories of FetchDocs calls on the store's single long-lived Fetcher (fracmanager/fetcher.go: Fetcher.sem,
// fetchDocsAsync), class fetch-slots-history, and the request that follows them (class fetch-after-history).
//
// The child op "c04slots" runs a list of steps against the REAL fetcher of the REAL GrpcV1 of the scenario's
// store (storeapi/export_verif_c04_slots.go): calls with a live context, with a context cancelled before the
// call, with a deadline that has already passed, with a client that cancels when the active fraction's fetch
// starts (schedule point fetch.start); optionally the active fraction's Fetch panics (as in CFault) or a sealed
// fraction's docs file is damaged, so that sibling fetches of the same call fail and cancel the others. After
// every call the number of taken worker slots is read (fracmanager/export_verif_c04.go).

import (
	"context"
	"encoding/json"
	"errors"
	"fmt"
	"sort"
	"strings"
	"time"

	"github.com/ozontech/seq-db/conf"
	"github.com/ozontech/seq-db/seq"
	"github.com/ozontech/seq-db/verifhook"

	"verif/harness/internal/casefile"
	"verif/harness/internal/rng"
	"verif/harness/internal/storectl"
)

const (
	stepLive = iota
	stepCancelled
	stepDeadline
	stepCancelAtActive
)

type slotStep struct {
	Kind int      `json:"kind"` // 0 live, 1 cancelled before the call, 2 deadline passed before the call, 3 cancelled at fetch.start
	IDs  []ReqID  `json:"ids"`
	Want []uint64 `json:"-"` // document number stored under each ID (0 = none)
	Rep  int      `json:"repetitions"`
}

type slotStepWire struct {
	Kind int      `json:"kind"`
	IDs  []ReqID  `json:"ids"`
	Want []uint64 `json:"want"`
	Rep  int      `json:"rep"`
}

type slotsReq struct {
	Workers   int            `json:"workers"` // conf.FetchWorkers for the store's fetcher; 0 = leave the default
	Arm       bool           `json:"arm"`     // the active fraction's Fetch panics on entry
	TimeoutMs int            `json:"timeout_ms"`
	Steps     []slotStepWire `json:"steps"`
}

type slotObs struct {
	Returned bool   `json:"returned"`
	InUse    int    `json:"slots_in_use_after"`
	Errs     int    `json:"errors"` // 0 none, 1 all, 2 some, 3 a nil error with a wrong document
	Note     string `json:"note,omitempty"`
}

type slotsResp struct {
	Cap int       `json:"cap"`
	Obs []slotObs `json:"obs"`
}

func registerSlotOps() {
	storectl.Register("c04slots", func(c *storectl.Child, r storectl.Req) (storectl.Resp, error) {
		var sr slotsReq
		if err := json.Unmarshal(r.Extra, &sr); err != nil {
			return storectl.Resp{}, err
		}
		if sr.Workers > 0 {
			if childGrpc != nil {
				return storectl.Resp{}, errors.New("harness: the store's fetcher exists already")
			}
			conf.FetchWorkers = sr.Workers
		}
		g, err := getGrpc(c)
		if err != nil {
			return storectl.Resp{}, err
		}
		fetcher := g.VerifC04Fetcher()
		timeout := time.Duration(sr.TimeoutMs) * time.Millisecond
		_, capacity := fetcher.VerifC04Slots()
		resp := slotsResp{Cap: capacity}
		defer verifhook.Set(nil)
	steps:
		for _, st := range sr.Steps {
			ids := make([]seq.IDSource, len(st.IDs))
			for i, x := range st.IDs {
				ids[i] = seq.IDSource{ID: seq.ID{MID: seq.MID(x.MID), RID: seq.RID(x.RID)}}
			}
			ob := slotObs{Returned: true}
			nerr := 0
			for rep := 0; rep < st.Rep; rep++ {
				var (
					ctx    context.Context
					cancel context.CancelFunc
				)
				switch st.Kind {
				case stepCancelled:
					ctx, cancel = context.WithCancel(context.Background())
					cancel()
				case stepDeadline:
					ctx, cancel = context.WithDeadline(context.Background(), time.Now().Add(-time.Second))
				case stepCancelAtActive:
					ctx, cancel = context.WithCancel(context.Background())
				default:
					ctx, cancel = context.WithCancel(context.Background())
				}
				verifhook.Set(func(name string) {
					if name != "fetch.start" {
						return
					}
					if st.Kind == stepCancelAtActive {
						cancel()
					}
					if sr.Arm {
						panic("verif: injected panic at fetch.start")
					}
				})
				type outcome struct {
					docs [][]byte
					err  error
				}
				done := make(chan outcome, 1)
				go func() {
					docs, err := fetcher.FetchDocs(ctx, c.FM.GetAllFracs(), append([]seq.IDSource{}, ids...))
					done <- outcome{docs, err}
				}()
				select {
				case o := <-done:
					cancel()
					if o.err != nil {
						nerr++
					} else {
						for i, d := range o.docs {
							no, _ := classify(d)
							if i >= len(st.Want) || no != st.Want[i] {
								ob.Errs = 3
								ob.Note = fmt.Sprintf("repetition %d: entry %d holds document %d, stored is %d", rep, i, no, st.Want[i])
							}
						}
					}
				case <-time.After(timeout):
					// blocked in the dispatch loop: no worker slot is free and the context is live
					ob.Returned = false
					ob.Note = fmt.Sprintf("repetition %d: FetchDocs did not return within %v", rep, timeout)
					cancel() // lets the blocked call end
					select {
					case <-done:
					case <-time.After(timeout):
					}
				}
				inUse, _ := fetcher.VerifC04Slots()
				ob.InUse = max(ob.InUse, inUse)
				if !ob.Returned {
					break
				}
			}
			if ob.Errs != 3 {
				switch {
				case st.Kind == stepCancelled || st.Kind == stepDeadline:
					// whether such a call returns the context's error or the documents depends on the select
					// of the dispatch loop: not an observable of the property (kept out for determinism)
					ob.Errs = 0
				case nerr == 0:
					ob.Errs = 0
				case nerr == st.Rep:
					ob.Errs = 1
				default:
					ob.Errs = 2
				}
			}
			resp.Obs = append(resp.Obs, ob)
			if !ob.Returned {
				break steps // the rest of the history would only wait for the same slots
			}
		}
		return storectl.Resp{Extra: extra(resp)}, nil
	})
}

// ------------------------------------------------------------------------------------------ parent side

var stepKindNames = []string{"live", "cancelled-before-call", "deadline-passed-before-call", "cancelled-at-active-fetch-start"}

// runSlots drives one scenario of kind "slots": a history of FetchDocs calls on the store's fetcher (one CSlots
// case) and then ordinary requests through GrpcV1.Fetch under a deadline (fetch-after-history).
func runSlots(g *gen, sc Scenario, idx int, seed uint64, tier string, cs constsResp, cfg string, views []fracView, sums any,
	store func() *storectl.Store, reopen func(pre func() error) error, damage func(k int) error, out *scenarioOut,
	probe func(ri int, rq request, pa bool, dmg []int) (bool, error)) error {
	r := g.r
	// variant: worker count and fault; the first four cover the combinations, the rest is random
	workers, mode := 0, 0 // mode 0 = no fault, 1 = a sealed fraction's docs file is damaged, 2 = the active fetch panics
	switch idx % 4 {
	case 0:
		workers, mode = 1, 1
	case 1:
		workers, mode = 2, 0
	case 2:
		workers, mode = 0, 0
	default:
		workers, mode = 1, 2
	}
	if tier == "thorough" && r.Chance(1, 2) {
		workers, mode = r.Intn(4), r.Intn(3)
	}
	var (
		withDocs []int
		sealed   []int
		wantOf   = map[[2]uint64]uint64{}
		stored   = map[[2]uint64]bool{}
	)
	for k, v := range views {
		if len(v.docs) == 0 {
			continue
		}
		withDocs = append(withDocs, k)
		if v.info.Sealed {
			sealed = append(sealed, k)
		}
		for _, d := range v.docs {
			wantOf[[2]uint64{d.MID, d.RID}] = d.No
			stored[[2]uint64{d.MID, d.RID}] = true
		}
	}
	if len(sealed) == 0 && mode == 1 {
		mode = 0
	}
	var dmg []int
	bad := -1
	switch mode {
	case 1:
		bad = rng.Pick(r, sealed[:max(1, len(sealed)-1)]) // not the last sealed one: fractions follow it in the dispatch order
		dmg = []int{bad + 1}
		if err := reopen(func() error { return damage(bad) }); err != nil {
			return fmt.Errorf("damage: %w", err)
		}
	case 2:
		bad = len(views) - 1
	}
	arm := mode == 2

	// ID lists (one chunk each, no hints, distinct IDs): over all fractions / over the healthy fractions only
	mkIDs := func(fracs []int, n int, absentShare int) []ReqID {
		seen := map[[2]uint64]bool{}
		var ids []ReqID
		for try := 0; len(ids) < n && try < 20*n; try++ {
			k := rng.Pick(r, fracs)
			var m, x uint64
			if r.Intn(100) < absentShare {
				v := views[k]
				m = v.info.From + uint64(r.Intn(int(v.info.To-v.info.From)+1)) // inside the fraction's time range
				x = uint64(r.Intn(100000))
				if stored[[2]uint64{m, x}] {
					continue
				}
			} else {
				d := rng.Pick(r, views[k].docs)
				m, x = d.MID, d.RID
			}
			if seen[[2]uint64{m, x}] {
				continue
			}
			seen[[2]uint64{m, x}] = true
			ids = append(ids, ReqID{MID: m, RID: x})
		}
		if r.Chance(1, 3) {
			sort.Slice(ids, func(i, j int) bool {
				if ids[i].MID != ids[j].MID {
					return ids[i].MID < ids[j].MID
				}
				return ids[i].RID < ids[j].RID
			})
		}
		return ids
	}
	var healthy []int
	for _, k := range withDocs {
		if k != bad {
			healthy = append(healthy, k)
		}
	}
	lists := [][]ReqID{
		mkIDs(withDocs, r.Range(20, 120), 30), // every fraction is a candidate
		mkIDs(withDocs, r.Range(3, 12), 50),
		mkIDs(healthy, r.Range(10, 60), 30), // the faulty fraction is not asked
		mkIDs(withDocs, r.Range(5, 40), 100), // nothing stored
	}
	capacity := workers
	if capacity == 0 {
		capacity = cs.Workers
	}
	many := capacity + r.Range(2, 6) // at least as many calls as the fetcher has worker slots
	type planStep struct{ kind, list, rep int }
	plan := []planStep{
		{stepLive, 0, 1},
		{stepCancelled, 0, many},
		{stepLive, 1, 1},
		{stepDeadline, 0, many},
		{stepCancelAtActive, 0, 3},
		{stepLive, 0, many}, // with a fault: every call fails in one fraction and cancels its siblings
		{stepCancelled, 1, many},
		{stepLive, 2, 2},
		{stepDeadline, 3, 3},
		{stepLive, 3, 1},
	}
	if r.Bool() { // the order of the middle part varies
		plan[1], plan[3] = plan[3], plan[1]
		plan[4], plan[5] = plan[5], plan[4]
	}
	var steps []slotStep
	wire := slotsReq{Workers: workers, Arm: arm, TimeoutMs: 15000}
	for _, p := range plan {
		ids := lists[p.list]
		if len(ids) == 0 {
			continue
		}
		want := make([]uint64, len(ids))
		for i, x := range ids {
			want[i] = wantOf[[2]uint64{x.MID, x.RID}]
		}
		steps = append(steps, slotStep{Kind: p.kind, IDs: ids, Want: want, Rep: p.rep})
		wire.Steps = append(wire.Steps, slotStepWire{Kind: p.kind, IDs: ids, Want: want, Rep: p.rep})
	}
	resp, err := call[slotsResp](store(), "c04slots", wire)
	died := ""
	if err != nil {
		if !errors.Is(err, storectl.ErrDied) {
			return fmt.Errorf("slots: %w", err)
		}
		// the store process died (or hung and was killed) while serving the history: no observation at all
		died = err.Error()
		if len(died) > 400 {
			died = died[:400]
		}
		resp = slotsResp{Cap: capacity}
	}

	// the CSlots case
	var pre strings.Builder
	listName := map[int]string{}
	for li, ids := range lists {
		listName[li] = fmt.Sprintf("sids%d", li)
		fmt.Fprintf(&pre, "Definition sids%d : list idsrc := %s.\n", li, coqIDs(ids))
	}
	var sparts, oparts []string
	type stepSum struct {
		Kind string `json:"kind"`
		IDs  int    `json:"ids"`
		List int    `json:"id_list"`
		Rep  int    `json:"repetitions"`
	}
	var hist []stepSum
	si := 0
	for _, p := range plan {
		if len(lists[p.list]) == 0 {
			continue
		}
		sparts = append(sparts, fmt.Sprintf("SS %d %s %d", p.kind, listName[p.list], p.rep))
		hist = append(hist, stepSum{stepKindNames[p.kind], len(lists[p.list]), p.list, p.rep})
		si++
	}
	allReturned := len(resp.Obs) == len(steps)
	leaked := false
	for _, o := range resp.Obs {
		oparts = append(oparts, fmt.Sprintf("SO %s %d %d", casefile.Bool(o.Returned), o.InUse, o.Errs))
		allReturned = allReturned && o.Returned
		leaked = leaked || o.InUse > 0
	}
	fault := map[string]any{"active_fetch_panics": arm, "damaged_docs_file_of_fraction": dmg}
	input := map[string]any{"seed": seed, "tier": tier, "scenario": idx, "scenario_kind": sc.Kind, "fractions": sums,
		"fetch_workers": resp.Cap, "fault": fault, "history": hist, "id_lists": lists, "corpus": sc.Fracs}
	out.results = append(out.results, result{
		pre: pre.String(),
		coq: fmt.Sprintf("CSlots %s frs %s %s %d\n   [%s]\n   [%s]", cfg, casefile.Bool(arm),
			strings.TrimSuffix(casefile.NList(dmg), "%N"), resp.Cap, strings.Join(sparts, "; "), strings.Join(oparts, "; ")),
		class: "fetch-slots-history", nontrivial: true, input: input,
		impl: map[string]any{"fetch_workers": resp.Cap, "observations": resp.Obs, "store_process_died": died},
		counts: []string{fmt.Sprintf("slots:workers-%s", map[bool]string{true: "default", false: fmt.Sprint(workers)}[workers == 0]),
			"slots:fault-" + []string{"none", "damaged-docs", "active-panic"}[mode]},
	})
	if !allReturned && died == "" {
		// a call of the history hung: one ordinary request through GrpcV1.Fetch under a short deadline shows what a
		// client of the store sees from now on
		ids := lists[2]
		if len(ids) == 0 {
			ids = lists[0]
		}
		_, herr := probe(3000, request{kind: "fetch-after-history", ids: ids, timeoutMs: 5000,
			history: map[string]any{"fetch_workers": resp.Cap, "steps": hist, "slots_left_in_use": leaked, "a_call_of_the_history_hung": true}}, arm, dmg)
		return herr
	}
	if !allReturned {
		return nil
	}
	// ordinary requests through GrpcV1.Fetch after the history, each under a deadline
	probes := [][]ReqID{lists[2], lists[0], lists[3]}
	for pi, ids := range probes {
		if len(ids) == 0 {
			continue
		}
		stop, herr := probe(3000+pi, request{kind: "fetch-after-history", ids: ids, timeoutMs: 20000,
			history: map[string]any{"fetch_workers": resp.Cap, "steps": hist, "slots_left_in_use": leaked}}, arm, dmg)
		if herr != nil {
			return herr
		}
		if stop {
			return nil
		}
	}
	return nil
}
