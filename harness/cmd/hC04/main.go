// hC04 — correspondence driver for property C04 (fetch returns each stored document verbatim; unknown
// IDs are just "not found").
//
// Every scenario builds a REAL store in a child process (harness/internal/storectl): documents go through
// the real append path, fractions are rotated + sealed by the real sealer, optionally the store is
// restarted (sealed fractions loaded from their files, the active one replayed). Every request then runs
//   - the real storeapi.GrpcV1.Fetch over an in-process stream (what a client observes: one block per
//     requested ID, Ext1/Ext2 = the ID, the document bytes, the final status), and
//   - the real docsStream (batchLoader goroutine + calcChunkSize, through storeapi/export_verif_c04.go)
//     to observe the batch lengths.
//
// A panic in the batchLoader goroutine kills the child; the parent sees a dead child and records it as
// the outcome of the request. calcChunkSize is also driven directly on generated size vectors.
// Scenario kind "slots" (slots.go): histories of FetchDocs calls (live, cancelled, deadline passed, failing
// siblings) on the store's one long-lived Fetcher with the taken worker slots read after every call, then
// ordinary requests under a deadline. docscache.go: the docs block cache in front of disk.DocsReader on sparse
// files with blocks 2^32 bytes apart. unit.go: the position layer. gen.go: the translated Go functions.
// The observations are written as Coq cases (props/C04/coq/CaseDefs.v).
package main

import (
	"context"
	"encoding/binary"
	"encoding/json"
	"errors"
	"flag"
	"fmt"
	"os"
	"path/filepath"
	"sort"
	"strings"
	"sync"
	"sync/atomic"
	"time"

	"google.golang.org/grpc"

	"github.com/ozontech/seq-db/conf"
	"github.com/ozontech/seq-db/consts"
	"github.com/ozontech/seq-db/disk"
	"github.com/ozontech/seq-db/fracmanager"
	pb "github.com/ozontech/seq-db/pkg/storeapi"
	"github.com/ozontech/seq-db/seq"
	"github.com/ozontech/seq-db/storeapi"
	"github.com/ozontech/seq-db/verifhook"

	"verif/harness/internal/casefile"
	"verif/harness/internal/fracbuild"
	"verif/harness/internal/rng"
	"verif/harness/internal/storectl"
)

// ------------------------------------------------------------------------------------------ shared types

type DocSpec struct {
	MID uint64 `json:"mid"`
	RID uint64 `json:"rid"`
	No  uint64 `json:"no"`  // document number >= 1 (unique in the scenario)
	Tag uint64 `json:"tag"` // body generator input (unique among documents of the same length)
	Len int    `json:"len"`
}

type FracSpec struct {
	Sealed bool        `json:"sealed"`
	Bulks  [][]DocSpec `json:"bulks"`
}

type Scenario struct {
	SameRange bool       `json:"same_range"` // "chunked": all fractions cover the same time range (IDs are routed by hints)
	Huge      int        `json:"huge"`       // thorough tier: one request of that many IDs
	Kind      string     `json:"kind"`
	Fracs     []FracSpec `json:"fracs"`
	Restart   bool       `json:"restart"`
	SkipSort  bool       `json:"skip_sort_docs"`
}

type ReqID struct {
	MID  uint64 `json:"mid"`
	RID  uint64 `json:"rid"`
	Hint int    `json:"hint"` // 0 = none, k = k-th fraction of the store, 99 = a name no fraction has
}

type DistInfo struct {
	From    uint64 `json:"from"`
	To      uint64 `json:"to"`
	Bucket  uint64 `json:"bucket"` // seconds
	Bitmask []byte `json:"bitmask"`
}

type FracInfo struct {
	Name   string    `json:"name"`
	Docs   uint32    `json:"docs"`
	From   uint64    `json:"from"`
	To     uint64    `json:"to"`
	Sealed bool      `json:"sealed"`
	Dist   *DistInfo `json:"dist"`
}

type bulkReq struct {
	Docs         []DocSpec `json:"docs"`
	RegisterOnly bool      `json:"register_only"`
}

type fetchReq struct {
	IDs   []ReqID  `json:"ids"`
	Names []string `json:"names"` // fraction names, index k-1 for hint k
	Arm   bool     `json:"arm"`   // the active fraction's Fetch panics on entry (schedule point "fetch.start")
	// > 0: the request runs under a deadline; a request that has not ended by then is reported as hung
	TimeoutMs int `json:"timeout_ms"`
}

type fetchResp struct {
	Sent    [][4]uint64 `json:"sent"` // ext1, ext2, document number (0 = empty, garbage = unknown bytes), length
	Err     string      `json:"err"`
	Lens    []int       `json:"lens"`
	LensErr string      `json:"lens_err"`
	Hung    bool        `json:"hung"` // the request (or the batch loader run) ended only because its deadline passed
}

type calcReq struct {
	Prev  int   `json:"prev"`
	Sizes []int `json:"sizes"`
}

type calcResp struct {
	Res   int    `json:"res"`
	Panic string `json:"panic"`
}

type constsResp struct {
	IDsPerBlock int `json:"ids_per_block"`
	MaxFetch    int `json:"max_fetch"`
	InitChunk   int `json:"init_chunk"`
	Workers     int `json:"fetch_workers"` // conf.FetchWorkers (default)
}

const garbage = uint64(999999999)

func splitmix(z uint64) uint64 {
	z += 0x9E3779B97F4A7C15
	z = (z ^ (z >> 30)) * 0xBF58476D1CE4E5B9
	z = (z ^ (z >> 27)) * 0x94D049BB133111EB
	return z ^ (z >> 31)
}

// genBody: the first min(n,8) bytes are the tag (little endian), the rest is pseudo-random filler.
func genBody(tag uint64, n int) []byte {
	b := make([]byte, n+8)
	binary.LittleEndian.PutUint64(b, tag)
	s := tag
	for i := 8; i < n; i += 8 {
		s = splitmix(s)
		binary.LittleEndian.PutUint64(b[i:], s)
	}
	return b[:n]
}

// ------------------------------------------------------------------------------------------ child side

var (
	childArmed  atomic.Bool
	childBodies = map[string]uint64{}
	childGrpc   *storeapi.GrpcV1
	childAsync  string
)

type mappingProvider struct{}

func (mappingProvider) GetMapping() seq.Mapping { return seq.Mapping{} }

type fakeStream struct {
	grpc.ServerStream
	ctx  context.Context
	sent [][4]uint64
}

func (s *fakeStream) Context() context.Context { return s.ctx }

func classify(doc []byte) (uint64, uint64) {
	if len(doc) == 0 {
		return 0, 0
	}
	if no, ok := childBodies[string(doc)]; ok {
		return no, uint64(len(doc))
	}
	return garbage, uint64(len(doc))
}

func (s *fakeStream) Send(d *pb.BinaryData) error {
	blk := disk.DocBlock(d.Data)
	no, l := classify(blk.Payload())
	s.sent = append(s.sent, [4]uint64{blk.GetExt1(), blk.GetExt2(), no, l})
	return nil
}

func extra(v any) json.RawMessage {
	b, err := json.Marshal(v)
	if err != nil {
		panic(err)
	}
	return b
}

func getGrpc(c *storectl.Child) (*storeapi.GrpcV1, error) {
	if childGrpc != nil {
		return childGrpc, nil
	}
	if c.FM == nil {
		return nil, errors.New("store not open")
	}
	// next to the data directory, inside the scenario's scratch directory that the parent removes
	ad := filepath.Join(filepath.Dir(c.Dir), "async")
	if err := os.MkdirAll(ad, 0o755); err != nil {
		return nil, err
	}
	childAsync = ad
	childGrpc = storeapi.NewGrpcV1(storeapi.APIConfig{Search: storeapi.SearchConfig{
		WorkersCount: 2, RequestsLimit: 100,
		Async: fracmanager.AsyncSearcherConfig{DataDir: ad},
	}}, c.FM, mappingProvider{})
	return childGrpc, nil
}

func registerOps() {
	storectl.Register("c04consts", func(c *storectl.Child, r storectl.Req) (storectl.Resp, error) {
		return storectl.Resp{Extra: extra(constsResp{IDsPerBlock: consts.IDsPerBlock, MaxFetch: conf.MaxFetchSizeBytes,
			InitChunk: storeapi.VerifC04InitChunkSize, Workers: conf.FetchWorkers})}, nil
	})
	storectl.Register("c04bulk", func(c *storectl.Child, r storectl.Req) (storectl.Resp, error) {
		var br bulkReq
		if err := json.Unmarshal(r.Extra, &br); err != nil {
			return storectl.Resp{}, err
		}
		docs := make([]fracbuild.Doc, len(br.Docs))
		for i, d := range br.Docs {
			b := genBody(d.Tag, d.Len)
			if no, dup := childBodies[string(b)]; dup && no != d.No {
				return storectl.Resp{}, fmt.Errorf("harness: bodies of documents %d and %d collide", no, d.No)
			}
			childBodies[string(b)] = d.No
			docs[i] = fracbuild.Doc{MID: d.MID, RID: d.RID, Body: b}
		}
		if br.RegisterOnly {
			return storectl.Resp{}, nil
		}
		return storectl.Resp{}, fracbuild.Append(c.FM, docs)
	})
	storectl.Register("c04info", func(c *storectl.Child, r storectl.Req) (storectl.Resp, error) {
		var out []FracInfo
		for _, f := range c.FM.GetAllFracs() {
			i := f.Info()
			_, statErr := os.Stat(i.Path + ".index")
			fi := FracInfo{Name: i.Name(), Docs: i.DocsTotal, From: uint64(i.From), To: uint64(i.To), Sealed: statErr == nil}
			if i.Distribution != nil {
				b, err := json.Marshal(i.Distribution)
				if err != nil {
					return storectl.Resp{}, err
				}
				if string(b) != "null" {
					var d DistInfo
					if err := json.Unmarshal(b, &d); err != nil {
						return storectl.Resp{}, err
					}
					fi.Dist = &d
				}
			}
			out = append(out, fi)
		}
		return storectl.Resp{Extra: extra(out)}, nil
	})
	storectl.Register("c04fetch", func(c *storectl.Child, r storectl.Req) (storectl.Resp, error) {
		var fr fetchReq
		if err := json.Unmarshal(r.Extra, &fr); err != nil {
			return storectl.Resp{}, err
		}
		g, err := getGrpc(c)
		if err != nil {
			return storectl.Resp{}, err
		}
		verifhook.Set(func(name string) {
			if name == "fetch.start" && childArmed.Load() {
				panic("verif: injected panic at fetch.start")
			}
		})
		childArmed.Store(fr.Arm)
		defer childArmed.Store(false)
		hintName := func(h int) string {
			switch {
			case h == 0:
				return ""
			case h >= 1 && h <= len(fr.Names):
				return fr.Names[h-1]
			}
			return "no-such-fraction"
		}
		req := &pb.FetchRequest{}
		src := make(seq.IDSources, len(fr.IDs))
		withHints := false
		for _, x := range fr.IDs {
			if x.Hint != 0 {
				withHints = true
			}
		}
		for i, x := range fr.IDs {
			id := seq.ID{MID: seq.MID(x.MID), RID: seq.RID(x.RID)}
			src[i] = seq.IDSource{ID: id, Hint: hintName(x.Hint)}
			if withHints {
				req.IdsWithHints = append(req.IdsWithHints, &pb.IdWithHint{Id: id.String(), Hint: hintName(x.Hint)})
			} else {
				req.Ids = append(req.Ids, id.String())
			}
		}
		var resp fetchResp
		reqCtx := func() (context.Context, context.CancelFunc) {
			if fr.TimeoutMs > 0 {
				return context.WithTimeout(context.Background(), time.Duration(fr.TimeoutMs)*time.Millisecond)
			}
			return context.WithCancel(context.Background())
		}
		ctx1, cancel1 := reqCtx()
		fs := &fakeStream{ctx: ctx1}
		if err := g.Fetch(req, fs); err != nil {
			resp.Err = err.Error()
		}
		resp.Hung = fr.TimeoutMs > 0 && errors.Is(ctx1.Err(), context.DeadlineExceeded)
		cancel1()
		resp.Sent = fs.sent
		ctx2, cancel2 := reqCtx()
		lens, _, lerr := g.VerifC04Batches(ctx2, src)
		resp.Lens = lens
		if lerr != nil {
			resp.LensErr = lerr.Error()
		}
		resp.Hung = resp.Hung || (fr.TimeoutMs > 0 && errors.Is(ctx2.Err(), context.DeadlineExceeded))
		cancel2()
		return storectl.Resp{Extra: extra(resp)}, nil
	})
	storectl.Register("c04calc", func(c *storectl.Child, r storectl.Req) (resp storectl.Resp, err error) {
		var cr calcReq
		if err := json.Unmarshal(r.Extra, &cr); err != nil {
			return storectl.Resp{}, err
		}
		docs := make([][]byte, len(cr.Sizes))
		for i, n := range cr.Sizes {
			if n > 0 {
				docs[i] = make([]byte, n)
			}
		}
		var out calcResp
		func() {
			defer func() {
				if p := recover(); p != nil {
					out.Panic = fmt.Sprint(p)
				}
			}()
			out.Res = storeapi.VerifC04CalcChunkSize(docs, cr.Prev)
		}()
		return storectl.Resp{Extra: extra(out)}, nil
	})
}

// ------------------------------------------------------------------------------------------ generators

type gen struct {
	noBigMID bool // "recent" scenarios: MIDs >= 2^63 only in the dedicated request class mid-above-int64
	r        *rng.R
	nextNo   uint64
	short    [8]uint64 // next tag for documents shorter than 8 bytes, per length
	used     map[[2]uint64]bool
}

func newGen(r *rng.R) *gen { return &gen{r: r, nextNo: 1, used: map[[2]uint64]bool{}} }

func (g *gen) doc(mid, rid uint64, n int) DocSpec {
	if n < 1 {
		n = 1
	}
	for n < 8 {
		lim := uint64(1) << (8 * uint(n))
		if n >= 4 || g.short[n] < lim {
			break
		}
		n++
	}
	d := DocSpec{MID: mid, RID: rid, No: g.nextNo, Len: n}
	if n < 8 {
		d.Tag = g.short[n]
		g.short[n]++
	} else {
		d.Tag = g.nextNo
	}
	g.nextNo++
	g.used[[2]uint64{mid, rid}] = true
	return d
}

var ridPool = []uint64{0, 1, 2, 3, 5, 8, 13, 21, 1 << 31, 1 << 32, 1<<63 - 1, 1 << 63, ^uint64(0) - 1, ^uint64(0)}

// random parts: mostly small numbers (the Coq side pays per digit), some 64-bit ones and the extremes
func (g *gen) rid() uint64 {
	switch g.r.Intn(8) {
	case 0:
		return rng.Pick(g.r, ridPool)
	case 1, 2:
		return uint64(g.r.Range(1, 40))
	case 3:
		return g.r.U64()
	}
	return uint64(g.r.Range(1, 99999))
}

func (g *gen) docLen(kind string) int {
	r := g.r
	switch kind {
	case "big":
		return r.Range(1, 12)
	case "large-docs":
		if r.Chance(1, 5) {
			return r.Range(1, 200)
		}
		return r.Range(8<<10, 64<<10)
	}
	switch r.Intn(10) {
	case 0:
		return 1
	case 1, 2:
		return r.Range(2, 8)
	case 3:
		return r.Range(2000, 20000)
	}
	return r.Range(9, 300)
}

// fresh ID inside fraction range [lo, hi] (MIDs collide on purpose: narrow ranges)
func (g *gen) freshID(lo, hi uint64) (uint64, uint64) {
	for {
		m := lo + uint64(g.r.Intn(int(hi-lo+1)))
		x := g.rid()
		if !g.used[[2]uint64{m, x}] {
			return m, x
		}
	}
}

func (g *gen) scenario(kind string) Scenario {
	r := g.r
	sc := Scenario{Kind: kind, Restart: r.Chance(1, 4), SkipSort: r.Chance(1, 4)}
	base := uint64(10_000 + r.Intn(1000))
	nfr := r.Range(1, 4)
	lastActive := r.Chance(1, 2)
	if kind == "recent" {
		// timestamps of the last 20 minutes: the sealed fractions get an occupancy map (distribution) whose
		// window contains the documents. The only scenario kind whose IDs depend on the wall clock.
		base = uint64(time.Now().UnixMilli()) - 20*60*1000
		lastActive = false
		g.noBigMID = true
	}
	switch kind {
	case "big":
		nfr = r.Range(1, 2)
	case "large-docs":
		nfr = r.Range(1, 2)
	case "chunked": // several fractions, none empty (the last one active), for requests loaded in several chunks
		nfr = r.Range(3, 4)
		lastActive = true
	case "slots": // several fractions with disjoint time ranges, the last one active, for histories of FetchDocs calls
		nfr = r.Range(3, 5)
		lastActive = true
	}
	chunkedOverlap := r.Bool()
	if kind == "slots" {
		chunkedOverlap = false
	}
	if kind == "chunked" {
		sc.SameRange = chunkedOverlap
	}
	var all []DocSpec
	for fi := 0; fi < nfr; fi++ {
		var lo, hi uint64
		switch r.Intn(4) {
		case 0: // disjoint, later
			lo = base + uint64(fi*100) + uint64(r.Intn(20))
			hi = lo + uint64(r.Intn(40))
		case 1: // adjacent / sharing a border timestamp
			lo = base + uint64(fi*30)
			hi = lo + 30
		case 2: // single timestamp
			lo = base + uint64(r.Intn(100))
			hi = lo
		default: // overlapping
			lo = base + uint64(r.Intn(60))
			hi = lo + uint64(r.Intn(80))
		}
		if kind == "recent" {
			lo = base + uint64(r.Intn(3))*60000
			hi = lo + uint64(r.Intn(200000))
		}
		if kind == "chunked" || kind == "slots" {
			if chunkedOverlap {
				lo = base
				hi = lo + 60
			} else {
				lo = base + uint64(fi*100)
				hi = lo + 40
			}
		}
		n := r.Range(1, 40)
		switch kind {
		case "big":
			n = r.Range(30, 200)
			if fi == 0 {
				n = r.Range(consts.IDsPerBlock-3, 2*consts.IDsPerBlock+700)
				hi = lo + uint64(r.Range(5, 400))
			}
		case "large-docs":
			n = r.Range(60, 160)
		case "chunked":
			n = r.Range(15, 50)
		case "slots":
			n = r.Range(8, 30)
		}
		docs := make([]DocSpec, 0, n)
		for i := 0; i < n; i++ {
			var m, x uint64
			if kind == "dup-fracs" && len(all) > 0 && r.Chance(1, 4) {
				p := rng.Pick(r, all) // the same ID once more, in another fraction, with another document
				m, x = p.MID, p.RID
				dupHere := false
				for _, d := range docs {
					if d.MID == m && d.RID == x {
						dupHere = true
					}
				}
				if dupHere {
					m, x = g.freshID(lo, hi)
				}
			} else {
				m, x = g.freshID(lo, hi)
			}
			docs = append(docs, g.doc(m, x, g.docLen(kind)))
		}
		nb := r.Range(1, 3)
		if nb > len(docs) {
			nb = len(docs)
		}
		fs := FracSpec{Sealed: !(fi == nfr-1 && lastActive)}
		for b := 0; b < nb; b++ {
			fs.Bulks = append(fs.Bulks, docs[b*len(docs)/nb:(b+1)*len(docs)/nb])
		}
		sc.Fracs = append(sc.Fracs, fs)
		all = append(all, docs...)
	}
	return sc
}

type fracView struct {
	info  FracInfo
	docs  []DocSpec
	split []int // documents per bulk (one doc block each in the active docs file)
}

// absent ID relative to the borders / contents of fraction f
func (g *gen) absent(f fracView, stored map[[2]uint64]bool) (uint64, uint64) {
	r := g.r
	minAt := func(m uint64) (uint64, bool) {
		best, ok := uint64(0), false
		for _, d := range f.docs {
			if d.MID == m && (!ok || d.RID < best) {
				best, ok = d.RID, true
			}
		}
		return best, ok
	}
	maxAt := func(m uint64) (uint64, bool) {
		best, ok := uint64(0), false
		for _, d := range f.docs {
			if d.MID == m && (!ok || d.RID > best) {
				best, ok = d.RID, true
			}
		}
		return best, ok
	}
	for try := 0; ; try++ {
		var m, x uint64
		from, to := f.info.From, f.info.To
		switch r.Intn(12) {
		case 0: // oldest timestamp of the fraction, random part below the smallest stored one
			m = from
			if mn, ok := minAt(from); ok && mn > 0 {
				x = uint64(r.Intn(int(min(mn, 1<<30))))
			}
		case 1: // oldest timestamp, any other random part
			m, x = from, g.rid()
		case 2: // newest timestamp, random part above the largest stored one
			m = to
			if mx, ok := maxAt(to); ok && mx < ^uint64(0) {
				x = mx + 1 + uint64(r.Intn(3))
				if x < mx {
					x = ^uint64(0)
				}
			} else {
				x = g.rid()
			}
		case 3:
			m, x = to, g.rid()
		case 4: // just outside
			m, x = from-1, g.rid()
		case 5:
			m, x = to+1, g.rid()
		case 6: // neighbour of a stored ID
			d := rng.Pick(r, f.docs)
			m, x = d.MID, d.RID+1
		case 7:
			d := rng.Pick(r, f.docs)
			m, x = d.MID, d.RID-1
		case 8: // inside the range
			m, x = from+uint64(r.Intn(int(to-from+1))), g.rid()
		case 9: // below / above everything
			m, x = rng.Pick(r, []uint64{0, 1, from / 2}), g.rid()
		case 10:
			m, x = rng.Pick(r, []uint64{to * 2, 1 << 62, 1 << 63, ^uint64(0)}), g.rid()
			if g.noBigMID && m >= 1<<63 {
				m = 1<<63 - 1 - uint64(r.Intn(5))
			}
		default: // same random part as a stored ID, other timestamp
			d := rng.Pick(r, f.docs)
			m, x = d.MID+uint64(r.Range(1, 3)), d.RID
		}
		if !stored[[2]uint64{m, x}] {
			return m, x
		}
		if try > 1000 {
			panic("harness: cannot generate an absent ID")
		}
	}
}

type request struct {
	kind      string
	ids       []ReqID
	timeoutMs int // > 0: the request runs under this deadline (fetch-after-history)
	history   any // fetch-after-history: what the store's fetcher served before
}

func (g *gen) requests(sc Scenario, views []fracView, tier string) []request {
	r := g.r
	stored := map[[2]uint64]bool{}
	var present []struct {
		d  DocSpec
		fr int
	}
	var withDocs []int
	for k, v := range views {
		for _, d := range v.docs {
			stored[[2]uint64{d.MID, d.RID}] = true
			present = append(present, struct {
				d  DocSpec
				fr int
			}{d, k + 1})
		}
		if len(v.docs) > 0 {
			withDocs = append(withDocs, k)
		}
	}
	maxIDs := 200
	nreq := 8
	switch sc.Kind {
	case "big":
		maxIDs, nreq = 2000, 4
	case "large-docs":
		maxIDs, nreq = 1500, 4
	}
	if tier == "thorough" {
		maxIDs *= 3
		nreq += 4
	}
	kinds := []string{"present", "mixed", "mixed", "absent", "border", "hints", "hints", "absent-heavy", "absent-heavy", "dups", "mixed-sorted"}
	var out []request
	forceBig := false
	add := func(kind string, n int) {
		seen := map[[2]uint64]bool{}
		var ids []ReqID
		push := func(m, x uint64, hint int) {
			if kind != "dups" && seen[[2]uint64{m, x}] {
				return
			}
			seen[[2]uint64{m, x}] = true
			ids = append(ids, ReqID{MID: m, RID: x, Hint: hint})
		}
		pickPresent := func() (DocSpec, int) {
			p := rng.Pick(r, present)
			return p.d, p.fr
		}
		absent := func() (uint64, uint64) { return g.absent(views[rng.Pick(r, withDocs)], stored) }
		hint := func(fr int) int {
			if kind != "hints" {
				return 0
			}
			switch r.Intn(6) {
			case 0:
				return 0
			case 1:
				return r.Range(1, len(views)) // any fraction, right or wrong
			case 2:
				return 99
			}
			if fr == 0 {
				return rng.Pick(r, withDocs) + 1
			}
			return fr
		}
		switch kind {
		case "present":
			for i := 0; i < n; i++ {
				d, fr := pickPresent()
				push(d.MID, d.RID, hint(fr))
			}
		case "absent":
			for i := 0; i < n; i++ {
				m, x := absent()
				push(m, x, 0)
			}
		case "mid-above-int64": // stored IDs plus absent IDs whose timestamp does not fit int64 milliseconds
			for i := 0; i < n; i++ {
				d, _ := pickPresent()
				push(d.MID, d.RID, 0)
			}
			for i := r.Range(1, 2); i > 0; i-- {
				push(rng.Pick(r, []uint64{1 << 63, ^uint64(0), 1<<63 + uint64(r.Intn(1000000))}), g.rid(), 0)
			}
			rng.Shuffle(r, ids)
		case "by-fraction":
			// more than one chunk (the first chunk takes 1000 IDs); the first chunk asks only some of the
			// fractions (stored IDs and absent IDs inside their time range), the rest of the request the others
			perm := append([]int{}, withDocs...)
			var first, rest []int
			if len(perm) >= 3 && !r.Chance(1, 4) {
				// the first chunk leaves out a fraction in the middle of the list (and of the time span) ...
				skip := perm[r.Range(1, len(perm)-2)]
				for _, k := range perm {
					if k != skip && (k == perm[0] || k == perm[len(perm)-1] || r.Chance(2, 3)) {
						first = append(first, k)
					}
				}
				rest = []int{skip} // ... and the later chunks ask for it
				if r.Bool() {
					rest = append(rest, rng.Pick(r, perm))
				}
			} else {
				rng.Shuffle(r, perm)
				k1 := r.Range(1, max(1, len(perm)-1))
				first, rest = perm[:k1], perm[k1:]
				if len(rest) == 0 || r.Chance(1, 4) {
					rest = perm
				}
			}
			hinted := sc.SameRange // every ID carries the hint of the fraction it is meant for
			hintOf := func(k int) int {
				if hinted {
					return k + 1
				}
				return 0
			}
			fill := func(set []int, upto int) {
				byFr := map[int][]DocSpec{}
				for _, p := range present {
					byFr[p.fr-1] = append(byFr[p.fr-1], p.d)
				}
				for _, k := range set { // every stored document of these fractions (while there is room)
					ds := byFr[k]
					rng.Shuffle(r, ds)
					for _, d := range ds {
						if len(ids) < upto {
							push(d.MID, d.RID, hintOf(k))
						}
					}
				}
				for i := 0; len(ids) < upto && i < 40*upto; i++ {
					k := rng.Pick(r, set)
					v := views[k]
					m := v.info.From + uint64(r.Intn(int(v.info.To-v.info.From)+1))
					x := uint64(r.Intn(100000))
					if !stored[[2]uint64{m, x}] {
						push(m, x, hintOf(k))
					}
				}
			}
			n1 := 1000
			if r.Chance(1, 3) {
				n1 = r.Range(990, 1010)
			}
			fill(first, n1)
			head := append([]ReqID{}, ids...)
			rng.Shuffle(r, head)
			copy(ids, head)
			fill(rest, n1+r.Range(100, 1200))
			tail := ids[len(head):]
			rng.Shuffle(r, tail)
		case "huge": // up to 100k IDs: everything stored plus absent IDs around the fractions
			for _, p := range present {
				push(p.d.MID, p.d.RID, 0)
			}
			for i := 0; len(ids) < n && i < 3*n; i++ {
				if i%3 == 0 {
					m, x := absent()
					push(m, x, 0)
				} else {
					v := views[rng.Pick(r, withDocs)]
					push(v.info.From-2+uint64(r.Intn(int(v.info.To-v.info.From)+5)), uint64(r.Intn(60000)), 0)
				}
			}
			rng.Shuffle(r, ids)
		case "absent-heavy": // many IDs, very few (small) documents found: found bytes / requested IDs < 1
			if forceBig {
				n = 1001 + r.Intn(maxIDs) // more than the initial chunk of 1000 IDs
			} else {
				n = max(n, 20)
			}
			small := []DocSpec{}
			for _, p := range present {
				if p.d.Len <= 40 {
					small = append(small, p.d)
				}
			}
			k := r.Range(1, 3)
			at := map[int]bool{}
			for i := 0; i < k; i++ {
				at[r.Intn(n)] = true
			}
			for i := 0; len(ids) < n && i < 30*n; i++ {
				if at[len(ids)] && len(small) > 0 {
					d := rng.Pick(r, small)
					push(d.MID, d.RID, 0)
					delete(at, len(ids)-1)
				} else {
					m, x := absent()
					push(m, x, 0)
				}
			}
		case "border":
			for _, k := range withDocs {
				v := views[k]
				for i := 0; i < 12; i++ {
					m, x := g.absent(v, stored)
					push(m, x, 0)
				}
				for _, d := range v.docs {
					if d.MID == v.info.From || d.MID == v.info.To {
						push(d.MID, d.RID, 0)
					}
				}
			}
			rng.Shuffle(r, ids)
			if len(ids) > maxIDs {
				ids = ids[:maxIDs]
			}
		default: // mixed, mixed-sorted, hints, dups
			pa := r.Range(0, 100)
			for i := 0; i < n; i++ {
				if kind == "dups" && len(ids) > 0 && r.Chance(1, 4) {
					p := rng.Pick(r, ids)
					push(p.MID, p.RID, p.Hint)
				} else if r.Intn(100) < pa {
					m, x := absent()
					push(m, x, hint(0))
				} else {
					d, fr := pickPresent()
					push(d.MID, d.RID, hint(fr))
				}
			}
		}
		less := func(i, j int) bool {
			if ids[i].MID != ids[j].MID {
				return ids[i].MID < ids[j].MID
			}
			return ids[i].RID < ids[j].RID
		}
		switch {
		case kind == "by-fraction":
		case kind == "mixed-sorted" || r.Chance(1, 5):
			if r.Bool() {
				sort.SliceStable(ids, less)
			} else {
				sort.SliceStable(ids, func(i, j int) bool { return less(j, i) })
			}
			if r.Chance(1, 3) && len(ids) > 3 { // nearly sorted
				i, j := r.Intn(len(ids)), r.Intn(len(ids))
				ids[i], ids[j] = ids[j], ids[i]
			}
		}
		if len(ids) > 0 {
			out = append(out, request{kind: kind, ids: ids})
		}
	}
	for i := 0; i < nreq; i++ {
		kind := rng.Pick(r, kinds)
		n := r.Range(1, maxIDs)
		if r.Chance(1, 3) {
			n = r.Range(1, 12)
		}
		add(kind, n)
	}
	forceBig = sc.Kind != "small" && sc.Kind != "dup-fracs" || r.Chance(1, 3)
	add("absent-heavy", 0)
	forceBig = false
	add("border", 0)
	if sc.Kind == "recent" {
		add("mid-above-int64", r.Range(2, 30))
	}
	if sc.Kind == "chunked" {
		for i := 0; i < 3; i++ {
			add("by-fraction", 0)
		}
	}
	if sc.Huge > 0 {
		add("huge", sc.Huge)
	}
	return out
}

// ------------------------------------------------------------------------------------------ running

type result struct {
	pre        string // definitions the case term refers to (long lists in pieces)
	coq        string
	class      string
	nontrivial bool
	input      any
	impl       any
	counts     []string
}

type scenarioOut struct {
	frs     string // Coq term: the fractions of the scenario
	results []result
	err     error // harness failure (not a violation)
}

func call[T any](st *storectl.Store, op string, in any) (T, error) {
	var out T
	resp, err := st.Call(storectl.Req{Op: op, Extra: extra(in)})
	if err != nil {
		return out, err
	}
	if len(resp.Extra) > 0 {
		err = json.Unmarshal(resp.Extra, &out)
	}
	return out, err
}

func coqFracs(views []fracView) string {
	var sb strings.Builder
	sb.WriteString("[")
	for k, v := range views {
		if k > 0 {
			sb.WriteString(";\n    ")
		}
		dist := "None"
		if v.info.Dist != nil {
			d := v.info.Dist
			dist = fmt.Sprintf("(Some (mkDist %d %d %d %s))", d.From, d.To, d.Bucket*1000, strings.TrimSuffix(casefile.Bytes(d.Bitmask), "%N"))
		}
		fmt.Fprintf(&sb, "mkFrac %d %s %d %d %s [", k+1, casefile.Bool(v.info.Sealed), v.info.From, v.info.To, dist)
		for i, d := range v.docs {
			if i > 0 {
				sb.WriteString(";")
			}
			fmt.Fprintf(&sb, "D %d %d %d %d", d.MID, d.RID, d.No, d.Len)
		}
		sb.WriteString("] " + casefile.NatList(v.split) + "%nat")
	}
	sb.WriteString("]")
	return sb.String()
}

// chunked renders a long list literal as definitions of pieces (a literal of 100k elements overflows the
// stack of Coq's type checker) and returns the preamble and the name of the whole list.
func chunked(name, typ string, n int, item func(i int) string) (pre, term string) {
	const piece = 2000
	var sb strings.Builder
	var parts []string
	for lo := 0; lo < n; lo += piece {
		hi := min(n, lo+piece)
		pn := fmt.Sprintf("%s_%d", name, lo/piece)
		fmt.Fprintf(&sb, "Definition %s : list (%s) := [", pn, typ)
		for i := lo; i < hi; i++ {
			if i > lo {
				sb.WriteString(";")
			}
			sb.WriteString(item(i))
		}
		sb.WriteString("].\n")
		parts = append(parts, pn)
	}
	fmt.Fprintf(&sb, "Definition %s : list (%s) := concat [%s].\n", name, typ, strings.Join(parts, "; "))
	return sb.String(), name
}

func sentItem(e [4]uint64) string {
	if e[2] == 0 && e[3] == 0 {
		return fmt.Sprintf("X %d %d", e[0], e[1])
	}
	return fmt.Sprintf("F %d %d %d %d", e[0], e[1], e[2], e[3])
}

func coqIDs(ids []ReqID) string {
	var sb strings.Builder
	sb.WriteString("[")
	for i, x := range ids {
		if i > 0 {
			sb.WriteString(";")
		}
		fmt.Fprintf(&sb, "Q %d %d %d", x.MID, x.RID, x.Hint)
	}
	sb.WriteString("]")
	return sb.String()
}

func coqSent(sent [][4]uint64) string {
	var sb strings.Builder
	sb.WriteString("[")
	for i, e := range sent {
		if i > 0 {
			sb.WriteString(";")
		}
		if e[2] == 0 && e[3] == 0 {
			fmt.Fprintf(&sb, "X %d %d", e[0], e[1])
		} else {
			fmt.Fprintf(&sb, "F %d %d %d %d", e[0], e[1], e[2], e[3])
		}
	}
	sb.WriteString("]")
	return sb.String()
}

func runScenario(seed uint64, tier string, idx int, kind string, cs constsResp) (out scenarioOut) {
	g := newGen(rng.New(seed*1000003 + uint64(idx)*7919 + 17))
	sc := g.scenario(kind)
	if tier == "thorough" && kind == "small" {
		switch {
		case idx == 1:
			sc.Huge = 100000
		case idx%50 == 2:
			sc.Huge = 20000
		}
	}
	dir, err := os.MkdirTemp("", "verif-c04-")
	if err != nil {
		return scenarioOut{err: err}
	}
	defer os.RemoveAll(dir)
	data := filepath.Join(dir, "data")
	st, err := storectl.Start("")
	if err != nil {
		return scenarioOut{err: err}
	}
	st.Timeout = 90 * time.Second
	defer func() { st.Close() }()
	open := func() error {
		_, e := st.Call(storectl.Req{Op: "open", Dir: data, SkipSortDocs: sc.SkipSort})
		return e
	}
	if err := open(); err != nil {
		return scenarioOut{err: fmt.Errorf("open: %w", err)}
	}
	for _, f := range sc.Fracs {
		for _, b := range f.Bulks {
			if _, err := call[struct{}](st, "c04bulk", bulkReq{Docs: b}); err != nil {
				return scenarioOut{err: fmt.Errorf("bulk: %w", err)}
			}
		}
		if f.Sealed {
			if _, err := st.Call(storectl.Req{Op: "seal"}); err != nil {
				return scenarioOut{err: fmt.Errorf("seal: %w", err)}
			}
		}
	}
	if sc.Restart {
		st.Close()
		if st, err = storectl.Start(""); err != nil {
			return scenarioOut{err: err}
		}
		st.Timeout = 90 * time.Second
		if err := open(); err != nil {
			return scenarioOut{err: fmt.Errorf("reopen: %w", err)}
		}
		for _, f := range sc.Fracs {
			for _, b := range f.Bulks {
				if _, err := call[struct{}](st, "c04bulk", bulkReq{Docs: b, RegisterOnly: true}); err != nil {
					return scenarioOut{err: err}
				}
			}
		}
	}
	infos, err := call[[]FracInfo](st, "c04info", struct{}{})
	if err != nil {
		return scenarioOut{err: fmt.Errorf("info: %w", err)}
	}
	// the k-th fraction that holds documents is the k-th fraction of the scenario
	var views []fracView
	k := 0
	names := make([]string, len(infos))
	for i, fi := range infos {
		names[i] = fi.Name
		v := fracView{info: fi}
		if fi.Docs > 0 {
			if k >= len(sc.Fracs) {
				return scenarioOut{err: fmt.Errorf("harness: more fractions with documents than built: %+v", infos)}
			}
			for _, b := range sc.Fracs[k].Bulks {
				v.docs = append(v.docs, b...)
				v.split = append(v.split, len(b))
			}
			if int(fi.Docs) != len(v.docs) || fi.Sealed != sc.Fracs[k].Sealed {
				return scenarioOut{err: fmt.Errorf("harness: fraction %d: %d docs sealed=%v, expected %d sealed=%v",
					k, fi.Docs, fi.Sealed, len(v.docs), sc.Fracs[k].Sealed)}
			}
			k++
		}
		views = append(views, v)
	}
	if k != len(sc.Fracs) {
		return scenarioOut{err: fmt.Errorf("harness: %d fractions with documents, built %d", k, len(sc.Fracs))}
	}
	out.frs = coqFracs(views)
	cfg := fmt.Sprintf("(mkCfg %d %d %d)", cs.IDsPerBlock, cs.MaxFetch, cs.InitChunk)
	type fsum struct {
		Name   string `json:"name"`
		Sealed bool   `json:"sealed"`
		From   uint64 `json:"from"`
		To     uint64 `json:"to"`
		Docs   int    `json:"docs"`
		Dist   bool   `json:"has_distribution"`
	}
	var sums []fsum
	ndocs := 0
	for _, v := range views {
		sums = append(sums, fsum{v.info.Name, v.info.Sealed, v.info.From, v.info.To, len(v.docs), v.info.Dist != nil})
		ndocs += len(v.docs)
	}
	stored := map[[2]uint64]bool{}
	for _, v := range views {
		for _, d := range v.docs {
			stored[[2]uint64{d.MID, d.RID}] = true
		}
	}
	type faultSpec struct {
		panicActive bool
		damaged     []int // fraction numbers (1-based) whose docs file was cut down
	}
	// runs one request; stop = the scenario cannot go on (store process gone)
	runReq := func(ri int, rq request, fault faultSpec) (stop bool, herr error) {
		input := map[string]any{"seed": seed, "tier": tier, "scenario": idx, "scenario_kind": sc.Kind, "request": ri,
			"restart": sc.Restart, "skip_sort_docs": sc.SkipSort, "fractions": sums, "ids": rq.ids}
		if ndocs <= 120 {
			input["corpus"] = sc.Fracs
		}
		ctor := "CFetch " + cfg + " frs"
		class := rq.kind
		isFault := fault.panicActive || len(fault.damaged) > 0
		if isFault {
			input["fault"] = map[string]any{"active_fetch_panics": fault.panicActive, "damaged_docs_file_of_fraction": fault.damaged}
			ctor = fmt.Sprintf("CFault %s frs %s %s", cfg, casefile.Bool(fault.panicActive), strings.TrimSuffix(casefile.NList(fault.damaged), "%N"))
			class = "fault-active-panic"
			if len(fault.damaged) > 0 {
				class = "fault-damaged-docs"
			}
		}
		if rq.kind == "fetch-after-history" {
			class = rq.kind
			input["history"] = rq.history
		}
		resp, ferr := call[fetchResp](st, "c04fetch", fetchReq{IDs: rq.ids, Names: names, Arm: fault.panicActive, TimeoutMs: rq.timeoutMs})
		res := result{class: class, input: input}
		npres := 0
		for _, x := range rq.ids {
			if stored[[2]uint64{x.MID, x.RID}] {
				npres++
			}
		}
		res.counts = append(res.counts, "req:"+rq.kind, fmt.Sprintf("ids:%s", bucket(len(rq.ids))),
			fmt.Sprintf("present-share:%s", share(npres, len(rq.ids))))
		if ferr != nil {
			if !errors.Is(ferr, storectl.ErrDied) {
				return true, fmt.Errorf("fetch: %w", ferr)
			}
			// the store process died (or hung and was killed) while serving the request
			msg := ferr.Error()
			if i := strings.Index(msg, "panic:"); i >= 0 {
				msg = msg[i:min(len(msg), i+300)]
			} else if len(msg) > 300 {
				msg = msg[:300]
			}
			res.coq = fmt.Sprintf("%s\n   %s\n   SCrash None", ctor, coqIDs(rq.ids))
			res.impl = map[string]any{"store_process_died": msg}
			res.nontrivial = true
			out.results = append(out.results, res)
			return true, nil // the scenario's store is gone
		}
		if resp.Hung {
			// the request ended only because its deadline passed: it did not terminate by itself
			res.coq = fmt.Sprintf("%s\n   %s\n   SFuel None", ctor, coqIDs(rq.ids))
			res.impl = map[string]any{"hung": fmt.Sprintf("the request did not end within %d ms", rq.timeoutMs), "err": resp.Err,
				"blocks": len(resp.Sent), "batch_lens": resp.Lens, "batches_err": resp.LensErr}
			res.nontrivial = true
			out.results = append(out.results, res)
			return true, nil // the store's fetcher has no free worker slot any more
		}
		status := "SOk"
		if resp.Err != "" {
			status = "SErr"
		}
		lens := append([]int{}, resp.Lens...)
		if resp.LensErr != "" {
			lens = append(lens, 0) // a batch carrying an error
		}
		idsTerm, sentTerm := coqIDs(rq.ids), coqSent(resp.Sent)
		if len(rq.ids) > 3000 {
			var p1, p2 string
			p1, idsTerm = chunked(fmt.Sprintf("ids%d", ri), "idsrc", len(rq.ids), func(i int) string {
				return fmt.Sprintf("Q %d %d %d", rq.ids[i].MID, rq.ids[i].RID, rq.ids[i].Hint)
			})
			p2, sentTerm = chunked(fmt.Sprintf("sent%d", ri), "id * option body", len(resp.Sent), func(i int) string {
				return sentItem(resp.Sent[i])
			})
			res.pre = p1 + p2
		}
		res.coq = fmt.Sprintf("%s\n   %s\n   (%s %s) (Some %s)", ctor, idsTerm, status,
			sentTerm, strings.TrimSuffix(casefile.NList(lens), "%N"))
		found := 0
		for _, e := range resp.Sent {
			if e[3] > 0 {
				found++
			}
		}
		res.impl = map[string]any{"status": status, "err": resp.Err, "blocks": len(resp.Sent), "found": found,
			"batch_lens": resp.Lens, "batches_err": resp.LensErr, "sent_head": head(resp.Sent, 40)}
		res.nontrivial = (npres > 0 && npres < len(rq.ids)) || len(resp.Lens) > 1 || (isFault && status == "SErr")
		if len(resp.Lens) > 1 {
			res.counts = append(res.counts, "batches>1")
		}
		out.results = append(out.results, res)
		return false, nil
	}
	if sc.Kind == "slots" {
		reopen := func(pre func() error) error {
			st.Close()
			if pre != nil {
				if err := pre(); err != nil {
					return err
				}
			}
			if st, err = storectl.Start(""); err != nil {
				return err
			}
			st.Timeout = 180 * time.Second
			if err := open(); err != nil {
				return fmt.Errorf("reopen: %w", err)
			}
			for _, f := range sc.Fracs {
				for _, b := range f.Bulks {
					if _, err := call[struct{}](st, "c04bulk", bulkReq{Docs: b, RegisterOnly: true}); err != nil {
						return err
					}
				}
			}
			return nil
		}
		damage := func(k int) error {
			matches, _ := filepath.Glob(filepath.Join(data, views[k].info.Name+".*docs"))
			if len(matches) != 1 {
				return fmt.Errorf("harness: docs file of %s: %v", views[k].info.Name, matches)
			}
			return os.Truncate(matches[0], 7)
		}
		herr := runSlots(g, sc, idx, seed, tier, cs, cfg, views, sums, func() *storectl.Store { return st }, reopen, damage, &out,
			func(ri int, rq request, pa bool, dmg []int) (bool, error) {
				return runReq(ri, rq, faultSpec{panicActive: pa, damaged: dmg})
			})
		if herr != nil {
			return scenarioOut{err: herr}
		}
		return out
	}
	reqs := g.requests(sc, views, tier)
	for ri, rq := range reqs {
		if stop, herr := runReq(ri, rq, faultSpec{}); herr != nil {
			return scenarioOut{err: herr}
		} else if stop {
			return out
		}
	}
	// fault injection 1: the active fraction's Fetch panics on entry; the request must end with an error
	lastView := views[len(views)-1]
	if len(lastView.docs) > 0 && !lastView.info.Sealed {
		n := 0
		for ri, rq := range reqs {
			if len(rq.ids) > 400 && rq.kind != "by-fraction" || n >= 3 {
				continue
			}
			if rq.kind == "by-fraction" && n >= 1 {
				continue
			}
			n++
			if stop, herr := runReq(1000+ri, rq, faultSpec{panicActive: true}); herr != nil {
				return scenarioOut{err: herr}
			} else if stop {
				return out
			}
		}
	}
	// fault injection 2: the docs file of one sealed fraction is cut down while the store is stopped
	var sealedIdx []int
	for k, v := range views {
		if v.info.Sealed && len(v.docs) > 0 {
			sealedIdx = append(sealedIdx, k)
		}
	}
	if len(sealedIdx) > 0 && idx%3 == 0 && sc.Kind != "big" && sc.Kind != "large-docs" {
		k := rng.Pick(g.r, sealedIdx)
		st.Close()
		matches, _ := filepath.Glob(filepath.Join(data, views[k].info.Name+".*docs"))
		if len(matches) != 1 {
			return scenarioOut{err: fmt.Errorf("harness: docs file of %s: %v", views[k].info.Name, matches)}
		}
		if err := os.Truncate(matches[0], 7); err != nil {
			return scenarioOut{err: err}
		}
		if st, err = storectl.Start(""); err != nil {
			return scenarioOut{err: err}
		}
		st.Timeout = 90 * time.Second
		if err := open(); err != nil {
			return scenarioOut{err: fmt.Errorf("reopen after damage: %w", err)}
		}
		for _, f := range sc.Fracs {
			for _, b := range f.Bulks {
				if _, err := call[struct{}](st, "c04bulk", bulkReq{Docs: b, RegisterOnly: true}); err != nil {
					return scenarioOut{err: err}
				}
			}
		}
		n := 0
		for ri, rq := range reqs {
			if len(rq.ids) > 300 || n >= 3 {
				continue
			}
			n++
			if stop, herr := runReq(2000+ri, rq, faultSpec{damaged: []int{k + 1}}); herr != nil {
				return scenarioOut{err: herr}
			} else if stop {
				return out
			}
		}
	}
	return out
}

func head(x [][4]uint64, n int) [][4]uint64 {
	if len(x) > n {
		return x[:n]
	}
	return x
}

func bucket(n int) string {
	switch {
	case n <= 1:
		return "1"
	case n <= 10:
		return "2-10"
	case n <= 100:
		return "11-100"
	case n <= 1000:
		return "101-1000"
	case n <= 10000:
		return "1001-10000"
	}
	return ">10000"
}

func share(a, b int) string {
	switch {
	case a == 0:
		return "0"
	case a == b:
		return "all"
	case a*100 < b:
		return "<1%"
	case a*2 < b:
		return "<50%"
	}
	return ">=50%"
}

// direct differential run of calcChunkSize
func runCalc(w *cwriter, seed uint64, tier string, cs constsResp) error {
	var rs []result
	st, err := storectl.Start("")
	if err != nil {
		return err
	}
	defer st.Close()
	r := rng.New(seed ^ 0xC04C04)
	n := 300
	if tier == "thorough" {
		n = 3000
	}
	cfg := fmt.Sprintf("(mkCfg %d %d %d)", cs.IDsPerBlock, cs.MaxFetch, cs.InitChunk)
	for i := 0; i < n; i++ {
		k := r.Range(1, 60)
		if r.Chance(1, 4) {
			k = r.Range(500, 3000)
		}
		mode := r.Intn(5)
		if mode == 2 {
			k = r.Range(1, 6)
		}
		sizes := make([]int, k)
		for j := range sizes {
			switch mode {
			case 0: // nearly nothing found
				if r.Chance(1, k) {
					sizes[j] = r.Range(1, 50)
				}
			case 1: // everything small
				sizes[j] = r.Range(0, 3)
			case 2: // huge documents (average above MaxFetchSizeBytes)
				sizes[j] = r.Range(3<<20, 9<<20)
			case 3:
				sizes[j] = r.Range(0, 70000)
			default:
				if r.Bool() {
					sizes[j] = r.Range(1, 4000)
				}
			}
		}
		prev := rng.Pick(r, []int{1, 2, 1000, cs.InitChunk, r.Range(1, 100000)})
		out, err := call[calcResp](st, "c04calc", calcReq{Prev: prev, Sizes: sizes})
		if err != nil {
			return err
		}
		impl := fmt.Sprintf("(Some %d)", out.Res)
		if out.Panic != "" {
			impl = "None"
		}
		sum := 0
		for _, s := range sizes {
			sum += s
		}
		rs = append(rs, result{coq: fmt.Sprintf("CCalc %s %s %d %s", cfg, strings.TrimSuffix(casefile.NList(sizes), "%N"), prev, impl),
			class: "calc-chunk", nontrivial: sum > 0 && sum < len(sizes),
			input: map[string]any{"sizes": sizes, "prev": prev}, impl: map[string]any{"result": out.Res, "panic": out.Panic},
			counts: []string{"calc:mode" + fmt.Sprint(mode)}})
		if len(rs) >= 100 {
			if err := w.File("", rs); err != nil {
				return err
			}
			rs = nil
		}
	}
	return w.File("", rs)
}

func main() {
	registerOps()
	registerSlotOps()
	storectl.MaybeChild()
	seed := flag.Uint64("seed", 1, "")
	tier := flag.String("tier", "quick", "")
	outdir := flag.String("out", "", "")
	replay := flag.String("replay", "", "replay file written by the check: re-runs the scenario of the recorded case")
	flag.Parse()
	if *outdir == "" {
		fmt.Fprintln(os.Stderr, "usage: hC04 -seed N -tier quick|thorough -out DIR")
		os.Exit(2)
	}
	os.Setenv("LOG_LEVEL", "error") // the store logs every not-found ID at info level
	only := -1
	if *replay != "" {
		var rp struct {
			Seed   uint64 `json:"seed"`
			Tier   string `json:"tier"`
			Replay struct {
				Case struct {
					Input struct {
						Scenario *int `json:"scenario"`
					} `json:"input"`
				} `json:"case"`
			} `json:"replay"`
		}
		b, err := os.ReadFile(*replay)
		if err == nil {
			err = json.Unmarshal(b, &rp)
		}
		if err != nil {
			fmt.Fprintln(os.Stderr, "cannot read replay:", err)
			os.Exit(2)
		}
		*seed, *tier = rp.Seed, rp.Tier
		if rp.Replay.Case.Input.Scenario != nil {
			only = *rp.Replay.Case.Input.Scenario
		}
	}
	w, err := newCWriter(*outdir, "From Coq Require Import ZArith.\nFrom VLib Require Import CaseLib.\nFrom C04 Require Import Model CaseDefs.\nOpen Scope N_scope.")
	if err != nil {
		panic(err)
	}

	// constants of the build under test
	st0, err := storectl.Start("")
	if err != nil {
		panic(err)
	}
	cs, err := call[constsResp](st0, "c04consts", struct{}{})
	st0.Close()
	if err != nil {
		panic(err)
	}
	w.Extra["consts"] = cs

	// scenario plan
	var kinds []string
	nsmall, nbig, nlarge, nrecent, nchunked := 32, 2, 2, 2, 3
	if *tier == "thorough" {
		nsmall, nbig, nlarge, nrecent, nchunked = 220, 12, 8, 8, 20
	}
	for i := 0; i < nsmall; i++ {
		if i%6 == 5 {
			kinds = append(kinds, "dup-fracs")
		} else {
			kinds = append(kinds, "small")
		}
	}
	for i := 0; i < nbig; i++ {
		kinds = append(kinds, "big")
	}
	for i := 0; i < nlarge; i++ {
		kinds = append(kinds, "large-docs")
	}
	for i := 0; i < nrecent; i++ {
		kinds = append(kinds, "recent")
	}
	for i := 0; i < nchunked; i++ {
		kinds = append(kinds, "chunked")
	}
	nslots := 4
	if *tier == "thorough" {
		nslots = 24
	}
	for i := 0; i < nslots; i++ {
		kinds = append(kinds, "slots")
	}
	// HC04_ONLY=slots|units|dc: run only the Fetcher histories / the unit-level classes / the docs cache class
	// (aid for mutation testing; the check never sets it)
	onlyEnv := os.Getenv("HC04_ONLY")
	outs := make([]scenarioOut, len(kinds))
	var wg sync.WaitGroup
	sem := make(chan struct{}, 4)
	for i, kind := range kinds {
		if only >= 0 && i != only {
			continue
		}
		if onlyEnv != "" && !(onlyEnv == "slots" && kind == "slots") {
			continue
		}
		wg.Add(1)
		sem <- struct{}{}
		go func() {
			defer wg.Done()
			defer func() { <-sem }()
			outs[i] = runScenario(*seed, *tier, i, kind, cs)
		}()
	}
	wg.Wait()
	for i, o := range outs {
		if o.err != nil {
			fmt.Fprintf(os.Stderr, "hC04: scenario %d (%s): %v\n", i, kinds[i], o.err)
			os.Exit(3)
		}
		if len(o.results) == 0 {
			continue
		}
		for range o.results {
			w.Count("scenario:" + kinds[i])
		}
		if err := w.File("Definition frs : list frac := "+o.frs+".", o.results); err != nil {
			panic(err)
		}
	}
	if only < 0 && (onlyEnv == "" || onlyEnv == "dc") {
		if err := runDocsCache(w, *seed, *tier); err != nil {
			fmt.Fprintln(os.Stderr, "hC04: docs cache:", err)
			os.Exit(3)
		}
	}
	if only < 0 && (onlyEnv == "" || onlyEnv == "units") {
		if err := runCalc(w, *seed, *tier, cs); err != nil {
			fmt.Fprintln(os.Stderr, "hC04: calc:", err)
			os.Exit(3)
		}
		if err := runUnits(w, *seed, *tier, cs); err != nil {
			fmt.Fprintln(os.Stderr, "hC04: units:", err)
			os.Exit(3)
		}
		if err := runGen(w, *seed, *tier); err != nil {
			fmt.Fprintln(os.Stderr, "hC04: gen:", err)
			os.Exit(3)
		}
	}
	if err := w.Close(); err != nil {
		panic(err)
	}
}
