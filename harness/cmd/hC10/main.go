// temporary experiment
package main

import (
	"bytes"
	"context"
	"encoding/binary"
	"fmt"
	"net/http"
	"net/http/httptest"
	"time"

	"github.com/ozontech/seq-db/disk"
	"github.com/ozontech/seq-db/frac"
	"github.com/ozontech/seq-db/mappingprovider"
	"github.com/ozontech/seq-db/proxy/bulk"
	"github.com/ozontech/seq-db/proxyapi"
	"github.com/ozontech/seq-db/seq"
)

type rec struct {
	calls int
	total int
	docs  [][]byte
	metas []frac.MetaData
}

func (c *rec) StoreDocuments(_ context.Context, total int, docs, metas []byte) error {
	c.calls++
	c.total = total
	d, err := disk.DocBlock(docs).DecompressTo(nil)
	if err != nil {
		panic(err)
	}
	for len(d) > 0 {
		n := binary.LittleEndian.Uint32(d)
		c.docs = append(c.docs, append([]byte{}, d[4:4+n]...))
		d = d[4+n:]
	}
	m, err := disk.DocBlock(metas).DecompressTo(nil)
	if err != nil {
		panic(err)
	}
	for len(m) > 0 {
		n := binary.LittleEndian.Uint32(m)
		var md frac.MetaData
		if err := md.UnmarshalBinary(append([]byte{}, m[4:4+n]...)); err != nil {
			panic(err)
		}
		c.metas = append(c.metas, md)
		m = m[4+n:]
	}
	return nil
}

type fixed struct {
	ing *bulk.Ingestor
	t   time.Time
}

func (f *fixed) ProcessDocuments(ctx context.Context, _ time.Time, rn func() ([]byte, error)) (int, error) {
	return f.ing.ProcessDocuments(ctx, f.t, rn)
}

func main() {
	mp, _ := mappingprovider.New("", mappingprovider.WithMapping(seq.Mapping{
		"k": seq.NewSingleType(seq.TokenizerTypeKeyword, "", 0),
		"t": seq.NewSingleType(seq.TokenizerTypeText, "", 0),
	}))
	now := time.Date(2026, 9, 25, 12, 0, 0, 0, time.UTC)
	run := func(B int, body string) {
		c := &rec{}
		ing := bulk.NewIngestor(bulk.IngestorConfig{MaxInflightBulks: 1, AllowedTimeDrift: time.Hour, FutureAllowedTimeDrift: time.Minute, MappingProvider: mp, MaxTokenSize: 72}, c)
		defer ing.Stop()
		h := proxyapi.NewBulkHandler(&fixed{ing, now}, B)
		req := httptest.NewRequest(http.MethodPost, "/_bulk", bytes.NewReader([]byte(body)))
		w := httptest.NewRecorder()
		h.ServeHTTP(w, req)
		fmt.Printf("body=%q\n  status=%d resp=%q calls=%d total=%d\n", body, w.Code, w.Body.String(), c.calls, c.total)
		for _, d := range c.docs {
			fmt.Printf("  doc=%q\n", d)
		}
		for _, m := range c.metas {
			fmt.Printf("  meta mid=%d (%s) size=%d ntok=%d\n", m.ID.MID, m.ID.MID.Time().UTC().Format(time.RFC3339Nano), m.Size, len(m.Tokens))
		}
	}
	a := "{\"index\":{}}\n"
	pad := func(n int) string { s := "{\"a\":\""; for len(s) < n-2 { s += "x" }; return s + "\"}" }
	for _, b := range []string{
		a + "{\"a\":1}\n" + a + pad(32),
		a + "{\"a\":1}\n" + a + pad(31),
		a + "{\"a\":1}\n" + a + pad(33),
		a + "{\"a\":1}\n" + a + pad(64),
		a + "{\"a\":1}\n" + a + pad(31)+"\n",
		a + "{\"a\":1}\n" + a + pad(32)+"\n"+a+"{\"b\":2}\n",
		a + "{\"a\":1}\n" + a + pad(30)+"\r\n"+a+"{\"b\":2}\n",
		a + "{\"a\":1}\n" + a + pad(31)+"\r\n"+a+"{\"b\":2}\n",
		a + "{\"a\":1}\n" + a + pad(31)+"\r",
		a + "{\"a\":1}\n" + a + pad(30)+"\r",
		a + "{\"a\":1}\n" + a,
		a + "{\"a\":1}\n" + "{\"index\":{}}",
		a + "{\"a\":1}\n\n\n" + a+"\n",
		a + "{\"a\":1}\n\r\n" + a+"{\"b\":2}\r\n\r\n",
		"\n\n"+a + "{\"a\":1}\n",
		"{\"delete\":{}}\n{\"a\":1}\n",
		a+"{}\n"+a+"{}\n"+a+"{}\n"+a+"{}\n"+a+"{}\n"+"junk\n{\"a\":1}\n",
		a+"{}\n"+a+"{}\n"+a+"{}\n"+a+"{}\n"+"junk\n{\"a\":1}\n",
		"{\"index\":{\"_index\":\"aaaaaaaaaaaaaaaaaaaaaaaaaaaaaaaaaaaa\"}}\n{\"a\":1}\n",
		a + "{\"a\":1}\n" + a + "[1]\n" + a + "{\"b\":2}\n"+a+"x\n",
		"",
		"\n",
		a + "{\"a\":1}\n" + a + pad(32)+"\n"+a+pad(100)+"\n"+a+"{\"b\":2}",
	} {
		run(32, b)
	}
}
