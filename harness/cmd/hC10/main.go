// hC10 — correspondence driver for property C10 (bulk ingestion stores valid documents
// verbatim, timed by rule, or stores nothing).
//
// Drives the REAL proxyapi.BulkHandler.ServeHTTP (httptest) on top of the REAL bulk.Ingestor with
// a recording StorageClient, and writes every observation as a Coq case (props/C10/coq/CaseDefs.v).
// The only substitution: the DocumentsProcessor handed to the handler replaces the handler's
// time.Now() by a request time chosen by the generator (and checks that the handler's own value
// is inside the wall-clock bracket of the call), so that drift boundaries are exact and runs are
// reproducible.
//
// esBulkDocReader keeps its bufio.Reader (and thus the buffer size of the first handler) in a
// process-wide sync.Pool, so every buffer size runs in its own child process (`-worker`).
package main

import (
	"bufio"
	"errors"
	"bytes"
	"compress/gzip"
	"context"
	"encoding/binary"
	"encoding/hex"
	"encoding/json"
	"flag"
	"fmt"
	"io"
	"math/big"
	"net/http"
	"net/http/httptest"
	"os"
	"os/exec"
	"strings"
	"sync"
	"time"

	insaneJSON "github.com/ozontech/insane-json"

	"github.com/ozontech/seq-db/disk"
	"github.com/ozontech/seq-db/frac"
	"github.com/ozontech/seq-db/mappingprovider"
	"github.com/ozontech/seq-db/proxy/bulk"
	"github.com/ozontech/seq-db/proxyapi"
	"github.com/ozontech/seq-db/seq"

	"verif/harness/internal/casefile"
	"verif/harness/internal/rng"
)

// ---------------------------------------------------------------- recording store

type stored struct {
	doc  []byte
	mid  uint64
	size uint32
}

type recorder struct {
	calls   int
	total   int
	payload []byte
	mpay    []byte
	docs    [][]byte
	metas   []frac.MetaData
	err     string
	// hold: block inside StoreDocuments until released; the payload slices belong to the pooled
	// compressor of THIS request and must not change while the call is in flight
	hold    *holdCtl
	changed string
}

type holdCtl struct {
	entered chan struct{}
	release chan struct{}
}

type recKey struct{}

func (c *recorder) StoreDocuments(_ context.Context, total int, docs, metas []byte) error {
	c.calls++
	c.total = total
	if c.hold != nil {
		d0 := append([]byte{}, docs...)
		m0 := append([]byte{}, metas...)
		close(c.hold.entered)
		<-c.hold.release
		if !bytes.Equal(d0, docs) {
			c.changed = "docs block"
		} else if !bytes.Equal(m0, metas) {
			c.changed = "metas block"
		}
	}
	// everything below reads the payload as it is when the call RETURNS
	d, err := disk.DocBlock(docs).DecompressTo(nil)
	if err != nil {
		c.err = "docs block: " + err.Error()
		return nil
	}
	c.payload = append([]byte{}, d...)
	for len(d) > 0 {
		if len(d) < 4 {
			c.err = "docs payload: short length prefix"
			return nil
		}
		n := int(binary.LittleEndian.Uint32(d))
		if len(d) < 4+n {
			c.err = "docs payload: short document"
			return nil
		}
		c.docs = append(c.docs, append([]byte{}, d[4:4+n]...))
		d = d[4+n:]
	}
	m, err := disk.DocBlock(metas).DecompressTo(nil)
	if err != nil {
		c.err = "metas block: " + err.Error()
		return nil
	}
	c.mpay = append([]byte{}, m...)
	for len(m) > 0 {
		if len(m) < 4 {
			c.err = "metas payload: short length prefix"
			return nil
		}
		n := int(binary.LittleEndian.Uint32(m))
		if len(m) < 4+n {
			c.err = "metas payload: short meta"
			return nil
		}
		var md frac.MetaData
		if err := md.UnmarshalBinary(append([]byte{}, m[4:4+n]...)); err != nil {
			c.err = "meta: " + err.Error()
			return nil
		}
		c.metas = append(c.metas, md)
		m = m[4+n:]
	}
	return nil
}

// the handler's DocumentsProcessor: the real ingestor, with the generator's request time
type fixedTime struct {
	ing  *bulk.Ingestor
	t    time.Time
	seen time.Time
	rec  *recorder
}

func (f *fixedTime) ProcessDocuments(ctx context.Context, rt time.Time, rn func() ([]byte, error)) (int, error) {
	f.seen = rt
	return f.ing.ProcessDocuments(context.WithValue(ctx, recKey{}, f.rec), f.t, rn)
}

// reader delivering the body in small pieces (exercises bufio's fill loop)
type chunkReader struct {
	b     []byte
	n     int
	eager bool  // report the final error together with the last bytes (as e.g. a gzip reader does)
	end   error // nil = io.EOF; otherwise the (sticky) error the stream breaks with
	// blockAt >= 0: before delivering byte number blockAt the reader signals hold.entered and
	// waits for hold.release (once)
	blockAt int
	pos     int
	hold    *holdCtl
}

type timeoutErr struct{}

func (timeoutErr) Error() string   { return "i/o timeout" }
func (timeoutErr) Timeout() bool   { return true }
func (timeoutErr) Temporary() bool { return true }

func faultErr(kind string) error {
	switch kind {
	case "unexpected-eof":
		return io.ErrUnexpectedEOF
	case "generic":
		return errors.New("read tcp 10.0.0.1:9002->10.0.0.2:51234: read: connection reset by peer")
	case "timeout":
		return timeoutErr{}
	}
	return nil
}

func (c *chunkReader) Read(p []byte) (int, error) {
	end := c.end
	if end == nil {
		end = io.EOF
	}
	if c.hold != nil && c.pos == c.blockAt {
		h := c.hold
		c.hold = nil
		close(h.entered)
		<-h.release
	}
	if len(c.b) == 0 {
		return 0, end
	}
	k := min(c.n, len(p), len(c.b))
	if c.hold != nil && c.pos < c.blockAt {
		k = min(k, c.blockAt-c.pos)
	}
	copy(p, c.b[:k])
	c.b = c.b[k:]
	c.pos += k
	if c.eager && len(c.b) == 0 {
		return k, end
	}
	return k, nil
}

// the bytes on the wire and the wire offsets after 0, 1, 2 .. lines of the body
func wireBytes(rq *request) ([]byte, []int) {
	lines := bytes.SplitAfter(rq.body, []byte{'\n'})
	if n := len(lines); n > 0 && len(lines[n-1]) == 0 {
		lines = lines[:n-1]
	}
	if !rq.Gzip {
		offs := []int{0}
		for _, l := range lines {
			offs = append(offs, offs[len(offs)-1]+len(l))
		}
		return rq.body, offs
	}
	var zb bytes.Buffer
	zw := gzip.NewWriter(&zb)
	if !rq.FlushLines && rq.Fault == "" {
		zw.Write(rq.body)
		zw.Close()
		return zb.Bytes(), nil
	}
	zw.Flush()
	offs := []int{zb.Len()}
	for _, l := range lines {
		zw.Write(l)
		zw.Flush()
		offs = append(offs, zb.Len())
	}
	if rq.Fault == "" {
		zw.Close()
	}
	return zb.Bytes(), offs
}

// ---------------------------------------------------------------- configuration of a worker

type driftCfg struct{ drift, fdrift time.Duration }

var driftCfgs = []driftCfg{
	{time.Hour, time.Minute},
	{0, 0},
	{10 * time.Second, 24 * time.Hour},
	{50 * 365 * 24 * time.Hour, 200 * 365 * 24 * time.Hour}, // wide window: the ID shows what was parsed; stays after 1970 (MID is unsigned)
}

var baseNow = time.Date(2026, 9, 25, 12, 0, 0, 0, time.UTC)

var mapping = seq.Mapping{
	"k": seq.NewSingleType(seq.TokenizerTypeKeyword, "", 0),
	"t": seq.NewSingleType(seq.TokenizerTypeText, "", 0),
	"p": seq.NewSingleType(seq.TokenizerTypePath, "", 0),
	"o": seq.NewSingleType(seq.TokenizerTypeObject, "", 0),
	"o.k": seq.NewSingleType(seq.TokenizerTypeKeyword, "", 0),
	"n": seq.NewSingleType(seq.TokenizerTypeNested, "", 0),
	"n.k": seq.NewSingleType(seq.TokenizerTypeKeyword, "", 0),
}

type env struct {
	inflight int
	maxDoc int
	B      int
	ings   []*bulk.Ingestor
	recs   []*recorder // current recorder per ingestor (swapped per request)
}

// the ingestor's StorageClient: hands the call to the recorder of the request it belongs to
type swapClient struct{}

func (s *swapClient) StoreDocuments(ctx context.Context, total int, docs, metas []byte) error {
	return ctx.Value(recKey{}).(*recorder).StoreDocuments(ctx, total, docs, metas)
}

// ---------------------------------------------------------------- request description

type fieldSpec struct {
	Name  string `json:"name"`
	Value string `json:"value"` // raw value as it appears between the quotes ("" = absent)
}

type docMeta struct {
	DocHex   string      `json:"doc_hex"`
	Fields   []fieldSpec `json:"fields,omitempty"`   // time fields in the document
	Intended *string     `json:"intended,omitempty"` // instant (ns since epoch, decimal) the generator rendered
}

type request struct {
	MaxDoc   int       `json:"max_document_size"`
	Cfg      int       `json:"drift_cfg"`
	NowNs    int64     `json:"now_ns"`
	Gzip     bool      `json:"gzip"`
	Chunk    int       `json:"chunk"`
	Eager    bool      `json:"eager_eof"`
	// Fault: the body reader ends with this error instead of io.EOF after delivering the body
	// ("unexpected-eof" | "generic" | "timeout"); for gzip the compressed stream is written with a
	// flush after every line and after the last byte, and has no trailer
	Fault string `json:"fault,omitempty"`
	// FlushLines: gzip stream flushed after every line (needed to block mid-body at a line)
	FlushLines bool `json:"flush_lines,omitempty"`
	// BlockAfter: in a history, the body reader blocks after this many lines (0 = before the
	// first line, for gzip after the header) until the history releases it; -1 = never
	BlockAfter int    `json:"block_after"`
	// CtxCancelled: the request arrives with an already cancelled context (client went away): ProcessDocuments
	// may leave at the rate limiter (`case <-ctx.Done()`) or go on; the body is invalid either way
	CtxCancelled bool `json:"ctx_cancelled,omitempty"`
	BodyHex    string `json:"body_hex"`
	BodyText string    `json:"body_text"`
	Docs     []docMeta `json:"docs,omitempty"`
	Class    string    `json:"class"`
	body     []byte
}

type observation struct {
	Status  int      `json:"status"`
	Resp    string   `json:"response"`
	Created int      `json:"created"`
	Calls   int      `json:"calls"`
	Total   int      `json:"total"`
	Docs    []string `json:"docs"`
	Mids    []uint64 `json:"mids"`
	Sizes   []uint32 `json:"sizes"`
	payload []byte
	stored  []stored
	mpay    []byte
	metas   []frac.MetaData
}

type record struct {
	Kind       string       `json:"kind"` // case | viol | count
	Coq        string       `json:"coq,omitempty"`
	Class      string       `json:"class,omitempty"`
	Nontrivial bool         `json:"nontrivial,omitempty"`
	Req        *request     `json:"req,omitempty"`
	Obs        *observation `json:"obs,omitempty"`
	Fp         string       `json:"fp,omitempty"`
	What       string       `json:"what,omitempty"`
	Key        string       `json:"key,omitempty"`
	Hist       []histItem   `json:"hist,omitempty"`
	ObsList    []*observation `json:"obs_list,omitempty"`
	// classes of own.go: the input as it goes into cases.jsonl / a replay, and what was observed
	Input map[string]any `json:"input,omitempty"`
	Impl  any            `json:"impl,omitempty"`
}

// one request of a history: role = empty (accepted, no surviving document) | held (blocked inside
// StoreDocuments while the "during" requests run completely) | during | after (sequential)
type histItem struct {
	Role    string   `json:"role"`
	Request *request `json:"request"`
}

// ---------------------------------------------------------------- running one request on the real code

func newEnv(maxDoc int) *env { return newEnvN(maxDoc, 1) }

func newEnvN(maxDoc, inflight int) *env {
	e := &env{maxDoc: maxDoc, B: max(maxDoc, 16), inflight: inflight}
	mp, err := mappingprovider.New("", mappingprovider.WithMapping(mapping))
	if err != nil {
		panic(err)
	}
	for _, c := range driftCfgs {
		sc := &swapClient{}
		ing := bulk.NewIngestor(bulk.IngestorConfig{MaxInflightBulks: inflight, AllowedTimeDrift: c.drift,
			FutureAllowedTimeDrift: c.fdrift, MappingProvider: mp, MaxTokenSize: 72, MaxDocumentSize: maxDoc}, sc)
		e.ings = append(e.ings, ing)
	}
	return e
}

func (e *env) serve(rq *request, emit func(record)) *observation {
	return e.serveHold(rq, emit, nil, nil)
}

// hold: block inside StoreDocuments; bodyHold: block inside the body reader (rq.BlockAfter lines)
func (e *env) serveHold(rq *request, emit func(record), hold, bodyHold *holdCtl) *observation {
	rec := &recorder{hold: hold}
	ft := &fixedTime{ing: e.ings[rq.Cfg], t: time.Unix(0, rq.NowNs).UTC(), rec: rec}
	h := proxyapi.NewBulkHandler(ft, e.maxDoc)
	var rd io.Reader
	raw, offs := wireBytes(rq)
	hdr := ""
	if rq.Gzip {
		hdr = "gzip"
	}
	ch := rq.Chunk
	if ch <= 0 {
		ch = len(raw) + 1
	}
	cr := &chunkReader{b: raw, n: ch, eager: rq.Eager && !rq.Gzip, end: faultErr(rq.Fault), blockAt: -1}
	if rq.Fault != "" && rq.Gzip && rq.Fault == "unexpected-eof" {
		cr.end = nil // the cut gzip stream simply ends: the gzip reader reports io.ErrUnexpectedEOF itself
	}
	if bodyHold != nil && rq.BlockAfter >= 0 && rq.BlockAfter < len(offs) {
		cr.blockAt = offs[rq.BlockAfter]
		cr.hold = bodyHold
	}
	rd = cr
	hr := httptest.NewRequest(http.MethodPost, "/_bulk", rd)
	if rq.CtxCancelled {
		cctx, ccancel := context.WithCancel(hr.Context())
		ccancel()
		hr = hr.WithContext(cctx)
	}
	if hdr != "" {
		hr.Header.Set("Content-Encoding", hdr)
	}
	w := httptest.NewRecorder()
	var panicked any
	t0 := time.Now()
	func() {
		defer func() { panicked = recover() }()
		h.ServeHTTP(w, hr)
	}()
	t1 := time.Now()
	in := map[string]any{"request": rq}
	if panicked != nil {
		emit(record{Kind: "viol", Fp: "panic:ServeHTTP", What: fmt.Sprintf("BulkHandler.ServeHTTP panics: %v", panicked), Req: rq})
		return nil
	}
	_ = in
	if !ft.seen.IsZero() && (ft.seen.Before(t0) || ft.seen.After(t1)) {
		emit(record{Kind: "viol", Fp: "request-time-not-now", What: "the handler's request time is outside the wall-clock bracket of the call", Req: rq})
	}
	o := &observation{Status: w.Code, Resp: w.Body.String(), Calls: rec.calls, Total: rec.total, payload: rec.payload, mpay: rec.mpay, metas: rec.metas}
	if len(o.Resp) > 300 {
		o.Resp = o.Resp[:300] + "..."
	}
	if rec.changed != "" {
		emit(record{Kind: "viol", Fp: "payload-changed-in-flight", What: "the " + rec.changed + " handed to StoreDocuments changed while the call was in flight (another request wrote into this request's pooled compressor)", Req: rq})
	}
	if rec.err != "" {
		emit(record{Kind: "viol", Fp: "payload-undecodable", What: "payload handed to StoreDocuments does not decode: " + rec.err, Req: rq})
		return nil
	}
	if w.Code/100 == 2 {
		var resp struct {
			Errors *bool `json:"errors"`
			Items  []struct {
				Create struct {
					Status int `json:"status"`
				} `json:"create"`
			} `json:"items"`
		}
		if err := json.Unmarshal(w.Body.Bytes(), &resp); err != nil || resp.Errors == nil || *resp.Errors {
			emit(record{Kind: "viol", Fp: "response-malformed", What: "2xx response is not the expected bulk response JSON", Req: rq, Obs: o})
			return nil
		}
		for _, it := range resp.Items {
			if it.Create.Status != 201 {
				emit(record{Kind: "viol", Fp: "response-malformed", What: "item without status 201", Req: rq, Obs: o})
				return nil
			}
		}
		o.Created = len(resp.Items)
	}
	// pair every document with its own meta (Size > 0); nested metas (Size 0) carry the parent's ID
	var mains []frac.MetaData
	for i, m := range rec.metas {
		if m.Size != 0 {
			mains = append(mains, m)
			continue
		}
		if len(mains) == 0 || rec.metas[i].ID != mains[len(mains)-1].ID {
			emit(record{Kind: "viol", Fp: "meta-nested-id", What: "nested meta without parent or with another ID", Req: rq, Obs: o})
			return nil
		}
	}
	if len(mains) != len(rec.docs) {
		emit(record{Kind: "viol", Fp: "meta-count", What: fmt.Sprintf("%d documents but %d document metas in the payload", len(rec.docs), len(mains)), Req: rq, Obs: o})
		return nil
	}
	for i, d := range rec.docs {
		o.stored = append(o.stored, stored{d, uint64(mains[i].ID.MID), mains[i].Size})
		o.Docs = append(o.Docs, string(d))
		o.Mids = append(o.Mids, uint64(mains[i].ID.MID))
		o.Sizes = append(o.Sizes, mains[i].Size)
	}
	return o
}

// ---------------------------------------------------------------- oracle table

var oracleDec = insaneJSON.Spawn()

// class of a line as a JSON document. strict = encoding/json; where strict says "invalid" the
// decoder library itself is the oracle (the JSON grammar is outside the model).
func classify(line []byte) (cls string, lenient bool, mismatch string) {
	strictValid := json.Valid(line)
	err := oracleDec.DecodeBytes(line)
	insCls := "Invalid"
	if err == nil {
		if oracleDec.IsObject() {
			insCls = "Object"
		} else {
			insCls = "NonObject"
		}
	}
	if strictValid {
		c := "NonObject"
		if t := bytes.TrimLeft(line, " \t\r\n"); len(t) > 0 && t[0] == '{' {
			c = "Object"
		}
		if c != insCls {
			mismatch = fmt.Sprintf("valid JSON (%s by encoding/json) is %s for the decoder", c, insCls)
		}
		return c, false, mismatch
	}
	return insCls, insCls != "Invalid", ""
}

func nsOf(t time.Time) *big.Int {
	x := big.NewInt(t.Unix())
	x.Mul(x, big.NewInt(1000000000))
	return x.Add(x, big.NewInt(int64(t.Nanosecond())))
}

func rfcOracle(v string) *big.Int {
	if t, err := time.Parse(time.RFC3339Nano, v); err == nil {
		return nsOf(t)
	}
	if t, err := time.Parse(time.RFC3339, v); err == nil {
		return nsOf(t)
	}
	return nil
}

// bytes as a list of primitive ints 0x01 b1..bk, k <= 7 (see CaseDefs.v hx)
func hxb(b []byte) string {
	var sb strings.Builder
	sb.WriteString("(hx [")
	for i := 0; i < len(b); i += 7 {
		if i > 0 {
			sb.WriteString(";")
		}
		sb.WriteString("0x1")
		sb.WriteString(hex.EncodeToString(b[i:min(i+7, len(b))]))
	}
	sb.WriteString("]%uint63)")
	return sb.String()
}

func coqZ(x *big.Int) string { return "(" + x.String() + ")%Z" }

func coqOptZ(x *big.Int) string {
	if x == nil {
		return "None"
	}
	return "(Some " + coqZ(x) + ")"
}

// time-field values of a line, extracted independently of the code under test
func timeFields(line []byte, known map[string]docMeta) [3]string {
	var out [3]string
	if m, ok := known[string(bytes.TrimRight(line, "\r"))]; ok {
		for _, f := range m.Fields {
			for i, n := range []string{"timestamp", "time", "ts"} {
				if f.Name == n {
					out[i] = f.Value
				}
			}
		}
		return out
	}
	var obj map[string]json.RawMessage
	if json.Unmarshal(line, &obj) == nil {
		for i, n := range []string{"timestamp", "time", "ts"} {
			if raw, ok := obj[n]; ok {
				var s string
				if json.Unmarshal(raw, &s) == nil {
					out[i] = s
				}
			}
		}
	}
	return out
}

func buildTable(rq *request, emit func(record)) (string, bool, bool) {
	known := map[string]docMeta{}
	for _, d := range rq.Docs {
		b, _ := hex.DecodeString(d.DocHex)
		known[string(b)] = d
	}
	seen := map[string]bool{}
	var entries []string
	anyLenient := false
	ok := true
	add := func(line []byte) {
		if seen[string(line)] {
			return
		}
		seen[string(line)] = true
		cls, lenient, mismatch := classify(line)
		if mismatch != "" {
			emit(record{Kind: "viol", Fp: "json-oracle-mismatch", What: mismatch + fmt.Sprintf(": %q", line), Req: rq})
			ok = false
		}
		anyLenient = anyLenient || lenient
		tf := timeFields(line, known)
		var fs []string
		for _, v := range tf {
			fs = append(fs, "("+hxb([]byte(v))+", "+coqOptZ(rfcOracle(v))+")")
		}
		intended := "None"
		if m, okk := known[string(bytes.TrimRight(line, "\r"))]; okk && m.Intended != nil {
			x, _ := new(big.Int).SetString(*m.Intended, 10)
			intended = coqOptZ(x)
		}
		if tf == [3]string{} && intended == "None" {
			entries = append(entries, fmt.Sprintf("(%s, nof %s)", hxb(line), cls))
		} else {
			entries = append(entries, fmt.Sprintf("(%s, Build_docinfo %s [%s] %s)", hxb(line), cls, strings.Join(fs, "; "), intended))
		}
	}
	for _, raw := range bytes.Split(rq.body, []byte{'\n'}) {
		add(raw)
		if len(raw) > 0 && raw[len(raw)-1] == '\r' {
			add(raw[:len(raw)-1])
		}
	}
	return "[" + strings.Join(entries, "; ") + "]", anyLenient, ok
}

func caseTerm(e *env, rq *request, o *observation, table string) string {
	c := driftCfgs[rq.Cfg]
	var st []string
	for _, s := range o.stored {
		st = append(st, fmt.Sprintf("(%s, ((%d)%%Z, %d))", hxb(s.doc), s.mid, s.size))
	}
	return fmt.Sprintf("CBulk %s %s %d (%d)%%Z (%d)%%Z (%d)%%Z %s %s (Build_impl %s %d %d %d [%s] %s)",
		casefile.Bool(rq.Fault != ""), casefile.Bool(rq.Eager), e.B, rq.NowNs, int64(c.drift), int64(c.fdrift), hxb(rq.body), table,
		casefile.Bool(o.Status/100 == 2), o.Created, o.Calls, o.Total, strings.Join(st, "; "), hxb(o.payload))
}

// ---------------------------------------------------------------- generators

var strAtoms = []string{"a", "B", "Hello", "WORLD", " ", "x y", "é", "Ж", "İ", "K", "😀", "\\\"", "\\\\", "\\n", "\\u00e9", "\\ud83d\\ude00",
	"/a/B/c", "0", "-", "_", "*", "A1", "ÀÉ", "\\t", ":", "{", "}", "[", ",", "ß", "ǅ"}
var strAtomsLenient = []string{"\x01", "\t", "\xff", "\xc3", "\\q", "\\u12", "\r"}

func genString(r *rng.R, lenient bool) string {
	var sb strings.Builder
	for n := r.Intn(4); n > 0; n-- {
		if lenient && r.Chance(1, 3) {
			sb.WriteString(rng.Pick(r, strAtomsLenient))
		} else {
			sb.WriteString(rng.Pick(r, strAtoms))
		}
	}
	return sb.String()
}

var numAtoms = []string{"0", "1", "-1", "42", "3.14", "1e5", "-2.5E-3", "12345678901234567890", "0.0"}
var numAtomsLenient = []string{"01", "1e", "-", ".5", "1.", "+1"}

func genValue(r *rng.R, depth int, lenient bool) string {
	switch c := r.Intn(10); {
	case c < 3:
		return "\"" + genString(r, lenient) + "\""
	case c < 5:
		if lenient && r.Chance(1, 3) {
			return rng.Pick(r, numAtomsLenient)
		}
		return rng.Pick(r, numAtoms)
	case c == 5:
		return rng.Pick(r, []string{"null", "true", "false"})
	case c < 8 && depth > 0:
		n := r.Intn(3)
		parts := make([]string, n)
		for i := range parts {
			parts[i] = genValue(r, depth-1, lenient)
		}
		return "[" + strings.Join(parts, ",") + "]"
	case depth > 0:
		return genObjectBody(r, depth-1, lenient, nil)
	}
	return "\"" + genString(r, lenient) + "\""
}

var keyAtoms = []string{"a", "b", "k", "t", "p", "o", "n", "msg", "K", "level", "é", ""}

// a JSON object; extra = fields to put first (already rendered `"name":value`)
func genObjectBody(r *rng.R, depth int, lenient bool, extra []string) string {
	parts := append([]string{}, extra...)
	for n := r.Intn(4); n > 0; n-- {
		k := rng.Pick(r, keyAtoms)
		var v string
		switch {
		case k == "o" && r.Bool():
			v = "{\"k\":\"" + genString(r, lenient) + "\"}"
		case k == "n" && r.Bool():
			v = "[{\"k\":\"" + genString(r, lenient) + "\"},{\"k\":\"Z\"}]"
		default:
			v = genValue(r, depth, lenient)
		}
		parts = append(parts, "\""+k+"\":"+v)
	}
	if len(extra) > 0 {
		rng.Shuffle(r, parts)
	}
	sp := ""
	if r.Chance(1, 8) {
		sp = " "
	}
	return "{" + sp + strings.Join(parts, ","+sp) + sp + "}"
}

// object of exactly n bytes (n >= 2); falls back to the nearest possible
func objectOfLen(r *rng.R, n int) string {
	if n < 8 {
		switch {
		case n <= 2:
			return "{}"
		case n == 7:
			return `{"a":1}`
		default:
			return "{" + strings.Repeat(" ", n-2) + "}"
		}
	}
	// {"k":"XXXX"} : 8 bytes + payload
	key := rng.Pick(r, []string{"k", "t", "a"})
	fill := make([]byte, n-8)
	for i := range fill {
		fill[i] = "abcXYZ 019_Q"[r.Intn(12)]
	}
	return "{\"" + key + "\":\"" + string(fill) + "\"}"
}

func breakJSON(r *rng.R, s string) string {
	if len(s) == 0 {
		return "x"
	}
	b := []byte(s)
	switch r.Intn(5) {
	case 0:
		return string(b[:r.Intn(len(b))+0]) // truncate
	case 1:
		p := r.Intn(len(b))
		return string(append(b[:p:p], b[p+1:]...))
	case 2:
		p := r.Intn(len(b) + 1)
		g := rng.Pick(r, []string{",", "}", "{", "\"", ":", "x", "]", "garbage"})
		return string(b[:p]) + g + string(b[p:])
	case 3:
		return s + rng.Pick(r, []string{"}", "x", "{}", ",", " 1"})
	}
	return rng.Pick(r, []string{"x", "nul", "{", "}", "{\"a\"}", "{\"a\":}", "{'a':1}", "[1,]", "{\"a\":1,}", "   ", "\t", "tru", "{\"a\":tru}", "\xef\xbb\xbf{}"})
}

type gen struct {
	r    *rng.R
	e    *env
	cfg  int
	now  time.Time
	docs []docMeta
	feat map[string]bool
	// the instant just picked sits within a nanosecond of a drift boundary: render all 9 digits
	exact bool
}

func pad(n, w int) string { return fmt.Sprintf("%0*d", w, n) }

// renders instant t in one of the supported formats; returns the value and the instant it denotes
func (g *gen) renderTime(t time.Time) (string, time.Time, string) {
	r := g.r
	t = t.UTC()
	sel := r.Intn(4)
	if g.exact && sel == 2 {
		sel = 3
	}
	switch sel {
	case 0, 1: // ES
		nd := r.Intn(10)
		if g.exact {
			nd = 9
		}
		unit := int64(1)
		for i := 0; i < 9-nd; i++ {
			unit *= 10
		}
		ns := int64(t.Nanosecond()) / unit * unit
		t = time.Date(t.Year(), t.Month(), t.Day(), t.Hour(), t.Minute(), t.Second(), int(ns), time.UTC)
		s := t.Format("2006-01-02 15:04:05")
		if nd > 0 {
			s += "." + pad(int(ns/unit), nd)
		}
		return s, t, "es"
	case 2: // RFC3339 (seconds), random zone
		t = t.Truncate(time.Second)
		return t.In(g.zone()).Format(time.RFC3339), t, "rfc3339"
	}
	nd := r.Range(1, 9)
	if g.exact {
		nd = 9
	}
	unit := int64(1)
	for i := 0; i < 9-nd; i++ {
		unit *= 10
	}
	ns := int64(t.Nanosecond()) / unit * unit
	t = time.Date(t.Year(), t.Month(), t.Day(), t.Hour(), t.Minute(), t.Second(), int(ns), time.UTC)
	zn := g.zone()
	s := t.In(zn).Format("2006-01-02T15:04:05") + "." + pad(int(ns/unit), nd)
	z := t.In(zn).Format("Z07:00")
	return s + z, t, "rfc3339nano"
}

func (g *gen) zone() *time.Location {
	switch g.r.Intn(4) {
	case 0:
		return time.FixedZone("", 3*3600)
	case 1:
		return time.FixedZone("", -(5*3600 + 30*60))
	}
	return time.UTC
}

var garbageTimes = []string{"junk", "2026-13-45 00:00:00", "2026-09-25", "2026-09-25T12:00:00", "1790337600", "2026-09-25 12:00:60",
	"2026-09-25 12:00:00.", "2026-09-25 12:00:00,5", "2026/09/25 12:00:00", "2026-09-25 24:00:00", "2026-00-10 00:00:00", "2026-09-25 12:00:0x",
	"2026-09-25  12:00:00", "26-09-25 12:00:00", "2026-09-25 12:00:00.12a", "2026-09-25T12:00:00+3", "2026-09-25 12:00:00Z"}

// document instants: delays (= now - t) around the configured boundaries, and far away
func (g *gen) pickInstant() time.Time {
	r := g.r
	c := driftCfgs[g.cfg]
	eps := rng.Pick(r, []time.Duration{0, 0, 1, -1, time.Millisecond, -time.Millisecond, time.Microsecond, -time.Microsecond, time.Second, -time.Second})
	g.exact = false
	switch r.Intn(8) {
	case 0, 1:
		g.exact = eps > -2 && eps < 2
		g.feat["time-boundary"] = true
		return g.now.Add(-(c.drift + eps))
	case 2, 3:
		g.exact = eps > -2 && eps < 2
		g.feat["time-boundary"] = true
		return g.now.Add(-(-c.fdrift + eps))
	case 4:
		return g.now.Add(-eps)
	case 5:
		return g.now.Add(-time.Duration(r.Intn(7200_000)-3600_000) * time.Millisecond)
	case 6:
		g.feat["time-far"] = true
		if g.cfg == 3 {
			// the wide window: stay after 1970 (MID is unsigned) and inside UnixNano's range
			return g.now.AddDate(r.Range(-55, 205), 0, 0).Add(time.Duration(r.Intn(1e9)))
		}
		// any year 0..9999: beyond time.Duration in both directions, beyond UnixNano
		return time.Date(r.Range(0, 9999), time.Month(r.Range(1, 12)), r.Range(1, 28), r.Intn(24), r.Intn(60), r.Intn(60), r.Intn(1e9), time.UTC)
	}
	return g.now.Add(-(time.Duration(int64(r.U64()%uint64(2*time.Hour))) - time.Hour))
}

// a document with time fields; returns doc bytes
func (g *gen) timeDoc(minimal bool) string {
	r := g.r
	var extra []string
	var fields []fieldSpec
	var intended *string
	names := []string{"timestamp", "time", "ts"}
	for _, n := range names {
		p := 3
		if minimal {
			p = 5
		}
		switch c := r.Intn(p + 3); {
		case c < 2: // valid
			t := g.pickInstant()
			if t.Year() < 0 || t.Year() > 9999 {
				continue
			}
			s, tt, kind := g.renderTime(t)
			extra = append(extra, "\""+n+"\":\""+s+"\"")
			fields = append(fields, fieldSpec{n, s})
			if intended == nil {
				x := nsOf(tt).String()
				intended = &x
			}
			g.feat["time-"+kind] = true
		case c == 2: // garbage
			s := rng.Pick(r, garbageTimes)
			if r.Chance(1, 4) {
				extra = append(extra, "\""+n+"\":\"\"")
				fields = append(fields, fieldSpec{n, ""})
			} else {
				extra = append(extra, "\""+n+"\":\""+s+"\"")
				fields = append(fields, fieldSpec{n, s})
			}
			g.feat["time-garbage"] = true
		}
	}
	var doc string
	if minimal {
		doc = "{" + strings.Join(extra, ",") + "}"
	} else {
		doc = genObjectBody(r, 1, false, extra)
	}
	g.docs = append(g.docs, docMeta{DocHex: hex.EncodeToString([]byte(doc)), Fields: fields, Intended: intended})
	return doc
}

// special documents for the three classes reported as findings
func (g *gen) specialTimeDoc(kind string) string {
	r := g.r
	var s string
	var tt time.Time
	switch kind {
	case "time-far-future":
		// more than the range of time.Duration after now
		y := r.Range(2330, 9999)
		tt = time.Date(y, time.Month(r.Range(1, 12)), r.Range(1, 28), r.Intn(24), r.Intn(60), r.Intn(60), 0, time.UTC)
		if r.Bool() {
			s = tt.Format("2006-01-02 15:04:05")
		} else {
			s = tt.Format(time.RFC3339)
		}
	case "estime-long-fraction":
		// 10..12 fraction digits with leading zeros; time.Parse would cut after 9 digits
		nd := r.Range(10, 12)
		digits := strings.Repeat("0", nd-9) + pad(r.Range(1, 999999999), 9)
		tt = g.now.Add(-time.Duration(r.Intn(1000)) * time.Millisecond).Truncate(time.Second)
		ns, _ := new(big.Int).SetString(digits[:9], 10)
		tt = tt.Add(time.Duration(ns.Int64()))
		s = tt.UTC().Format("2006-01-02 15:04:05") + "." + digits
	}
	n := rng.Pick(r, []string{"timestamp", "time", "ts"})
	doc := "{\"" + n + "\":\"" + s + "\"}"
	x := nsOf(tt).String()
	g.docs = append(g.docs, docMeta{DocHex: hex.EncodeToString([]byte(doc)), Fields: []fieldSpec{{n, s}}, Intended: &x})
	return doc
}

var actionLines = []string{`{"index":{}}`, `{"create":{}}`, `{"index":{"_index":"x"}}`, `{"create":{"_id":"1"}}`, `{ "index" : {} }`}
var badActions = []string{`{"delete":{}}`, `junk`, `{"update":{}}`, `{"Index":{}}`, `index`, `{"a":1}`, `"create`, `{"inde":{},"x":"`}

// one document line for a framing-oriented body
func (g *gen) framingDoc() string {
	r := g.r
	B := g.e.B
	switch c := r.Intn(20); {
	case c < 6: // sizes around the buffer
		n := B + r.Range(-4, 3)
		if r.Chance(1, 5) {
			n = r.Range(1, 3)*B + r.Range(-2, 2)
		}
		g.feat["size-edge"] = true
		if n >= B-1 {
			g.feat["oversize"] = true
		}
		return objectOfLen(r, max(n, 2))
	case c < 11:
		return objectOfLen(r, r.Range(2, max(2, B-2)))
	case c < 13:
		g.feat["nonobject"] = true
		return rng.Pick(r, []string{"1", "null", "true", "\"s\"", "[1]", "[]", "[{\"k\":1}]", "0.5", " 7 ", "\"{}\""})
	case c < 15:
		g.feat["invalid"] = true
		return breakJSON(r, objectOfLen(r, r.Range(7, max(7, B-2))))
	case c == 15:
		g.feat["blank-doc"] = true
		return ""
	case c == 16:
		g.feat["lenient"] = true
		return rng.Pick(r, []string{`{"a":01}`, `{"a":1e}`, `{"a":-}`, `{"a":.5}`, `{"a":1.}`, `{"a":+1}`, `{"a":"\q"}`, "{\"a\":\"\x01\"}", "{\"a\":\"\t\"}"})
	}
	d := genObjectBody(r, 2, false, nil)
	return d
}

func (g *gen) body(mode string) ([]byte, string) {
	r := g.r
	B := g.e.B
	var sb bytes.Buffer
	class := mode
	npairs := r.Range(1, 6)
	if mode == "protocol" {
		npairs = r.Range(1, 8)
	}
	eol := func() string {
		if r.Chance(1, 4) {
			g.feat["crlf"] = true
			return "\r\n"
		}
		return "\n"
	}
	if mode == "oversize-tail-exact" {
		// regression for 7e46066: pairs, then an action line and an unterminated line of exactly k*B bytes
		for i := r.Range(0, 3); i > 0; i-- {
			sb.WriteString(actionLines[r.Intn(2)] + eol())
			sb.WriteString(objectOfLen(r, r.Range(2, B-2)) + eol())
		}
		sb.WriteString(actionLines[r.Intn(2)] + eol())
		sb.WriteString(objectOfLen(r, r.Range(1, 3)*B))
		g.feat["oversize"] = true
		g.feat["no-final-newline"] = true
		return sb.Bytes(), class
	}
	special := ""
	if mode == "time-far-future" || mode == "estime-long-fraction" {
		special = mode
		npairs = r.Range(1, 3)
	}
	specialAt := r.Intn(npairs)
	for i := 0; i < npairs; i++ {
		for r.Chance(1, 8) { // blank lines before the action line
			g.feat["blank"] = true
			sb.WriteString(eol())
		}
		act := rng.Pick(r, actionLines)
		if len(act)+2 > B {
			act = actionLines[r.Intn(2)]
		}
		if mode == "protocol" && r.Chance(1, 5) {
			g.feat["bad-action"] = true
			switch r.Intn(4) {
			case 0:
				act = objectOfLen(r, B+r.Range(-1, 2)) // too long / just fitting, no create/index
			case 1:
				act = `{"index":{"_index":"` + strings.Repeat("i", max(0, B-21+r.Range(-1, 1))) + `"}}`
			default:
				act = rng.Pick(r, badActions)
			}
		}
		last := i == npairs-1
		if mode == "protocol" && last && r.Chance(1, 6) {
			g.feat["dangling-action"] = true
			sb.WriteString(act)
			if r.Bool() {
				sb.WriteString(eol())
			}
			break
		}
		sb.WriteString(act)
		sb.WriteString(eol())
		var doc string
		switch {
		case special != "" && i == specialAt:
			doc = g.specialTimeDoc(special)
		case mode == "time" || special != "":
			if r.Chance(1, 6) {
				doc = g.framingDoc()
			} else {
				doc = g.timeDoc(B < 200 || r.Bool())
			}
		case mode == "shapes":
			switch c := r.Intn(10); {
			case c < 6:
				doc = genObjectBody(r, 3, false, nil)
			case c == 6:
				doc = genValue(r, 2, false)
				g.feat["nonobject-or-object"] = true
			case c == 7:
				doc = genObjectBody(r, 2, true, nil)
				g.feat["lenient"] = true
			case c == 8:
				doc = breakJSON(r, genObjectBody(r, 2, false, nil))
				g.feat["invalid"] = true
			default:
				doc = g.timeDoc(false)
			}
		default:
			doc = g.framingDoc()
		}
		doc = strings.ReplaceAll(doc, "\n", " ")
		sb.WriteString(doc)
		if last && r.Chance(1, 3) {
			g.feat["no-final-newline"] = true
			if r.Chance(1, 4) {
				sb.WriteString("\r")
			}
		} else {
			sb.WriteString(eol())
		}
	}
	for r.Chance(1, 8) {
		sb.WriteString(eol())
	}
	return sb.Bytes(), class
}

// unterminated over-size last line: does the reader's chunking (with a reader reporting EOF by a
// separate empty read) end exactly at the end of the body (exact), and is there a moment where
// exactly one buffer of bytes remains, so that the outcome depends on how EOF is reported (edge)?
func tailExact(body []byte, B int) (oversize, exact, edge bool) {
	i := bytes.LastIndexByte(body, '\n')
	tail := body[i+1:]
	if len(tail) < B {
		return false, false, false
	}
	pos := 0
	for len(tail)-pos >= B {
		if len(tail)-pos == B {
			edge = true
		}
		if tail[pos+B-1] == '\r' {
			pos += B - 1
		} else {
			pos += B
		}
	}
	return true, len(tail)-pos == 0, edge
}

// ---------------------------------------------------------------- meta codec (real MarshalBinaryTo / UnmarshalBinary)

func metaCoq(m frac.MetaData) string {
	var ts []string
	for _, t := range m.Tokens {
		ts = append(ts, "("+hxb(t.Key)+", "+hxb(t.Value)+")")
	}
	return fmt.Sprintf("(Build_meta %d%%N %d%%N %d%%N [%s])", uint64(m.ID.MID), uint64(m.ID.RID), m.Size, strings.Join(ts, "; "))
}

func randBytes(r *rng.R, n int) []byte {
	b := make([]byte, n)
	for i := range b {
		switch r.Intn(4) {
		case 0:
			b[i] = byte(r.Intn(256))
		case 1:
			b[i] = 0
		default:
			b[i] = "abz_AZ09:."[r.Intn(10)]
		}
	}
	return b
}

func randU64(r *rng.R) uint64 {
	switch r.Intn(5) {
	case 0:
		return 0
	case 1:
		return ^uint64(0)
	case 2:
		return uint64(r.Intn(1 << 16))
	}
	return r.U64()
}

// real UnmarshalBinary under recover: "KOk m" | "KErr" | "KPanic"
func realUnmarshal(b []byte) (cls string, m frac.MetaData) {
	defer func() {
		if recover() != nil {
			cls = "KPanic"
		}
	}()
	if err := m.UnmarshalBinary(b); err != nil {
		return "KErr", m
	}
	return "(KOk " + metaCoq(m) + ")", m
}

func metaCases(r *rng.R, n int, emit func(record)) {
	for i := 0; i < n; i++ {
		m := frac.MetaData{ID: seq.ID{MID: seq.MID(randU64(r)), RID: seq.RID(randU64(r))}, Size: uint32(randU64(r))}
		for k := r.Intn(6); k > 0; k-- {
			kl, vl := r.Intn(13), r.Intn(13)
			if r.Chance(1, 20) {
				vl = r.Range(250, 300) // length needs its second byte
			}
			m.Tokens = append(m.Tokens, frac.MetaToken{Key: randBytes(r, kl), Value: randBytes(r, vl)})
		}
		src := metaCoq(m)
		b := m.MarshalBinaryTo(nil)
		if r.Chance(1, 4) { // appended to a non-empty destination, as the ingestor does
			pre := randBytes(r, r.Intn(9))
			b = m.MarshalBinaryTo(append([]byte{}, pre...))[len(pre):]
		}
		cls, _ := realUnmarshal(append([]byte{}, b...))
		in := map[string]any{"meta": src, "bytes_hex": hex.EncodeToString(b)}
		inj, _ := json.Marshal(in)
		emit(record{Kind: "case", Coq: fmt.Sprintf("CMeta %s %s %s", src, hxb(b), cls), Class: "meta-codec", Nontrivial: len(m.Tokens) > 0,
			Req: &request{Class: "meta-codec", BodyText: string(inj)}, Obs: &observation{Resp: cls}})
		// damaged encodings: truncation, header corruption, trailing bytes
		d := append([]byte{}, b...)
		what := ""
		switch r.Intn(4) {
		case 0, 1:
			d = d[:r.Intn(len(d))]
			what = "truncated"
		case 2:
			d[r.Intn(4)] ^= byte(1 << r.Intn(8))
			what = "header"
		default:
			d = append(d, randBytes(r, r.Range(1, 9))...)
			what = "trailing"
		}
		cls2, _ := realUnmarshal(append([]byte{}, d...))
		inj2, _ := json.Marshal(map[string]any{"bytes_hex": hex.EncodeToString(d), "damage": what})
		emit(record{Kind: "case", Coq: fmt.Sprintf("CMetaBytes %s %s", hxb(d), cls2), Class: "meta-bytes-" + what, Nontrivial: true,
			Req: &request{Class: "meta-bytes", BodyText: string(inj2)}, Obs: &observation{Resp: cls2}})
	}
}

// ---------------------------------------------------------------- histories of overlapping requests

func (g *gen) plainBody(kind string) []byte {
	r := g.r
	var sb bytes.Buffer
	switch kind {
	case "empty": // accepted, but no document survives
		for i := r.Intn(4); i > 0; i-- {
			sb.WriteString(actionLines[r.Intn(2)] + "\n")
			if r.Bool() {
				sb.WriteString(rng.Pick(r, []string{"1", "null", "[1]", "\"s\"", "true"}) + "\n")
			} else {
				sb.WriteString(objectOfLen(r, g.e.B+r.Range(0, 40)) + "\n")
			}
		}
	case "big":
		for i := r.Range(3, 8); i > 0; i-- {
			sb.WriteString(actionLines[r.Intn(2)] + "\n")
			sb.WriteString(objectOfLen(r, r.Range(g.e.B/2, g.e.B-2)) + "\n")
		}
	default:
		for i := r.Range(1, 3); i > 0; i-- {
			sb.WriteString(actionLines[r.Intn(2)] + "\n")
			sb.WriteString(objectOfLen(r, r.Range(8, g.e.B/2)) + "\n")
		}
	}
	return sb.Bytes()
}

func newHistory(e *env, r *rng.R) []histItem {
	g := &gen{r: r, e: e, feat: map[string]bool{}}
	cfg := r.Intn(len(driftCfgs))
	var roles []string
	// 0-2 requests that end early: accepted without surviving document, or FAILED (body reader breaks, unparsable
	// document line, cancelled context); every one of them must give its pooled objects back exactly once
	for k := r.Intn(3); k > 0; k-- {
		roles = append(roles, rng.Pick(r, []string{"empty", "fail-read", "fail-json", "fail-ctx"}))
	}
	heldRole := "held"
	if r.Bool() {
		heldRole = "held-body" // blocked inside its body reader instead of inside the store
	}
	roles = append(roles, heldRole)
	for k := r.Range(1, 3); k > 0; k-- {
		roles = append(roles, "during")
	}
	for k := r.Range(1, 2); k > 0; k-- {
		roles = append(roles, "after")
	}
	var h []histItem
	for _, role := range roles {
		kind := map[string]string{"empty": "empty", "held": "big", "held-body": "big"}[role]
		if role == "after" && r.Chance(1, 3) {
			kind = "empty"
		}
		body := g.plainBody(kind)
		if role == "fail-json" || role == "fail-ctx" {
			body = append(body, []byte(actionLines[r.Intn(2)]+"\n"+rng.Pick(r, []string{`{"a":}`, `nul`, `{"a":tru}`})+"\n")...)
			if r.Bool() {
				body = append(body, g.plainBody("small")...)
			}
		}
		now := baseNow.Add(time.Duration(r.Intn(3600_000)) * time.Millisecond)
		rq := &request{MaxDoc: e.maxDoc, Cfg: cfg, NowNs: now.UnixNano(), BodyHex: hex.EncodeToString(body),
			BodyText: fmt.Sprintf("%q", body), Class: "overlap-history", body: body, BlockAfter: -1}
		if role == "fail-read" {
			rq.Fault = rng.Pick(r, []string{"unexpected-eof", "generic", "timeout"})
		}
		rq.CtxCancelled = role == "fail-ctx"
		// gzip and plain requests mixed; a gzip body that blocks is flushed per line
		rq.Gzip = r.Chance(2, 3)
		if rq.Gzip {
			rq.Eager = true
		}
		if role == "held-body" {
			rq.FlushLines = rq.Gzip
			rq.BlockAfter = 2 * r.Intn(bytes.Count(body, []byte{'\n'})/2) // 0 or after k complete pairs
			if r.Chance(1, 4) {
				rq.BlockAfter++ // between an action line and its document
			}
		}
		h = append(h, histItem{role, rq})
	}
	return h
}

// runs the history on the real handler: the held request enters StoreDocuments and stays there
// while the "during" requests are processed completely; then it is released
func runHistory(e *env, h []histItem, emit func(record)) bool {
	var viols []record
	var mu sync.Mutex
	collect := func(rc record) {
		mu.Lock()
		rc.Hist = h
		rc.Req = nil
		viols = append(viols, rc)
		mu.Unlock()
	}
	obs := make([]*observation, len(h))
	tables := make([]string, len(h))
	for i, it := range h {
		t, _, ok := buildTable(it.Request, collect)
		if !ok {
			return false
		}
		tables[i] = t
	}
	var hold *holdCtl
	var done chan struct{}
	heldIdx := -1
	releaseHeld := func() {
		if hold != nil {
			close(hold.release)
			<-done
			hold = nil
		}
	}
	for i, it := range h {
		switch it.Role {
		case "held", "held-body":
			hold = &holdCtl{entered: make(chan struct{}), release: make(chan struct{})}
			done = make(chan struct{})
			heldIdx = i
			go func(i int, hc *holdCtl) {
				defer close(done)
				if h[i].Role == "held" {
					obs[i] = e.serveHold(h[i].Request, collect, hc, nil)
				} else {
					obs[i] = e.serveHold(h[i].Request, collect, nil, hc)
				}
			}(i, hold)
			select {
			case <-hold.entered:
			case <-done: // never reached the store (should not happen for these bodies)
				hold = nil
			case <-time.After(20 * time.Second):
				collect(record{Kind: "viol", Fp: "hang:held-request", What: "the held request neither reached StoreDocuments nor returned"})
				return false
			}
		case "after":
			releaseHeld()
			obs[i] = e.serve(it.Request, collect)
		default:
			obs[i] = e.serve(it.Request, collect)
		}
	}
	releaseHeld()
	_ = heldIdx
	bad := false
	for _, v := range viols {
		emit(v)
		bad = true
	}
	var terms []string
	for i, it := range h {
		if obs[i] == nil {
			return bad
		}
		terms = append(terms, "("+caseTerm(e, it.Request, obs[i], tables[i])+")")
	}
	emit(record{Kind: "case", Coq: "CHist [" + strings.Join(terms, "; ") + "]", Class: "overlap-history", Nontrivial: true, Hist: h, ObsList: obs})
	emit(record{Kind: "count", Key: fmt.Sprintf("history:requests-%d", len(h))})
	for _, it := range h {
		if strings.HasPrefix(it.Role, "fail-") {
			emit(record{Kind: "count", Key: "history:starts-with-" + it.Role})
		}
	}
	return bad
}

// ---------------------------------------------------------------- broken streams

// a request whose body reader breaks (non-EOF error) after a prefix of a generated body
func faultRequest(e *env, r *rng.R) (*request, map[string]bool) {
	g := &gen{r: r, e: e, feat: map[string]bool{}}
	g.cfg = r.Intn(len(driftCfgs))
	g.now = baseNow.Add(time.Duration(r.Intn(3600_000)) * time.Millisecond)
	var body []byte
	if r.Chance(2, 3) {
		body = g.plainBody(rng.Pick(r, []string{"big", "small"}))
	} else {
		body, _ = g.body("framing")
	}
	// cut position classes
	var nl []int
	for i, c := range body {
		if c == '\n' {
			nl = append(nl, i+1)
		}
	}
	cut, where := len(body), "at-end"
	switch c := r.Intn(10); {
	case c == 0:
		cut, where = 0, "at-start"
	case c <= 3 && len(nl) >= 2: // right after a complete document line (even number of lines, for plain pairs)
		j := 2*r.Range(1, len(nl)/2) - 1
		cut, where = nl[j], "after-doc-line"
	case c <= 5 && len(nl) >= 1:
		j := 2 * r.Intn((len(nl)+1)/2)
		cut, where = nl[j], "after-action-line"
	case c <= 8 && len(body) > 2:
		cut = r.Range(1, len(body)-1)
		where = "inside-line"
		if body[cut-1] == '\n' {
			where = "after-some-line"
		}
	}
	prefix := body[:cut]
	rq := &request{MaxDoc: e.maxDoc, Cfg: g.cfg, NowNs: g.now.UnixNano(), BodyHex: hex.EncodeToString(prefix),
		BodyText: fmt.Sprintf("%q", prefix), Docs: g.docs, body: prefix, BlockAfter: -1,
		Fault: rng.Pick(r, []string{"unexpected-eof", "unexpected-eof", "generic", "timeout"})}
	rq.Gzip = r.Bool()
	rq.Eager = r.Bool()
	if r.Chance(1, 3) {
		rq.Chunk = r.Range(1, 40)
	}
	rq.Class = "fault-" + where
	g.feat["fault-"+rq.Fault] = true
	if rq.Gzip {
		g.feat["fault-gzip"] = true
	}
	return rq, g.feat
}

// ---------------------------------------------------------------- worker

type workerSpec struct {
	MaxDoc int
	N      int
	Modes  []string
	Seed   uint64
	Procs  int // GOMAXPROCS of the child (0 = default)
}

func runOne(e *env, rq *request, feat map[string]bool, emit func(record)) {
	table, lenient, ok := buildTable(rq, emit)
	if !ok {
		return
	}
	o := e.serve(rq, emit)
	if o == nil {
		return
	}
	if over, exact, _ := tailExact(rq.body, e.B); over && rq.Fault == "" {
		if exact && !rq.Eager {
			rq.Class = "oversize-tail-exact"
		} else if !strings.HasPrefix(rq.Class, "time-") && !strings.HasPrefix(rq.Class, "estime-") {
			rq.Class = "oversize-tail"
		}
	}
	if lenient {
		emit(record{Kind: "count", Key: "json:lenient-body"})
	}
	for k := range feat {
		emit(record{Kind: "count", Key: "feature:" + k})
	}
	if o.Status/100 == 2 {
		emit(record{Kind: "count", Key: fmt.Sprintf("outcome:accepted-%d-docs", min(o.Created, 3))})
	} else {
		emit(record{Kind: "count", Key: fmt.Sprintf("outcome:rejected-%d", o.Status)})
	}
	nontrivial := len(feat) > 0 && bytes.Count(rq.body, []byte{'\n'}) >= 2
	emit(record{Kind: "case", Coq: caseTerm(e, rq, o, table), Class: rq.Class, Nontrivial: nontrivial, Req: rq, Obs: o})
	if o.Calls == 1 && len(o.mpay) > 0 && len(o.mpay) < 1500 && len(rq.body)%3 == 0 {
		// the metas payload of the real ingest path (marshalAppendMeta) against the codec model
		var ms []string
		for _, m := range o.metas {
			ms = append(ms, metaCoq(m))
		}
		emit(record{Kind: "case", Coq: fmt.Sprintf("CMetaPayload %s [%s]", hxb(o.mpay), strings.Join(ms, "; ")),
			Class: "metas-payload", Nontrivial: len(o.metas) > 1, Req: rq, Obs: &observation{Status: o.Status, Created: o.Created, Calls: 1, Total: o.Total, Docs: o.Docs}})
	}
}

func worker(spec workerSpec, out io.Writer) {
	bw := bufio.NewWriterSize(out, 1<<20)
	defer bw.Flush()
	enc := json.NewEncoder(bw)
	emit := func(rc record) {
		if err := enc.Encode(rc); err != nil {
			panic(err)
		}
	}
	r := rng.New(spec.Seed)
	if spec.MaxDoc == 0 {
		metaCases(r, spec.N, emit)
		return
	}
	if len(spec.Modes) == 1 && spec.Modes[0] == "fault" {
		e := newEnv(spec.MaxDoc)
		for i := 0; i < spec.N; i++ {
			rq, feat := faultRequest(e, r)
			runOne(e, rq, feat, emit)
		}
		return
	}
	if len(spec.Modes) == 1 && spec.Modes[0] == "paths" {
		pe := newPathEnv()
		for i := 0; i < spec.N; i++ {
			runPath(pe, genPath(r), emit)
		}
		return
	}
	if len(spec.Modes) == 1 && spec.Modes[0] == "single" {
		se := newSingleEnv()
		defer se.close()
		flushing := func(rc record) { emit(rc); bw.Flush() } // the store may take the process down: nothing may be lost
		for i := 0; i < spec.N; i++ {
			runSingle(se, genSingle(r, i), flushing)
		}
		return
	}
	if len(spec.Modes) == 1 && spec.Modes[0] == "overlap" {
		e := newEnvN(spec.MaxDoc, 8)
		for i := 0; i < spec.N; i++ {
			h := newHistory(e, r)
			runHistory(e, h, emit)
			// every request is over: all rate-limit tickets must be back (a lost one would make later requests wait)
			for _, ing := range e.ings {
				if ing.VerifTickets() != e.inflight {
					emit(record{Kind: "viol", Fp: "rate-limit-ticket-lost", What: fmt.Sprintf("after all requests of the history returned %d of %d rate-limit tickets are available", ing.VerifTickets(), e.inflight), Hist: h})
					e = newEnvN(spec.MaxDoc, 8)
					break
				}
			}
		}
		return
	}
	e := newEnv(spec.MaxDoc)
	for i := 0; i < spec.N; i++ {
		mode := spec.Modes[i%len(spec.Modes)]
		g := &gen{r: r, e: e, feat: map[string]bool{}}
		g.cfg = r.Intn(len(driftCfgs))
		if mode == "time-far-future" || mode == "estime-long-fraction" {
			g.cfg = rng.Pick(r, []int{0, 2})
		}
		g.now = baseNow.Add(time.Duration(r.Intn(3600_000)) * time.Millisecond).Add(time.Duration(r.Intn(1_000_000)))
		body, class := g.body(mode)
		rq := &request{MaxDoc: spec.MaxDoc, Cfg: g.cfg, NowNs: g.now.UnixNano(), Gzip: r.Chance(1, 5), BodyHex: hex.EncodeToString(body),
			BodyText: fmt.Sprintf("%q", body), Docs: g.docs, Class: class, body: body}
		if r.Chance(1, 3) {
			rq.Chunk = r.Range(1, 40)
		}
		rq.Eager = r.Bool() && mode != "oversize-tail-exact"
		if _, _, edge := tailExact(body, e.B); edge {
			// how a gzip reader reports EOF is its own business: keep the edge to the plain reader
			rq.Gzip = false
		} else if rq.Gzip {
			rq.Eager = true
		}
		runOne(e, rq, g.feat, emit)
	}
}

// ---------------------------------------------------------------- main

func plan(tier string, seed uint64) []workerSpec {
	r := rng.New(seed)
	fr := []string{"framing", "framing", "protocol"}
	mix := []string{"framing", "time", "protocol", "shapes", "time"}
	tm := []string{"time", "time", "shapes", "framing"}
	sp := []string{"time-far-future", "estime-long-fraction", "oversize-tail-exact"}
	k := 1
	if tier == "thorough" {
		k = 20
	}
	specs := []workerSpec{
		{7, 300 * k, fr, 0, 0}, {16, 300 * k, fr, 0, 0}, {17, 300 * k, fr, 0, 0}, {23, 250 * k, fr, 0, 0}, {32, 300 * k, fr, 0, 0},
		{64, 450 * k, mix, 0, 0}, {100, 400 * k, mix, 0, 0}, {200, 500 * k, tm, 0, 0}, {1024, 100 * k, mix, 0, 0},
		{128, 60 * k, sp, 0, 0}, {20, 30 * k, []string{"oversize-tail-exact"}, 0, 0},
		{0, 200 * k, nil, 0, 0}, // meta codec
		{64, 40 * k, []string{"overlap"}, 0, 0}, {48, 60 * k, []string{"overlap"}, 0, 1}, {256, 20 * k, []string{"overlap"}, 0, 2},
		{40, 200 * k, []string{"fault"}, 0, 0}, {200, 100 * k, []string{"fault"}, 0, 0},
		// exit paths of ProcessDocuments (pools drained before/after: one P, GC off); single-binary mode (one P: the
		// compressor a bulk puts back is the one the next bulk gets)
		{4096, 250 * k, []string{"paths"}, 0, 1}, {4096, 40 * k, []string{"single"}, 0, 1},
	}
	if tier == "thorough" {
		specs = append(specs, workerSpec{4096, 300, mix, 0, 0}, workerSpec{33, 300 * k, fr, 0, 0}, workerSpec{257, 200 * k, mix, 0, 0})
	}
	for i := range specs {
		specs[i].Seed = r.U64()
	}
	return specs
}

func main() {
	seed := flag.Uint64("seed", 1, "")
	tier := flag.String("tier", "quick", "")
	out := flag.String("out", "", "")
	replay := flag.String("replay", "", "")
	wk := flag.String("worker", "", "internal: JSON worker spec")
	flag.Parse()
	if *wk != "" {
		var spec workerSpec
		if err := json.Unmarshal([]byte(*wk), &spec); err != nil {
			panic(err)
		}
		if spec.N == -2 { // replay of a history read from stdin, repeated until it shows or 30 times
			var h []histItem
			if err := json.NewDecoder(os.Stdin).Decode(&h); err != nil {
				panic(err)
			}
			maxDoc := 64
			for _, it := range h {
				it.Request.body, _ = hex.DecodeString(it.Request.BodyHex)
				maxDoc = it.Request.MaxDoc
			}
			bw := bufio.NewWriter(os.Stdout)
			enc := json.NewEncoder(bw)
			e := newEnvN(maxDoc, 8)
			for i := 0; i < 30; i++ {
				var recs []record
				bad := runHistory(e, h, func(rc record) { recs = append(recs, rc) })
				if bad || i == 29 {
					for _, rc := range recs {
						enc.Encode(rc)
					}
					break
				}
			}
			bw.Flush()
			return
		}
		if spec.N == -3 { // replay of one ProcessDocuments call (exit-path class)
			var ps pathSpec
			if err := json.NewDecoder(os.Stdin).Decode(&ps); err != nil {
				panic(err)
			}
			bw := bufio.NewWriter(os.Stdout)
			enc := json.NewEncoder(bw)
			runPath(newPathEnv(), &ps, func(rc record) { enc.Encode(rc) })
			bw.Flush()
			return
		}
		if spec.N == -4 { // replay of a single-mode schedule
			var sp singleSpec
			if err := json.NewDecoder(os.Stdin).Decode(&sp); err != nil {
				panic(err)
			}
			bw := bufio.NewWriter(os.Stdout)
			enc := json.NewEncoder(bw)
			se := newSingleEnv()
			defer se.close()
			runSingle(se, &sp, func(rc record) { enc.Encode(rc); bw.Flush() })
			return
		}
		if spec.N < 0 { // replay of one request read from stdin
			var rq request
			if err := json.NewDecoder(os.Stdin).Decode(&rq); err != nil {
				panic(err)
			}
			rq.body, _ = hex.DecodeString(rq.BodyHex)
			bw := bufio.NewWriter(os.Stdout)
			enc := json.NewEncoder(bw)
			if strings.HasPrefix(rq.Class, "meta-") {
				// replay of a codec case: the real UnmarshalBinary on the recorded bytes
				var in struct {
					BytesHex string `json:"bytes_hex"`
				}
				json.Unmarshal([]byte(rq.BodyText), &in)
				b, _ := hex.DecodeString(in.BytesHex)
				cls, _ := realUnmarshal(append([]byte{}, b...))
				enc.Encode(record{Kind: "case", Coq: fmt.Sprintf("CMetaBytes %s %s", hxb(b), cls), Class: rq.Class, Nontrivial: true, Req: &rq, Obs: &observation{Resp: cls}})
				bw.Flush()
				return
			}
			runOne(newEnv(rq.MaxDoc), &rq, map[string]bool{"replay": true}, func(rc record) { enc.Encode(rc) })
			bw.Flush()
			return
		}
		worker(spec, os.Stdout)
		return
	}
	if *out == "" {
		fmt.Fprintln(os.Stderr, "need -out")
		os.Exit(2)
	}
	w, err := casefile.New(*out, "C10", "From Coq Require Import Uint63 ZArith.\nFrom C10 Require Import Model ModelMeta Spec ModelOwn CaseDefs.", 250)
	if err != nil {
		panic(err)
	}
	self, err := os.Executable()
	if err != nil {
		panic(err)
	}
	// input of the single-mode case that was running when its process ended (set by "begin", cleared by its result)
	var pendingBegin map[string]any
	consume := func(data []byte) {
		dec := json.NewDecoder(bytes.NewReader(data))
		for {
			var rc record
			if err := dec.Decode(&rc); err == io.EOF {
				break
			} else if err != nil {
				if pendingBegin != nil {
					break // the process died in the middle of a record
				}
				panic(err)
			}
			switch rc.Kind {
			case "begin":
				pendingBegin = rc.Input
			case "case":
				if rc.Input != nil {
					pendingBegin = nil
					w.Add(rc.Coq, rc.Class, rc.Nontrivial, rc.Input, rc.Impl)
					if *replay != "" {
						js, _ := json.Marshal(rc.Impl)
						fmt.Printf("replay: class=%s observed=%s\n", rc.Class, js)
					}
					continue
				}
				if rc.Hist != nil {
					w.Add(rc.Coq, rc.Class, rc.Nontrivial, map[string]any{"history": rc.Hist}, rc.ObsList)
					if *replay != "" {
						for i, o := range rc.ObsList {
							fmt.Printf("replay: history[%d] role=%s status=%d created=%d calls=%d docs=%q\n", i, rc.Hist[i].Role, o.Status, o.Created, o.Calls, o.Docs)
						}
					}
					continue
				}
				w.Add(rc.Coq, rc.Class, rc.Nontrivial, map[string]any{"request": rc.Req}, rc.Obs)
				if *replay != "" {
					fmt.Printf("replay: class=%s status=%d created=%d calls=%d docs=%q mids=%v\n", rc.Class, rc.Obs.Status, rc.Obs.Created, rc.Obs.Calls, rc.Obs.Docs, rc.Obs.Mids)
				}
			case "viol":
				if rc.Input != nil {
					pendingBegin = nil
					w.Violate(rc.Fp, rc.What, rc.Input)
					if *replay != "" {
						fmt.Printf("replay: VIOLATION %s: %s\n", rc.Fp, rc.What)
					}
					continue
				}
				if rc.Hist != nil {
					w.Violate(rc.Fp, rc.What, map[string]any{"history": rc.Hist})
					if *replay != "" {
						fmt.Printf("replay: VIOLATION %s: %s\n", rc.Fp, rc.What)
					}
					continue
				}
				w.Violate(rc.Fp, rc.What, map[string]any{"request": rc.Req, "observed": rc.Obs})
			case "count":
				w.Count(rc.Key)
			}
		}
	}
	died := map[string]string{}
	var diedMu sync.Mutex
	child := func(spec workerSpec, stdin []byte) []byte {
		js, _ := json.Marshal(spec)
		cmd := exec.Command(self, "-worker", string(js))
		cmd.Env = append(os.Environ(), "LOG_LEVEL=fatal")
		if spec.Procs > 0 {
			cmd.Env = append(cmd.Env, fmt.Sprintf("GOMAXPROCS=%d", spec.Procs))
		}
		if (len(spec.Modes) == 1 && spec.Modes[0] == "single") || spec.N == -4 {
			dir, err := os.MkdirTemp("", "hC10-single-")
			if err != nil {
				panic(err)
			}
			defer os.RemoveAll(dir)
			cmd.Env = append(cmd.Env, "HC10_SINGLE_DIR="+dir)
		}
		cmd.Stdin = bytes.NewReader(stdin)
		var so, se bytes.Buffer
		cmd.Stdout = &so
		cmd.Stderr = &se
		if err := cmd.Run(); err != nil {
			tail := se.String()
			if len(tail) > 2000 {
				tail = tail[len(tail)-2000:]
			}
			if (len(spec.Modes) == 1 && spec.Modes[0] == "single") || spec.N == -4 {
				// the embedded store takes the process down when it cannot read a queued block (logger.Panic in the
				// index worker): reported as a violation of the case that was running
				diedMu.Lock()
				died[string(js)] = fmt.Sprintf("%v; stderr tail: %s", err, tail)
				diedMu.Unlock()
				return so.Bytes()
			}
			fmt.Fprintf(os.Stderr, "worker %s failed: %v\n%s\n", js, err, tail)
			os.Exit(3)
		}
		return so.Bytes()
	}
	// output of a child that may have died (single-mode): the case that was running becomes a violation
	consumeChild := func(spec workerSpec, data []byte) {
		pendingBegin = nil
		consume(data)
		js, _ := json.Marshal(spec)
		if why, ok := died[string(js)]; ok {
			if pendingBegin == nil {
				fmt.Fprintf(os.Stderr, "worker %s failed outside a case: %s\n", js, why)
				os.Exit(3)
			}
			w.Violate("single-mode:store-died", "the embedded store took the process down while indexing accepted bulks (single-binary mode): "+why, pendingBegin)
			if *replay != "" {
				fmt.Printf("replay: VIOLATION single-mode:store-died: %s\n", why)
			}
		}
		pendingBegin = nil
	}
	if *replay != "" {
		b, err := os.ReadFile(*replay)
		if err != nil {
			panic(err)
		}
		var rp struct {
			Replay struct {
				Case struct {
					Input struct {
						Request json.RawMessage `json:"request"`
						History json.RawMessage `json:"history"`
						Path    json.RawMessage `json:"path"`
						Single  json.RawMessage `json:"single"`
					} `json:"input"`
				} `json:"case"`
				Input struct {
					Request json.RawMessage `json:"request"`
					History json.RawMessage `json:"history"`
					Path    json.RawMessage `json:"path"`
					Single  json.RawMessage `json:"single"`
				} `json:"input"`
			} `json:"replay"`
		}
		if err := json.Unmarshal(b, &rp); err != nil {
			panic(err)
		}
		rq := rp.Replay.Case.Input.Request
		if rq == nil {
			rq = rp.Replay.Input.Request
		}
		hist := rp.Replay.Case.Input.History
		if hist == nil {
			hist = rp.Replay.Input.History
		}
		pathIn, singleIn := rp.Replay.Case.Input.Path, rp.Replay.Case.Input.Single
		if pathIn == nil {
			pathIn = rp.Replay.Input.Path
		}
		if singleIn == nil {
			singleIn = rp.Replay.Input.Single
		}
		if pathIn != nil || singleIn != nil {
			spec, in := workerSpec{N: -3, Procs: 1}, pathIn
			if singleIn != nil {
				spec, in = workerSpec{N: -4, Procs: 1}, singleIn
			}
			consumeChild(spec, child(spec, in))
			if err := w.Close(); err != nil {
				panic(err)
			}
			return
		}
		if hist != nil {
			// the history is repeated in a fresh process (which Ps the requests run on is up to the scheduler)
			consume(child(workerSpec{N: -2}, hist))
			if err := w.Close(); err != nil {
				panic(err)
			}
			return
		}
		consume(child(workerSpec{N: -1}, rq))
		if err := w.Close(); err != nil {
			panic(err)
		}
		return
	}
	specs := plan(*tier, *seed)
	outs := make([][]byte, len(specs))
	sem := make(chan struct{}, 4)
	var wg sync.WaitGroup
	for i := range specs {
		wg.Add(1)
		go func(i int) {
			defer wg.Done()
			sem <- struct{}{}
			defer func() { <-sem }()
			outs[i] = child(specs[i], nil)
		}(i)
	}
	wg.Wait()
	for i, o := range outs {
		consumeChild(specs[i], o)
	}
	runGen(w, rng.New(*seed^0x47454E10), *tier == "thorough")
	w.Extra["buffer_sizes"] = func() []int {
		var bs []int
		for _, s := range specs {
			bs = append(bs, max(s.MaxDoc, 16))
		}
		return bs
	}()
	if err := w.Close(); err != nil {
		panic(err)
	}
}
