// Ownership of pooled objects on every exit path of Ingestor.ProcessDocuments (class exit-path-*), and the
// hand-over of the payload to an embedded store in single-binary mode (class single-mode).
package main

import (
	"context"
	"encoding/binary"
	"errors"
	"fmt"
	"os"
	"path/filepath"
	"runtime/debug"
	"strings"
	"time"

	"github.com/ozontech/seq-db/conf"
	"github.com/ozontech/seq-db/consts"
	"github.com/ozontech/seq-db/disk"
	"github.com/ozontech/seq-db/frac"
	"github.com/ozontech/seq-db/fracmanager"
	"github.com/ozontech/seq-db/mappingprovider"
	"github.com/ozontech/seq-db/network/circuitbreaker"
	pbstore "github.com/ozontech/seq-db/pkg/storeapi"
	"github.com/ozontech/seq-db/proxy/bulk"
	"github.com/ozontech/seq-db/proxy/stores"
	"github.com/ozontech/seq-db/seq"
	storeimpl "github.com/ozontech/seq-db/storeapi"
	"github.com/ozontech/seq-db/verifhook"

	"verif/harness/internal/casefile"
	"verif/harness/internal/rng"
)

// ---------------------------------------------------------------- exit paths

// one call of ProcessDocuments, described by what it is given
type pathSpec struct {
	Limit   bool     `json:"limit"`         // ingestor with MaxInflightBulks = 0: every call exceeds the limit
	Ctx     bool     `json:"ctx_cancelled"` // the call gets a context that is already cancelled
	Docs    []string `json:"docs"`          // what readNext delivers, in order
	Fin     string   `json:"fin"`           // end | read-error | invalid-json (one more, unparsable, document)
	StoreOK bool     `json:"store_ok"`      // answer of the StorageClient
	Class   string   `json:"class"`
}

type pathObs struct {
	Err      string `json:"err"`
	Total    int    `json:"total"`
	CtxTaken bool   `json:"ctx_branch_taken"`
	Pools    [4]int `json:"pooled_after"` // compressorPool, binaryDocsPool, binaryMetasPool, procPool
	Dup      bool   `json:"same_object_twice"`
	Tickets  int    `json:"tickets_missing"`
	Calls    int    `json:"store_calls"`
}

type pathClient struct {
	ok    bool
	calls int
}

func (c *pathClient) StoreDocuments(_ context.Context, _ int, docs, metas []byte) error {
	c.calls++
	if _, err := disk.DocBlock(docs).DecompressTo(nil); err != nil {
		return nil
	}
	if !c.ok {
		return errors.New("scripted store error")
	}
	return nil
}

type pathEnv struct {
	cl       *pathClient
	ing, lim *bulk.Ingestor
}

func newPathEnv() *pathEnv {
	debug.SetGCPercent(-1) // sync.Pool is cleared by the collector: the drained pools must show every Put
	pe := &pathEnv{cl: &pathClient{}}
	pe.reset()
	return pe
}

// fresh ingestors (also after a call that lost a ticket: later calls must not wait for it)
func (pe *pathEnv) reset() {
	mp, err := mappingprovider.New("", mappingprovider.WithMapping(mapping))
	if err != nil {
		panic(err)
	}
	cfg := bulk.IngestorConfig{MaxInflightBulks: 3, AllowedTimeDrift: time.Hour, FutureAllowedTimeDrift: time.Minute,
		MappingProvider: mp, MaxTokenSize: 72, MaxDocumentSize: 4096}
	pe.ing = bulk.NewIngestor(cfg, pe.cl)
	cfg.MaxInflightBulks = 0
	pe.lim = bulk.NewIngestor(cfg, pe.cl)
}

func distinct[T comparable](l []T) bool {
	seen := map[T]bool{}
	for _, x := range l {
		if seen[x] {
			return false
		}
		seen[x] = true
	}
	return true
}

func drainPools(ing *bulk.Ingestor) (n [4]int, dup bool) {
	c := frac.VerifDrainCompressorPool()
	d, m := bulk.VerifDrainPayloadPools()
	p := ing.VerifDrainProcPool()
	n = [4]int{len(c), len(d), len(m), len(p)}
	dup = !distinct(c) || !distinct(d) || !distinct(m) || !distinct(p)
	return
}

func genPath(r *rng.R) *pathSpec {
	ps := &pathSpec{StoreOK: !r.Chance(1, 5)}
	switch r.Intn(12) {
	case 0:
		ps.Limit = true
	case 1, 2, 3:
		ps.Ctx = true
	}
	ps.Fin = rng.Pick(r, []string{"end", "end", "end", "read-error", "read-error", "invalid-json", "invalid-json"})
	for k := r.Intn(6); k > 0; k-- {
		if r.Chance(1, 3) {
			ps.Docs = append(ps.Docs, rng.Pick(r, []string{"1", "null", "[1,2]", "\"s\"", "true"}))
		} else {
			ps.Docs = append(ps.Docs, objectOfLen(r, r.Range(8, 200)))
		}
	}
	return ps
}

func runPath(pe *pathEnv, ps *pathSpec, emit func(record)) {
	ing := pe.ing
	if ps.Limit {
		ing = pe.lim
	}
	drainPools(ing)
	t0 := ing.VerifTickets()
	pe.cl.ok, pe.cl.calls = ps.StoreOK, 0
	ctx, cancel := context.WithCancel(context.Background())
	if ps.Ctx {
		cancel()
	}
	defer cancel()
	reads := 0
	readNext := func() ([]byte, error) {
		k := reads
		reads++
		if k < len(ps.Docs) {
			return []byte(ps.Docs[k]), nil
		}
		switch ps.Fin {
		case "read-error":
			return nil, errors.New("unexpected EOF")
		case "invalid-json":
			if k == len(ps.Docs) {
				return []byte(`{"a":tru}`), nil
			}
		}
		return nil, nil
	}
	var total int
	var err error
	var panicked any
	func() {
		defer func() { panicked = recover() }()
		total, err = ing.ProcessDocuments(ctx, baseNow, readNext)
	}()
	in := map[string]any{"path": ps}
	if panicked != nil {
		emit(record{Kind: "viol", Fp: "panic:ProcessDocuments", What: fmt.Sprintf("Ingestor.ProcessDocuments panics: %v", panicked), Input: in})
		return
	}
	o := &pathObs{Total: total, Calls: pe.cl.calls}
	if err != nil {
		o.Err = err.Error()
	}
	o.CtxTaken = ps.Ctx && reads == 0 && errors.Is(err, context.Canceled)
	o.Pools, o.Dup = drainPools(ing)
	o.Tickets = t0 - ing.VerifTickets()
	if o.Tickets != 0 {
		defer pe.reset()
	}
	var its []string
	kind := "ok"
	for _, d := range ps.Docs {
		its = append(its, casefile.Bool(strings.HasPrefix(d, "{")))
	}
	fin := map[string]string{"end": "FEnd", "read-error": "FReadErr", "invalid-json": "FDocErr"}[ps.Fin]
	switch {
	case ps.Limit:
		kind = "limit"
	case o.CtxTaken:
		kind = "ctx-done"
	case ps.Fin != "end":
		kind = ps.Fin
	case !strings.Contains(strings.Join(its, ""), "true"):
		kind = "empty"
	case !ps.StoreOK:
		kind = "store-error"
	}
	ps.Class = "exit-path-" + kind
	emit(record{Kind: "count", Key: "exit-path:" + kind})
	if ps.Ctx && !o.CtxTaken && !ps.Limit {
		emit(record{Kind: "count", Key: "exit-path:ctx-cancelled-but-ticket-branch"})
	}
	coq := fmt.Sprintf("CPath (Build_req %s %s [%s] %s %s) %s %d [%d; %d; %d; %d; %d]",
		casefile.Bool(ps.Limit), casefile.Bool(o.CtxTaken), strings.Join(its, "; "), fin, casefile.Bool(ps.StoreOK),
		casefile.Bool(err != nil), total, o.Pools[0], o.Pools[1], o.Pools[2], o.Pools[3], max(o.Tickets, 0))
	if o.Tickets < 0 {
		emit(record{Kind: "viol", Fp: "rate-limit-ticket-surplus", What: "more rate-limit tickets after the call than before", Input: in})
	}
	emit(record{Kind: "case", Coq: coq, Class: ps.Class, Nontrivial: !ps.Limit, Input: in, Impl: o})
}

// ---------------------------------------------------------------- single-binary mode

type singleSpec struct {
	Bulks [][]string `json:"bulks"`    // documents of every bulk
	Sched []bool     `json:"schedule"` // true = next bulk (a complete ProcessDocuments call), false = the index worker handles one queued block
	Class string     `json:"class"`
}

type singleObs struct {
	IDs     [][]string `json:"ids"`
	Fetched [][]string `json:"fetched"` // "" = not found
}

// sits between the ingestor and the SeqDBClient: learns which ID was given to which document
type idRecorder struct {
	next bulk.StorageClient
	ids  []seq.ID
	docs [][]byte
	err  string
}

func (c *idRecorder) StoreDocuments(ctx context.Context, count int, docs, metas []byte) error {
	c.ids, c.docs, c.err = nil, nil, ""
	rawDocs, err := disk.DocBlock(docs).DecompressTo(nil)
	if err != nil {
		c.err = err.Error()
		return err
	}
	rawMetas, err := disk.DocBlock(metas).DecompressTo(nil)
	if err != nil {
		c.err = err.Error()
		return err
	}
	for len(rawMetas) > 0 {
		n := binary.LittleEndian.Uint32(rawMetas)
		var md frac.MetaData
		if err := md.UnmarshalBinary(append([]byte{}, rawMetas[4:4+n]...)); err != nil {
			c.err = err.Error()
			return err
		}
		rawMetas = rawMetas[4+n:]
		if md.Size == 0 {
			continue
		}
		l := binary.LittleEndian.Uint32(rawDocs)
		c.ids = append(c.ids, md.ID)
		c.docs = append(c.docs, append([]byte{}, rawDocs[4:4+l]...))
		rawDocs = rawDocs[4+l:]
	}
	return c.next.StoreDocuments(ctx, count, docs, metas)
}

type singleEnv struct {
	dir    string
	store  *storeimpl.Store
	memory pbstore.StoreApiClient
	ing    *bulk.Ingestor
	rec    *idRecorder
	gate   chan struct{}
	done   chan struct{}
	serial int
}

// the single-mode wiring of proxyapi.NewIngestor(config, store != nil), with one index worker whose
// schedule point "append.start" (before it touches the queued block) is a gate
func newSingleEnv() *singleEnv {
	conf.IndexWorkers = 1
	// the parent process owns the scratch directory (it removes it also when this process is taken down by the store)
	dir := os.Getenv("HC10_SINGLE_DIR")
	if dir == "" {
		var err error
		if dir, err = os.MkdirTemp("", "hC10-single-"); err != nil {
			panic(err)
		}
	}
	se := &singleEnv{dir: dir, gate: make(chan struct{}), done: make(chan struct{}, 64)}
	verifhook.Set(func(name string) {
		switch name {
		case "append.start":
			<-se.gate
		case "append.done":
			se.done <- struct{}{}
		}
	})
	storeMapping, err := mappingprovider.New("", mappingprovider.WithMapping(seq.Mapping{}))
	if err != nil {
		panic(err)
	}
	se.store, err = storeimpl.NewStore(context.Background(), storeimpl.StoreConfig{
		API: storeimpl.APIConfig{
			Bulk: storeimpl.BulkConfig{RequestsLimit: consts.DefaultBulkRequestsLimit},
			Search: storeimpl.SearchConfig{WorkersCount: 1, FractionsPerIteration: 1, RequestsLimit: consts.DefaultSearchRequestsLimit,
				Async: fracmanager.AsyncSearcherConfig{DataDir: filepath.Join(dir, "async_search")}},
		},
		FracManager: fracmanager.Config{DataDir: dir, FracSize: uint64(consts.GB), TotalSize: uint64(10 * consts.GB)},
	}, storeMapping)
	if err != nil {
		panic(err)
	}
	se.memory = storeimpl.NewClient(se.store)
	hot := stores.NewStoresFromString("memory", 1)
	cold := stores.NewStoresFromString("", 1)
	seqdb := bulk.NewSeqDBClient(hot, cold, circuitbreaker.Config{RequestVolumeThreshold: 101, Timeout: time.Hour},
		map[string]pbstore.StoreApiClient{"memory": se.memory})
	se.rec = &idRecorder{next: seqdb}
	proxyMapping, err := mappingprovider.New("", mappingprovider.WithMapping(seq.Mapping{}))
	if err != nil {
		panic(err)
	}
	se.ing = bulk.NewIngestor(bulk.IngestorConfig{HotStores: hot, WriteStores: cold, MaxInflightBulks: 4,
		AllowedTimeDrift: 24 * time.Hour, FutureAllowedTimeDrift: 5 * time.Minute, MappingProvider: proxyMapping,
		MaxTokenSize: consts.KB, DocsZSTDCompressLevel: -1, MetasZSTDCompressLevel: -1, MaxDocumentSize: 128 * consts.KB}, se.rec)
	// warm-up: the compressor sync.Pool keeps for this P gets buffers that are large enough for every later bulk, so
	// that CompressDocsAndMetas works in place (as in a proxy that has been running for a while)
	var warm []string
	for i := 0; i < 40; i++ {
		warm = append(warm, fmt.Sprintf(`{"warm":%d,"pad":"%s"}`, i, strings.Repeat("w", 300)))
	}
	if _, _, err := se.bulk(warm); err != nil {
		panic(err)
	}
	if !se.work() {
		panic("warm-up bulk never indexed")
	}
	return se
}

func (se *singleEnv) close() {
	verifhook.Set(nil)
	os.RemoveAll(se.dir)
}

func (se *singleEnv) bulk(docs []string) ([]seq.ID, [][]byte, error) {
	k := 0
	total, err := se.ing.ProcessDocuments(context.Background(), time.Now(), func() ([]byte, error) {
		if k == len(docs) {
			return nil, nil
		}
		k++
		return []byte(docs[k-1]), nil
	})
	if err != nil {
		return nil, nil, err
	}
	if se.rec.err != "" {
		return nil, nil, errors.New(se.rec.err)
	}
	if total != len(docs) || len(se.rec.ids) != total {
		return nil, nil, fmt.Errorf("ProcessDocuments stored %d of %d documents (%d IDs in the payload)", total, len(docs), len(se.rec.ids))
	}
	return se.rec.ids, se.rec.docs, nil
}

// lets the index worker through one queued block
func (se *singleEnv) work() bool {
	select {
	case se.gate <- struct{}{}:
	case <-time.After(30 * time.Second):
		return false
	}
	select {
	case <-se.done:
		return true
	case <-time.After(30 * time.Second):
		return false
	}
}

func (se *singleEnv) fetch(id seq.ID) ([]byte, error) {
	stream, err := se.memory.Fetch(context.Background(), &pbstore.FetchRequest{Ids: []string{id.String()}})
	if err != nil {
		return nil, err
	}
	data, err := stream.Recv()
	if err != nil {
		return nil, err
	}
	return append([]byte{}, disk.DocBlock(data.Data).Payload()...), nil
}

func genSingle(r *rng.R, serial int) *singleSpec {
	sp := &singleSpec{Class: "single-mode"}
	n := r.Range(2, 5)
	same := r.Chance(1, 2) // bulks of equal shape: the compressed blocks have (nearly) the same length
	for b := 0; b < n; b++ {
		var docs []string
		k := r.Range(1, 3)
		padLen := r.Range(0, 60)
		if same {
			k, padLen = 1, 8
		}
		for j := 0; j < k; j++ {
			docs = append(docs, fmt.Sprintf(`{"case":%d,"bulk":%d,"doc":%d,"pad":"%s"}`, 100000+serial, b, j, strings.Repeat("p", padLen)))
		}
		sp.Bulks = append(sp.Bulks, docs)
	}
	// feasible schedules: the worker holds one block at its gate and the index queue (length = number of workers = 1)
	// holds one more; a third bulk would block inside Active.Append
	pending, issued := 0, 0
	for issued < n {
		if pending < 2 && (pending == 0 || r.Chance(3, 4)) {
			sp.Sched = append(sp.Sched, true)
			issued++
			pending++
		} else {
			sp.Sched = append(sp.Sched, false)
			pending--
		}
	}
	return sp
}

func runSingle(se *singleEnv, sp *singleSpec, emit func(record)) {
	in := map[string]any{"single": sp}
	emit(record{Kind: "begin", Input: in})
	o := &singleObs{}
	var ids [][]seq.ID
	var docs [][][]byte
	pending, next, overlaps := 0, 0, 0
	fail := func(fp, what string) {
		emit(record{Kind: "viol", Fp: fp, What: what, Input: in})
	}
	for _, s := range sp.Sched {
		if s {
			if next >= len(sp.Bulks) {
				continue
			}
			if pending > 0 {
				overlaps++
			}
			i, d, err := se.bulk(sp.Bulks[next])
			if err != nil {
				fail("single-mode:bulk-error", "a well-formed bulk is not accepted in single mode: "+err.Error())
				return
			}
			ids, docs = append(ids, i), append(docs, d)
			next++
			pending++
		} else if pending > 0 {
			if !se.work() {
				fail("hang:index-worker", "the index worker does not finish a queued block")
				return
			}
			pending--
		}
	}
	for ; pending > 0; pending-- {
		if !se.work() {
			fail("hang:index-worker", "the index worker does not finish a queued block")
			return
		}
	}
	se.store.WaitIdle()
	var bs, fs []string
	ord := 0
	for b := range ids {
		var items, got, idStr, gotStr []string
		for j, id := range ids[b] {
			d, err := se.fetch(id)
			if err != nil {
				fail("single-mode:fetch-error", "fetch by ID fails: "+err.Error())
				return
			}
			items = append(items, fmt.Sprintf("([%d%%N], %s)", ord, hxb(docs[b][j])))
			if len(d) == 0 {
				got = append(got, "None")
			} else {
				got = append(got, "Some ("+hxb(d)+")")
			}
			idStr, gotStr = append(idStr, id.String()), append(gotStr, string(d))
			ord++
		}
		bs = append(bs, "["+strings.Join(items, "; ")+"]")
		fs = append(fs, "["+strings.Join(got, "; ")+"]")
		o.IDs, o.Fetched = append(o.IDs, idStr), append(o.Fetched, gotStr)
	}
	var sched []string
	for _, s := range sp.Sched {
		sched = append(sched, casefile.Bool(s))
	}
	emit(record{Kind: "count", Key: fmt.Sprintf("single-mode:bulks-compressed-while-earlier-queued-%d", min(overlaps, 3))})
	emit(record{Kind: "case", Coq: fmt.Sprintf("CSingle [%s] [%s] [%s]", strings.Join(bs, "; "), strings.Join(sched, "; "), strings.Join(fs, "; ")),
		Class: sp.Class, Nontrivial: overlaps > 0, Input: in, Impl: o})
}
