package main

// gen-<func> correspondence classes: validation of the Go-to-Gallina translator (harness/cmd/go2coq).
// The REAL functions are called on boundary and generated arguments; case_agrees evaluates the
// definitions GENERATED from their source (props/C10/coq/Gen.v) on the same arguments.

import (
	"math/big"
	"time"

	"github.com/ozontech/seq-db/proxy/bulk"
	"github.com/ozontech/seq-db/seq"

	"verif/harness/internal/casefile"
	gc "verif/harness/internal/gencase"
	"verif/harness/internal/rng"
)

func runGen(w *casefile.Writer, r *rng.R, thorough bool) {
	n := 150
	if thorough {
		n = 1500
	}
	add := func(it gc.Item) {
		w.Add(it.Coq, it.Class, false, it.Input, it.Impl)
		w.Count("gen:" + it.Class)
	}
	for i := 0; i < n; i++ {
		delay, drift, fd := gc.I64(r), gc.I64(r), gc.I64(r)
		switch r.Intn(4) {
		case 0: // around the two borders of the rule
			drift = int64(r.Intn(1 << 40))
			delay = drift + int64(r.Intn(3)) - 1
		case 1:
			fd = int64(r.Intn(1 << 40))
			delay = -fd + int64(r.Intn(3)) - 1
		}
		add(gc.Case("gen-documentDelayed", 1, []gc.Arg{gc.S(gc.I(delay)), gc.S(gc.I(drift)), gc.S(gc.I(fd))},
			func() []string {
				return []string{gc.B(bulk.VerifGenDocumentDelayed(time.Duration(delay), time.Duration(drift), time.Duration(fd)))}
			}))
		// an instant = sec*1e9 + nsec nanoseconds after the epoch (unbounded count), also outside the UnixNano range
		sec := rng.Pick(r, []int64{0, 1, -1, 1_700_000_000, 9223372036, 9223372037, -9223372036, -9223372037, 1 << 40, -(1 << 40), gc.I64(r) >> 8, gc.I64(r)})
		nsec := int64(r.Intn(1_000_000_000))
		cnt := new(big.Int).Add(new(big.Int).Mul(big.NewInt(sec), big.NewInt(1_000_000_000)), big.NewInt(nsec))
		add(gc.Case("gen-TimeToMID", 2, []gc.Arg{gc.S(cnt.String())},
			func() []string { return []string{gc.U(uint64(seq.TimeToMID(time.Unix(sec, nsec))))} }))
		d := gc.I64(r)
		add(gc.Case("gen-DurationToMID", 3, []gc.Arg{gc.S(gc.I(d))},
			func() []string { return []string{gc.U(uint64(seq.DurationToMID(time.Duration(d))))} }))
		m := gc.U64(r)
		add(gc.Case("gen-MIDToDuration", 4, []gc.Arg{gc.S(gc.U(m))},
			func() []string { return []string{gc.I(int64(seq.MIDToDuration(seq.MID(m))))} }))
	}
}
