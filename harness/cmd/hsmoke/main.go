// hsmoke — sanity run of the shared fracbuild package (not a property check).
package main

import (
	"encoding/hex"
	"fmt"
	"time"

	"os"
	"os/exec"
	"verif/harness/internal/storectl"

	"verif/harness/internal/crashfs"

	"github.com/ozontech/seq-db/seq"

	"verif/harness/internal/fracbuild"
)

func ctl() {
	dir, _ := os.MkdirTemp("", "verif-smoke-")
	defer os.RemoveAll(dir)
	data := dir + "/data"
	os.MkdirAll(data, 0o755)
	st, err := storectl.Start(data)
	if err != nil {
		panic(err)
	}
	must := func(r storectl.Resp, err error) storectl.Resp {
		if err != nil {
			panic(err)
		}
		return r
	}
	must(st.Call(storectl.Req{Op: "open", Dir: data}))
	must(st.Call(storectl.Req{Op: "bulk", Docs: []storectl.Doc{{MID: 1000, RID: 1, BodyHex: hex.EncodeToString([]byte(`{"a":"x"}`)), Tokens: []string{"k:x"}}}}))
	must(st.Call(storectl.Req{Op: "bulk", Docs: []storectl.Doc{{MID: 2000, RID: 2, BodyHex: hex.EncodeToString([]byte(`{"a":"y"}`)), Tokens: []string{"k:y"}}}}))
	fmt.Println(must(st.Call(storectl.Req{Op: "seal"})).Fracs)
	tr, err := st.Close()
	if err != nil {
		panic(err)
	}
	fmt.Println("ops:", len(tr.Ops), "verify:", tr.Verify())
	t0 := time.Now()
	for k := 0; k <= len(tr.Ops); k++ {
		d := fmt.Sprintf("%s/crash%d", dir, k)
		if err := tr.StateAt(k).Materialize(d); err != nil {
			panic(err)
		}
		c, err := storectl.Start("")
		if err != nil {
			panic(err)
		}
		_, oerr := c.Call(storectl.Req{Op: "open", Dir: d})
		var got []string
		if oerr == nil {
			r, ferr := c.Call(storectl.Req{Op: "fetch", IDs: [][2]uint64{{1000, 1}, {2000, 2}}})
			if ferr != nil {
				got = []string{"fetch error: " + ferr.Error()}
			}
			for _, h := range r.DocsHex {
				b, _ := hex.DecodeString(h)
				got = append(got, string(b))
			}
		} else {
			got = []string{"open failed: " + oerr.Error()[:80]}
		}
		c.Close()
		op := "end"
		if k < len(tr.Ops) {
			op = tr.Ops[k].String()
		}
		fmt.Printf("crash before op %d (%s): %q\n", k, op, got)
	}
	fmt.Println("restarts/s:", float64(len(tr.Ops)+1)/time.Since(t0).Seconds())
}

func main() {
	storectl.MaybeChild()
	if len(os.Args) > 1 && os.Args[1] == "-ctl" {
		ctl()
		return
	}
	if len(os.Args) > 1 && os.Args[1] == "-trace" {
		// self-test of the crash-state builder: run this program under strace and compare the rebuilt
		// final state with the directory on disk
		dir, _ := os.MkdirTemp("", "verif-smoke-")
		defer os.RemoveAll(dir)
		cmd := exec.Command(os.Args[0])
		cmd.Env = append(os.Environ(), "VERIF_SMOKE_DIR="+dir)
		cmd.Stdout = os.Stderr
		tr, cerr, err := crashfs.Run(dir, cmd)
		fmt.Println("child:", cerr, "trace:", err)
		if err != nil {
			os.Exit(1)
		}
		for i, o := range tr.Ops {
			fmt.Println(i, o)
		}
		fmt.Println("verify:", tr.Verify())
		return
	}
	dir := os.Getenv("VERIF_SMOKE_DIR")
	if dir == "" {
		dir, _ = os.MkdirTemp("", "verif-smoke-")
		defer os.RemoveAll(dir)
	}
	fm, err := fracbuild.NewFM(dir, nil)
	if err != nil {
		panic(err)
	}
	docs := []fracbuild.Doc{
		{MID: 1000, RID: 1, Body: []byte(`{"a":"x"}`), Tokens: []string{"k:x", "t:hello"}},
		{MID: 1000, RID: 2, Body: []byte(`{"a":"y"}`), Tokens: []string{"k:y", "t:hello"}},
		{MID: 2000, RID: 1, Body: []byte(`{"a":"z"}`), Tokens: []string{"k:x"}},
	}
	if err := fracbuild.Append(fm, docs); err != nil {
		panic(err)
	}
	m := seq.Mapping{"k": seq.NewSingleType(seq.TokenizerTypeKeyword, "", 0), "t": seq.NewSingleType(seq.TokenizerTypeKeyword, "", 0)}
	show := func(tag string) {
		q := fracbuild.Query{Text: "k:x or not t:hello", Mapping: m, From: 0, To: 5000, Limit: 10, WithTotal: true}
		qpr, err := fracbuild.Search(fracbuild.Fracs(fm), q, 0)
		fmt.Println(tag, "search:", err)
		if qpr != nil {
			for _, id := range qpr.IDs {
				fmt.Println("  ", uint64(id.ID.MID), uint64(id.ID.RID))
			}
			fmt.Println("   total", qpr.Total)
		}
		got, err := fracbuild.Fetch(fracbuild.Fracs(fm), []seq.ID{{MID: 1000, RID: 2}, {MID: 7, RID: 7}, {MID: 2000, RID: 1}})
		fmt.Println(tag, "fetch:", err)
		for _, b := range got {
			fmt.Printf("   %q\n", b)
		}
	}
	show("active")
	fmt.Println("@@before-seal")
	fracbuild.Seal(fm)
	show("sealed")
	fracbuild.Close(fm)
}
