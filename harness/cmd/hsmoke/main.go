// hsmoke — sanity run of the shared fracbuild package (not a property check).
package main

import (
	"fmt"
	"os"

	"github.com/ozontech/seq-db/seq"

	"verif/harness/internal/fracbuild"
)

func main() {
	dir, _ := os.MkdirTemp("", "verif-smoke-")
	defer os.RemoveAll(dir)
	fm, err := fracbuild.NewFM(dir, nil)
	if err != nil {
		panic(err)
	}
	docs := []fracbuild.Doc{
		{MID: 1000, RID: 1, Body: []byte(`{"a":"x"}`), Tokens: []string{"k:x", "t:hello"}},
		{MID: 1000, RID: 2, Body: []byte(`{"a":"y"}`), Tokens: []string{"k:y", "t:hello"}},
		{MID: 2000, RID: 1, Body: []byte(`{"a":"z"}`), Tokens: []string{"k:x"}},
	}
	if err := fracbuild.Append(fm, docs); err != nil {
		panic(err)
	}
	m := seq.Mapping{"k": seq.NewSingleType(seq.TokenizerTypeKeyword, "", 0), "t": seq.NewSingleType(seq.TokenizerTypeKeyword, "", 0)}
	show := func(tag string) {
		q := fracbuild.Query{Text: "k:x or not t:hello", Mapping: m, From: 0, To: 5000, Limit: 10, WithTotal: true}
		qpr, err := fracbuild.Search(fracbuild.Fracs(fm), q, 0)
		fmt.Println(tag, "search:", err)
		if qpr != nil {
			for _, id := range qpr.IDs {
				fmt.Println("  ", uint64(id.ID.MID), uint64(id.ID.RID))
			}
			fmt.Println("   total", qpr.Total)
		}
		got, err := fracbuild.Fetch(fracbuild.Fracs(fm), []seq.ID{{MID: 1000, RID: 2}, {MID: 7, RID: 7}, {MID: 2000, RID: 1}})
		fmt.Println(tag, "fetch:", err)
		for _, b := range got {
			fmt.Printf("   %q\n", b)
		}
	}
	show("active")
	fracbuild.Seal(fm)
	show("sealed")
	fracbuild.Close(fm)
}
