// Extension of hC08 (round 5): push sites of the block generators, arbitrary fault sets, a corpus
// with FULL LID blocks, and a single transient write failure in the real fm.seal.
//
//	CGenLIDs/CGenIDs/CGenTokens/CGenTable  the real generators of frac/disk_blocks_producer.go are run
//	        with a push function that fails on chosen calls (one call only = transient, all from a
//	        call on = persistent, arbitrary sets); observed: the blocks pushed and the returned error
//	CFaultSet  writeSealedFraction against an io.WriteSeeker on which an arbitrary set of Writes fails
//	CShape  the index of a corpus has one LIDs write per generator block, three IDs writes per block
//	CSealT  the real rotate + fm.seal in a child in which exactly one write(2) on the ._index file
//	        fails (strace fault injection, EIO, nothing stored): nothing may be published or removed
package main

import (
	"bufio"
	"bytes"
	"encoding/json"
	"fmt"
	"io"
	"os"
	"os/exec"
	"path/filepath"
	"sort"
	"strings"
	"sync"
	"syscall"
	"time"

	"github.com/ozontech/seq-db/consts"
	"github.com/ozontech/seq-db/frac"
	"github.com/ozontech/seq-db/fracmanager"

	"verif/harness/internal/casefile"
	"verif/harness/internal/fracbuild"
	"verif/harness/internal/rng"
	"verif/harness/internal/storectl"
)

// ------------------------------------------------------------------ shape of a corpus (from the corpus alone)

type fieldShape struct {
	Name   string
	Counts []int64 // per token (sorted by value): number of documents carrying it
	Size   int64   // bytes of the distinct token values
}

func shapeOf(c *corpus) []fieldShape {
	m := map[string]map[string]int64{}
	add := func(f, v string) {
		if m[f] == nil {
			m[f] = map[string]int64{}
		}
		m[f][v]++
	}
	for _, d := range c.Docs {
		for _, t := range d.Tokens {
			i := strings.IndexByte(t, ':')
			add(t[:i], t[i+1:])
		}
		add("_all_", "")
	}
	var names []string
	for f := range m {
		names = append(names, f)
	}
	sort.Strings(names)
	var out []fieldShape
	for _, f := range names {
		var vals []string
		for v := range m[f] {
			vals = append(vals, v)
		}
		sort.Strings(vals)
		fs := fieldShape{Name: f}
		for _, v := range vals {
			fs.Counts = append(fs.Counts, m[f][v])
			fs.Size += int64(len(v))
		}
		out = append(out, fs)
	}
	return out
}

func lidFieldsCoq(sh []fieldShape) string {
	parts := make([]string, len(sh))
	for i, f := range sh {
		parts[i] = casefile.NList(f.Counts)
	}
	return "[" + strings.Join(parts, "; ") + "]"
}

// ------------------------------------------------------------------ push oracles

type oracle struct {
	Fl   []int `json:"failing_push_calls"`
	Pers int   `json:"all_calls_fail_from"` // -1: none
}

func (o oracle) fails(i int) bool {
	for _, x := range o.Fl {
		if x == i {
			return true
		}
	}
	return o.Pers >= 0 && i >= o.Pers
}

func (o oracle) first(n int) int {
	for i := 0; i < n; i++ {
		if o.fails(i) {
			return i
		}
	}
	return -1
}

func (o oracle) coq() string {
	p := "None"
	if o.Pers >= 0 {
		p = fmt.Sprintf("(Some %d)", o.Pers)
	}
	xs := make([]string, len(o.Fl))
	for i, x := range o.Fl {
		xs[i] = fmt.Sprint(x)
	}
	return "[" + strings.Join(xs, "; ") + "] " + p
}

func (o oracle) mode() string {
	switch {
	case len(o.Fl) == 0 && o.Pers < 0:
		return "none"
	case len(o.Fl) == 1 && o.Pers < 0:
		return "transient"
	case len(o.Fl) == 0:
		return "persistent"
	}
	return "set"
}

// oracles for a generator that makes n0 push calls without a fault
func genOracles(r *rng.R, n0, maxSingles int) []oracle {
	out := []oracle{{Pers: -1}}
	idx := make([]int, n0)
	for i := range idx {
		idx[i] = i
	}
	if n0 > maxSingles {
		rng.Shuffle(r, idx)
		keep := append([]int{0, n0 - 1}, idx[:maxSingles-2]...)
		sort.Ints(keep)
		idx = keep
	}
	for _, i := range idx {
		out = append(out, oracle{Fl: []int{i}, Pers: -1})
	}
	if n0 > 0 {
		for j := 0; j < 2; j++ {
			out = append(out, oracle{Pers: r.Intn(n0)})
		}
		for j := 0; j < 3; j++ {
			o := oracle{Pers: -1}
			for k := r.Range(2, 4); k > 0; k-- {
				o.Fl = append(o.Fl, r.Intn(n0+1))
			}
			if r.Chance(1, 3) {
				o.Pers = r.Intn(n0 + 2)
			}
			out = append(out, o)
		}
	}
	out = append(out, oracle{Fl: []int{n0}, Pers: -1}) // a call that is never made
	return out
}

// ------------------------------------------------------------------ generators

type genRun struct {
	trace []string // Coq terms of the pushed blocks
	sites []string // class of each push site
	err   error
	pan   any
}

func runGen(o oracle, f func(push func(term, site string) error) error) (g genRun) {
	defer func() {
		if p := recover(); p != nil {
			g.pan = p
		}
	}()
	g.err = f(func(term, site string) error {
		i := len(g.trace)
		g.trace = append(g.trace, term)
		g.sites = append(g.sites, site)
		if o.fails(i) {
			return errInjected
		}
		return nil
	})
	return
}

type genKind struct {
	name string                                         // lids ids tokens table
	head string                                         // Coq constructor + model input
	run  func(push func(term, site string) error) error // the real generator
	in   map[string]any
}

func (d *driver) genCases(r *rng.R, k genKind, maxSingles int, base map[string]any) {
	g0 := runGen(oracle{Pers: -1}, k.run)
	if g0.pan != nil || g0.err != nil {
		d.w.Violate("generator-failed", fmt.Sprintf("%s generator without a failing push: err=%v panic=%v", k.name, g0.err, g0.pan), base)
		return
	}
	n0 := len(g0.trace)
	d.w.Count(fmt.Sprintf("gen-%s:pushes:%d", k.name, bucket(n0)))
	for _, o := range genOracles(r, n0, maxSingles) {
		g := runGen(o, k.run)
		in := copyMap(base)
		for kk, v := range k.in {
			in[kk] = v
		}
		in["generator"] = k.name
		in["oracle"] = o
		in["pushes_without_fault"] = n0
		if g.pan != nil {
			d.w.Violate("generator-panic", fmt.Sprintf("%s generator panicked with failing push calls %v: %v", k.name, o, g.pan), in)
			continue
		}
		first := o.first(n0)
		site := "no-hit"
		if first >= 0 {
			site = g0.sites[first]
		}
		d.w.Add(fmt.Sprintf("%s %s [%s] %s", k.head, o.coq(), strings.Join(g.trace, "; "), casefile.Bool(g.err != nil)),
			fmt.Sprintf("gen-%s/%s/%s", k.name, o.mode(), site), first >= 0, in,
			map[string]any{"pushes": len(g.trace), "error": fmt.Sprint(g.err)})
	}
}

// generators runs the four real generators of the active fraction a (corpus c) under push oracles.
func (d *driver) generators(r *rng.R, c *corpus, a *frac.Active, params frac.SealParams, base map[string]any, lidCaps, idSizes []int64, maxSingles int) {
	sh := shapeOf(c)
	nids := int64(len(c.Docs) + 1)
	for _, cp := range lidCaps {
		cp := cp
		d.genCases(r, genKind{name: "lids", head: fmt.Sprintf("CGenLIDs %d%%N %s", cp, lidFieldsCoq(sh)),
			in: map[string]any{"lid_block_cap": cp},
			run: func(push func(string, string) error) error {
				return frac.VerifC08LIDsGen(a, int(cp), func(b frac.VerifC08LIDsPush) error {
					site := "rest-of-field"
					if int64(b.LIDs) == cp {
						site = "full-block"
					}
					return push(fmt.Sprintf("mkLB %d%%N %d%%N %s %s %d%%N %d%%N", b.LIDs, b.Offsets-1, casefile.Bool(b.IsLastLID),
						casefile.Bool(b.IsContinued), b.MinTID, b.MaxTID), site)
				})
			}}, maxSingles, base)
	}
	for _, sz := range idSizes {
		sz := sz
		d.genCases(r, genKind{name: "ids", head: fmt.Sprintf("CGenIDs %d%%N %d%%N", sz, nids),
			in: map[string]any{"ids_block_size": sz, "ids": nids},
			run: func(push func(string, string) error) error {
				return frac.VerifC08IDsGen(a, int(sz), func(ids, pos int) error {
					site := "last-block"
					if int64(ids) == sz {
						site = "full-block"
					}
					if ids != pos {
						site = "ids-pos-mismatch"
					}
					return push(fmt.Sprintf("%d%%N", ids), site)
				})
			}}, maxSingles, base)
	}
	// tokens: per field its size and number of tokens
	fidx := map[string]int{}
	var tf, tt []string
	for i, f := range sh {
		fidx[f.Name] = i
		tf = append(tf, fmt.Sprintf("(%d%%N, %d%%N)", f.Size, len(f.Counts)))
		bc := f.Size/int64(consts.RegularBlockSize) + 1
		bs := int64(len(f.Counts)) / bc
		if bs < 1 {
			bs = 1
		}
		tt = append(tt, fmt.Sprintf("(true, %d%%N)", (int64(len(f.Counts))+bs-1)/bs))
	}
	d.genCases(r, genKind{name: "tokens", head: fmt.Sprintf("CGenTokens %d%%N [%s]", consts.RegularBlockSize, strings.Join(tf, "; ")),
		run: func(push func(string, string) error) error {
			return frac.VerifC08TokensGen(a, func(b frac.VerifC08TokensPush) error {
				fi, ok := fidx[b.Field]
				if !ok {
					fi = 1 << 20
				}
				site := "later-block"
				if b.IsStartOfField {
					site = "first-block"
				}
				return push(fmt.Sprintf("mkTB %d %s %d%%N %d%%N %d%%N", fi, casefile.Bool(b.IsStartOfField), b.TotalSizeOfField, b.StartTID, b.Tokens), site)
			})
		}}, maxSingles, base)
	d.genCases(r, genKind{name: "table", head: fmt.Sprintf("CGenTable [%s]", strings.Join(tt, "; ")),
		run: func(push func(string, string) error) error {
			return frac.VerifC08TokenTableGen(a, params, func(field string, entries int) error {
				fi, ok := fidx[field]
				if !ok {
					fi = 1 << 20
				}
				return push(fmt.Sprintf("(%d, %d%%N)", fi, entries), "field")
			})
		}}, maxSingles, base)
}

// capsFor picks block capacities for the LID generator of a small corpus: boundary values of its
// token and field totals (a block that fills exactly at the end of a token / of a field / one
// before / one after) and random ones, all large enough to keep the number of blocks small.
func capsFor(r *rng.R, sh []fieldShape, n int) []int64 {
	var total, maxField int64
	cands := map[int64]bool{}
	for _, f := range sh {
		var ft int64
		for _, x := range f.Counts {
			ft += x
			cands[x] = true
			cands[ft] = true
			cands[ft+1] = true
			if ft > 1 {
				cands[ft-1] = true
			}
		}
		total += ft
		if ft > maxField {
			maxField = ft
		}
	}
	min := total/120 + 1
	var ok []int64
	for x := range cands {
		if x >= min {
			ok = append(ok, x)
		}
	}
	sort.Slice(ok, func(i, j int) bool { return ok[i] < ok[j] })
	rng.Shuffle(r, ok)
	var out []int64
	for i := 0; i < len(ok) && len(out) < n-1; i++ {
		out = append(out, ok[i])
	}
	out = append(out, min+int64(r.Intn(int(maxField/2+2))))
	return out
}

func idSizesFor(r *rng.R, nids int64, n int) []int64 {
	min := nids/100 + 1
	cands := []int64{nids, nids + 1, nids - 1, nids / 2, (nids + 1) / 2, nids/3 + 1}
	var out []int64
	for _, x := range cands {
		if x >= min && len(out) < n-1 {
			out = append(out, x)
		}
	}
	return append(out, min+int64(r.Intn(int(nids))))
}

// ------------------------------------------------------------------ arbitrary fault sets on the WriteSeeker

// setWS fails the listed Write calls (storing part of the bytes) and every call from pers on.
type setWS struct {
	faultWS
	fl   map[int]int64
	pers int
}

func (f *setWS) Write(p []byte) (int, error) {
	f.calls++
	if n, ok := f.fl[f.calls]; ok {
		if n > int64(len(p)) {
			n = int64(len(p))
		}
		f.put(p[:n])
		return int(n), errInjected
	}
	if f.pers > 0 && f.calls >= f.pers {
		return 0, errInjected
	}
	f.put(p)
	return len(p), nil
}

type wfault struct {
	K int   `json:"write"`
	N int64 `json:"bytes_stored"`
}

type faultSet struct {
	Fl   []wfault `json:"failing_writes"`
	Pers int      `json:"all_writes_fail_from"` // 0: none
}

func (s faultSet) coq() string {
	xs := make([]string, len(s.Fl))
	for i, x := range s.Fl {
		xs[i] = fmt.Sprintf("(%d, %d%%N)", x.K, x.N)
	}
	p := "None"
	if s.Pers > 0 {
		p = fmt.Sprintf("(Some %d)", s.Pers)
	}
	return "[" + strings.Join(xs, "; ") + "] " + p
}

func (s faultSet) first(total int) int {
	best := 0
	for _, x := range s.Fl {
		if x.K >= 1 && x.K <= total && (best == 0 || x.K < best) {
			best = x.K
		}
	}
	if s.Pers > 0 && s.Pers <= total && (best == 0 || s.Pers < best) {
		best = s.Pers
	}
	return best
}

// runFaultSet runs the real writeSealedFraction under the set and adds the CFaultSet case.
func (d *driver) runFaultSet(a *frac.Active, params frac.SealParams, p plan, secOf func(int) string, s faultSet, class string, in map[string]any) {
	ws := &setWS{fl: map[int]int64{}, pers: s.Pers}
	for i := len(s.Fl) - 1; i >= 0; i-- { // the first entry of a write number wins, as in the model's list lookup
		ws.fl[s.Fl[i].K] = s.Fl[i].N
	}
	var err error
	var pan any
	func() {
		defer func() {
			if x := recover(); x != nil {
				pan = x
			}
		}()
		ws.Seek(16, io.SeekStart)
		err = frac.VerifC08WriteSealed(a, ws, params, 1_700_000_000_000)
	}()
	total := p.indexWrites()
	first := s.first(total)
	fin := copyMap(in)
	fin["fault_set"] = s
	fin["total_index_writes"] = total
	fin["first_failing_write"] = first
	fin["section"] = secOf(first)
	if pan != nil {
		d.w.Violate("write-sealed-panic", fmt.Sprintf("writeSealedFraction panicked under the fault set %+v: %v", s, pan), fin)
		return
	}
	wl := make([]string, len(ws.writes))
	for i, x := range ws.writes {
		wl[i] = fmt.Sprintf("(%d, %d)%%N", x.Off, x.Len)
	}
	d.w.Add(fmt.Sprintf("CFaultSet %s %s %s [%s]", p.coq(), s.coq(), casefile.Bool(err != nil), strings.Join(wl, "; ")),
		class+"/"+secOf(first), first > 0, fin, map[string]any{"error": fmt.Sprint(err), "writes_done": len(ws.writes)})
}

func randomSets(r *rng.R, total, n int, lens func(k int) int64) []faultSet {
	var out []faultSet
	for i := 0; i < n; i++ {
		var s faultSet
		for k := r.Range(2, 4); k > 0; k-- {
			w := r.Range(1, total+1)
			var nb int64
			if r.Bool() && w <= total {
				nb = int64(r.Intn(int(lens(w)) + 1))
			}
			s.Fl = append(s.Fl, wfault{w, nb})
		}
		if r.Chance(1, 3) {
			s.Pers = r.Range(1, total+1)
		}
		out = append(out, s)
	}
	return out
}

// ------------------------------------------------------------------ corpus with FULL LID blocks

// bigCorpus: more than consts.LIDBlockCap tiny documents that share tokens, so that the "block is
// full" branch of getLIDsBlockGenerator is taken with the real capacity, in every position:
//
//	_all_  one token on all N documents                      -> full block (continued), rest
//	a      one token on exactly LIDBlockCap documents        -> full block that ends the field (no second push)
//	b      three tokens; the second ends exactly at the cap   -> full block with IsLastLID, then the third token
//	c      two tokens; the cap falls inside the second        -> full block (continued), rest
func bigCorpus(r *rng.R, skip bool) *corpus {
	cap := consts.LIDBlockCap
	n := cap + r.Range(200, 2500)
	b0 := r.Range(1000, cap-1000)
	c0 := r.Range(1000, cap-1000)
	c := &corpus{Skip: skip, N: n}
	for i := 0; i < n; i++ {
		d := doc{MID: uint64(1_000_000 + i%40_000), RID: uint64(i), Body: fmt.Sprintf(`{"i":%d}`, i)}
		if i < cap {
			d.Tokens = append(d.Tokens, "a:x")
		}
		switch {
		case i < b0:
			d.Tokens = append(d.Tokens, "b:0")
		case i < cap:
			d.Tokens = append(d.Tokens, "b:1")
		default:
			d.Tokens = append(d.Tokens, "b:2")
		}
		if i < c0 {
			d.Tokens = append(d.Tokens, "c:0")
		} else {
			d.Tokens = append(d.Tokens, "c:1")
		}
		c.Docs = append(c.Docs, d)
	}
	for left := n; left > 0; {
		b := 8192
		if b > left {
			b = left
		}
		c.Bulks = append(c.Bulks, b)
		left -= b
	}
	return c
}

func (c *corpus) ingest(fm *fracmanager.FracManager) error {
	i := 0
	for _, b := range c.Bulks {
		ds := make([]fracbuild.Doc, 0, b)
		for _, x := range c.Docs[i : i+b] {
			ds = append(ds, fracbuild.Doc{MID: x.MID, RID: x.RID, Body: []byte(x.Body), Tokens: x.Tokens})
		}
		if err := fracbuild.Append(fm, ds); err != nil {
			return err
		}
		i += b
	}
	return nil
}

// bigLIDs: the corpus with full LID blocks, built once per run and used for
//   - the LID / ID generators with the REAL capacities under push oracles,
//   - writeSealedFraction with a single transient failure of each write (quick: every write of the
//     LIDs section and a sample of the others; thorough: every write), some partial,
//   - the real fm.seal in a child with one injected write(2) failure on ._index.
func (d *driver) bigLIDs(r *rng.R) {
	skip := r.Bool()
	c := bigCorpus(r, skip)
	d.w.Count(fmt.Sprintf("corpus:full-lid-blocks:skip=%v", skip))
	dir := d.newDir()
	defer os.RemoveAll(dir)
	fm, err := fracbuild.NewFM(dir, func(cfg *fracmanager.Config) { cfg.Fraction.SkipSortDocs = skip })
	if err != nil {
		d.harnessError("bigLIDs: NewFM: %v", err)
		return
	}
	if err := c.ingest(fm); err != nil {
		d.harnessError("bigLIDs: append: %v", err)
		return
	}
	a := fm.VerifC08Active()
	params := fm.VerifC08SealParams()
	sh := shapeOf(c)
	in := map[string]any{"seed": d.seed, "tier": d.tier, "corpus": "full-lid-blocks", "ndocs": len(c.Docs), "skip_sort_docs": skip,
		"lids_per_token": func() map[string][]int64 {
			m := map[string][]int64{}
			for _, f := range sh {
				m[f.Name] = f.Counts
			}
			return m
		}()}

	// template of the directory for the fm.seal runs (before anything of a seal touches it)
	tmpl := d.newDir()
	defer os.RemoveAll(tmpl)
	var base string
	var init []fsz
	ents, _ := os.ReadDir(dir)
	for _, e := range ents {
		b, err := os.ReadFile(filepath.Join(dir, e.Name()))
		if err != nil || e.IsDir() {
			continue
		}
		os.WriteFile(filepath.Join(tmpl, e.Name()), b, 0o644)
		if strings.HasSuffix(e.Name(), ".docs") {
			base = strings.TrimSuffix(e.Name(), ".docs")
		}
	}
	for i, s := range suffixes {
		if st, err := os.Stat(filepath.Join(tmpl, base+s)); err == nil && base != "" {
			init = append(init, fsz{fnames[i], st.Size()})
		}
	}

	// fault-free index: plan and shape
	ws0 := &faultWS{}
	ws0.Seek(16, io.SeekStart)
	if err := frac.VerifC08WriteSealed(a, ws0, params, 1_700_000_000_000); err != nil {
		d.w.Violate("write-sealed-failed", "writeSealedFraction without a fault failed on the corpus with full LID blocks: "+err.Error(), in)
		return
	}
	secs, reg, perr := planFromWrites(ws0.writes)
	if perr != nil {
		d.w.Violate("index-shape", "index of the corpus with full LID blocks: "+perr.Error(), in)
		return
	}
	p := plan{Skip: skip, Sd: []int64{}, Secs: secs, Reg: reg}
	total := p.indexWrites()
	secOf := sectionOf(p)
	d.w.Count(fmt.Sprintf("index_writes:%d", bucket(total)))
	d.w.Add(fmt.Sprintf("CShape %s %d%%N %s %d%%N %d%%N", p.coq(), consts.LIDBlockCap, lidFieldsCoq(sh), consts.IDsBlockSize, len(c.Docs)+1),
		"shape/full-lid-blocks", true, in, map[string]any{"index_sections": p.Secs})

	// generators with the real capacities
	d.generators(r.Fork(), c, a, params, in, []int64{int64(consts.LIDBlockCap)}, []int64{int64(consts.IDsBlockSize)}, 12)

	// single transient failure of each write
	var ks []int
	for k := 1; k <= total; k++ {
		if d.tier != "quick" || secOf(k) == "KLIDs" || r.Chance(14, total) {
			ks = append(ks, k)
		}
	}
	for _, k := range ks {
		d.runFaultSet(a, params, p, secOf, faultSet{Fl: []wfault{{k, 0}}}, "bigfault-transient", in)
		if secOf(k) == "KLIDs" || r.Chance(1, 4) {
			l := ws0.writes[k-1].Len
			d.runFaultSet(a, params, p, secOf, faultSet{Fl: []wfault{{k, int64(1 + r.Intn(int(l)))}}}, "bigfault-transient-partial", in)
		}
		if d.tier != "quick" && r.Chance(1, 4) {
			d.runFaultSet(a, params, p, secOf, faultSet{Pers: k}, "bigfault-persistent", in)
		}
	}
	for _, s := range randomSets(r, total, 6, func(k int) int64 { return ws0.writes[k-1].Len }) {
		d.runFaultSet(a, params, p, secOf, s, "bigfault-set", in)
	}

	// the real fm.seal with one injected write failure
	if base == "" || len(init) < 2 {
		d.harnessError("bigLIDs: no active fraction files in %s", dir)
		return
	}
	var sk []int
	for k := 1; k <= total; k++ {
		if secOf(k) == "KLIDs" {
			sk = append(sk, k)
		}
	}
	extra := 2
	if d.tier != "quick" {
		extra = 10
	}
	for i := 0; i < extra; i++ {
		sk = append(sk, r.Range(1, total))
	}
	sk = append(sk, total+1) // no write fails: the seal completes
	d.sealTransient(c, p, tmpl, base, init, sk, in, secOf)
}

func sectionOf(p plan) func(int) string {
	return func(k int) string {
		n := 0
		for _, s := range p.Secs {
			n += len(s.Sizes)
			if k >= 1 && k <= n {
				return s.Kind
			}
		}
		switch k {
		case n + 1:
			return "registry"
		case n + 2:
			return "header"
		}
		return "none"
	}
}

// ------------------------------------------------------------------ fm.seal with one failing write(2)

type injChild struct {
	cmd    *exec.Cmd
	in     io.WriteCloser
	out    *bufio.Reader
	stderr bytes.Buffer
	mu     sync.Mutex
}

type lockedWriter struct {
	mu *sync.Mutex
	b  *bytes.Buffer
}

func (l lockedWriter) Write(p []byte) (int, error) {
	l.mu.Lock()
	defer l.mu.Unlock()
	if l.b.Len() < 1<<20 {
		l.b.Write(p)
	}
	return len(p), nil
}

// startInject starts a store child under strace so that the k-th write(2) on `path` (and only it)
// fails with EIO.
func startInject(path string, k int, logPath string) (*injChild, error) {
	exe, err := os.Executable()
	if err != nil {
		return nil, err
	}
	st, err := exec.LookPath("strace")
	if err != nil {
		return nil, err
	}
	c := &injChild{}
	c.cmd = exec.Command(st, "-f", "-o", logPath, "-e", "trace=write", "-e", "signal=none",
		"-e", fmt.Sprintf("inject=write:error=EIO:when=%d", k), "-P", path, "--", exe, "-storectl-child")
	c.cmd.Env = append(os.Environ(), "GOMAXPROCS=4")
	c.cmd.SysProcAttr = &syscall.SysProcAttr{Setpgid: true}
	c.cmd.Stderr = lockedWriter{&c.mu, &c.stderr}
	if c.in, err = c.cmd.StdinPipe(); err != nil {
		return nil, err
	}
	op, err := c.cmd.StdoutPipe()
	if err != nil {
		return nil, err
	}
	c.out = bufio.NewReaderSize(op, 1<<20)
	if err := c.cmd.Start(); err != nil {
		return nil, err
	}
	return c, nil
}

// call returns (response, died, error): died = the child exited instead of answering.
func (c *injChild) call(r storectl.Req, timeout time.Duration) (storectl.Resp, bool, error) {
	b, _ := json.Marshal(r)
	if _, err := c.in.Write(append(b, '\n')); err != nil {
		return storectl.Resp{}, true, nil
	}
	type res struct {
		line string
		err  error
	}
	ch := make(chan res, 1)
	go func() {
		for {
			line, err := c.out.ReadString('\n')
			if strings.HasPrefix(line, "@@") {
				ch <- res{line: line[2:]}
				return
			}
			if err != nil {
				ch <- res{err: err}
				return
			}
		}
	}()
	select {
	case x := <-ch:
		if x.err != nil {
			return storectl.Resp{}, true, nil
		}
		var resp storectl.Resp
		if err := json.Unmarshal([]byte(x.line), &resp); err != nil {
			return resp, false, err
		}
		if !resp.OK {
			return resp, false, fmt.Errorf("%s", resp.Err)
		}
		return resp, false, nil
	case <-time.After(timeout):
		c.kill()
		return storectl.Resp{}, false, fmt.Errorf("no answer to %s within %s", r.Op, timeout)
	}
}

func (c *injChild) kill() {
	if c.cmd.Process != nil {
		syscall.Kill(-c.cmd.Process.Pid, syscall.SIGKILL)
		c.cmd.Process.Kill()
	}
}

func (c *injChild) close() {
	c.in.Close()
	done := make(chan struct{})
	go func() { c.cmd.Wait(); close(done) }()
	select {
	case <-done:
	case <-time.After(20 * time.Second):
		c.kill()
		<-done
	}
}

func (c *injChild) tail() string {
	c.mu.Lock()
	defer c.mu.Unlock()
	return fatalLine(c.stderr.String())
}

func (d *driver) sealTransient(c *corpus, p plan, tmpl, base string, init []fsz, ks []int, in map[string]any, secOf func(int) string) {
	type out struct {
		k      int
		died   bool
		after  []string
		intact bool
		detail string
	}
	res := make([]*out, len(ks))
	var wg sync.WaitGroup
	sem := make(chan struct{}, d.workers)
	for i, k := range ks {
		wg.Add(1)
		sem <- struct{}{}
		go func(i, k int) {
			defer wg.Done()
			defer func() { <-sem }()
			dir := d.newDir()
			defer os.RemoveAll(dir)
			ents, _ := os.ReadDir(tmpl)
			for _, e := range ents {
				b, err := os.ReadFile(filepath.Join(tmpl, e.Name()))
				if err == nil {
					err = os.WriteFile(filepath.Join(dir, e.Name()), b, 0o644)
				}
				if err != nil {
					d.harnessError("sealTransient: copy: %v", err)
					return
				}
			}
			rdir, err := filepath.EvalSymlinks(dir)
			if err != nil {
				rdir = dir
			}
			logPath := filepath.Join(d.tmp, fmt.Sprintf("inject-%d.log", i))
			defer os.Remove(logPath)
			ch, err := startInject(filepath.Join(rdir, base+"._index"), k, logPath)
			if err != nil {
				d.harnessError("sealTransient: start: %v", err)
				return
			}
			defer ch.close()
			skipped := func(why string) {
				fmt.Fprintf(os.Stderr, "transient seal run skipped (write %d): %s\n", k, why)
				d.mu.Lock()
				d.w.Count("skipped:seal-transient-machinery")
				d.mu.Unlock()
			}
			if _, died, err := ch.call(storectl.Req{Op: "open", Dir: rdir, SkipSortDocs: c.Skip}, 240*time.Second); died || err != nil {
				skipped(fmt.Sprintf("open: died=%v err=%v %s", died, err, ch.tail()))
				return
			}
			_, died, err := ch.call(storectl.Req{Op: "c08_seal_locked"}, 240*time.Second)
			if err != nil {
				skipped(fmt.Sprintf("seal: %v", err))
				return
			}
			o := &out{k: k, died: died}
			if died {
				o.detail = ch.tail()
			}
			if !died {
				ch.call(storectl.Req{Op: "exit"}, 30*time.Second)
			}
			ch.close()
			// strace counts per thread: the seal runs on one locked thread; the log says whether the
			// failure was really injected (if not, the run says nothing)
			lg, _ := os.ReadFile(logPath)
			if injected := bytes.Contains(lg, []byte("(INJECTED)")); injected != (k <= p.indexWrites()) {
				skipped(fmt.Sprintf("injection expected=%v happened=%v", k <= p.indexWrites(), injected))
				return
			}
			o.intact = true
			for i, s := range suffixes {
				b, err := os.ReadFile(filepath.Join(dir, base+s))
				if err == nil {
					o.after = append(o.after, fnames[i])
				}
				if s == ".docs" || s == ".meta" {
					t, _ := os.ReadFile(filepath.Join(tmpl, base+s))
					if err != nil || !bytes.Equal(b, t) {
						o.intact = false
					}
				}
			}
			res[i] = o
		}(i, k)
	}
	wg.Wait()
	total := p.indexWrites()
	for _, o := range res {
		if o == nil {
			continue
		}
		fin := copyMap(in)
		fin["failing_write_k"] = o.k
		fin["fault_mode"] = "transient: only the k-th write(2) on ._index fails with EIO (strace fault injection), in the real rotate + fm.seal"
		fin["section"] = secOf(o.k)
		fin["total_index_writes"] = total
		fin["init"] = fszJSON(init)
		d.w.Add(fmt.Sprintf("CSealT %s %s %d %s [%s] %s", p.coq(), fszCoq(init), o.k, casefile.Bool(o.died), strings.Join(o.after, "; "), casefile.Bool(o.intact)),
			"seal-transient/"+secOf(o.k), o.k <= total, fin,
			map[string]any{"child_died": o.died, "files_after": o.after, "docs_and_meta_unchanged": o.intact, "detail": o.detail})
	}
}
