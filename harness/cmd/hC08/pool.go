// Round-6 extension of hC08: the "pool-pressure" seal classes (cases CPool, CPoolServe).
//
// disk.BlocksWriter.WriteBlock compresses every index block into a buffer of the shared bytespool and
// writes the slice that aliases it; between compression and Write lies a Seek (a system call, i.e. a
// scheduling point) at which any other user of the pool may run.  The classes drive the REAL
// writeSealedFraction (frac.VerifC08WriteSealed) in a store child with GOMAXPROCS(1) - one P, so that
// sync.Pool hands the buffer released last to the next Get - against an io.WriteSeeker over a real
// file whose Seek (and whose Write, on entry) runs "another goroutine": it acquires buffers of the size classes the sealer's
// compression buffer of that block belongs to (same request, and half of it = the class below, whose
// Acquire falls through to the class above), fills them with a poison pattern and releases them (or
// holds them across blocks).  Afterwards every block of the written index is read back through the
// real disk.IndexReader (header -> registry -> block, decompressed) and compared with the payload that
// was handed to WriteBlock (known from a run without a pool user in the same child); then the index is
// published as <fraction>.index (fsync, rename, directory fsync, .meta / .docs removed - the steps
// of Seal + Release, performed by the harness here; their order is the business of the traced
// classes), the child is killed and a fresh store is started on the directory: every document must
// be fetched and found by every token query.
//
// The schedule that was played (sealer steps and pool-user steps) is part of the case and is run
// through the model (props/C08/coq/ModelPool.v: write_blocks).
package main

import (
	"bytes"
	"encoding/binary"
	"encoding/json"
	"fmt"
	"io"
	"os"
	"path/filepath"
	"runtime"
	"strings"

	"github.com/ozontech/seq-db/bytespool"
	"github.com/ozontech/seq-db/cache"
	"github.com/ozontech/seq-db/consts"
	"github.com/ozontech/seq-db/disk"
	"github.com/ozontech/seq-db/frac"

	"verif/harness/internal/casefile"
	"verif/harness/internal/rng"
	"verif/harness/internal/storectl"
)

const poolSealingTime = 1_700_000_000_000

type poolReq struct {
	Seed    uint64 `json:"seed"`
	Mode    string `json:"mode"` // none | every | some | hold | classes
	Publish bool   `json:"publish"`
}

type poolBlock struct {
	Compress bool `json:"compress"` // WriteBlock was asked to compress (every block but the info block)
	Stored   bool `json:"stored"`   // codec zstd in the registry (compression made it smaller)
	RawLen   int  `json:"raw_len"`
	Len      int  `json:"len"`
}

type poolResp struct {
	Base       string      `json:"base"`
	Blocks     []poolBlock `json:"blocks"`
	Sched      []string    `json:"sched"` // Coq terms of type pev
	Impl       []string    `json:"impl"`  // Coq terms of type pcontent, one per block read back
	Detail     string      `json:"detail,omitempty"`
	RegistryOK bool        `json:"registry_ok"`
	UserAcq    int         `json:"user_acquires"`
	UserFill   int         `json:"user_fills"`
	UserRel    int         `json:"user_releases"`
	Classes    []int       `json:"classes"` // capacities of the buffers the pool user got
	Published  bool        `json:"published"`
	Err        string      `json:"err,omitempty"`
}

// memWS: plain in-memory io.WriteSeeker (the run without a pool user)
type memWS struct {
	buf []byte
	pos int64
}

func (w *memWS) Write(p []byte) (int, error) {
	if need := int(w.pos) + len(p); need > len(w.buf) {
		w.buf = append(w.buf, make([]byte, need-len(w.buf))...)
	}
	copy(w.buf[w.pos:], p)
	w.pos += int64(len(p))
	return len(p), nil
}

func (w *memWS) Seek(off int64, whence int) (int64, error) {
	switch whence {
	case io.SeekStart:
		w.pos = off
	case io.SeekCurrent:
		w.pos += off
	case io.SeekEnd:
		w.pos = int64(len(w.buf)) + off
	}
	return w.pos, nil
}

// fileWS: io.WriteSeeker over a real file; hook runs inside every Seek (before it is carried out)
type fileWS struct {
	f     *os.File
	hook  func(whence int)
	whook func()
}

// the write hook runs when Write is entered, before the bytes of p are looked at
func (w *fileWS) Write(p []byte) (int, error) {
	if w.whook != nil {
		w.whook()
	}
	return w.f.Write(p)
}
func (w *fileWS) Seek(off int64, whence int) (int64, error) {
	if w.hook != nil {
		w.hook(whence)
	}
	return w.f.Seek(off, whence)
}

type regEntry struct {
	codec       byte
	len, rawLen int
	pos         int64
}

// parseIndex: header -> registry -> non-empty entries, of an index held in memory
func parseIndex(file []byte) (entries []regEntry, registry []byte, err error) {
	if len(file) < 16 {
		return nil, nil, fmt.Errorf("index of %d bytes", len(file))
	}
	rp, rl := binary.LittleEndian.Uint64(file[0:]), binary.LittleEndian.Uint64(file[8:])
	if rp+rl > uint64(len(file)) || rl%disk.IndexBlockHeaderSize != 0 {
		return nil, nil, fmt.Errorf("registry pos=%d len=%d in a file of %d bytes", rp, rl, len(file))
	}
	registry = file[rp : rp+rl]
	for i := 0; i+disk.IndexBlockHeaderSize <= len(registry); i += disk.IndexBlockHeaderSize {
		h := disk.IndexBlockHeader(registry[i : i+disk.IndexBlockHeaderSize])
		if h.Len() == 0 && h.RawLen() == 0 && h.GetPos() == 0 {
			continue // section separator (WriteEmptyBlock: no WriteBlock call)
		}
		entries = append(entries, regEntry{byte(h.Codec()), int(h.Len()), int(h.RawLen()), int64(h.GetPos())})
	}
	return entries, registry, nil
}

// per child: the reference run (no pool user)
var poolRef struct {
	done     bool
	file     []byte
	entries  []regEntry
	registry []byte
	payloads [][]byte
}

func poolReference(a *frac.Active, params frac.SealParams) error {
	if poolRef.done {
		return nil
	}
	ws := &memWS{}
	ws.Seek(16, io.SeekStart)
	if err := frac.VerifC08WriteSealed(a, ws, params, poolSealingTime); err != nil {
		return fmt.Errorf("writeSealedFraction without a pool user: %w", err)
	}
	entries, registry, err := parseIndex(ws.buf)
	if err != nil {
		return err
	}
	// read it back through the real reader as well (from a scratch file)
	tmp, err := os.CreateTemp("", "verif-hC08-poolref-")
	if err != nil {
		return err
	}
	defer os.Remove(tmp.Name())
	defer tmp.Close()
	if _, err := tmp.Write(ws.buf); err != nil {
		return err
	}
	payloads, _, err := readBackAll(tmp)
	if err != nil {
		return fmt.Errorf("reference index does not read back: %w", err)
	}
	if len(payloads) != len(entries) {
		return fmt.Errorf("reference index: %d blocks read back, %d registry entries", len(payloads), len(entries))
	}
	for i, e := range entries {
		if len(payloads[i]) != e.rawLen {
			return fmt.Errorf("reference index: block %d has %d bytes, raw length %d", i, len(payloads[i]), e.rawLen)
		}
	}
	poolRef.file, poolRef.entries, poolRef.registry, poolRef.payloads, poolRef.done = ws.buf, entries, registry, payloads, true
	return nil
}

// readBackAll reads every non-empty block of an index file through the real disk.IndexReader.
// A block that cannot be read / decompressed comes back as nil with its error text.
func readBackAll(f *os.File) (payloads [][]byte, errs []string, err error) {
	r := disk.NewIndexReader(disk.NewReadLimiter(1, nil), f, cache.NewCache[[]byte](nil, nil))
	for i := uint32(0); ; i++ {
		h, e := r.GetBlockHeader(i)
		if e != nil {
			if i == 0 {
				return nil, nil, e
			}
			break // past the last entry
		}
		if h.Len() == 0 && h.RawLen() == 0 && h.GetPos() == 0 {
			continue
		}
		data, _, e := r.ReadIndexBlock(i, nil)
		if e != nil && e != io.EOF {
			payloads, errs = append(payloads, nil), append(errs, e.Error())
			continue
		}
		payloads, errs = append(payloads, append([]byte{}, data...)), append(errs, "")
	}
	return payloads, errs, nil
}

func init() {
	storectl.Register("c08_pool", func(c *storectl.Child, r storectl.Req) (storectl.Resp, error) {
		var pr poolReq
		if err := json.Unmarshal(r.Extra, &pr); err != nil {
			return storectl.Resp{}, err
		}
		out := poolRun(c, pr)
		b, _ := json.Marshal(out)
		return storectl.Resp{Extra: b}, nil
	})
}

func poolRun(c *storectl.Child, pr poolReq) (out poolResp) {
	runtime.GOMAXPROCS(1) // one P: sync.Pool.Get returns the buffer that was Put last
	a := c.FM.VerifC08Active()
	if a == nil {
		out.Err = "no active fraction"
		return
	}
	params := c.FM.VerifC08SealParams()
	out.Base = filepath.Base(a.BaseFileName)
	if err := poolReference(a, params); err != nil {
		out.Err = err.Error()
		return
	}
	ref := poolRef.entries
	for i, e := range ref {
		out.Blocks = append(out.Blocks, poolBlock{Compress: i > 0, Stored: e.codec == byte(disk.CodecZSTD), RawLen: e.rawLen, Len: e.len})
	}
	if len(ref) > 0 && ref[0].codec != byte(disk.CodecNo) {
		out.Err = "first block (info) is stored compressed: the harness's idea of writeSealedFraction is out of date"
		return
	}

	// ---- the pool user
	rr := rng.New(pr.Seed)
	var held []*bytespool.Buffer
	var heldUser []int
	ev := func(f string, a ...any) { out.Sched = append(out.Sched, fmt.Sprintf(f, a...)) }
	acquire := func(u, size int) {
		b := bytespool.Acquire(size)
		held, heldUser = append(held, b), append(heldUser, u)
		out.UserAcq++
		out.Classes = append(out.Classes, cap(b.B))
		ev("EAcq %d 0", u)
	}
	fill := func(j int) {
		b := held[j]
		b.B = b.B[:cap(b.B)]
		pat := byte(0xA5 ^ heldUser[j])
		for i := range b.B {
			b.B[i] = pat
		}
		out.UserFill++
		ev("EFill %d", j)
	}
	release := func(j int) {
		bytespool.Release(held[j])
		held, heldUser = append(held[:j], held[j+1:]...), append(heldUser[:j], heldUser[j+1:]...)
		out.UserRel++
		ev("ERel %d", j)
	}
	user := func(k int) { // at the Seek of block k (k >= len(ref): the Seeks of WriteBlocksRegistry)
		need := consts.RegularBlockSize
		if k < len(ref) {
			need += ref[k].rawLen
		}
		switch pr.Mode {
		case "none":
		case "every": // same request as the sealer's, twice; fill; release
			n0 := len(held)
			acquire(1, need)
			acquire(1, need)
			fill(n0)
			fill(n0 + 1)
			release(n0 + 1)
			release(n0)
		case "classes": // the class below (falls through to the sealer's class), the same, the one above
			n0 := len(held)
			for _, sz := range []int{need/2 + 1, need, need/2 + 1, need, 2*need + 1} {
				acquire(2, sz)
			}
			for j := n0; j < len(held); j++ {
				fill(j)
			}
			for len(held) > n0 {
				release(len(held) - 1)
			}
		case "some": // random subset of the blocks, 1..3 buffers, random order of release
			if rr.Chance(1, 2) {
				return
			}
			n0 := len(held)
			m := 1 + rr.Intn(3)
			for i := 0; i < m; i++ {
				sz := need
				if rr.Chance(1, 4) {
					sz = 1 + rr.Intn(2*need)
				}
				acquire(3+i, sz)
			}
			for j := n0; j < len(held); j++ {
				fill(j)
			}
			for len(held) > n0 {
				release(n0 + rr.Intn(len(held)-n0))
			}
		case "hold": // buffers held across blocks: written again and released at a later Seek
			for j := range held {
				fill(j)
			}
			for len(held) > 0 && rr.Chance(2, 3) {
				release(rr.Intn(len(held)))
			}
			acquire(7, need)
			if rr.Bool() {
				acquire(8, need)
			}
			for j := range held {
				if rr.Bool() {
					fill(j)
				}
			}
		}
	}

	// ---- the run under pool pressure, into the real ._index of the fraction
	path := a.BaseFileName + consts.IndexTmpFileSuffix
	f, err := os.Create(path)
	if err != nil {
		out.Err = err.Error()
		return
	}
	defer f.Close()
	if _, err := f.Seek(16, io.SeekStart); err != nil {
		out.Err = err.Error()
		return
	}
	k := 0
	inBlock := false
	ws := &fileWS{f: f}
	ws.hook = func(whence int) {
		if whence == io.SeekCurrent && k < len(ref) && !inBlock {
			// sealer steps of block k up to and including this Seek
			if k > 0 {
				ev("ESeal 0") // Acquire
				ev("ESeal 0") // compress into the buffer
			}
			ev("ESeal 0") // Seek
			user(k)
			inBlock = true
			return
		}
		user(len(ref)) // WriteBlocksRegistry: Seek(0, SeekEnd), Seek(0, SeekStart)
	}
	ws.whook = func() {
		if inBlock {
			user(k)       // the other goroutine runs once more when Write is entered
			ev("ESeal 0") // Write
			if k > 0 {
				ev("ESeal 0") // deferred Release
			}
			k++
			inBlock = false
			return
		}
		user(len(ref)) // the Writes of the registry and of the 16 header bytes
	}
	if err := frac.VerifC08WriteSealed(a, ws, params, poolSealingTime); err != nil {
		out.Err = "writeSealedFraction under pool pressure: " + err.Error()
		return
	}
	for len(held) > 0 {
		release(len(held) - 1)
	}
	if k != len(ref) {
		out.Err = fmt.Sprintf("WriteBlock called Seek(0, SeekCurrent) %d times for %d blocks", k, len(ref))
		return
	}

	// ---- read back through the real IndexReader
	payloads, errs, err := readBackAll(f)
	if err != nil {
		out.Detail = "index does not read back: " + err.Error()
		return
	}
	raw, _ := os.ReadFile(path)
	if entries, registry, e := parseIndex(raw); e == nil {
		out.RegistryOK = bytes.Equal(registry, poolRef.registry) && len(entries) == len(ref) && len(raw) == len(poolRef.file)
	}
	for i, p := range payloads {
		var h regEntry
		if i < len(ref) {
			h = ref[i]
		}
		switch {
		case i < len(ref) && errs[i] == "" && bytes.Equal(p, poolRef.payloads[i]) && h.codec == byte(disk.CodecZSTD):
			out.Impl = append(out.Impl, fmt.Sprintf("CZ %d", i))
		case i < len(ref) && errs[i] == "" && bytes.Equal(p, poolRef.payloads[i]):
			out.Impl = append(out.Impl, fmt.Sprintf("CRaw %d", i))
		default:
			out.Impl = append(out.Impl, "CPoison 0")
			if out.Detail == "" {
				if i < len(ref) && errs[i] != "" {
					out.Detail = fmt.Sprintf("block %d (raw %d bytes, stored %d) of the written index cannot be read: %s", i, h.rawLen, h.len, errs[i])
				} else {
					out.Detail = fmt.Sprintf("block %d of the written index differs from the payload handed to WriteBlock (%d bytes read, %d expected)", i, len(p), h.rawLen)
				}
			}
		}
	}

	// ---- publish: what Seal + Release do after writeSealedFraction
	if pr.Publish {
		if err := f.Sync(); err != nil {
			out.Err = err.Error()
			return
		}
		if err := os.Rename(path, a.BaseFileName+consts.IndexFileSuffix); err != nil {
			out.Err = err.Error()
			return
		}
		if d, err := os.Open(filepath.Dir(a.BaseFileName)); err == nil {
			d.Sync()
			d.Close()
		}
		os.Remove(a.BaseFileName + consts.MetaFileSuffix)
		if !a.Config.SkipSortDocs {
			os.Remove(a.BaseFileName + consts.DocsFileSuffix)
		}
		out.Published = true
	} else {
		os.Remove(path)
	}
	return
}

// ------------------------------------------------------------------ parent side

func coqBlocks(bs []poolBlock) string {
	s := make([]string, len(bs))
	for i, b := range bs {
		s[i] = fmt.Sprintf("mkPB %s %s", casefile.Bool(b.Compress), casefile.Bool(b.Stored))
	}
	return "[" + strings.Join(s, "; ") + "]"
}

var poolModes = []string{"none", "every", "classes", "some", "hold"}

// poolPressure: one child per corpus; every mode once, the last one published and restarted.
func (d *driver) poolPressure(r *rng.R, ci int, c *corpus) {
	dir := d.newDir()
	defer os.RemoveAll(dir)
	ch, err := storectl.Start("")
	if err != nil {
		d.harnessError("pool: start: %v", err)
		return
	}
	closed := false
	defer func() {
		if !closed {
			ch.Kill()
			ch.Close()
		}
	}()
	if _, e := ch.Call(storectl.Req{Op: "open", Dir: dir, SkipSortDocs: c.Skip}); e != nil {
		d.harnessError("pool: open: %v", e)
		return
	}
	for _, b := range c.bulkReqs() {
		if _, e := ch.Call(b); e != nil {
			d.harnessError("pool: bulk: %v", e)
			return
		}
	}
	in := map[string]any{"seed": d.seed, "tier": d.tier, "corpus_index": ci, "corpus": c.summary()}
	modes := append([]string{}, poolModes...)
	// which mode is published and restarted: the aggressive ones mostly
	pub := []string{"every", "classes", "every", "hold", "some"}[r.Intn(5)]
	// order: the published one last
	for i, m := range modes {
		if m == pub {
			modes = append(append(modes[:i:i], modes[i+1:]...), m)
			break
		}
	}
	var base string
	for _, m := range modes {
		pr := poolReq{Seed: r.U64(), Mode: m, Publish: m == pub}
		eb, _ := json.Marshal(pr)
		resp, e := ch.Call(storectl.Req{Op: "c08_pool", Extra: eb})
		fin := copyMap(in)
		fin["pool_user_mode"] = m
		fin["pool_user_seed"] = pr.Seed
		fin["how"] = "store child with GOMAXPROCS(1); writeSealedFraction against an io.WriteSeeker whose Seek (the call WriteBlock makes between compressing a block and writing it) and whose Write (on entry, before the bytes are taken) acquire bytespool buffers of the block's size classes, fill them with a poison pattern and release them; every block read back through disk.IndexReader"
		if e != nil {
			d.w.Violate("pool-pressure-died", fmt.Sprintf("the store child died while writing the index under pool pressure (mode %s): %s", m, fatalLine(e.Error())), fin)
			return
		}
		var out poolResp
		if err := json.Unmarshal(resp.Extra, &out); err != nil {
			d.harnessError("pool: response: %v", err)
			return
		}
		if out.Err != "" {
			d.w.Violate("pool-pressure-error", fmt.Sprintf("writing the index under pool pressure (mode %s) failed: %s", m, out.Err), fin)
			return
		}
		base = out.Base
		if !out.RegistryOK {
			d.w.Violate("pool-registry-differs", fmt.Sprintf("the registry / size of the index written under pool pressure (mode %s) differs from the one written without a pool user: %s", m, out.Detail), fin)
		}
		fin["blocks"] = out.Blocks
		fin["schedule_events"] = len(out.Sched)
		impl := map[string]any{"blocks_read_back": len(out.Impl), "pool_user_acquires": out.UserAcq, "pool_user_fills": out.UserFill,
			"pool_user_releases": out.UserRel, "detail": out.Detail}
		d.w.Add(fmt.Sprintf("CPool %s [%s] [%s]", coqBlocks(out.Blocks), strings.Join(out.Sched, "; "), strings.Join(out.Impl, "; ")),
			"pool-pressure/"+m, out.UserFill > 0, fin, impl)
		for _, cp := range out.Classes {
			d.w.Count(fmt.Sprintf("pool:user-buffer-cap=%d", cp))
		}
		if out.Published {
			// the child still holds the (now removed) active fraction: kill it, restart on the directory
			ch.Kill()
			ch.Close()
			closed = true
			obs, rc := restartCheck(dir, base, c, 1<<30)
			if rc != nil {
				rc.Close()
			}
			if obs.Kind == "" {
				d.harnessError("pool: restart: %s", obs.Detail)
				return
			}
			fin2 := copyMap(fin)
			fin2["published"] = "index written under pool pressure renamed to " + base + ".index, .meta" + map[bool]string{false: " and .docs", true: ""}[c.Skip] + " removed; fresh store started on the directory"
			d.w.Add(fmt.Sprintf("CPoolServe %s %s %s", casefile.Bool(c.Skip), obs.Kind, casefile.Bool(obs.Served)),
				"pool-pressure/restart", true, fin2, obs)
		}
	}
}
