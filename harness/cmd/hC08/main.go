// hC08 — correspondence driver for property C08 (sealing is all-or-nothing under crashes and
// I/O errors).  Four kinds of observations, all on the REAL code:
//
//	CTrace  a store child ingests a corpus and seals it (FracManager rotate + seal) under strace;
//	        the file operations on the sealed fraction's files are the case
//	CCrash  every crash state of that operation sequence (prefix, torn write, power loss) is
//	        rebuilt with harness/internal/crashfs, a fresh child is started on it, and every
//	        document is fetched and searched; a state that comes up as an active fraction may be
//	        sealed again under strace (leftovers of the first attempt present) and explored again
//	CFault  writeSealedFraction is run in-process against an io.WriteSeeker whose k-th Write
//	        fails, for every k
//	CLimit  the real fm.seal runs in a child under RLIMIT_FSIZE (real EFBIG from the kernel on
//	        ._sdocs / ._index): error -> logger.Fatal -> nothing published
//
// Round-5 extension (ext.go): CGenLIDs/CGenIDs/CGenTokens/CGenTable (the real block generators under
// push oracles), CFaultSet (arbitrary sets of failing writes), CShape, CSealT (one injected write(2)
// failure inside the real fm.seal on a corpus with full LID blocks).
//
// Round-6 extension (pool.go): CPool / CPoolServe (writeSealedFraction while a second user of the shared
// bytespool runs at the Seek and the Write entry of every block; read-back through disk.IndexReader;
// publish + restart).  HC08_ONLY=pool runs only these classes (mutation-testing aid).
//
// The cases are evaluated against props/C08/coq/{Model,ModelGen,ModelPool,CaseDefs}.v.
package main

import (
	"encoding/binary"
	"encoding/hex"
	"encoding/json"
	"errors"
	"flag"
	"fmt"
	"io"
	"os"
	"os/signal"
	"path/filepath"
	"runtime"
	"sort"
	"strconv"
	"strings"
	"sync"
	"syscall"

	"github.com/ozontech/seq-db/consts"
	"github.com/ozontech/seq-db/frac"
	"github.com/ozontech/seq-db/fracmanager"

	"verif/harness/internal/casefile"
	"verif/harness/internal/crashfs"
	"verif/harness/internal/fracbuild"
	"verif/harness/internal/rng"
	"verif/harness/internal/storectl"
)

// ------------------------------------------------------------------ corpora

type doc struct {
	MID    uint64   `json:"mid"`
	RID    uint64   `json:"rid"`
	Body   string   `json:"body"`
	Tokens []string `json:"tokens"`
}

// bigField: a field whose distinct token values add up to exactly Total bytes (the token block
// writer treats a field larger than consts.RegularBlockSize = 16 KiB specially: the pending block of
// smaller fields is flushed first). The field's place in the sort order is given by its name.
type bigField struct {
	Name  string `json:"name"`
	Total int    `json:"total_bytes"`
}

type corpus struct {
	Bigs  []bigField `json:"big_fields,omitempty"`
	Docs  []doc      `json:"-"`
	Bulks []int      `json:"bulks"` // documents per bulk
	Skip  bool       `json:"skip_sort_docs"`
	N     int        `json:"ndocs"`
}

func (c *corpus) summary() map[string]any {
	m := map[string]any{"ndocs": len(c.Docs), "bulks": c.Bulks, "skip_sort_docs": c.Skip}
	if len(c.Bigs) > 0 {
		m["big_fields"] = c.Bigs
	}
	if len(c.Docs) <= 12 && len(c.Bigs) == 0 {
		m["docs"] = c.Docs
	}
	return m
}

const letters = "abcdefghijklmnopqrstuvwxyz0123456789 "

func genCorpus(r *rng.R, n int, skip bool, bigs ...bigField) *corpus {
	c := &corpus{Skip: skip, N: n, Bigs: bigs}
	seen := map[[2]uint64]bool{}
	nvals := r.Range(1, 5)
	for len(c.Docs) < n {
		mid := uint64(1_000_000 + r.Intn(50_000))
		rid := uint64(r.Intn(1 << 30))
		if seen[[2]uint64{mid, rid}] {
			continue
		}
		seen[[2]uint64{mid, rid}] = true
		bl := r.Range(1, 120)
		if r.Chance(1, 12) {
			bl = r.Range(500, 4000)
		}
		var sb strings.Builder
		sb.WriteString(`{"m":"`)
		for i := 0; i < bl; i++ {
			sb.WriteByte(letters[r.Intn(len(letters))])
		}
		sb.WriteString(`"}`)
		d := doc{MID: mid, RID: rid, Body: sb.String()}
		d.Tokens = append(d.Tokens, fmt.Sprintf("k:v%d", r.Intn(nvals)))
		if r.Bool() {
			d.Tokens = append(d.Tokens, fmt.Sprintf("s:w%d", r.Intn(nvals)))
		}
		if r.Chance(1, 3) {
			d.Tokens = append(d.Tokens, fmt.Sprintf("t:u%d", r.Intn(2)))
		}
		c.Docs = append(c.Docs, d)
	}
	for _, b := range bigs {
		// distinct values "<6 digits>xxxx…": 50 bytes each, the last one takes the remainder
		var vals []string
		left := b.Total
		for i := 0; left > 0; i++ {
			l := 50
			if left < 100 {
				l = left
			}
			if l < 6 {
				l = 6 // cannot happen for the totals used (>= 100)
			}
			v := fmt.Sprintf("%06d", i) + strings.Repeat("x", l-6)
			vals = append(vals, v)
			left -= l
		}
		per := (len(vals) + n - 1) / n
		if per < 8 {
			per = 8
		}
		for i, v := range vals {
			di := (i / per) % n
			c.Docs[di].Tokens = append(c.Docs[di].Tokens, b.Name+":"+v)
		}
	}
	left := n
	for left > 0 {
		b := left
		if len(c.Bulks) < 3 && left > 1 && r.Bool() {
			b = r.Range(1, left)
		}
		c.Bulks = append(c.Bulks, b)
		left -= b
	}
	return c
}

func (c *corpus) bulkReqs() []storectl.Req {
	var out []storectl.Req
	i := 0
	for _, b := range c.Bulks {
		var ds []storectl.Doc
		for _, d := range c.Docs[i : i+b] {
			ds = append(ds, storectl.Doc{MID: d.MID, RID: d.RID, BodyHex: hex.EncodeToString([]byte(d.Body)), Tokens: d.Tokens})
		}
		out = append(out, storectl.Req{Op: "bulk", Docs: ds})
		i += b
	}
	return out
}

// queries: token -> expected IDs
func (c *corpus) queries(max int) (toks []string, want map[string][][2]uint64) {
	want = map[string][][2]uint64{}
	for _, d := range c.Docs {
		for _, t := range d.Tokens {
			want[t] = append(want[t], [2]uint64{d.MID, d.RID})
		}
	}
	for t := range want {
		toks = append(toks, t)
	}
	sort.Strings(toks)
	if len(toks) > max {
		// keep a spread: first of each field, then the rest in order
		toks = toks[:max]
	}
	for _, t := range toks {
		sortIDs(want[t])
	}
	return toks, want
}

func sortIDs(x [][2]uint64) {
	sort.Slice(x, func(i, j int) bool {
		if x[i][0] != x[j][0] {
			return x[i][0] < x[j][0]
		}
		return x[i][1] < x[j][1]
	})
}

// ------------------------------------------------------------------ child operations

type limitReq struct {
	Limit uint64 `json:"limit"`
}

func init() {
	// rotate + fm.seal with the sealing goroutine locked to its OS thread (strace counts injected
	// faults per thread)
	storectl.Register("c08_seal_locked", func(c *storectl.Child, r storectl.Req) (storectl.Resp, error) {
		runtime.LockOSThread()
		defer runtime.UnlockOSThread()
		fracbuild.Seal(c.FM)
		return storectl.Resp{}, nil
	})
	storectl.Register("c08_kinds", func(c *storectl.Child, r storectl.Req) (storectl.Resp, error) {
		b, _ := json.Marshal(c.FM.VerifC08Kinds())
		return storectl.Resp{Extra: b}, nil
	})
	// the real rotate + fm.seal with a kernel-enforced file size limit: a write that would grow a
	// file beyond the limit is cut at the limit and the next one fails with EFBIG
	storectl.Register("c08_seal_limit", func(c *storectl.Child, r storectl.Req) (storectl.Resp, error) {
		var lr limitReq
		if err := json.Unmarshal(r.Extra, &lr); err != nil {
			return storectl.Resp{}, err
		}
		signal.Ignore(syscall.SIGXFSZ)
		var old syscall.Rlimit
		if err := syscall.Getrlimit(syscall.RLIMIT_FSIZE, &old); err != nil {
			return storectl.Resp{}, err
		}
		if err := syscall.Setrlimit(syscall.RLIMIT_FSIZE, &syscall.Rlimit{Cur: lr.Limit, Max: old.Max}); err != nil {
			return storectl.Resp{}, err
		}
		fracbuild.Seal(c.FM)
		syscall.Setrlimit(syscall.RLIMIT_FSIZE, &old)
		b, _ := json.Marshal(c.FM.VerifC08Kinds())
		return storectl.Resp{Extra: b}, nil
	})
}

// ------------------------------------------------------------------ model terms

var fnames = []string{"Docs", "Meta", "SdocsTmp", "Sdocs", "IndexTmp", "Index"}
var suffixes = []string{".docs", ".meta", "._sdocs", ".sdocs", "._index", ".index"}

func fnameOf(base, path string) (string, bool) {
	if !strings.HasPrefix(path, base) {
		return "", false
	}
	suf := path[len(base):]
	for i, s := range suffixes {
		if s == suf {
			return fnames[i], true
		}
	}
	return "", false
}

type mop struct {
	Kind string `json:"k"`
	F    string `json:"f,omitempty"`
	G    string `json:"g,omitempty"`
	Off  int64  `json:"off,omitempty"`
	Len  int64  `json:"len,omitempty"`
}

func (o mop) coq() string {
	switch o.Kind {
	case "create":
		return "OCreate " + o.F
	case "write":
		return fmt.Sprintf("OWrite %s %d%%N %d%%N", o.F, o.Off, o.Len)
	case "fsync":
		return "OFsync " + o.F
	case "rename":
		return "ORename " + o.F + " " + o.G
	case "fsyncdir":
		return "OFsyncDir"
	case "unlink":
		return "OUnlink " + o.F
	}
	return "OOther"
}

func (o mop) String() string {
	switch o.Kind {
	case "write":
		return fmt.Sprintf("write %s off=%d len=%d", o.F, o.Off, o.Len)
	case "rename":
		return "rename " + o.F + "->" + o.G
	}
	return o.Kind + " " + o.F
}

func opsCoq(ops []mop) string {
	parts := make([]string, len(ops))
	for i, o := range ops {
		parts[i] = o.coq()
	}
	return "[" + strings.Join(parts, "; ") + "]"
}

type section struct {
	Kind  string  `json:"kind"`
	Sizes []int64 `json:"sizes"`
}

type plan struct {
	Skip bool      `json:"skip"`
	Sd   []int64   `json:"sdocs_writes"`
	Secs []section `json:"index_sections"`
	Reg  int64     `json:"registry"`
}

func (p plan) coq() string {
	secs := make([]string, len(p.Secs))
	for i, s := range p.Secs {
		secs[i] = fmt.Sprintf("(%s, %s)", s.Kind, casefile.NList(s.Sizes))
	}
	return fmt.Sprintf("(mkPlan %s %s [%s] %d%%N)", casefile.Bool(p.Skip), casefile.NList(p.Sd), strings.Join(secs, "; "), p.Reg)
}

func (p plan) indexWrites() int {
	n := 2
	for _, s := range p.Secs {
		n += len(s.Sizes)
	}
	return n
}

func (p plan) fullIndex() int64 {
	n := int64(16) + p.Reg
	for _, s := range p.Secs {
		for _, x := range s.Sizes {
			n += x
		}
	}
	return n
}

func (p plan) fullSdocs() int64 {
	var n int64
	for _, x := range p.Sd {
		n += x
	}
	return n
}

type fsz struct {
	F string
	N int64
}

func fszCoq(l []fsz) string {
	parts := make([]string, len(l))
	for i, x := range l {
		parts[i] = fmt.Sprintf("(%s, %d%%N)", x.F, x.N)
	}
	return "[" + strings.Join(parts, "; ") + "]"
}

func fszJSON(l []fsz) map[string]int64 {
	m := map[string]int64{}
	for _, x := range l {
		m[x.F] = x.N
	}
	return m
}

type iwrite struct {
	Off, Len int64
	Data     []byte
}

// planFromWrites derives the plan's index part from the writes of a complete fault-free index
// (blocks from offset 16, registry at the end, 16 header bytes at offset 0). The registry holds
// one 33-byte header per block and an all-zero header after the tokens, token table, IDs and LIDs
// sections.
func planFromWrites(ws []iwrite) ([]section, int64, error) {
	if len(ws) < 3 {
		return nil, 0, fmt.Errorf("only %d index writes", len(ws))
	}
	hdr, reg, blocks := ws[len(ws)-1], ws[len(ws)-2], ws[:len(ws)-2]
	if hdr.Off != 0 || hdr.Len != 16 {
		return nil, 0, fmt.Errorf("last index write is not the 16-byte header: off=%d len=%d", hdr.Off, hdr.Len)
	}
	if int64(binary.LittleEndian.Uint64(hdr.Data[0:8])) != reg.Off || int64(binary.LittleEndian.Uint64(hdr.Data[8:16])) != reg.Len {
		return nil, 0, fmt.Errorf("header does not point at the registry write")
	}
	if reg.Len%33 != 0 {
		return nil, 0, fmt.Errorf("registry length %d", reg.Len)
	}
	var groups [][]int64
	cur := []int64{}
	bi := 0
	for i := 0; i < int(reg.Len)/33; i++ {
		e := reg.Data[i*33 : (i+1)*33]
		zero := true
		for _, b := range e {
			if b != 0 {
				zero = false
			}
		}
		if zero {
			groups = append(groups, cur)
			cur = []int64{}
			continue
		}
		l := int64(binary.LittleEndian.Uint32(e[1:5]))
		pos := int64(binary.LittleEndian.Uint64(e[25:33]))
		if bi >= len(blocks) || blocks[bi].Off != pos || blocks[bi].Len != l {
			return nil, 0, fmt.Errorf("registry entry %d (pos=%d len=%d) does not match block write %d", i, pos, l, bi)
		}
		cur = append(cur, l)
		bi++
	}
	if bi != len(blocks) || len(cur) != 0 || len(groups) != 4 || len(groups[0]) < 1 || len(groups[2]) < 1 {
		return nil, 0, fmt.Errorf("registry shape: %d blocks of %d, %d groups", bi, len(blocks), len(groups))
	}
	secs := []section{
		{"KInfo", groups[0][:1]}, {"KTokens", groups[0][1:]}, {"KTokenTable", groups[1]},
		{"KPositions", groups[2][:1]}, {"KIDs", groups[2][1:]}, {"KLIDs", groups[3]},
	}
	return secs, reg.Len, nil
}

// ------------------------------------------------------------------ traced seal

type sealTrace struct {
	tr    *crashfs.Trace
	base  string // file name prefix of the sealed fraction (without suffix)
	start int    // index in tr.Ops of the first operation of the seal
	ops   []mop  // projected operations on the fraction's files
	real  []int  // ops[i] = tr.Ops[real[i]]
	init  []fsz
	plan  plan
	ok    bool // the seal was acknowledged
}

// project maps the operations from `start` on to model operations on the files of `base`.
func project(tr *crashfs.Trace, base string, start int) (ops []mop, real []int) {
	for i := start; i < len(tr.Ops); i++ {
		o := tr.Ops[i]
		var m mop
		switch o.Kind {
		case crashfs.Mark, crashfs.Mkdir:
			continue
		case crashfs.FsyncDir:
			m = mop{Kind: "fsyncdir"}
		case crashfs.Rename:
			f, ok1 := fnameOf(base, o.Path)
			g, ok2 := fnameOf(base, o.Path2)
			if !ok1 && !ok2 && !strings.HasPrefix(o.Path, base) && !strings.HasPrefix(o.Path2, base) {
				continue
			}
			if !ok1 || !ok2 {
				m = mop{Kind: "other", F: o.Path + "->" + o.Path2}
			} else {
				m = mop{Kind: "rename", F: f, G: g}
			}
		default:
			f, ok := fnameOf(base, o.Path)
			if !ok {
				if strings.HasPrefix(o.Path, base) {
					m = mop{Kind: "other", F: o.String()}
					break
				}
				continue // another fraction's file
			}
			switch o.Kind {
			case crashfs.Create:
				m = mop{Kind: "create", F: f}
			case crashfs.Write:
				m = mop{Kind: "write", F: f, Off: o.Off, Len: int64(len(o.Data))}
			case crashfs.Fsync:
				m = mop{Kind: "fsync", F: f}
			case crashfs.Unlink:
				m = mop{Kind: "unlink", F: f}
			default:
				m = mop{Kind: "other", F: o.String()}
			}
		}
		ops = append(ops, m)
		real = append(real, i)
	}
	return
}

func sizesOf(st *crashfs.State, base string) []fsz {
	files := st.Files()
	var out []fsz
	for i, s := range suffixes {
		if b, ok := files[base+s]; ok {
			out = append(out, fsz{fnames[i], int64(len(b))})
		}
	}
	return out
}

// findSeal locates the seal in a trace: the first create of a ._index / ._sdocs file.
func findSeal(tr *crashfs.Trace) (base string, start int, ok bool) {
	for i, o := range tr.Ops {
		if o.Kind == crashfs.Create && (strings.HasSuffix(o.Path, "._index") || strings.HasSuffix(o.Path, "._sdocs")) {
			return o.Path[:len(o.Path)-len("._index")], i, true
		}
	}
	return "", 0, false
}

type harnessErr struct{ msg string }

func (e harnessErr) Error() string { return e.msg }

// tracedSeal runs a child under strace on dir: open, the bulks (if any), one seal request.
// sealReq is the request that seals ("seal" or "c08_seal_limit").
func tracedSeal(dir string, c *corpus, ingest bool, sealReq storectl.Req) (st *sealTrace, callErr error, err error) {
	ch, err := storectl.Start(dir)
	if err != nil {
		return nil, nil, err
	}
	fail := func(e error) (*sealTrace, error, error) {
		ch.Kill()
		ch.Close()
		return nil, nil, e
	}
	if _, e := ch.Call(storectl.Req{Op: "open", Dir: dir, SkipSortDocs: c.Skip}); e != nil {
		return fail(fmt.Errorf("open in traced child: %w", e))
	}
	if ingest {
		for _, b := range c.bulkReqs() {
			if _, e := ch.Call(b); e != nil {
				return fail(fmt.Errorf("bulk in traced child: %w", e))
			}
		}
	}
	_, callErr = ch.Call(sealReq)
	tr, e := ch.Close()
	if e != nil {
		return nil, callErr, fmt.Errorf("trace: %w", e)
	}
	if e := tr.Verify(); e != nil {
		return nil, callErr, fmt.Errorf("trace verify: %w", e)
	}
	s := &sealTrace{tr: tr, ok: callErr == nil}
	var ok bool
	s.base, s.start, ok = findSeal(tr)
	if !ok {
		return nil, callErr, harnessErr{"no seal found in the trace"}
	}
	s.ops, s.real = project(tr, s.base, s.start)
	s.init = sizesOf(tr.StateAt(s.start), s.base)
	return s, callErr, nil
}

// makePlan fills s.plan from the (complete, fault-free) operations.
func (s *sealTrace) makePlan(skip bool) error {
	p := plan{Skip: skip, Sd: []int64{}}
	var iw []iwrite
	for i, o := range s.ops {
		if o.Kind != "write" {
			continue
		}
		switch o.F {
		case "SdocsTmp":
			p.Sd = append(p.Sd, o.Len)
		case "IndexTmp":
			iw = append(iw, iwrite{o.Off, o.Len, s.tr.Ops[s.real[i]].Data})
		}
	}
	secs, reg, err := planFromWrites(iw)
	if err != nil {
		return err
	}
	p.Secs, p.Reg = secs, reg
	s.plan = p
	return nil
}

// ------------------------------------------------------------------ restart on a directory

type restartObs struct {
	Kind   string   `json:"kind"` // LActive LSealed LFatal LSkipped
	After  []string `json:"files_after"`
	Served bool     `json:"served"`
	Detail string   `json:"detail,omitempty"`
}

// fatalLine extracts the fatal / panic message of a dead child from its stderr tail.
func fatalLine(e string) string {
	lines := strings.Split(e, "\n")
	for i := len(lines) - 1; i >= 0; i-- {
		l := lines[i]
		if strings.Contains(l, `"level":"fatal"`) || strings.Contains(l, `"level":"panic"`) || strings.HasPrefix(l, "panic:") {
			if j := strings.Index(l, `"message"`); j >= 0 {
				l = l[j:]
			}
			return trimHead(l, 300)
		}
	}
	return trim(e, 300)
}

func trimHead(s string, n int) string {
	if len(s) > n {
		return s[:n]
	}
	return s
}

// restartCheck starts a fresh child on dir and reads every document back.
func restartCheck(dir, base string, c *corpus, maxQueries int) (obs restartObs, child *storectl.Store) {
	ch, err := storectl.Start("")
	if err != nil {
		ch, err = storectl.Start("")
	}
	if err != nil {
		// machinery trouble, not an observation: Kind stays empty, the caller reports a harness error
		return restartObs{Detail: "start: " + err.Error()}, nil
	}
	listAfter := func() []string {
		var out []string
		for i, s := range suffixes {
			if _, e := os.Stat(filepath.Join(dir, base+s)); e == nil {
				out = append(out, fnames[i])
			}
		}
		return out
	}
	if _, err := ch.Call(storectl.Req{Op: "open", Dir: dir, SkipSortDocs: c.Skip}); err != nil {
		ch.Close()
		d := fatalLine(err.Error())
		return restartObs{Kind: "LFatal", After: listAfter(), Detail: "open failed: " + d}, nil
	}
	obs.Kind = "LSkipped"
	r, err := ch.Call(storectl.Req{Op: "c08_kinds"})
	if err != nil {
		ch.Close()
		return restartObs{Kind: "LFatal", After: listAfter(), Detail: "kinds: " + err.Error()}, nil
	}
	var kinds []fracmanager.VerifC08Kind
	json.Unmarshal(r.Extra, &kinds)
	for _, k := range kinds {
		if k.Name == base {
			if k.Sealed {
				obs.Kind = "LSealed"
			} else {
				obs.Kind = "LActive"
			}
		}
	}
	obs.After = listAfter()
	obs.Served = true
	bad := func(f string, a ...any) {
		if obs.Served {
			obs.Served = false
			obs.Detail = fmt.Sprintf(f, a...)
		}
	}
	// fetch
	ids := make([][2]uint64, len(c.Docs))
	for i, d := range c.Docs {
		ids[i] = [2]uint64{d.MID, d.RID}
	}
	fr, err := ch.Call(storectl.Req{Op: "fetch", IDs: ids})
	if err != nil {
		bad("fetch: %.300s", err.Error())
	} else if len(fr.DocsHex) != len(ids) {
		bad("fetch returned %d entries for %d ids", len(fr.DocsHex), len(ids))
	} else {
		for i, h := range fr.DocsHex {
			b, _ := hex.DecodeString(h)
			if string(b) != c.Docs[i].Body {
				bad("fetch of (%d,%d): got %d bytes %.40q, want %d bytes", ids[i][0], ids[i][1], len(b), b, len(c.Docs[i].Body))
				break
			}
		}
	}
	// search
	if obs.Served {
		toks, want := c.queries(maxQueries)
		for _, t := range toks {
			field := t[:strings.IndexByte(t, ':')]
			sr, err := ch.Call(storectl.Req{Op: "search", Text: t, Fields: []string{field}, From: 0, To: 1 << 40,
				Limit: len(c.Docs) + 10, WithTotal: true})
			if err != nil {
				bad("search %s: %.300s", t, err.Error())
				break
			}
			got := append([][2]uint64{}, sr.IDs...)
			sortIDs(got)
			if fmt.Sprint(got) != fmt.Sprint(want[t]) {
				bad("search %s: %d ids, want %d", t, len(got), len(want[t]))
				break
			}
		}
	}
	return obs, ch
}

// ------------------------------------------------------------------ crash states

type crashSpec struct {
	J    int              `json:"j"`
	N    int64            `json:"torn"`
	Keep map[string]int64 `json:"keep,omitempty"`
	keep []fsz
}

func (s *sealTrace) stateOf(cs crashSpec) *crashfs.State {
	k := len(s.tr.Ops)
	if cs.J < len(s.ops) {
		k = s.real[cs.J]
	}
	st := s.tr.StateAt(k)
	if cs.N > 0 && cs.J < len(s.ops) && s.ops[cs.J].Kind == "write" && cs.N < s.ops[cs.J].Len {
		st.ApplyTorn(s.tr.Ops[k], int(cs.N))
	}
	if len(cs.keep) > 0 {
		st.PowerLoss(func(path string, synced, length int) int {
			if f, ok := fnameOf(s.base, path); ok {
				for _, x := range cs.keep {
					if x.F == f {
						return int(x.N)
					}
				}
			}
			return length
		})
	}
	return st
}

var sealFiles = []string{"SdocsTmp", "Sdocs", "IndexTmp", "Index"}

// crashSpecs enumerates the crash states of one traced seal.
func (s *sealTrace) crashSpecs(r *rng.R, tier string, cycle int) []crashSpec {
	var out []crashSpec
	P := len(s.ops)
	every := 1
	if cycle > 0 && tier == "quick" {
		every = 2
	}
	off := r.Intn(every)
	for j := 0; j <= P; j++ {
		if (j+off)%every == 0 || j >= P-6 {
			out = append(out, crashSpec{J: j})
		}
		if j < P && s.ops[j].Kind == "write" && s.ops[j].Len > 1 {
			l := s.ops[j].Len
			cands := []int64{1, l / 2, l - 1}
			if tier == "quick" || cycle > 0 {
				cands = []int64{cands[r.Intn(3)]}
				if s.ops[j].F == "IndexTmp" && cycle > 0 && !r.Chance(1, 3) {
					cands = nil
				}
			}
			seen := map[int64]bool{}
			for _, n := range cands {
				if n > 0 && n < l && !seen[n] {
					seen[n] = true
					out = append(out, crashSpec{J: j, N: n})
				}
			}
		}
		// power loss: interesting when a published file (or a file about to be) is not durable
		st := s.stateOf(crashSpec{J: j})
		files := map[string]*crashfs.File{}
		for name, ino := range st.Names {
			if f, ok := fnameOf(s.base, name); ok {
				files[f] = st.Inodes[ino]
			}
		}
		exposed, any := false, false
		for _, f := range sealFiles {
			if x := files[f]; x != nil && x.Synced < len(x.Data) {
				any = true
				if f == "Sdocs" || f == "Index" {
					exposed = true
				}
			}
		}
		if exposed || (any && r.Chance(1, 5)) {
			min := crashSpec{J: j}
			mid := crashSpec{J: j}
			for _, f := range sealFiles {
				if x := files[f]; x != nil && x.Synced < len(x.Data) {
					min.keep = append(min.keep, fsz{f, 0})
					mid.keep = append(mid.keep, fsz{f, int64(r.Range(x.Synced, len(x.Data)))})
				}
			}
			out = append(out, min)
			if exposed || tier != "quick" {
				out = append(out, mid)
			}
		}
	}
	for i := range out {
		if len(out[i].keep) > 0 {
			out[i].Keep = fszJSON(out[i].keep)
		}
	}
	return out
}

// ------------------------------------------------------------------ driver

type driver struct {
	w       *casefile.Writer
	tier    string
	seed    uint64
	tmp     string
	mu      sync.Mutex
	dirN    int
	workers int
	maxQ    int
	herr    []string
}

func (d *driver) newDir() string {
	d.mu.Lock()
	d.dirN++
	n := d.dirN
	d.mu.Unlock()
	p := filepath.Join(d.tmp, fmt.Sprintf("d%05d", n))
	os.MkdirAll(p, 0o755)
	return p
}

func (d *driver) harnessError(f string, a ...any) {
	d.mu.Lock()
	d.herr = append(d.herr, fmt.Sprintf(f, a...))
	d.mu.Unlock()
}

type crashResult struct {
	spec   crashSpec
	before []fsz
	obs    restartObs
	dir    string // kept (with a running child closed) when the state is to be sealed again
}

// exploreSeal: one traced seal on dir (fresh ingest when ingest is set), its CTrace case, its
// crash states, and (cycle 0) a second seal attempt on some states that came up active.
func (d *driver) exploreSeal(r *rng.R, ci int, c *corpus, dir string, ingest bool, cycle int, parent any) {
	s, callErr, err := tracedSeal(dir, c, ingest, storectl.Req{Op: "seal"})
	for try := 0; err != nil && callErr == nil && ingest && try < 2; try++ {
		// machinery trouble (strace log not understood, child could not be started): fresh directory, again
		os.RemoveAll(dir)
		dir = d.newDir()
		s, callErr, err = tracedSeal(dir, c, ingest, storectl.Req{Op: "seal"})
	}
	if err != nil {
		var he harnessErr
		if errors.As(err, &he) && callErr != nil {
			d.w.Violate("seal-child-died", "the store child died while sealing a fraction (fault-free run): "+fatalLine(callErr.Error()),
				map[string]any{"corpus": c.summary(), "cycle": cycle, "parent": parent})
			return
		}
		if cycle > 0 {
			d.w.Count("skipped:second-seal-machinery-error")
			fmt.Fprintf(os.Stderr, "second seal skipped (corpus %d): %v (call: %v)\n", ci, err, callErr)
			return
		}
		d.harnessError("traced seal (corpus %d cycle %d): %v (call: %v)", ci, cycle, err, callErr)
		return
	}
	defer os.RemoveAll(dir)
	in := map[string]any{"seed": d.seed, "tier": d.tier, "corpus_index": ci, "corpus": c.summary(), "cycle": cycle}
	if parent != nil {
		in["sealed_again_after_crash"] = parent
	}
	if !s.ok {
		d.w.Violate("seal-failed", "fault-free seal was not acknowledged: "+trim(callErr.Error(), 400), in)
		return
	}
	if err := s.makePlan(c.Skip); err != nil {
		// the fault-free index does not have the documented shape: report the log itself
		in["ops"] = opStrings(s.ops)
		d.w.Violate("index-shape", "fault-free seal wrote an index whose writes/registry do not have the expected shape: "+err.Error(), in)
		return
	}
	tin := copyMap(in)
	tin["ops"] = opStrings(s.ops)
	tin["init"] = fszJSON(s.init)
	d.w.Add(fmt.Sprintf("CTrace %s %s %s", s.plan.coq(), opsCoq(s.ops), casefile.Bool(s.ok)),
		fmt.Sprintf("trace/skip=%v/cycle=%d", c.Skip, cycle), len(s.ops) >= 10, tin, map[string]any{"acknowledged": s.ok})
	d.w.Count(fmt.Sprintf("index_writes:%d", bucket(s.plan.indexWrites())))

	specs := s.crashSpecs(r, d.tier, cycle)
	res := make([]crashResult, len(specs))
	againBudget := 0
	if cycle == 0 {
		againBudget = 3
		if d.tier != "quick" {
			againBudget = 5
		}
	}
	// which states are sealed again: chosen up front (deterministic), used if they come up active
	again := map[int]bool{}
	if againBudget > 0 {
		cand := []int{}
		for i, sp := range specs {
			if sp.J > 0 {
				cand = append(cand, i)
			}
		}
		rng.Shuffle(r, cand)
		for _, i := range cand {
			if len(again) < againBudget*3 {
				again[i] = true
			}
		}
	}
	var wg sync.WaitGroup
	sem := make(chan struct{}, d.workers)
	for i := range specs {
		wg.Add(1)
		sem <- struct{}{}
		go func(i int) {
			defer wg.Done()
			defer func() { <-sem }()
			sp := specs[i]
			st := s.stateOf(sp)
			cd := d.newDir()
			if err := st.Materialize(cd); err != nil {
				d.harnessError("materialize: %v", err)
				return
			}
			obs, ch := restartCheck(cd, s.base, c, d.maxQ)
			if ch != nil {
				ch.Close()
			}
			if obs.Kind == "" {
				d.harnessError("restart child: %s", obs.Detail)
				os.RemoveAll(cd)
				return
			}
			res[i] = crashResult{spec: sp, before: sizesOf(st, s.base), obs: obs}
			if again[i] && obs.Kind == "LActive" && obs.Served {
				res[i].dir = cd
			} else {
				os.RemoveAll(cd)
			}
		}(i)
	}
	wg.Wait()
	done := 0
	for i, cr := range res {
		if cr.obs.Kind == "" {
			continue
		}
		cin := copyMap(in)
		cin["crash"] = cr.spec
		if cr.spec.J < len(s.ops) {
			cin["crash_before_op"] = s.ops[cr.spec.J].String()
		} else {
			cin["crash_before_op"] = "(after the last operation)"
		}
		cin["files_before_restart"] = fszJSON(cr.before)
		cin["init"] = fszJSON(s.init)
		class := "crash/" + crashClass(s, cr.spec)
		if !cr.obs.Served {
			cin["ops"] = opStrings(s.ops)
		}
		d.w.Add(fmt.Sprintf("CCrash %s %s %d %d%%N %s %s %s [%s] %s", s.plan.coq(), fszCoq(s.init), cr.spec.J, cr.spec.N,
			fszCoq(cr.spec.keep), fszCoq(cr.before), cr.obs.Kind, strings.Join(cr.obs.After, "; "), casefile.Bool(cr.obs.Served)),
			class, cr.spec.J > 0, cin, cr.obs)
		d.w.Count("restart:" + cr.obs.Kind)
		if cr.dir != "" {
			if done < againBudget {
				done++
				d.exploreSeal(r.Fork(), ci, c, cr.dir, false, cycle+1, map[string]any{"crash": specs[i], "files": fszJSON(cr.before)})
			}
			os.RemoveAll(cr.dir)
		}
	}
}

func crashClass(s *sealTrace, sp crashSpec) string {
	switch {
	case len(sp.keep) > 0:
		what := "tmp"
		for _, k := range sp.keep {
			if k.F == "Sdocs" && what == "tmp" {
				what = "Sdocs"
			}
			if k.F == "Index" {
				what = "Index"
			}
		}
		return "power-loss-" + what
	case sp.N > 0:
		return "torn-" + s.ops[sp.J].F
	case sp.J >= len(s.ops):
		return "end"
	}
	o := s.ops[sp.J]
	return "before-" + o.Kind + "-" + o.F
}

func bucket(n int) int {
	switch {
	case n < 14:
		return n
	case n < 40:
		return n / 5 * 5
	}
	return n / 50 * 50
}

func trim(s string, n int) string {
	if len(s) > n {
		return s[len(s)-n:]
	}
	return s
}

func copyMap(m map[string]any) map[string]any {
	o := map[string]any{}
	for k, v := range m {
		o[k] = v
	}
	return o
}

func opStrings(ops []mop) []string {
	out := make([]string, len(ops))
	for i, o := range ops {
		out[i] = o.String()
	}
	return out
}

// ------------------------------------------------------------------ write faults (in-process)

// faultWS is an in-memory io.WriteSeeker whose k-th Write stores only n bytes and fails.
type faultWS struct {
	buf     []byte
	pos     int64
	calls   int
	k       int
	n       int64
	persist bool // every write from the k-th on fails (otherwise only the k-th: a transient fault)
	writes  []iwrite
}

var errInjected = errors.New("injected write error")

func (f *faultWS) Seek(off int64, whence int) (int64, error) {
	switch whence {
	case io.SeekStart:
		f.pos = off
	case io.SeekCurrent:
		f.pos += off
	case io.SeekEnd:
		f.pos = int64(len(f.buf)) + off
	}
	return f.pos, nil
}

func (f *faultWS) put(p []byte) {
	end := f.pos + int64(len(p))
	if end > int64(len(f.buf)) {
		f.buf = append(f.buf, make([]byte, end-int64(len(f.buf)))...)
	}
	copy(f.buf[f.pos:], p)
	if len(p) > 0 {
		f.writes = append(f.writes, iwrite{f.pos, int64(len(p)), append([]byte{}, p...)})
	}
	f.pos = end
}

func (f *faultWS) Write(p []byte) (int, error) {
	f.calls++
	if f.calls == f.k {
		n := f.n
		if n > int64(len(p)) {
			n = int64(len(p))
		}
		f.put(p[:n])
		return int(n), errInjected
	}
	if f.persist && f.k > 0 && f.calls > f.k {
		return 0, errInjected
	}
	f.put(p)
	return len(p), nil
}

func (d *driver) faults(r *rng.R, ci int, c *corpus) {
	dir := d.newDir()
	defer os.RemoveAll(dir)
	fm, err := fracbuild.NewFM(dir, func(cfg *fracmanager.Config) { cfg.Fraction.SkipSortDocs = c.Skip })
	if err != nil {
		d.harnessError("faults: NewFM: %v", err)
		return
	}
	i := 0
	for _, b := range c.Bulks {
		var ds []fracbuild.Doc
		for _, x := range c.Docs[i : i+b] {
			ds = append(ds, fracbuild.Doc{MID: x.MID, RID: x.RID, Body: []byte(x.Body), Tokens: x.Tokens})
		}
		if err := fracbuild.Append(fm, ds); err != nil {
			d.harnessError("faults: append: %v", err)
			return
		}
		i += b
	}
	a := fm.VerifC08Active()
	params := fm.VerifC08SealParams()
	in := map[string]any{"seed": d.seed, "tier": d.tier, "corpus_index": ci, "corpus": c.summary()}
	runOne := func(k int, n int64, persist bool) (ws *faultWS, err error, panicked any) {
		ws = &faultWS{k: k, n: n, persist: persist}
		defer func() {
			if p := recover(); p != nil {
				panicked = p
			}
		}()
		ws.Seek(16, io.SeekStart)
		err = frac.VerifC08WriteSealed(a, ws, params, 1_700_000_000_000)
		return
	}
	ws0, err0, pan := runOne(0, 0, false)
	if pan != nil || err0 != nil {
		d.w.Violate("write-sealed-failed", fmt.Sprintf("writeSealedFraction without a fault failed: err=%v panic=%v", err0, pan), in)
		return
	}
	secs, reg, perr := planFromWrites(ws0.writes)
	if perr != nil {
		d.w.Violate("index-shape", "writeSealedFraction wrote an index whose writes/registry do not have the expected shape: "+perr.Error(), in)
		return
	}
	p := plan{Skip: c.Skip, Sd: []int64{}, Secs: secs, Reg: reg}
	total := p.indexWrites()
	// which section does write k belong to
	secOf := func(k int) string {
		n := 0
		for _, s := range p.Secs {
			n += len(s.Sizes)
			if k <= n {
				return s.Kind
			}
		}
		if k == n+1 {
			return "registry"
		}
		if k == n+2 {
			return "header"
		}
		return "none"
	}
	ks := []int{}
	for k := 1; k <= total+1; k++ {
		ks = append(ks, k)
	}
	if total > 400 {
		// huge index: a sample (never reached by the corpora of either tier; a safety valve)
		ks = ks[:0]
		for k := 1; k <= total+1; k++ {
			if k > total-40 || r.Chance(400, total) {
				ks = append(ks, k)
			}
		}
	}
	// Fault modes: transient = ONLY write k fails, every later write succeeds (a swallowed error is
	// then invisible to the code unless it is propagated at once); persistent = write k and every
	// later one fail. The failing write stores nothing, or a part (possibly all) of its bytes.
	type kn struct {
		k       int
		n       int64
		persist bool
	}
	var kns []kn
	for _, k := range ks {
		kns = append(kns, kn{k, 0, false})
		if k <= total {
			l := ws0.writes[min(k, len(ws0.writes))-1].Len
			kns = append(kns, kn{k, int64(1 + r.Intn(int(l))), false})
			kns = append(kns, kn{k, 0, true})
		}
	}
	for _, x := range kns {
		k, n := x.k, x.n
		ws, err, pan := runOne(k, n, x.persist)
		fin := copyMap(in)
		fin["failing_write_k"] = k
		fin["fault_mode"] = map[bool]string{false: "transient: only write k fails", true: "persistent: write k and all later writes fail"}[x.persist]
		fin["bytes_written_by_failing_write"] = n
		fin["section"] = secOf(k)
		fin["total_index_writes"] = total
		if pan != nil {
			d.w.Violate("write-sealed-panic", fmt.Sprintf("writeSealedFraction panicked when write %d failed: %v", k, pan), fin)
			continue
		}
		wl := make([]string, len(ws.writes))
		for i, x := range ws.writes {
			wl[i] = fmt.Sprintf("(%d, %d)%%N", x.Off, x.Len)
		}
		d.w.Add(fmt.Sprintf("CFault %s %d %d%%N %s [%s]", p.coq(), k, n, casefile.Bool(err != nil), strings.Join(wl, "; ")),
			map[bool]string{false: "fault/", true: "fault-persistent/"}[x.persist]+secOf(k), k <= total, fin, map[string]any{"error": fmt.Sprint(err), "writes_done": len(ws.writes)})
	}
	// arbitrary sets of failing writes (several transient ones, transient + persistent)
	nsets := 8
	if d.tier != "quick" {
		nsets = 20
	}
	for _, s := range randomSets(r, total, nsets, func(k int) int64 { return ws0.writes[k-1].Len }) {
		d.runFaultSet(a, params, p, secOf, s, "faultset", in)
	}
	sh := shapeOf(c)
	d.w.Add(fmt.Sprintf("CShape %s %d%%N %s %d%%N %d%%N", p.coq(), consts.LIDBlockCap, lidFieldsCoq(sh), consts.IDsBlockSize, len(c.Docs)+1),
		"shape/corpus", true, in, map[string]any{"index_sections": p.Secs})
	// the block generators under push oracles: small capacities so that the "block is full" sites
	// are taken on small corpora too, plus the real ones
	if len(c.Docs) <= 400 || d.tier != "quick" {
		ncaps, maxSingles := 3, 24
		if d.tier != "quick" {
			ncaps, maxSingles = 5, 40
		}
		caps := append(capsFor(r, sh, ncaps), int64(consts.LIDBlockCap))
		sizes := append(idSizesFor(r, int64(len(c.Docs)+1), ncaps), int64(consts.IDsBlockSize))
		d.generators(r.Fork(), c, a, params, in, caps, sizes, maxSingles)
	} else {
		d.generators(r.Fork(), c, a, params, in, []int64{int64(consts.LIDBlockCap)}, []int64{int64(consts.IDsBlockSize)}, 8)
	}
}

// ------------------------------------------------------------------ file size limit (real fm.seal)

func (d *driver) limits(r *rng.R, ci int, c *corpus, p plan, count int) {
	S, I := p.fullSdocs(), p.fullIndex()
	max := S
	if I > max {
		max = I
	}
	ls := []int64{0, max + 100}
	if !c.Skip && S > 0 {
		ls = append(ls, S-1, int64(r.Intn(int(S))))
	}
	for len(ls) < count {
		ls = append(ls, int64(r.Intn(int(max)+1)))
	}
	ls = ls[:count]
	type out struct {
		s       *sealTrace
		callErr error
		obs     restartObs
		limit   int64
	}
	res := make([]*out, len(ls))
	var wg sync.WaitGroup
	sem := make(chan struct{}, d.workers)
	for i, l := range ls {
		wg.Add(1)
		sem <- struct{}{}
		go func(i int, l int64) {
			defer wg.Done()
			defer func() { <-sem }()
			dir := d.newDir()
			defer os.RemoveAll(dir)
			ex, _ := json.Marshal(limitReq{Limit: uint64(l)})
			s, callErr, err := tracedSeal(dir, c, true, storectl.Req{Op: "c08_seal_limit", Extra: ex})
			if err != nil || (callErr != nil && !errors.Is(callErr, storectl.ErrDied)) {
				fmt.Fprintf(os.Stderr, "limit run skipped (corpus %d limit %d): %v (call: %v)\n", ci, l, err, callErr)
				d.mu.Lock()
				d.w.Count("skipped:limit-machinery-error")
				d.mu.Unlock()
				return
			}
			// the plan comes from another run of the same corpus; the info block is the only part
			// that depends on the run (timestamps, path): if its size differs the plan does not apply
			for _, o := range s.ops {
				if o.Kind == "write" && o.F == "IndexTmp" && o.Off == 16 {
					if o.Len < p.Secs[0].Sizes[0] && l >= 16+p.Secs[0].Sizes[0] || o.Len > p.Secs[0].Sizes[0] {
						d.mu.Lock()
						d.w.Count("skipped:limit-plan-mismatch")
						d.mu.Unlock()
						return
					}
				}
			}
			obs, ch := restartCheck(dir, s.base, c, d.maxQ)
			if ch != nil {
				ch.Close()
			}
			if obs.Kind == "" {
				return
			}
			res[i] = &out{s, callErr, obs, l}
		}(i, l)
	}
	wg.Wait()
	for _, o := range res {
		if o == nil {
			continue
		}
		in := map[string]any{"seed": d.seed, "tier": d.tier, "corpus_index": ci, "corpus": c.summary(), "rlimit_fsize": o.limit,
			"ops": opStrings(o.s.ops)}
		died := o.callErr != nil
		d.w.Add(fmt.Sprintf("CLimit %s %s %d%%N %s %s", p.coq(), fszCoq(o.s.init), o.limit, casefile.Bool(died), opsCoq(o.s.ops)),
			fmt.Sprintf("limit/skip=%v", c.Skip), o.limit <= max, in, map[string]any{"child_died": died, "restart": o.obs})
		if !o.obs.Served || (o.obs.Kind != "LActive" && o.obs.Kind != "LSealed") {
			d.w.Violate("limit-restart-unserved", "after a seal that hit a file size limit the restarted store does not serve every document: "+o.obs.Detail, in)
		}
	}
}

// ------------------------------------------------------------------ main

func main() {
	storectl.MaybeChild()
	seed := flag.Uint64("seed", 1, "")
	tier := flag.String("tier", "quick", "")
	out := flag.String("out", "", "")
	replay := flag.String("replay", "", "")
	flip := flag.Bool("flip", false, "scenario outside the property: SkipSortDocs switched on between an interrupted seal and the next one")
	flag.Parse()
	if *flip {
		flipScenario(*seed)
		return
	}
	if *replay != "" {
		// a replay file names seed and tier; the run is deterministic, so re-run it
		b, err := os.ReadFile(*replay)
		if err != nil {
			fmt.Fprintln(os.Stderr, err)
			os.Exit(2)
		}
		var rp struct {
			Seed uint64 `json:"seed"`
			Tier string `json:"tier"`
		}
		json.Unmarshal(b, &rp)
		*seed, *tier = rp.Seed, rp.Tier
	}
	if *out == "" {
		fmt.Fprintln(os.Stderr, "usage: hC08 -seed N -tier quick|thorough -out DIR")
		os.Exit(2)
	}
	w, err := casefile.New(*out, "C08", "From C08 Require Import Model ModelGen ModelPool CaseDefs.", 150)
	if err != nil {
		panic(err)
	}
	tmp, err := os.MkdirTemp("", "verif-hC08-")
	if err != nil {
		panic(err)
	}
	defer os.RemoveAll(tmp)
	d := &driver{w: w, tier: *tier, seed: *seed, tmp: tmp, workers: 4, maxQ: 4}
	if n, err := strconv.Atoi(os.Getenv("VERIF_HC08_WORKERS")); err == nil && n >= 1 && n <= 16 {
		d.workers = n
	}
	r := rng.New(*seed)

	type cfg struct {
		n         int
		skip      bool
		bigs      []bigField
		faultOnly bool
	}
	var cfgs []cfg
	nl, faultOnlyFrom := 4, 2000
	if *tier == "quick" {
		cfgs = []cfg{{n: r.Range(1, 3), skip: false}, {n: r.Range(1, 3), skip: true}, {n: r.Range(4, 30), skip: false}, {n: r.Range(4, 30), skip: true},
			{n: r.Range(4, 60), skip: false}, {n: r.Range(4, 60), skip: true}, {n: r.Range(60, 300), skip: false}, {n: r.Range(60, 300), skip: true},
			{n: r.Range(4200, 4600), skip: r.Bool()}}
		nl = 5
	} else {
		d.maxQ = 8
		nl = 10
		faultOnlyFrom = 1 << 30
		for i := 0; i < 24; i++ {
			cfgs = append(cfgs, cfg{n: r.Range(1, 60), skip: i%2 == 1})
		}
		cfgs = append(cfgs, cfg{n: r.Range(300, 1500), skip: false}, cfg{n: r.Range(300, 1500), skip: true},
			cfg{n: r.Range(4200, 6000), skip: false}, cfg{n: r.Range(4200, 9000), skip: true})
	}
	// Fields whose tokens exceed consts.RegularBlockSize (16384 bytes): first / middle / last in the
	// sort order of the fields ("B" < "_all_" < "a" < "k" < "m" < "s" < "t" < "y" < "z"), several of
	// them, consecutive ones, and totals at the threshold (16384 is not "larger", 16385 is).
	const thr = 16 * 1024
	bigSets := [][]bigField{
		{{"z", thr + 1 + r.Intn(8000)}},
		{{"z", thr}}, {{"z", thr + 1}}, {{"m", thr + 1}},
		{{"B", thr + 2000 + r.Intn(4000)}},
		{{"a", thr + 1 + r.Intn(3000)}},
		{{"m", 2*thr + r.Intn(3*thr)}, {"z", thr + 1 + r.Intn(1000)}},
		{{"B", thr + 1 + r.Intn(1000)}, {"z", thr + 1 + r.Intn(1000)}},
		{{"y", thr + 1 + r.Intn(5000)}, {"z", thr + 1 + r.Intn(5000)}},
	}
	if *tier != "quick" {
		for i := 0; i < 10; i++ {
			var bs []bigField
			for _, name := range []string{"B", "a", "m", "y", "z"} {
				if r.Chance(2, 5) {
					tot := thr - 2 + r.Intn(5)
					if r.Bool() {
						tot = thr + 1 + r.Intn(4*thr)
					}
					bs = append(bs, bigField{name, tot})
				}
			}
			if len(bs) == 0 {
				bs = []bigField{{"z", thr + 1 + r.Intn(100)}}
			}
			bigSets = append(bigSets, bs)
		}
	}
	// corpora that straddle the ID-block capacity (the sorted IDs include the system ID: n documents
	// give n+1 IDs): exactly one full block, one full block + 1, ...; write-fault sweep only
	idb := consts.IDsBlockSize
	if *tier == "quick" {
		cfgs = append(cfgs, cfg{n: idb - 1, skip: r.Bool(), faultOnly: true}, cfg{n: idb, skip: r.Bool(), faultOnly: true})
	} else {
		for _, n := range []int{idb - 2, idb - 1, idb, idb + 1, 2*idb - 1, 2 * idb} {
			cfgs = append(cfgs, cfg{n: n, skip: r.Bool(), faultOnly: true})
		}
	}
	for i, bs := range bigSets {
		// the first set also goes through the traced seal / crash states / restarts; the others through
		// the write-fault sweep only
		cfgs = append(cfgs, cfg{n: r.Range(10, 60), skip: r.Bool(), bigs: bs, faultOnly: i > 0 && (*tier == "quick" || i%4 != 0)})
	}
	for ci, cf := range cfgs {
		cr := r.Fork()
		c := genCorpus(cr, cf.n, cf.skip, cf.bigs...)
		w.Count(fmt.Sprintf("corpus:skip=%v", cf.skip))
		if len(cf.bigs) > 0 {
			w.Count("corpus:with-field-over-16KiB")
		}
		big := cf.n >= faultOnlyFrom || cf.faultOnly
		// HC08_ONLY=pool (mutation-testing aid): only the pool-pressure classes
		onlyPool := os.Getenv("HC08_ONLY") == "pool"
		if !big && !onlyPool {
			d.exploreSeal(cr.Fork(), ci, c, d.newDir(), true, 0, nil)
		}
		if !onlyPool {
			d.faults(cr.Fork(), ci, c)
		}
		if !big && !onlyPool {
			// plan of this corpus for the limit runs: from a fresh traced seal
			dir := d.newDir()
			if s, callErr, err := tracedSeal(dir, c, true, storectl.Req{Op: "seal"}); err == nil && callErr == nil && s.makePlan(c.Skip) == nil {
				d.limits(cr.Fork(), ci, c, s.plan, nl)
			} else {
				w.Count("skipped:limit-plan-run")
			}
			os.RemoveAll(dir)
		}
		if cf.n < 5000 {
			d.poolPressure(cr.Fork(), ci, c)
		}
	}
	if os.Getenv("HC08_ONLY") != "pool" {
		d.bigLIDs(r.Fork())
	}
	if len(d.herr) > 0 {
		// machinery trouble (strace log not understood, child could not be started ...): not a verdict
		for _, e := range d.herr {
			fmt.Fprintln(os.Stderr, "harness error:", e)
		}
		w.Close()
		os.Exit(3)
	}
	if err := w.Close(); err != nil {
		panic(err)
	}
}

// flipScenario (not part of the check): a seal without SkipSortDocs is interrupted right after
// .sdocs was published; the store is restarted WITH SkipSortDocs, seals the fraction, and is
// restarted once more.
func flipScenario(seed uint64) {
	tmp, _ := os.MkdirTemp("", "verif-hC08-flip-")
	defer os.RemoveAll(tmp)
	r := rng.New(seed)
	c := genCorpus(r, 5, false)
	dir := filepath.Join(tmp, "a")
	os.MkdirAll(dir, 0o755)
	s, callErr, err := tracedSeal(dir, c, true, storectl.Req{Op: "seal"})
	if err != nil || callErr != nil {
		fmt.Println("traced seal failed:", err, callErr)
		return
	}
	j := 0
	for i, o := range s.ops {
		if o.Kind == "rename" && o.G == "Sdocs" {
			j = i + 1
		}
	}
	d1 := filepath.Join(tmp, "b")
	if err := s.stateOf(crashSpec{J: j}).Materialize(d1); err != nil {
		panic(err)
	}
	fmt.Println("crash state after .sdocs rename:", sizesOf(s.stateOf(crashSpec{J: j}), s.base))
	c2 := *c
	c2.Skip = true
	ch, _ := storectl.Start("")
	if _, err := ch.Call(storectl.Req{Op: "open", Dir: d1, SkipSortDocs: true}); err != nil {
		fmt.Println("open with SkipSortDocs failed:", fatalLine(err.Error()))
		return
	}
	_, err = ch.Call(storectl.Req{Op: "seal"})
	fmt.Println("seal with SkipSortDocs: err =", err)
	ch.Close()
	for _, sk := range []bool{true, false} {
		d2 := filepath.Join(tmp, fmt.Sprintf("c%v", sk))
		st, _ := crashfs.Snapshot(d1)
		st.Materialize(d2)
		c3 := *c
		c3.Skip = sk
		fmt.Println("files before restart:", sizesOf(st, s.base))
		obs, ch := restartCheck(d2, s.base, &c3, 4)
		if ch != nil {
			ch.Close()
		}
		fmt.Printf("restart with SkipSortDocs=%v: %+v\n", sk, obs)
	}
}
