// hC20 — correspondence driver for property C20 (the fields pipe returns a faithful projection
// of each stored document). It drives the REAL code:
//
//	filter   storeapi.docFieldsFilter (acquire / FilterDocFields / release, exactly as doFetch uses it:
//	         one pooled filter for all documents of a request) on generated JSON objects x field lists
//	pipe     search.tryParseFieldsFilter on rendered query texts (token lists with 0, 1, 2 pipes,
//	         malformed lists, keywords used as names, quoted names)
//	pipe-text search.tryParseFieldsFilter on query TEXTS whose search expression holds `|` inside quoted values (three quote
//	         kinds, escapes) and `#` comments; the Coq model (ModelLex.v) scans the same bytes for the first top-level `|`
//	page     a real cluster in one process (tests/setup: proxy + store over loopback gRPC): documents
//	         ingested through the proxy's bulk API, then Ingestor.Search with and without `| fields`,
//	         Ingestor.Documents with a FieldsFilter, and GrpcV1.Fetch on the store with a FieldsFilter
//	         (class page-search-lex: Ingestor.Search with `|` inside quoted values / comments of the expression)
//
// and writes what it observed as Coq cases (props/C20/coq/CaseDefs.v). The JSON oracle is
// independent of insane-json: encoding/json (UseNumber) token stream for the top level, values
// compared as canonical forms (numbers as exact rationals, strings decoded, object keys sorted).
package main

import (
	"bytes"
	"context"
	"encoding/json"
	"flag"
	"fmt"
	"io"
	"math"
	"math/big"
	"net/http"
	"os"
	"os/exec"
	"runtime"
	"runtime/debug"
	"sort"
	"strconv"
	"strings"
	"sync"
	"time"
	"unicode/utf8"

	insaneJSON "github.com/ozontech/insane-json"

	"github.com/ozontech/seq-db/conf"
	"github.com/ozontech/seq-db/disk"
	pstoreapi "github.com/ozontech/seq-db/pkg/storeapi"
	_ "github.com/ozontech/seq-db/proxy/bulk" // its init() sets insaneJSON.MapUseThreshold as in the seq-db binary
	"github.com/ozontech/seq-db/proxy/search"
	"github.com/ozontech/seq-db/seq"
	"github.com/ozontech/seq-db/storeapi"
	"github.com/ozontech/seq-db/tests/setup"

	"google.golang.org/grpc"

	"verif/harness/internal/casefile"
	"verif/harness/internal/rng"
)

// ---------------------------------------------------------------- independent JSON oracle

type kv struct{ key, val string } // decoded key, canonical value

func canonNum(s string) string {
	if r, ok := new(big.Rat).SetString(s); ok {
		return "n" + r.String()
	}
	return "N" + s
}

func canonVal(v any, sb *strings.Builder) {
	switch x := v.(type) {
	case nil:
		sb.WriteString("null")
	case bool:
		sb.WriteString(strconv.FormatBool(x))
	case json.Number:
		sb.WriteString(canonNum(string(x)))
	case string:
		sb.WriteString(strconv.Quote(x))
	case []any:
		sb.WriteByte('[')
		for i, e := range x {
			if i > 0 {
				sb.WriteByte(',')
			}
			canonVal(e, sb)
		}
		sb.WriteByte(']')
	case map[string]any:
		keys := make([]string, 0, len(x))
		for k := range x {
			keys = append(keys, k)
		}
		sort.Strings(keys)
		sb.WriteByte('{')
		for i, k := range keys {
			if i > 0 {
				sb.WriteByte(',')
			}
			sb.WriteString(strconv.Quote(k))
			sb.WriteByte(':')
			canonVal(x[k], sb)
		}
		sb.WriteByte('}')
	}
}

// parseTop returns the top-level fields of a JSON object in document order (duplicates kept).
func parseTop(b []byte) ([]kv, bool) {
	if !json.Valid(b) {
		return nil, false
	}
	dec := json.NewDecoder(bytes.NewReader(b))
	dec.UseNumber()
	t, err := dec.Token()
	if err != nil || t != json.Delim('{') {
		return nil, false
	}
	out := []kv{}
	for dec.More() {
		kt, err := dec.Token()
		if err != nil {
			return nil, false
		}
		key, ok := kt.(string)
		if !ok {
			return nil, false
		}
		var raw json.RawMessage
		if err := dec.Decode(&raw); err != nil {
			return nil, false
		}
		vd := json.NewDecoder(bytes.NewReader(raw))
		vd.UseNumber()
		var v any
		if err := vd.Decode(&v); err != nil {
			return nil, false
		}
		var sb strings.Builder
		canonVal(v, &sb)
		out = append(out, kv{key, sb.String()})
	}
	if t, err := dec.Token(); err != nil || t != json.Delim('}') {
		return nil, false
	}
	return out, true
}

// ids: key ids and value ids of one case (equal decoded keys / canonical values <=> equal ids)
type ids struct {
	keys map[string]int
	vals map[string]int
}

func newIDs() *ids {
	// the words fields / except have fixed ids (k_fields, k_except of Model.v)
	return &ids{keys: map[string]int{"fields": 1000, "except": 1001}, vals: map[string]int{}}
}

func (m *ids) key(s string) int {
	if id, ok := m.keys[s]; ok {
		return id
	}
	id := len(m.keys) - 2
	m.keys[s] = id
	return id
}

func (m *ids) val(s string) int {
	if id, ok := m.vals[s]; ok {
		return id
	}
	id := len(m.vals)
	m.vals[s] = id
	return id
}

func (m *ids) doc(fs []kv) string {
	parts := make([]string, len(fs))
	for i, f := range fs {
		parts[i] = fmt.Sprintf("(%d,%d)", m.key(f.key), m.val(f.val))
	}
	return "[" + strings.Join(parts, "; ") + "]"
}

func (m *ids) keyList(names []string) string {
	xs := make([]int, len(names))
	for i, n := range names {
		xs[i] = m.key(n)
	}
	return casefile.NatList(xs)
}

func (m *ids) impl(out []byte) string {
	fs, ok := parseTop(out)
	if !ok {
		return "IInvalid"
	}
	return "(IObj " + m.doc(fs) + ")"
}

// ---------------------------------------------------------------- generators

var plainKeys = []string{"level", "message", "ts", "k8s_pod", "a", "b", "c", "d", "e", "f", "g", "h", "x1", "x2", "x3",
	"service", "trace.id", "span_id", "user", "host", "env", "zone", "code", "n", "m", "p", "q", "r", "s", "t", "u", "v", "w",
	"req", "resp", "tags", "labels", "meta", "ctx", "err"}
var oddKeys = []string{"", " ", "we\"ird", "back\\slash", "tab\there", "new\nline", "ключ", "日本語", "emoji😀", "with space",
	"a/b", "a*b", "x:y", "p|q", "c,d", "fields", "except", "é", "\u0001ctl", "q'uote", "UPPER", "upper", "ab", "abc", "Level", "MESSAGE", "a.b", "a", "ümlaut", "-dash", "a-b"}

// names of 62..517 BYTES: k8s-label-like ASCII (bare in a pipe), labels with / and - (quoted in a pipe),
// multi-byte UTF-8 names whose byte length (not rune count) hits the boundary
var longLens = []int{62, 63, 64, 65, 127, 128, 255, 300, 517}

func longKey(r *rng.R) string {
	L := rng.Pick(r, longLens)
	var segs []string
	switch r.Intn(3) {
	case 0:
		segs = []string{"k8s_node_label_", "topology.kubernetes.io_", "zone_", "app.kubernetes.io_", "instance_", "pod_template_hash_", "x"}
	case 1:
		segs = []string{"k8s_node_label_", "topology.kubernetes.io/", "zone-", "beta.kubernetes.io/", "arch-", "failure-domain/", "x"}
	default:
		segs = []string{"ключ_", "значение.", "日本語", "😀", "метка-", "é", "x"}
	}
	b := []byte(fmt.Sprintf("%s%d_", segs[0], r.Intn(1000)))
	for len(b) < L {
		sg := rng.Pick(r, segs)
		if len(b)+len(sg) > L {
			sg = "x"
		}
		b = append(b, sg...)
	}
	return string(b[:L]) // the tail is ASCII padding, so the cut never splits a rune
}

func pickKey(r *rng.R) string {
	switch r.Intn(12) {
	case 0, 1, 2:
		return rng.Pick(r, oddKeys)
	case 4:
		return longKey(r)
	case 3:
		n := r.Range(1, 6)
		b := make([]byte, n)
		for i := range b {
			b[i] = "abcxyz_.019"[r.Intn(11)]
		}
		return string(b)
	}
	return rng.Pick(r, plainKeys)
}

// jsonStr renders s as a JSON string literal, choosing among the equivalent spellings
func jsonStr(r *rng.R, s string) string {
	var sb strings.Builder
	sb.WriteByte('"')
	uesc := func(c rune) {
		if c > 0xFFFF {
			c -= 0x10000
			hi, lo := 0xD800+(c>>10), 0xDC00+(c&0x3FF)
			if r.Bool() {
				fmt.Fprintf(&sb, "\\u%04x\\u%04x", hi, lo)
			} else {
				fmt.Fprintf(&sb, "\\u%04X\\u%04X", hi, lo)
			}
			return
		}
		if r.Bool() {
			fmt.Fprintf(&sb, "\\u%04x", c)
		} else {
			fmt.Fprintf(&sb, "\\u%04X", c)
		}
	}
	for _, c := range s {
		switch {
		case c == '"' || c == '\\':
			if r.Chance(1, 5) {
				uesc(c)
			} else {
				sb.WriteByte('\\')
				sb.WriteRune(c)
			}
		case c < 0x20:
			short := map[rune]string{'\n': `\n`, '\t': `\t`, '\r': `\r`, '\b': `\b`, '\f': `\f`}
			if e, ok := short[c]; ok && r.Chance(3, 4) {
				sb.WriteString(e)
			} else {
				uesc(c)
			}
		case c == '/' && r.Chance(1, 3):
			sb.WriteString(`\/`)
		case r.Chance(1, 8):
			uesc(c)
		default:
			sb.WriteRune(c)
		}
	}
	sb.WriteByte('"')
	return sb.String()
}

var strPool = []string{"", "x", "info", "pipeline stats", "a\"b", "back\\", "line1\nline2", "tab\t", "{\"nested\":\"json\"}\n",
	"юникод", "日本", "😀 smile", "/path/to", "a,b", "}", "]", "{", "null", "true", "12", "\u0007bell", "\u007f", "é", " lead", "trail "}
var numPool = []string{"0", "-0", "1", "-1", "7", "42", "3.14", "-2.5", "1e3", "1E3", "1e+3", "1.0e-3", "2.50", "0.0", "100",
	"12345678901234567890", "-9223372036854775808", "18446744073709551616", "1.7976931348623157e308", "5e-324", "0.1e1",
	"123456789.123456789", "9007199254740993", "1E-2", "0e0", "-0.0"}

type genOpts struct{ noNewline bool }

func ws(r *rng.R, o genOpts) string {
	if !r.Chance(1, 5) {
		return ""
	}
	all := []string{" ", "  ", "\t", "\n", "\r\n", " \n "}
	if o.noNewline {
		all = all[:3]
	}
	return rng.Pick(r, all)
}

func genValue(r *rng.R, depth int, o genOpts) string {
	k := r.Intn(12)
	if depth >= 3 && k >= 8 {
		k = r.Intn(8)
	}
	switch k {
	case 0, 1, 2:
		return jsonStr(r, rng.Pick(r, strPool))
	case 3, 4:
		return rng.Pick(r, numPool)
	case 5:
		return "true"
	case 6:
		return "false"
	case 7:
		return "null"
	case 8, 9: // array
		n := r.Intn(4)
		var sb strings.Builder
		sb.WriteString("[" + ws(r, o))
		for i := 0; i < n; i++ {
			if i > 0 {
				sb.WriteString("," + ws(r, o))
			}
			sb.WriteString(genValue(r, depth+1, o) + ws(r, o))
		}
		sb.WriteString("]")
		return sb.String()
	default: // object with distinct keys
		n := r.Intn(4)
		seen := map[string]bool{}
		var sb strings.Builder
		sb.WriteString("{" + ws(r, o))
		first := true
		for i := 0; i < n; i++ {
			key := pickKey(r)
			if seen[key] {
				continue
			}
			seen[key] = true
			if !first {
				sb.WriteString("," + ws(r, o))
			}
			first = false
			sb.WriteString(jsonStr(r, key) + ws(r, o) + ":" + ws(r, o) + genValue(r, depth+1, o) + ws(r, o))
		}
		sb.WriteString("}")
		return sb.String()
	}
}

// renderDoc writes a top-level object with the given keys (in order; duplicates allowed)
func renderDoc(r *rng.R, keys []string, o genOpts, fixed map[string]string) []byte {
	var sb strings.Builder
	sb.WriteString(ws(r, o) + "{" + ws(r, o))
	for i, k := range keys {
		if i > 0 {
			sb.WriteString("," + ws(r, o))
		}
		v, ok := fixed[k]
		if !ok {
			v = genValue(r, 0, o)
		}
		sb.WriteString(jsonStr(r, k) + ws(r, o) + ":" + ws(r, o) + v + ws(r, o))
	}
	sb.WriteString("}" + ws(r, o))
	return []byte(sb.String())
}

func distinctKeys(r *rng.R, pool []string, n int) []string {
	seen := map[string]bool{}
	var out []string
	for tries := 0; len(out) < n && tries < 10*n+10; tries++ {
		k := rng.Pick(r, pool)
		if !seen[k] {
			seen[k] = true
			out = append(out, k)
		}
	}
	return out
}

func docSize(r *rng.R) int {
	switch r.Intn(10) {
	case 0:
		return 0
	case 1:
		return 1
	case 2:
		return 2
	case 3:
		return r.Range(15, 19) // around insane-json's default map threshold (16)
	case 4:
		return r.Range(20, 45) // above 32: insane-json's map path if the threshold were in force
	}
	return r.Range(2, 9)
}

// genFilter draws a field list relative to the keys that occur in the documents
func genFilter(r *rng.R, present []string, pool []string) ([]string, string) {
	absent := func() string {
		for {
			k := pickKey(r)
			found := false
			for _, p := range present {
				if p == k {
					found = true
				}
			}
			if !found {
				return k
			}
		}
	}
	sub := func() []string {
		if len(present) == 0 {
			return nil
		}
		xs := append([]string{}, present...)
		rng.Shuffle(r, xs)
		return xs[:r.Range(1, len(xs))]
	}
	var fs []string
	var kind string
	switch r.Intn(12) {
	case 0:
		return nil, "empty"
	case 1:
		kind = "all"
		fs = append([]string{}, present...)
		rng.Shuffle(r, fs)
	case 2:
		kind = "absent-only"
		for i := r.Range(1, 3); i > 0; i-- {
			fs = append(fs, absent())
		}
	case 3, 4:
		kind = "present+absent"
		fs = sub()
		for i := r.Range(1, 2); i > 0; i-- {
			fs = append(fs, absent())
		}
		rng.Shuffle(r, fs)
	case 5, 6:
		kind = "repeated"
		fs = sub()
		for i := r.Range(1, 3); i > 0 && len(fs) > 0; i-- {
			fs = append(fs, rng.Pick(r, fs))
		}
		rng.Shuffle(r, fs)
	case 7:
		kind = "single"
		if len(present) > 0 {
			fs = []string{rng.Pick(r, present)}
		} else {
			fs = []string{absent()}
		}
	default:
		kind = "subset"
		fs = sub()
	}
	if len(fs) == 0 {
		fs = []string{absent()}
		kind = "absent-only"
	}
	return fs, kind
}

// ---------------------------------------------------------------- stream: filter

type guardRes struct {
	out      [][]byte
	panicked any
	hung     bool
}

func runFilter(docs [][]byte, fields []string, allow bool) guardRes {
	ch := make(chan guardRes, 1)
	go func() {
		var g guardRes
		defer func() {
			if p := recover(); p != nil {
				g.panicked = p
			}
			ch <- g
		}()
		g.out = storeapi.VerifC20FilterDocs(docs, fields, allow)
	}()
	select {
	case g := <-ch:
		return g
	case <-time.After(20 * time.Second):
		return guardRes{hung: true}
	}
}

func mode(allow bool) string {
	if allow {
		return "allow"
	}
	return "except"
}

// filterBatch runs one request (several documents, one filter) and writes one CFilter case per document
func filterBatch(w *casefile.Writer, docs [][]byte, fields []string, allow bool, prefix, fkind string) {
	in := func(i int) map[string]any {
		m := map[string]any{"fields": fields, "allow_list": allow, "batch": batchStrings(docs)}
		if i >= 0 {
			m["doc"] = string(docs[i])
			m["doc_index_in_batch"] = i
		}
		return m
	}
	g := runFilter(docs, fields, allow)
	if g.panicked != nil {
		w.Violate("panic:filter", fmt.Sprintf("docFieldsFilter panics: %v", g.panicked), in(-1))
		return
	}
	if g.hung {
		w.Violate("hang:filter", "docFieldsFilter does not return within 20s", in(-1))
		return
	}
	for i, d := range docs {
		orig, ok := parseTop(d)
		if !ok {
			panic("generator produced an invalid document: " + string(d))
		}
		m := newIDs()
		dterm := m.doc(orig)
		fterm := m.keyList(fields)
		iterm := m.impl(g.out[i])
		class := prefix + mode(allow)
		if len(fields) == 0 {
			class = prefix + "empty-filter"
		}
		// non-trivial: at least one field removed and one kept, in a document of >= 3 fields
		kept, removed, longListed := 0, 0, false
		for _, f := range orig {
			listed := false
			for _, n := range fields {
				if n == f.key {
					listed = true
				}
			}
			if listed && len(f.key) >= 64 {
				longListed = true
			}
			if listed == allow {
				kept++
			} else {
				removed++
			}
		}
		nontrivial := len(fields) > 0 && kept > 0 && removed > 0 && len(orig) >= 3
		w.Count("filter-kind:" + fkind)
		if longListed {
			w.Count("name>=64B-listed-and-present:" + mode(allow))
		}
		w.Count(fmt.Sprintf("doc-fields:%s", bucket(len(orig))))
		if removed == 0 {
			w.Count("effect:nothing-removed")
		} else if kept == 0 {
			w.Count("effect:everything-removed")
		} else {
			w.Count("effect:partial")
		}
		w.Add(fmt.Sprintf("CFilter %s %s %s %s", dterm, fterm, casefile.Bool(allow), iterm), class, nontrivial,
			in(i), string(g.out[i]))
	}
}

func batchStrings(docs [][]byte) []string {
	out := make([]string, len(docs))
	for i, d := range docs {
		out[i] = string(d)
	}
	return out
}

func bucket(n int) string {
	switch {
	case n == 0:
		return "0"
	case n == 1:
		return "1"
	case n <= 4:
		return "2-4"
	case n <= 9:
		return "5-9"
	case n <= 16:
		return "10-16"
	}
	return "17+"
}

func unionKeys(docs [][]byte) []string {
	seen := map[string]bool{}
	var out []string
	for _, d := range docs {
		fs, _ := parseTop(d)
		for _, f := range fs {
			if !seen[f.key] {
				seen[f.key] = true
				out = append(out, f.key)
			}
		}
	}
	return out
}

func keyPool(r *rng.R) []string {
	n := r.Range(4, 60)
	seen := map[string]bool{}
	var out []string
	for len(out) < n {
		k := pickKey(r)
		if !seen[k] {
			seen[k] = true
			out = append(out, k)
		}
	}
	if r.Bool() { // make long names common: present in documents and listed in filters
		for i := r.Range(1, 3); i > 0; i-- {
			if k := longKey(r); !seen[k] {
				seen[k] = true
				out = append(out, k)
			}
		}
	}
	return out
}

func streamFilter(w *casefile.Writer, r *rng.R, n int) {
	for made := 0; made < n; {
		pool := keyPool(r)
		nd := r.Range(1, 6)
		docs := make([][]byte, nd)
		for i := range docs {
			size := docSize(r)
			if size > len(pool) {
				size = len(pool)
			}
			docs[i] = renderDoc(r, distinctKeys(r, pool, size), genOpts{}, nil)
		}
		fields, kind := genFilter(r, unionKeys(docs), pool)
		filterBatch(w, docs, fields, r.Bool(), "", kind)
		made += nd
	}
}

// documents with duplicate keys (possibly spelled differently): separate stream
func streamDup(w *casefile.Writer, r *rng.R, n int, prefix string, wide bool) {
	for made := 0; made < n; {
		pool := keyPool(r)
		if wide {
			for len(pool) < 30 {
				pool = keyPool(r)
			}
		}
		nd := r.Range(1, 4)
		docs := make([][]byte, nd)
		var dupKeys []string
		for i := range docs {
			size := r.Range(1, 8)
			if wide && r.Chance(3, 4) {
				size = r.Range(18, 30) // wide objects: above insane-json's default map threshold
			} else if r.Chance(1, 6) {
				size = r.Range(14, 20)
			} else if r.Chance(1, 6) {
				size = r.Range(33, 45) // > 32 fields
			}
			if size > len(pool) {
				size = len(pool)
			}
			keys := distinctKeys(r, pool, size)
			for j := r.Range(1, 3); j > 0; j-- {
				k := rng.Pick(r, keys)
				dupKeys = append(dupKeys, k)
				pos := r.Intn(len(keys) + 1)
				keys = append(keys[:pos], append([]string{k}, keys[pos:]...)...)
			}
			docs[i] = renderDoc(r, keys, genOpts{}, nil)
		}
		fields, kind := genFilter(r, unionKeys(docs), pool)
		if len(fields) > 0 && r.Chance(2, 3) {
			fields = append(fields, rng.Pick(r, dupKeys)) // make sure a duplicated key is listed
			if r.Chance(1, 4) {
				fields = append(fields, fields[len(fields)-1]) // ... sometimes twice
			}
		}
		filterBatch(w, docs, fields, r.Bool(), prefix, kind)
		made += nd
	}
}

// ---------------------------------------------------------------- stream: pipe

type ptok struct {
	kind string // bar fields except comma name bad
	name string
}

func bareOK(s string) bool {
	if s == "" {
		return false
	}
	for _, c := range s {
		if !(c >= 'a' && c <= 'z' || c >= 'A' && c <= 'Z' || c >= '0' && c <= '9' || c == '_' || c == '.') {
			return false
		}
	}
	switch strings.ToLower(s) {
	case "fields", "except", "and", "or", "not":
		return false
	}
	return true
}

func quoteName(r *rng.R, s string) string {
	if !strings.ContainsAny(s, "\\*\"'`") && utf8.ValidString(s) && r.Bool() {
		clean := true
		for _, c := range s {
			if c < 0x20 {
				clean = false
			}
		}
		if clean {
			if r.Bool() {
				return "'" + s + "'"
			}
			return `"` + s + `"`
		}
	}
	return strings.ReplaceAll(strconv.Quote(s), "*", `\*`)
}

func renderToks(r *rng.R, ts []ptok) string {
	s, _ := renderToksOff(r, ts, rtOpts{})
	return s
}

// rtOpts: tight = no space around a `|` now and then (`svc:x|fields a`); comments = a `#` comment line
// (holding `|`, quotes) instead of the space between two tokens now and then
type rtOpts struct{ tight, comments bool }

// renderToksOff also returns the byte offsets (within the rendered text) of the bar tokens
func renderToksOff(r *rng.R, ts []ptok, o rtOpts) (string, []int) {
	var sb strings.Builder
	var bars []int
	for i, t := range ts {
		sp := " "
		if r.Chance(1, 6) {
			sp = "  "
		}
		if o.comments && r.Chance(1, 6) {
			sp = rng.Pick(r, []string{" # c|d\n", "#|\n", " # \" | fields zz '\n ", "\t# `|\n\n"})
		}
		if o.tight && (t.kind == "bar" || i > 0 && ts[i-1].kind == "bar") && r.Bool() {
			sp = ""
		}
		switch t.kind {
		case "bar":
			bars = append(bars, sb.Len()+len(sp))
			sb.WriteString(sp + "|")
		case "fields":
			kw := "fields"
			if i > 0 && ts[i-1].kind == "bar" && r.Chance(1, 3) {
				kw = rng.Pick(r, []string{"FIELDS", "Fields"})
			}
			sb.WriteString(sp + kw)
		case "except":
			kw := "except"
			if i > 1 && ts[i-1].kind == "fields" && ts[i-2].kind == "bar" && r.Chance(1, 3) {
				kw = rng.Pick(r, []string{"EXCEPT", "Except"})
			}
			sb.WriteString(sp + kw)
		case "comma":
			if r.Bool() {
				sb.WriteString(",")
			} else {
				sb.WriteString(sp + ",")
			}
		case "name":
			if bareOK(t.name) && r.Chance(2, 3) {
				sb.WriteString(sp + t.name)
			} else {
				sb.WriteString(sp + quoteName(r, t.name))
			}
		default:
			sb.WriteString(sp + t.name)
		}
	}
	return sb.String(), bars
}

func toksCoq(m *ids, ts []ptok) string {
	parts := make([]string, len(ts))
	for i, t := range ts {
		switch t.kind {
		case "bar":
			parts[i] = "TBar"
		case "fields":
			parts[i] = "TFields"
		case "except":
			parts[i] = "TExcept"
		case "comma":
			parts[i] = "TComma"
		case "name":
			parts[i] = fmt.Sprintf("TName %d", m.key(t.name))
		default:
			parts[i] = "TBad"
		}
	}
	return "[" + strings.Join(parts, "; ") + "]"
}

func wellFormedPipe(r *rng.R, names []string, except bool) []ptok {
	ts := []ptok{{kind: "bar"}, {kind: "fields"}}
	if except {
		ts = append(ts, ptok{kind: "except"})
	}
	for i, n := range names {
		if i > 0 {
			ts = append(ts, ptok{kind: "comma"})
		}
		ts = append(ts, ptok{kind: "name", name: n})
	}
	return ts
}

var validExprs = []string{"*", "service:foo", "level:error and not service:\"a b\"", "(a:b or c:d) and e:f", "message:\"x | fields y\"", "k:in(a, b)"}
var invalidExprs = []string{"(a:b", "and", "a:b or", "service:", "a:b )"}

func pfCoq(m *ids, names []string, allow bool) string {
	return fmt.Sprintf("(mkPF %s %s)", m.keyList(names), casefile.Bool(allow))
}

func pipeCase(w *casefile.Writer, r *rng.R, expr string, valid bool, ts []ptok, want *search.FetchFieldsFilter, kind string) {
	q := expr + renderToks(r, ts)
	var got search.FetchFieldsFilter
	var pan any
	func() {
		defer func() { pan = recover() }()
		got = search.VerifC20TryParseFieldsFilter(q)
	}()
	in := map[string]any{"query": q, "kind": kind}
	if pan != nil {
		w.Violate("panic:pipe", fmt.Sprintf("tryParseFieldsFilter panics: %v", pan), in)
		return
	}
	m := newIDs()
	tterm := toksCoq(m, ts)
	wterm := "None"
	if want != nil {
		wterm = "(Some " + pfCoq(m, want.Fields, want.AllowList) + ")"
	}
	w.Count("pipe-kind:" + kind)
	w.Add(fmt.Sprintf("CPipe %s %s %s %s", casefile.Bool(valid), tterm, wterm, pfCoq(m, got.Fields, got.AllowList)),
		"pipe", want != nil && len(want.Fields) >= 2, in, map[string]any{"fields": got.Fields, "allow_list": got.AllowList})
}

func randNames(r *rng.R) []string {
	n := r.Range(1, 5)
	out := make([]string, n)
	for i := range out {
		out[i] = pickKey(r)
	}
	return out
}

func streamPipe(w *casefile.Writer, r *rng.R, n int) {
	for i := 0; i < n; i++ {
		switch r.Intn(8) {
		case 0: // no pipe
			pipeCase(w, r, rng.Pick(r, validExprs), true, nil, nil, "no-pipe")
		case 1, 2, 3: // one well-formed pipe
			names, ex := randNames(r), r.Bool()
			pipeCase(w, r, rng.Pick(r, validExprs), true, wellFormedPipe(r, names, ex),
				&search.FetchFieldsFilter{Fields: names, AllowList: !ex}, "one-pipe")
		case 4: // two pipes: the whole query is rejected, so no filter
			ts := append(wellFormedPipe(r, randNames(r), r.Bool()), wellFormedPipe(r, randNames(r), r.Bool())...)
			pipeCase(w, r, rng.Pick(r, validExprs), true, ts, nil, "two-pipes")
		case 5: // search expression does not parse
			names, ex := randNames(r), r.Bool()
			pipeCase(w, r, rng.Pick(r, invalidExprs), false, wellFormedPipe(r, names, ex), nil, "invalid-expr")
		default: // arbitrary token list after the expression; expected filter unknown to the generator:
			// the spec side only demands "no filter" when the generator wrote no well-formed pipe, so
			// use the model-independent reading: want = what a reference reading of the tokens gives
			ts := randPipeToks(r)
			want := referencePipe(ts)
			pipeCase(w, r, rng.Pick(r, validExprs), true, ts, want, "random-tokens")
		}
	}
}

func randPipeToks(r *rng.R) []ptok {
	n := r.Range(1, 9)
	ts := []ptok{{kind: "bar"}}
	if r.Chance(5, 6) {
		ts = append(ts, ptok{kind: "fields"})
	}
	for i := 0; i < n; i++ {
		switch r.Intn(12) {
		case 0:
			ts = append(ts, ptok{kind: "bar"})
		case 1:
			ts = append(ts, ptok{kind: "fields"})
		case 2:
			ts = append(ts, ptok{kind: "except"})
		case 3, 4, 5:
			ts = append(ts, ptok{kind: "comma"})
		case 6:
			ts = append(ts, ptok{kind: "bad", name: rng.Pick(r, []string{"(", ")", ":", "[", "]"})})
		default:
			ts = append(ts, ptok{kind: "name", name: pickKey(r)})
		}
	}
	return ts
}

// referencePipe: the documented grammar read directly (a second, independent implementation in Go,
// written from docs/ and parser/seqql_pipes.go's error messages): query = expr { "|" "fields" ["except"]
// name { [","] name } }; exactly one fields pipe allowed; anything else => the query is invalid => no filter.
func referencePipe(ts []ptok) *search.FetchFieldsFilter {
	var pipes []search.FetchFieldsFilter
	i := 0
	for i < len(ts) {
		if ts[i].kind != "bar" {
			return nil
		}
		i++
		if i >= len(ts) || ts[i].kind != "fields" {
			return nil
		}
		i++
		except := false
		if i < len(ts) && ts[i].kind == "except" {
			except = true
			i++
		}
		var names []string
		trailing := false
		for i < len(ts) && ts[i].kind != "bar" {
			var name string
			switch ts[i].kind {
			case "name":
				name = ts[i].name
			case "fields":
				name = "fields"
			case "except":
				name = "except"
			default:
				return nil
			}
			names = append(names, name)
			i++
			trailing = false
			if i < len(ts) && ts[i].kind == "comma" {
				trailing = true
				i++
			}
		}
		if trailing || len(names) == 0 {
			return nil
		}
		pipes = append(pipes, search.FetchFieldsFilter{Fields: names, AllowList: !except})
		if len(pipes) > 1 {
			return nil
		}
	}
	if len(pipes) == 0 {
		return nil
	}
	return &pipes[0]
}

// ---------------------------------------------------------------- stream: pipe-text (lexical level)

// lexValue writes one filter value: bare, double-/single-quoted with escapes, or a raw string; most hold a `|`
// (also next to an escaped quote, behind an escaped backslash, as ` | fields y`). forStore = the text also
// goes through gRPC and the stores' parser: valid UTF-8, no wildcard.
func lexValue(r *rng.R, cnt func(string), forStore bool) string {
	common := []string{"a", "b7", "x.y", " ", "|", "|", " | fields y", "|fields z", "#", "# c", "é", ",", ":", "(", ")", "| fields except q"}
	n := r.Range(1, 4)
	var pool []string
	var open, cl, kind string
	switch r.Intn(7) {
	case 0:
		cnt("lex-value:bare")
		return rng.Pick(r, []string{"x", "v1", "a.b", "err"})
	case 1, 2, 3:
		kind, open, cl = "dq", `"`, `"`
		pool = append(append([]string{}, common...), `\"`, `\\`, `\n`, `\x41`, `é`, `\101`, `'`, "`", `\"|`, `|\"`, `\\|`, `|\\`)
		if !forStore {
			pool = append(pool, `\q`, `\*`, "*", "\xff", `\x4`, `\'`)
		}
	case 4, 5:
		kind, open, cl = "sq", "'", "'"
		pool = append(append([]string{}, common...), `\'`, `\\`, `\t`, `"`, "`", `\'|`, `|\'`, `\\|`, `|\\`)
		if !forStore {
			pool = append(pool, `\q`, `\*`, "*", "\xfe", `\"`)
		}
	default:
		kind, open, cl = "raw", "`", "`"
		pool = append(append([]string{}, common...), `\`, `"`, `'`, `\"`, `|\`, `\|`)
	}
	body := "v"
	for i := 0; i < n; i++ {
		body += rng.Pick(r, pool)
	}
	if r.Chance(4, 5) && !strings.Contains(body, "|") {
		body += "|"
	}
	if kind == "raw" && r.Chance(1, 4) {
		body += `\` // a backslash right before the closing back-quote escapes nothing
	}
	if kind != "raw" && r.Chance(1, 4) {
		body += `\\` // an escaped backslash right before the closing quote
	}
	if strings.Contains(body, "|") {
		cnt("lex-value:" + kind + "-with-bar")
	} else {
		cnt("lex-value:" + kind)
	}
	return open + body + cl
}

func lexComment(r *rng.R, cnt func(string)) string {
	n := r.Range(0, 3)
	c := "#"
	for i := 0; i < n; i++ {
		c += rng.Pick(r, []string{" c|d", " \"", " '", " `", " | fields q", "|", " errors|warnings", "#", "\\"})
	}
	if strings.Contains(c, "|") {
		cnt("lex-comment:with-bar")
	} else {
		cnt("lex-comment")
	}
	return c + "\n"
}

// lexExpr writes a search expression that parses, built from terms field:value joined by and/or, with not,
// parentheses and comment lines. It contains no top-level `|` and is lexically closed (every quote has its
// partner, every comment its newline). all = the expression selects every document (for the real cluster).
func lexExpr(r *rng.R, cnt func(string), forStore, all bool) string {
	field := func() string {
		if forStore {
			return "svc"
		}
		return rng.Pick(r, []string{"svc", "message", "k8s_pod", "a.b", "level"})
	}
	term := func() string {
		t := field() + ":" + lexValue(r, cnt, forStore)
		if r.Chance(1, 5) {
			t = "not " + t
		}
		return t
	}
	group := func() string {
		n := r.Range(1, 3)
		var sb strings.Builder
		for i := 0; i < n; i++ {
			if i > 0 {
				sb.WriteString(rng.Pick(r, []string{" and ", " or ", " AND ", "\tor\n"}))
			}
			if r.Chance(1, 6) {
				sb.WriteString(lexComment(r, cnt))
			}
			if r.Chance(1, 5) {
				sb.WriteString("(" + term() + rng.Pick(r, []string{" or ", " and "}) + term() + ")")
			} else {
				sb.WriteString(term())
			}
		}
		return sb.String()
	}
	var e string
	switch {
	case all && r.Bool():
		e = "* or " + group()
	case all && r.Bool():
		e = group() + " or *"
	case all:
		// no stored document has svc equal to one of these values: every negated term holds for all
		e = "not " + field() + ":" + lexValue(r, cnt, forStore)
		if r.Bool() {
			e += " and not " + field() + ":" + lexValue(r, cnt, forStore)
		}
	case r.Chance(1, 8):
		e = "* or " + group()
	default:
		e = group()
	}
	if r.Chance(1, 4) {
		e = lexComment(r, cnt) + e
	}
	if r.Chance(1, 5) {
		e += " " + lexComment(r, cnt)
	}
	return e
}

func pipeTextCase(w *casefile.Writer, q string, valid bool, bars []int, ts []ptok, barTok []int, want *search.FetchFieldsFilter, kind string, nontrivial bool) {
	parse := func(q string) (got search.FetchFieldsFilter, pan any) {
		defer func() { pan = recover() }()
		return search.VerifC20TryParseFieldsFilter(q), nil
	}
	in := map[string]any{"query": q, "kind": kind, "text": true}
	got, pan := parse(q)
	var star search.FetchFieldsFilter
	if pan == nil && len(bars) > 0 {
		star, pan = parse("*" + q[bars[0]:])
	}
	if pan != nil {
		w.Violate("panic:pipe", fmt.Sprintf("tryParseFieldsFilter panics: %v", pan), in)
		return
	}
	m := newIDs()
	tails := make([]string, len(bars))
	for i, off := range bars {
		tails[i] = fmt.Sprintf("(%d, %s)", off, toksCoq(m, ts[barTok[i]:]))
	}
	wterm := "None"
	if want != nil {
		wterm = "(Some " + pfCoq(m, want.Fields, want.AllowList) + ")"
	}
	w.Count("pipetext-kind:" + kind)
	w.Add(fmt.Sprintf("CPipeText %s %s [%s] %s %s %s", casefile.Bytes([]byte(q)), casefile.Bool(valid), strings.Join(tails, "; "), wterm,
		pfCoq(m, got.Fields, got.AllowList), pfCoq(m, star.Fields, star.AllowList)),
		"pipe-text", nontrivial, in, map[string]any{"fields": got.Fields, "allow_list": got.AllowList, "star_fields": star.Fields, "star_allow_list": star.AllowList})
}

// streamPipeText: the real tryParseFieldsFilter on query TEXTS whose search expression holds `|` bytes inside
// quoted values (three quote kinds, escapes) and comments; the model scans the same bytes (ModelLex.pipe_start).
func streamPipeText(w *casefile.Writer, r *rng.R, n int) {
	cnt := w.Count
	emit := func(e string, valid bool, ts []ptok, want *search.FetchFieldsFilter, kind string, o rtOpts, suffix string) {
		p, off := renderToksOff(r, ts, o)
		bars := make([]int, len(off))
		var barTok []int
		for i, t := range ts {
			if t.kind == "bar" {
				barTok = append(barTok, i)
			}
		}
		for i := range off {
			bars[i] = len(e) + off[i]
		}
		pipeTextCase(w, e+p+suffix, valid, bars, ts, barTok, want, kind, want != nil && strings.Contains(e, "|"))
	}
	for i := 0; i < n; i++ {
		e := lexExpr(r, cnt, false, false)
		o := rtOpts{tight: r.Chance(1, 3), comments: r.Chance(1, 3)}
		suffix := ""
		if r.Chance(1, 4) { // a comment behind the pipe section, with or without its newline
			suffix = rng.Pick(r, []string{" # tail | fields y", " # tail | fields y\n", "#|", "\n# \"|\n"})
		}
		switch r.Intn(10) {
		case 0:
			emit(e, true, nil, nil, "no-pipe", o, suffix)
		case 1, 2, 3, 4:
			names, ex := randNames(r), r.Bool()
			emit(e, true, wellFormedPipe(r, names, ex), &search.FetchFieldsFilter{Fields: names, AllowList: !ex}, "one-pipe", o, suffix)
		case 5:
			ts := append(wellFormedPipe(r, randNames(r), r.Bool()), wellFormedPipe(r, randNames(r), r.Bool())...)
			emit(e, true, ts, nil, "two-pipes", o, suffix)
		case 6: // the expression does not parse although every quoted value and comment in it is closed
			names, ex := randNames(r), r.Bool()
			bad := rng.Pick(r, []string{"(" + e, e + " and", e + " or or svc:x", `"a|b" ` + e, e + " )", e + " svc:"})
			if strings.HasSuffix(e, "\n") { // e ends in a comment line
				bad = "(" + e
			}
			emit(bad, false, wellFormedPipe(r, names, ex), nil, "invalid-expr", o, suffix)
		case 7: // lexically unclosed: the pipe is swallowed by a comment without newline / follows a quote without partner
			if r.Bool() {
				p, _ := renderToksOff(r, wellFormedPipe(r, randNames(r), r.Bool()), rtOpts{})
				pipeTextCase(w, e+rng.Pick(r, []string{" # note", "# a|b", " #"})+p, true, nil, nil, nil, nil, "unclosed-comment", false)
			} else {
				qt := rng.Pick(r, []string{`"`, "'", "`"})
				if strings.HasSuffix(e, "\n") {
					e = "svc:x"
				}
				head := e + " and svc:" + qt + "a"
				ts := wellFormedPipe(r, []string{"lvl", "ts"}, r.Bool())
				p := " | fields lvl, ts"
				if ts[2].kind == "except" {
					p = " | fields except lvl, ts"
				}
				pipeTextCase(w, head+p, false, []int{len(head) + 1}, ts, []int{0}, nil, "unclosed-quote", false)
			}
		default:
			ts := randPipeToks(r)
			emit(e, true, ts, referencePipe(ts), "random-tokens", o, suffix)
		}
	}
}

// ---------------------------------------------------------------- stream: page (real cluster)

type cluster struct {
	env    *setup.TestingEnv
	dir    string
	shards int
}

func startCluster(shards int) *cluster {
	dir, err := os.MkdirTemp("", "verif-c20-")
	if err != nil {
		panic(err)
	}
	env := setup.NewTestingEnv(&setup.TestingEnvConfig{
		Name: "c20", DataDir: dir, IngestorCount: 1, HotShards: shards, HotFactor: 1,
		Mapping: seq.Mapping{"svc": seq.NewSingleType(seq.TokenizerTypeKeyword, "", 0)},
	})
	return &cluster{env: env, dir: dir, shards: shards}
}

func (c *cluster) stop() {
	c.env.StopAll()
	os.RemoveAll(c.dir)
}

// bulkSpread sends the documents as several small bulks: the proxy picks a shard per bulk, so the
// documents end up spread over the shards (which document lands where is not fixed by the seed;
// nothing observed depends on it unless the code under test makes it matter)
func (c *cluster) bulkSpread(r *rng.R, docs [][]byte) error {
	for len(docs) > 0 {
		n := r.Range(1, 3)
		if n > len(docs) {
			n = len(docs)
		}
		if err := c.bulk(docs[:n]); err != nil {
			return err
		}
		docs = docs[n:]
	}
	return nil
}

// shardsWithDocs counts the stores that hold at least one document
func (c *cluster) shardsWithDocs() int {
	n := 0
	for _, reps := range c.env.HotStores {
		if len(reps) > 0 && reps[0].FracManager.Active().Info().DocsTotal > 0 {
			n++
		}
	}
	return n
}

func (c *cluster) bulk(docs [][]byte) error {
	resp, err := http.Post(c.env.IngestorBulkAddr(), "", setup.GenBufferBytes(docs))
	if err != nil {
		return err
	}
	defer resp.Body.Close()
	body, _ := io.ReadAll(resp.Body)
	if resp.StatusCode != http.StatusOK {
		return fmt.Errorf("bulk status %s: %s", resp.Status, body)
	}
	return nil
}

func pageCase(w *casefile.Writer, class string, unfiltered, filtered [][]byte, fields []string, allow bool, in map[string]any) {
	m := newIDs()
	pages := make([]string, len(unfiltered))
	nontrivial, dup := false, false
	for i, d := range unfiltered {
		fs, ok := parseTop(d)
		if !ok {
			w.Violate("page:unfiltered-invalid", "the unfiltered run returned a document that is not a JSON object",
				map[string]any{"doc": string(d), "in": in})
			return
		}
		pages[i] = m.doc(fs)
		seen := map[string]bool{}
		for _, f := range fs {
			if seen[f.key] {
				dup = true
			}
			seen[f.key] = true
		}
	}
	if dup {
		// documents with duplicate keys are reported under the classes of the duplicate-key stream
		class = "dupkeys-" + mode(allow)
		w.Count("page-with-duplicate-keys")
	}
	fterm := m.keyList(fields)
	impls := make([]string, len(filtered))
	for i, d := range filtered {
		impls[i] = m.impl(d)
	}
	nontrivial = len(unfiltered) >= 2 && len(fields) > 0
	in["unfiltered"] = batchStrings(unfiltered)
	in["fields"] = fields
	in["allow_list"] = allow
	w.Add(fmt.Sprintf("CPage [%s] %s %s [%s]", strings.Join(pages, "; "), fterm, casefile.Bool(allow), strings.Join(impls, "; ")),
		class, nontrivial, in, batchStrings(filtered))
}

func pipeText(r *rng.R, fields []string, allow bool) string {
	return renderToks(r, wellFormedPipe(r, fields, !allow))
}

func streamPage(w *casefile.Writer, r *rng.R, rl *rng.R, rounds, docsPerRound, queries, lexQueries int) {
	conf.UseSeqQLByDefault = true // flag --use-seq-ql-by-default: pipes exist in SeqQL only
	for round := 0; round < rounds; round++ {
		c := startCluster(2 + round%2) // 2 or 3 shards: a fetch goes to several sources
		func() {
			defer c.stop()
			pool := keyPool(r)
			for _, must := range []string{"", " ", "a", "ab", "abc", "a.b", strings.Repeat("k8s_label.", 7)[:63], strings.Repeat("k8s_label.", 7)[:64], strings.Repeat("k8s_label.", 7)[:65], strings.Repeat("метка", 7)[:64]} { // empty name, names that are prefixes of each other
				has := false
				for _, k := range pool {
					if k == must {
						has = true
					}
				}
				if !has {
					pool = append(pool, must)
				}
			}
			base := time.Now().UTC().Add(-time.Hour).Truncate(time.Second)
			docs := make([][]byte, docsPerRound)
			for i := range docs {
				size := docSize(r)
				if size > len(pool) {
					size = len(pool)
				}
				keys := distinctKeys(r, pool, size)
				if r.Chance(1, 3) {
					keys = append(keys, "") // an empty-named member (removed again below if already drawn)
				}
				// every document carries a distinct time so that the order of the result is fixed by the seed
				tkey := "time"
				keys = append(keys, tkey)
				rng.Shuffle(r, keys)
				seen := map[string]bool{}
				uniq := keys[:0]
				for _, k := range keys {
					if !seen[k] {
						seen[k] = true
						uniq = append(uniq, k)
					}
				}
				if r.Chance(1, 20) && len(uniq) > 0 { // some stored documents repeat a key
					k := rng.Pick(r, uniq)
					if k != tkey {
						pos := r.Intn(len(uniq) + 1)
						uniq = append(uniq[:pos:pos], append([]string{k}, uniq[pos:]...)...)
					}
				}
				fixed := map[string]string{tkey: `"` + base.Add(time.Duration(i)*time.Second).Format(time.RFC3339) + `"`}
				docs[i] = renderDoc(r, uniq, genOpts{noNewline: true}, fixed)
			}
			if err := c.bulkSpread(r, docs); err != nil {
				w.Violate("page:bulk-error", "bulk of valid JSON objects failed: "+err.Error(), map[string]any{"docs": batchStrings(docs)})
				return
			}
			c.env.WaitIdle()
			w.Count(fmt.Sprintf("page-cluster:shards=%d,with-docs=%d", c.shards, c.shardsWithDocs()))
			present := unionKeys(docs)
			for qi := 0; qi < queries; qi++ {
				if qi == queries/2 {
					c.env.SealAll() // second half against the sealed fraction
				}
				fields, kind := genFilter(r, present, pool)
				if len(fields) == 0 {
					fields = []string{rng.Pick(r, present)}
				}
				if r.Chance(1, 3) { // name a present field whose name is 64 bytes or longer
					var long []string
					for _, k := range present {
						if len(k) >= 64 {
							long = append(long, k)
						}
					}
					if len(long) > 0 {
						fields = append(fields, rng.Pick(r, long))
						kind += "+long"
					}
				}
				if r.Bool() { // repeat names: `fields a, a`, `fields except b, a, b`
					for i := r.Range(1, 2); i > 0; i-- {
						fields = append(fields, rng.Pick(r, fields))
					}
					rng.Shuffle(r, fields)
					kind += "+repeated"
				}
				allow := r.Bool()
				size := r.Range(1, docsPerRound+2)
				offset := r.Intn(docsPerRound/2 + 1)
				order := seq.DocsOrderDesc
				if r.Bool() {
					order = seq.DocsOrderAsc
				}
				in := map[string]any{"kind": kind, "size": size, "offset": offset, "order": int(order), "stored": batchStrings(docs), "sealed": qi >= queries/2, "shards": c.shards}
				via := []string{"page-search", "page-documents", "page-store-fetch"}[r.Intn(3)]
				q := "*" + pipeText(r, fields, allow)
				in["via"] = via
				if via == "page-search" {
					in["query"] = q
				}
				plain, got, err := c.observe(via, q, fields, allow, size, offset, order)
				if err != nil {
					w.Violate("page:error", err.Error(), in)
					continue
				}
				pageCase(w, via, plain, got, fields, allow, in)
			}
			// the lexical level, end to end: Ingestor.Search (real proxy, real stores' GrpcV1.Fetch) with a search
			// expression that selects every document and holds `|` bytes inside quoted values / comments, then a
			// fields pipe; the unfiltered run is the same expression without the pipe. (sealed fraction)
			fixed := []string{
				"not svc:\"a|b\"", "not svc:'out=0|0.0Mb' and not svc:x", "not svc:`a|b` or *",
				"# errors|warnings of the service\n*", "* or svc:\"a\\\"|b\"", "not svc:'it\\'s|'", "* or svc:\"v\\\\\"",
				"not svc:\"a | fields time\"", "* # all | fields time\n", "not svc:\"a#b|c\"", "not svc:'#' and not svc:`#|`",
			}
			for qi := 0; qi < len(fixed)+lexQueries; qi++ {
				var e, kind string
				if qi < len(fixed) {
					e, kind = fixed[qi], "lex-fixed"
				} else {
					e, kind = lexExpr(rl, w.Count, true, true), "lex-random"
				}
				fields, fkind := genFilter(rl, present, pool)
				if len(fields) == 0 {
					fields = []string{rng.Pick(rl, present)}
				}
				allow := rl.Bool()
				size := rl.Range(1, docsPerRound+2)
				offset := rl.Intn(docsPerRound/2 + 1)
				order := seq.DocsOrderDesc
				if rl.Bool() {
					order = seq.DocsOrderAsc
				}
				p, _ := renderToksOff(rl, wellFormedPipe(rl, fields, !allow), rtOpts{tight: rl.Chance(1, 3), comments: rl.Chance(1, 4)})
				if rl.Chance(1, 4) {
					p += rng.Pick(rl, []string{" # tail | fields y", " # tail | fields y\n", "#|"})
				}
				q := e + p
				in := map[string]any{"kind": kind + "/" + fkind, "size": size, "offset": offset, "order": int(order), "stored": batchStrings(docs),
					"sealed": true, "shards": c.shards, "via": "page-search-lex", "query": q, "expr": e}
				plain, got, err := c.observeLex(e, q, size, offset, order)
				if err != nil {
					w.Violate("page:error", err.Error(), in)
					continue
				}
				w.Count("page-lex:" + kind)
				if strings.Contains(e, "|") {
					w.Count("page-lex:bar-inside-expression")
				}
				pageCase(w, "page-search-lex", plain, got, fields, allow, in)
			}
		}()
	}
}

// observeLex: Ingestor.Search(e) vs Ingestor.Search(e + pipe) on the real cluster
func (c *cluster) observeLex(e, q string, size, offset int, order seq.DocsOrder) ([][]byte, [][]byte, error) {
	_, plain, _, err := c.env.Search(e, size, setup.WithOffset(offset), setup.WithOrder(order))
	if err != nil {
		return nil, nil, fmt.Errorf("search without pipe failed (%q): %w", e, err)
	}
	if len(plain) == 0 {
		return nil, nil, fmt.Errorf("search without pipe returned no document (%q)", e)
	}
	_, got, _, err := c.env.Search(q, size, setup.WithOffset(offset), setup.WithOrder(order))
	if err != nil {
		return nil, nil, fmt.Errorf("search with fields pipe failed (%q): %w", q, err)
	}
	return plain, got, nil
}

// observe returns the documents of the unfiltered run and of the filtered run, each in its order.
//
//	page-search       Ingestor.Search("*") vs Ingestor.Search("* | fields ...")
//	page-documents    Ingestor.Documents(ids) vs Ingestor.Documents(ids, FieldsFilter)   (ids of the unfiltered search)
//	page-store-fetch  GrpcV1.Fetch(ids) vs GrpcV1.Fetch(ids, FieldsFilter) on the store
func (c *cluster) observe(via, q string, fields []string, allow bool, size, offset int, order seq.DocsOrder) ([][]byte, [][]byte, error) {
	qpr, plain, _, err := c.env.Search("*", size, setup.WithOffset(offset), setup.WithOrder(order))
	if err != nil {
		return nil, nil, fmt.Errorf("unfiltered search failed: %w", err)
	}
	switch via {
	case "page-search":
		_, got, _, err := c.env.Search(q, size, setup.WithOffset(offset), setup.WithOrder(order))
		if err != nil {
			return nil, nil, fmt.Errorf("search with fields pipe failed: %w", err)
		}
		return plain, got, nil
	case "page-documents":
		idl := make([]seq.ID, len(qpr.IDs))
		for i, s := range qpr.IDs {
			idl[i] = s.ID
		}
		ctx, cancel := context.WithCancel(context.Background())
		defer cancel()
		s0, err0 := c.env.Ingestor().SearchIngestor.Documents(ctx, search.FetchRequest{IDs: idl})
		s1, err1 := c.env.Ingestor().SearchIngestor.Documents(ctx, search.FetchRequest{IDs: idl,
			FieldsFilter: search.FetchFieldsFilter{Fields: fields, AllowList: allow}})
		if err0 != nil || err1 != nil {
			return nil, nil, fmt.Errorf("proxy fetch failed: %v / %v", err0, err1)
		}
		return search.ReadAll(s0), search.ReadAll(s1), nil
	default:
		strs := make([]string, len(qpr.IDs))
		for i, s := range qpr.IDs {
			strs[i] = s.ID.String()
		}
		var a, b [][]byte
		for _, reps := range c.env.HotStores { // every store in turn; a store answers an ID it does not hold with an empty block
			cl := storeapi.NewClient(reps[0])
			fetch := func(ff *pstoreapi.FetchRequest_FieldsFilter) ([][]byte, error) {
				st, err := cl.Fetch(context.Background(), &pstoreapi.FetchRequest{Ids: strs, FieldsFilter: ff})
				if err != nil {
					return nil, err
				}
				var out [][]byte
				for {
					d, err := st.Recv()
					if err == io.EOF {
						return out, nil
					}
					if err != nil {
						return nil, err
					}
					blk := disk.DocBlock(d.Data)
					var p []byte
					if blk.Len() > 0 {
						p = append([]byte{}, blk.Payload()...)
					}
					out = append(out, p)
				}
			}
			a1, err0 := fetch(nil)
			b1, err1 := fetch(&pstoreapi.FetchRequest_FieldsFilter{Fields: fields, AllowList: allow})
			if err0 != nil || err1 != nil {
				return nil, nil, fmt.Errorf("store fetch failed: %v / %v", err0, err1)
			}
			if len(a1) != len(b1) {
				return nil, nil, fmt.Errorf("store fetch: %d blocks without filter, %d with filter", len(a1), len(b1))
			}
			for i := range a1 {
				if len(a1[i]) == 0 {
					if len(b1[i]) != 0 {
						return nil, nil, fmt.Errorf("store fetch: a document appears only with the filter: %s", b1[i])
					}
					continue
				}
				a, b = append(a, a1[i]), append(b, b1[i])
			}
		}
		return a, b, nil
	}
}

// ---------------------------------------------------------------- stream: req (per-source fetch requests)

func randIDs(r *rng.R, n int, source uint64) []seq.IDSource {
	out := make([]seq.IDSource, n)
	mid := uint64(1_700_000_000_000 + r.Intn(1000000))
	for i := range out {
		mid -= uint64(r.Range(0, 1000))
		out[i] = seq.IDSource{ID: seq.ID{MID: seq.MID(mid), RID: seq.RID(r.U64())}, Source: source, Hint: ""}
	}
	return out
}

// reqCase builds the requests for nsrc sources from ONE filter value, as FetchDocsStream does, reading
// each request's filter right after it was built (that is when it is sent)
func reqCase(w *casefile.Writer, r *rng.R, fields []string, allow bool, nsrc int, kind string) {
	si := search.NewIngestor(search.Config{}, nil)
	before := append([]string{}, fields...)
	ff := search.FetchFieldsFilter{Fields: fields, AllowList: allow} // every call below shares this value
	m := newIDs()
	ffTerm := pfCoq(m, before, allow)
	reqs := make([]string, nsrc)
	var seen []map[string]any
	var pan any
	func() {
		defer func() { pan = recover() }()
		for i := 0; i < nsrc; i++ {
			ids := randIDs(r, r.Range(1, 5), uint64(i))
			fs, al, n := si.VerifC20MakeFetchReq(ids, false, ff)
			if n != len(ids) {
				w.Violate("req:ids", fmt.Sprintf("request carries %d ids, %d given", n, len(ids)), map[string]any{"fields": before})
			}
			cp := append([]string{}, fs...)
			reqs[i] = pfCoq(m, cp, al)
			seen = append(seen, map[string]any{"fields": cp, "allow_list": al})
		}
	}()
	in := map[string]any{"req_fields": before, "allow_list": allow, "sources": nsrc, "kind": kind}
	if pan != nil {
		w.Violate("panic:req", fmt.Sprintf("makeFetchReq panics: %v", pan), in)
		return
	}
	after := pfCoq(m, ff.Fields, ff.AllowList)
	rep := false
	set := map[string]bool{}
	for _, f := range before {
		if set[f] {
			rep = true
		}
		set[f] = true
	}
	w.Count("req-kind:" + kind)
	w.Add(fmt.Sprintf("CReq %s [%s] %s", ffTerm, strings.Join(reqs, "; "), after), "req", rep && nsrc >= 2, in,
		map[string]any{"requests": seen, "filter_after": append([]string{}, ff.Fields...)})
}

func streamReq(w *casefile.Writer, r *rng.R, n int) {
	for i := 0; i < n; i++ {
		pool := keyPool(r)
		present := distinctKeys(r, pool, r.Range(1, 8))
		fields, kind := genFilter(r, present, pool)
		if r.Bool() && len(fields) > 0 {
			for j := r.Range(1, 3); j > 0; j-- {
				fields = append(fields, rng.Pick(r, fields))
			}
			rng.Shuffle(r, fields)
			kind += "+repeated"
		}
		reqCase(w, r, fields, r.Bool(), r.Range(1, 4), kind)
	}
}

// ---------------------------------------------------------------- streams: pool discipline and concurrency

// bigDoc renders an object of roughly kb KiB: a few dozen fields with long string values
func bigDoc(r *rng.R, kb int, fixed map[string]string) []byte {
	keys := []string{"small"}
	vals := map[string]string{"small": `"s"`}
	for k, v := range fixed {
		keys = append(keys, k)
		vals[k] = v
	}
	sort.Strings(keys[1:])
	total := 0
	for i := 0; total < kb*1024; i++ {
		k := fmt.Sprintf("big%d", i)
		var sb strings.Builder
		for n := r.Range(1500, 5000); sb.Len() < n; {
			sb.WriteString(rng.Pick(r, strPool))
			sb.WriteString(" lorem ipsum dolor ")
		}
		v := jsonStr(r, sb.String())
		if r.Chance(1, 6) {
			v = "[" + v + ",1e3,{\"k\":" + v + "}]"
		}
		keys = append(keys, k)
		vals[k] = v
		total += len(v)
	}
	rng.Shuffle(r, keys)
	return renderDoc(r, keys, genOpts{noNewline: true}, vals)
}

// emitOne writes one CFilter case for (doc, filter, output)
func emitOne(w *casefile.Writer, class string, doc []byte, fields []string, allow bool, out []byte, extra map[string]any) {
	orig, ok := parseTop(doc)
	if !ok {
		panic("generator produced an invalid document")
	}
	m := newIDs()
	dterm := m.doc(orig)
	fterm := m.keyList(fields)
	in := map[string]any{"doc": string(doc), "fields": fields, "allow_list": allow}
	for k, v := range extra {
		in[k] = v
	}
	w.Add(fmt.Sprintf("CFilter %s %s %s %s", dterm, fterm, casefile.Bool(allow), m.impl(out)), class, len(orig) >= 3, in, string(out))
}

// streamPool: the state of a filter is private to the request that acquired it. Deterministic:
// F1 processes a big document and is released; then several filters are acquired WITHOUT releasing in
// between (as concurrent Fetch handlers do): they must be distinct objects with distinct decoders, and
// each returns the projection of its own document.
func streamPool(w *casefile.Writer, seed uint64, rounds int) {
	r := rng.New(seed ^ 0xC20A)
	for round := 0; round < rounds; round++ {
		big := bigDoc(r, r.Range(70, 200), nil)
		in := map[string]any{"pool": seed, "pool_round": round, "big_doc_bytes": len(big)}
		pool := keyPool(r)
		n := r.Range(3, 5)
		held := make([]*storeapi.VerifC20Filter, n)
		fields := make([][]string, n)
		allow := make([]bool, n)
		docs := make([][]byte, n)
		for i := range held {
			size := r.Range(3, 9)
			if size > len(pool) {
				size = len(pool)
			}
			docs[i] = renderDoc(r, distinctKeys(r, pool, size), genOpts{}, nil)
			fields[i], _ = genFilter(r, unionKeys(docs[i:i+1]), pool)
			if len(fields[i]) == 0 {
				fields[i] = []string{pickKey(r)}
			}
			allow[i] = r.Bool()
		}
		// everything is prepared: from here to the identity check nothing else allocates much, so that a
		// garbage collection (which empties sync.Pools) is unlikely to hide a leaked decoder
		gc := debug.SetGCPercent(-1)
		f1 := storeapi.VerifC20Acquire([]string{"small"}, false)
		out := f1.Filter(big)
		f1.Release()
		for i := range held {
			held[i] = storeapi.VerifC20Acquire(fields[i], allow[i])
		}
		debug.SetGCPercent(gc)
		for i := range held {
			for j := i + 1; j < n; j++ {
				sf, sd := storeapi.VerifC20FilterIdentity(held[i], held[j])
				if sf || sd {
					in["filters"] = fields
					w.Violate("pool:shared-state", fmt.Sprintf("two filters acquired at the same time share state (same filter object: %v, same JSON decoder: %v) "+
						"after a filter that processed a %d-byte document was released", sf, sd, len(big)), in)
				}
			}
		}
		emitOne(w, "pool-big", big, []string{"small"}, false, out, map[string]any{"pool": seed})
		// use them in an interleaved order
		order := make([]int, 0, 2*n)
		for i := 0; i < n; i++ {
			order = append(order, i, i)
		}
		rng.Shuffle(r, order)
		for _, i := range order {
			emitOne(w, "pool-held", docs[i], fields[i], allow[i], held[i].Filter(docs[i]), map[string]any{"pool": seed})
		}
		for _, f := range held {
			f.Release()
		}
		w.Count("pool-rounds")
	}
}

type concOut struct {
	g, pos int
	via    string
	out    string
}

// streamConcurrent: after a big document went through a filter, several requests are in flight at once.
// Unit level (goroutines holding acquired filters, yielding between documents like doFetch's stream.Send)
// and end to end (concurrent proxy fetches / searches / store fetches over disjoint ID sets on a 2-shard
// cluster). Every returned document must be the projection of ITS stored object by ITS request's filter.
// Outputs are de-duplicated per (request, document, output): on a correct tree the case set is fixed.
func streamConcurrent(w *casefile.Writer, seed uint64, iters int) {
	r := rng.New(seed ^ 0xC20C)
	extra := map[string]any{"concurrent_seed": seed, "iters": iters}
	// ---- unit level
	const G = 6
	pool := keyPool(r)
	type job struct {
		docs   [][]byte
		fields []string
		allow  bool
	}
	jobs := make([]job, G)
	for g := range jobs {
		nd := r.Range(3, 6)
		for i := 0; i < nd; i++ {
			size := r.Range(4, 20)
			if size > len(pool) {
				size = len(pool)
			}
			jobs[g].docs = append(jobs[g].docs, renderDoc(r, distinctKeys(r, pool, size), genOpts{}, nil))
		}
		if g < 2 {
			jobs[g].docs = append(jobs[g].docs, bigDoc(r, r.Range(70, 120), nil))
			jobs[g].fields, jobs[g].allow = []string{"small", pickKey(r)}, false
		} else {
			jobs[g].fields, _ = genFilter(r, unionKeys(jobs[g].docs), pool)
			if len(jobs[g].fields) == 0 {
				jobs[g].fields = []string{pickKey(r)}
			}
			jobs[g].allow = r.Bool()
		}
	}
	var mu sync.Mutex
	seen := map[concOut]bool{}
	var panics []string
	var wg sync.WaitGroup
	for g := 0; g < G; g++ {
		wg.Add(1)
		go func(g int) {
			defer wg.Done()
			defer func() {
				if p := recover(); p != nil {
					mu.Lock()
					panics = append(panics, fmt.Sprint(p))
					mu.Unlock()
				}
			}()
			j := jobs[g]
			for it := 0; it < iters; it++ {
				f := storeapi.VerifC20Acquire(j.fields, j.allow)
				for pos, d := range j.docs {
					if len(d) > 32<<10 && it%8 != 0 {
						continue // the big document only now and then
					}
					out := f.Filter(d)
					mu.Lock()
					seen[concOut{g, pos, "unit", string(out)}] = true
					mu.Unlock()
					runtime.Gosched() // doFetch sends the block here
				}
				f.Release()
			}
		}(g)
	}
	wg.Wait()
	for _, p := range panics {
		w.Violate("panic:concurrent-filter", "docFieldsFilter panics under concurrent requests: "+p, extra)
	}
	emitConc(w, seen, "concurrent-filter", extra, func(o concOut) ([]byte, []string, bool) {
		return jobs[o.g].docs[o.pos], jobs[o.g].fields, jobs[o.g].allow
	})

	// ---- end to end, in a child process: a store that panics in a gRPC handler takes its process down
	runConcChild(w, seed, iters, extra)
}

// rec / sink: what the child observed, applied to the case writer by the parent
type rec struct {
	Kind   string         `json:"kind"` // one page violate count
	Class  string         `json:"class"`
	What   string         `json:"what"`
	Doc    []byte         `json:"doc"`
	Fields []string       `json:"fields"`
	Allow  bool           `json:"allow"`
	Out    []byte         `json:"out"`
	Unf    [][]byte       `json:"unf"`
	Fil    [][]byte       `json:"fil"`
	In     map[string]any `json:"in"`
}

type sink struct {
	recs []rec
	path string // the child writes what it has so far here (checkpoints), so that a crash later loses nothing
}

func (s *sink) checkpoint() {
	if s.path == "" {
		return
	}
	b, err := json.Marshal(s.recs)
	if err != nil {
		panic(err)
	}
	if err := os.WriteFile(s.path+".tmp", b, 0o644); err != nil {
		panic(err)
	}
	if err := os.Rename(s.path+".tmp", s.path); err != nil {
		panic(err)
	}
}

func (s *sink) Violate(fp, what string, in map[string]any) {
	s.recs = append(s.recs, rec{Kind: "violate", Class: fp, What: what, In: in})
}
func (s *sink) Count(k string) { s.recs = append(s.recs, rec{Kind: "count", Class: k}) }

func (s *sink) apply(w *casefile.Writer) {
	for _, r := range s.recs {
		switch r.Kind {
		case "violate":
			w.Violate(r.Class, r.What, r.In)
		case "count":
			w.Count(r.Class)
		case "one":
			emitOne(w, r.Class, r.Doc, r.Fields, r.Allow, r.Out, r.In)
		case "page":
			pageCase(w, r.Class, r.Unf, r.Fil, r.Fields, r.Allow, r.In)
		}
	}
}

type tailBuf struct {
	mu sync.Mutex
	b  []byte
}

func (t *tailBuf) Write(p []byte) (int, error) {
	t.mu.Lock()
	defer t.mu.Unlock()
	t.b = append(t.b, p...)
	if len(t.b) > 1<<18 {
		t.b = append([]byte{}, t.b[len(t.b)-(1<<17):]...)
	}
	return len(p), nil
}

func runConcChild(w *casefile.Writer, seed uint64, iters int, extra map[string]any) {
	f, err := os.CreateTemp("", "verif-c20-conc-*.json")
	if err != nil {
		panic(err)
	}
	f.Close()
	defer os.Remove(f.Name())
	cmd := exec.Command(os.Args[0], "-concchild", f.Name(), "-seed", fmt.Sprint(seed), "-conciters", fmt.Sprint(iters), "-out", os.TempDir())
	childTmp, err := os.MkdirTemp("", "verif-c20-child-")
	if err != nil {
		panic(err)
	}
	defer os.RemoveAll(childTmp) // also when the child dies without cleaning up its cluster directory
	cmd.Env = append(os.Environ(), "TMPDIR="+childTmp)
	tb := &tailBuf{}
	cmd.Stderr = tb
	cmd.Stdout = tb
	if err := cmd.Run(); err != nil {
		// keep the panic message and the first frames
		txt := string(tb.b)
		if i := strings.Index(txt, "panic:"); i >= 0 {
			txt = txt[i:]
		} else if i := strings.Index(txt, "fatal error:"); i >= 0 {
			txt = txt[i:]
		}
		lines := strings.Split(txt, "\n")
		if len(lines) > 14 {
			lines = lines[:14]
		}
		w.Violate("crash:concurrent-fetch", "the process serving several filtered fetches at once (after a big document went through a filter and "+
			"after fetches cancelled mid-stream) died: "+err.Error()+": "+strings.Join(lines, " | "), extra)
		// what the child had recorded before it died still counts
		if b, err := os.ReadFile(f.Name()); err == nil && len(b) > 0 {
			var s sink
			if json.Unmarshal(b, &s.recs) == nil {
				s.apply(w)
			}
		}
		return
	}
	b, err := os.ReadFile(f.Name())
	if err != nil {
		panic(err)
	}
	var s sink
	if err := json.Unmarshal(b, &s.recs); err != nil {
		panic(err)
	}
	s.apply(w)
}

// cancelStream is a Fetch stream whose client goes away: the (k+1)-th Send fails and the context is cancelled
type cancelStream struct {
	grpc.ServerStream
	ctx    context.Context
	cancel func()
	k      int
	sent   [][]byte
}

func (s *cancelStream) Context() context.Context { return s.ctx }
func (s *cancelStream) Send(m *pstoreapi.BinaryData) error {
	if len(s.sent) >= s.k {
		s.cancel()
		return fmt.Errorf("rpc error: code = Canceled desc = context canceled")
	}
	s.sent = append(s.sent, append([]byte{}, m.Data...))
	return nil
}

// concE2E is what the child does
func concE2E(seed uint64, iters int, path string) *sink {
	w := &sink{path: path}
	extra := map[string]any{"concurrent_seed": seed, "iters": iters}
	r := rng.New(seed ^ 0xC20D)
	const G = 6
	pool := keyPool(r)
	var mu sync.Mutex
	var wg sync.WaitGroup
	conf.UseSeqQLByDefault = true
	c := startCluster(2)
	defer c.stop()
	base := time.Now().UTC().Add(-time.Hour).Truncate(time.Second)
	nd := 36
	docs := make([][]byte, nd)
	for i := range docs {
		tv := map[string]string{"time": `"` + base.Add(time.Duration(i)*time.Second).Format(time.RFC3339) + `"`}
		if i%12 == 5 {
			docs[i] = bigDoc(r, r.Range(70, 200), tv)
			continue
		}
		size := r.Range(2, 12)
		if size > len(pool) {
			size = len(pool)
		}
		keys := append(distinctKeys(r, pool, size), "time")
		rng.Shuffle(r, keys)
		docs[i] = renderDoc(r, keys, genOpts{noNewline: true}, tv)
	}
	if err := c.bulkSpread(r, docs); err != nil {
		w.Violate("page:bulk-error", "bulk of valid JSON objects failed: "+err.Error(), extra)
		return w
	}
	c.env.WaitIdle()
	w.Count(fmt.Sprintf("concurrent-cluster:shards=%d,with-docs=%d", c.shards, c.shardsWithDocs()))
	qpr, plain, _, err := c.env.Search("*", nd+5)
	if err != nil || len(plain) != nd {
		w.Violate("page:error", fmt.Sprintf("unfiltered search: %v, %d of %d documents", err, len(plain), nd), extra)
		return w
	}
	// the big documents once through every path with a filter that keeps them big (sequential; page cases)
	for _, via := range []string{"page-search", "page-documents", "page-store-fetch"} {
		fields, allow := []string{"small"}, false
		in := map[string]any{"kind": "big", "size": nd, "offset": 0, "order": int(seq.DocsOrderDesc), "stored": batchStrings(docs),
			"sealed": false, "shards": c.shards, "via": via, "query": "* | fields except small"}
		a, b, err := c.observe(via, "* | fields except small", fields, allow, nd, 0, seq.DocsOrderDesc)
		if err != nil {
			w.Violate("page:error", err.Error(), in)
			continue
		}
		w.recs = append(w.recs, rec{Kind: "page", Class: via, Unf: a, Fil: b, Fields: fields, Allow: allow, In: in})
	}
	// fetches whose client goes away mid-stream: Send fails after k documents with the context cancelled
	allStrs := make([]string, nd)
	allIDs := make([]seq.ID, nd)
	for i := range allStrs {
		allStrs[i], allIDs[i] = qpr.IDs[i].ID.String(), qpr.IDs[i].ID
	}
	cfields, callow := []string{"small", "time"}, false
	for _, k := range []int{0, 1, 3, 9} {
		for si, reps := range c.env.HotStores {
			ctx, cancel := context.WithCancel(context.Background())
			cs := &cancelStream{ctx: ctx, cancel: cancel, k: k}
			gc := debug.SetGCPercent(-1)
			var pan any
			func() {
				defer func() { pan = recover() }()
				_ = reps[0].GrpcV1().Fetch(&pstoreapi.FetchRequest{Ids: allStrs,
					FieldsFilter: &pstoreapi.FetchRequest_FieldsFilter{Fields: cfields, AllowList: callow}}, cs)
			}()
			cancel()
			in := map[string]any{"concurrent_seed": seed, "iters": iters, "cancel_after": k, "store": si}
			if pan != nil {
				debug.SetGCPercent(gc)
				w.Violate("panic:cancelled-fetch", fmt.Sprintf("Fetch panics when its stream is cancelled after %d documents: %v", k, pan), in)
				continue
			}
			// deterministic companion: right after it, filters acquired together must be distinct objects
			held := []*storeapi.VerifC20Filter{storeapi.VerifC20Acquire([]string{"a"}, true), storeapi.VerifC20Acquire([]string{"b"}, false),
				storeapi.VerifC20Acquire([]string{"c"}, true)}
			for i := range held {
				for j := i + 1; j < len(held); j++ {
					if sf, sd := storeapi.VerifC20FilterIdentity(held[i], held[j]); sf || sd {
						w.Violate("pool:double-release", fmt.Sprintf("after a Fetch whose stream was cancelled after %d documents (Send error, context cancelled), "+
							"two filters acquired without a release in between are the same object: %v (same decoder: %v)", k, sf, sd), in)
					}
				}
			}
			for _, f := range held {
				f.Release()
			}
			debug.SetGCPercent(gc)
			for i, blk := range cs.sent { // what was sent before the client went away is still a projection
				if b := disk.DocBlock(blk); b.Len() > 0 {
					w.recs = append(w.recs, rec{Kind: "one", Class: "cancelled-fetch", Doc: plain[i], Fields: cfields, Allow: callow,
						Out: append([]byte{}, b.Payload()...), In: in})
				}
			}
			w.Count("cancelled-fetches")
		}
		w.checkpoint()
	}
	// the same through the real gRPC client (proxy -> store): read k documents, then cancel
	for _, k := range []int{0, 1, 3, 9} {
		ctx, cancel := context.WithCancel(context.Background())
		if st, err := c.env.Ingestor().SearchIngestor.Documents(ctx, search.FetchRequest{IDs: allIDs,
			FieldsFilter: search.FetchFieldsFilter{Fields: append([]string{}, cfields...), AllowList: callow}}); err == nil {
			for i := 0; i < k; i++ {
				if _, err := st.Next(); err != nil {
					break
				}
			}
		}
		cancel()
	}
	time.Sleep(50 * time.Millisecond) // let the cancelled handlers leave
	w.checkpoint()
	// G requests over disjoint sets of documents (g gets the positions congruent g mod G), at once
	type ejob struct {
		pos    []int
		ids    []seq.ID
		strs   []string
		fields []string
		allow  bool
		q      string
	}
	ej := make([]ejob, G)
	present := unionKeys(docs)
	for g := range ej {
		for p := g; p < nd; p += G {
			ej[g].pos = append(ej[g].pos, p)
			ej[g].ids = append(ej[g].ids, qpr.IDs[p].ID)
			ej[g].strs = append(ej[g].strs, qpr.IDs[p].ID.String())
		}
		if g%3 == 0 {
			ej[g].fields, ej[g].allow = []string{"small", "time", rng.Pick(r, present)}, false // keeps the big documents big
		} else {
			ej[g].fields, _ = genFilter(r, present, pool)
			if len(ej[g].fields) == 0 {
				ej[g].fields = []string{"time"}
			}
			ej[g].allow = r.Bool()
		}
		ej[g].q = "*" + pipeText(r, ej[g].fields, ej[g].allow)
	}
	eseen := map[concOut]bool{}
	var errs []string
	eiters := iters
	for g := 0; g < G; g++ {
		wg.Add(1)
		go func(g int) {
			defer wg.Done()
			j := ej[g]
			note := func(via string, pos int, out []byte) {
				mu.Lock()
				eseen[concOut{g, pos, via, string(out)}] = true
				mu.Unlock()
			}
			fail := func(e string) {
				mu.Lock()
				errs = append(errs, e)
				mu.Unlock()
			}
			for it := 0; it < eiters; it++ {
				switch it % 3 {
				case 0: // proxy fetch of this request's IDs with its filter
					ctx, cancel := context.WithCancel(context.Background())
					st, err := c.env.Ingestor().SearchIngestor.Documents(ctx, search.FetchRequest{IDs: j.ids,
						FieldsFilter: search.FetchFieldsFilter{Fields: append([]string{}, j.fields...), AllowList: j.allow}})
					if err != nil {
						cancel()
						fail("proxy fetch: " + err.Error())
						continue
					}
					got := search.ReadAll(st)
					cancel()
					for i, p := range j.pos {
						if i < len(got) {
							note("documents", p, got[i])
						} else {
							note("documents", p, nil)
						}
					}
				case 1: // Fetch on every store
					have := make([][]byte, len(j.pos))
					for _, reps := range c.env.HotStores {
						st, err := storeapi.NewClient(reps[0]).Fetch(context.Background(), &pstoreapi.FetchRequest{Ids: j.strs,
							FieldsFilter: &pstoreapi.FetchRequest_FieldsFilter{Fields: append([]string{}, j.fields...), AllowList: j.allow}})
						if err != nil {
							fail("store fetch: " + err.Error())
							continue
						}
						for i := 0; ; i++ {
							d, err := st.Recv()
							if err != nil {
								break
							}
							if blk := disk.DocBlock(d.Data); blk.Len() > 0 && i < len(have) {
								have[i] = append([]byte{}, blk.Payload()...)
							}
						}
					}
					for i, p := range j.pos {
						note("store-fetch", p, have[i])
					}
				default: // search with the pipe over a window of the result (windows overlap between requests: reads only)
					size, offset := 6, (g*5)%(nd-6)
					_, got, _, err := c.env.Search(j.q, size, setup.WithOffset(offset))
					if err != nil {
						fail("search: " + err.Error())
						continue
					}
					for i := 0; i < size; i++ {
						if i < len(got) {
							note("search", offset+i, got[i])
						} else {
							note("search", offset+i, nil)
						}
					}
				}
			}
		}(g)
	}
	wg.Wait()
	sort.Strings(errs)
	for i, e := range errs {
		if i == 0 || errs[i-1] != e {
			w.Violate("page:error", "concurrent "+e, extra)
		}
	}
	for _, o := range sortedConc(eseen) {
		ex := map[string]any{"request": o.g, "via": o.via}
		for k, v := range extra {
			ex[k] = v
		}
		w.recs = append(w.recs, rec{Kind: "one", Class: "concurrent-fetch", Doc: plain[o.pos], Fields: ej[o.g].fields, Allow: ej[o.g].allow, Out: []byte(o.out), In: ex})
	}
	return w
}

func sortedConc(seen map[concOut]bool) []concOut {
	all := make([]concOut, 0, len(seen))
	for o := range seen {
		all = append(all, o)
	}
	sort.Slice(all, func(a, b int) bool {
		x, y := all[a], all[b]
		if x.g != y.g {
			return x.g < y.g
		}
		if x.via != y.via {
			return x.via < y.via
		}
		if x.pos != y.pos {
			return x.pos < y.pos
		}
		return x.out < y.out
	})
	return all
}

func emitConc(w *casefile.Writer, seen map[concOut]bool, class string, extra map[string]any, of func(concOut) ([]byte, []string, bool)) {
	for _, o := range sortedConc(seen) {
		doc, fields, allow := of(o)
		ex := map[string]any{"request": o.g, "via": o.via}
		for k, v := range extra {
			ex[k] = v
		}
		emitOne(w, class, doc, fields, allow, []byte(o.out), ex)
	}
}

// ---------------------------------------------------------------- main / replay

func main() {
	seed := flag.Uint64("seed", 1, "")
	tier := flag.String("tier", "quick", "")
	out := flag.String("out", "", "")
	replay := flag.String("replay", "", "")
	concChild := flag.String("concchild", "", "internal: run the concurrent end-to-end stage and write its records to this file")
	concItersFlag := flag.Int("conciters", 200, "internal")
	flag.Parse()
	if *concChild != "" {
		concE2E(*seed, *concItersFlag, *concChild).checkpoint()
		return
	}
	if *out == "" {
		fmt.Fprintln(os.Stderr, "need -out")
		os.Exit(2)
	}
	w, err := casefile.New(*out, "C20", "From VLib Require Import CaseLib.\nFrom C20 Require Import Model CaseDefs.", 400)
	if err != nil {
		panic(err)
	}
	if insaneJSON.MapUseThreshold != math.MaxInt32 {
		// the model covers the linear Dig only; the seq-db binary disables the map cache in proxy/bulk's init()
		w.Violate("config:map-threshold", fmt.Sprintf("insaneJSON.MapUseThreshold = %d, expected math.MaxInt32 (proxy/bulk init)",
			insaneJSON.MapUseThreshold), nil)
	}
	if *replay != "" {
		doReplay(w, *replay)
		if err := w.Close(); err != nil {
			panic(err)
		}
		return
	}
	r := rng.New(*seed)
	nFilter, nDup, nPipe, nReq, rounds, perRound, queries, concIters := 5000, 1200, 1500, 600, 2, 24, 40, 300
	nPipeText, lexQueries := 1500, 16
	if *tier == "thorough" {
		nFilter, nDup, nPipe, nReq, rounds, perRound, queries, concIters = 120000, 12000, 20000, 8000, 8, 60, 120, 1500
		nPipeText, lexQueries = 20000, 80
	}
	// first, while the filter pool of this process is still empty: the pool discipline (deterministic)
	streamPool(w, *seed, 4)
	// then, while nothing else in the process decodes JSON: the duplicate-key stream once more under
	// insane-json's LIBRARY-DEFAULT map threshold (16). The seq-db binary never runs with it (cmd/seq-db
	// imports proxy/bulk in every mode, whose init() sets MaxInt32), but any other embedding of storeapi
	// (its own unit tests, for one) does; the filter must not depend on that global.
	insaneJSON.MapUseThreshold = 16
	streamDup(w, rng.New(*seed^0xC20B), nDup/3, "mapthr16-dupkeys-", true)
	insaneJSON.MapUseThreshold = math.MaxInt32
	streamFilter(w, r.Fork(), nFilter)
	streamDup(w, r.Fork(), nDup, "dupkeys-", false)
	streamPipe(w, r.Fork(), nPipe)
	streamReq(w, r.Fork(), nReq)
	rPage := r.Fork()
	streamPage(w, rPage, rng.New(*seed^0xC20E), rounds, perRound, queries, lexQueries)
	streamPipeText(w, rng.New(*seed^0xC20F), nPipeText)
	streamConcurrent(w, *seed, concIters)
	if err := w.Close(); err != nil {
		panic(err)
	}
}

func strList(v any) []string {
	xs, _ := v.([]any)
	out := make([]string, 0, len(xs))
	for _, x := range xs {
		s, _ := x.(string)
		out = append(out, s)
	}
	return out
}

// replay: re-run the stored input of a violation on the real code and re-emit its case
func doReplay(w *casefile.Writer, path string) {
	b, err := os.ReadFile(path)
	if err != nil {
		panic(err)
	}
	var rp struct {
		Replay struct {
			Case struct {
				Class string         `json:"class"`
				Input map[string]any `json:"input"`
			} `json:"case"`
			Input map[string]any `json:"input"`
		} `json:"replay"`
	}
	if err := json.Unmarshal(b, &rp); err != nil {
		panic(err)
	}
	in := rp.Replay.Case.Input
	if in == nil {
		in = rp.Replay.Input
	}
	class := rp.Replay.Case.Class
	allow, _ := in["allow_list"].(bool)
	fields := strList(in["fields"])
	toDocs := func(v any) [][]byte {
		var out [][]byte
		for _, s := range strList(v) {
			out = append(out, []byte(s))
		}
		return out
	}
	switch {
	case in["query"] != nil && in["stored"] == nil:
		q, _ := in["query"].(string)
		got := search.VerifC20TryParseFieldsFilter(q)
		fmt.Printf("replay tryParseFieldsFilter(%q) = fields %q allow_list=%v\n", q, got.Fields, got.AllowList)
		w.Evals(1)
	case in["concurrent_seed"] != nil:
		sd, _ := in["concurrent_seed"].(float64)
		it, _ := in["iters"].(float64)
		fmt.Printf("replay: re-running the concurrent requests of seed %d (%d iterations); outputs that differ from the projection are re-emitted as cases\n", uint64(sd), int(it))
		streamConcurrent(w, uint64(sd), int(it))
	case in["pool"] != nil:
		fmt.Println("replay: re-running the pool discipline stream (needs a fresh process: this is one)")
		sd, _ := in["pool"].(float64)
		streamPool(w, uint64(sd), 4)
	case in["req_fields"] != nil:
		n, _ := in["sources"].(float64)
		reqCase(w, rng.New(1), strList(in["req_fields"]), allow, int(n), "replay")
		fmt.Printf("replay makeFetchReq x%d with one filter %q: see the re-emitted case\n", int(n), strList(in["req_fields"]))
	case in["batch"] != nil:
		docs := toDocs(in["batch"])
		prefix := ""
		if strings.HasPrefix(class, "dupkeys-") {
			prefix = "dupkeys-"
		}
		if strings.HasPrefix(class, "mapthr16-") {
			prefix = "mapthr16-dupkeys-"
			insaneJSON.MapUseThreshold = 16 // the configuration of that stream
		}
		g := runFilter(docs, fields, allow)
		for i := range docs {
			if g.out != nil {
				fmt.Printf("replay filter fields=%q allow_list=%v\n  doc  %s\n  out  %s\n", fields, allow, docs[i], g.out[i])
			}
		}
		filterBatch(w, docs, fields, allow, prefix, "replay")
	case in["stored"] != nil:
		// a page: rebuild the cluster with the stored documents and repeat the observation
		// (document times must still be within the proxy's 24h drift window for the same order)
		conf.UseSeqQLByDefault = true
		nsh, _ := in["shards"].(float64)
		if nsh < 1 {
			nsh = 2
		}
		c := startCluster(int(nsh))
		defer c.stop()
		if err := c.bulkSpread(rng.New(1), toDocs(in["stored"])); err != nil {
			fmt.Println("replay: bulk failed:", err)
			return
		}
		c.env.WaitIdle()
		if sealed, _ := in["sealed"].(bool); sealed {
			c.env.SealAll()
		}
		via, _ := in["via"].(string)
		q, _ := in["query"].(string)
		num := func(k string) int { f, _ := in[k].(float64); return int(f) }
		var plain, got [][]byte
		var err error
		if via == "page-search-lex" {
			e, _ := in["expr"].(string)
			plain, got, err = c.observeLex(e, q, num("size"), num("offset"), seq.DocsOrder(num("order")))
			ff := search.VerifC20TryParseFieldsFilter(q)
			fmt.Printf("replay Ingestor.Search(%q): tryParseFieldsFilter of the whole text = fields %q allow_list=%v\n", q, ff.Fields, ff.AllowList)
		} else {
			plain, got, err = c.observe(via, q, fields, allow, num("size"), num("offset"), seq.DocsOrder(num("order")))
		}
		if err != nil {
			fmt.Println("replay:", err)
			return
		}
		for i := range plain {
			g := "<missing>"
			if i < len(got) {
				g = string(got[i])
			}
			fmt.Printf("replay %s fields=%q allow_list=%v\n  unfiltered  %s\n  filtered    %s\n", via, fields, allow, plain[i], g)
		}
		pageCase(w, via, plain, got, fields, allow, map[string]any{"replayed": true, "via": via})
	default:
		fmt.Println("replay: unrecognised input")
	}
}
