// hC06 — correspondence driver for property C06 (aggregations and histograms equal values computed
// from the matching documents). Builds REAL fractions (active and sealed) through fracbuild, runs the
// real per-fraction search (DataProvider.Search -> processor.IndexSearch with the real aggregators),
// merges the partial results with the real seq.MergeQPRs in random merge trees (and through the real
// Searcher), optionally through the store->proxy conversion (buildSearchResponse + protobuf +
// responseToQPR) and the JSON codec of AggregatableSamples, runs QPR.Aggregate, and writes the
// observations as Coq cases (props/C06/coq/CaseDefs.v).
//
// Floats are never printed as text: every float64 is written as its exact value m*2^e.
package main

import (
	"context"
	"encoding/json"
	"errors"
	"flag"
	"fmt"
	"math"
	"math/big"
	"os"
	"sort"
	"strconv"
	"strings"
	"sync"

	"github.com/ozontech/seq-db/consts"
	"github.com/ozontech/seq-db/frac"
	"github.com/ozontech/seq-db/frac/processor"
	"github.com/ozontech/seq-db/fracmanager"
	"github.com/ozontech/seq-db/parser"
	pb "github.com/ozontech/seq-db/pkg/storeapi"
	proxysearch "github.com/ozontech/seq-db/proxy/search"
	"github.com/ozontech/seq-db/seq"
	"github.com/ozontech/seq-db/storeapi"

	"verif/harness/internal/casefile"
	"verif/harness/internal/fracbuild"
	"verif/harness/internal/rng"
)

// ---------------------------------------------------------------- corpus

type doc struct {
	mid, rid uint64
	f        map[string]string // field -> token value (absent = document has no such token)
}

type world struct {
	idx    int
	exact  bool
	fracs  [][]doc
	sealed []bool
	big    bool
	huge   int // 0 = no; 1..4 = values beyond the int64 range (see hugePools)
	// "" = ordinary; "extreme" = magnitudes near overflow/underflow, signed zeros, cancelling values;
	// "malformed" = general decimals plus tokens parseNum rejects; "repeats" = few general decimals and few groups
	// (a field token occurs several times in one bin: InsertNTimes with cnt > 1). Only float cases are emitted for these.
	fkind string
	// order in which a document's tokens are handed to the indexer (an active fraction numbers its TIDs in arrival
	// order: with the aggregated field first its TIDs are small and collide with source indices)
	tokOrder []string
	cfg      *fracmanager.Config // the manager's configuration: AggLimits are switched between searches
}

var groupNames = map[string][]string{
	"g": {"api", "web", "db", "cache", "7"},
	"h": {"a|b", "x y", "|", "Ünï", "_ne", "0|1|2", "web"},
}

const midBase = 1_000_000

var mapping = seq.Mapping{
	"m": seq.NewSingleType(seq.TokenizerTypeKeyword, "", 0),
	"g": seq.NewSingleType(seq.TokenizerTypeKeyword, "", 0),
	"h": seq.NewSingleType(seq.TokenizerTypeKeyword, "", 0),
	"v": seq.NewSingleType(seq.TokenizerTypeKeyword, "", 0),
	"w": seq.NewSingleType(seq.TokenizerTypeKeyword, "", 0),
}

// Values beyond +-2^63 (uint64 ids, "1e19", ...): NewSamplesContainers starts Min/Max at +-2^63, which is
// not neutral for them. Pools 1..3 are exactly representable doubles of the family 2^19 * integer
// (j*10^19, j*2^64, +-2^63), so that every partial sum of <= 60 of them is exact (bit-exact stream);
// pool 4 mixes them with 1e300 and small values (tolerant stream; min/max/quantiles stay exact).
var hugePos = []string{"1e19", "2e19", "3E+19", "10000000000000000000", "18446744073709551616", "1.8446744073709552e19",
	"3.6893488147419103e19", "9223372036854775808", "9.223372036854775808e18", "18446744073709551615"}
var hugeNeg = []string{"-1e19", "-2e19", "-3e19", "-18446744073709551616", "-9223372036854775808", "-9.223372036854775808E18",
	"-3.6893488147419103e19"}
var hugeMixed = []string{"1e300", "-1e300", "1e19", "-1e19", "9.3e18", "-9.3e18", "1.5e19", "5", "-3.5", "0", "9223372036854775807",
	"12345678901234567890"}

func hugePool(kind int) []string {
	switch kind {
	case 1:
		return hugePos
	case 2:
		return hugeNeg
	case 3:
		return append(append([]string{}, hugePos...), hugeNeg...)
	}
	return hugeMixed
}

// exactValue renders k/16 as a decimal token in a random style (plain, exponent, sign, zeros).
func exactValue(r *rng.R, k int64) string {
	neg := k < 0
	a := k
	if neg {
		a = -k
	}
	// a/16 = a*625/10000
	n := a * 625
	ip, fp := n/10000, n%10000
	var s string
	switch r.Intn(5) {
	case 0, 1: // plain decimal, trailing zeros trimmed
		fs := strings.TrimRight(fmt.Sprintf("%04d", fp), "0")
		if fs == "" {
			s = fmt.Sprint(ip)
			if r.Chance(1, 4) {
				s += ".0"
			}
		} else {
			s = fmt.Sprintf("%d.%s", ip, fs)
		}
	case 2: // integer mantissa with negative exponent
		s = fmt.Sprintf("%de-4", n)
	case 3: // scientific
		s = fmt.Sprintf("%d.%04dE0", ip, fp)
		if r.Bool() {
			s = fmt.Sprintf("%d.%04d0e+00", ip, fp)
		}
	default: // shifted exponent
		s = fmt.Sprintf("%d.%04de1", n/100000, n%100000/10)
		if n%10 != 0 {
			s = fmt.Sprintf("%d.%05de1", n/100000, n%100000)
		}
	}
	// numbers that arrive as JSON strings: zero-padded integers ("010", "0017", "08"), "5.", ".5", "1e2"
	switch r.Intn(6) {
	case 0:
		if fp == 0 {
			s = strings.Repeat("0", r.Range(1, 3)) + fmt.Sprint(ip)
		} else if ip == 0 {
			s = "." + strings.TrimRight(fmt.Sprintf("%04d", fp), "0")
		}
	case 1:
		if fp == 0 && r.Bool() {
			s = fmt.Sprintf("%d.", ip)
		} else if fp == 0 && ip%100 == 0 && ip > 0 {
			s = fmt.Sprintf("%de2", ip/100)
		} else if fp == 0 {
			s = fmt.Sprintf("%03d", ip)
		}
	}
	if neg {
		s = "-" + s
	} else if r.Chance(1, 6) {
		s = "+" + s
	}
	v, err := strconv.ParseFloat(s, 64)
	if err != nil || v != float64(k)/16 {
		panic(fmt.Sprintf("hC06: bad rendering %q of %d/16 (%v %v)", s, k, v, err))
	}
	return s
}

// generalValue: a decimal token whose float64 value is in general not a short dyadic.
func generalValue(r *rng.R) string {
	mant := r.Intn(1000000)
	if mant == 0 {
		mant = 1 // never "-0.000": the wire conversion does not keep the sign of a zero (see runSearch)
	}
	var s string
	switch r.Intn(4) {
	case 0:
		s = fmt.Sprintf("%d.%03d", mant/1000, mant%1000)
	case 1:
		s = fmt.Sprintf("%d.%05de%d", mant/100000, mant%100000, r.Range(-6, 6))
	case 2:
		s = fmt.Sprintf("0.%06d", mant)
	default:
		s = fmt.Sprintf("%dE-%d", mant, r.Range(0, 8))
	}
	if r.Chance(1, 3) {
		s = "-" + s
	}
	return s
}

func genWorld(seed uint64, idx int, tier string) *world {
	r := rng.New(seed*1000003 + uint64(idx)*7919 + 17)
	w := &world{idx: idx, exact: idx%4 != 3}
	nd := r.Range(3, 60)
	nf := r.Range(1, 4)
	// a few worlds cross the reservoir size (8096 samples)
	bigEvery := 40
	if tier == "thorough" {
		bigEvery = 25
	}
	if idx%bigEvery == 5 {
		w.big = true
		w.exact = true
		nf = r.Range(1, 3)
		switch (idx / bigEvery) % 3 {
		case 0:
			nd = 8096 + r.Range(1, 600) // over the limit
		case 1:
			nd = 8096 // every doc has the field and matches (see below): exactly at the limit
		default:
			nd = 8096 - r.Range(1, 50)
		}
	}
	if idx%10 == 7 {
		w.huge = (idx/10)%4 + 1
		w.exact = w.huge != 4
	}
	if idx%10 == 3 && !w.big {
		w.exact = false
		w.fkind = []string{"extreme", "malformed", "repeats"}[(idx/10)%3]
	}
	// value pool (few distinct tokens in a big world)
	pool := make([]string, 0)
	np := r.Range(2, 25)
	if w.huge > 0 {
		hp := append([]string{}, hugePool(w.huge)...)
		rng.Shuffle(r, hp)
		pool = hp[:r.Range(2, len(hp))]
		np = 0
	}
	if w.fkind != "" {
		np = r.Range(0, 4)
	}
	if w.fkind == "repeats" {
		np = r.Range(2, 4) // few distinct general decimals, few groups: field tokens repeat inside a bin (cnt > 1)
	}
	for i := 0; i < np; i++ {
		if w.exact {
			lim := int64(1 << uint(r.Range(3, 16)))
			pool = append(pool, exactValue(r, int64(r.Intn(int(2*lim+1)))-lim))
		} else {
			pool = append(pool, generalValue(r))
		}
	}
	switch w.fkind {
	case "extreme":
		ep := append([]string{}, extremePool...)
		rng.Shuffle(r, ep)
		pool = append(pool, ep[:r.Range(2, 7)]...)
		pool = append(pool, "0", "-0.0") // both zeros in every extreme world: Go's min/max order -0 below +0
	case "malformed":
		bp := append([]string{}, badPool...)
		rng.Shuffle(r, bp)
		pool = append(pool, generalValue(r), generalValue(r))
		pool = append(pool, bp[:r.Range(1, 3)]...)
	}
	if !w.exact && w.huge == 0 && w.fkind != "repeats" {
		// unusual but valid renderings (numbers sent as JSON strings): zero-padded, "+5", ".5", "5.", hex floats, long digit strings
		wv := validWeird()
		rng.Shuffle(r, wv)
		pool = append(wv[:r.Range(1, 3)], pool...)
	}
	if w.fkind == "malformed" {
		bp := append([]string{}, badPool2...)
		rng.Shuffle(r, bp)
		pool = append(pool, bp[:r.Range(1, 2)]...)
	}
	if !w.exact && len(pool) > 12 {
		pool = pool[:12] // at most 12 distinct field tokens per bin: the map-order witness search stays small
	}
	w.tokOrder = []string{"m", "g", "h", "v", "w"}
	if idx%2 == 1 {
		rng.Shuffle(r, w.tokOrder)
	}
	span := uint64(r.Range(1, 5000))
	w.fracs = make([][]doc, nf)
	w.sealed = make([]bool, nf)
	missG, missV := r.Range(0, 5), r.Range(0, 5)
	if w.big {
		missG, missV = r.Intn(2), 0
	}
	rid := uint64(r.Intn(1000))
	for i := 0; i < nd; i++ {
		d := doc{mid: midBase + uint64(r.Intn(int(span)+1)), f: map[string]string{}}
		rid += uint64(r.Range(1, 9))
		d.rid = rid
		if w.big || !r.Chance(1, 4) {
			d.f["m"] = "1"
		} else {
			d.f["m"] = "0"
		}
		if !r.Chance(missG, 10) {
			d.f["g"] = rng.Pick(r, groupNames["g"][:r.Range(1, len(groupNames["g"]))])
		}
		if !r.Chance(missG, 10) {
			d.f["h"] = rng.Pick(r, groupNames["h"])
		}
		if !r.Chance(missV, 10) {
			d.f["v"] = rng.Pick(r, pool)
		}
		if !w.big && !r.Chance(missV, 10) {
			d.f["w"] = rng.Pick(r, pool[:r.Range(1, len(pool))])
		}
		if w.fkind == "repeats" {
			if _, ok := d.f["g"]; ok {
				d.f["g"] = groupNames["g"][i%2]
			}
			if _, ok := d.f["h"]; ok {
				d.f["h"] = groupNames["h"][(i/2)%2]
			}
		}
		fi := r.Intn(nf)
		w.fracs[fi] = append(w.fracs[fi], d)
	}
	// no empty fraction (an empty bulk does not create one)
	var fs [][]doc
	for _, f := range w.fracs {
		if len(f) > 0 {
			fs = append(fs, f)
		}
	}
	w.fracs = fs
	w.sealed = make([]bool, len(fs))
	for i := range w.sealed {
		w.sealed[i] = i < len(fs)-1 || r.Bool() // only the last fraction can stay active
	}
	return w
}

// ---------------------------------------------------------------- searches

type aggSpec struct {
	fn       seq.AggFunc
	field    string
	group    string
	interval int64
	quants   [][2]int // a / 2^b
}

type searchSpec struct {
	text     string
	all      bool // query selects every document (otherwise m:1)
	from, to uint64
	reverse  bool
	hist     uint64
	aggs     []aggSpec
}

var funcNames = map[seq.AggFunc]string{seq.AggFuncCount: "count", seq.AggFuncSum: "sum", seq.AggFuncMin: "min",
	seq.AggFuncMax: "max", seq.AggFuncAvg: "avg", seq.AggFuncQuantile: "quantile", seq.AggFuncUnique: "unique"}
var funcCoq = map[seq.AggFunc]string{seq.AggFuncCount: "FCount", seq.AggFuncSum: "FSum", seq.AggFuncMin: "FMin",
	seq.AggFuncMax: "FMax", seq.AggFuncAvg: "FAvg", seq.AggFuncQuantile: "FQuantile", seq.AggFuncUnique: "FUnique"}

var intervals = []int64{0, 0, 0, 1, 7, 100, 1000, 60000}

func genQuants(r *rng.R) [][2]int {
	switch r.Intn(8) {
	case 0:
		return [][2]int{{0, 0}} // [0]
	case 1:
		return [][2]int{{1, 0}} // [1]
	case 2:
		if r.Bool() {
			return [][2]int{{0, 1}, {2, 1}} // [0, 1]
		}
		return [][2]int{{4, 2}, {0, 3}} // [1, 0]
	}
	n := r.Range(1, 4)
	out := make([][2]int, n)
	for i := range out {
		b := rng.Pick(r, []int{1, 2, 3, 4, 8})
		out[i] = [2]int{r.Range(0, 1<<uint(b)), b}
	}
	return out
}

func genSearch(r *rng.R, w *world) searchSpec {
	s := searchSpec{text: "m:1", from: 0, to: 1 << 40}
	if r.Chance(1, 3) {
		s.text, s.all = "m:1 or m:0", true
	}
	if r.Chance(1, 3) && !w.big {
		a, b := midBase+uint64(r.Intn(5001)), midBase+uint64(r.Intn(5001))
		if a > b {
			a, b = b, a
		}
		s.from, s.to = a, b
	}
	s.reverse = r.Bool()
	if r.Chance(1, 2) && !w.big {
		s.hist = uint64(rng.Pick(r, intervals[3:]))
	}
	na := r.Range(1, 3)
	if w.big {
		na = 1
	}
	for i := 0; i < na; i++ {
		a := aggSpec{interval: rng.Pick(r, intervals)}
		fns := []seq.AggFunc{seq.AggFuncCount, seq.AggFuncSum, seq.AggFuncMin, seq.AggFuncMax, seq.AggFuncAvg,
			seq.AggFuncQuantile, seq.AggFuncQuantile, seq.AggFuncUnique}
		a.fn = rng.Pick(r, fns)
		if w.big && i == 0 {
			a.fn = seq.AggFuncQuantile
		}
		switch a.fn {
		case seq.AggFuncCount, seq.AggFuncUnique:
			a.group = rng.Pick(r, []string{"g", "h"})
		default:
			a.field = rng.Pick(r, []string{"v", "w"})
			if w.big {
				a.field = "v"
			}
			if r.Bool() {
				a.group = rng.Pick(r, []string{"g", "h"})
			}
			if w.big && i == 0 {
				a.group, a.interval = "", 0 // one bin holds every sample
			}
			if a.fn == seq.AggFuncQuantile {
				a.quants = genQuants(r)
				if w.big && i == 0 {
					a.quants = [][2]int{{1, 1}, {0, 0}, {255, 8}, {1, 0}}
				}
			}
		}
		s.aggs = append(s.aggs, a)
	}
	return s
}

// floatOnlySearch: one aggregation over a numeric field, no histogram (extreme / malformed worlds)
func floatOnlySearch(s searchSpec, w *world, si int) searchSpec {
	s.hist = 0
	a := s.aggs[0]
	if w.fkind == "repeats" && a.group == "" && si%3 != 0 {
		a.group = "g"
	}
	if a.field == "" {
		a.fn, a.field = seq.AggFuncSum, "v"
	}
	if a.fn == seq.AggFuncQuantile {
		a.fn, a.quants = seq.AggFuncAvg, nil
	}
	s.aggs = []aggSpec{a}
	return s
}

func literal(field string) *parser.Literal {
	if field == "" {
		return nil
	}
	return &parser.Literal{Field: field, Terms: []parser.Term{{Kind: parser.TermSymbol, Data: "*"}}}
}

func (s searchSpec) query() fracbuild.Query {
	q := fracbuild.Query{Text: s.text, Mapping: mapping, From: s.from, To: s.to, Limit: 0, Reverse: s.reverse, Hist: s.hist}
	for _, a := range s.aggs {
		aq := processor.AggQuery{Field: literal(a.field), GroupBy: literal(a.group), Func: a.fn, Interval: a.interval}
		for _, q := range a.quants {
			aq.Quantiles = append(aq.Quantiles, float64(q[0])/float64(int(1)<<uint(q[1])))
		}
		q.AggQ = append(q.AggQ, aq)
	}
	return q
}

// ---------------------------------------------------------------- merge trees over real QPRs

type tree struct {
	leaf     int // index of the fraction, -1 = empty total, -2 = inner
	children []*tree
	conv     string // "", "wire", "json": conversion applied to the merged result of this node
}

func (t *tree) coq(leafCoq []string) string {
	switch t.leaf {
	case -1:
		return "(Leaf [])"
	case -2:
		s := t.children[0].coq(leafCoq)
		for _, c := range t.children[1:] {
			s = "(Node " + s + " " + c.coq(leafCoq) + ")"
		}
		return s
	}
	return leafCoq[t.leaf]
}

func (t *tree) String() string {
	switch t.leaf {
	case -1:
		return "0"
	case -2:
		parts := make([]string, len(t.children))
		for i, c := range t.children {
			parts[i] = c.String()
		}
		return t.conv + "(" + strings.Join(parts, " ") + ")"
	}
	return fmt.Sprintf("%sf%d", t.conv, t.leaf)
}

func randTree(r *rng.R, leaves []int) *tree {
	var t *tree
	if len(leaves) == 1 {
		t = &tree{leaf: leaves[0]}
	} else {
		// split into 2..4 groups, first is dst
		k := r.Range(2, min(4, len(leaves)))
		cuts := map[int]bool{}
		for len(cuts) < k-1 {
			cuts[r.Range(1, len(leaves)-1)] = true
		}
		t = &tree{leaf: -2}
		start := 0
		for i := 1; i <= len(leaves); i++ {
			if cuts[i] || i == len(leaves) {
				t.children = append(t.children, randTree(r, leaves[start:i]))
				start = i
			}
		}
	}
	switch r.Intn(6) {
	case 0:
		t.conv = "wire"
	case 1:
		t.conv = "json"
	}
	return t
}

func copyQPR(q *seq.QPR) *seq.QPR {
	out := &seq.QPR{Total: q.Total}
	if q.Histogram != nil {
		out.Histogram = make(map[seq.MID]uint64, len(q.Histogram))
		for k, v := range q.Histogram {
			out.Histogram[k] = v
		}
	}
	if q.Aggs != nil {
		out.Aggs = make([]seq.AggregatableSamples, len(q.Aggs))
		for i, a := range q.Aggs {
			out.Aggs[i].NotExists = a.NotExists
			if a.SamplesByBin != nil {
				out.Aggs[i].SamplesByBin = make(map[seq.AggBin]*seq.SamplesContainer, len(a.SamplesByBin))
				for k, s := range a.SamplesByBin {
					out.Aggs[i].SamplesByBin[k] = &seq.SamplesContainer{Min: s.Min, Max: s.Max, Sum: s.Sum, Total: s.Total,
						NotExists: s.NotExists, Samples: append([]float64(nil), s.Samples...)}
				}
			}
		}
	}
	return out
}

// store -> wire bytes -> proxy
func wireRoundTrip(q *seq.QPR) (*seq.QPR, error) {
	resp := storeapi.VerifC06BuildSearchResponse(q)
	b, err := resp.MarshalVT()
	if err != nil {
		return nil, err
	}
	var back pb.SearchResponse
	if err := back.UnmarshalVT(b); err != nil {
		return nil, err
	}
	return proxysearch.VerifC06ResponseToQPR(&back, 1), nil
}

// JSON codec of AggregatableSamples (AggBin.toKey / fromKey), used when async searches are persisted
func jsonRoundTrip(q *seq.QPR) (*seq.QPR, error) {
	out := copyQPR(q)
	for i := range q.Aggs {
		b, err := json.Marshal(&q.Aggs[i])
		if err != nil {
			return nil, err
		}
		var a seq.AggregatableSamples
		if err := json.Unmarshal(b, &a); err != nil {
			return nil, err
		}
		out.Aggs[i] = a
	}
	return out, nil
}

func evalTree(t *tree, leaves []*seq.QPR, s searchSpec) (q *seq.QPR, err error) {
	order := seq.DocsOrderDesc
	if s.reverse {
		order = seq.DocsOrderAsc
	}
	switch t.leaf {
	case -1:
		q = &seq.QPR{Histogram: make(map[seq.MID]uint64), Aggs: make([]seq.AggregatableSamples, len(s.aggs))}
	case -2:
		q, err = evalTree(t.children[0], leaves, s)
		if err != nil {
			return nil, err
		}
		var rest []*seq.QPR
		for _, c := range t.children[1:] {
			x, err := evalTree(c, leaves, s)
			if err != nil {
				return nil, err
			}
			rest = append(rest, x)
		}
		seq.MergeQPRs(q, rest, 0, seq.MID(s.hist), order)
	default:
		q = copyQPR(leaves[t.leaf])
	}
	switch t.conv {
	case "wire":
		return wireRoundTrip(q)
	case "json":
		return jsonRoundTrip(q)
	}
	return q, nil
}

// ---------------------------------------------------------------- exact float output

type flo struct {
	kind int // 0 finite, 1 NaN, 2 Inf
	m    int64
	e    int
}

func flOf(f float64) flo {
	switch {
	case math.IsNaN(f):
		return flo{kind: 1}
	case math.IsInf(f, 0):
		return flo{kind: 2}
	case f == 0:
		return flo{}
	}
	fr, exp := math.Frexp(f)
	m := int64(fr * (1 << 53))
	e := exp - 53
	for m%2 == 0 {
		m /= 2
		e++
	}
	return flo{m: m, e: e}
}

func (f flo) coq() string {
	switch f.kind {
	case 1:
		return "FNaN"
	case 2:
		return "FInf"
	}
	return fmt.Sprintf("(FNum %s %s)", zc(f.m), zc(int64(f.e)))
}

func zc(x int64) string {
	if x < 0 {
		return fmt.Sprintf("(%d)", x)
	}
	return fmt.Sprint(x)
}

type scaler struct{ scale int }

func (s *scaler) see(f float64) {
	x := flOf(f)
	if x.kind == 0 && x.m != 0 && -x.e > s.scale {
		s.scale = -x.e
	}
}

// units of a finite input value at the case's scale, as a Coq Z literal
func unitsCoq(f float64, scale int) string {
	x := flOf(f)
	b := big.NewInt(x.m)
	b.Lsh(b, uint(x.e+scale))
	if b.Sign() < 0 {
		return "(" + b.String() + ")"
	}
	return b.String()
}

// ---------------------------------------------------------------- one search -> cases

type pending struct {
	term, class string
	nontrivial  bool
	input, impl any
}

type violation struct {
	fp, what string
	input    any
}

type result struct {
	cases  []pending
	viols  []violation
	counts []string
}

func selectedDoc(d doc, s searchSpec) bool {
	return (s.all || d.f["m"] == "1") && s.from <= d.mid && d.mid <= s.to
}

func parseVal(tok string) float64 {
	v, err := strconv.ParseFloat(tok, 64)
	if err != nil {
		panic("hC06: generated a non-numeric value " + tok)
	}
	return v
}

func runSearch(w *world, tier string, fracs fracmanager.List, si int, s searchSpec, r *rng.R, res *result, only func(tree, agg int) bool,
	li int, lim aggLimits) {
	w.setLimits(lim)
	res.counts = append(res.counts, "limits:"+lim.kind)
	q := s.query()
	params, err := q.Params()
	if err != nil {
		panic(err)
	}
	baseInput := func() map[string]any {
		in := map[string]any{"world": w.idx, "search": si, "query": s.text, "from": s.from, "to": s.to, "reverse": s.reverse,
			"sealed": w.sealed, "exact": w.exact, "lim_index": li,
			"agg_limits": map[string]int{"max_field_tokens": lim.field, "max_group_tokens": lim.group, "max_tids_per_fraction": lim.tids}}
		if !w.big {
			var fs [][]string
			for _, f := range w.fracs {
				var ds []string
				for _, d := range f {
					var toks []string
					for _, k := range w.tokOrder {
						if v, ok := d.f[k]; ok {
							toks = append(toks, k+":"+v)
						}
					}
					ds = append(ds, fmt.Sprintf("%d/%d %s", d.mid, d.rid, strings.Join(toks, " ")))
				}
				fs = append(fs, ds)
			}
			in["fractions"] = fs
		} else {
			in["docs"] = "big world (regenerate from seed)"
		}
		return in
	}
	viol := func(fp, what string, extra map[string]any) {
		in := baseInput()
		for k, v := range extra {
			in[k] = v
		}
		res.viols = append(res.viols, violation{fp, what, in})
	}
	// per-fraction partial results, exactly as the Searcher obtains them
	inRange := map[int]bool{}
	for _, f := range fracs.FilterInRange(seq.MID(s.from), seq.MID(s.to)) {
		for i := range fracs {
			if fracs[i] == f {
				inRange[i] = true
			}
		}
	}
	leaves := make([]*seq.QPR, len(fracs))
	leafErr := map[int]string{}
	limErr := map[int]bool{}
	var live []int
	for i, f := range fracs {
		if !inRange[i] {
			continue
		}
		qpr, err := fracSearch(f, params)
		if err != nil && w.fkind == "malformed" && strings.Contains(err.Error(), "parse errors reached") {
			leafErr[i] = err.Error()
			live = append(live, i)
			continue
		}
		if err != nil && lim.on() && errors.Is(err, consts.ErrTooManyUniqValues) {
			limErr[i] = true
			live = append(live, i)
			continue
		}
		if err != nil {
			viol("search-error", "per-fraction search failed: "+err.Error(), map[string]any{"fraction": i})
			return
		}
		leaves[i] = qpr
		live = append(live, i)
	}
	if lim.on() && w.fkind == "" && !w.big {
		// which fractions fail with ErrTooManyUniqValues, and does the Searcher fail (production defaults, which
		// cannot reject a small world: the Searcher's verdict only)
		for k, i := range live {
			if lim.kind != limitsProd.kind && (only == nil || only(100+k, -2)) {
				emitLimErr(w, s, si, fmt.Sprintf("fraction %d", i), 100+k, []int{i}, lim, limErr[i], baseInput, res)
			}
		}
		_, serr := guard(func() (*seq.QPR, error) { return fracbuild.Search(fracs, q, 0) })
		if serr != nil && !errors.Is(serr, consts.ErrTooManyUniqValues) {
			viol("search-error", "Searcher.SearchDocs failed: "+serr.Error(), nil)
			return
		}
		if only == nil || only(99, -2) {
			emitLimErr(w, s, si, "searcher", 99, live, lim, serr != nil, baseInput, res)
		}
		if len(limErr) > 0 || serr != nil {
			return
		}
	} else if len(limErr) > 0 {
		viol("search-error", "aggregation limits rejected a search they cannot reject (small world, production defaults)", nil)
		return
	}
	if w.fkind == "malformed" {
		// which fractions fail, and does the Searcher fail: parseNum rejects NaN / Inf / unparsable tokens
		for _, i := range live {
			_, bad := leafErr[i]
			emitFErr(w, s, si, fmt.Sprintf("fraction %d", i), []int{i}, s.aggs[0], bad, leafErr[i], baseInput, res)
		}
		_, serr := guard(func() (*seq.QPR, error) { return fracbuild.Search(fracs, q, 0) })
		txt := ""
		if serr != nil {
			txt = serr.Error()
			if !strings.Contains(txt, "parse errors reached") {
				viol("search-error", "Searcher.SearchDocs failed: "+txt, nil)
				return
			}
		}
		emitFErr(w, s, si, "searcher", live, s.aggs[0], serr != nil, txt, baseInput, res)
		if len(leafErr) > 0 || serr != nil {
			return
		}
	}
	// trees
	type treeRun struct {
		t     *tree
		qpr   *seq.QPR
		leafQ []*seq.QPR // the per-fraction results this run merged (nil: evaluated inside the Searcher)
	}
	var runs []treeRun
	ntrees := 2
	if w.big {
		ntrees = 1
	}
	if lim.on() {
		ntrees = 0 // limits on: the Searcher only (random merge trees are exercised with the limits off)
		if tier != "quick" && si%4 == 0 {
			ntrees = 1
		}
	}
	for k := 0; k < ntrees && len(live) > 0; k++ {
		perm := append([]int(nil), live...)
		rng.Shuffle(r, perm)
		t := randTree(r, perm)
		if w.big {
			stripConv(t)
		}
		if w.fkind == "extreme" {
			// no conversions in these worlds: (1) a Sum that overflowed to +-Inf / NaN cannot be marshalled by
			// encoding/json (AggregatableSamples' JSON form fails with "unsupported value"); (2) the proto3
			// wire form omits a double that compares equal to 0, so a Min/Max of -0.0 comes back as +0.0
			// (numerically equal, but not bit-identical). Both are reported as findings, not exercised here.
			stripConv(t)
		}
		qpr, err := guard(func() (*seq.QPR, error) { return evalTree(t, leaves, s) })
		if err != nil {
			viol("merge-error", "merging/conversion failed: "+err.Error(), map[string]any{"tree": t.String()})
			continue
		}
		runs = append(runs, treeRun{t, qpr, leaves})
	}
	{ // the real Searcher over all fractions
		fpi := r.Intn(3)
		qpr, err := guard(func() (*seq.QPR, error) { return fracbuild.Search(fracs, q, fpi) })
		if err != nil {
			viol("search-error", "Searcher.SearchDocs failed: "+err.Error(), map[string]any{"fractions_per_iteration": fpi})
		} else {
			t := &tree{leaf: -2, children: []*tree{{leaf: -1}}}
			// total (fresh) + the fractions in the Searcher's own order (prepareFracs sorts them)
			for _, i := range searcherOrder(fracs, live, s.reverse) {
				t.children = append(t.children, &tree{leaf: i})
			}
			if len(t.children) == 1 {
				t = &tree{leaf: -1}
			}
			runs = append(runs, treeRun{t, qpr, nil})
		}
	}
	for ti, run := range runs {
		for ai, a := range s.aggs {
			if only != nil && !only(ti, ai) {
				continue
			}
			if w.fkind == "" {
				emitAgg(w, s, si, ti, ai, a, run.t, run.qpr, live, baseInput, res)
			}
			// quick tier: the float case of the first random tree and of the Searcher only
			if tier != "quick" || ti != 1 || len(runs) < 3 || w.fkind != "" || lim.on() {
				emitAggF(w, s, si, ti, ai, a, run.t, run.qpr, live, run.leafQ, baseInput, res)
			}
		}
		// the histogram does not depend on the aggregation limits: with limits on only in the thorough tier
		if s.hist > 0 && w.fkind == "" && (!lim.on() || tier != "quick" && si%4 == 0) && (only == nil || only(ti, -1)) {
			emitHist(w, s, si, ti, run.t, run.qpr, live, baseInput, res)
		}
	}
}

// guard turns a panic of the code under test into an error (reported with the search as replay input)
func guard(f func() (*seq.QPR, error)) (q *seq.QPR, err error) {
	defer func() {
		if p := recover(); p != nil {
			q, err = nil, fmt.Errorf("panic: %v", p)
		}
	}()
	return f()
}

func stripConv(t *tree) {
	t.conv = ""
	for _, c := range t.children {
		stripConv(c)
	}
}

func fracSearch(f frac.Fraction, params processor.SearchParams) (qpr *seq.QPR, err error) {
	defer func() {
		if p := recover(); p != nil {
			err = fmt.Errorf("panic: %v", p)
		}
	}()
	dp, release := f.DataProvider(context.Background())
	defer release()
	return dp.Search(params)
}

// leaves of the case's tree: the fractions in range in the shape of t, then every skipped fraction
// (the model gives them an empty result; the spec sees their documents)
func caseTree(w *world, t *tree, live []int, leafCoq []string) string {
	s := t.coq(leafCoq)
	isLive := map[int]bool{}
	for _, i := range live {
		isLive[i] = true
	}
	for i := range w.fracs {
		if !isLive[i] {
			s = "(Node " + s + " " + leafCoq[i] + ")"
		}
	}
	return s
}

func emitHist(w *world, s searchSpec, si, ti int, t *tree, qpr *seq.QPR, live []int, baseInput func() map[string]any, res *result) {
	leafCoq := make([]string, len(w.fracs))
	nsel := 0
	for i, f := range w.fracs {
		parts := make([]string, len(f))
		for j, d := range f {
			sel := s.all || d.f["m"] == "1"
			if selectedDoc(d, s) {
				nsel++
			}
			parts[j] = fmt.Sprintf("Doc %d %s None None", d.mid, casefile.Bool(sel))
		}
		leafCoq[i] = "(Leaf [" + strings.Join(parts, "; ") + "])"
	}
	type hb struct{ b, c uint64 }
	var hs []hb
	for k, v := range qpr.Histogram {
		hs = append(hs, hb{uint64(k), v})
	}
	sort.Slice(hs, func(i, j int) bool { return hs[i].b < hs[j].b })
	parts := make([]string, len(hs))
	implJ := make([][2]uint64, len(hs))
	for i, h := range hs {
		parts[i] = fmt.Sprintf("(%d, %d)", h.b, h.c)
		implJ[i] = [2]uint64{h.b, h.c}
	}
	term := fmt.Sprintf("CHist %d %d %d %s [%s]%%N", s.hist, s.from, s.to, caseTree(w, t, live, leafCoq), strings.Join(parts, "; "))
	in := baseInput()
	in["tree"], in["tree_index"], in["agg_index"], in["hist_interval"] = t.String(), ti, -1, s.hist
	res.cases = append(res.cases, pending{term, "hist", nsel >= 3 && len(hs) >= 2 && len(live) >= 2, in, implJ})
}

func emitAgg(w *world, s searchSpec, si, ti, ai int, a aggSpec, t *tree, qpr *seq.QPR, live []int, baseInput func() map[string]any, res *result) {
	in := baseInput()
	in["tree"], in["tree_index"], in["agg_index"] = t.String(), ti, ai
	in["agg"] = map[string]any{"func": funcNames[a.fn], "field": a.field, "group_by": a.group, "interval": a.interval, "quantiles_a_over_2^b": a.quants}
	class := "agg-" + funcNames[a.fn]
	if a.group != "" && a.field != "" {
		class += "-group"
	}
	if a.interval > 0 {
		class += "-ts"
	}
	if a.fn == seq.AggFuncQuantile {
		only01 := true
		for _, q := range a.quants {
			if q[0] != 0 && q[0] != 1<<uint(q[1]) {
				only01 = false
			}
		}
		if only01 {
			class += "-minmax-only"
		}
	}
	if w.huge > 0 && a.field != "" {
		class += "-huge"
	}
	if !w.exact {
		class += "-tolerant"
	}
	if ai >= len(qpr.Aggs) {
		res.viols = append(res.viols, violation{"aggs-missing", fmt.Sprintf("QPR.Aggs has %d entries, %d requested", len(qpr.Aggs), len(s.aggs)), in})
		return
	}
	agg := qpr.Aggs[ai]
	args := make([]seq.AggregateArgs, len(s.aggs))
	for i, x := range s.aggs {
		args[i] = seq.AggregateArgs{Func: x.fn, SkipWithoutTimestamp: x.interval > 0}
		for _, q := range x.quants {
			args[i].Quantiles = append(args[i].Quantiles, float64(q[0])/float64(int(1)<<uint(q[1])))
		}
	}
	var aggRes seq.AggregationResult
	var perr any
	func() {
		defer func() { perr = recover() }()
		one := seq.QPR{Aggs: []seq.AggregatableSamples{copyQPR(&seq.QPR{Aggs: []seq.AggregatableSamples{agg}}).Aggs[0]}}
		aggRes = one.Aggregate([]seq.AggregateArgs{args[ai]})[0]
	}()
	if perr != nil {
		res.viols = append(res.viols, violation{"aggregate-panic:" + funcNames[a.fn], fmt.Sprintf("QPR.Aggregate panics: %v", perr), in})
		return
	}
	// token table: ids = rank in sorted order of every name of the case
	names := map[string]bool{"": true, "_not_exists": true}
	for _, f := range w.fracs {
		for _, d := range f {
			if a.group != "" {
				if g, ok := d.f[a.group]; ok {
					names[g] = true
				}
			}
		}
	}
	for k := range agg.SamplesByBin {
		names[k.Token] = true
	}
	for _, b := range aggRes.Buckets {
		names[b.Name] = true
	}
	sorted := make([]string, 0, len(names))
	for n := range names {
		sorted = append(sorted, n)
	}
	sort.Strings(sorted)
	id := map[string]int{}
	for i, n := range sorted {
		id[n] = i
	}
	// scale
	sc := &scaler{}
	for _, f := range w.fracs {
		for _, d := range f {
			if v, ok := d.f[a.field]; ok && a.field != "" {
				sc.see(parseVal(v))
			}
		}
	}
	for _, h := range agg.SamplesByBin {
		sc.see(h.Min)
		sc.see(h.Max)
		sc.see(h.Sum)
		for _, x := range h.Samples {
			sc.see(x)
		}
	}
	for _, b := range aggRes.Buckets {
		if a.fn != seq.AggFuncCount && a.fn != seq.AggFuncUnique {
			sc.see(b.Value)
		}
		for _, x := range b.Quantiles {
			sc.see(x)
		}
	}
	// documents as this aggregation sees them
	leafCoq := make([]string, len(w.fracs))
	nsel, nlive := 0, 0
	// a time series with group in which a selected document has the group token but not the field: before
	// f3224d2 the code kept that per-group not-exists count in bin (MID 0, group), which
	// Aggregate(SkipWithoutTimestamp) drops. Permanent regression class.
	tsGroupNE := false
	for i, f := range w.fracs {
		parts := make([]string, len(f))
		anySel := false
		for j, d := range f {
			g, fv := "None", "None"
			if a.group != "" {
				if x, ok := d.f[a.group]; ok {
					g = fmt.Sprintf("(Some %d%%N)", id[x])
				}
			}
			if a.field != "" {
				if x, ok := d.f[a.field]; ok {
					fv = "(Some " + unitsCoq(parseVal(x), sc.scale) + ")"
				}
			}
			if selectedDoc(d, s) {
				nsel++
				anySel = true
				if a.group != "" && a.field != "" && a.interval > 0 && g != "None" && fv == "None" {
					tsGroupNE = true
				}
			}
			parts[j] = fmt.Sprintf("Doc %d %s %s %s", d.mid, casefile.Bool(s.all || d.f["m"] == "1"), g, fv)
		}
		if anySel {
			nlive++
		}
		leafCoq[i] = "(Leaf [" + strings.Join(parts, "; ") + "])"
	}
	// query
	qs := make([]string, len(a.quants))
	for i, q := range a.quants {
		qs[i] = fmt.Sprintf("(%d, %d)", q[0], q[1])
	}
	qcoq := fmt.Sprintf("(Query %d %d %s %s %d [%s]%%N %d %d)", s.from, s.to, funcCoq[a.fn], casefile.Bool(a.group != "" && a.field != ""),
		a.interval, strings.Join(qs, "; "), id["_not_exists"], sc.scale)
	// bins
	type binOut struct {
		mid  uint64
		tok  int
		name string
		h    *seq.SamplesContainer
	}
	var bins []binOut
	for k, h := range agg.SamplesByBin {
		bins = append(bins, binOut{uint64(k.MID), id[k.Token], k.Token, h})
	}
	sort.Slice(bins, func(i, j int) bool {
		if bins[i].mid != bins[j].mid {
			return bins[i].mid < bins[j].mid
		}
		return bins[i].tok < bins[j].tok
	})
	bparts := make([]string, len(bins))
	var implBins []map[string]any
	maxTotal := int64(0)
	for i, b := range bins {
		sp := make([]string, len(b.h.Samples))
		for j, x := range b.h.Samples {
			sp[j] = flOf(x).coq()
		}
		bparts[i] = fmt.Sprintf("((%d%%N, %d%%N), ISumm %s %s %s %s %s [%s])", b.mid, b.tok, flOf(b.h.Min).coq(), flOf(b.h.Max).coq(),
			flOf(b.h.Sum).coq(), zc(b.h.Total), zc(b.h.NotExists), strings.Join(sp, "; "))
		if b.h.Total > maxTotal {
			maxTotal = b.h.Total
		}
		if len(implBins) < 40 {
			implBins = append(implBins, map[string]any{"mid": b.mid, "token": b.name, "total": b.h.Total, "not_exists": b.h.NotExists,
				"min_bits": math.Float64bits(b.h.Min), "max_bits": math.Float64bits(b.h.Max), "sum_bits": math.Float64bits(b.h.Sum), "samples": len(b.h.Samples)})
		}
	}
	kparts := make([]string, len(aggRes.Buckets))
	var implBuckets []map[string]any
	for i, b := range aggRes.Buckets {
		qp := make([]string, len(b.Quantiles))
		qbits := make([]uint64, len(b.Quantiles))
		for j, x := range b.Quantiles {
			qp[j] = flOf(x).coq()
			qbits[j] = math.Float64bits(x)
		}
		kparts[i] = fmt.Sprintf("IBucket %d %d %s [%s] %s", id[b.Name], uint64(b.MID), flOf(b.Value).coq(), strings.Join(qp, "; "), zc(b.NotExists))
		if len(implBuckets) < 40 {
			implBuckets = append(implBuckets, map[string]any{"name": b.Name, "mid": uint64(b.MID), "value_bits": math.Float64bits(b.Value),
				"value_is_nan": math.IsNaN(b.Value), "quantile_bits": qbits, "not_exists": b.NotExists})
		}
	}
	if tsGroupNE {
		class = "ts-group-notexists"
	}
	term := fmt.Sprintf("CAgg %d %s %s %s (IOut [%s] %s [%s] %s)", sc.scale, casefile.Bool(w.exact), caseTree(w, t, live, leafCoq), qcoq,
		strings.Join(bparts, ";\n     "), zc(agg.NotExists), strings.Join(kparts, ";\n     "), zc(aggRes.NotExists))
	res.cases = append(res.cases, pending{term, class, nsel >= 3 && nlive >= 2 && maxTotal+int64(len(bins)) >= 3,
		in, map[string]any{"bins": implBins, "not_exists": agg.NotExists, "buckets": implBuckets}})
	res.counts = append(res.counts, "func:"+funcNames[a.fn])
	if maxTotal > 8096 {
		res.counts = append(res.counts, "bin-over-8096-samples")
	}
	if maxTotal == 8096 {
		res.counts = append(res.counts, "bin-exactly-8096-samples")
	}
}

// ---------------------------------------------------------------- one world

func runWorld(seed uint64, idx int, tier string, nsearch int, only func(search, lim, tree, agg int) bool) (res *result) {
	res = &result{}
	w := genWorld(seed, idx, tier)
	dir, err := os.MkdirTemp("", "verif-hC06-")
	if err != nil {
		panic(err)
	}
	defer os.RemoveAll(dir)
	fm, err := fracbuild.NewFM(dir, func(c *fracmanager.Config) { w.cfg = c })
	if err != nil {
		panic(err)
	}
	defer fracbuild.Close(fm)
	for i, f := range w.fracs {
		docs := make([]fracbuild.Doc, len(f))
		for j, d := range f {
			var toks []string
			for _, k := range w.tokOrder {
				if v, ok := d.f[k]; ok {
					toks = append(toks, k+":"+v)
				}
			}
			docs[j] = fracbuild.Doc{MID: d.mid, RID: d.rid, Body: []byte(fmt.Sprintf(`{"i":%d}`, j)), Tokens: toks}
		}
		if err := fracbuild.Append(fm, docs); err != nil {
			panic(err)
		}
		if w.sealed[i] {
			fracbuild.Seal(fm)
		}
	}
	fracs := fracbuild.Fracs(fm)
	if len(fracs) != len(w.fracs) {
		panic(fmt.Sprintf("hC06: %d fractions built, %d expected", len(fracs), len(w.fracs)))
	}
	for i, f := range fracs {
		if int(f.Info().DocsTotal) != len(w.fracs[i]) {
			panic(fmt.Sprintf("hC06: fraction %d holds %d docs, %d expected", i, f.Info().DocsTotal, len(w.fracs[i])))
		}
	}
	kind := "small"
	if w.big {
		kind = "big"
	}
	res.counts = append(res.counts, fmt.Sprintf("world:%s:fractions=%d", kind, len(fracs)))
	if w.huge > 0 {
		res.counts = append(res.counts, fmt.Sprintf("world:values-beyond-int64:kind=%d", w.huge))
	}
	if !w.sealed[len(w.sealed)-1] {
		res.counts = append(res.counts, "world:last-fraction-active")
	}
	r := rng.New(seed*7777 + uint64(idx)*31 + 5)
	if w.big {
		nsearch = 1
	}
	for si := 0; si < nsearch; si++ {
		s := genSearch(r, w)
		if w.fkind != "" {
			s = floatOnlySearch(s, w, si)
		}
		rs := r.Fork()
		// every search runs with the limits off, with the production defaults and (ordinary worlds) with tiny limits
		for li, lim := range limitConfigs(seed, w, si, s) {
			if tier != "quick" && ((li == 1 && si%2 == 1) || (li == 2 && si%2 == 0 && si != 0)) {
				continue // thorough (8 searches per world): production defaults on even, tiny limits on odd searches (both on the first)
			}
			rl := rs
			if li > 0 {
				rl = rng.New(seed*919 + uint64(idx)*104729 + uint64(si)*131 + uint64(li))
			}
			var o func(int, int) bool
			if only != nil {
				si, li := si, li
				o = func(t, a int) bool { return only(si, li, t, a) }
			}
			runSearch(w, tier, fracs, si, s, rl, res, o, li, lim)
		}
	}
	w.setLimits(aggLimits{})
	return res
}

func main() {
	seed := flag.Uint64("seed", 1, "")
	tier := flag.String("tier", "quick", "")
	out := flag.String("out", "", "")
	replay := flag.String("replay", "", "")
	probe := flag.Bool("probe", false, "run the ts-group-notexists scenario on the real code and print it")
	flag.Parse()
	if *probe {
		runProbe()
		return
	}
	if *out == "" {
		fmt.Fprintln(os.Stderr, "need -out")
		os.Exit(2)
	}
	w, err := casefile.New(*out, "C06", "From C06 Require Import Model ModelFloat ModelLimits CaseDefs.", 55)
	if err != nil {
		panic(err)
	}
	flush := func(res *result) {
		for _, c := range res.cases {
			w.Add(c.term, c.class, c.nontrivial, c.input, c.impl)
		}
		for _, v := range res.viols {
			w.Violate(v.fp, v.what, v.input)
		}
		for _, k := range res.counts {
			w.Count(k)
		}
	}
	if *replay != "" {
		doReplay(*replay, flush)
		if err := w.Close(); err != nil {
			panic(err)
		}
		return
	}
	nworlds, nsearch := 50, 5
	if *tier == "thorough" {
		nworlds, nsearch = 400, 8
	}
	results := make([]*result, nworlds)
	var wg sync.WaitGroup
	sem := make(chan struct{}, 4)
	for i := 0; i < nworlds; i++ {
		wg.Add(1)
		sem <- struct{}{}
		go func(i int) {
			defer wg.Done()
			defer func() { <-sem }()
			results[i] = runWorld(*seed, i, *tier, nsearch, nil)
		}(i)
	}
	wg.Wait()
	for _, res := range results {
		flush(res)
	}
	flush(emitKeys(*seed, *tier))
	flush(emitUnits(*seed, *tier))
	w.Extra["float_policy"] = "every sum/min/max/avg/quantile aggregation is also emitted as a float case (CAggF): Min/Max/Sum bit patterns of every bin and the bucket values are compared BIT-EXACTLY with the IEEE binary64 replay of the recorded merge tree (general decimals, huge/tiny magnitudes, signed zeros, cancelling values, overflow to Inf/NaN); spec: Sum within N*2^-52*sum|x| of the exact rational sum, Min/Max exact, Avg = RNE(Sum/Total). The exact-integer model cases (CAgg) of general-decimal worlds keep their coarse 1e-9 comparison of Sum/Avg, which is redundant now."
	if err := w.Close(); err != nil {
		panic(err)
	}
}

// replay: regenerate the world of the stored case from (seed, tier, world) and re-emit that case only
func doReplay(path string, flush func(*result)) {
	b, err := os.ReadFile(path)
	if err != nil {
		panic(err)
	}
	var rp struct {
		Seed   uint64 `json:"seed"`
		Tier   string `json:"tier"`
		Replay struct {
			Seed *uint64 `json:"seed"`
			Case struct {
				Input map[string]any `json:"input"`
			} `json:"case"`
			Input map[string]any `json:"input"`
		} `json:"replay"`
	}
	if err := json.Unmarshal(b, &rp); err != nil {
		panic(err)
	}
	in := rp.Replay.Case.Input
	if in == nil {
		in = rp.Replay.Input
	}
	seed := rp.Seed
	if rp.Replay.Seed != nil {
		seed = *rp.Replay.Seed
	}
	num := func(k string) int {
		f, _ := in[k].(float64)
		return int(f)
	}
	if _, ok := in["token_hex"]; ok {
		flush(emitKeys(seed, rp.Tier))
		return
	}
	if _, ok := in["unit"]; ok {
		flush(emitUnits(seed, rp.Tier))
		return
	}
	wi, si := num("world"), num("search")
	ti, hasT := in["tree_index"]
	ai := num("agg_index")
	nsearch := 5
	if rp.Tier == "thorough" {
		nsearch = 8
	}
	li := num("lim_index")
	res := runWorld(seed, wi, rp.Tier, nsearch, func(s, l, t, a int) bool {
		if s != si || l != li {
			return false
		}
		if !hasT {
			return true
		}
		return t == int(ti.(float64)) && a == ai
	})
	fmt.Printf("replay seed=%d tier=%s world=%d search=%d: %d cases, %d direct violations\n", seed, rp.Tier, wi, si, len(res.cases), len(res.viols))
	for _, c := range res.cases {
		j, _ := json.Marshal(c.impl)
		fmt.Printf("  %s: %s\n", c.class, j)
	}
	flush(res)
}

// ---------------------------------------------------------------- AggBin key codec

func emitKeys(seed uint64, tier string) *result {
	res := &result{}
	r := rng.New(seed*31337 + 99)
	n := 150
	if tier == "thorough" {
		n = 2000
	}
	alphabet := []byte("|ab0 9-\"\xc3\xa9:\x00")
	for i := 0; i < n; i++ {
		var mid uint64
		switch r.Intn(5) {
		case 0:
			mid = 0
		case 1:
			mid = uint64(r.Intn(100))
		case 2:
			mid = 1<<63 - 1 - uint64(r.Intn(3))
		default:
			mid = r.U64() >> uint(r.Intn(63)+1)
		}
		tok := make([]byte, r.Intn(8))
		for j := range tok {
			tok[j] = alphabet[r.Intn(len(alphabet))]
		}
		in := map[string]any{"mid": mid, "token_hex": fmt.Sprintf("%x", tok)}
		var key string
		var back seq.AggBin
		var perr any
		func() {
			defer func() { perr = recover() }()
			key = seq.VerifC06AggBinToKey(seq.AggBin{MID: seq.MID(mid), Token: string(tok)})
			back = seq.VerifC06AggBinFromKey(key)
		}()
		if perr != nil {
			res.viols = append(res.viols, violation{"aggbin-key-panic", fmt.Sprintf("toKey/fromKey panics: %v", perr), in})
			continue
		}
		term := fmt.Sprintf("CKey %d %s %s %d %s", mid, casefile.Bytes(tok), casefile.Bytes([]byte(key)), uint64(back.MID), casefile.Bytes([]byte(back.Token)))
		res.cases = append(res.cases, pending{term, "aggbin-key", strings.Contains(string(tok), "|"), in,
			map[string]any{"key_hex": fmt.Sprintf("%x", key), "back_mid": uint64(back.MID), "back_token_hex": fmt.Sprintf("%x", back.Token)}})
	}
	return res
}

// ---------------------------------------------------------------- probe: per-group not-exists in a time series

// runProbe reproduces, on real fractions through the real search path, what a time-series aggregation
// with group reports for documents that have the group token but not the field.
func runProbe() {
	type pd struct {
		mid, rid uint64
		toks     []string
	}
	scen := []struct {
		name string
		docs [][]pd // per fraction
	}{
		{"A: one matching document g:api without v", [][]pd{{{1000500, 1, []string{"m:1", "g:api"}}}}},
		{"B: two fractions: {g:api without v} and {g:api v:5, g:api without v, v:7 without g}", [][]pd{
			{{1000500, 1, []string{"m:1", "g:api"}}},
			{{1000700, 2, []string{"m:1", "g:api", "v:5"}}, {1001200, 3, []string{"m:1", "g:api"}}, {1001300, 4, []string{"m:1", "v:7"}}}}},
	}
	for _, sc := range scen {
		dir, _ := os.MkdirTemp("", "verif-hC06-probe-")
		fm, err := fracbuild.NewFM(dir, nil)
		if err != nil {
			panic(err)
		}
		for _, f := range sc.docs {
			var docs []fracbuild.Doc
			for _, d := range f {
				docs = append(docs, fracbuild.Doc{MID: d.mid, RID: d.rid, Body: []byte(`{}`), Tokens: d.toks})
			}
			if err := fracbuild.Append(fm, docs); err != nil {
				panic(err)
			}
			fracbuild.Seal(fm)
		}
		for _, interval := range []int64{1000, 0} {
			q := fracbuild.Query{Text: "m:1", Mapping: mapping, From: 0, To: 1 << 40,
				AggQ: []processor.AggQuery{{Field: literal("v"), GroupBy: literal("g"), Func: seq.AggFuncAvg, Interval: interval}}}
			qpr, err := fracbuild.Search(fracbuild.Fracs(fm), q, 0)
			fmt.Printf("SCENARIO %s\n  request: query=%q from=0 to=2^40 agg={func:avg field:v group_by:g interval:%d}\n", sc.name, q.Text, interval)
			for i, f := range sc.docs {
				for _, d := range f {
					fmt.Printf("    fraction %d doc mid=%d rid=%d tokens=%v\n", i, d.mid, d.rid, d.toks)
				}
			}
			if err != nil {
				fmt.Println("  search error:", err)
				continue
			}
			agg := qpr.Aggs[0]
			type kb struct {
				k seq.AggBin
				h *seq.SamplesContainer
			}
			var bins []kb
			for k, h := range agg.SamplesByBin {
				bins = append(bins, kb{k, h})
			}
			sort.Slice(bins, func(i, j int) bool {
				if bins[i].k.MID != bins[j].k.MID {
					return bins[i].k.MID < bins[j].k.MID
				}
				return bins[i].k.Token < bins[j].k.Token
			})
			fmt.Printf("  QPR.Aggs[0]: NotExists=%d\n", agg.NotExists)
			for _, b := range bins {
				fmt.Printf("    bin (MID=%d, %q): Total=%d NotExists=%d Sum=%v\n", uint64(b.k.MID), b.k.Token, b.h.Total, b.h.NotExists, b.h.Sum)
			}
			res := qpr.Aggregate([]seq.AggregateArgs{{Func: seq.AggFuncAvg, SkipWithoutTimestamp: interval > 0}})[0]
			fmt.Printf("  Aggregate(SkipWithoutTimestamp=%v): NotExists=%d, %d buckets\n", interval > 0, res.NotExists, len(res.Buckets))
			for _, b := range res.Buckets {
				fmt.Printf("    bucket name=%q ts=%d value=%v not_exists=%d\n", b.Name, uint64(b.MID), b.Value, b.NotExists)
			}
		}
		fracbuild.Close(fm)
		os.RemoveAll(dir)
	}
}
