// Aggregation limits, token-value cache and parseNum (cases CLimErr / CIter / CParse of props/C06/coq/CaseDefs.v,
// model props/C06/coq/ModelLimits.v).
//
// Every search of every world runs with frac.Config.Search.AggLimits off (0/0/0, the only configuration of the
// repository's own tests), with the production defaults (agg-max-field-tokens 1000000, agg-max-group-tokens 2000,
// agg-max-fraction-tids 100000: countBySource is filled and ValueBySource goes through its token cache) and, in
// ordinary worlds, with tiny limits around the actual numbers of distinct tokens / bins (1, 2, exactly n, n-1).
// Which fractions and whether the Searcher fail with ErrTooManyUniqValues is a CLimErr case; a search that passes
// is compared with the UNLIMITED model (theorem C06_limits_only_reject).
package main

import (
	"fmt"
	"strconv"
	"strings"

	"github.com/ozontech/seq-db/frac"
	"github.com/ozontech/seq-db/frac/processor"
	"github.com/ozontech/seq-db/seq"

	"verif/harness/internal/casefile"
	"verif/harness/internal/rng"
)

type aggLimits struct {
	field, group, tids int
	kind               string
}

func (l aggLimits) on() bool { return l.field > 0 || l.group > 0 || l.tids > 0 }

var limitsOff = aggLimits{kind: "off"}
var limitsProd = aggLimits{1000000, 2000, 100000, "production-defaults"}

func (w *world) setLimits(l aggLimits) {
	w.cfg.Fraction.Search.AggLimits = frac.AggLimits{MaxFieldTokens: l.field, MaxGroupTokens: l.group, MaxTIDsPerFraction: l.tids}
}

// counts of one aggregation over one fraction: distinct group / field tokens of the selected documents, bins
// they touch, tokens of the group / field in the whole fraction
type limCounts struct{ ng, nf, nb, tg, tf int }

func countsOf(f []doc, s searchSpec, a aggSpec) limCounts {
	g, fl, bins, tg, tf := map[string]bool{}, map[string]bool{}, map[string]bool{}, map[string]bool{}, map[string]bool{}
	noGroup := false
	for _, d := range f {
		gv, hasG := d.f[a.group]
		fv, hasF := d.f[a.field]
		if a.group == "" {
			hasG = false
		}
		if a.field == "" {
			hasF = false
		}
		if hasG {
			tg[gv] = true
		}
		if hasF {
			tf[fv] = true
		}
		if !selectedDoc(d, s) {
			continue
		}
		if hasG {
			g[gv] = true
		}
		if hasF {
			fl[fv] = true
		}
		b := bucketOf(d.mid, a.interval)
		switch {
		case a.fn == seq.AggFuncCount:
			if hasG {
				bins[fmt.Sprint(b, "|", gv)] = true
			} else {
				noGroup = true
			}
		case a.fn == seq.AggFuncUnique:
			if hasG {
				bins[gv] = true
			}
		case a.group != "":
			if hasG {
				bins[fmt.Sprint(b, "|", gv)] = true
			}
		default:
			bins[fmt.Sprint(b)] = true
		}
	}
	nb := len(bins)
	if noGroup {
		nb++
	}
	return limCounts{len(g), len(fl), nb, len(tg), len(tf)}
}

func limitConfigs(seed uint64, w *world, si int, s searchSpec) []aggLimits {
	if w.big {
		if (w.idx/5)%2 == 1 {
			return []aggLimits{limitsProd}
		}
		return []aggLimits{limitsOff}
	}
	if w.fkind != "" {
		return []aggLimits{limitsOff, limitsProd}
	}
	r := rng.New(seed*2711 + uint64(w.idx)*15485863 + uint64(si)*977 + 3)
	a := s.aggs[r.Intn(len(s.aggs))]
	var mx limCounts
	for _, f := range w.fracs {
		c := countsOf(f, s, a)
		mx.ng, mx.nf, mx.nb, mx.tg, mx.tf = max(mx.ng, c.ng), max(mx.nf, c.nf), max(mx.nb, c.nb), max(mx.tg, c.tg), max(mx.tf, c.tf)
	}
	pick := func(n int) int {
		c := []int{1, 2, n, n - 1, n + 1}
		v := c[r.Intn(len(c))]
		if v < 1 {
			v = 1
		}
		return v
	}
	t := aggLimits{kind: "tiny"}
	if r.Bool() {
		t.field, t.group, t.tids = limitsProd.field, limitsProd.group, limitsProd.tids
	}
	switch r.Intn(5) {
	case 0:
		t.group = pick(mx.ng)
		t.kind = "tiny-group-tokens"
	case 1:
		t.group = pick(mx.nb)
		t.kind = "tiny-bins"
	case 2:
		t.field = pick(mx.nf)
		t.kind = "tiny-field-tokens"
	case 3:
		t.tids = pick(max(mx.tg, mx.tf))
		t.kind = "tiny-fraction-tids"
	default:
		t.group, t.field = pick(mx.ng), pick(mx.nf)
		t.kind = "tiny-group-and-field"
	}
	return []aggLimits{limitsOff, limitsProd, t}
}

// emitLimErr: does the search over the given fractions fail with ErrTooManyUniqValues?
func emitLimErr(w *world, s searchSpec, si int, which string, tindex int, leaves []int, lim aggLimits, implErr bool,
	baseInput func() map[string]any, res *result) {
	var parts []string
	for _, a := range s.aggs {
		grouped := a.group != "" && a.field != ""
		names := map[string]bool{"": true, "_not_exists": true}
		ftoks := map[string]bool{}
		for _, f := range w.fracs {
			for _, d := range f {
				if g, ok := d.f[a.group]; ok && a.group != "" {
					names[g] = true
				}
				if v, ok := d.f[a.field]; ok && a.field != "" {
					ftoks[v] = true
				}
			}
		}
		id, fid := rankMap(names), rankMap(ftoks)
		var lcoq []string
		for _, i := range leaves {
			var ds []string
			for _, d := range w.fracs[i] {
				g, fv := "None", "None"
				if x, ok := d.f[a.group]; ok && a.group != "" {
					g = fmt.Sprintf("(Some %d%%N)", id[x])
				}
				if x, ok := d.f[a.field]; ok && a.field != "" {
					fv = fmt.Sprintf("(Some %d)", fid[x]) // the field token's ID in the place of its value
				}
				ds = append(ds, fmt.Sprintf("Doc %d %s %s %s", d.mid, casefile.Bool(s.all || d.f["m"] == "1"), g, fv))
			}
			lcoq = append(lcoq, "(Leaf ["+strings.Join(ds, "; ")+"])")
		}
		if len(lcoq) == 0 {
			lcoq = []string{"(Leaf [])"}
		}
		t := lcoq[0]
		for _, l := range lcoq[1:] {
			t = "(Node " + t + " " + l + ")"
		}
		q := fmt.Sprintf("(Query %d %d %s %s %d []%%N %d 0)", s.from, s.to, funcCoq[a.fn], casefile.Bool(grouped), a.interval, id["_not_exists"])
		parts = append(parts, "("+q+", "+t+")")
	}
	in := baseInput()
	in["which"], in["fractions_searched"], in["tree_index"], in["agg_index"] = which, leaves, tindex, -2
	var aggs []map[string]any
	for _, a := range s.aggs {
		aggs = append(aggs, map[string]any{"func": funcNames[a.fn], "field": a.field, "group_by": a.group, "interval": a.interval})
	}
	in["aggs"] = aggs
	class := "limits-" + lim.kind + "-passed"
	if implErr {
		class = "limits-" + lim.kind + "-rejected"
	}
	term := fmt.Sprintf("CLimErr (Limits %d %d %d) [%s] %s", lim.field, lim.group, lim.tids, strings.Join(parts, ";\n     "), casefile.Bool(implErr))
	res.cases = append(res.cases, pending{term, class, implErr || lim.kind != limitsProd.kind, in, map[string]any{"too_many_uniq_values_error": implErr}})
	res.counts = append(res.counts, class)
}

// ---------------------------------------------------------------- values that arrive as JSON strings

func filterTokens(toks []string, finite bool) []string {
	var out []string
	for _, t := range toks {
		if tokFinite(t) == finite {
			out = append(out, t)
		}
	}
	return out
}

// unusual renderings strconv.ParseFloat accepts (no negative zero: the wire form does not keep its sign)
func validWeird() []string {
	return filterTokens([]string{"010", "0100", "0017", "08", "09", "0777", "007", "00", "000", "0010.50", "+5", "+010", "1e2", "1E2", "1e+2",
		".5", "5.", "+.5", "-.25", "-010", "-0017", "0x1p4", "0x1.8p1", "0X1P-2", "0x10p0", "00000000000000000000000000000012",
		"123456789012345678901234567890", "0.0000000000000000000000000000000000000012", "0e0", "1.e1", "100000000000000000000000e-20",
		"0_1", "1_0", "0x1_0p0"}, true)
}

// literals of other Go syntaxes (strconv.ParseInt base 0, Go source) and padded tokens: ParseFloat rejects them all
var badPool2 = filterTokens([]string{"0x1F", "0X1f", "0x10", "0b101", "0B11", "0o17", "0O7", "1_000", "0_7", "0x_1F", "0b1_0", " 5", "5 ", "\t5",
	"5\n", "+ 5", "1e2e3", "１２", "0x1.8", "1e+", "infinit", "+-5", "5f", "5d", "1 000", "0x1Fp", " 010", "010 ", "0x", "0b", "-0x10", "+0b1",
	"1__0", "_1", "1_", "0o", "0x1p1_", "NaN ", " Inf"}, false)

// ---------------------------------------------------------------- unit classes: the real SourcedNodeIterator and parseNum

func emitUnits(seed uint64, tier string) *result {
	res := &result{}
	r := rng.New(seed*48611 + 7)
	n := 150
	if tier == "thorough" {
		n = 2500
	}
	for i := 0; i < n; i++ {
		emitIter(r.Fork(), i, res)
	}
	seen := map[string]bool{}
	var toks []string
	add := func(ts ...string) {
		for _, t := range ts {
			if !seen[t] {
				seen[t] = true
				toks = append(toks, t)
			}
		}
	}
	add(extremePool...)
	add(badPool...)
	add(badPool2...)
	add(validWeird()...)
	add(hugeMixed...)
	for i := 0; i < n/3; i++ {
		add(exactValue(r, int64(r.Intn(4001))-2000), generalValue(r))
		// zero-padded integers: all-octal digits and with 8/9, optional sign
		d := strings.Repeat("0", r.Range(1, 3)) + strconv.Itoa(r.Intn(100000))
		add([]string{"", "+", "-"}[r.Intn(3)] + d)
	}
	for _, t := range toks {
		emitParse(t, res)
	}
	return res
}

func emitParse(tok string, res *result) {
	in := map[string]any{"unit": "parse", "token": tok}
	var v float64
	var err error
	var perr any
	func() {
		defer func() { perr = recover() }()
		v, err = processor.VerifC06ParseNum(tok)
	}()
	if perr != nil {
		res.viols = append(res.viols, violation{"parsenum-panic", fmt.Sprintf("parseNum panics: %v", perr), in})
		return
	}
	class := "parsenum-rejected"
	if tokFinite(tok) {
		class = "parsenum-accepted"
	}
	ibits := uint64(0)
	if err == nil {
		ibits = cb(v)
	}
	term := fmt.Sprintf("CParse %d %s %d", tokBits(tok), casefile.Bool(err == nil), ibits)
	res.cases = append(res.cases, pending{term, class, true, in, map[string]any{"accepted": err == nil, "value_bits": fmt.Sprintf("%#x", ibits)}})
	res.counts = append(res.counts, class)
}

func nlist(xs []uint32) string {
	p := make([]string, len(xs))
	for i, x := range xs {
		p[i] = fmt.Sprint(x)
	}
	return "[" + strings.Join(p, "; ") + "]%N"
}

func emitIter(r *rng.R, idx int, res *result) {
	n := r.Range(1, 10)
	perm := make([]uint32, n+3)
	for i := range perm {
		perm[i] = uint32(i + 1)
	}
	rng.Shuffle(r, perm)
	tids := perm[:n]
	if r.Chance(1, 3) { // a sealed fraction: contiguous ascending TIDs starting near 0
		base := uint32(r.Range(1, 3))
		for i := range tids {
			tids[i] = base + uint32(i)
		}
	}
	vals := map[uint32]string{}
	valID := map[string]int{}
	var vtab []string
	for _, t := range tids {
		vals[t] = fmt.Sprintf("t%d", t)
		valID[vals[t]] = 100 + int(t)
		vtab = append(vtab, fmt.Sprintf("(%d, %d)", t, 100+int(t)))
	}
	L := r.Range(3, 40)
	lidLists := make([][]uint32, n)
	for lid := 1; lid <= L; lid++ {
		if r.Chance(4, 5) {
			k := r.Intn(n)
			if r.Bool() {
				k = r.Intn(min(n, 3)) // few hot tokens: counts >= 2
			}
			lidLists[k] = append(lidLists[k], uint32(lid))
		}
	}
	var lids []uint32
	found := map[int]bool{}
	for lid := 1; lid <= L+2; lid++ {
		if r.Chance(3, 4) {
			lids = append(lids, uint32(lid))
			for k, l := range lidLists {
				for _, x := range l {
					if int(x) == lid {
						found[k] = true
					}
				}
			}
		}
	}
	nfound := len(found)
	limit := []int{0, n, n - 1, 1, 2, 2000, 1000000, nfound, nfound - 1, nfound + 1}[r.Intn(10)]
	if limit < 0 {
		limit = 0
	}
	in := map[string]any{"unit": "iter", "index": idx, "limit": limit, "tids": tids, "lid_lists": lidLists, "lids": lids}
	var cons []string
	var implCons []string
	var srcs []uint32
	var implVals []int
	var hit []uint32
	failed := false
	var perr any
	func() {
		defer func() { perr = recover() }()
		it := processor.VerifC06NewIterator(lidLists, tids, vals, limit)
		for _, lid := range lids {
			src, has, err := it.Consume(lid)
			switch {
			case err != nil:
				cons = append(cons, "(None, true)")
				implCons = append(implCons, fmt.Sprintf("%d:error", lid))
				failed = true
			case has:
				cons = append(cons, fmt.Sprintf("(Some %d%%nat, false)", src))
				implCons = append(implCons, fmt.Sprintf("%d:%d", lid, src))
				hit = append(hit, src)
			default:
				cons = append(cons, "(None, false)")
				implCons = append(implCons, fmt.Sprintf("%d:-", lid))
			}
			if failed {
				break
			}
		}
		if !failed {
			// Aggregate(): ValueBySource for the sources found (map order: any order, repeats), now and then for
			// a source that was never found (count 0: uncached path)
			k := 0
			if len(hit) > 0 {
				k = r.Range(1, 3*len(hit))
			}
			for j := 0; j < k; j++ {
				s := hit[r.Intn(len(hit))]
				if r.Chance(1, 8) {
					s = uint32(r.Intn(n))
				}
				srcs = append(srcs, s)
				v := it.Value(s)
				id, ok := valID[v]
				if !ok {
					id = 999999
				}
				implVals = append(implVals, id)
			}
		}
	}()
	if perr != nil {
		res.viols = append(res.viols, violation{"iterator-panic", fmt.Sprintf("SourcedNodeIterator panics: %v", perr), in})
		return
	}
	in["lookups"] = srcs
	ll := make([]string, n)
	for i, l := range lidLists {
		ll[i] = strings.TrimSuffix(nlist(l), "%N")
	}
	vs := make([]string, len(implVals))
	for i, v := range implVals {
		vs[i] = fmt.Sprint(v)
	}
	term := fmt.Sprintf("CIter %d %s [%s]%%N [%s]%%N %s %s [%s] [%s]%%N", limit, nlist(tids), strings.Join(vtab, "; "), strings.Join(ll, "; "),
		nlist(lids), nlist(srcs), strings.Join(cons, "; "), strings.Join(vs, "; "))
	class := "iterator-limit-off"
	switch {
	case failed:
		class = "iterator-limit-exceeded"
	case limit > 0:
		class = "iterator-limit-on-cache-in-use"
	}
	// collision: some TID equals another token's source index
	coll := false
	for i, t := range tids {
		if int(t) < n && int(t) != i {
			coll = true
		}
	}
	res.cases = append(res.cases, pending{term, class, coll && len(srcs) >= 2 || failed, in, map[string]any{"consumed": implCons, "values": implVals}})
	res.counts = append(res.counts, class)
	if coll && limit > 0 && !failed {
		res.counts = append(res.counts, "iterator:tid-equals-another-source-index")
	}
}
