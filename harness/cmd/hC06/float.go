// Float path of C06: cases CAggF / CFErr (props/C06/coq/CaseDefs.v, ModelFloat.v).
//
// Every field value enters the case as the IEEE bit pattern strconv.ParseFloat gives for the token, the
// documents of a fraction are listed in the order the search visits them (ID order: (mid, rid) descending,
// ascending for a reverse search), the merge tree is the one the real MergeQPRs executed, and every
// Min/Max/Sum/bucket value leaves as its bit pattern (all NaNs as 0x7FF8000000000000). The model replays
// exactly these operations with IEEE binary64 arithmetic inside Coq and compares bit for bit.
//
// TwoSourceAggregator.Aggregate ranges over a Go map (countBySource), so the order of its InsertNTimes
// calls — and with it the last bits of a grouped Sum over general decimals — is not determined by the
// input. The harness searches an order that reproduces the observed Sum (per fraction when the fraction's
// own result was observed, jointly along the merge chain for the Searcher) and hands it to the model as a
// witness; Coq checks that it is a permutation of the map's keys and replays it. No order found = the
// identity order is emitted and the case disagrees.
package main

import (
	"fmt"
	"math"
	"sort"
	"strconv"
	"strings"

	"github.com/ozontech/seq-db/fracmanager"
	"github.com/ozontech/seq-db/seq"

	"verif/harness/internal/casefile"
)

const nanBits = uint64(0x7FF8000000000000)

// canonical bit pattern of an output float
func cb(f float64) uint64 {
	if math.IsNaN(f) {
		return nanBits
	}
	return math.Float64bits(f)
}

// bit pattern of a field token as parseNum sees it: ParseFloat's value; NaN when it does not parse
// (a range error yields +-Inf, which parseNum rejects as well)
func tokBits(tok string) uint64 {
	v, err := strconv.ParseFloat(tok, 64)
	if err != nil && !math.IsInf(v, 0) {
		return nanBits
	}
	return cb(v)
}

func tokFinite(tok string) bool {
	v, err := strconv.ParseFloat(tok, 64)
	return err == nil && !math.IsNaN(v) && !math.IsInf(v, 0)
}

var extremePool = []string{"1e308", "1.7e308", "-1e308", "-1.7976931348623157e308", "8.98846567431158e307", "5e-324", "-5e-324",
	"2.2250738585072014e-308", "1e-310", "-3e-320", "-0", "-0.0", "0", "0.0", "-0e5", "1e16", "-1e16", "1", "3.14", "0.1", "0.2", "0.3",
	"-0.3", "0x1p-2", "9007199254740993", "9007199254740992", "-9007199254740993", "1e22", "1e23", "4.35", "2.675", "1.0000000000000002",
	"0.30000000000000004", "123456789.12345678", "-123456789.12345678"}

var badPool = []string{"NaN", "nan", "Inf", "-Inf", "+Inf", "Infinity", "-infinity", "1e999", "-1e400", "abc", "1.2.3", "0x", "1e",
	"١٢", "1,5", "--1", "1_000", "0x1p", ".", "+", "1e-", "12px"}

type fentry struct {
	tok  int
	bits uint64
	cnt  int64
}

type binKey struct {
	mid uint64
	grp int
}

// first-appearance table of one fraction: bins in order, entries per bin in order (mirror of count_table)
type leafTable struct {
	bins    []binKey
	entries map[binKey][]fentry
}

func sortedDocs(f []doc, reverse bool) []doc {
	ds := append([]doc(nil), f...)
	sort.SliceStable(ds, func(i, j int) bool {
		a, b := ds[i], ds[j]
		if a.mid != b.mid {
			if reverse {
				return a.mid < b.mid
			}
			return a.mid > b.mid
		}
		if reverse {
			return a.rid < b.rid
		}
		return a.rid > b.rid
	})
	return ds
}

func bucketOf(mid uint64, interval int64) uint64 {
	if interval <= 0 {
		return 0
	}
	return mid - mid%uint64(interval)
}

type rstate struct {
	mask uint32
	bits uint64
}

// reach: every final Sum a fresh container can reach by inserting the products in some order, with one
// order each (the identity order first). More than 12 entries: the identity order only.
func reach(prods []float64) (sums []uint64, orders map[uint64][]int) {
	k := len(prods)
	orders = map[uint64][]int{}
	if k > 12 {
		s := 0.0
		id := make([]int, k)
		for i, p := range prods {
			s += p
			id[i] = i
		}
		orders[cb(s)] = id
		return []uint64{cb(s)}, orders
	}
	type par struct {
		prev rstate
		idx  int
	}
	parent := map[rstate]par{}
	cur := []rstate{{0, 0}}
	for step := 0; step < k; step++ {
		var next []rstate
		for _, st := range cur {
			s := math.Float64frombits(st.bits)
			for i := 0; i < k; i++ {
				if st.mask&(1<<uint(i)) != 0 {
					continue
				}
				ns := rstate{st.mask | 1<<uint(i), math.Float64bits(s + prods[i])}
				if _, seen := parent[ns]; !seen {
					parent[ns] = par{st, i}
					next = append(next, ns)
				}
			}
		}
		cur = next
	}
	for _, st := range cur {
		c := cb(math.Float64frombits(st.bits))
		if _, ok := orders[c]; ok {
			continue
		}
		ord := make([]int, k)
		x := st
		for j := k - 1; j >= 0; j-- {
			p := parent[x]
			ord[j] = p.idx
			x = p.prev
		}
		orders[c] = ord
		sums = append(sums, c)
	}
	return sums, orders
}

func prodsOf(es []fentry) []float64 {
	out := make([]float64, len(es))
	for i, e := range es {
		out[i] = math.Float64frombits(e.bits) * float64(e.cnt)
	}
	return out
}

func idOrder(n int) []int {
	out := make([]int, n)
	for i := range out {
		out[i] = i
	}
	return out
}

// emitAggF writes the float case of one sum/min/max/avg/quantile aggregation of one merge-tree run.
// leafQ = the per-fraction results the tree merged (nil for the Searcher, whose fractions are evaluated
// inside the real code); chain = the fractions in the order a left-to-right chain merged them (Searcher).
func emitAggF(w *world, s searchSpec, si, ti, ai int, a aggSpec, t *tree, qpr *seq.QPR, live []int, leafQ []*seq.QPR,
	baseInput func() map[string]any, res *result) {
	if a.field == "" || w.big || ai >= len(qpr.Aggs) {
		return
	}
	agg := qpr.Aggs[ai]
	grouped := a.group != ""
	// token ids
	names := map[string]bool{"": true, "_not_exists": true}
	ftoks := map[string]bool{}
	for _, f := range w.fracs {
		for _, d := range f {
			if g, ok := d.f[a.group]; ok && grouped {
				names[g] = true
			}
			if v, ok := d.f[a.field]; ok {
				ftoks[v] = true
			}
		}
	}
	for k := range agg.SamplesByBin {
		names[k.Token] = true
	}
	id := rankMap(names)
	fid := rankMap(ftoks)
	isLive := map[int]bool{}
	for _, i := range live {
		isLive[i] = true
	}
	// per fraction: documents in visiting order, count table
	tables := make([]*leafTable, len(w.fracs))
	docCoq := make([][]string, len(w.fracs))
	nsel := 0
	general := false
	for i, f := range w.fracs {
		tab := &leafTable{entries: map[binKey][]fentry{}}
		for _, d := range sortedDocs(f, s.reverse) {
			g, fv := "None", "None"
			gi := -1
			if grouped {
				if x, ok := d.f[a.group]; ok {
					gi = id[x]
					g = fmt.Sprintf("(Some %d%%N)", gi)
				}
			}
			x, hasF := d.f[a.field]
			var bits uint64
			if hasF {
				bits = tokBits(x)
				fv = fmt.Sprintf("(Some (%d%%N, %d%%Z))", fid[x], bits)
				if v := math.Float64frombits(bits); v != math.Trunc(v*16)/16 || math.Abs(v) > 1<<40 {
					general = true
				}
			}
			sel := selectedDoc(d, s)
			if sel {
				nsel++
			}
			docCoq[i] = append(docCoq[i], fmt.Sprintf("FDoc %d %s %s %s", d.mid, casefile.Bool(s.all || d.f["m"] == "1"), g, fv))
			if sel && grouped && gi >= 0 && hasF {
				bk := binKey{bucketOf(d.mid, a.interval), gi}
				es, ok := tab.entries[bk]
				if !ok {
					tab.bins = append(tab.bins, bk)
				}
				found := false
				for j := range es {
					if es[j].tok == fid[x] {
						es[j].cnt++
						found = true
					}
				}
				if !found {
					es = append(es, fentry{fid[x], bits, 1})
				}
				tab.entries[bk] = es
			}
		}
		tables[i] = tab
	}
	nameOf := map[int]string{}
	for n, i := range id {
		nameOf[i] = n
	}
	// witness: map iteration order per fraction
	chosen := make([]map[binKey][]int, len(w.fracs))
	for i := range chosen {
		chosen[i] = map[binKey][]int{}
	}
	witnessFound := true
	if grouped {
		if leafQ != nil {
			for _, i := range live {
				for _, bk := range tables[i].bins {
					es := tables[i].entries[bk]
					ord := idOrder(len(es))
					if leafQ[i] != nil && ai < len(leafQ[i].Aggs) {
						if h := leafQ[i].Aggs[ai].SamplesByBin[seq.AggBin{MID: seq.MID(bk.mid), Token: nameOf[bk.grp]}]; h != nil {
							_, orders := reach(prodsOf(es))
							if o, ok := orders[cb(h.Sum)]; ok {
								ord = o
							} else {
								witnessFound = false
							}
						}
					}
					chosen[i][bk] = ord
				}
			}
		} else {
			// Searcher: total (fresh) + f1 + f2 + ... in chain order; per bin a joint search
			chain := treeLeaves(t)
			allBins := map[binKey]bool{}
			for _, i := range chain {
				for _, bk := range tables[i].bins {
					allBins[bk] = true
				}
			}
			for bk := range allBins {
				var target uint64
				h := agg.SamplesByBin[seq.AggBin{MID: seq.MID(bk.mid), Token: nameOf[bk.grp]}]
				if h != nil {
					target = cb(h.Sum)
				}
				type cand struct {
					leaf   int
					sums   []uint64
					orders map[uint64][]int
				}
				var cs []cand
				for _, i := range chain {
					if es, ok := tables[i].entries[bk]; ok {
						su, or := reach(prodsOf(es))
						cs = append(cs, cand{i, su, or})
					}
				}
				pick := make([]uint64, len(cs))
				dead := map[rstate]bool{}
				var rec func(j int, s float64) bool
				rec = func(j int, s float64) bool {
					if j == len(cs) {
						return cb(s) == target
					}
					key := rstate{uint32(j), math.Float64bits(s)}
					if dead[key] {
						return false
					}
					for _, sb := range cs[j].sums {
						pick[j] = sb
						if rec(j+1, s+math.Float64frombits(sb)) {
							return true
						}
					}
					dead[key] = true
					return false
				}
				ok := h != nil && rec(0, 0)
				for j, c := range cs {
					if ok {
						chosen[c.leaf][bk] = c.orders[pick[j]]
					} else {
						chosen[c.leaf][bk] = idOrder(len(tables[c.leaf].entries[bk]))
						witnessFound = false
					}
				}
			}
		}
	}
	leafCoq := make([]string, len(w.fracs))
	for i := range w.fracs {
		var ord []string
		if grouped && isLive[i] {
			for _, bk := range tables[i].bins {
				es := tables[i].entries[bk]
				o := chosen[i][bk]
				if o == nil {
					o = idOrder(len(es))
				}
				for _, j := range o {
					ord = append(ord, fmt.Sprintf("(%d%%N, %d%%N, %d%%N)", bk.mid, bk.grp, es[j].tok))
				}
			}
		}
		leafCoq[i] = "(FLeaf (FLeafR [" + strings.Join(docCoq[i], "; ") + "] [" + strings.Join(ord, "; ") + "]))"
	}
	tcoq := caseTree(w, t, live, leafCoq)
	tcoq = strings.ReplaceAll(tcoq, "(Node ", "(FNode ")
	tcoq = strings.ReplaceAll(tcoq, "(Leaf [])", "(FLeaf (FLeafR [] []))")
	qs := make([]string, len(a.quants))
	for i, q := range a.quants {
		qs[i] = fmt.Sprintf("(%d, %d)", q[0], q[1])
	}
	qcoq := fmt.Sprintf("(Query %d %d %s %s %d [%s]%%N %d 0)", s.from, s.to, funcCoq[a.fn], casefile.Bool(grouped), a.interval,
		strings.Join(qs, "; "), id["_not_exists"])
	// bins
	type binOut struct {
		mid  uint64
		tok  int
		name string
		h    *seq.SamplesContainer
	}
	var bins []binOut
	for k, h := range agg.SamplesByBin {
		bins = append(bins, binOut{uint64(k.MID), id[k.Token], k.Token, h})
	}
	sort.Slice(bins, func(i, j int) bool {
		if bins[i].mid != bins[j].mid {
			return bins[i].mid < bins[j].mid
		}
		return bins[i].tok < bins[j].tok
	})
	bparts := make([]string, len(bins))
	var implBins []map[string]any
	maxTotal := int64(0)
	nonfinite := false
	for i, b := range bins {
		bparts[i] = fmt.Sprintf("FBin (%d%%N, %d%%N) %d %d %d %s", b.mid, b.tok, cb(b.h.Min), cb(b.h.Max), cb(b.h.Sum), zc(b.h.Total))
		if b.h.Total > maxTotal {
			maxTotal = b.h.Total
		}
		if math.IsNaN(b.h.Sum) || math.IsInf(b.h.Sum, 0) {
			nonfinite = true
		}
		if len(implBins) < 40 {
			implBins = append(implBins, map[string]any{"mid": b.mid, "token": b.name, "total": b.h.Total,
				"min_bits": fmt.Sprintf("%#x", cb(b.h.Min)), "max_bits": fmt.Sprintf("%#x", cb(b.h.Max)), "sum_bits": fmt.Sprintf("%#x", cb(b.h.Sum)), "sum": fmt.Sprint(b.h.Sum)})
		}
	}
	var kparts []string
	var implBuckets []map[string]any
	if a.fn != seq.AggFuncQuantile {
		one := seq.QPR{Aggs: []seq.AggregatableSamples{copyQPR(&seq.QPR{Aggs: []seq.AggregatableSamples{agg}}).Aggs[0]}}
		var aggRes seq.AggregationResult
		var perr any
		func() {
			defer func() { perr = recover() }()
			aggRes = one.Aggregate([]seq.AggregateArgs{{Func: a.fn, SkipWithoutTimestamp: a.interval > 0}})[0]
		}()
		if perr != nil {
			return // reported by emitAgg
		}
		for _, b := range aggRes.Buckets {
			if _, ok := id[b.Name]; !ok {
				continue
			}
			kparts = append(kparts, fmt.Sprintf("FBucket %d %d %d", id[b.Name], uint64(b.MID), cb(b.Value)))
			if len(implBuckets) < 40 {
				implBuckets = append(implBuckets, map[string]any{"name": b.Name, "mid": uint64(b.MID), "value_bits": fmt.Sprintf("%#x", cb(b.Value)), "value": fmt.Sprint(b.Value)})
			}
		}
	}
	class := "float-" + funcNames[a.fn]
	if grouped {
		class += "-group"
	}
	if a.interval > 0 {
		class += "-ts"
	}
	switch {
	case w.fkind != "":
		class += "-" + w.fkind
	case w.huge > 0:
		class += "-huge"
	case general:
		class += "-general"
	default:
		class += "-dyadic"
	}
	in := baseInput()
	in["tree"], in["tree_index"], in["agg_index"], in["float"] = t.String(), ti, ai, true
	in["agg"] = map[string]any{"func": funcNames[a.fn], "field": a.field, "group_by": a.group, "interval": a.interval}
	if !witnessFound {
		in["map_order_witness"] = "none found: no iteration order of countBySource reproduces the observed Sum"
	}
	term := fmt.Sprintf("CAggF %s %s (FOut [%s] [%s])", tcoq, qcoq, strings.Join(bparts, ";\n     "), strings.Join(kparts, ";\n     "))
	nlive := 0
	for _, i := range live {
		for _, d := range w.fracs[i] {
			if selectedDoc(d, s) {
				nlive++
				break
			}
		}
	}
	res.cases = append(res.cases, pending{term, class, nsel >= 3 && nlive >= 2 && maxTotal >= 2, in,
		map[string]any{"bins": implBins, "buckets": implBuckets}})
	res.counts = append(res.counts, "float:func:"+funcNames[a.fn])
	if general {
		res.counts = append(res.counts, "float:general-decimals")
	}
	if nonfinite {
		res.counts = append(res.counts, "float:sum-overflowed-to-inf-or-nan")
	}
	if grouped {
		res.counts = append(res.counts, "float:map-order-witness")
	}
}

func rankMap(names map[string]bool) map[string]int {
	sorted := make([]string, 0, len(names))
	for n := range names {
		sorted = append(sorted, n)
	}
	sort.Strings(sorted)
	id := map[string]int{}
	for i, n := range sorted {
		id[n] = i
	}
	return id
}

func treeLeaves(t *tree) []int {
	switch t.leaf {
	case -1:
		return nil
	case -2:
		var out []int
		for _, c := range t.children {
			out = append(out, treeLeaves(c)...)
		}
		return out
	}
	return []int{t.leaf}
}

// searcherOrder: Searcher.prepareFracs sorts the fractions in range by To descending (From ascending for a
// reverse search) with sort.Slice, which is an insertion sort (stable) for fewer than 12 elements.
func searcherOrder(fracs fracmanager.List, live []int, reverse bool) []int {
	out := append([]int(nil), live...)
	sort.SliceStable(out, func(i, j int) bool {
		if reverse {
			return fracs[out[i]].Info().From < fracs[out[j]].Info().From
		}
		return fracs[out[i]].Info().To > fracs[out[j]].Info().To
	})
	return out
}

// emitFErr: does the search over the given fractions fail? (class float-parse-error)
func emitFErr(w *world, s searchSpec, si int, which string, leaves []int, a aggSpec, implErr bool, errText string,
	baseInput func() map[string]any, res *result) {
	grouped := a.group != ""
	names := map[string]bool{"": true, "_not_exists": true}
	ftoks := map[string]bool{}
	for _, f := range w.fracs {
		for _, d := range f {
			if g, ok := d.f[a.group]; ok && grouped {
				names[g] = true
			}
			if v, ok := d.f[a.field]; ok {
				ftoks[v] = true
			}
		}
	}
	id, fid := rankMap(names), rankMap(ftoks)
	var parts []string
	expect := false
	for _, i := range leaves {
		var ds []string
		for _, d := range sortedDocs(w.fracs[i], s.reverse) {
			g, fv := "None", "None"
			if x, ok := d.f[a.group]; ok && grouped {
				g = fmt.Sprintf("(Some %d%%N)", id[x])
			}
			if x, ok := d.f[a.field]; ok {
				fv = fmt.Sprintf("(Some (%d%%N, %d%%Z))", fid[x], tokBits(x))
				if selectedDoc(d, s) && !tokFinite(x) && (!grouped || g != "None") {
					expect = true
				}
			}
			ds = append(ds, fmt.Sprintf("FDoc %d %s %s %s", d.mid, casefile.Bool(s.all || d.f["m"] == "1"), g, fv))
		}
		parts = append(parts, "(FLeaf (FLeafR ["+strings.Join(ds, "; ")+"] []))")
	}
	if len(parts) == 0 {
		parts = []string{"(FLeaf (FLeafR [] []))"}
	}
	tcoq := parts[0]
	for _, p := range parts[1:] {
		tcoq = "(FNode " + tcoq + " " + p + ")"
	}
	qcoq := fmt.Sprintf("(Query %d %d %s %s %d []%%N %d 0)", s.from, s.to, funcCoq[a.fn], casefile.Bool(grouped), a.interval, id["_not_exists"])
	in := baseInput()
	in["float"], in["fractions_searched"], in["which"], in["agg_index"] = true, leaves, which, 0
	in["agg"] = map[string]any{"func": funcNames[a.fn], "field": a.field, "group_by": a.group, "interval": a.interval}
	class := "float-parse-ok"
	if expect {
		class = "float-parse-error"
	}
	res.cases = append(res.cases, pending{fmt.Sprintf("CFErr %s %s %s", tcoq, qcoq, casefile.Bool(implErr)), class, expect, in,
		map[string]any{"error": implErr, "text": errText}})
	res.counts = append(res.counts, "float:"+class)
}
