package main

// gen-<func> correspondence classes: validation of the Go-to-Gallina translator (harness/cmd/go2coq).
// The REAL functions are called on boundary and generated arguments; case_agrees evaluates the
// definitions GENERATED from their source (props/C05/coq/Gen.v) on the same arguments.

import (
	"github.com/ozontech/seq-db/seq"

	"verif/harness/internal/casefile"
	gc "verif/harness/internal/gencase"
	"verif/harness/internal/rng"
)

func runGen(w *casefile.Writer, r *rng.R, thorough bool) {
	n := 150
	if thorough {
		n = 1500
	}
	add := func(it gc.Item) {
		w.Add(it.Coq, it.Class, false, it.Input, it.Impl)
		w.Count("gen:" + it.Class)
	}
	for i := 0; i < n; i++ {
		a := seq.ID{MID: seq.MID(gc.U64(r)), RID: seq.RID(gc.U64(r))}
		b := seq.ID{MID: seq.MID(gc.U64(r)), RID: seq.RID(gc.U64(r))}
		switch r.Intn(4) {
		case 0:
			b.MID = a.MID
		case 1:
			b = a
		}
		add(gc.Case("gen-Less", 1, []gc.Arg{gc.S(gc.U(uint64(a.MID))), gc.S(gc.U(uint64(a.RID))), gc.S(gc.U(uint64(b.MID))), gc.S(gc.U(uint64(b.RID)))},
			func() []string { return []string{gc.B(seq.Less(a, b))} }))
		// paginateIDs: the IDSources carry their tag in the MID; capacity = length
		k := r.Intn(8)
		ids := make(seq.IDSources, k)
		tags := make([]int, k)
		for j := range ids {
			tags[j] = 100 + j
			ids[j] = seq.IDSource{ID: seq.ID{MID: seq.MID(100 + j)}}
		}
		off, size := gc.Small(r, k+2), gc.Small(r, k+2)
		add(gc.Case("gen-paginateIDs", 2, []gc.Arg{gc.Ints(tags), gc.S(gc.I(int64(off))), gc.S(gc.I(int64(size)))},
			func() []string {
				out, sz := pager.VerifC05PaginateIDs(ids, off, size)
				res := []string{gc.I(int64(sz))}
				for _, x := range out {
					res = append(res, gc.U(uint64(x.ID.MID)))
				}
				return res
			}))
	}
}
