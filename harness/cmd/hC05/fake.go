package main

import (
	"context"
	"math"
	"sort"

	"github.com/ozontech/seq-db/frac"
	"github.com/ozontech/seq-db/frac/processor"
	"github.com/ozontech/seq-db/seq"
)

// fakeFrac implements frac.Fraction over an in-memory document list. Its Search answers what
// ONE fraction answers (ordered hits, adjacent duplicates dropped, cut at the limit; total,
// histogram and count aggregation over every hit of a scan-all request). It lets the real
// SearchDocs loop (prepareFracs, Shift, MergeQPRs, calcEnsuredIDsCount) run on very many
// layouts; the real per-fraction search is exercised by the "real" cases.
type fakeFrac struct {
	info *frac.Info
	docs []Doc
	p    *Params // decides which documents match (the AST is not interpreted)
}

func newFakeFrac(docs []Doc, p *Params) *fakeFrac {
	info := &frac.Info{From: math.MaxUint64, To: 0, DocsTotal: uint32(len(docs))}
	for _, d := range docs {
		if seq.MID(d.MID) < info.From {
			info.From = seq.MID(d.MID)
		}
		if seq.MID(d.MID) > info.To {
			info.To = seq.MID(d.MID)
		}
	}
	return &fakeFrac{info: info, docs: docs, p: p}
}

// borderFrac is a fraction of which only the borders matter (calcEnsuredIDsCount).
func borderFrac(from, to uint64) *fakeFrac {
	return &fakeFrac{info: &frac.Info{From: seq.MID(from), To: seq.MID(to), DocsTotal: 2}}
}

func (f *fakeFrac) Info() *frac.Info                     { return f.info }
func (f *fakeFrac) IsIntersecting(from, to seq.MID) bool { return f.info.IsIntersecting(from, to) }
func (f *fakeFrac) Contains(mid seq.MID) bool            { return f.info.From <= mid && mid <= f.info.To }
func (f *fakeFrac) Suicide()                             {}
func (f *fakeFrac) DataProvider(context.Context) (frac.DataProvider, func()) {
	return f, func() {}
}
func (f *fakeFrac) Fetch(ids []seq.ID) ([][]byte, error) { return make([][]byte, len(ids)), nil }

func (f *fakeFrac) Search(sp processor.SearchParams) (*seq.QPR, error) {
	var hs []Doc
	for _, d := range f.docs {
		if f.p.matches(d) && seq.MID(d.MID) >= sp.From && seq.MID(d.MID) <= sp.To {
			hs = append(hs, d)
		}
	}
	less := func(a, b Doc) bool {
		if a.MID != b.MID {
			return a.MID < b.MID
		}
		return a.RID < b.RID
	}
	sort.SliceStable(hs, func(i, j int) bool {
		if sp.Order.IsReverse() {
			return less(hs[i], hs[j])
		}
		return less(hs[j], hs[i])
	})
	q := &seq.QPR{IDs: seq.IDSources{}}
	for i, d := range hs {
		if len(q.IDs) >= sp.Limit {
			break
		}
		if i > 0 && hs[i-1].MID == d.MID && hs[i-1].RID == d.RID {
			continue
		}
		q.IDs = append(q.IDs, seq.IDSource{ID: seq.ID{MID: seq.MID(d.MID), RID: seq.RID(d.RID)}})
	}
	if sp.WithTotal {
		q.Total = uint64(len(hs))
	}
	if sp.HistInterval > 0 {
		q.Histogram = map[seq.MID]uint64{}
		for _, d := range hs {
			q.Histogram[seq.MID(d.MID-d.MID%sp.HistInterval)]++
		}
	}
	if len(sp.AggQ) > 0 {
		a := seq.AggregatableSamples{SamplesByBin: map[seq.AggBin]*seq.SamplesContainer{}}
		for _, d := range hs {
			tok := d.G
			if tok == "" {
				tok = "_not_exists"
				a.NotExists++
			}
			bin := seq.AggBin{Token: tok}
			if a.SamplesByBin[bin] == nil {
				a.SamplesByBin[bin] = seq.NewSamplesContainers()
			}
			a.SamplesByBin[bin].Total++
		}
		q.Aggs = []seq.AggregatableSamples{a}
	}
	return q, nil
}
