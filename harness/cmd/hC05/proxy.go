package main

import (
	"bytes"
	"context"
	"errors"
	"fmt"
	"io"
	"os"
	"strings"
	"sync"

	"google.golang.org/grpc"
	"google.golang.org/grpc/metadata"

	"github.com/ozontech/seq-db/fracmanager"
	pb "github.com/ozontech/seq-db/pkg/storeapi"
	"github.com/ozontech/seq-db/proxy/search"
	"github.com/ozontech/seq-db/proxy/stores"
	"github.com/ozontech/seq-db/seq"
	"github.com/ozontech/seq-db/storeapi"

	"verif/harness/internal/casefile"
)

type mappingProvider struct{}

func (mappingProvider) GetMapping() seq.Mapping { return mapping }

// proxyEnv is the state shared by the in-process clients of one environment: which replicas refuse the
// current request and the order in which the replicas of every shard were asked.
type proxyEnv struct {
	mu    sync.Mutex
	down  [][]bool
	calls [][]int // per shard: replica indices in the order searchShard asked them
}

// inproc is a StoreApiClient that hands the request to a real store handler in this process
// (no network); a replica that is down answers the search with an error.
type inproc struct {
	pb.StoreApiClient // nil: every other method is unused
	g                 *storeapi.GrpcV1
	env               *proxyEnv
	si, ri            int
}

func (c *inproc) Search(ctx context.Context, in *pb.SearchRequest, _ ...grpc.CallOption) (*pb.SearchResponse, error) {
	c.env.mu.Lock()
	c.env.calls[c.si] = append(c.env.calls[c.si], c.ri)
	down := c.env.down[c.si][c.ri]
	c.env.mu.Unlock()
	if down {
		return nil, errors.New("replica is down")
	}
	ctx = metadata.NewIncomingContext(ctx, metadata.Pairs("use-seq-ql", "true"))
	return c.g.Search(ctx, in)
}

// fetchServer collects what the real Fetch handler sends; fetchClient replays it to the proxy.
type fetchServer struct {
	grpc.ServerStream
	ctx    context.Context
	blocks [][]byte
}

func (s *fetchServer) Context() context.Context { return s.ctx }
func (s *fetchServer) Send(d *pb.BinaryData) error {
	s.blocks = append(s.blocks, append([]byte{}, d.Data...))
	return nil
}

type fetchClient struct {
	grpc.ClientStream
	blocks [][]byte
	err    error
}

func (c *fetchClient) Recv() (*pb.BinaryData, error) {
	if len(c.blocks) == 0 {
		if c.err != nil {
			return nil, c.err
		}
		return nil, io.EOF
	}
	b := c.blocks[0]
	c.blocks = c.blocks[1:]
	return &pb.BinaryData{Data: b}, nil
}

// Fetch runs the real store handler to completion (a replica that refuses searches still serves fetches:
// only the search path is made to fail).
func (c *inproc) Fetch(ctx context.Context, in *pb.FetchRequest, _ ...grpc.CallOption) (pb.StoreApi_FetchClient, error) {
	srv := &fetchServer{ctx: ctx}
	err := c.g.Fetch(in, srv)
	return &fetchClient{blocks: srv.blocks, err: err}, nil
}

func downFromFail(shards [][][][]Doc, fail []int) [][]bool {
	down := make([][]bool, len(shards))
	for si, reps := range shards {
		down[si] = make([]bool, len(reps))
		for ri := range reps {
			down[si][ri] = ri < fail[si]
		}
	}
	return down
}

func hostName(si, ri int) string { return fmt.Sprintf("shard%d-replica%d", si, ri) }
func hostSrc(si, ri int) uint64  { return uint64(si*10 + ri + 1) }

// runProxy builds shards x replicas real stores (replica = its own FracManager with its own
// fraction layout of the shard's documents, hence its own fraction names), real Ingestors (with and
// without ShuffleReplicas) over in-process clients, and runs every request through Ingestor.Search.
// Request kinds: proxy (IDs / total / histogram / count aggregation), aggproxy (field aggregation),
// proxydocs (ShouldFetch: every listed ID with its source, hint and delivered document).
func runProxy(w *casefile.Writer, shards [][][][]Doc, rsealed [][][]bool, fail []int, fpi int, reqs []*Spec) {
	base := &Spec{Kind: "proxy", Shards: shards, RSealed: rsealed, Fail: fail, FPI: fpi}
	var sts []*store
	var asyncDirs []string
	defer func() {
		for _, s := range sts {
			s.close()
		}
		for _, d := range asyncDirs {
			os.RemoveAll(d)
		}
	}()
	env := &proxyEnv{down: downFromFail(shards, fail), calls: make([][]int, len(shards))}
	clients := map[string]pb.StoreApiClient{}
	cfg := search.Config{HotStores: &stores.Stores{}, ReadStores: &stores.Stores{}}
	fracNum := map[string]uint64{} // fraction name -> number used as hint in the model
	stOf := map[[2]int]*store{}    // (shard, replica) -> store
	hostIdx := map[string][2]int{} // host name -> (shard, replica)
	err, pn, hung := guarded(func() error {
		for si, reps := range shards {
			var hosts []string
			for ri, layout := range reps {
				st, e := buildStore(layout, rsealed[si][ri])
				if e != nil {
					return e
				}
				sts = append(sts, st)
				stOf[[2]int{si, ri}] = st
				for fi, f := range st.fracs {
					fracNum[f.Info().Name()] = hostSrc(si, ri)*100 + uint64(fi)
				}
				ad, e := os.MkdirTemp("", "verif-c05-async-")
				if e != nil {
					return e
				}
				asyncDirs = append(asyncDirs, ad)
				g := storeapi.NewGrpcV1(storeapi.APIConfig{Search: storeapi.SearchConfig{
					WorkersCount: 4, FractionsPerIteration: fpi, RequestsLimit: 1000,
					Async: fracmanager.AsyncSearcherConfig{DataDir: ad},
				}}, st.fm, mappingProvider{})
				host := hostName(si, ri)
				clients[host] = &inproc{g: g, env: env, si: si, ri: ri}
				hostIdx[host] = [2]int{si, ri}
				hosts = append(hosts, host)
			}
			cfg.HotStores.Shards = append(cfg.HotStores.Shards, hosts)
		}
		return nil
	})
	if direct(w, "proxy:build", base, err, pn, hung) {
		return
	}
	ing := search.NewIngestor(cfg, clients)
	cfgS := cfg
	cfgS.ShuffleReplicas = true
	ingS := search.NewIngestor(cfgS, clients)
	w.Count(fmt.Sprintf("proxy:shards=%d", len(shards)))

	// one Ingestor.Search; returns the order in which the replicas of every shard were asked
	call := func(in *search.Ingestor, sr *search.SearchRequest, down [][]bool) (*seq.QPR, search.DocsIterator, [][]int, error) {
		env.mu.Lock()
		env.down = down
		env.calls = make([][]int, len(shards))
		env.mu.Unlock()
		qpr, stream, _, e := in.Search(context.Background(), sr, nil)
		env.mu.Lock()
		calls := env.calls
		env.calls = make([][]int, len(shards))
		env.mu.Unlock()
		return qpr, stream, calls, e
	}

	for _, sp := range reqs {
		kind := sp.Kind
		if kind != "aggproxy" && kind != "proxydocs" {
			kind = "proxy"
		}
		sp.Kind, sp.Shards, sp.RSealed, sp.Fail, sp.FPI = kind, shards, rsealed, fail, fpi
		p := sp.P
		sr := &search.SearchRequest{Q: []byte(p.query()), Offset: sp.Offset, Size: sp.Size, Interval: seq.MID(p.Hist),
			From: seq.MID(p.From), To: seq.MID(p.To), WithTotal: p.Total, ShouldFetch: false, Order: p.order()}
		switch kind {
		case "proxy":
			if p.Agg {
				sr.AggQ = []search.AggQuery{{GroupBy: "g", Func: seq.AggFuncCount}}
			}
		case "aggproxy":
			sr.AggQ = []search.AggQuery{{Field: "v", GroupBy: "g", Func: seq.AggFunc(sp.Func)}}
		case "proxydocs":
			sr.ShouldFetch = true
			runProxyDocs(w, sp, sr, ing, ingS, call, shards, fracNum, hostIdx)
			continue
		}
		var qpr *seq.QPR
		err, pn, hung := guarded(func() error {
			var e error
			qpr, _, _, e = call(ing, sr, downFromFail(shards, fail))
			return e
		})
		if direct(w, kind, sp, err, pn, hung) {
			continue
		}
		if kind == "aggproxy" {
			o, oerr := observeFagg(qpr)
			if oerr != nil {
				w.Violate("unrepresentable:proxy-aggfield", oerr.Error(), sp)
				continue
			}
			sh := make([]string, len(shards))
			var chosen [][]Doc
			for si, reps := range shards {
				rs := make([]string, len(reps))
				for ri, layout := range reps {
					rs[ri] = coqALayout(layout, p)
				}
				sh[si] = "[" + strings.Join(rs, ";\n     ") + "]"
				chosen = append(chosen, reps[fail[si]]...)
			}
			split := splitGroup(chosen, p)
			if split {
				w.Count("proxy-aggfield:group-part-without-field")
			}
			w.Count(fmt.Sprintf("proxy-aggfield:shards=%d", len(shards)))
			w.Count(fmt.Sprintf("proxy-aggfield:fpi=%d", fpi))
			w.Add(fmt.Sprintf("CAggProxy\n    [%s]\n    %s %s %d%%nat\n    %s", strings.Join(sh, ";\n    "), coqNats(fail), coqParams(p), fpi,
				o.coq()), "proxy-aggfield", split, sp, o)
			continue
		}
		o, oerr := observe(qpr)
		if oerr != nil {
			w.Violate("unrepresentable:proxy", oerr.Error(), sp)
			continue
		}
		sh := "["
		twice := map[[2]uint64]int{}
		for si, reps := range shards {
			if si > 0 {
				sh += ";\n    "
			}
			sh += "["
			for ri, layout := range reps {
				if ri > 0 {
					sh += ";\n     "
				}
				sh += coqLayout(layout, p)
				if ri == fail[si] {
					for _, f := range layout {
						for _, d := range f {
							twice[[2]uint64{d.MID, d.RID}]++
						}
					}
				}
			}
			sh += "]"
		}
		sh += "]"
		dup := false
		for _, n := range twice {
			if n > 1 {
				dup = true
			}
		}
		if dup {
			w.Count("proxy:id-on-several-shards-or-fractions")
		}
		failing := 0
		for _, f := range fail {
			failing += f
		}
		if failing > 0 {
			w.Count("proxy:with-failing-replica")
		}
		w.Count(fmt.Sprintf("proxy:fpi=%d", fpi))
		w.Add(fmt.Sprintf("CProxy\n    %s\n    %s %s %d%%nat %d%%nat %d%%nat\n    %s", sh, coqNats(fail), coqParams(p), sp.Offset, sp.Size,
			fpi, o.coq()), "proxy", len(shards) >= 2 && sp.Offset > 0 && sp.Size > 0 && len(o.IDs) > 0, sp, o)
	}
}

// docObs is one listed ID of a page as the proxy attributes and delivers it.
type docObs struct {
	ID   [2]uint64 `json:"id"`
	Src  uint64    `json:"src"`  // hostSrc of the host the ID's source stands for (0 = unknown source)
	Hint uint64    `json:"hint"` // number of the fraction the hint names (0 = unknown fraction)
	Body uint64    `json:"body"` // 0 = empty document, 1 = not the stored bytes, else bodyCode
}

const maxShuffleTries = 4000

func equalCalls(a, b [][]int) bool {
	if len(a) != len(b) {
		return false
	}
	for i := range a {
		if len(a[i]) != len(b[i]) {
			return false
		}
		for j := range a[i] {
			if a[i][j] != b[i][j] {
				return false
			}
		}
	}
	return true
}

func runProxyDocs(w *casefile.Writer, sp *Spec, sr *search.SearchRequest, ing, ingS *search.Ingestor,
	call func(*search.Ingestor, *search.SearchRequest, [][]bool) (*seq.QPR, search.DocsIterator, [][]int, error),
	shards [][][][]Doc, fracNum map[string]uint64, hostIdx map[string][2]int) {
	p := sp.P
	down := sp.Down
	if down == nil {
		down = downFromFail(shards, sp.Fail)
	}
	// the order in which searchShard must ask the replicas: the prefix of the wanted permutation up to the
	// first replica that is up
	want := make([][]int, len(shards))
	for si, reps := range shards {
		order := make([]int, len(reps))
		for i := range order {
			order[i] = i
		}
		if sp.Shuffle && sp.Perm != nil {
			order = sp.Perm[si]
		}
		for _, ri := range order {
			want[si] = append(want[si], ri)
			if !down[si][ri] {
				break
			}
		}
	}
	in := ing
	if sp.Shuffle {
		in = ingS
	}
	var qpr *seq.QPR
	var calls [][]int
	docs := map[[2]uint64][]byte{}
	tries := 0
	err, pn, hung := guarded(func() error {
		for tries = 1; tries <= maxShuffleTries; tries++ {
			q, stream, c, e := call(in, sr, down)
			if e != nil {
				return e
			}
			if !equalCalls(c, want) {
				continue // util.IdxShuffle drew another order: ask again
			}
			qpr, calls = q, c
			for {
				d, e := stream.Next()
				if e != nil {
					break // io.EOF, or the stream's complaint about missing documents: what was delivered counts
				}
				k := [2]uint64{uint64(d.ID.MID), uint64(d.ID.RID)}
				if _, seen := docs[k]; !seen || len(docs[k]) == 0 {
					docs[k] = append([]byte{}, d.Data...)
				}
			}
			return nil
		}
		return nil
	})
	if direct(w, "proxy-docs", sp, err, pn, hung) {
		return
	}
	if qpr == nil {
		w.Count("proxy-docs:shuffle-order-not-drawn")
		return
	}
	stored := map[[2]uint64]Doc{}
	for _, reps := range shards {
		for _, layout := range reps {
			for _, f := range layout {
				for _, d := range f {
					stored[[2]uint64{d.MID, d.RID}] = d
				}
			}
		}
	}
	// copies[id] = every (source, hint) under which an answering replica holds a hit with that ID. Which of
	// several copies of an ID is listed is not determined (unstable sort, shards answer in any order): an
	// observed attribution that IS one of the copies is rendered as the first of them, anything else verbatim.
	copies := map[[2]uint64][][2]uint64{}
	for si, reps := range shards {
		ri := calls[si][len(calls[si])-1]
		for fi, f := range reps[ri] {
			for _, d := range f {
				if p.matches(d) && d.MID >= p.From && d.MID <= p.To {
					k := [2]uint64{d.MID, d.RID}
					copies[k] = append(copies[k], [2]uint64{hostSrc(si, ri), hostSrc(si, ri)*100 + uint64(fi)})
				}
			}
		}
	}
	page := make([]docObs, len(qpr.IDs))
	entries := make([]string, len(qpr.IDs))
	for i, id := range qpr.IDs {
		k := [2]uint64{uint64(id.ID.MID), uint64(id.ID.RID)}
		o := docObs{ID: k, Hint: fracNum[id.Hint]}
		if sr, ok := hostIdx[in.VerifC05HostBySource(id.Source)]; ok {
			o.Src = hostSrc(sr[0], sr[1])
		}
		if b := docs[k]; len(b) > 0 {
			o.Body = 1
			if d, ok := stored[k]; ok && bytes.Equal(b, docBody(d)) {
				o.Body = bodyCode(d)
			}
		}
		if cs := copies[k]; len(cs) > 1 {
			for _, c := range cs {
				if c == [2]uint64{o.Src, o.Hint} {
					o.Src, o.Hint = cs[0][0], cs[0][1]
					w.Count("proxy-docs:id-with-several-copies")
					break
				}
			}
		}
		page[i] = o
		body := "None"
		if o.Body != 0 {
			body = fmt.Sprintf("(Some %d)", o.Body)
		}
		entries[i] = fmt.Sprintf("(mkIS %s %d %d, %s)", coqID(k[0], k[1]), o.Src, o.Hint, body)
	}
	sh := make([]string, len(shards))
	moved := false
	for si, reps := range shards {
		hs := make([]string, len(reps))
		for ri, layout := range reps {
			fs := make([]string, len(layout))
			for fi, f := range layout {
				ds := make([]string, len(f))
				for j, d := range f {
					ds[j] = fmt.Sprintf("mkSD (%s) %d", coqDoc(d, p), bodyCode(d))
				}
				fs[fi] = fmt.Sprintf("mkNF %d [%s]", hostSrc(si, ri)*100+uint64(fi), strings.Join(ds, "; "))
			}
			hs[ri] = fmt.Sprintf("mkH %d %s [%s]", hostSrc(si, ri), coqBool(!down[si][ri]), strings.Join(fs, ";\n       "))
		}
		sh[si] = "[" + strings.Join(hs, ";\n     ") + "]"
		if k := len(calls[si]) - 1; calls[si][k] != k {
			moved = true // the replica that answered is not the one at the loop position
		}
	}
	idxs := make([]string, len(calls))
	for si, c := range calls {
		idxs[si] = coqNats(c)
	}
	if sp.Shuffle {
		w.Count("proxy-docs:shuffle")
		for si, c := range calls {
			if len(shards[si]) > 1 {
				w.Count(fmt.Sprintf("proxy-docs:replicas=%d:answered-by=%d-at-position=%d", len(shards[si]), c[len(c)-1], len(c)-1))
			}
		}
	} else {
		w.Count("proxy-docs:no-shuffle")
	}
	if moved {
		w.Count("proxy-docs:answering-replica-not-at-loop-position")
	}
	w.Count(fmt.Sprintf("proxy-docs:shards=%d", len(shards)))
	if len(page) > 0 {
		w.Count("proxy-docs:non-empty-page")
	}
	w.Add(fmt.Sprintf("CProxyDocs\n    [%s]\n    [%s] %s %d%%nat %d%%nat %d%%nat\n    [%s]", strings.Join(sh, ";\n    "), strings.Join(idxs, "; "),
		coqParams(p), sp.Offset, sp.Size, sp.FPI, strings.Join(entries, "; ")),
		"proxy-docs", moved && len(page) > 0, sp, map[string]any{"page": page, "calls": calls})
}
