package main

import (
	"context"
	"errors"
	"fmt"
	"os"

	"google.golang.org/grpc"
	"google.golang.org/grpc/metadata"

	"github.com/ozontech/seq-db/fracmanager"
	pb "github.com/ozontech/seq-db/pkg/storeapi"
	"github.com/ozontech/seq-db/proxy/search"
	"github.com/ozontech/seq-db/proxy/stores"
	"github.com/ozontech/seq-db/seq"
	"github.com/ozontech/seq-db/storeapi"

	"verif/harness/internal/casefile"
)

type mappingProvider struct{}

func (mappingProvider) GetMapping() seq.Mapping { return mapping }

// inproc is a StoreApiClient that hands the request to a real store handler in this process
// (no network); a failing replica answers with an error.
type inproc struct {
	pb.StoreApiClient // nil: every other method is unused
	g                 *storeapi.GrpcV1
	fail              bool
}

func (c *inproc) Search(ctx context.Context, in *pb.SearchRequest, _ ...grpc.CallOption) (*pb.SearchResponse, error) {
	if c.fail {
		return nil, errors.New("replica is down")
	}
	ctx = metadata.NewIncomingContext(ctx, metadata.Pairs("use-seq-ql", "true"))
	return c.g.Search(ctx, in)
}

// runProxy builds shards x replicas real stores (replica = its own FracManager with its own
// fraction layout of the shard's documents), a real Ingestor over in-process clients, and runs
// every request through Ingestor.Search.
func runProxy(w *casefile.Writer, shards [][][][]Doc, rsealed [][][]bool, fail []int, fpi int, reqs []*Spec) {
	base := &Spec{Kind: "proxy", Shards: shards, RSealed: rsealed, Fail: fail, FPI: fpi}
	var sts []*store
	var asyncDirs []string
	defer func() {
		for _, s := range sts {
			s.close()
		}
		for _, d := range asyncDirs {
			os.RemoveAll(d)
		}
	}()
	clients := map[string]pb.StoreApiClient{}
	cfg := search.Config{HotStores: &stores.Stores{}, ReadStores: &stores.Stores{}}
	err, pn, hung := guarded(func() error {
		for si, reps := range shards {
			var hosts []string
			for ri, layout := range reps {
				st, e := buildStore(layout, rsealed[si][ri])
				if e != nil {
					return e
				}
				sts = append(sts, st)
				ad, e := os.MkdirTemp("", "verif-c05-async-")
				if e != nil {
					return e
				}
				asyncDirs = append(asyncDirs, ad)
				g := storeapi.NewGrpcV1(storeapi.APIConfig{Search: storeapi.SearchConfig{
					WorkersCount: 4, FractionsPerIteration: fpi, RequestsLimit: 1000,
					Async: fracmanager.AsyncSearcherConfig{DataDir: ad},
				}}, st.fm, mappingProvider{})
				host := fmt.Sprintf("shard%d-replica%d", si, ri)
				clients[host] = &inproc{g: g, fail: ri < fail[si]}
				hosts = append(hosts, host)
			}
			cfg.HotStores.Shards = append(cfg.HotStores.Shards, hosts)
		}
		return nil
	})
	if direct(w, "proxy:build", base, err, pn, hung) {
		return
	}
	ing := search.NewIngestor(cfg, clients)
	w.Count(fmt.Sprintf("proxy:shards=%d", len(shards)))
	for _, sp := range reqs {
		sp.Kind, sp.Shards, sp.RSealed, sp.Fail, sp.FPI = "proxy", shards, rsealed, fail, fpi
		p := sp.P
		sr := &search.SearchRequest{Q: []byte(p.query()), Offset: sp.Offset, Size: sp.Size, Interval: seq.MID(p.Hist),
			From: seq.MID(p.From), To: seq.MID(p.To), WithTotal: p.Total, ShouldFetch: false, Order: p.order()}
		if p.Agg {
			sr.AggQ = []search.AggQuery{{GroupBy: "g", Func: seq.AggFuncCount}}
		}
		var qpr *seq.QPR
		err, pn, hung := guarded(func() error {
			var e error
			qpr, _, _, e = ing.Search(context.Background(), sr, nil)
			return e
		})
		if direct(w, "proxy", sp, err, pn, hung) {
			continue
		}
		o, oerr := observe(qpr)
		if oerr != nil {
			w.Violate("unrepresentable:proxy", oerr.Error(), sp)
			continue
		}
		sh := "["
		twice := map[[2]uint64]int{}
		for si, reps := range shards {
			if si > 0 {
				sh += ";\n    "
			}
			sh += "["
			for ri, layout := range reps {
				if ri > 0 {
					sh += ";\n     "
				}
				sh += coqLayout(layout, p)
				if ri == fail[si] {
					for _, f := range layout {
						for _, d := range f {
							twice[[2]uint64{d.MID, d.RID}]++
						}
					}
				}
			}
			sh += "]"
		}
		sh += "]"
		dup := false
		for _, n := range twice {
			if n > 1 {
				dup = true
			}
		}
		if dup {
			w.Count("proxy:id-on-several-shards-or-fractions")
		}
		failing := 0
		for _, f := range fail {
			failing += f
		}
		if failing > 0 {
			w.Count("proxy:with-failing-replica")
		}
		w.Count(fmt.Sprintf("proxy:fpi=%d", fpi))
		w.Add(fmt.Sprintf("CProxy\n    %s\n    %s %s %d%%nat %d%%nat %d%%nat\n    %s", sh, coqNats(fail), coqParams(p), sp.Offset, sp.Size,
			fpi, o.coq()), "proxy", len(shards) >= 2 && sp.Offset > 0 && sp.Size > 0 && len(o.IDs) > 0, sp, o)
	}
}
