package main

import (
	"fmt"
	"math"
	"math/big"
	"sort"
	"strings"

	"github.com/ozontech/seq-db/seq"
)

// ---------------------------------------------------------------- replayable case descriptions

// Doc is one stored document: its ID, the value of the keyword field k the queries filter on and
// the value of the group field g ("" = the document has no field g).
type Doc struct {
	MID uint64 `json:"mid"`
	RID uint64 `json:"rid"`
	K   string `json:"k"`
	G   string `json:"g,omitempty"`
	V   *int64 `json:"v,omitempty"` // value of the numeric field v (nil = the document has no field v)
}

// Params is a search request. A document matches when (K in Match) != Not.
type Params struct {
	From  uint64   `json:"from"`
	To    uint64   `json:"to"`
	Limit int      `json:"limit"`
	Asc   bool     `json:"asc"`
	Total bool     `json:"total"`
	Hist  uint64   `json:"hist"`
	Agg   bool     `json:"agg"`
	Match []string `json:"match"`
	Not   bool     `json:"not"`
}

// QS is a QPR in source form.
type QS struct {
	IDs   [][2]uint64       `json:"ids"`
	Total uint64            `json:"total"`
	Hist  map[uint64]uint64 `json:"hist"`
	Agg   map[string]int64  `json:"agg"` // token -> count ("_not_exists" allowed)
	NE    int64             `json:"ne"`
}

// Spec describes one case completely; -replay re-runs it from the JSON in the replay file.
type Spec struct {
	Kind string `json:"kind"` // merge ensured page fake real proxy

	// merge
	Dst      *QS    `json:"dst,omitempty"`
	Qs       []*QS  `json:"qs,omitempty"`
	Limit    int    `json:"limit,omitempty"`
	Interval uint64 `json:"interval,omitempty"`
	Asc      bool   `json:"asc,omitempty"`
	// ensured (ids + borders of the remaining fractions), page (ids)
	IDs [][2]uint64 `json:"ids,omitempty"`
	Rem [][2]uint64 `json:"rem,omitempty"`
	// page / proxy
	Offset int `json:"offset,omitempty"`
	Size   int `json:"size,omitempty"`
	// fake / real
	Layout [][]Doc `json:"layout,omitempty"`
	Sealed []bool  `json:"sealed,omitempty"`
	P      *Params `json:"p,omitempty"`
	FPI    int     `json:"fpi"`
	Single bool    `json:"single,omitempty"`
	// proxy: shard -> replica -> fraction -> docs; Fail = number of leading replicas of the shard
	// that refuse the request (so replica Fail[i] answers)
	Shards  [][][][]Doc `json:"shards,omitempty"`
	RSealed [][][]bool  `json:"rsealed,omitempty"`
	Fail    []int       `json:"fail,omitempty"`
	// aggreal / aggproxy: the aggregation function of the request (seq.AggFuncSum, Min, Max, Avg) with
	// Field v and GroupBy g
	Func int `json:"func,omitempty"`
	// proxydocs: Ingestor.Search with ShouldFetch; Shuffle = ShuffleReplicas; Down[s][r] = replica r of shard s
	// refuses the search; Perm[s] = the order in which searchShard has to ask the replicas of shard s (the
	// driver repeats the request until util.IdxShuffle draws it; nil without Shuffle)
	Shuffle bool     `json:"shuffle,omitempty"`
	Down    [][]bool `json:"down,omitempty"`
	Perm    [][]int  `json:"perm,omitempty"`
}

var kVals = []string{"a", "b", "c"}
var gVals = []string{"x", "y", "z"}

func gIndex(tok string) (uint64, bool) {
	if tok == "_not_exists" {
		return 0, true
	}
	for i, g := range gVals {
		if g == tok {
			return uint64(i + 1), true
		}
	}
	return 0, false
}

func (p *Params) matches(d Doc) bool {
	in := false
	for _, m := range p.Match {
		if m == d.K {
			in = true
		}
	}
	return in != p.Not
}

func (p *Params) query() string {
	parts := make([]string, len(p.Match))
	for i, m := range p.Match {
		parts[i] = "k:" + m
	}
	q := strings.Join(parts, " or ")
	if p.Not {
		q = "not (" + q + ")"
	}
	return q
}

func (p *Params) order() seq.DocsOrder {
	if p.Asc {
		return seq.DocsOrderAsc
	}
	return seq.DocsOrderDesc
}

// ---------------------------------------------------------------- Coq rendering (N_scope is open)

func coqOrder(asc bool) string {
	if asc {
		return "Asc"
	}
	return "Desc"
}

func coqBool(b bool) string {
	if b {
		return "true"
	}
	return "false"
}

func coqID(m, r uint64) string { return fmt.Sprintf("(%d, %d)", m, r) }

func coqIDs(ids [][2]uint64) string {
	parts := make([]string, len(ids))
	for i, id := range ids {
		parts[i] = coqID(id[0], id[1])
	}
	return "[" + strings.Join(parts, "; ") + "]"
}

func coqPairs(m map[uint64]uint64) string {
	keys := make([]uint64, 0, len(m))
	for k := range m {
		keys = append(keys, k)
	}
	sort.Slice(keys, func(i, j int) bool { return keys[i] < keys[j] })
	parts := make([]string, len(keys))
	for i, k := range keys {
		parts[i] = fmt.Sprintf("(%d, %d)", k, m[k])
	}
	return "[" + strings.Join(parts, "; ") + "]"
}

// obs is the canonical observation of a QPR.
type obs struct {
	IDs   [][2]uint64       `json:"ids"`
	Total uint64            `json:"total"`
	Hist  map[uint64]uint64 `json:"hist"`
	Agg   map[uint64]uint64 `json:"agg"`
	NE    uint64            `json:"ne"`
}

func (o *obs) coq() string {
	return fmt.Sprintf("(mkQ %s %d %s %s %d)", coqIDs(o.IDs), o.Total, coqPairs(o.Hist), coqPairs(o.Agg), o.NE)
}

// observe canonicalises a real QPR: IDs without source/hint, histogram and the (single) count
// aggregation as key-sorted lists. An aggregation bin that the model cannot express is an error.
func observe(q *seq.QPR) (*obs, error) {
	o := &obs{Hist: map[uint64]uint64{}, Agg: map[uint64]uint64{}, Total: q.Total}
	for _, id := range q.IDs {
		o.IDs = append(o.IDs, [2]uint64{uint64(id.ID.MID), uint64(id.ID.RID)})
	}
	for k, v := range q.Histogram {
		o.Hist[uint64(k)] = v
	}
	if len(q.Aggs) > 1 {
		return nil, fmt.Errorf("%d aggregations", len(q.Aggs))
	}
	if len(q.Aggs) == 1 {
		a := q.Aggs[0]
		if a.NotExists < 0 {
			return nil, fmt.Errorf("negative NotExists")
		}
		o.NE = uint64(a.NotExists)
		for bin, sc := range a.SamplesByBin {
			k, ok := gIndex(bin.Token)
			if !ok || bin.MID != 0 || sc == nil || sc.Total < 0 {
				return nil, fmt.Errorf("unexpected aggregation bin %q mid=%d", bin.Token, bin.MID)
			}
			o.Agg[k] += uint64(sc.Total)
		}
	}
	return o, nil
}

func (q *QS) coq() string {
	agg := map[uint64]uint64{}
	for t, c := range q.Agg {
		k, _ := gIndex(t)
		agg[k] = uint64(c)
	}
	h := q.Hist
	if h == nil {
		h = map[uint64]uint64{}
	}
	return fmt.Sprintf("(mkQ %s %d %s %s %d)", coqIDs(q.IDs), q.Total, coqPairs(h), coqPairs(agg), q.NE)
}

// real builds the seq.QPR. withHist/withAgg say whether the maps exist at all.
func (q *QS) real(source uint64, withAgg bool) *seq.QPR {
	r := &seq.QPR{Total: q.Total, Histogram: map[seq.MID]uint64{}}
	for _, id := range q.IDs {
		r.IDs = append(r.IDs, seq.IDSource{ID: seq.ID{MID: seq.MID(id[0]), RID: seq.RID(id[1])}, Source: source})
	}
	for k, v := range q.Hist {
		r.Histogram[seq.MID(k)] = v
	}
	if withAgg {
		a := seq.AggregatableSamples{SamplesByBin: map[seq.AggBin]*seq.SamplesContainer{}, NotExists: q.NE}
		for t, c := range q.Agg {
			sc := seq.NewSamplesContainers()
			sc.Total = c
			a.SamplesByBin[seq.AggBin{Token: t}] = sc
		}
		r.Aggs = []seq.AggregatableSamples{a}
	}
	return r
}

func coqDoc(d Doc, p *Params) string {
	g := uint64(0)
	if d.G != "" {
		g, _ = gIndex(d.G)
	}
	return fmt.Sprintf("mkDoc %s %s %d", coqID(d.MID, d.RID), coqBool(p.matches(d)), g)
}

func coqFrac(f []Doc, p *Params) string {
	parts := make([]string, len(f))
	for i, d := range f {
		parts[i] = coqDoc(d, p)
	}
	return "[" + strings.Join(parts, "; ") + "]"
}

func coqLayout(l [][]Doc, p *Params) string {
	parts := make([]string, len(l))
	for i, f := range l {
		parts[i] = coqFrac(f, p)
	}
	return "[" + strings.Join(parts, ";\n     ") + "]"
}

func coqParams(p *Params) string {
	return fmt.Sprintf("(mkP %d %d %d%%nat %s %s %d %s)", p.From, p.To, p.Limit, coqOrder(p.Asc),
		coqBool(p.Total), p.Hist, coqBool(p.Agg))
}

func coqNats(xs []int) string {
	parts := make([]string, len(xs))
	for i, x := range xs {
		parts[i] = fmt.Sprint(x)
	}
	return "[" + strings.Join(parts, "; ") + "]%nat"
}

// ---------------------------------------------------------------- field aggregations

// scObs is the mergeable state of one bin (seq.SamplesContainer without the samples), exact integers.
type scObs struct {
	K     uint64 `json:"k"` // group value index (gIndex)
	Total uint64 `json:"total"`
	NE    uint64 `json:"ne"`
	Sum   string `json:"sum"`
	Min   string `json:"min"`
	Max   string `json:"max"`
}

// faggObs is the canonical observation of QPR.Aggs[0] of a field aggregation: bins sorted by key.
type faggObs struct {
	Bins []scObs `json:"bins"`
	NE   uint64  `json:"ne"`
}

func floatZ(f float64) (string, error) {
	if math.IsNaN(f) || math.IsInf(f, 0) || f != math.Trunc(f) {
		return "", fmt.Errorf("value %v is not an integer", f)
	}
	i, _ := big.NewFloat(f).Int(nil)
	return i.String(), nil
}

func observeFagg(q *seq.QPR) (*faggObs, error) {
	if len(q.Aggs) != 1 {
		return nil, fmt.Errorf("%d aggregations", len(q.Aggs))
	}
	a := q.Aggs[0]
	if a.NotExists < 0 {
		return nil, fmt.Errorf("negative NotExists")
	}
	o := &faggObs{NE: uint64(a.NotExists), Bins: []scObs{}}
	for bin, sc := range a.SamplesByBin {
		k, ok := gIndex(bin.Token)
		if !ok || k == 0 || bin.MID != 0 || sc == nil || sc.Total < 0 || sc.NotExists < 0 {
			return nil, fmt.Errorf("unexpected aggregation bin %q mid=%d", bin.Token, bin.MID)
		}
		b := scObs{K: k, Total: uint64(sc.Total), NE: uint64(sc.NotExists)}
		var e1, e2, e3 error
		b.Sum, e1 = floatZ(sc.Sum)
		b.Min, e2 = floatZ(sc.Min)
		b.Max, e3 = floatZ(sc.Max)
		for _, e := range []error{e1, e2, e3} {
			if e != nil {
				return nil, fmt.Errorf("bin %q: %v", bin.Token, e)
			}
		}
		o.Bins = append(o.Bins, b)
	}
	sort.Slice(o.Bins, func(i, j int) bool { return o.Bins[i].K < o.Bins[j].K })
	return o, nil
}

func (o *faggObs) coq() string {
	parts := make([]string, len(o.Bins))
	for i, b := range o.Bins {
		parts[i] = fmt.Sprintf("(%d, mkSC %d %d (%s)%%Z (%s)%%Z (%s)%%Z)", b.K, b.Total, b.NE, b.Sum, b.Min, b.Max)
	}
	return fmt.Sprintf("(mkFA [%s] %d)", strings.Join(parts, "; "), o.NE)
}

func coqADoc(d Doc, p *Params) string {
	v := "None"
	if d.V != nil {
		v = fmt.Sprintf("(Some (%d)%%Z)", *d.V)
	}
	return fmt.Sprintf("mkA (%s) %s", coqDoc(d, p), v)
}

func coqALayout(l [][]Doc, p *Params) string {
	parts := make([]string, len(l))
	for i, f := range l {
		ds := make([]string, len(f))
		for j, d := range f {
			ds[j] = coqADoc(d, p)
		}
		parts[i] = "[" + strings.Join(ds, "; ") + "]"
	}
	return "[" + strings.Join(parts, ";\n     ") + "]"
}

// docBody is the stored body of a document; the field i makes it unique per ID.
func docBody(d Doc) []byte {
	b := fmt.Sprintf(`{"k":%q`, d.K)
	if d.G != "" {
		b += fmt.Sprintf(`,"g":%q`, d.G)
	}
	if d.V != nil {
		b += fmt.Sprintf(`,"v":"%d"`, *d.V)
	}
	return []byte(b + fmt.Sprintf(`,"i":"%d.%d"}`, d.MID, d.RID))
}

// bodyCode numbers a body for the model: mid*10+rid of the document it belongs to.
func bodyCode(d Doc) uint64 { return d.MID*10 + d.RID }
