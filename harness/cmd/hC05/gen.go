package main

import (
	"sort"

	"verif/harness/internal/casefile"
	"verif/harness/internal/rng"
)

const baseMID = 1000

func idLess(a, b [2]uint64) bool {
	if a[0] != b[0] {
		return a[0] < b[0]
	}
	return a[1] < b[1]
}

// ---------------------------------------------------------------- pure generators

func genIDs(r *rng.R, n, mids, rids int) [][2]uint64 {
	out := make([][2]uint64, n)
	for i := range out {
		out[i] = [2]uint64{uint64(r.Intn(mids)), uint64(r.Intn(rids))}
	}
	return out
}

func sortIDs(ids [][2]uint64, asc bool) {
	sort.SliceStable(ids, func(i, j int) bool {
		if asc {
			return idLess(ids[i], ids[j])
		}
		return idLess(ids[j], ids[i])
	})
}

func genQS(r *rng.R, totalMode int, interval uint64, histMode int, withAgg bool, mids int) *QS {
	q := &QS{IDs: genIDs(r, r.Intn(9), mids, 3), Hist: map[uint64]uint64{}}
	if r.Chance(1, 2) { // what a store returns is ordered; the merge must not rely on it
		sortIDs(q.IDs, r.Bool())
	}
	switch totalMode {
	case 1:
		q.Total = uint64(len(q.IDs) + r.Intn(4))
	case 2:
		q.Total = uint64(r.Intn(3))
	case 3:
		q.Total = uint64(len(q.IDs))
	}
	if interval > 0 {
		switch histMode {
		case 0: // consistent with the IDs (plus hits beyond the limit)
			for _, id := range q.IDs {
				q.Hist[id[0]-id[0]%interval]++
			}
			if r.Chance(1, 2) {
				q.Hist[uint64(r.Intn(mids))/interval*interval] += uint64(r.Intn(3))
			}
		case 2: // exactly the IDs
			for _, id := range q.IDs {
				q.Hist[id[0]-id[0]%interval]++
			}
		case 1: // arbitrary buckets: a repair may hit a missing or an empty bucket
			for i := r.Intn(4); i > 0; i-- {
				q.Hist[uint64(r.Intn(mids))/interval*interval] = uint64(r.Intn(3))
			}
		}
	}
	if withAgg {
		q.Agg = map[string]int64{}
		for _, g := range append([]string{"_not_exists"}, gVals...) {
			if r.Chance(1, 2) {
				q.Agg[g] = int64(r.Range(1, 5))
			}
		}
		q.NE = q.Agg["_not_exists"]
	}
	return q
}

func genMerge(r *rng.R) *Spec {
	sp := &Spec{Kind: "merge", Asc: r.Bool(), Limit: r.Intn(13)}
	if r.Chance(2, 3) {
		sp.Interval = uint64(rng.Pick(r, []int{1, 2, 5}))
	}
	totalMode := rng.Pick(r, []int{0, 1, 1, 1, 2})
	histMode := rng.Pick(r, []int{0, 0, 0, 1})
	if r.Chance(1, 3) { // every part counts exactly its own IDs and the limit cuts nothing
		totalMode, histMode, sp.Limit = 3, 2, 60
	}
	withAgg := r.Chance(1, 3)
	mids := rng.Pick(r, []int{3, 6, 12})
	sp.Dst = genQS(r, totalMode, sp.Interval, histMode, withAgg, mids)
	if r.Chance(2, 3) { // the accumulated result is ordered and duplicate free
		sortIDs(sp.Dst.IDs, sp.Asc)
		var u [][2]uint64
		for i, id := range sp.Dst.IDs {
			if i == 0 || id != sp.Dst.IDs[i-1] {
				u = append(u, id)
			}
		}
		sp.Dst.IDs = u
		if sp.Dst.IDs == nil {
			sp.Dst.IDs = [][2]uint64{}
		}
	}
	if totalMode == 3 {
		sp.Dst.Total = uint64(len(sp.Dst.IDs))
		sp.Dst.Hist = map[uint64]uint64{}
		if sp.Interval > 0 {
			for _, id := range sp.Dst.IDs {
				sp.Dst.Hist[id[0]-id[0]%sp.Interval]++
			}
		}
	}
	sp.Qs = []*QS{}
	for i := r.Intn(5); i > 0; i-- {
		sp.Qs = append(sp.Qs, genQS(r, totalMode, sp.Interval, histMode, withAgg, mids))
	}
	return sp
}

func genEnsured(r *rng.R) *Spec {
	sp := &Spec{Kind: "ensured", Asc: r.Bool()}
	mids := rng.Pick(r, []int{4, 8, 16})
	sp.IDs = genIDs(r, r.Intn(10), mids, 3)
	sortIDs(sp.IDs, sp.Asc)
	sp.Rem = [][2]uint64{}
	for i := r.Intn(4); i > 0; i-- {
		a, b := uint64(r.Intn(mids+1)), uint64(r.Intn(mids+1))
		sp.Rem = append(sp.Rem, [2]uint64{min(a, b), max(a, b)})
	}
	return sp
}

func genPage(r *rng.R) *Spec {
	sp := &Spec{Kind: "page", Offset: r.Intn(14), Size: r.Intn(14)}
	sp.IDs = genIDs(r, r.Intn(13), 20, 3)
	sortIDs(sp.IDs, false)
	return sp
}

// ---------------------------------------------------------------- corpora, layouts, requests

// genCorpus returns distinct documents (unique IDs) in random order.
func genCorpus(r *rng.R, n int) []Doc {
	span := rng.Pick(r, []int{2, 4, 8, 20, 60})
	seen := map[[2]uint64]bool{}
	var docs []Doc
	for len(docs) < n {
		d := Doc{MID: uint64(baseMID + r.Intn(span)), RID: uint64(r.Intn(6)), K: rng.Pick(r, kVals)}
		if seen[[2]uint64{d.MID, d.RID}] {
			if len(seen) >= span*6 {
				break
			}
			continue
		}
		seen[[2]uint64{d.MID, d.RID}] = true
		if r.Chance(3, 4) {
			d.G = rng.Pick(r, gVals)
		}
		if r.Chance(3, 4) { // small integers: the float64 arithmetic of the aggregation is exact
			v := int64(rng.Pick(r, []int{-7, -1, 0, 1, 2, 2, 5, 5, 13, 40}))
			d.V = &v
		}
		docs = append(docs, d)
	}
	return docs
}

// genLayout splits docs over 1..maxFracs non-empty fractions; dupes extra copies of existing
// documents are stored in (possibly) other fractions.
func genLayout(r *rng.R, docs []Doc, maxFracs, dupes int) [][]Doc {
	if len(docs) == 0 {
		return [][]Doc{}
	}
	k := min(r.Range(1, maxFracs), len(docs))
	byTime := append([]Doc{}, docs...)
	sort.SliceStable(byTime, func(i, j int) bool { return byTime[i].MID < byTime[j].MID })
	layout := make([][]Doc, k)
	switch r.Intn(4) {
	case 0: // anything anywhere: heavily overlapping ranges
		for _, d := range docs {
			i := r.Intn(k)
			layout[i] = append(layout[i], d)
		}
	case 1: // contiguous in time: ranges touch (equal border timestamps) but do not nest
		cuts := map[int]bool{}
		for len(cuts) < k-1 {
			cuts[r.Range(1, len(byTime)-1)] = true
		}
		i := 0
		for j, d := range byTime {
			if cuts[j] {
				i++
			}
			layout[i] = append(layout[i], d)
		}
	case 2: // contiguous with a few strays: partial overlaps
		for j, d := range byTime {
			i := j * k / len(byTime)
			if r.Chance(1, 5) {
				i = r.Intn(k)
			}
			layout[i] = append(layout[i], d)
		}
	default: // one fraction spanning everything, the others narrow
		for j, d := range byTime {
			i := 0
			if k > 1 && j%2 == 1 {
				i = 1 + (j*(k-1)/len(byTime))%(k-1)
			}
			layout[i] = append(layout[i], d)
		}
	}
	var out [][]Doc
	for _, f := range layout {
		if len(f) > 0 {
			rng.Shuffle(r, f)
			out = append(out, f)
		}
	}
	rng.Shuffle(r, out)
	for ; dupes > 0; dupes-- {
		i := r.Intn(len(out))
		out[i] = append(out[i], rng.Pick(r, docs))
	}
	return out
}

func genSealed(r *rng.R, n int) []bool {
	s := make([]bool, n)
	for i := range s {
		s[i] = r.Chance(3, 5)
	}
	return s
}

func genParams(r *rng.R, docs []Doc) *Params {
	p := &Params{From: 0, To: 5000, Asc: r.Bool()}
	lo, hi := uint64(baseMID), uint64(baseMID)
	for _, d := range docs {
		hi = max(hi, d.MID)
	}
	switch r.Intn(4) {
	case 0: // a sub-range whose ends fall on (or next to) document timestamps
		a, b := lo+uint64(r.Intn(int(hi-lo)+1)), lo+uint64(r.Intn(int(hi-lo)+1))
		p.From, p.To = min(a, b), max(a, b)
	case 1:
		p.From = lo + uint64(r.Intn(int(hi-lo)+1))
	}
	n := len(docs)
	switch r.Intn(5) {
	case 0:
		p.Limit = r.Intn(n + 3)
	case 1:
		p.Limit = rng.Pick(r, []int{0, 1, n, n + 5})
	default:
		p.Limit = r.Range(1, max(2, n/3))
	}
	p.Total = r.Chance(1, 3)
	if r.Chance(1, 3) {
		p.Hist = uint64(rng.Pick(r, []int{1, 2, 5, 10}))
	}
	p.Agg = r.Chance(1, 4)
	p.Match = []string{}
	for _, k := range kVals {
		if r.Chance(2, 3) {
			p.Match = append(p.Match, k)
		}
	}
	if len(p.Match) == 0 {
		p.Match = []string{rng.Pick(r, kVals)}
	}
	p.Not = r.Chance(1, 6)
	return p
}

func genDupes(r *rng.R) int {
	if r.Chance(1, 3) {
		return r.Range(1, 3)
	}
	return 0
}

var fpis = []int{0, 1, 1, 2, 3}

// genAggReqs: requests with a field aggregation (sum/min/max/avg of v group by g), mostly over everything.
func genAggReqs(r *rng.R, docs []Doc, n int) []*Spec {
	reqs := make([]*Spec, n)
	for j := range reqs {
		p := genParams(r, docs)
		p.Agg = false
		if r.Chance(2, 3) {
			p.From, p.To = 0, 5000
		}
		if r.Chance(1, 2) {
			p.Match, p.Not = append([]string{}, kVals...), false
		}
		reqs[j] = &Spec{P: p, FPI: rng.Pick(r, []int{0, 1, 2, 0, 1, 2, 3}), Func: rng.Pick(r, aggFuncs)}
	}
	return reqs
}

// genSplitGroupLayout: documents and a time-contiguous layout in which the newer part of one group holds only
// documents WITHOUT the field v while the older part has values (or the other way round): the partial
// container merged first is empty but counts NotExists.
func genSplitGroupLayout(r *rng.R) ([]Doc, [][]Doc) {
	docs := genCorpus(r, r.Range(6, 20))
	g := rng.Pick(r, gVals)
	cut := uint64(baseMID)
	for _, d := range docs {
		cut = max(cut, d.MID)
	}
	cut = baseMID + (cut-baseMID+1)/2
	newerWithout := r.Bool()
	for i := range docs {
		if r.Chance(1, 2) {
			docs[i].G = g
		}
		if docs[i].G == g {
			if (docs[i].MID >= cut) == newerWithout {
				docs[i].V = nil
			} else if docs[i].V == nil {
				v := int64(rng.Pick(r, []int{-7, 0, 2, 5, 13}))
				docs[i].V = &v
			}
		}
	}
	var older, newer []Doc
	for _, d := range docs {
		if d.MID >= cut {
			newer = append(newer, d)
		} else {
			older = append(older, d)
		}
	}
	var layout [][]Doc
	for _, part := range [][]Doc{older, newer} {
		if len(part) == 0 {
			continue
		}
		if len(part) > 3 && r.Chance(1, 2) { // split the part once more
			k := r.Range(1, len(part)-1)
			layout = append(layout, append([]Doc{}, part[:k]...), append([]Doc{}, part[k:]...))
		} else {
			layout = append(layout, part)
		}
	}
	rng.Shuffle(r, layout)
	return docs, layout
}

func permutations(n int) [][]int {
	if n == 1 {
		return [][]int{{0}}
	}
	var out [][]int
	for _, p := range permutations(n - 1) {
		for i := 0; i <= len(p); i++ {
			q := append(append(append([]int{}, p[:i]...), n-1), p[i:]...)
			out = append(out, q)
		}
	}
	return out
}

// genDown: which replicas refuse the search; at least one replica of every shard stays up.
func genDown(r *rng.R, shards [][][][]Doc) [][]bool {
	down := make([][]bool, len(shards))
	for si, reps := range shards {
		down[si] = make([]bool, len(reps))
		if r.Chance(1, 2) {
			up := r.Intn(len(reps))
			for ri := range reps {
				down[si][ri] = ri != up && r.Chance(1, 2)
			}
		}
	}
	return down
}

func genPerms(r *rng.R, shards [][][][]Doc) [][]int {
	perm := make([][]int, len(shards))
	for si, reps := range shards {
		perm[si] = rng.Pick(r, permutations(len(reps)))
	}
	return perm
}

// genShards distributes docs over ns shards x nr replicas (every replica lays the shard's documents out in
// its own fractions).
func genShards(r *rng.R, docs []Doc, ns, nr int) ([][][][]Doc, [][][]bool) {
	perShard := make([][]Doc, ns)
	for _, d := range docs {
		s := r.Intn(ns)
		perShard[s] = append(perShard[s], d)
		if ns > 1 && r.Chance(1, 8) { // the same document was also written to another shard
			s2 := (s + 1 + r.Intn(ns-1)) % ns
			perShard[s2] = append(perShard[s2], d)
		}
	}
	shards := make([][][][]Doc, ns)
	rsealed := make([][][]bool, ns)
	for s := range shards {
		for k := 0; k < nr; k++ {
			l := genLayout(r, perShard[s], 3, genDupes(r)/2)
			shards[s] = append(shards[s], l)
			rsealed[s] = append(rsealed[s], genSealed(r, len(l)))
		}
	}
	return shards, rsealed
}

// ---------------------------------------------------------------- the run

func generate(w *casefile.Writer, seed uint64, thorough bool) {
	r := rng.New(seed)
	nMerge, nEns, nPage, nFake, nRealLayouts, nRealReqs, nEnvs, nEnvReqs := 1500, 500, 300, 2500, 36, 24, 10, 24
	nAggReqs, nSplitLayouts, nSplitReqs, nEnvAgg, nEnvDocs, nShufEnvs := 5, 8, 12, 6, 10, 6
	if thorough {
		nMerge, nEns, nPage, nFake, nRealLayouts, nRealReqs, nEnvs, nEnvReqs = 20000, 5000, 2000, 40000, 500, 40, 120, 40
		nAggReqs, nSplitLayouts, nSplitReqs, nEnvAgg, nEnvDocs, nShufEnvs = 8, 150, 16, 12, 20, 80
	}
	for i := 0; i < nMerge; i++ {
		runSpec(w, genMerge(r))
	}
	for i := 0; i < nEns; i++ {
		runSpec(w, genEnsured(r))
	}
	for i := 0; i < nPage; i++ {
		runSpec(w, genPage(r))
	}
	for i := 0; i < nFake; i++ {
		docs := genCorpus(r, r.Range(1, 24))
		dupes := genDupes(r)
		sp := &Spec{Kind: "fake", Layout: genLayout(r, docs, 6, dupes), P: genParams(r, docs), FPI: rng.Pick(r, fpis)}
		if dupes > 0 && r.Chance(1, 3) { // every copy within the limit: the merge repairs Total and histogram
			sp.P.Limit = len(docs) + dupes + r.Intn(3)
		}
		runSpec(w, sp)
	}
	for i := 0; i < nRealLayouts; i++ {
		docs := genCorpus(r, r.Range(2, 30))
		dupes := genDupes(r)
		layout := genLayout(r, docs, 5, dupes)
		reqs := make([]*Spec, nRealReqs)
		for j := range reqs {
			reqs[j] = &Spec{P: genParams(r, docs), FPI: rng.Pick(r, fpis)}
			if dupes > 0 && r.Chance(1, 3) {
				reqs[j].P.Limit = len(docs) + dupes + r.Intn(3)
			}
		}
		runReal(w, layout, genSealed(r, len(layout)), true, reqs, genAggReqs(r, docs, nAggReqs))
	}
	for i := 0; i < nSplitLayouts; i++ {
		docs, layout := genSplitGroupLayout(r)
		runReal(w, layout, genSealed(r, len(layout)), true, nil, genAggReqs(r, docs, nSplitReqs))
	}
	for i := 0; i < nEnvs; i++ {
		docs := genCorpus(r, r.Range(2, 30))
		ns, nr := rng.Pick(r, []int{1, 2, 2, 3, 3}), r.Range(1, 3)
		shards, rsealed := genShards(r, docs, ns, nr)
		fail := make([]int, ns)
		for s := range shards {
			if r.Chance(1, 2) {
				fail[s] = r.Intn(nr)
			}
		}
		fpi := rng.Pick(r, fpis)
		var reqs []*Spec
		for len(reqs) < nEnvReqs {
			p := genParams(r, docs)
			p.Limit = 0
			if r.Chance(1, 2) { // walk the pages of one request
				size := r.Range(1, 4)
				for off := 0; off <= len(docs)+size && len(reqs) < nEnvReqs; off += size {
					q := *p
					reqs = append(reqs, &Spec{P: &q, Offset: off, Size: size})
				}
			} else {
				reqs = append(reqs, &Spec{P: p, Offset: r.Intn(len(docs) + 2), Size: r.Intn(len(docs) + 2)})
			}
		}
		for _, q := range genAggReqs(r, docs, nEnvAgg) {
			q.Kind = "aggproxy"
			reqs = append(reqs, q)
		}
		shuffleOK := ns <= 2 || nr <= 2 // the wanted order of every shard is drawn within a few dozen attempts
		for j := 0; j < nEnvDocs; j++ {
			p := genParams(r, docs)
			p.Limit, p.Agg = 0, false
			q := &Spec{Kind: "proxydocs", P: p, Offset: r.Intn(len(docs)/2 + 1), Size: r.Range(1, len(docs)+1)}
			if shuffleOK && j%2 == 1 {
				q.Shuffle, q.Down, q.Perm = true, genDown(r, shards), genPerms(r, shards)
			}
			reqs = append(reqs, q)
		}
		runProxy(w, shards, rsealed, fail, fpi, reqs)
	}
	// ShuffleReplicas: one or two shards, 2..3 replicas, EVERY order in which the replicas of the first shard
	// can be asked, with and without replicas that refuse
	for i := 0; i < nShufEnvs; i++ {
		docs := genCorpus(r, r.Range(3, 16))
		ns, nr := rng.Pick(r, []int{1, 1, 2}), rng.Pick(r, []int{2, 3, 3})
		shards, rsealed := genShards(r, docs, ns, nr)
		fpi := rng.Pick(r, fpis)
		var reqs []*Spec
		for _, pm := range permutations(nr) {
			for j := 0; j < 2; j++ {
				p := genParams(r, docs)
				p.Limit, p.Agg = 0, false
				if j == 0 {
					p.From, p.To = 0, 5000
				}
				q := &Spec{Kind: "proxydocs", P: p, Offset: r.Intn(3), Size: r.Range(1, len(docs)+1), Shuffle: true,
					Down: genDown(r, shards), Perm: genPerms(r, shards)}
				if j == 0 {
					q.Down = make([][]bool, ns)
					for s := range q.Down {
						q.Down[s] = make([]bool, nr)
					}
				}
				q.Perm[0] = pm
				reqs = append(reqs, q)
			}
		}
		runProxy(w, shards, rsealed, make([]int, ns), fpi, reqs)
	}
}
