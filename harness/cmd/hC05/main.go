// hC05 — correspondence driver for property C05 (results are independent of how documents are
// split over fractions, shards and replicas). It runs the REAL code
//
//	seq.MergeQPRs, fracmanager.calcEnsuredIDsCount, Ingestor.paginateIDs        (pure, high volume)
//	Searcher.SearchDocs over in-memory fractions                               (loop/merge/limit logic)
//	Searcher.SearchDocs over real active/sealed fractions built by FracManager (+ one real fraction
//	    holding everything as the reference)
//	search.Ingestor.Search over in-process stores (storeapi.GrpcV1.Search on real FracManagers),
//	    shards x replicas, failing replicas, page walks; with ShouldFetch (real GrpcV1.Fetch), ShuffleReplicas off
//	    and on in every order of the replicas: source / hint / delivered document of every listed ID
//	Searcher.SearchDocs and Ingestor.Search with a field aggregation (sum/min/max/avg(v) group by g): the
//	    mergeable state of every bin against a real one-fraction reference and the direct computation
//
// and writes every observation as a Coq case (props/C05/coq/CaseDefs.v).
package main

import (
	"context"
	"encoding/json"
	"flag"
	"fmt"
	"os"
	"time"

	"github.com/ozontech/seq-db/frac"
	"github.com/ozontech/seq-db/frac/processor"
	"github.com/ozontech/seq-db/fracmanager"
	"github.com/ozontech/seq-db/parser"
	"github.com/ozontech/seq-db/proxy/search"
	"github.com/ozontech/seq-db/seq"

	"verif/harness/internal/casefile"
	"verif/harness/internal/fracbuild"
	"verif/harness/internal/rng"
)

var mapping = seq.Mapping{
	"k": seq.NewSingleType(seq.TokenizerTypeKeyword, "", 0),
	"g": seq.NewSingleType(seq.TokenizerTypeKeyword, "", 0),
	"v": seq.NewSingleType(seq.TokenizerTypeKeyword, "", 0),
}

// guarded runs f; a panic or a hang (hangAfter) is reported, never propagated.
const hangAfter = 180 * time.Second

func guarded(f func() error) (err error, panicked any, hung bool) {
	type r struct {
		err error
		p   any
	}
	ch := make(chan r, 1)
	go func() {
		defer func() {
			if p := recover(); p != nil {
				ch <- r{nil, p}
			}
		}()
		ch <- r{f(), nil}
	}()
	select {
	case x := <-ch:
		return x.err, x.p, false
	case <-time.After(hangAfter):
		return nil, nil, true
	}
}

func direct(w *casefile.Writer, class string, sp *Spec, err error, p any, hung bool) bool {
	switch {
	case hung:
		w.Violate("hang:"+class, "the call did not return within 180 s", sp)
	case p != nil:
		w.Violate("panic:"+class, fmt.Sprintf("panic: %v", p), sp)
	case err != nil:
		w.Violate("error:"+class, fmt.Sprintf("unexpected error: %v", err), sp)
	default:
		return false
	}
	return true
}

// ---------------------------------------------------------------- pure cases

func runMerge(w *casefile.Writer, sp *Spec) {
	withAgg := sp.Dst.Agg != nil
	dst := sp.Dst.real(0, withAgg)
	if !withAgg {
		dst.Aggs = nil
	}
	qs := make([]*seq.QPR, len(sp.Qs))
	for i, q := range sp.Qs {
		qs[i] = q.real(uint64(i+1), withAgg)
	}
	order := seq.DocsOrderDesc
	if sp.Asc {
		order = seq.DocsOrderAsc
	}
	err, p, hung := guarded(func() error {
		seq.MergeQPRs(dst, qs, sp.Limit, seq.MID(sp.Interval), order)
		return nil
	})
	if direct(w, "merge", sp, err, p, hung) {
		return
	}
	o, oerr := observe(dst)
	if oerr != nil {
		w.Violate("unrepresentable:merge", oerr.Error(), sp)
		return
	}
	parts := ""
	for i, q := range sp.Qs {
		if i > 0 {
			parts += "; "
		}
		parts += q.coq()
	}
	dups := 0
	seen := map[[2]uint64]bool{}
	for _, q := range append([]*QS{sp.Dst}, sp.Qs...) {
		for _, id := range q.IDs {
			if seen[id] {
				dups++
			}
			seen[id] = true
		}
	}
	if dups > 0 {
		w.Count("merge:with-duplicates")
	}
	if len(seen) > sp.Limit {
		w.Count("merge:cut-by-limit")
	}
	if sp.Limit == 60 {
		w.Count("merge:exact-parts-no-cut")
	}
	w.Add(fmt.Sprintf("CMerge %s [%s] %d%%nat %d %s %s", sp.Dst.coq(), parts, sp.Limit, sp.Interval, coqOrder(sp.Asc), o.coq()),
		"merge", dups > 0 && len(seen) > sp.Limit, sp, o)
}

func runEnsured(w *casefile.Writer, sp *Spec) {
	ids := make(seq.IDSources, len(sp.IDs))
	for i, id := range sp.IDs {
		ids[i] = seq.IDSource{ID: seq.ID{MID: seq.MID(id[0]), RID: seq.RID(id[1])}}
	}
	var rem fracmanager.List
	for _, ft := range sp.Rem {
		rem = append(rem, borderFrac(ft[0], ft[1]))
	}
	order := seq.DocsOrderDesc
	if sp.Asc {
		order = seq.DocsOrderAsc
	}
	n := 0
	err, p, hung := guarded(func() error {
		n = fracmanager.VerifC05CalcEnsuredIDsCount(ids, rem, order)
		return nil
	})
	if direct(w, "ensured", sp, err, p, hung) {
		return
	}
	rems := "["
	for i, ft := range sp.Rem {
		if i > 0 {
			rems += "; "
		}
		rems += fmt.Sprintf("(%d, %d)", ft[0], ft[1])
	}
	rems += "]"
	w.Add(fmt.Sprintf("CEnsured %s %s %s %d%%nat", coqOrder(sp.Asc), coqIDs(sp.IDs), rems, n),
		"ensured", len(sp.Rem) > 0 && n > 0 && n < len(ids), sp, n)
}

var pager = search.NewIngestor(search.Config{}, nil)

func runPage(w *casefile.Writer, sp *Spec) {
	ids := make(seq.IDSources, len(sp.IDs))
	for i, id := range sp.IDs {
		ids[i] = seq.IDSource{ID: seq.ID{MID: seq.MID(id[0]), RID: seq.RID(id[1])}}
	}
	var out seq.IDSources
	size := 0
	err, p, hung := guarded(func() error {
		out, size = pager.VerifC05PaginateIDs(ids, sp.Offset, sp.Size)
		return nil
	})
	if direct(w, "page", sp, err, p, hung) {
		return
	}
	got := make([][2]uint64, len(out))
	for i, id := range out {
		got[i] = [2]uint64{uint64(id.ID.MID), uint64(id.ID.RID)}
	}
	w.Add(fmt.Sprintf("CPage %s %d%%nat %d%%nat %s %d%%nat", coqIDs(sp.IDs), sp.Offset, sp.Size, coqIDs(got), size),
		"page", sp.Offset > 0 && sp.Offset+sp.Size < len(ids) && sp.Size > 0, sp, map[string]any{"ids": got, "size": size})
}

// ---------------------------------------------------------------- SearchDocs

func searchParams(p *Params) (processor.SearchParams, error) {
	ast, err := parser.ParseSeqQL(p.query(), mapping)
	if err != nil {
		return processor.SearchParams{}, err
	}
	sp := processor.SearchParams{AST: ast.Root, HistInterval: p.Hist, From: seq.MID(p.From), To: seq.MID(p.To),
		Limit: p.Limit, WithTotal: p.Total, Order: p.order()}
	if p.Agg {
		sp.AggQ = []processor.AggQuery{{
			GroupBy: &parser.Literal{Field: "g", Terms: []parser.Term{{Kind: parser.TermSymbol, Data: "*"}}},
			Func:    seq.AggFuncCount,
		}}
	}
	return sp, nil
}

var aggFuncs = []int{seq.AggFuncSum, seq.AggFuncMin, seq.AggFuncMax, seq.AggFuncAvg}

// searchParamsAgg: the request of p with ONE aggregation fn(v) group by g instead of the count aggregation.
func searchParamsAgg(p *Params, fn int) (processor.SearchParams, error) {
	q := *p
	q.Agg = false
	sp, err := searchParams(&q)
	if err != nil {
		return sp, err
	}
	all := []parser.Term{{Kind: parser.TermSymbol, Data: "*"}}
	sp.AggQ = []processor.AggQuery{{
		Field:   &parser.Literal{Field: "v", Terms: all},
		GroupBy: &parser.Literal{Field: "g", Terms: all},
		Func:    seq.AggFunc(fn),
	}}
	return sp, nil
}

// splitGroup: some fraction's hits of a group all lack the field v while another fraction holds hits of
// that group with the field (the shape on which a lossy container merge shows).
func splitGroup(layout [][]Doc, p *Params) bool {
	type gs struct{ with, without int }
	per := make([]map[string]*gs, len(layout))
	for i, f := range layout {
		per[i] = map[string]*gs{}
		for _, d := range f {
			if d.G == "" || !p.matches(d) || d.MID < p.From || d.MID > p.To {
				continue
			}
			if per[i][d.G] == nil {
				per[i][d.G] = &gs{}
			}
			if d.V != nil {
				per[i][d.G].with++
			} else {
				per[i][d.G].without++
			}
		}
	}
	for i := range per {
		for g, a := range per[i] {
			if a.with != 0 || a.without == 0 {
				continue
			}
			for j := range per {
				if j != i && per[j][g] != nil && per[j][g].with > 0 {
					return true
				}
			}
		}
	}
	return false
}

// runAggSearch drives Searcher.SearchDocs with a field aggregation over fracs and adds the case.
func runAggSearch(w *casefile.Writer, sp *Spec, fracs fracmanager.List, single *faggObs) {
	p := sp.P
	params, err := searchParamsAgg(p, sp.Func)
	if err != nil {
		w.Violate("error:aggfield:parse", err.Error(), sp)
		return
	}
	s := fracmanager.NewSearcher(4, fracmanager.SearcherCfg{FractionsPerIteration: sp.FPI})
	var prepared fracmanager.List
	var qpr *seq.QPR
	err, pn, hung := guarded(func() error {
		var e error
		prepared, e = s.VerifC05PrepareFracs(append(fracmanager.List{}, fracs...), params)
		if e != nil {
			return e
		}
		qpr, e = s.SearchDocs(context.Background(), append([]frac.Fraction{}, fracs...), params)
		return e
	})
	if direct(w, "aggfield", sp, err, pn, hung) {
		return
	}
	perm := make([]int, 0, len(prepared))
	for _, pf := range prepared {
		for i, f := range fracs {
			if f == pf {
				perm = append(perm, i)
			}
		}
	}
	o, oerr := observeFagg(qpr)
	if oerr != nil {
		w.Violate("unrepresentable:aggfield", oerr.Error(), sp)
		return
	}
	sg := "None"
	if single != nil {
		sg = "(Some " + single.coq() + ")"
	}
	split := splitGroup(sp.Layout, p)
	if split {
		w.Count("aggfield:group-part-without-field")
	}
	w.Count(fmt.Sprintf("aggfield:fpi=%d", sp.FPI))
	w.Count(fmt.Sprintf("aggfield:func=%d", sp.Func))
	w.Count(fmt.Sprintf("aggfield:fractions=%d", min(len(sp.Layout), 6)))
	if p.Asc {
		w.Count("aggfield:asc")
	}
	w.Add(fmt.Sprintf("CAggSearch\n    %s\n    %s %d%%nat %s\n    %s %s", coqALayout(sp.Layout, p), coqParams(p), sp.FPI,
		coqNats(perm), o.coq(), sg), "aggfield", len(sp.Layout) >= 2 && split, sp, o)
}

func hasDupIDs(layout [][]Doc) bool {
	seen := map[[2]uint64]bool{}
	for _, f := range layout {
		for _, d := range f {
			k := [2]uint64{d.MID, d.RID}
			if seen[k] {
				return true
			}
			seen[k] = true
		}
	}
	return false
}

// layoutShape classifies a layout for the distribution counters.
func layoutShape(w *casefile.Writer, class string, layout [][]Doc, p *Params) (overlap, equalBorder bool) {
	type rg struct{ from, to uint64 }
	var rs []rg
	for _, f := range layout {
		r := rg{^uint64(0), 0}
		for _, d := range f {
			r.from = min(r.from, d.MID)
			r.to = max(r.to, d.MID)
		}
		rs = append(rs, r)
	}
	for i := range rs {
		for j := i + 1; j < len(rs); j++ {
			if rs[i].from <= rs[j].to && rs[j].from <= rs[i].to {
				overlap = true
			}
			if rs[i].to == rs[j].to || rs[i].from == rs[j].from || rs[i].to == rs[j].from || rs[i].from == rs[j].to {
				equalBorder = true
			}
		}
	}
	if overlap {
		w.Count(class + ":overlapping-ranges")
	}
	if equalBorder {
		w.Count(class + ":equal-borders")
	}
	if hasDupIDs(layout) {
		w.Count(class + ":id-stored-twice")
	}
	w.Count(fmt.Sprintf("%s:fractions=%d", class, min(len(layout), 6)))
	return
}

// runSearch drives Searcher.SearchDocs over fracs (one per layout entry, same order) and adds
// the case. single = observation of the one-fraction reference (nil when not built).
func runSearch(w *casefile.Writer, class string, sp *Spec, fracs fracmanager.List, single *obs) {
	p := sp.P
	params, err := searchParams(p)
	if err != nil {
		w.Violate("error:"+class+":parse", err.Error(), sp)
		return
	}
	s := fracmanager.NewSearcher(4, fracmanager.SearcherCfg{FractionsPerIteration: sp.FPI})
	var prepared fracmanager.List
	var qpr *seq.QPR
	err, pn, hung := guarded(func() error {
		var e error
		prepared, e = s.VerifC05PrepareFracs(append(fracmanager.List{}, fracs...), params)
		if e != nil {
			return e
		}
		qpr, e = s.SearchDocs(context.Background(), append([]frac.Fraction{}, fracs...), params)
		return e
	})
	if direct(w, class, sp, err, pn, hung) {
		return
	}
	perm := make([]int, 0, len(prepared))
	for _, pf := range prepared {
		for i, f := range fracs {
			if f == pf {
				perm = append(perm, i)
			}
		}
	}
	infos := "["
	for i, f := range fracs {
		if i > 0 {
			infos += "; "
		}
		infos += fmt.Sprintf("(%d, %d)", uint64(f.Info().From), uint64(f.Info().To))
	}
	infos += "]"
	o, oerr := observe(qpr)
	if oerr != nil {
		w.Violate("unrepresentable:"+class, oerr.Error(), sp)
		return
	}
	sg := "None"
	if single != nil {
		sg = "(Some " + single.coq() + ")"
	}
	overlap, _ := layoutShape(w, class, sp.Layout, p)
	nhits := 0
	for _, f := range sp.Layout {
		for _, d := range f {
			if p.matches(d) && d.MID >= p.From && d.MID <= p.To {
				nhits++
			}
		}
	}
	if nhits > p.Limit {
		w.Count(class + ":limit-cuts")
	} else if hasDupIDs(sp.Layout) {
		w.Count(class + ":duplicates-within-limit")
	}
	w.Count(fmt.Sprintf("%s:fpi=%d", class, sp.FPI))
	if p.Asc {
		w.Count(class + ":asc")
	}
	nontrivial := len(sp.Layout) >= 2 && overlap && nhits > p.Limit && p.Limit > 0
	w.Add(fmt.Sprintf("CSearch\n    %s\n    %s %s %d%%nat %s\n    %s %s", coqLayout(sp.Layout, p), infos, coqParams(p), sp.FPI,
		coqNats(perm), o.coq(), sg), class, nontrivial, sp, o)
}

func runFake(w *casefile.Writer, sp *Spec) {
	var fracs fracmanager.List
	for _, f := range sp.Layout {
		fracs = append(fracs, newFakeFrac(f, sp.P))
	}
	runSearch(w, "fake", sp, fracs, nil)
}

func toBuildDocs(f []Doc) []fracbuild.Doc {
	out := make([]fracbuild.Doc, len(f))
	for i, d := range f {
		toks := []string{"k:" + d.K}
		if d.G != "" {
			toks = append(toks, "g:"+d.G)
		}
		if d.V != nil {
			toks = append(toks, fmt.Sprintf("v:%d", *d.V))
		}
		out[i] = fracbuild.Doc{MID: d.MID, RID: d.RID, Body: docBody(d), Tokens: toks}
	}
	return out
}

// store is one real FracManager whose fractions follow a layout.
type store struct {
	dir   string
	fm    *fracmanager.FracManager
	fracs fracmanager.List
}

func buildStore(layout [][]Doc, sealed []bool) (*store, error) {
	dir, err := os.MkdirTemp("", "verif-c05-")
	if err != nil {
		return nil, err
	}
	fm, err := fracbuild.NewFM(dir, nil)
	if err != nil {
		os.RemoveAll(dir)
		return nil, err
	}
	st := &store{dir: dir, fm: fm}
	for i, f := range layout {
		if err := fracbuild.Append(fm, toBuildDocs(f)); err != nil {
			st.close()
			return nil, err
		}
		if i < len(layout)-1 || sealed[i] {
			fm.VerifC05Rotate(sealed[i])
		}
	}
	fm.WaitIdle()
	st.fracs = fracbuild.Fracs(fm)
	if len(st.fracs) != len(layout) {
		st.close()
		return nil, fmt.Errorf("built %d fractions for a layout of %d", len(st.fracs), len(layout))
	}
	return st, nil
}

// close releases the fractions (open files, caches) and removes the directory. The writing
// fraction is left alone: the statistics goroutine every storeapi.GrpcV1 starts keeps asking the
// manager for its Info for as long as the process lives.
func (s *store) close() {
	s.fm.WaitIdle()
	func() {
		defer func() { _ = recover() }()
		cur := s.fm.Active()
		for _, f := range s.fm.GetAllFracs() {
			if f != cur {
				f.Suicide()
			}
		}
	}()
	os.RemoveAll(s.dir)
}

// runReal builds the layout (and the one-fraction reference) once and runs every request.
func runReal(w *casefile.Writer, layout [][]Doc, sealed []bool, single bool, reqs []*Spec, aggReqs []*Spec) {
	var st, ref *store
	err, pn, hung := guarded(func() error {
		var e error
		if st, e = buildStore(layout, sealed); e != nil {
			return e
		}
		if single {
			var all []Doc
			for _, f := range layout {
				all = append(all, f...)
			}
			ref, e = buildStore([][]Doc{all}, []bool{sealed[0]})
		}
		return e
	})
	if st != nil {
		defer st.close()
	}
	if ref != nil {
		defer ref.close()
	}
	base := &Spec{Kind: "real", Layout: layout, Sealed: sealed, Single: single}
	if direct(w, "real:build", base, err, pn, hung) {
		return
	}
	for i, s := range sealed {
		if s {
			w.Count("real:sealed-fraction")
		} else if i < len(layout) {
			w.Count("real:active-fraction")
		}
	}
	for _, sp := range reqs {
		sp.Kind, sp.Layout, sp.Sealed, sp.Single = "real", layout, sealed, single
		var so *obs
		if ref != nil {
			params, perr := searchParams(sp.P)
			if perr != nil {
				w.Violate("error:real:parse", perr.Error(), sp)
				continue
			}
			var q *seq.QPR
			err, pn, hung := guarded(func() error {
				var e error
				q, e = fracmanager.NewSearcher(4, fracmanager.SearcherCfg{}).SearchDocs(context.Background(), ref.fracs, params)
				return e
			})
			if direct(w, "real:single", sp, err, pn, hung) {
				continue
			}
			var oerr error
			if so, oerr = observe(q); oerr != nil {
				w.Violate("unrepresentable:real:single", oerr.Error(), sp)
				continue
			}
		}
		runSearch(w, "real", sp, st.fracs, so)
	}
	for _, sp := range aggReqs {
		sp.Kind, sp.Layout, sp.Sealed, sp.Single = "aggreal", layout, sealed, single
		var so *faggObs
		if ref != nil {
			params, perr := searchParamsAgg(sp.P, sp.Func)
			if perr != nil {
				w.Violate("error:aggfield:parse", perr.Error(), sp)
				continue
			}
			var q *seq.QPR
			err, pn, hung := guarded(func() error {
				var e error
				q, e = fracmanager.NewSearcher(4, fracmanager.SearcherCfg{}).SearchDocs(context.Background(), ref.fracs, params)
				return e
			})
			if direct(w, "aggfield:single", sp, err, pn, hung) {
				continue
			}
			var oerr error
			if so, oerr = observeFagg(q); oerr != nil {
				w.Violate("unrepresentable:aggfield:single", oerr.Error(), sp)
				continue
			}
		}
		runAggSearch(w, sp, st.fracs, so)
	}
}

// ---------------------------------------------------------------- main

func runSpec(w *casefile.Writer, sp *Spec) {
	switch sp.Kind {
	case "merge":
		runMerge(w, sp)
	case "ensured":
		runEnsured(w, sp)
	case "page":
		runPage(w, sp)
	case "fake":
		runFake(w, sp)
	case "real":
		runReal(w, sp.Layout, sp.Sealed, sp.Single, []*Spec{sp}, nil)
	case "aggreal":
		runReal(w, sp.Layout, sp.Sealed, sp.Single, nil, []*Spec{sp})
	case "proxy", "aggproxy", "proxydocs":
		runProxy(w, sp.Shards, sp.RSealed, sp.Fail, sp.FPI, []*Spec{sp})
	default:
		panic("unknown spec kind " + sp.Kind)
	}
}

func doReplay(w *casefile.Writer, path string) {
	b, err := os.ReadFile(path)
	if err != nil {
		panic(err)
	}
	var rp struct {
		Replay struct {
			Case struct {
				Input *Spec `json:"input"`
			} `json:"case"`
			Input *Spec `json:"input"`
		} `json:"replay"`
	}
	if err := json.Unmarshal(b, &rp); err != nil {
		panic(err)
	}
	sp := rp.Replay.Case.Input
	if sp == nil {
		sp = rp.Replay.Input
	}
	if sp == nil {
		panic("replay file has no case input")
	}
	runSpec(w, sp)
}

func main() {
	seed := flag.Uint64("seed", 1, "")
	tier := flag.String("tier", "quick", "")
	out := flag.String("out", "", "")
	replay := flag.String("replay", "", "")
	flag.Parse()
	if *out == "" {
		fmt.Fprintln(os.Stderr, "need -out")
		os.Exit(2)
	}
	w, err := casefile.New(*out, "C05", "From Coq Require Import ZArith.\nFrom VLib Require Import CaseLib.\nFrom C05 Require Import Model ModelAgg ModelDocs CaseDefs.\nOpen Scope N_scope.", 300)
	if err != nil {
		panic(err)
	}
	if *replay != "" {
		doReplay(w, *replay)
	} else {
		generate(w, *seed, *tier == "thorough")
		runGen(w, rng.New(*seed^0x47454E05), *tier == "thorough")
	}
	if err := w.Close(); err != nil {
		panic(err)
	}
}
