// hC13 — correspondence driver for property C13 (token matching equals glob/range semantics,
// with or without dictionary narrowing). Runs the real pattern.Search (ordered and unordered
// providers), the real Table.SelectEntries + token.Provider (tables built by the real
// writeTokensBlocks), the real findSubstring/findSequence and the real
// GetTIDsByTokenExpr of active and sealed fractions, and writes the observations as Coq cases
// (see props/C13/coq/CaseDefs.v).
package main

import (
	"bytes"
	"context"
	"encoding/hex"
	"encoding/json"
	"flag"
	"fmt"
	"math"
	"os"
	"sort"
	"strconv"
	"strings"
	"unicode/utf8"

	"github.com/ozontech/seq-db/frac"
	"github.com/ozontech/seq-db/frac/token"
	"github.com/ozontech/seq-db/parser"
	"github.com/ozontech/seq-db/pattern"
	"github.com/ozontech/seq-db/seq"

	"verif/harness/internal/casefile"
	"verif/harness/internal/fracbuild"
	"verif/harness/internal/rng"
)

// ---------------------------------------------------------------- queries

// query in source form: either a pattern string ('*' = wildcard, everything else literal
// bytes) or a range
type query struct {
	IsRange    bool   `json:"range,omitempty"`
	Pattern    string `json:"pattern"`
	From, To   string `json:"-"`
	FromStar   bool   `json:"-"`
	ToStar     bool   `json:"-"`
	IncF, IncT bool   `json:"-"`
}

func (q query) String() string {
	if !q.IsRange {
		return q.Pattern
	}
	l, r := "(", ")"
	if q.IncF {
		l = "["
	}
	if q.IncT {
		r = "]"
	}
	f, t := strconv.Quote(q.From), strconv.Quote(q.To)
	if q.FromStar {
		f = "*"
	}
	if q.ToStar {
		t = "*"
	}
	return l + f + ", " + t + r
}

func (q query) MarshalJSON() ([]byte, error) {
	if q.IsRange {
		return json.Marshal(q.String())
	}
	return json.Marshal(bstr(q.Pattern))
}

// bstr is a byte string that survives JSON: valid UTF-8 is written as a JSON string, anything
// else as {"hex": "..."} (encoding/json would replace invalid bytes by U+FFFD).
type bstr string

func (b bstr) MarshalJSON() ([]byte, error) {
	if utf8.ValidString(string(b)) {
		return json.Marshal(string(b))
	}
	return json.Marshal(map[string]string{"hex": hex.EncodeToString([]byte(b))})
}

func bs(ss []string) []bstr {
	out := make([]bstr, len(ss))
	for i, s := range ss {
		out[i] = bstr(s)
	}
	return out
}

func bss(sss [][]string) [][]bstr {
	out := make([][]bstr, len(sss))
	for i, ss := range sss {
		out[i] = bs(ss)
	}
	return out
}

func hexs(h string) string {
	b, err := hex.DecodeString(h)
	if err != nil {
		panic(err)
	}
	return string(b)
}

// unb decodes what bstr wrote (after a generic json.Unmarshal)
func unb(v any) string {
	switch x := v.(type) {
	case string:
		return x
	case map[string]any:
		b, err := hex.DecodeString(x["hex"].(string))
		if err != nil {
			panic(err)
		}
		return string(b)
	}
	panic(fmt.Sprintf("unb: %T", v))
}

func unbs(v any) []string {
	var out []string
	if l, ok := v.([]any); ok {
		for _, x := range l {
			out = append(out, unb(x))
		}
	}
	return out
}

// parseQuery is the inverse of String (for -replay)
func parseQuery(s string, isRange bool) query {
	if !isRange {
		return query{Pattern: s}
	}
	q := query{IsRange: true, IncF: s[0] == '[', IncT: s[len(s)-1] == ']'}
	body := s[1 : len(s)-1]
	// from
	rest := body
	if strings.HasPrefix(rest, "*") {
		q.FromStar = true
		rest = rest[1:]
	} else {
		v, err := strconv.QuotedPrefix(rest)
		if err != nil {
			panic(err)
		}
		q.From, _ = strconv.Unquote(v)
		rest = rest[len(v):]
	}
	rest = strings.TrimPrefix(rest, ", ")
	if rest == "*" {
		q.ToStar = true
	} else {
		q.To, _ = strconv.Unquote(rest)
	}
	return q
}

// terms of a pattern string, as the parsers build them: text runs separated by '*', no empty
// text term except for the empty pattern (a single empty literal)
func terms(p string) []parser.Term {
	if p == "" {
		return []parser.Term{{Kind: parser.TermText, Data: ""}}
	}
	var ts []parser.Term
	cur := ""
	for i := 0; i < len(p); i++ {
		if p[i] == '*' {
			if cur != "" {
				ts = append(ts, parser.Term{Kind: parser.TermText, Data: cur})
				cur = ""
			}
			ts = append(ts, parser.Term{Kind: parser.TermSymbol, Data: "*"})
			continue
		}
		cur += string(p[i])
	}
	if cur != "" {
		ts = append(ts, parser.Term{Kind: parser.TermText, Data: cur})
	}
	return ts
}

func (q query) token(field string) parser.Token {
	if !q.IsRange {
		return &parser.Literal{Field: field, Terms: terms(q.Pattern)}
	}
	r := &parser.Range{Field: field, IncludeFrom: q.IncF, IncludeTo: q.IncT}
	r.From = parser.Term{Kind: parser.TermText, Data: q.From}
	if q.FromStar {
		r.From = parser.Term{Kind: parser.TermSymbol, Data: "*"}
	}
	r.To = parser.Term{Kind: parser.TermText, Data: q.To}
	if q.ToStar {
		r.To = parser.Term{Kind: parser.TermSymbol, Data: "*"}
	}
	return r
}

func bytesCoq(s string) string {
	if s == "" {
		return "[]"
	}
	if len(s) >= 64 {
		return bytesCoqRLE(s)
	}
	return casefile.Bytes([]byte(s))
}

// bytesCoqRLE renders a long byte string with its runs of 16 or more equal bytes as
// `repeat c n` (a term of the same type and value as the literal list; only shorter to parse)
func bytesCoqRLE(s string) string {
	var parts []string
	lit := 0 // start of the pending literal segment
	flush := func(end int) {
		if end > lit {
			parts = append(parts, casefile.Bytes([]byte(s[lit:end])))
		}
	}
	i := 0
	for i < len(s) {
		j := i
		for j < len(s) && s[j] == s[i] {
			j++
		}
		if j-i >= 16 {
			flush(i)
			parts = append(parts, fmt.Sprintf("repeat %d%%N (N.to_nat %d%%N)", s[i], j-i))
			lit = j
		}
		i = j
	}
	flush(len(s))
	if len(parts) == 1 {
		return "(" + parts[0] + ")"
	}
	return "(" + strings.Join(parts, " ++ ") + ")"
}

func (q query) coq() string {
	if !q.IsRange {
		ts := terms(q.Pattern)
		parts := make([]string, len(ts))
		for i, t := range ts {
			if t.Kind == parser.TermText {
				parts[i] = "TText " + bytesCoq(t.Data)
			} else {
				parts[i] = "TStar"
			}
		}
		return "(QLit [" + strings.Join(parts, "; ") + "])"
	}
	f, t := "(Some "+bytesCoq(q.From)+")", "(Some "+bytesCoq(q.To)+")"
	if q.FromStar {
		f = "None"
	}
	if q.ToStar {
		t = "None"
	}
	return fmt.Sprintf("(QRange {| r_from := %s; r_to := %s; r_incf := %s; r_inct := %s |})",
		f, t, casefile.Bool(q.IncF), casefile.Bool(q.IncT))
}

// ---------------------------------------------------------------- ParseFloat oracle

// key is an order-preserving integer image of a finite float64 (-0 and +0 coincide)
func key(s string) (int64, bool) {
	f, err := strconv.ParseFloat(s, 64)
	if err != nil || math.IsNaN(f) || math.IsInf(f, 0) {
		return 0, false
	}
	b := math.Float64bits(f)
	if b>>63 == 0 {
		return int64(b), true
	}
	return -int64(b & (1<<63 - 1)), true
}

// keysCoq renders the oracle for all strings that occur (numeric ones only)
func keysCoq(strs map[string]bool) string {
	var ks []string
	for s := range strs {
		if _, ok := key(s); ok {
			ks = append(ks, s)
		}
	}
	sort.Strings(ks)
	parts := make([]string, len(ks))
	for i, s := range ks {
		k, _ := key(s)
		parts[i] = fmt.Sprintf("(%s, (%d)%%Z)", bytesCoq(s), k)
	}
	return "[" + strings.Join(parts, "; ") + "]"
}

func collectStrings(dict []string, qs []query) map[string]bool {
	m := map[string]bool{}
	hasRange := false
	for _, q := range qs {
		if q.IsRange {
			hasRange = true
			if !q.FromStar {
				m[q.From] = true
			}
			if !q.ToStar {
				m[q.To] = true
			}
		}
	}
	if hasRange {
		for _, s := range dict {
			m[s] = true
		}
	}
	return m
}

// ---------------------------------------------------------------- Go-side reference (only to
// annotate replays with the offending token; the verdict is computed in Coq)

func refGlob(ts []parser.Term, t string) bool {
	if len(ts) == 0 {
		return t == ""
	}
	if ts[0].Kind == parser.TermText {
		return strings.HasPrefix(t, ts[0].Data) && refGlob(ts[1:], t[len(ts[0].Data):])
	}
	for k := 0; k <= len(t); k++ {
		if refGlob(ts[1:], t[k:]) {
			return true
		}
	}
	return false
}

func refMatch(q query, t string) bool {
	if !q.IsRange {
		return refGlob(terms(q.Pattern), t)
	}
	kf, okf := key(q.From)
	kt, okt := key(q.To)
	if (q.FromStar || okf) && (q.ToStar || okt) {
		k, ok := key(t)
		if !ok {
			return false
		}
		if !q.FromStar && !(kf < k || (q.IncF && kf == k)) {
			return false
		}
		if !q.ToStar && !(k < kt || (q.IncT && kt == k)) {
			return false
		}
		return true
	}
	if !q.FromStar && !(q.From < t || (q.IncF && q.From == t)) {
		return false
	}
	if !q.ToStar && !(t < q.To || (q.IncT && q.To == t)) {
		return false
	}
	return true
}

// suspects lists tokens on which the returned TID set differs from the Go-side reference
func suspects(q query, first uint32, dict []string, tids []uint32) []string {
	got := map[uint32]bool{}
	for _, t := range tids {
		got[t] = true
	}
	var out []string
	for i, t := range dict {
		if refMatch(q, t) != got[first+uint32(i)] {
			out = append(out, t)
			if len(out) >= 3 {
				break
			}
		}
	}
	return out
}

// hintsFirst puts the queries on which the Go-side reference disagrees in front (readability of
// replay files; the verdict itself comes from Coq)
func hintsFirst(impl []any) any {
	var bad []any
	for _, e := range impl {
		if m, ok := e.(map[string]any); ok && m["tokens_where_go_reference_disagrees"] != nil {
			bad = append(bad, m)
		}
	}
	if len(bad) == 0 {
		return impl
	}
	return map[string]any{"_suspect_queries": bad, "all_results": impl}
}

// ---------------------------------------------------------------- providers

type memProvider struct {
	first   uint32
	toks    [][]byte
	ordered bool
}

func (p *memProvider) GetToken(tid uint32) []byte { return p.toks[tid-p.first] }
func (p *memProvider) FirstTID() uint32          { return p.first }
func (p *memProvider) LastTID() uint32           { return p.first + uint32(len(p.toks)) - 1 }
func (p *memProvider) Ordered() bool             { return p.ordered }

func toBytes(ss []string) [][]byte {
	out := make([][]byte, len(ss))
	for i, s := range ss {
		out[i] = []byte(s)
	}
	return out
}

func dictCoq(ss []string) string {
	parts := make([]string, len(ss))
	for i, s := range ss {
		parts[i] = bytesCoq(s)
	}
	return "[" + strings.Join(parts, "; ") + "]"
}

func zlist(xs []uint32) string {
	parts := make([]string, len(xs))
	for i, x := range xs {
		parts[i] = fmt.Sprint(x)
	}
	return "[" + strings.Join(parts, "; ") + "]%Z"
}

type panicInfo struct{ v any }

func runSearch(q query, tp interface {
	GetToken(uint32) []byte
	FirstTID() uint32
	LastTID() uint32
	Ordered() bool
}) (tids []uint32, p *panicInfo) {
	defer func() {
		if r := recover(); r != nil {
			p = &panicInfo{r}
		}
	}()
	tids, err := pattern.Search(context.Background(), q.token("f"), tp)
	if err != nil {
		panic(err)
	}
	return tids, nil
}

// ---------------------------------------------------------------- generators

func allStrings(alpha string, maxLen int) []string {
	out := []string{""}
	prev := []string{""}
	for l := 1; l <= maxLen; l++ {
		var cur []string
		for _, p := range prev {
			for i := 0; i < len(alpha); i++ {
				cur = append(cur, p+string(alpha[i]))
			}
		}
		out = append(out, cur...)
		prev = cur
	}
	return out
}

func isNontrivial(q query) bool {
	if q.IsRange {
		return !(q.FromStar && q.ToStar)
	}
	return strings.Contains(q.Pattern, "*") && strings.Trim(q.Pattern, "*") != ""
}

type driver struct {
	w    *casefile.Writer
	r    *rng.R
	long bool // blocks.go: tokens of 254..700 bytes allowed in the material being generated
}

// searchCase runs every query through pattern.Search on a memory provider and emits one case.
// dictRef, when non-empty, is the name of a dictionary defined in the header of every case file.
func (d *driver) searchCase(class string, ordered bool, first uint32, dict []string, dictRef string, dictDesc any, qs []query) {
	tp := &memProvider{first: first, toks: toBytes(dict), ordered: ordered}
	parts := make([]string, 0, len(qs))
	var impl []any
	nontriv := false
	for _, q := range qs {
		tids, p := runSearch(q, tp)
		if p != nil {
			d.w.Violate("panic:search", fmt.Sprintf("pattern.Search panics: %v", p.v),
				map[string]any{"query": bstr(q.String()), "ordered": ordered, "first": first, "dict": bs(dict)})
			return
		}
		parts = append(parts, fmt.Sprintf("(%s, %s)", q.coq(), zlist(tids)))
		e := map[string]any{"q": bstr(q.String()), "tids": tids}
		if s := suspects(q, first, dict, tids); len(s) > 0 {
			e["tokens_where_go_reference_disagrees"] = bs(s)
		}
		impl = append(impl, e)
		nontriv = nontriv || isNontrivial(q)
		d.count(q, ordered)
	}
	dc := dictRef
	if dc == "" {
		dc = dictCoq(dict)
	}
	term := fmt.Sprintf("CSearch %s (%d)%%Z %s %s [%s]", casefile.Bool(ordered), first,
		keysCoq(collectStrings(dict, qs)), dc, strings.Join(parts, "; "))
	in := map[string]any{"kind": "search", "ordered": ordered, "first": first, "queries": qs, "ranges": qs[0].IsRange}
	if dictDesc != nil {
		in["dict_gen"] = dictDesc
	} else {
		in["dict"] = bs(dict)
	}
	d.w.Add(term, class, nontriv, in, hintsFirst(impl))
	d.w.Evals(len(qs)*len(dict) - 1)
}

func (d *driver) count(q query, ordered bool) {
	switch {
	case q.IsRange:
		_, okf := key(q.From)
		_, okt := key(q.To)
		if (q.FromStar || okf) && (q.ToStar || okt) {
			d.w.Count("query:range-number")
		} else {
			d.w.Count("query:range-text")
		}
	case !strings.Contains(q.Pattern, "*"):
		d.w.Count("query:literal")
	default:
		ts := terms(q.Pattern)
		mid := 0
		for i := 1; i < len(ts)-1; i++ {
			if ts[i].Kind == parser.TermText {
				mid++
			}
		}
		d.w.Count(fmt.Sprintf("query:wildcard-middles-%d", min(mid, 3)))
	}
	if ordered {
		d.w.Count("provider:ordered")
	} else {
		d.w.Count("provider:unordered")
	}
}

type layoutBlock struct {
	Field  string
	Tokens []string
	Big    bool // pretend the field is larger than a physical block (forces a new physical block)
}

func (b layoutBlock) MarshalJSON() ([]byte, error) {
	return json.Marshal(map[string]any{"Field": b.Field, "Tokens": bs(b.Tokens), "Big": b.Big})
}

func layoutBlocks(v any) []layoutBlock {
	var out []layoutBlock
	if l, ok := v.([]any); ok {
		for _, x := range l {
			m := x.(map[string]any)
			big, _ := m["Big"].(bool)
			out = append(out, layoutBlock{Field: m["Field"].(string), Tokens: unbs(m["Tokens"]), Big: big})
		}
	}
	return out
}

// sealedCase builds a token table through the real writeTokensBlocks for the fields
// before ++ target entries ++ after, then for every query runs the real SelectEntries, a real
// Provider over the selected entries and the real pattern.Search.
func (d *driver) sealedCase(class string, before []layoutBlock, entries [][]string, big bool, after []layoutBlock, qs []query) {
	var blocks []frac.VerifC13Block
	tid := uint32(1)
	add := func(field string, toks []string, start, big bool) {
		size := 0
		if big {
			size = 1 << 20
		}
		blocks = append(blocks, frac.VerifC13Block{Field: field, Start: start, TotalSize: size, StartTID: tid, Tokens: toBytes(toks)})
		tid += uint32(len(toks))
	}
	seen := map[string]bool{}
	for _, b := range before {
		add(b.Field, b.Tokens, !seen[b.Field], b.Big)
		seen[b.Field] = true
	}
	first := tid
	for i, e := range entries {
		add("f", e, i == 0, big)
	}
	for _, b := range after {
		add(b.Field, b.Tokens, !seen[b.Field], b.Big)
		seen[b.Field] = true
	}
	in := map[string]any{"kind": "sealed", "before": before, "entries": bss(entries), "big": big, "after": after, "queries": qs, "ranges": qs[0].IsRange}
	table, payloads, err := frac.VerifC13TokenTable(blocks)
	if err != nil {
		d.w.Violate("error:token-table", err.Error(), in)
		return
	}
	var flat []string
	for _, e := range entries {
		flat = append(flat, e...)
	}
	parts := make([]string, 0, len(qs))
	var impl []any
	nontriv := false
	for _, q := range qs {
		tids, p := func() (tids []uint32, p *panicInfo) {
			defer func() {
				if r := recover(); r != nil {
					p = &panicInfo{r}
				}
			}()
			// sealedTokenIndex.GetTIDsByTokenExpr, with the table and block loader built above
			t := q.token("f")
			sel := table.SelectEntries(parser.GetField(t), parser.GetHint(t))
			if len(sel) == 0 {
				return []uint32{}, nil
			}
			tp, err := token.VerifC13Provider(sel, payloads)
			if err != nil {
				panic(err)
			}
			tids, err = pattern.Search(context.Background(), t, tp)
			if err != nil {
				panic(err)
			}
			return tids, nil
		}()
		if p != nil {
			in["query"] = bstr(q.String())
			d.w.Violate("panic:sealed-search", fmt.Sprintf("SelectEntries/Provider/Search panics: %v", p.v), in)
			return
		}
		parts = append(parts, fmt.Sprintf("(%s, %s)", q.coq(), zlist(tids)))
		e := map[string]any{"q": bstr(q.String()), "tids": tids}
		if s := suspects(q, first, flat, tids); len(s) > 0 {
			e["tokens_where_go_reference_disagrees"] = bs(s)
		}
		impl = append(impl, e)
		nontriv = nontriv || isNontrivial(q)
		d.count(q, true)
	}
	es := make([]string, len(entries))
	for i, e := range entries {
		es[i] = dictCoq(e)
	}
	term := fmt.Sprintf("CSealed (%d)%%Z %s [%s] [%s]", first, keysCoq(collectStrings(flat, qs)),
		strings.Join(es, "; "), strings.Join(parts, "; "))
	d.w.Add(term, class, nontriv && len(entries) > 1, in, hintsFirst(impl))
	d.w.Evals(len(qs)*len(flat) - 1)
	d.w.Count(fmt.Sprintf("sealed:entries-%d", min(len(entries), 5)))
}

func (d *driver) kmpCase(class, s, p string) {
	var got int
	var pv any
	func() {
		defer func() { pv = recover() }()
		got = pattern.VerifC13FindSubstring([]byte(s), []byte(p))
	}()
	in := map[string]any{"kind": "kmp", "s": bstr(s), "p": bstr(p)}
	if pv != nil {
		d.w.Violate("panic:findSubstring", fmt.Sprint(pv), in)
		return
	}
	d.w.Add(fmt.Sprintf("CKmp %s %s (%d)%%Z", bytesCoq(s), bytesCoq(p), got), class,
		len(p) > 1 && len(s) > len(p), in, got)
}

func (d *driver) seqCase(class, s string, ps []string) {
	var got int
	var pv any
	func() {
		defer func() { pv = recover() }()
		got = pattern.VerifC13FindSequence([]byte(s), toBytes(ps))
	}()
	in := map[string]any{"kind": "seq", "s": bstr(s), "ps": bs(ps)}
	if pv != nil {
		d.w.Violate("panic:findSequence", fmt.Sprint(pv), in)
		return
	}
	d.w.Add(fmt.Sprintf("CSeq %s %s (%d)%%Z", bytesCoq(s), dictCoq(ps), got), class, len(ps) > 1, in, got)
}

// fracCase ingests one document per token into a real active fraction, queries its token
// index, seals, and queries the sealed token index.
func (d *driver) fracCase(class string, tokens []string, qs []query, bulk int) {
	sort.Strings(tokens)
	in := map[string]any{"kind": "frac", "tokens": bs(tokens), "queries": qs, "bulk": bulk, "ranges": false}
	if len(tokens) > 200 {
		in["tokens"] = fmt.Sprintf("%d tokens (regenerated from the seed)", len(tokens))
	}
	dir, err := os.MkdirTemp("", "verif-c13-")
	if err != nil {
		panic(err)
	}
	defer os.RemoveAll(dir)
	fm, err := fracbuild.NewFM(dir, nil)
	if err != nil {
		panic(err)
	}
	defer fracbuild.Close(fm)
	// documents in a seed-determined arrival order, a few bulks
	order := make([]int, len(tokens))
	for i := range order {
		order[i] = i
	}
	rng.Shuffle(d.r, order)
	var docs []fracbuild.Doc
	flush := func() {
		if len(docs) > 0 {
			if err := fracbuild.Append(fm, docs); err != nil {
				panic(err)
			}
			docs = nil
		}
	}
	for n, i := range order {
		toks := []string{"f:" + tokens[i], "g:" + tokens[(i+1)%len(tokens)], "e:x"}
		docs = append(docs, fracbuild.Doc{MID: uint64(1000 + n), RID: uint64(n + 1), Body: []byte(`{"n":1}`), Tokens: toks})
		if len(docs) >= bulk {
			flush()
		}
	}
	flush()
	run := func(kind string) ([][]string, bool) {
		fs := fracbuild.Fracs(fm)
		if len(fs) != 1 {
			d.w.Violate("error:frac-count", fmt.Sprintf("%d fractions with documents", len(fs)), in)
			return nil, false
		}
		var out [][]string
		for _, q := range qs {
			var vals [][]byte
			var k string
			var err error
			var pv any
			func() {
				defer func() { pv = recover() }()
				vals, k, err = frac.VerifC13TokenValues(fs[0], q.token("f"))
			}()
			if pv != nil || err != nil {
				in["query"] = bstr(q.String())
				d.w.Violate("panic:"+kind+"-GetTIDsByTokenExpr", fmt.Sprintf("%v %v", pv, err), in)
				return nil, false
			}
			if k != kind {
				d.w.Violate("error:frac-kind", "fraction is "+k+", expected "+kind, in)
				return nil, false
			}
			ss := make([]string, len(vals))
			for i, v := range vals {
				ss[i] = string(v)
			}
			out = append(out, ss)
		}
		return out, true
	}
	act, ok := run("active")
	if !ok {
		return
	}
	fracbuild.Seal(fm)
	sea, ok := run("sealed")
	if !ok {
		return
	}
	parts := make([]string, len(qs))
	var impl []any
	for i, q := range qs {
		parts[i] = fmt.Sprintf("(%s, (%s, %s))", q.coq(), dictCoq(act[i]), dictCoq(sea[i]))
		if len(tokens) <= 200 {
			impl = append(impl, map[string]any{"q": bstr(q.String()), "active": bs(act[i]), "sealed": bs(sea[i])})
		} else {
			impl = append(impl, map[string]any{"q": bstr(q.String()), "active_n": len(act[i]), "sealed_n": len(sea[i])})
		}
		d.count(q, true)
		d.count(q, false)
	}
	term := fmt.Sprintf("CFrac %s %s [%s]", keysCoq(collectStrings(tokens, qs)), dictCoq(tokens), strings.Join(parts, "; "))
	d.w.Add(term, class, true, in, impl)
	d.w.Evals(2*len(qs)*len(tokens) - 1)
}

// ---------------------------------------------------------------- random material

// units of an alphabet: its bytes, or — when it contains '|' — the '|'-separated pieces (multi-byte
// runes, lone lead/continuation bytes, invalid bytes)
func units(alpha string) []string {
	if strings.Contains(alpha, "|") {
		return strings.Split(alpha, "|")
	}
	out := make([]string, len(alpha))
	for i := range out {
		out[i] = alpha[i : i+1]
	}
	return out
}

// mixed 1/2/3/4-byte runes; and the same with lone lead / continuation / invalid bytes
const (
	alphaUTF8    = "a|b|п|р|日|😀"
	alphaUTF8Bad = "a|b|п|\xd0|\xbf|日|\xe6|\xff|😀|\xf0\x9f"
)

func (d *driver) randString(alpha string, lo, hi int) string {
	us := units(alpha)
	n := d.r.Range(lo, hi)
	var sb strings.Builder
	for i := 0; i < n; i++ {
		sb.WriteString(us[d.r.Intn(len(us))])
	}
	return sb.String()
}

// randPattern derives a pattern from a token (so that matches are frequent): keeps or drops
// segments, inserts '*' (sometimes adjacent), sometimes perturbs a byte
func (d *driver) randPattern(alpha, tok string) string {
	var sb strings.Builder
	i := 0
	if d.r.Chance(1, 2) {
		sb.WriteString("*")
		i = d.r.Intn(len(tok) + 1)
	}
	for i < len(tok) {
		n := d.r.Range(1, 4)
		j := min(len(tok), i+n)
		seg := tok[i:j]
		if d.r.Chance(1, 8) {
			seg = d.randString(alpha, 1, 2)
		}
		sb.WriteString(seg)
		i = j
		if i < len(tok) || d.r.Chance(1, 2) {
			if d.r.Chance(2, 3) {
				sb.WriteString("*")
				if d.r.Chance(1, 6) {
					sb.WriteString("*")
				}
				i = min(len(tok), i+d.r.Intn(4))
				if d.r.Chance(1, 4) {
					i = len(tok)
					if d.r.Chance(1, 2) && len(tok) > 0 {
						k := d.r.Range(1, min(3, len(tok)))
						sb.WriteString(tok[len(tok)-k:])
					}
				}
			}
		}
	}
	return sb.String()
}

func uniqSorted(ss []string) []string {
	m := map[string]bool{}
	var out []string
	for _, s := range ss {
		if !m[s] {
			m[s] = true
			out = append(out, s)
		}
	}
	sort.Strings(out)
	return out
}

func (d *driver) randDict(alpha string, n, maxLen int) []string {
	var ss []string
	for len(ss) < n {
		s := d.randString(alpha, 0, maxLen)
		ss = append(ss, s)
		// relatives: extensions, overlaps
		if d.r.Chance(1, 3) {
			ss = append(ss, s+d.randString(alpha, 1, 3))
		}
		if d.r.Chance(1, 4) && len(s) > 1 {
			ss = append(ss, s+s[1:])
		}
		if d.r.Chance(1, 4) && len(s) > 1 {
			ss = append(ss, s[:len(s)-1])
		}
	}
	return uniqSorted(ss)
}

var numberish = []string{"", "0", "-0", "1", "2", "10", "1.5", "-1", "1e1", "+1", ".5", "5.", "0x10", "1_0",
	"NaN", "Inf", "-Inf", "1e999", "-1e999", "a", "ab", "b", "1a", " 1", "9", "09", "100", "1e-400",
	"1.7976931348623157e308", "-1.7976931348623157e308", "1.797693134862315708145274237317043567981e+308",
	"4.9e-324", "0.1", "0.10", "infinity", "nan", "0x1p-2", "1E1", "١"}

func (d *driver) randRange(pool []string) query {
	q := query{IsRange: true, IncF: d.r.Bool(), IncT: d.r.Bool()}
	if d.r.Chance(1, 5) {
		q.FromStar = true
	} else {
		q.From = rng.Pick(d.r, pool)
	}
	if d.r.Chance(1, 5) {
		q.ToStar = true
	} else {
		q.To = rng.Pick(d.r, pool)
	}
	return q
}

func compositions(n int) [][]int {
	if n == 0 {
		return [][]int{{}}
	}
	var out [][]int
	for first := 1; first <= n; first++ {
		for _, rest := range compositions(n - first) {
			out = append(out, append([]int{first}, rest...))
		}
	}
	return out
}

func split(toks []string, sizes []int) [][]string {
	var out [][]string
	i := 0
	for _, s := range sizes {
		out = append(out, toks[i:i+s])
		i += s
	}
	return out
}

func (d *driver) randSplit(toks []string) [][]string {
	var out [][]string
	i := 0
	for i < len(toks) {
		n := d.r.Range(1, max(1, min(len(toks)-i, 1+len(toks)/3)))
		out = append(out, toks[i:i+n])
		i += n
	}
	return out
}

// ---------------------------------------------------------------- replay

func (d *driver) replay(path string) {
	raw, err := os.ReadFile(path)
	if err != nil {
		panic(err)
	}
	var doc struct {
		Replay struct {
			Case struct {
				Class string         `json:"class"`
				Input map[string]any `json:"input"`
			} `json:"case"`
			Input map[string]any `json:"input"`
		} `json:"replay"`
	}
	if err := json.Unmarshal(raw, &doc); err != nil {
		panic(err)
	}
	in := doc.Replay.Case.Input
	if in == nil {
		in = doc.Replay.Input
	}
	if d.replayBlocks(in) || d.replayRace(in) {
		return
	}
	strs := unbs
	isRange, _ := in["ranges"].(bool)
	var qs []query
	for _, s := range strs(in["queries"]) {
		qs = append(qs, parseQuery(s, isRange))
	}
	switch in["kind"] {
	case "kmp":
		d.kmpCase("replay", unb(in["s"]), unb(in["p"]))
	case "seq":
		d.seqCase("replay", unb(in["s"]), strs(in["ps"]))
	case "search":
		dict := strs(in["dict"])
		if g, ok := in["dict_gen"].(map[string]any); ok {
			dict = genDict(g["alphabet"].(string), int(g["max_len"].(float64)), g["order"].(string), uint64(g["seed"].(float64)))
		}
		d.searchCase("replay", in["ordered"].(bool), uint32(in["first"].(float64)), dict, "", nil, qs)
	case "sealed":
		before, after := layoutBlocks(in["before"]), layoutBlocks(in["after"])
		var entries [][]string
		if l, ok := in["entries"].([]any); ok {
			for _, e := range l {
				entries = append(entries, unbs(e))
			}
		}
		big, _ := in["big"].(bool)
		d.sealedCase("replay", before, entries, big, after, qs)
	case "frac":
		if toks := strs(in["tokens"]); len(toks) > 0 {
			d.fracCase("replay", toks, qs, int(in["bulk"].(float64)))
		}
	}
}

// genDict: all strings over the alphabet up to maxLen, sorted or in a seed-determined order
func genDict(alpha string, maxLen int, order string, seed uint64) []string {
	ss := allStrings(alpha, maxLen)
	if order == "sorted" {
		sort.Strings(ss)
		return ss
	}
	rng.Shuffle(rng.New(seed^0xC13), ss)
	return ss
}

// ---------------------------------------------------------------- main

func main() {
	seed := flag.Uint64("seed", 1, "")
	tier := flag.String("tier", "quick", "")
	out := flag.String("out", "", "")
	replay := flag.String("replay", "", "")
	flag.Parse()
	if *out == "" {
		fmt.Fprintln(os.Stderr, "need -out")
		os.Exit(2)
	}
	thorough := *tier == "thorough"
	patLen, tokLen := 5, 7
	if thorough {
		patLen, tokLen = 6, 8
	}
	dS := genDict("ab", tokLen, "sorted", *seed)
	dU := genDict("ab", tokLen, "shuffled", *seed)
	header := "From Coq Require Import List ZArith NArith.\nImport ListNotations.\nFrom C13 Require Import Model ModelBlock CaseDefs.\n" +
		"Definition dS : list bytes := " + dictCoq(dS) + ".\n" +
		"Definition dU : list bytes := " + dictCoq(dU) + ".\n"
	w, err := casefile.New(*out, "C13", header, 120)
	if err != nil {
		panic(err)
	}
	d := &driver{w: w, r: rng.New(*seed)}
	if *replay != "" {
		d.replay(*replay)
		if err := w.Close(); err != nil {
			panic(err)
		}
		return
	}

	// development aid (mutation testing of the block-level classes only); unset in every normal run
	if os.Getenv("HC13_ONLY") == "blocks" {
		d.blockStreams(thorough)
		d.raceStreams(thorough)
		if err := w.Close(); err != nil {
			panic(err)
		}
		return
	}

	// (0) the term lists the theorems quantify over are the ones the real parser builds
	d.parserTerms(patLen)

	// (a) exhaustive: every pattern over {a,b,*} up to patLen against every token over {a,b} up
	// to tokLen, through pattern.Search with an unordered and an ordered provider
	pats := allStrings("ab*", patLen)
	descS := map[string]any{"alphabet": "ab", "max_len": tokLen, "order": "sorted", "seed": *seed}
	descU := map[string]any{"alphabet": "ab", "max_len": tokLen, "order": "shuffled", "seed": *seed}
	for i := 0; i < len(pats); i += 6 {
		var qs []query
		for _, p := range pats[i:min(len(pats), i+6)] {
			qs = append(qs, query{Pattern: p})
		}
		d.searchCase("exh-glob-unordered", false, 1, dU, "dU", descU, qs)
		d.searchCase("exh-glob-ordered", true, 1, dS, "dS", descS, qs)
	}
	kmpLen := tokLen - 2
	if thorough {
		kmpLen = tokLen - 1
	}
	w.Exhaust = true
	w.Extra["exhaustive_scope"] = fmt.Sprintf("all patterns over {a,b,*} of length <= %d x all tokens over {a,b} of length <= %d "+
		"x {unordered, ordered} provider; all sorted dictionaries over the 7 strings of length <= 2 in all block layouts x "+
		"all patterns of length <= 3; all range end combinations over %d values; findSubstring for all patterns <= 4, strings <= %d; "+
		"all sorted dictionaries over 8 multi-byte/invalid-UTF-8 values (<= 4, half of 5; thorough: all) in all block layouts x 30 byte-level hints",
		patLen, tokLen, len(numberish), kmpLen)

	// (b) findSubstring / findSequence
	for _, p := range allStrings("ab", 4)[1:] {
		for _, s := range allStrings("ab", kmpLen) {
			d.kmpCase("exh-kmp", s, p)
		}
	}
	nK := 400
	if thorough {
		nK = 3000
	}
	for i := 0; i < nK; i++ {
		alpha := rng.Pick(d.r, []string{"ab", "abc", "a"})
		s := d.randString(alpha, 0, 40)
		p := d.randString(alpha, 1, 8)
		if d.r.Chance(1, 2) && len(s) > 2 {
			a := d.r.Intn(len(s) - 1)
			p = s[a:min(len(s), a+d.r.Range(1, 8))]
		}
		d.kmpCase("rand-kmp", s, p)
		var ps []string
		for k := d.r.Range(1, 4); k > 0; k-- {
			if d.r.Chance(1, 2) && len(s) > 2 {
				a := d.r.Intn(len(s) - 1)
				ps = append(ps, s[a:min(len(s), a+d.r.Range(1, 4))])
			} else {
				ps = append(ps, d.randString(alpha, 1, 3))
			}
		}
		d.seqCase("rand-seq", s, ps)
	}

	// (c) all range end combinations over a value set with numbers, non-numbers and edge floats
	ends := append([]string{}, numberish...)
	dictN := append([]string{}, numberish...)
	dictNS := uniqSorted(dictN)
	var rqs []query
	flushR := func() {
		if len(rqs) == 0 {
			return
		}
		d.searchCase("exh-range", false, uint32(d.r.Range(1, 50)), dictN, "", nil, rqs)
		if d.r.Chance(1, 4) {
			d.searchCase("exh-range", true, uint32(d.r.Range(1, 50)), dictNS, "", nil, rqs)
		}
		rqs = nil
	}
	for fi := -1; fi < len(ends); fi++ {
		for ti := -1; ti < len(ends); ti++ {
			if !thorough && fi >= 0 && ti >= 0 && (fi*len(ends)+ti+int(*seed))%3 != 0 {
				continue // quick: every unbounded combination, one third of the bounded ones
			}
			for inc := 0; inc < 4; inc++ {
				q := query{IsRange: true, IncF: inc&1 == 1, IncT: inc&2 == 2}
				if fi < 0 {
					q.FromStar = true
				} else {
					q.From = ends[fi]
				}
				if ti < 0 {
					q.ToStar = true
				} else {
					q.To = ends[ti]
				}
				rqs = append(rqs, q)
				if len(rqs) >= 24 {
					flushR()
				}
			}
		}
	}
	flushR()
	// random numeric material
	nR := 60
	if thorough {
		nR = 800
	}
	for i := 0; i < nR; i++ {
		var pool []string
		for k := 0; k < 25; k++ {
			switch d.r.Intn(6) {
			case 0:
				pool = append(pool, strconv.Itoa(d.r.Range(-30, 30)))
			case 1:
				pool = append(pool, strconv.FormatFloat(float64(d.r.Range(-300, 300))/8, 'f', -1, 64))
			case 2:
				pool = append(pool, strconv.FormatFloat(float64(d.r.Range(-300, 300))/7, 'e', d.r.Range(0, 4), 64))
			case 3:
				pool = append(pool, d.randString("0123456789.e-+", 1, 5))
			case 4:
				pool = append(pool, d.randString("ab1", 0, 3))
			default:
				pool = append(pool, rng.Pick(d.r, numberish))
			}
		}
		var qs []query
		for k := 0; k < 12; k++ {
			qs = append(qs, d.randRange(pool))
		}
		d.searchCase("rand-range", false, uint32(d.r.Range(1, 1000)), pool, "", nil, qs)
	}

	// (d) sealed path, exhaustive: all sorted dictionaries over the strings of length <= 2 in all
	// block layouts, all patterns of length <= 3
	uni := allStrings("ab", 2)
	sort.Strings(uni)
	var smallQ []query
	for _, p := range allStrings("ab*", 3) {
		smallQ = append(smallQ, query{Pattern: p})
	}
	maxSub := 6
	if thorough {
		maxSub = 7
	}
	for mask := 1; mask < 1<<len(uni); mask++ {
		var toks []string
		for i, s := range uni {
			if mask>>i&1 == 1 {
				toks = append(toks, s)
			}
		}
		if len(toks) > maxSub {
			continue
		}
		for _, sizes := range compositions(len(toks)) {
			var before, after []layoutBlock
			if (mask+len(sizes))%3 == 0 {
				before = []layoutBlock{{Field: "e", Tokens: []string{"x", "y"}}}
				after = []layoutBlock{{Field: "g", Tokens: []string{"a"}}}
			}
			d.sealedCase("exh-sealed", before, split(toks, sizes), (mask+len(sizes))%5 == 0, after, smallQ)
		}
	}
	// the same over multi-byte values: 1/2/3/4-byte runes and an invalid byte, values sharing a
	// prefix up to a partial rune, so that for every hint length some MaxVal has a rune straddling
	// byte offset |hint|; hints are whole runes, partial runes and ASCII
	uni8 := []string{"a", "ab", "aп", "a日x", "b", "п", "😀", "\xffz"}
	sort.Strings(uni8)
	var q8 []query
	for _, p := range []string{"", "*", "a", "a*", "ab", "ab*", "abc*", "b", "b*", "c*", "aп", "aп*", "a\xd0*", "a\xd0",
		"a日*", "a\xe6*", "a\xe6\x97*", "a*x", "п", "п*", "\xd0*", "р*", "😀*", "\xf0*", "\xf0\x9f*", "\xf0\x9f\x98*",
		"\xff*", "*z", "a日x", "ax*"} {
		q8 = append(q8, query{Pattern: p})
	}
	for mask := 1; mask < 1<<len(uni8); mask++ {
		var toks []string
		for i, s := range uni8 {
			if mask>>i&1 == 1 {
				toks = append(toks, s)
			}
		}
		if !thorough && (len(toks) > 5 || (len(toks) == 5 && (mask+int(*seed))%2 == 0)) {
			continue // quick: all dictionaries of <= 4 values, half of those with 5
		}
		for _, sizes := range compositions(len(toks)) {
			d.sealedCase("exh-sealed-utf8", nil, split(toks, sizes), false, nil, q8)
		}
	}
	// sealed path, random larger dictionaries and layouts, longer prefixes, ranges
	nS := 150
	if thorough {
		nS = 1500
	}
	for i := 0; i < nS; i++ {
		alpha := rng.Pick(d.r, []string{"ab", "abc", "ab", alphaUTF8, alphaUTF8Bad})
		toks := d.randDict(alpha, d.r.Range(3, 40), d.r.Range(2, 10))
		var qs []query
		for k := 0; k < 16; k++ {
			base := rng.Pick(d.r, toks)
			if d.r.Chance(1, 4) {
				base = d.randString(alpha, 0, 8)
			}
			switch d.r.Intn(5) {
			case 0:
				qs = append(qs, query{Pattern: base})
			case 1:
				qs = append(qs, query{Pattern: base[:d.r.Intn(len(base)+1)] + "*"})
			default:
				qs = append(qs, query{Pattern: d.randPattern(alpha, base)})
			}
		}
		var before, after []layoutBlock
		if d.r.Bool() {
			before = append(before, layoutBlock{Field: "a", Tokens: d.randDict("xy", d.r.Range(1, 5), 3), Big: d.r.Chance(1, 3)})
			if d.r.Bool() {
				before = append(before, layoutBlock{Field: "b", Tokens: d.randDict("xy", d.r.Range(1, 5), 3)})
			}
		}
		if d.r.Bool() {
			after = append(after, layoutBlock{Field: "g", Tokens: d.randDict("ab", d.r.Range(1, 5), 3), Big: d.r.Chance(1, 3)})
		}
		d.sealedCase("rand-sealed", before, d.randSplit(toks), d.r.Chance(1, 3), after, qs)
		if d.r.Chance(1, 4) {
			pool := uniqSorted(append(append([]string{}, numberish[:20]...), toks[:min(len(toks), 5)]...))
			var rq []query
			for k := 0; k < 8; k++ {
				rq = append(rq, d.randRange(pool))
			}
			d.sealedCase("rand-sealed-range", before, d.randSplit(pool), false, after, rq)
		}
	}

	// (e) random dictionaries through pattern.Search, both provider kinds, long strings
	nD := 250
	if thorough {
		nD = 2500
	}
	for i := 0; i < nD; i++ {
		alpha := rng.Pick(d.r, []string{"ab", "abc", "a", "ab", alphaUTF8, alphaUTF8Bad})
		toks := d.randDict(alpha, d.r.Range(1, 40), d.r.Range(1, 24))
		var qs []query
		for k := 0; k < 16; k++ {
			base := rng.Pick(d.r, toks)
			if d.r.Chance(1, 5) {
				base = d.randString(alpha, 0, 10)
			}
			if d.r.Chance(1, 6) {
				qs = append(qs, query{Pattern: base})
			} else {
				qs = append(qs, query{Pattern: d.randPattern(alpha, base)})
			}
		}
		first := uint32(d.r.Range(1, 100000))
		d.searchCase("rand-search-ordered", true, first, toks, "", nil, qs)
		sh := append([]string{}, toks...)
		// unordered providers may hold duplicates
		if d.r.Bool() {
			sh = append(sh, rng.Pick(d.r, toks))
		}
		rng.Shuffle(d.r, sh)
		d.searchCase("rand-search-unordered", false, first, sh, "", nil, qs)
	}

	// (f) real fractions: active vs sealed GetTIDsByTokenExpr
	nF, nBig := 6, 1
	if thorough {
		nF, nBig = 40, 3
	}
	for i := 0; i < nF+nBig; i++ {
		alpha := rng.Pick(d.r, []string{"ab", "abc", alphaUTF8, alphaUTF8Bad})
		if i == nF {
			alpha = alphaUTF8Bad // the first multi-block fraction always holds multi-byte / invalid UTF-8 values
		}
		var toks []string
		if i < nF {
			toks = d.randDict(alpha, d.r.Range(5, 60), d.r.Range(2, 10))
			toks = uniqSorted(append(toks, numberish[:d.r.Range(0, 12)]...))
		} else {
			// > 16 KiB of tokens in the field: several token blocks / table entries after sealing
			toks = d.randDict(alpha, 3500, 12)
		}
		var clean []string
		for _, t := range toks {
			if len(t) > 0 { // the ingest path does not index empty values of ordinary fields the same way
				clean = append(clean, t)
			}
		}
		toks = clean
		var qs []query
		for k := 0; k < 24; k++ {
			base := rng.Pick(d.r, toks)
			switch d.r.Intn(8) {
			case 0:
				qs = append(qs, query{Pattern: base})
			case 1:
				qs = append(qs, query{Pattern: base[:d.r.Intn(len(base)+1)] + "*"})
			case 2:
				if i < nF {
					qs = append(qs, d.randRange(append(append([]string{}, toks[:min(6, len(toks))]...), numberish[:12]...)))
					continue
				}
				fallthrough
			default:
				qs = append(qs, query{Pattern: d.randPattern(alpha, base)})
			}
		}
		class := "frac-small"
		if i >= nF {
			class = "frac-multiblock"
		}
		// literal/wildcard and range queries go into separate cases (replay format)
		var lits, rngs []query
		for _, q := range qs {
			if q.IsRange {
				rngs = append(rngs, q)
			} else {
				lits = append(lits, q)
			}
		}
		d.fracCase(class, toks, lits, d.r.Range(1, 4)*len(toks)/4+1)
		if len(rngs) > 0 {
			d.fracCase(class+"-range", toks, rngs, len(toks))
		}
	}

	// (g) packed token blocks, token providers, active token list (blocks.go)
	d.blockStreams(thorough)

	// (h) searches racing with an Append; token table reloads through one loader (race.go)
	d.raceStreams(thorough)

	if err := w.Close(); err != nil {
		panic(err)
	}
}

// parserTerms: for every pattern string the real SeqQL parser (keyword field) must build exactly
// the term list the cases use (text runs separated by '*', no empty text term inside a wildcard
// pattern, no two adjacent text terms) — the well-formedness hypothesis of the theorems.
func (d *driver) parserTerms(patLen int) {
	mapping := seq.Mapping{"f": seq.NewSingleType(seq.TokenizerTypeKeyword, "", 0)}
	for _, p := range allStrings("ab*", patLen) {
		if p == "" {
			continue
		}
		ast, err := parser.ParseSeqQL("f:"+p, mapping)
		if err != nil {
			d.w.Violate("wf:parser-error", err.Error(), map[string]any{"pattern": p})
			continue
		}
		lit, ok := ast.Root.Value.(*parser.Literal)
		if !ok {
			d.w.Violate("wf:parser-shape", fmt.Sprintf("%T", ast.Root.Value), map[string]any{"pattern": p})
			continue
		}
		want := terms(p)
		same := len(want) == len(lit.Terms)
		for i := 0; same && i < len(want); i++ {
			same = want[i] == lit.Terms[i]
		}
		if !same {
			d.w.Violate("wf:parser-terms", fmt.Sprintf("parser built %v, cases assume %v", lit.Terms, want), map[string]any{"pattern": p})
		}
		d.w.Evals(1)
	}
	_ = bytes.Compare
}
