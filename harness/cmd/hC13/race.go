// Classes for the interplay of searches with the state they read from:
//   - active: the real TokenList.FindPattern while an Append of a NEW token of the searched field is
//     parked between / around its two publication steps (createTIDs, fillFieldTIDs);
//   - sealed: several token lookups through ONE data provider / TableLoader with the token table
//     evicted from IndexCache.TokenTable (and reloaded by that loader) before every lookup, on
//     freshly sealed and on restarted fractions.
package main

import (
	"fmt"
	"os"
	"sort"
	"strings"
	"time"

	"github.com/ozontech/seq-db/frac"
	"github.com/ozontech/seq-db/parser"

	"verif/harness/internal/fracbuild"
	"verif/harness/internal/rng"
)

// raceCase: one worker; pre = batches appended before; racing = the Append in flight (new tokens of
// field f among them); lock/fillDuring = how the search is parked (see the export file).
func (d *driver) raceCase(class string, pre [][]tlItem, racing []tlItem, field, pat, lock string, fillDuring bool) {
	in := map[string]any{"kind": "race", "pre": pre, "racing": racing, "field": field, "pattern": bstr(pat),
		"lock": lock, "fill_during": fillDuring}
	q := query{Pattern: pat}
	type raceOut struct {
		res  frac.VerifC13RaceResult
		hist []string
		hash map[string]int
		pv   any
	}
	ch := make(chan raceOut, 1)
	go func() { // the driver never waits for this goroutine longer than the watchdog below
		var o raceOut
		defer func() {
			o.pv = recover()
			ch <- o
		}()
		var tl *frac.TokenList
		tl, o.hist, o.hash = runTokenList(1, pre)
		defer tl.Stop()
		toks := make([][]byte, len(racing))
		fl := make([]int, len(racing))
		for i, it := range racing {
			toks[i] = []byte(it.Tok)
			fl[i] = it.FLen
			o.hash[it.Tok] = 0
		}
		o.res = frac.VerifC13SearchDuringAppend(tl, lock, fillDuring, q.token(field), toks, fl)
	}()
	var o raceOut
	select {
	case o = <-ch:
	case <-time.After(60 * time.Second):
		d.w.Count("race:watchdog-skip") // a stall of the driver's own machinery is not a verdict on the code
		return
	}
	res, hist, hash, pv := o.res, o.hist, o.hash, o.pv
	if pv != nil {
		d.w.Violate("panic:race-driver", fmt.Sprint(pv), in)
		return
	}
	if res.Hung {
		d.w.Violate("hang:find-pattern-during-append", "TokenList.FindPattern did not return within 20 s after the Append finished and every driver lock was released", in)
		return
	}
	if !res.Parked {
		d.w.Count("race:search-not-seen-parked") // not judged: the forced order is unknown
		return
	}
	// the field's values in TID order before / after the racing Append (one worker: order of first
	// appearance)
	seen := map[string]bool{allToken: true}
	var before, after []string
	add := func(items []tlItem, dst *[]string) {
		for _, it := range items {
			if !seen[it.Tok] {
				seen[it.Tok] = true
				if it.Tok[:it.FLen] == field {
					*dst = append(*dst, it.Tok[it.FLen+1:])
				}
			}
		}
	}
	for _, b := range pre {
		add(b, &before)
	}
	after = append(after, before...)
	add(racing, &after)
	// the schedule as the code's read order (TID list first, values second) makes it
	create := fmt.Sprintf("RW (WCreate [0] %s)", itemsCoq(racing))
	fill := "RW (WFill 0)"
	var sched []string
	switch {
	case lock == "fields" && fillDuring:
		sched = []string{create, fill, "RReadTids", "RReadVals"}
	case lock == "fields":
		sched = []string{create, "RReadTids", "RReadVals", fill}
	case fillDuring:
		sched = []string{"RReadTids", create, fill, "RReadVals"}
	default:
		sched = []string{"RReadTids", create, "RReadVals", fill}
	}
	impl := "None"
	implJ := map[string]any{"panic": fmt.Sprint(res.Panic), "err": fmt.Sprint(res.Err)}
	if res.Panic == nil && res.Err == nil {
		vs := make([]string, len(res.Vals))
		for i, v := range res.Vals {
			vs[i] = string(v)
		}
		impl = "(Some " + dictCoq(vs) + ")"
		implJ = map[string]any{"found": bs(vs), "tids": res.TIDs}
	}
	implJ["field_values_before"] = bs(before)
	implJ["field_values_after"] = bs(after)
	term := fmt.Sprintf("CActiveRace %s [%s] [%s] %s %s %s %s %s", hashCoq(hash), strings.Join(hist, "; "),
		strings.Join(sched, "; "), bytesCoq(field), q.coq(), dictCoq(before), dictCoq(after), impl)
	d.w.Add(term, class, len(after) > len(before), in, implJ)
	d.w.Count(fmt.Sprintf("race:parked-on-%s-fill-during-%v", lock, fillDuring))
}

// reloadCase: a real fraction with the tokens in field f, sealed (and restarted when restart is
// set); >= 2 lookups through one data provider with the token table evicted before each.
func (d *driver) reloadCase(class string, tokens []string, pats []string, restart bool) {
	sort.Strings(tokens)
	in := map[string]any{"kind": "reload", "tokens": bs(tokens), "patterns": bs(pats), "restart": restart}
	var qs []query
	var ts []parser.Token
	for _, p := range pats {
		q := query{Pattern: p}
		qs = append(qs, q)
		ts = append(ts, q.token("f"))
	}
	type reloadOut struct {
		lens  []uint32
		out   []frac.VerifC13Lookup
		kind  string
		nfrac int
		pv    any
	}
	ch := make(chan reloadOut, 1)
	go func() { // build, seal, (restart,) lookups; the driver waits at most for the watchdog below
		var o reloadOut
		defer func() {
			o.pv = recover()
			ch <- o
		}()
		dir, err := os.MkdirTemp("", "verif-c13-")
		if err != nil {
			panic(err)
		}
		defer os.RemoveAll(dir)
		fm, err := fracbuild.NewFM(dir, nil)
		if err != nil {
			panic(err)
		}
		defer func() { fracbuild.Close(fm) }()
		var docs []fracbuild.Doc
		for n, t := range tokens {
			docs = append(docs, fracbuild.Doc{MID: uint64(1000 + n), RID: uint64(n + 1), Body: []byte(`{"n":1}`),
				Tokens: []string{"f:" + t, "g:" + tokens[(n+1)%len(tokens)], "e:x"}})
		}
		if err := fracbuild.Append(fm, docs); err != nil {
			panic(err)
		}
		fracbuild.Seal(fm)
		if restart {
			fracbuild.Close(fm)
			if fm, err = fracbuild.NewFM(dir, nil); err != nil {
				panic(err)
			}
		}
		fs := fracbuild.Fracs(fm)
		o.nfrac = len(fs)
		if len(fs) == 1 {
			o.lens, o.out, o.kind = frac.VerifC13ReloadLookups(fs[0], ts)
		}
	}()
	var o reloadOut
	select {
	case o = <-ch:
	case <-time.After(120 * time.Second):
		d.w.Count("reload:watchdog-skip") // a stall of the driver's own machinery is not a verdict on the code
		return
	}
	if o.pv != nil {
		d.w.Violate("panic:token-table-reload", fmt.Sprint(o.pv), in)
		return
	}
	if o.nfrac != 1 {
		d.w.Violate("error:frac-count", fmt.Sprintf("%d fractions with documents", o.nfrac), in)
		return
	}
	lens, out, kind := o.lens, o.out, o.kind
	if kind != "sealed" {
		d.w.Violate("error:frac-kind", "fraction is "+kind+", expected sealed", in)
		return
	}
	for i, lk := range out {
		if lk.LoadErr != "" || lk.Err != "" {
			in["lookup"] = i + 1
			d.w.Violate("error:token-table-reload", fmt.Sprintf("lookup %d (f:%s) after the token table was evicted and reloaded by the same loader: %s%s",
				i+1, pats[i], lk.LoadErr, lk.Err), in)
			return
		}
	}
	ls := make([]string, len(lens))
	for i, l := range lens {
		ls[i] = fmt.Sprint(l)
	}
	var cs, parts []string
	var impl []any
	for i, lk := range out {
		cs = append(cs, fmt.Sprintf("(%d)%%Z", lk.Cursor))
		vs := make([]string, len(lk.Vals))
		for k, v := range lk.Vals {
			vs[k] = string(v)
		}
		parts = append(parts, fmt.Sprintf("(%s, %s)", qs[i].coq(), dictCoq(vs)))
		impl = append(impl, map[string]any{"q": bstr(pats[i]), "cursor_after_reload": lk.Cursor, "found": bs(vs)})
	}
	term := fmt.Sprintf("CReload [%s]%%N [%s] %s [%s]", strings.Join(ls, "; "), strings.Join(cs, "; "), dictCoq(tokens), strings.Join(parts, "; "))
	d.w.Add(term, class, len(out) > 1, in, impl)
	d.w.Count(fmt.Sprintf("reload:restart-%v", restart))
	d.w.Count(fmt.Sprintf("reload:lookups-%d", min(len(out), 5)))
}

func (d *driver) raceStreams(thorough bool) {
	nR, nL := 10, 4
	if thorough {
		nR, nL = 80, 24
	}
	// fixed: the demo's shape in all four forced orders
	pre := [][]tlItem{{{"f:aa", 1}, {"f:ab", 1}, {"f:zz", 1}, {"g:aa", 1}}}
	for _, lock := range []string{"fields", "tid"} {
		for _, during := range []bool{true, false} {
			d.raceCase("race-orders", pre, []tlItem{{"f:ac", 1}}, "f", "a*", lock, during)
			d.raceCase("race-orders", pre, []tlItem{{"g:x", 1}, {"f:ac", 1}, {"f:aa", 1}, {"f:", 1}}, "f", "*", lock, during)
			d.raceCase("race-orders", nil, []tlItem{{"f:a", 1}}, "f", "*", lock, during) // the field's first token
		}
	}
	for i := 0; i < nR; i++ {
		batches := d.randBatches()
		var racing []tlItem
		seen := map[string]bool{}
		for k := d.r.Range(1, 4); k > 0; k-- {
			it := tlItem{"f:" + d.randString("ab", 0, 3), 1}
			if d.r.Chance(1, 4) {
				it = tlItem{"g:" + d.randString("ab", 0, 2), 1}
			}
			if !seen[it.Tok] {
				seen[it.Tok] = true
				racing = append(racing, it)
			}
		}
		pat := rng.Pick(d.r, []string{"*", "a*", "*b", "*a*", "ab", ""})
		d.raceCase("rand-race", batches, racing, "f", pat, rng.Pick(d.r, []string{"fields", "tid"}), d.r.Bool())
	}
	for i := 0; i < nL; i++ {
		toks := d.randDict(rng.Pick(d.r, []string{"ab", "abc", alphaUTF8Bad}), d.r.Range(3, 40), d.r.Range(2, 8))
		var clean []string
		for _, t := range toks {
			if t != "" {
				clean = append(clean, t)
			}
		}
		if i == nL-1 { // several token blocks and table entries
			clean = nil
			for _, t := range d.randDict("abc", 1800, 12) {
				if t != "" {
					clean = append(clean, t)
				}
			}
		}
		var pats []string
		for k := d.r.Range(2, 4); k > 0; k-- {
			base := rng.Pick(d.r, clean)
			switch d.r.Intn(3) {
			case 0:
				pats = append(pats, base)
			case 1:
				pats = append(pats, base[:d.r.Intn(len(base)+1)]+"*")
			default:
				pats = append(pats, d.randPattern("ab", base))
			}
		}
		d.reloadCase("reload", clean, pats, i%2 == 0)
	}
}

func (d *driver) replayRace(in map[string]any) bool {
	items := func(v any) []tlItem {
		var out []tlItem
		if l, ok := v.([]any); ok {
			for _, it := range l {
				m := it.(map[string]any)
				out = append(out, tlItem{hexs(m["tok_hex"].(string)), int(m["flen"].(float64))})
			}
		}
		return out
	}
	switch in["kind"] {
	case "race":
		var pre [][]tlItem
		if l, ok := in["pre"].([]any); ok {
			for _, b := range l {
				pre = append(pre, items(b))
			}
		}
		d.raceCase("replay", pre, items(in["racing"]), in["field"].(string), unb(in["pattern"]), in["lock"].(string), in["fill_during"].(bool))
	case "reload":
		restart, _ := in["restart"].(bool)
		d.reloadCase("replay", unbs(in["tokens"]), unbs(in["patterns"]), restart)
	default:
		return false
	}
	return true
}
