// Unit-level correspondence classes for the packed token block, the token providers and the
// active token list (props/C13/coq/ModelBlock.v): the REAL DiskTokensBlock.pack, Block.unpack,
// Block.GetValByTID, Provider.GetToken/FirstTID/LastTID, getTokensBlocksGenerator,
// writeTokensBlocks, TokenList.Append/GetValByTID/GetTIDsByField and the active provider.
package main

import (
	"context"
	"encoding/hex"
	"encoding/json"
	"fmt"
	"sort"
	"strings"

	"github.com/ozontech/seq-db/frac"
	"github.com/ozontech/seq-db/frac/token"
	"github.com/ozontech/seq-db/parser"
	"github.com/ozontech/seq-db/pattern"

	"verif/harness/internal/rng"
)

func entryCoq(e *token.TableEntry) string {
	return fmt.Sprintf("{| e_start_index := (%d)%%Z; e_start_tid := (%d)%%Z; e_block_index := (%d)%%Z; e_val_count := (%d)%%Z; e_min_val := %s; e_max_val := %s |}",
		e.StartIndex, e.StartTID, e.BlockIndex, e.ValCount, bytesCoq(e.MinVal), bytesCoq(e.MaxVal))
}

func optBytesCoq(v []byte, ok bool) string {
	if !ok {
		return "None"
	}
	return "(Some " + bytesCoq(string(v)) + ")"
}

// realUnpack: 0 ok / 1 error / 2 panic
func realUnpack(data []byte) (res int, offs []byte, what string) {
	defer func() {
		if r := recover(); r != nil {
			res, offs, what = 2, nil, fmt.Sprint(r)
		}
	}()
	o, err := token.VerifC13Unpack(data)
	if err != nil {
		return 1, nil, err.Error()
	}
	return 0, o, ""
}

func realGetVal(e token.TableEntry, payload, offs []byte, tid uint32) (v []byte, ok bool) {
	defer func() {
		if r := recover(); r != nil {
			v, ok = nil, false
		}
	}()
	return append([]byte{}, token.VerifC13GetVal(e, payload, offs, tid)...), true
}

func packGroups(groups [][]string) []byte {
	var data []byte
	for _, g := range groups {
		data = append(data, frac.VerifC13Pack(toBytes(g))...)
	}
	return data
}

func groupsCoq(groups [][]string) string {
	gs := make([]string, len(groups))
	for i, g := range groups {
		gs[i] = dictCoq(g)
	}
	return "[" + strings.Join(gs, "; ") + "]"
}

// blockCase: pack every group with the real pack, unpack the concatenation with the real unpack,
// read every token back with the real GetValByTID.
func (d *driver) blockCase(class string, groups [][]string, tid0 uint32) {
	data := packGroups(groups)
	res, offs, what := realUnpack(data)
	in := map[string]any{"kind": "block", "groups": bss(groups), "tid0": tid0}
	var vals []string
	var implVals []any
	nontriv := len(groups) > 1
	before := 0
	for _, g := range groups {
		e := token.TableEntry{StartIndex: uint32(before), StartTID: tid0 + uint32(before), ValCount: uint32(len(g))}
		for j, t := range g {
			if res == 0 {
				v, ok := realGetVal(e, data, offs, tid0+uint32(before+j))
				vals = append(vals, optBytesCoq(v, ok))
				if len(implVals) < 40 {
					implVals = append(implVals, map[string]any{"tid": tid0 + uint32(before+j), "got": bstr(v), "ok": ok, "want_len": len(t)})
				}
			}
			if strings.Contains(t, "\xff") || len(t) >= 255 || len(t) == 0 {
				nontriv = true
			}
			d.w.Count(lenClass(len(t)))
		}
		before += len(g)
	}
	term := fmt.Sprintf("CBlock %s (%d)%%Z %s (%d)%%Z %s [%s]", groupsCoq(groups), tid0, bytesCoq(string(data)), res,
		bytesCoq(string(offs)), strings.Join(vals, "; "))
	d.w.Add(term, class, nontriv, in, map[string]any{"unpack": res, "error": what, "block_len": len(data), "vals": implVals})
	d.w.Count(fmt.Sprintf("block:groups-%d", min(len(groups), 4)))
}

func lenClass(n int) string {
	switch {
	case n == 0:
		return "toklen:0"
	case n < 255:
		return "toklen:1-254"
	case n <= 257:
		return "toklen:255-257"
	case n < 65535:
		return "toklen:258-65534"
	default:
		return "toklen:>=65535"
	}
}

// unpackRawCase: real unpack on arbitrary bytes
func (d *driver) unpackRawCase(class string, data []byte) {
	res, offs, what := realUnpack(data)
	in := map[string]any{"kind": "unpack-raw", "data_hex": hex.EncodeToString(data)}
	if res == 2 {
		// OBSERVATION, not a violation: on corrupted bytes that end 1..3 bytes after a record the real
		// unpack panics (index out of range) where it returns an error elsewhere. The model predicts
		// exactly that (UPanic); corrupted index files are outside C13's quantifier. The Coq side
		// judges it: case_agrees = the model panics too, case_spec_ok = an independent walk reaches a
		// 1..3-byte remainder. A panic anywhere else fails both and is reported with this replay.
		d.w.Count("observation:block-unpack-short-tail")
	}
	d.w.Add(fmt.Sprintf("CUnpackRaw %s (%d)%%Z %s", bytesCoq(string(data)), res, bytesCoq(string(offs))), class,
		len(data) > 4, in, map[string]any{"unpack": res, "what": what, "offsets_hex": hex.EncodeToString(offs)})
	d.w.Count(fmt.Sprintf("unpack-raw:outcome-%s", []string{"ok", "error", "panic"}[res]))
}

// ---------------------------------------------------------------- token material

// blockToken: tokens for block-level classes: empty, short, 0xFF-heavy, lengths around 2^8
func (d *driver) blockToken(big bool) string {
	c := d.r.Intn(12)
	if !d.long && (c == 3 || c == 4) {
		c = 6
	}
	switch c {
	case 0:
		return ""
	case 1:
		return strings.Repeat("\xff", d.r.Range(1, 9))
	case 2:
		return d.randString("a|\xff|\xff\xff\xff\xff|\x00|\x01", 1, 6)
	case 3:
		n := rng.Pick(d.r, []int{254, 255, 256, 257, 258})
		return d.fill(n)
	case 4:
		if big {
			return d.fill(rng.Pick(d.r, []int{65534, 65535, 65536, 65537}))
		}
		return d.fill(d.r.Range(259, 700))
	case 5:
		return string([]byte{byte(d.r.Intn(256)), byte(d.r.Intn(256)), byte(d.r.Intn(256)), byte(d.r.Intn(256))})
	default:
		return d.randString("ab", 1, 6)
	}
}

func (d *driver) fill(n int) string {
	b := make([]byte, n)
	c := byte(d.r.Intn(256))
	for i := range b {
		b[i] = c
		if d.r.Chance(1, 64) {
			c = byte(d.r.Intn(256))
		}
	}
	return string(b)
}

// sortedTokens: n distinct tokens, sorted (a field dictionary)
func (d *driver) sortedTokens(n int, big bool) []string {
	var ss []string
	for len(ss) < n {
		ss = append(ss, d.blockToken(big))
	}
	return uniqSorted(ss)
}

// ---------------------------------------------------------------- provider

type provLayout struct {
	Before  []layoutBlock `json:"before"`
	Entries [][]string    `json:"-"`
	Big     bool          `json:"big"`
	After   []layoutBlock `json:"after"`
}

// providerCase builds a token table through the real writeTokensBlocks (field f split into
// entries, other fields before/after so that blocks hold several fields), takes entries[l:r] of
// f as SelectEntries would, and drives a real Provider with the given TID call sequence
// (tids are offsets into the selected range when rel is set).
func (d *driver) providerCase(class string, lay provLayout, l, r int, tids []uint32, rel bool) {
	var blocks []frac.VerifC13Block
	tid := uint32(1)
	seen := map[string]bool{}
	add := func(field string, toks []string, big bool) {
		size := 0
		if big {
			size = 1 << 20
		}
		blocks = append(blocks, frac.VerifC13Block{Field: field, Start: !seen[field], TotalSize: size, StartTID: tid, Tokens: toBytes(toks)})
		seen[field] = true
		tid += uint32(len(toks))
	}
	for _, b := range lay.Before {
		add(b.Field, b.Tokens, b.Big)
	}
	first := tid
	var flat []string
	for _, e := range lay.Entries {
		add("f", e, lay.Big)
		flat = append(flat, e...)
	}
	for _, b := range lay.After {
		add(b.Field, b.Tokens, b.Big)
	}
	in := map[string]any{"kind": "provider", "before": lay.Before, "entries": bss(lay.Entries), "big": lay.Big, "after": lay.After, "l": l, "r": r}
	table, payloads, err := frac.VerifC13TokenTable(blocks)
	if err != nil {
		d.w.Violate("error:token-table", err.Error(), in)
		return
	}
	sel := table["f"].Entries[l:r]
	eft := first
	for _, e := range lay.Entries[:l] {
		eft += uint32(len(e))
	}
	elt := eft - 1
	for _, e := range lay.Entries[l:r] {
		elt += uint32(len(e))
	}
	if rel {
		abs := make([]uint32, len(tids))
		for i, t := range tids {
			abs[i] = eft + t%(elt-eft+1)
		}
		tids = abs
	}
	in["tids"] = tids
	var calls []string
	var impl []any
	var ft, lt uint32
	var pv any
	func() {
		defer func() { pv = recover() }()
		tp, err := token.VerifC13Provider(sel, payloads)
		if err != nil {
			panic(err)
		}
		ft, lt = tp.FirstTID(), tp.LastTID()
		for _, t := range tids {
			v := append([]byte{}, tp.GetToken(t)...)
			calls = append(calls, fmt.Sprintf("((%d)%%Z, %s)", t, bytesCoq(string(v))))
			if len(impl) < 60 {
				impl = append(impl, map[string]any{"tid": t, "got": bstr(v), "want": bstr(flat[t-first])})
			}
		}
	}()
	if pv != nil {
		d.w.Violate("panic:provider-get-token", fmt.Sprintf("Provider over a contiguous cover panics for a TID in [FirstTID, LastTID]: %v", pv), in)
		return
	}
	es := make([]string, len(sel))
	used := map[uint32]bool{}
	for i, e := range sel {
		es[i] = entryCoq(e)
		used[e.BlockIndex] = true
	}
	var idx []int
	for k := range used {
		idx = append(idx, int(k))
	}
	sort.Ints(idx)
	dk := make([]string, len(idx))
	for i, k := range idx {
		dk[i] = fmt.Sprintf("((%d)%%Z, %s)", k, bytesCoq(string(payloads[uint32(k)])))
	}
	term := fmt.Sprintf("CProvider [%s] [%s] (%d)%%Z %s (%d)%%Z (%d)%%Z (%d)%%Z (%d)%%Z [%s]", strings.Join(es, "; "),
		strings.Join(dk, "; "), first, dictCoq(flat), eft, elt, ft, lt, strings.Join(calls, "; "))
	d.w.Add(term, class, len(sel) > 1 && len(tids) > 2, in, map[string]any{"first_tid": ft, "last_tid": lt, "calls": impl})
	d.w.Count(fmt.Sprintf("provider:entries-%d", min(len(sel), 5)))
	d.w.Count(fmt.Sprintf("provider:physical-blocks-%d", min(len(idx), 3)))
	for _, e := range sel {
		if e.StartIndex > 0 {
			d.w.Count("provider:entry-in-the-middle-of-a-block")
			break
		}
	}
}

// callSeq: TIDs (relative to the selected range of n tokens) that run forward, jump to another
// block and back, and touch every entry boundary
func (d *driver) callSeq(sizes []int, n int) []uint32 {
	var out []uint32
	total := 0
	var bounds []int
	for _, s := range sizes {
		bounds = append(bounds, total, total+s-1)
		total += s
	}
	cur := 0
	for len(out) < n {
		switch d.r.Intn(6) {
		case 0: // forward run
			for k := d.r.Range(1, 4); k > 0; k-- {
				out = append(out, uint32(cur))
				cur = (cur + 1) % total
			}
		case 1: // a boundary
			cur = rng.Pick(d.r, bounds)
			out = append(out, uint32(cur))
		case 2: // jump and come back
			prev := cur
			cur = d.r.Intn(total)
			out = append(out, uint32(cur), uint32(prev))
			cur = prev
		case 3: // same again (fast path hit)
			out = append(out, uint32(cur))
		case 4: // backwards
			cur = (cur + total - 1) % total
			out = append(out, uint32(cur))
		default:
			cur = d.r.Intn(total)
			out = append(out, uint32(cur))
		}
	}
	return out
}

// ---------------------------------------------------------------- active token list

type tlItem struct {
	Tok  string
	FLen int
}

func (t tlItem) MarshalJSON() ([]byte, error) {
	return []byte(fmt.Sprintf(`{"tok_hex":"%s","flen":%d}`, hex.EncodeToString([]byte(t.Tok)), t.FLen)), nil
}

func itemsCoq(items []tlItem) string {
	parts := make([]string, len(items))
	for i, it := range items {
		parts[i] = fmt.Sprintf("(%s, %d)", bytesCoq(it.Tok), it.FLen)
	}
	return "[" + strings.Join(parts, "; ") + "]"
}

const allToken = "_all_:"

// runTokenList appends the batches to a real TokenList; returns the Coq hist (with the arrival
// order of the workers inferred from the TIDs the list assigned) and the final state.
func runTokenList(workers int, batches [][]tlItem) (tl *frac.TokenList, hist []string, hash map[string]int) {
	tl = frac.VerifC13NewTokenList(workers)
	hash = map[string]int{}
	worker := func(tok string) int {
		k := int(frac.VerifC13TokenHash([]byte(tok)) % uint32(workers))
		hash[tok] = k
		return k
	}
	prevLen := 1
	step := func(items []tlItem) {
		vals, fields, _ := frac.VerifC13TokenListState(tl)
		tidField := map[uint32]string{}
		for f, tids := range fields {
			for _, t := range tids {
				tidField[t] = f
			}
		}
		for _, it := range items {
			worker(it.Tok)
		}
		var arrival []int
		seen := map[int]bool{}
		for t := prevLen; t < len(vals); t++ {
			k := worker(tidField[uint32(t)] + ":" + string(vals[t]))
			if !seen[k] {
				seen[k] = true
				arrival = append(arrival, k)
			}
		}
		for k := 0; k < workers; k++ {
			if !seen[k] {
				arrival = append(arrival, k)
			}
		}
		prevLen = len(vals)
		as := make([]string, len(arrival))
		for i, k := range arrival {
			as[i] = fmt.Sprint(k)
		}
		hist = append(hist, fmt.Sprintf("([%s], %s)", strings.Join(as, "; "), itemsCoq(items)))
	}
	step([]tlItem{{allToken, len(allToken) - 1}}) // NewActiveTokenList: initSystemTokens
	for _, b := range batches {
		toks := make([][]byte, len(b))
		fl := make([]int, len(b))
		for i, it := range b {
			toks[i] = []byte(it.Tok)
			fl[i] = it.FLen
		}
		frac.VerifC13Append(tl, toks, fl)
		step(b)
	}
	return tl, hist, hash
}

func hashCoq(hash map[string]int) string {
	var ks []string
	for k := range hash {
		ks = append(ks, k)
	}
	sort.Strings(ks)
	parts := make([]string, len(ks))
	for i, k := range ks {
		parts[i] = fmt.Sprintf("(%s, %d)", bytesCoq(k), hash[k])
	}
	return "[" + strings.Join(parts, "; ") + "]"
}

func (d *driver) activeCase(class string, workers int, batches [][]tlItem) {
	in := map[string]any{"kind": "active", "workers": workers, "batches": batches}
	var term string
	var impl map[string]any
	var pv any
	nfields, ntids := 0, 0
	func() {
		defer func() { pv = recover() }()
		tl, hist, hash := runTokenList(workers, batches)
		defer tl.Stop()
		vals, fields, sizes := frac.VerifC13TokenListState(tl)
		var names []string
		for f := range fields {
			names = append(names, f)
		}
		sort.Strings(names)
		vs := make([]string, len(vals))
		for i, v := range vals {
			vs[i] = string(v)
		}
		var fs, ss, ps []string
		implF := map[string]any{}
		for _, f := range names {
			fs = append(fs, fmt.Sprintf("(%s, %s)", bytesCoq(f), zlist(fields[f])))
			ss = append(ss, fmt.Sprintf("(%s, (%d)%%N)", bytesCoq(f), sizes[f]))
			tp := frac.VerifC13GetActiveProvider(tl, f)
			var toks []string
			for t := uint32(1); t <= tp.LastTID() && int(t) <= len(fields[f])+2; t++ { // bounded: a wrong LastTID must not hang the driver
				v, ok := func() (v []byte, ok bool) {
					defer func() {
						if r := recover(); r != nil {
							ok = false
						}
					}()
					return tp.GetToken(t), true
				}()
				toks = append(toks, optBytesCoq(v, ok))
			}
			ps = append(ps, fmt.Sprintf("(%s, ((%d)%%Z, (%d)%%Z, %s), [%s])", bytesCoq(f), tp.FirstTID(), tp.LastTID(),
				map[bool]string{true: "true", false: "false"}[tp.Ordered()], strings.Join(toks, "; ")))
			implF[f] = fields[f]
			ntids += len(fields[f])
		}
		nfields = len(names)
		term = fmt.Sprintf("CActive %s [%s] %s [%s] [%s] [%s]", hashCoq(hash), strings.Join(hist, "; "), dictCoq(vs),
			strings.Join(fs, "; "), strings.Join(ss, "; "), strings.Join(ps, "; "))
		impl = map[string]any{"tid_to_val": bs(vs), "field_tids": implF}
	}()
	if pv != nil {
		d.w.Violate("panic:token-list", fmt.Sprint(pv), in)
		return
	}
	d.w.Add(term, class, nfields > 2 && len(batches) > 1, in, impl)
	d.w.Count(fmt.Sprintf("active:workers-%d", workers))
	d.w.Count(fmt.Sprintf("active:tids-%d+", ntids/10*10))
}

// randBatches: tokens of a few fields (shared values across fields, empty values, ':' and 0xFF in
// values), duplicate-free inside a batch (what the bulk collector guarantees), repeated across
// batches
func (d *driver) randBatches() [][]tlItem {
	fields := []string{"f", "g", "ab", "k8s", "f2"}[:d.r.Range(1, 5)]
	var pool []tlItem
	for n := d.r.Range(2, 30); n > 0; n-- {
		f := rng.Pick(d.r, fields)
		var v string
		switch d.r.Intn(6) {
		case 0:
			v = ""
		case 1:
			v = d.randString("a|:|b:c|\xff", 1, 4)
		default:
			v = d.randString("ab", 0, 3)
		}
		pool = append(pool, tlItem{f + ":" + v, len(f)})
	}
	var out [][]tlItem
	for nb := d.r.Range(1, 5); nb > 0; nb-- {
		seen := map[string]bool{}
		var b []tlItem
		for k := d.r.Range(0, len(pool)); k > 0; k-- {
			it := rng.Pick(d.r, pool)
			if !seen[it.Tok] {
				seen[it.Tok] = true
				b = append(b, it)
			}
		}
		out = append(out, b)
	}
	return out
}

// ---------------------------------------------------------------- generator + writer

type fieldSpec struct {
	Name   string
	Tokens []string
}

func (f fieldSpec) MarshalJSON() ([]byte, error) {
	return json.Marshal(map[string]any{"name": f.Name, "tokens": bs(f.Tokens)})
}

// writerCase: the fields' tokens are appended to a real TokenList (seed-determined order and
// batches), the real getTokensBlocksGenerator chunks them, the real writeTokensBlocks builds the
// table; then a real Provider over one field's entries is driven (end to end).
func (d *driver) writerCase(class string, fields []fieldSpec, workers int, order uint64) {
	in := map[string]any{"kind": "writer", "fields": fields, "workers": workers, "order": order}
	r := rng.New(order)
	var items []tlItem
	for _, f := range fields {
		for _, t := range f.Tokens {
			items = append(items, tlItem{f.Name + ":" + t, len(f.Name)})
		}
	}
	rng.Shuffle(r, items)
	var batches [][]tlItem
	for len(items) > 0 {
		n := min(len(items), r.Range(1, 1+len(items)))
		batches = append(batches, items[:n])
		items = items[n:]
	}
	var pv any
	var blocks []frac.VerifC13Block
	var table token.Table
	var payloads map[uint32][]byte
	func() {
		defer func() { pv = recover() }()
		tl, _, _ := runTokenList(workers, batches)
		defer tl.Stop()
		var err error
		if blocks, err = frac.VerifC13Generate(tl); err != nil {
			panic(err)
		}
		if table, payloads, err = frac.VerifC13TokenTable(blocks); err != nil {
			panic(err)
		}
	}()
	if pv != nil {
		d.w.Violate("panic:generate-write-token-blocks", fmt.Sprint(pv), in)
		return
	}
	all := append([]fieldSpec{{Name: "_all_", Tokens: []string{""}}}, fields...)
	sort.Slice(all, func(i, j int) bool { return all[i].Name < all[j].Name })
	fs := make([]string, len(all))
	for i, f := range all {
		size := 0
		for _, t := range f.Tokens {
			size += len(t)
		}
		fs[i] = fmt.Sprintf("(%s, (%d)%%N, %s)", bytesCoq(f.Name), size, dictCoq(f.Tokens))
	}
	bl := make([]string, len(blocks))
	tb := make([]string, len(blocks))
	seen := map[string]int{}
	var implE []any
	for i := range blocks {
		b := &blocks[i]
		toks := make([]string, len(b.Tokens))
		for k, t := range b.Tokens {
			toks[k] = string(t)
		}
		bl[i] = fmt.Sprintf("{| d_field := %s; d_start := %s; d_total := (%d)%%N; d_start_tid := (%d)%%Z; d_tokens := %s |}",
			bytesCoq(b.Field), map[bool]string{true: "true", false: "false"}[b.Start], b.TotalSize, b.StartTID, dictCoq(toks))
		e := table[b.Field].Entries[seen[b.Field]]
		seen[b.Field]++
		tb[i] = fmt.Sprintf("(%s, %s)", bytesCoq(b.Field), entryCoq(e))
		if len(implE) < 40 {
			implE = append(implE, map[string]any{"field": b.Field, "start_tid": e.StartTID, "start_index": e.StartIndex,
				"val_count": e.ValCount, "block_index": e.BlockIndex, "block_start_tid": b.StartTID, "block_tokens": len(b.Tokens)})
		}
	}
	var idx []int
	for k := range payloads {
		idx = append(idx, int(k))
	}
	sort.Ints(idx)
	b0 := 0
	if len(idx) > 0 {
		b0 = idx[0]
	}
	dk := make([]string, len(idx))
	for i, k := range idx {
		dk[i] = bytesCoq(string(payloads[uint32(k)]))
	}
	// the real sealed lookup over this table for one field: SelectEntries, Provider, Search
	qfs := fields[r.Intn(len(fields))]
	var qparts []string
	var implQ []any
	for k := 0; k < 6; k++ {
		base := rng.Pick(r, qfs.Tokens)
		if len(base) > 40 {
			base = base[:r.Range(0, 40)]
		}
		base = strings.ReplaceAll(base, "*", "a")
		var q query
		switch r.Intn(4) {
		case 0:
			q = query{Pattern: base}
		case 1:
			q = query{Pattern: base[:r.Intn(len(base)+1)] + "*"}
		case 2:
			q = query{Pattern: "*" + base[r.Intn(len(base)+1):]}
		default:
			q = query{Pattern: "*"}
		}
		tids, p := func() (tids []uint32, p *panicInfo) {
			defer func() {
				if rec := recover(); rec != nil {
					p = &panicInfo{rec}
				}
			}()
			t := q.token(qfs.Name)
			sel := table.SelectEntries(parser.GetField(t), parser.GetHint(t))
			if len(sel) == 0 {
				return []uint32{}, nil
			}
			tp, err := token.VerifC13Provider(sel, payloads)
			if err != nil {
				panic(err)
			}
			tids, err = pattern.Search(context.Background(), t, tp)
			if err != nil {
				panic(err)
			}
			return tids, nil
		}()
		if p != nil {
			in["query"] = bstr(q.String())
			d.w.Violate("panic:sealed-search", fmt.Sprintf("SelectEntries/Provider/Search panics: %v", p.v), in)
			return
		}
		qparts = append(qparts, fmt.Sprintf("(%s, %s)", q.coq(), zlist(tids)))
		implQ = append(implQ, map[string]any{"field": qfs.Name, "q": bstr(q.String()), "tids": tids})
	}
	term := fmt.Sprintf("CWriter [%s] (%d)%%Z [%s] [%s] [%s] %s [%s]", strings.Join(fs, "; "), b0, strings.Join(bl, "; "),
		strings.Join(tb, "; "), strings.Join(dk, "; "), bytesCoq(qfs.Name), strings.Join(qparts, "; "))
	d.w.Add(term, class, len(blocks) > len(all) || len(idx) > 1, in, map[string]any{"entries": implE, "physical_blocks": len(idx), "queries": implQ})
	d.w.Count(fmt.Sprintf("writer:physical-blocks-%d", min(len(idx), 3)))
	d.w.Count(fmt.Sprintf("writer:blocks-per-field-max-%d", min(maxPerField(seen), 4)))
}

func maxPerField(m map[string]int) int {
	out := 0
	for _, v := range m {
		out = max(out, v)
	}
	return out
}

// ---------------------------------------------------------------- streams

func (d *driver) blockStreams(thorough bool) {
	nB, nU, nP, nA, nW, nHeavy := 120, 150, 90, 60, 16, 2
	if thorough {
		nB, nU, nP, nA, nW, nHeavy = 1200, 2000, 900, 600, 120, 12
	}
	// fixed boundary shapes
	d.blockCase("block-boundary", [][]string{{""}}, 1)
	d.blockCase("block-boundary", [][]string{{"", "a"}, {"b"}}, 7)
	d.blockCase("block-boundary", [][]string{{"\xff\xff\xff\xff"}, {"\xff\xff\xff\xff\xff\xff\xff\xff", "\xff\xff\xff\xffa"}}, 1)
	d.blockCase("block-boundary", [][]string{{d.fill(255)}, {d.fill(256), d.fill(257)}}, 3)
	d.blockCase("block-boundary", [][]string{{"a"}, {}, {"b"}}, 1)
	if thorough {
		d.blockCase("block-boundary-64k", [][]string{{"x", d.fill(65535)}}, 1)
		d.blockCase("block-boundary-64k", [][]string{{"x"}, {d.fill(65536), "y"}}, 5)
		d.blockCase("block-boundary-64k", [][]string{{d.fill(65537)}}, 1)
	}
	for i := 0; i < nB; i++ {
		d.long = i%6 == 0
		var groups [][]string
		for g := d.r.Range(1, 4); g > 0; g-- {
			groups = append(groups, d.sortedTokens(d.r.Range(1, 6), false))
		}
		d.blockCase("rand-block", groups, uint32(d.r.Range(1, 100000)))
	}
	// malformed / truncated
	d.unpackRawCase("unpack-malformed", nil)
	d.unpackRawCase("unpack-malformed", []byte{0xff, 0xff, 0xff, 0xff})
	d.unpackRawCase("unpack-malformed", []byte{5, 0, 0, 0, 'a'})
	d.unpackRawCase("unpack-malformed", []byte{0xfe, 0xff, 0xff, 0xff, 'a'})
	for i := 0; i < nU; i++ {
		d.long = i%8 == 0
		var groups [][]string
		for g := d.r.Range(1, 3); g > 0; g-- {
			groups = append(groups, d.sortedTokens(d.r.Range(1, 4), false))
		}
		data := packGroups(groups)
		switch d.r.Intn(6) {
		case 0: // truncated anywhere
			data = data[:d.r.Intn(len(data)+1)]
		case 1: // truncated on a 4-byte grid position of the walk: cut the tail by 4k bytes
			data = data[:max(0, len(data)-4*d.r.Range(1, 3))]
		case 2: // a corrupted byte
			data[d.r.Intn(len(data))] ^= byte(1 << d.r.Intn(8))
		case 3: // garbage appended
			for k := d.r.Range(1, 9); k > 0; k-- {
				data = append(data, byte(d.r.Intn(256)))
			}
		case 4: // random bytes
			data = make([]byte, d.r.Range(0, 24))
			for k := range data {
				data[k] = byte(d.r.Intn(4) * 85)
			}
		default: // a length field enlarged
			if len(data) >= 8 {
				data[0] += byte(d.r.Range(1, 200))
			}
		}
		d.unpackRawCase("unpack-malformed", data)
	}
	// providers
	for i := 0; i < nP; i++ {
		d.long = i%10 == 0
		toks := d.sortedTokens(d.r.Range(2, 24), false)
		lay := provLayout{Entries: d.randSplit(toks), Big: d.r.Chance(1, 3)}
		if d.r.Chance(2, 3) {
			lay.Before = append(lay.Before, layoutBlock{Field: "a", Tokens: d.sortedTokens(d.r.Range(1, 4), false), Big: d.r.Chance(1, 4)})
			if d.r.Bool() {
				lay.Before = append(lay.Before, layoutBlock{Field: "b", Tokens: d.sortedTokens(d.r.Range(1, 3), false)})
			}
		}
		if d.r.Bool() {
			lay.After = append(lay.After, layoutBlock{Field: "g", Tokens: d.sortedTokens(d.r.Range(1, 4), false), Big: d.r.Chance(1, 4)})
		}
		if i%(nP/nHeavy) == 1 { // entries larger than a physical block: several physical blocks for the field
			var big []string
			for k := 0; k < 7; k++ {
				big = append(big, fmt.Sprintf("%02d", k)+d.fill(d.r.Range(2600, 3400)))
			}
			lay.Entries = d.randSplit(uniqSorted(big))
		}
		l := d.r.Intn(len(lay.Entries))
		r := d.r.Range(l+1, len(lay.Entries))
		if d.r.Bool() {
			l, r = 0, len(lay.Entries)
		}
		var sizes []int
		for _, e := range lay.Entries[l:r] {
			sizes = append(sizes, len(e))
		}
		d.providerCase("rand-provider", lay, l, r, d.callSeq(sizes, d.r.Range(4, 30)), true)
	}
	d.long = false
	// active token list
	for i := 0; i < nA; i++ {
		d.activeCase("rand-active", d.r.Range(1, 4), d.randBatches())
	}
	// token list -> generator -> writer
	for i := 0; i < nW; i++ {
		var fields []fieldSpec
		names := []string{"f", "g", "h", "k", "m"}[:d.r.Range(1, 5)]
		// heavy cases: one field larger than a regular block (chunked by the generator, flushed by the
		// writer). The first has the big field FIRST with an odd token count (last chunk shorter than
		// blockSize, fields following it in the next physical block), the others have it anywhere.
		heavy := i < 2*nHeavy
		hf := d.r.Intn(len(names))
		if heavy && i%2 == 0 {
			names = []string{"f", "g", "h", "k", "m"}[:d.r.Range(2, 4)]
			hf = 0
		}
		for fi, n := range names {
			var toks []string
			c := d.r.Range(1, 7)
			if heavy && fi == hf {
				c = 0
			}
			switch c {
			case 0: // more than a regular block: the field is chunked and forces a new physical block
				cnt := d.r.Range(9, 12)
				if i%2 == 0 {
					cnt = rng.Pick(d.r, []int{9, 11})
				}
				for k := 0; k < cnt; k++ {
					toks = append(toks, fmt.Sprintf("%02d", k)+d.fill(d.r.Range(1900, 2200)))
				}
				toks = uniqSorted(toks)
			case 1:
				toks = d.sortedTokens(1, false)
			default:
				toks = d.sortedTokens(d.r.Range(1, 12), false)
			}
			fields = append(fields, fieldSpec{Name: n, Tokens: toks})
		}
		d.writerCase("rand-writer", fields, d.r.Range(1, 3), d.r.U64()>>12)
	}
}

// replayBlocks handles the replay kinds of this file
func (d *driver) replayBlocks(in map[string]any) bool {
	groupsOf := func(v any) [][]string {
		var out [][]string
		if l, ok := v.([]any); ok {
			for _, e := range l {
				out = append(out, unbs(e))
			}
		}
		return out
	}
	switch in["kind"] {
	case "block":
		d.blockCase("replay", groupsOf(in["groups"]), uint32(in["tid0"].(float64)))
	case "unpack-raw":
		b, _ := hex.DecodeString(in["data_hex"].(string))
		d.unpackRawCase("replay", b)
	case "provider":
		big, _ := in["big"].(bool)
		lay := provLayout{Before: layoutBlocks(in["before"]), Entries: groupsOf(in["entries"]), Big: big, After: layoutBlocks(in["after"])}
		var tids []uint32
		if l, ok := in["tids"].([]any); ok {
			for _, t := range l {
				tids = append(tids, uint32(t.(float64)))
			}
		}
		d.providerCase("replay", lay, int(in["l"].(float64)), int(in["r"].(float64)), tids, false)
	case "active":
		var batches [][]tlItem
		if l, ok := in["batches"].([]any); ok {
			for _, b := range l {
				var items []tlItem
				if bl, ok := b.([]any); ok {
					for _, it := range bl {
						m := it.(map[string]any)
						tok, _ := hex.DecodeString(m["tok_hex"].(string))
						items = append(items, tlItem{string(tok), int(m["flen"].(float64))})
					}
				}
				batches = append(batches, items)
			}
		}
		d.activeCase("replay", int(in["workers"].(float64)), batches)
	case "writer":
		var fields []fieldSpec
		if l, ok := in["fields"].([]any); ok {
			for _, f := range l {
				m := f.(map[string]any)
				fields = append(fields, fieldSpec{Name: m["name"].(string), Tokens: unbs(m["tokens"])})
			}
		}
		d.writerCase("replay", fields, int(in["workers"].(float64)), uint64(in["order"].(float64)))
	default:
		return false
	}
	return true
}
