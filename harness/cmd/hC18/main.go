// hC18 — correspondence driver for property C18 (the block cache is coherent, accounted and
// bounded). Drives the REAL cache package (cache.Cache / cache.Cleaner) with goroutines whose
// loader callbacks block on channels, so that the harness decides when a creator finishes its
// load while other goroutines run getOrCreate/wait, Cleanup, Rotate, Release ... in between.
// Every event is executed to a stable point (goroutine returned / parked in its loader /
// blocked in wg.Wait, detected through the WaitsTotal metric / parked inside
// Metrics.ReattemptsTotal.Inc(), i.e. between a waiter's wake-up after a failed load and its
// re-lock in getOrCreate), then the package state is observed; the event list and the
// observations become one Coq case (props/C18/coq/CaseDefs.v).
package main

import (
	"encoding/binary"
	"encoding/json"
	"errors"
	"flag"
	"fmt"
	"os"
	"runtime"
	"strconv"
	"strings"
	"sync/atomic"
	"time"

	"github.com/prometheus/client_golang/prometheus"
	dto "github.com/prometheus/client_model/go"

	"github.com/ozontech/seq-db/cache"
	"github.com/ozontech/seq-db/verifhook"

	"verif/harness/internal/casefile"
	"verif/harness/internal/rng"
)

const (
	kVal   = 0
	kErr   = 1
	kPanic = 2
)

// Evt is one harness event (JSON form = replay form).
type Evt struct {
	Op     string `json:"op"` // call resume resumesave resumepark relock add new release rotate cleanup gcgens relbuckets
	C      int    `json:"c,omitempty"`
	K      int    `json:"k,omitempty"`
	T      int    `json:"t,omitempty"`
	Kind   int    `json:"kind,omitempty"` // loader outcome of a call
	V      int64  `json:"v,omitempty"`
	Sz     int64  `json:"sz,omitempty"`
	ErrAPI bool   `json:"errapi,omitempty"` // GetWithError instead of Get
	N      int    `json:"n,omitempty"`      // fill: number of keys K, K+1, ... (values V, V+1, ...)
	Hits   bool   `json:"hits,omitempty"`   // fill: the keys are all cached already (no loader runs)
}

func (e Evt) coq() string {
	switch e.Op {
	case "call":
		o := "OErr"
		switch e.Kind {
		case kVal:
			o = fmt.Sprintf("(OVal %d %d)%%Z", e.V, e.Sz)
		case kPanic:
			o = "OPanic"
		}
		return fmt.Sprintf("ECall %d %d %s", e.C, e.K, o)
	case "resume":
		return fmt.Sprintf("EResume %d", e.T)
	case "fill":
		return fmt.Sprintf("EFill %s %d %d %d (%d)%%Z (%d)%%Z", casefile.Bool(!e.Hits), e.C, e.K, e.N, e.V, e.Sz)
	case "resumesave":
		return fmt.Sprintf("EResumeSave %d", e.T)
	case "add":
		return fmt.Sprintf("EAdd %d", e.T)
	case "cleanmark":
		return "ECleanMark"
	case "cleansweeps":
		return "ECleanSweeps"
	case "resumepark":
		return fmt.Sprintf("EResumePark %d", e.T)
	case "relock":
		return fmt.Sprintf("ERelock %d", e.T)
	case "new":
		return "ENew"
	case "release":
		return fmt.Sprintf("ERelease %d", e.C)
	case "rotate":
		return "ERotate"
	case "cleanup":
		return "ECleanup"
	case "gcgens":
		return "EGcGens"
	case "rotate_new":
		return "ERotateNew"
	case "cleanup_new":
		return "ECleanupNew"
	case "relbuckets_new":
		return "ERelBucketsNew"
	default:
		return "ERelBuckets"
	}
}

type res struct {
	kind int // 0 value, 1 own error, 2 own panic, 3 foreign panic, 4 foreign error
	val  int64
	note string
}

type thr struct {
	c, k    int
	kind    int
	status  int // -1 running, 0/1/2/3/4 returned, 10 in loader, 11 waiting, 12 parked at the schedule point after save's unlock,
	// 13 a waiter whose awaited loader failed, parked inside reportReattempt (after wg.Wait() returned and e.wg != nil
	// was seen, before getOrCreate re-takes Cache.mu and re-examines payload[key])
	atHook  chan struct{}
	hookGo  chan struct{}
	atRetry chan struct{}
	retryGo chan struct{}
	goid    atomic.Int64
	val     int64
	enter   chan struct{}
	resume  chan struct{}
	done    chan res
	waitsOn int
	epoch   int
}

type world struct {
	lim     uint64
	cl      *cache.Cleaner
	met     *cache.Metrics
	caches  []*cache.VerifHookedCache[[]byte]
	onScan  func() // called from every Released() of ReleaseBuckets' unlocked scan
	onSet   func() // called from every SetGeneration() of an armed cache (the loop of Cleaner.rotate)
	armed   []bool // cache i is registered: its SetGeneration calls come from rotations, not from its own AddBucket
	rel     []bool
	ids     map[any]int
	thr     []*thr
	latest  map[[2]int]int
	epoch   int
	dirty   map[[2]int]int // (c,k) -> failing creator parked while a cleanup ran
	evs     []Evt
	obs     []string
	obsJSON []map[string]any
	dead    string // non-empty: the real code hung / misbehaved, stop driving
	esz     uint64
	feat    map[string]bool // schedule features, for the evidence distribution
	lastRec int64
	// parkRetry: waiters that learn that their awaited loader failed are parked inside Metrics.ReattemptsTotal.Inc(),
	// which getOrCreate calls (reportReattempt) outside of the lock right before `c.mu.Lock(); e, ok = c.payload[key]`
	parkRetry atomic.Bool
	// szOf: (cache, key, value) -> the size the loader that produces this value reports
	szOf map[[3]int64]int64
	// a cleaning pass parked between markStale and its sweeps: the cleaner's goroutine sits inside
	// CleanerMetrics.Oldest.Set(), which markStale calls (OldestSet) after the generations were marked stale
	cleanPark atomic.Bool
	atMark    chan struct{}
	markGo    chan struct{}
	cleanDone chan bool
	cleanStat *cache.CleanStat
	cleanSnap []int
	inPass    bool
	markObs   int
}

// hookGauge is a prometheus gauge that runs a callback on Set.
type hookGauge struct {
	prometheus.Gauge
	onSet func()
}

func (g *hookGauge) Set(v float64) {
	g.Gauge.Set(v)
	if g.onSet != nil {
		g.onSet()
	}
}

// onOldestSet runs in the goroutine that called Cleaner.Cleanup, at the end of markStale.
func (w *world) onOldestSet() {
	if w.cleanPark.Swap(false) {
		w.atMark <- struct{}{}
		<-w.markGo
	}
}

// hookCounter is a prometheus counter that runs a callback on Inc (no source hook needed: the cache reports
// "reattempts" exactly between a waiter's wake-up after a failed load and its re-lock).
type hookCounter struct {
	prometheus.Counter
	onInc func()
}

func (h *hookCounter) Inc() {
	if h.onInc != nil {
		h.onInc()
	}
	h.Counter.Inc()
}

// goid: the id of the calling goroutine ("goroutine 123 [running]: ...")
func goid() int64 {
	var buf [64]byte
	n := runtime.Stack(buf[:], false)
	f := strings.Fields(string(buf[:n]))
	if len(f) < 2 {
		return -1
	}
	id, err := strconv.ParseInt(f[1], 10, 64)
	if err != nil {
		return -1
	}
	return id
}

// onReattempt runs in the goroutine of a waiter, inside getOrCreate, after reportReattempt was reached.
func (w *world) onReattempt() {
	if !w.parkRetry.Load() {
		return
	}
	g := goid()
	for _, t := range w.thr {
		if t.goid.Load() == g {
			t.atRetry <- struct{}{}
			<-t.retryGo
			return
		}
	}
}

// hookPark: the goroutine that is to be parked at verifhook.At("cache.save.after-unlock") (the
// schedule point between save's unlock and its gen.size.Add); nil = nobody parks.
var hookPark atomic.Pointer[thr]

func installHook() {
	verifhook.Set(func(name string) {
		if name != "cache.save.after-unlock" {
			return
		}
		if t := hookPark.Swap(nil); t != nil {
			t.atHook <- struct{}{}
			<-t.hookGo
		}
	})
}

func newCounter() prometheus.Counter { return prometheus.NewCounter(prometheus.CounterOpts{Name: "x"}) }

func newWorld(lim uint64) *world {
	re := &hookCounter{Counter: newCounter()}
	m := &cache.Metrics{HitsTotal: newCounter(), MissTotal: newCounter(), PanicsTotal: newCounter(),
		LockWaitsTotal: newCounter(), WaitsTotal: newCounter(), ReattemptsTotal: re,
		SizeRead: newCounter(), SizeOccupied: newCounter(), SizeReleased: newCounter(),
		MapsRecreated: newCounter(), MissLatency: newCounter()}
	og := &hookGauge{Gauge: prometheus.NewGauge(prometheus.GaugeOpts{Name: "oldest"})}
	cm := &cache.CleanerMetrics{Oldest: og, AddBuckets: newCounter(), DelBuckets: newCounter(),
		CleanGenerations: newCounter(), ChangeGenerations: newCounter()}
	w := &world{lim: lim, cl: cache.NewCleaner(lim, cm), met: m, ids: map[any]int{},
		latest: map[[2]int]int{}, dirty: map[[2]int]int{}, feat: map[string]bool{}, szOf: map[[3]int64]int64{},
		atMark: make(chan struct{}), markGo: make(chan struct{})}
	re.onInc = w.onReattempt
	og.onSet = w.onOldestSet
	return w
}

func (w *world) waits() float64 {
	var m dto.Metric
	if err := w.met.WaitsTotal.Write(&m); err != nil {
		panic(err)
	}
	return m.GetCounter().GetValue()
}

// recreated: metric MapsRecreated (payload maps rebuilt by Cache.Cleanup so far)
func (w *world) recreated() int64 {
	var m dto.Metric
	if err := w.met.MapsRecreated.Write(&m); err != nil {
		panic(err)
	}
	return int64(m.GetCounter().GetValue())
}

func enc(v int64) []byte {
	b := make([]byte, 8)
	binary.LittleEndian.PutUint64(b, uint64(v))
	return b
}

func dec(b []byte) int64 {
	if len(b) != 8 {
		return -1 // nil or half-built value
	}
	return int64(binary.LittleEndian.Uint64(b))
}

const settleTimeout = 20 * time.Second

// settle waits until goroutine id returned, entered its loader, blocked in wg.Wait, or (only while parkRetry is set)
// was parked between its wake-up after a failed load and its re-lock.
func (w *world) settle(id int, w0 float64) {
	t := w.thr[id]
	deadline := time.Now().Add(settleTimeout)
	for n := 0; ; n++ {
		select {
		case <-t.enter:
			t.status = 10
			t.epoch = w.epoch
			w.latest[[2]int{t.c, t.k}] = id
			return
		case r := <-t.done:
			t.status, t.val = r.kind, r.val
			return
		case <-t.atRetry:
			t.status = 13
			w.feat["sched:waiter-parked-between-wakeup-and-relock"] = true
			return
		default:
		}
		if w.waits() > w0 {
			t.status = 11
			t.waitsOn = w.latest[[2]int{t.c, t.k}]
			w.feat["sched:waiter-behind-creator"] = true
			return
		}
		runtime.Gosched()
		if n%1024 == 1023 && time.Now().After(deadline) {
			w.dead = fmt.Sprintf("goroutine %d neither returned nor parked within %v", id, settleTimeout)
			return
		}
	}
}

func (w *world) call(e Evt) {
	id := len(w.thr)
	t := &thr{c: e.C, k: e.K, kind: e.Kind, status: -1, enter: make(chan struct{}), resume: make(chan struct{}),
		done: make(chan res, 1), atHook: make(chan struct{}), hookGo: make(chan struct{}),
		atRetry: make(chan struct{}), retryGo: make(chan struct{})}
	t.goid.Store(-2)
	if e.Kind == kVal {
		w.szOf[[3]int64{int64(e.C), int64(e.K), e.V}] = e.Sz
	}
	for _, x := range w.thr {
		if x.status == 13 && x.c == e.C && x.k == e.K {
			w.feat["sched:another-caller-of-the-key-inside-the-retry-window"] = true
		}
	}
	w.thr = append(w.thr, t)
	c := w.caches[e.C]
	myErr := errors.New("loader error")
	myPanic := &struct{ id int }{id}
	w0 := w.waits()
	go func() {
		t.goid.Store(goid())
		defer func() {
			if r := recover(); r != nil {
				if r == any(myPanic) {
					t.done <- res{kind: 2}
				} else {
					t.done <- res{kind: 3, note: fmt.Sprint(r)}
				}
			}
		}()
		load := func() ([]byte, int, error) {
			t.enter <- struct{}{}
			<-t.resume
			switch e.Kind {
			case kVal:
				return enc(e.V), int(e.Sz), nil
			case kErr:
				return nil, 0, myErr
			}
			panic(myPanic)
		}
		if e.ErrAPI || e.Kind == kErr {
			v, err := c.GetWithError(uint32(e.K), load)
			if err != nil {
				if err == myErr {
					t.done <- res{kind: 1}
				} else {
					t.done <- res{kind: 4, note: err.Error()}
				}
				return
			}
			t.done <- res{kind: 0, val: dec(v)}
			return
		}
		v := c.Get(uint32(e.K), func() ([]byte, int) { b, n, _ := load(); return b, n })
		t.done <- res{kind: 0, val: dec(v)}
	}()
	w.settle(id, w0)
}

// resume lets the loader of creator id return. toHook: the (successful) creator is parked at the schedule point after
// save's unlock. park: the waiters of its entry that find the load failed are parked before they re-take the lock
// (status 13) instead of running on into their retry.
func (w *world) resume(id int, toHook, park bool) {
	t := w.thr[id]
	if t.status != 10 || (toHook && t.kind != kVal) {
		w.dead = fmt.Sprintf("resume of goroutine %d which is not in its loader", id)
		return
	}
	var wakers []int
	for i, x := range w.thr {
		if x.status == 11 && x.waitsOn == id && x.c == t.c && x.k == t.k {
			wakers = append(wakers, i)
		}
	}
	if len(wakers) > 0 && t.kind != kVal {
		w.feat["sched:waiter-reattempts-after-failed-creator"] = true
		if len(wakers) > 1 {
			w.feat["sched:several-waiters-behind-failed-creator"] = true
		}
	}
	w0 := w.waits()
	if toHook {
		hookPark.Store(t)
	}
	if park {
		w.parkRetry.Store(true)
		defer w.parkRetry.Store(false)
	}
	t.resume <- struct{}{}
	select {
	case r := <-t.done:
		t.status, t.val = r.kind, r.val
		if toHook {
			hookPark.Store(nil)
			w.dead = fmt.Sprintf("goroutine %d returned without passing the schedule point in save", id)
			return
		}
	case <-t.atHook:
		t.status = 12
		w.feat["sched:saver-parked-between-unlock-and-add"] = true
	case <-time.After(settleTimeout):
		w.dead = fmt.Sprintf("goroutine %d did not return after its loader finished", id)
		return
	}
	delete(w.dirty, [2]int{t.c, t.k})
	// the waiters of t's entry wake up: each returns (hit) or re-enters getOrCreate
	for _, i := range wakers {
		w.thr[i].status = -1
	}
	for _, i := range wakers {
		w.settle(i, w0)
		if w.dead != "" {
			return
		}
		w0 = w.waits()
	}
}

func (w *world) do(e Evt) {
	if w.dead != "" {
		return
	}
	var ret []int64
	switch e.Op {
	case "call":
		w.call(e)
	case "resume":
		w.resume(e.T, false, false)
	case "resumepark":
		w.resume(e.T, false, true)
	case "relock":
		t := w.thr[e.T]
		if t.status != 13 {
			w.dead = fmt.Sprintf("relock of goroutine %d which is not parked before its retry", e.T)
			return
		}
		w0 := w.waits()
		t.status = -1
		t.retryGo <- struct{}{}
		w.settle(e.T, w0)
		switch {
		case w.dead != "":
		case t.status == 10:
			w.feat["sched:retry-creates-a-new-entry"] = true
		case t.status == 11:
			w.feat["sched:retry-waits-for-a-later-creator"] = true
		case t.status == 0:
			w.feat["sched:retry-served-from-a-later-creators-entry"] = true
		}
	case "fill":
		// N sequential Gets, all of fresh keys (each loader runs at once) or all of cached keys (no loader runs);
		// no goroutines, no parking
		c := w.caches[e.C]
		for i := 0; i < e.N; i++ {
			if !e.Hits {
				w.szOf[[3]int64{int64(e.C), int64(e.K + i), e.V + int64(i)}] = e.Sz
			}
			ran := false
			v := c.Get(uint32(e.K+i), func() ([]byte, int) { ran = true; return enc(e.V + int64(i)), int(e.Sz) })
			if ran == e.Hits {
				w.dead = fmt.Sprintf("fill: key %d: loader ran = %v, expected %v", e.K+i, ran, !e.Hits)
				return
			}
			w.thr = append(w.thr, &thr{c: e.C, k: e.K + i, kind: kVal, status: 0, val: dec(v)})
		}
	case "resumesave":
		w.resume(e.T, true, false)
	case "add":
		t := w.thr[e.T]
		if t.status != 12 {
			w.dead = fmt.Sprintf("add of goroutine %d which is not parked in save", e.T)
			return
		}
		t.hookGo <- struct{}{}
		select {
		case r := <-t.done:
			t.status, t.val = r.kind, r.val
		case <-time.After(settleTimeout):
			w.dead = fmt.Sprintf("goroutine %d did not return after its Add", e.T)
			return
		}
	case "new":
		w.newCache()
	case "release":
		w.caches[e.C].Release()
		w.rel[e.C] = true
	case "rotate", "rotate_new":
		var b bool
		var sz uint64
		if e.Op == "rotate_new" {
			if !w.withNewCacheInRotation(e.T, func() { b, sz = w.cl.Rotate() }) {
				e.Op, e.T = "rotate", 0 // no rotation happened: a plain Rotate
			}
		} else {
			b, sz = w.cl.Rotate()
		}
		ret = []int64{b2i(b), int64(sz)}
		if b {
			w.epoch++
		}
	case "cleanup", "cleanup_new":
		st := &cache.CleanStat{}
		var started bool
		if e.Op == "cleanup_new" {
			if !w.withNewCacheInRotation(e.T, func() { started = w.cl.Cleanup(st) }) {
				e.Op, e.T = "cleanup", 0 // markStale did not rotate: a plain Cleanup
			}
		} else {
			started = w.cl.Cleanup(st)
		}
		if started {
			ret = []int64{1, int64(st.TotalSize), int64(st.SizeToClean), int64(st.GensCleaned), int64(st.BytesReleased), int64(st.BucketsCleaned), w.recreated()}
			if n := w.recreated(); n > w.lastRec {
				w.lastRec = n
				w.feat["sched:payload-map-rebuilt"] = true
				for _, t := range w.thr {
					if t.status == 10 {
						w.feat["sched:payload-map-rebuilt-while-creator-in-loader"] = true
					}
				}
			}
			w.epoch++
			for i, t := range w.thr {
				if t.status == 10 {
					w.feat["sched:cleaning-pass-while-creator-in-loader"] = true
				}
				if t.status == 10 && t.kind != kVal {
					w.dirty[[2]int{t.c, t.k}] = i
				}
			}
		} else {
			ret = []int64{0}
		}
	case "cleanmark":
		// Cleaner.Cleanup in its own goroutine, parked at the end of markStale (generations marked stale, no cache swept yet)
		if w.inPass {
			w.dead = "cleanmark inside a cleaning pass"
			return
		}
		st := &cache.CleanStat{}
		w.cleanStat, w.cleanDone, w.cleanSnap = st, make(chan bool, 1), w.bucketIDs()
		w.cleanPark.Store(true)
		done := w.cleanDone
		go func() { done <- w.cl.Cleanup(st) }()
		select {
		case <-w.atMark:
			w.inPass, w.markObs = true, len(w.obs)
			ret = []int64{1}
			w.feat["sched:cleaner-parked-between-markstale-and-sweeps"] = true
			w.epoch++
			for _, t := range w.thr {
				if t.status == 10 {
					w.feat["sched:creator-in-loader-when-generations-marked-stale"] = true
				}
			}
		case started := <-w.cleanDone:
			w.cleanPark.Store(false)
			if started {
				w.dead = "Cleaner.Cleanup ran without passing OldestSet at the end of markStale"
				return
			}
			ret = []int64{0}
		case <-time.After(settleTimeout):
			w.dead = "Cleaner.Cleanup neither returned nor reached the end of markStale"
			return
		}
	case "cleansweeps":
		if !w.inPass {
			w.dead = "cleansweeps without a parked cleaning pass"
			return
		}
		if fmt.Sprint(w.bucketIDs()) != fmt.Sprint(w.cleanSnap) {
			w.dead = "the bucket list changed inside the window of a parked cleaning pass"
			return
		}
		w.markGo <- struct{}{}
		select {
		case <-w.cleanDone:
		case <-time.After(settleTimeout):
			w.dead = "the parked cleaning pass did not finish"
			return
		}
		w.inPass = false
		st := w.cleanStat
		// the numbers of the first half are known only now: patch the observation of the cleanmark event
		first := []int64{1, int64(st.TotalSize), int64(st.SizeToClean), int64(st.GensCleaned)}
		w.obs[w.markObs] = strings.Replace(w.obs[w.markObs], "mkObs "+zlist([]int64{1}), "mkObs "+zlist(first), 1)
		w.obsJSON[w.markObs]["ret"] = first
		ret = []int64{int64(st.BytesReleased), int64(st.BucketsCleaned), w.recreated()}
		if n := w.recreated(); n > w.lastRec {
			w.lastRec = n
			w.feat["sched:payload-map-rebuilt"] = true
		}
	case "gcgens":
		ret = []int64{int64(w.cl.CleanEmptyGenerations())}
		if ret[0] > 0 && !w.gcSafe() {
			w.feat["sched:generations-dropped-while-older-creator-in-loader"] = true
		}
	case "relbuckets":
		ret = []int64{int64(w.cl.ReleaseBuckets())}
	case "relbuckets_new":
		// a NewCache (AddBucket) lands inside ReleaseBuckets, between its unlocked Released() scan and its
		// locked removal: it is created from the e.T-th Released() call of the scan
		if len(w.cl.VerifBuckets()) == 0 {
			w.dead = "relbuckets_new needs at least one bucket"
			return
		}
		n, fired, pos := 0, false, e.T%len(w.cl.VerifBuckets())
		w.onScan = func() {
			if n == pos && !fired {
				fired = true
				w.newCache()
			}
			n++
		}
		ret = []int64{int64(w.cl.ReleaseBuckets())}
		w.onScan = nil
		if !fired {
			w.dead = "relbuckets_new: the scan never called Released()"
			return
		}
		w.feat["sched:new-cache-inside-releasebuckets"] = true
	default:
		panic("unknown op " + e.Op)
	}
	if w.dead != "" {
		return
	}
	w.evs = append(w.evs, e)
	w.observe(ret)
}

// makeCache runs NewCache -> AddBucket on the real cleaner (possibly from another goroutine); the cache's
// SetGeneration callback stays off until register() has armed it.
func (w *world) makeCache(id int) *cache.VerifHookedCache[[]byte] {
	return cache.VerifNewHookedCache[[]byte](w.cl, w.met, func() {
		if w.onScan != nil {
			w.onScan()
		}
	}, func() {
		if id < len(w.armed) && w.armed[id] && w.onSet != nil {
			w.onSet()
		}
	})
}

func (w *world) register(c *cache.VerifHookedCache[[]byte]) {
	w.ids[any(c)] = len(w.caches)
	w.caches = append(w.caches, c)
	w.rel = append(w.rel, false)
	w.armed = append(w.armed, true)
	w.esz = c.VerifEntrySize()
}

func (w *world) newCache() { w.register(w.makeCache(len(w.caches))) }

// blockedInAddBucket: some goroutine is parked on the cleaner's mutex inside Cleaner.AddBucket.
func blockedInAddBucket() bool {
	buf := make([]byte, 1<<20)
	buf = buf[:runtime.Stack(buf, true)]
	for _, g := range strings.Split(string(buf), "\n\n") {
		if !strings.Contains(g, "(*Cleaner).AddBucket") {
			continue
		}
		head := g
		if i := strings.IndexByte(g, '\n'); i >= 0 {
			head = g[:i]
		}
		if strings.Contains(head, "sync.Mutex.Lock") || strings.Contains(head, "semacquire") {
			return true
		}
	}
	return false
}

// withNewCacheInRotation runs f (Cleaner.Rotate or Cleaner.Cleanup); from the pos-th SetGeneration call of the
// rotation inside it another goroutine starts NewCache -> AddBucket. AddBucket needs the cleaner's lock, which
// rotate holds: the callback returns as soon as that goroutine is parked on the mutex (or, if the lock is NOT
// held there, when it has finished). Returns false if no rotation happened.
func (w *world) withNewCacheInRotation(pos int, f func()) bool {
	nb := len(w.cl.VerifBuckets())
	if nb == 0 {
		f()
		return false
	}
	pos %= nb
	id := len(w.caches)
	ch := make(chan *cache.VerifHookedCache[[]byte], 1)
	var got *cache.VerifHookedCache[[]byte]
	n, fired := 0, false
	w.onSet = func() {
		if n == pos && !fired {
			fired = true
			go func() { ch <- w.makeCache(id) }()
			deadline := time.Now().Add(settleTimeout)
			for got == nil {
				select {
				case got = <-ch:
					w.feat["sched:addbucket-proceeded-inside-rotation"] = true
				default:
					if blockedInAddBucket() {
						w.feat["sched:addbucket-blocked-by-rotation"] = true
						n++
						return
					}
					runtime.Gosched()
					if time.Now().After(deadline) {
						w.dead = "NewCache started inside a rotation neither finished nor blocked"
						n++
						return
					}
				}
			}
		}
		n++
	}
	f()
	w.onSet = nil
	if !fired {
		return false
	}
	if got == nil {
		select {
		case got = <-ch:
		case <-time.After(settleTimeout):
			w.dead = "NewCache started inside a rotation did not finish after the rotation"
			return true
		}
	}
	w.register(got)
	return true
}

func b2i(b bool) int64 {
	if b {
		return 1
	}
	return 0
}

func zlist(xs []int64) string {
	parts := make([]string, len(xs))
	for i, x := range xs {
		parts[i] = fmt.Sprint(x)
	}
	return "[" + strings.Join(parts, "; ") + "]%Z"
}

func (w *world) liveSum() uint64 {
	var s uint64
	for _, c := range w.caches {
		es, _, _ := c.VerifSnapshot(w.cl)
		for _, e := range es {
			s += e.Size
		}
	}
	return s
}

// occSum: what the live entries really occupy: for every valid entry of every payload, entrySize + the size that the
// loader which produced its value reported (independent of entry.size)
func (w *world) occSum() int64 {
	var s int64
	for ci, c := range w.caches {
		es, _, _ := c.VerifSnapshot(w.cl)
		vals := c.VerifValidValues()
		for _, e := range es {
			if e.Loading {
				continue
			}
			sz, ok := w.szOf[[3]int64{int64(ci), int64(e.Key), dec(vals[e.Key])}]
			if !ok {
				sz = -1 << 40 // a value nobody produced for this key
			}
			s += int64(w.esz) + sz
		}
	}
	return s
}

func (w *world) bucketIDs() []int {
	var bk []int
	for _, b := range w.cl.VerifBuckets() {
		id, ok := w.ids[b]
		if !ok {
			id = 9999
		}
		bk = append(bk, id)
	}
	return bk
}

func (w *world) observe(ret []int64) {
	thr := make([]string, len(w.thr))
	thrJ := make([][2]int64, len(w.thr))
	for i, t := range w.thr {
		v := t.val
		if t.status != 0 {
			v = 0
		}
		thr[i] = fmt.Sprintf("(%d, %d)", t.status, v)
		thrJ[i] = [2]int64{int64(t.status), v}
	}
	acct, live, occ, bk := int64(w.cl.VerifGetSize()), int64(w.liveSum()), w.occSum(), w.bucketIDs()
	w.obs = append(w.obs, fmt.Sprintf("mkObs %s [%s]%%Z (%d)%%Z (%d)%%Z (%d)%%Z %s", zlist(ret), strings.Join(thr, "; "), acct, live, occ, casefile.NatList(bk)+"%nat"))
	w.obsJSON = append(w.obsJSON, map[string]any{"ret": ret, "thr": thrJ, "acct": acct, "live": live, "occupied": occ, "buckets": bk})
}

// parked returns the goroutines currently inside their loader.
func (w *world) parked() []int {
	var p []int
	for i, t := range w.thr {
		if t.status == 10 {
			p = append(p, i)
		}
	}
	return p
}

// inSave returns the goroutines parked between save's unlock and its Add.
func (w *world) inSave() []int {
	var p []int
	for i, t := range w.thr {
		if t.status == 12 {
			p = append(p, i)
		}
	}
	return p
}

// drain lets every parked creator finish (as events), so that no goroutine is left behind.
func (w *world) drain() {
	for w.dead == "" {
		if p := w.inSave(); len(p) > 0 {
			w.do(Evt{Op: "add", T: p[0]})
			continue
		}
		if p := w.atRetry(); len(p) > 0 {
			w.do(Evt{Op: "relock", T: p[0]})
			continue
		}
		p := w.parked()
		if len(p) == 0 {
			if w.inPass {
				w.do(Evt{Op: "cleansweeps"})
				continue
			}
			return
		}
		// several waiters behind a failing creator: which of them becomes the next creator would be decided by the Go
		// scheduler, so they are parked before their retry and re-locked one by one
		if w.thr[p[0]].kind != kVal && w.waitersOf(p[0]) > 1 {
			w.do(Evt{Op: "resumepark", T: p[0]})
			continue
		}
		w.do(Evt{Op: "resume", T: p[0]})
	}
}

// abandon is the emergency exit after a hang: release whatever can be released.
func (w *world) abandon() {
	if w.inPass {
		select {
		case w.markGo <- struct{}{}:
		default:
		}
	}
	for _, t := range w.thr {
		if t.status == 10 {
			select {
			case t.resume <- struct{}{}:
			default:
			}
		}
		if t.status == 12 {
			select {
			case t.hookGo <- struct{}{}:
			default:
			}
		}
		if t.status == 13 {
			select {
			case t.retryGo <- struct{}{}:
			default:
			}
		}
	}
}

type scenario struct {
	Strict bool   `json:"strict"`
	Lim    uint64 `json:"lim"`
	Evs    []Evt  `json:"evs"`
}

func (w *world) emit(cw *casefile.Writer, class string, strict bool) {
	sc := scenario{Strict: strict, Lim: w.lim, Evs: w.evs}
	if w.dead != "" {
		cw.Violate("hang:"+class, "the real cache package did not reach a stable point: "+w.dead, sc)
		w.abandon()
		return
	}
	for i, t := range w.thr {
		if t.status == 3 || t.status == 4 {
			cw.Violate("foreign-failure:"+class, fmt.Sprintf("goroutine %d got a panic/error that its own loader did not produce", i), sc)
		}
	}
	evs := make([]string, len(w.evs))
	for i, e := range w.evs {
		evs[i] = e.coq()
	}
	gs := w.cl.VerifGenSizes()
	gsz := make([]int64, len(gs))
	for i, g := range gs {
		gsz[i] = int64(g)
	}
	snaps := make([]string, len(w.caches))
	var snapsJ []any
	nEntries := 0
	for i, c := range w.caches {
		es, cur, rel := c.VerifSnapshot(w.cl)
		ents := make([]string, len(es))
		for j, e := range es {
			ents[j] = fmt.Sprintf("(%d%%nat, (%d)%%Z, (%d)%%Z, %s)", e.Key, int64(e.Size), e.Gen, casefile.Bool(e.Loading))
		}
		nEntries += len(es)
		snaps[i] = fmt.Sprintf("mkCS %s (%d)%%Z [%s]", casefile.Bool(rel), cur, strings.Join(ents, "; "))
		snapsJ = append(snapsJ, map[string]any{"released": rel, "cur": cur, "entries": es})
	}
	mg := w.cl.VerifMaxGenSize()
	term := fmt.Sprintf("CRun %s (%d)%%Z (%d)%%Z (%d)%%Z [%s] [%s] %s [%s]", casefile.Bool(strict), w.lim, mg, w.esz,
		strings.Join(evs, "; "), strings.Join(w.obs, "; "), zlist(gsz), strings.Join(snaps, "; "))
	// non-trivial: at least one miss, one hit or wait, and a maintenance call with an effect
	var hasCall, hasMaint bool
	for i, e := range w.evs {
		if e.Op == "call" {
			hasCall = true
		}
		if r, ok := w.obsJSON[i]["ret"].([]int64); ok && len(r) > 0 && r[0] > 0 {
			hasMaint = true
		}
	}
	cw.Add(term, class, hasCall && hasMaint, sc, map[string]any{"obs": w.obsJSON, "gens": gsz, "caches": snapsJ})
	cw.Count(fmt.Sprintf("events:%d", (len(w.evs)/8)*8))
	for f := range w.feat {
		cw.Count(f)
	}
	_ = nEntries
}

// ---------------------------------------------------------------- generators

var limits = []uint64{0, 1, 150, 300, 700, 1500, 3000, 8000}

func (w *world) liveCaches() []int {
	var l []int
	for i, r := range w.rel {
		if !r {
			l = append(l, i)
		}
	}
	return l
}

func (w *world) hasParkedOn(c int) bool {
	for _, t := range w.thr {
		if t.c == c && (t.status == 10 || t.status == 11 || t.status == 13) {
			return true
		}
	}
	return false
}

// atRetry returns the goroutines parked between their wake-up after a failed load and their re-lock.
func (w *world) atRetry() []int {
	var p []int
	for i, t := range w.thr {
		if t.status == 13 {
			p = append(p, i)
		}
	}
	return p
}

// waitersOf: the goroutines blocked in wg.Wait() on creator id's entry.
func (w *world) waitersOf(id int) int {
	n := 0
	for _, t := range w.thr {
		if t.status == 11 && t.waitsOn == id && t.c == w.thr[id].c && t.k == w.thr[id].k {
			n++
		}
	}
	return n
}

// gcSafe: no creator is parked on a generation that is not the last one any more (pattern R2).
func (w *world) gcSafe() bool {
	for _, t := range w.thr {
		if t.status == 10 && t.epoch != w.epoch {
			return false
		}
	}
	return true
}

func randCall(r *rng.R, w *world, nextV *int64, conc bool) (Evt, bool) {
	lc := w.liveCaches()
	if len(lc) == 0 {
		return Evt{}, false
	}
	for try := 0; try < 8; try++ {
		c, k := rng.Pick(r, lc), r.Intn(5)
		// a caller of the very key some waiter is about to retry on (the window between its wake-up and its re-lock)
		if p := w.atRetry(); conc && len(p) > 0 && r.Bool() {
			t := w.thr[rng.Pick(r, p)]
			c, k = t.c, t.k
		}
		// sequential schedules: at most one waiter behind a creator that is going to fail (which waiter becomes the
		// next creator is decided by the Go scheduler, not by the harness); concurrent schedules: up to three, they
		// are then parked before their retry (resumepark) and re-locked one by one
		if cr, ok := w.latest[[2]int{c, k}]; ok && w.thr[cr].status == 10 && w.thr[cr].kind != kVal {
			n, max := w.waitersOf(cr), 1
			if conc {
				max = 3
			}
			if n >= max {
				continue
			}
		}
		*nextV++
		e := Evt{Op: "call", C: c, K: k, V: *nextV, Sz: int64(r.Range(0, 400)), ErrAPI: r.Bool()}
		switch x := r.Intn(100); {
		case x < 72:
			e.Kind = kVal
		case x < 88:
			e.Kind = kErr
		default:
			e.Kind = kPanic
		}
		return e, true
	}
	return Evt{}, false
}

// maintDuringSaveOK: Release / Rotate / Cleanup / CleanEmptyGenerations may run while a saver is parked at
// the schedule point after save's unlock. True since save does its gen.size.Add before the unlock; before
// that repair the counters were transiently wrong in this window (see witness-R4).
const maintDuringSaveOK = true

// resumeEvt: let creator id finish; in concurrent schedules a successful creator is sometimes parked
// at the schedule point between save's unlock and its gen.size.Add.
func (w *world) resumeEvt(r *rng.R, id int, conc bool) Evt {
	if conc && w.thr[id].kind == kVal && r.Chance(1, 3) {
		return Evt{Op: "resumesave", T: id}
	}
	// waiters of a failing creator are parked between their wake-up and their re-lock: always when there are several
	// (their order is then the harness's), every second time when there is one
	if n := w.waitersOf(id); w.thr[id].kind != kVal && (n > 1 || (conc && n == 1 && r.Bool())) {
		return Evt{Op: "resumepark", T: id}
	}
	return Evt{Op: "resume", T: id}
}

// random schedule; conc = creators stay parked in their loaders for a while
func genRandom(r *rng.R, cw *casefile.Writer, conc bool) {
	w := newWorld(rng.Pick(r, limits))
	var nextV int64 = 100
	n := r.Range(6, 22)
	for i := r.Range(1, 3); i > 0; i-- {
		w.do(Evt{Op: "new"})
	}
	for i := 0; i < n && w.dead == ""; i++ {
		x := r.Intn(100)
		if x >= 63 && x < 95 && len(w.inSave()) > 0 && !maintDuringSaveOK {
			continue
		}
		switch {
		case x < 46:
			if e, ok := randCall(r, w, &nextV, conc); ok {
				w.do(e)
				id := len(w.thr) - 1
				if w.dead == "" && w.thr[id].status == 10 && (!conc || r.Chance(3, 10)) {
					w.do(w.resumeEvt(r, id, conc))
				}
			}
		case x < 58 && conc:
			if p := w.atRetry(); len(p) > 0 && r.Bool() {
				w.do(Evt{Op: "relock", T: rng.Pick(r, p)})
			} else if p := w.inSave(); len(p) > 0 && r.Bool() {
				w.do(Evt{Op: "add", T: rng.Pick(r, p)})
			} else if p := w.parked(); len(p) > 0 {
				w.do(w.resumeEvt(r, rng.Pick(r, p), conc))
			}
		case x < 63:
			if len(w.caches) < 6 {
				w.do(Evt{Op: "new"})
			}
		case x < 68:
			var ok []int
			for _, c := range w.liveCaches() {
				if !w.hasParkedOn(c) { // pattern R3
					ok = append(ok, c)
				}
			}
			if len(ok) > 0 {
				w.do(Evt{Op: "release", C: rng.Pick(r, ok)})
			}
		case x < 78:
			if len(w.caches) < 7 && r.Chance(1, 4) {
				w.do(Evt{Op: "rotate_new", T: r.Intn(8)}) // recorded as a plain rotate if nothing rotates
			} else {
				w.do(Evt{Op: "rotate"})
			}
		case x < 90:
			if conc && r.Chance(1, 4) {
				// an interrupted pass: parked between markStale and the sweeps while goroutines go on
				w.do(Evt{Op: "cleanmark"})
				if w.inPass {
					for j := r.Range(1, 4); j > 0 && w.dead == ""; j-- {
						w.windowStep(r, &nextV, 5)
					}
					w.do(Evt{Op: "cleansweeps"})
				}
			} else if len(w.caches) < 7 && r.Chance(1, 5) {
				w.do(Evt{Op: "cleanup_new", T: r.Intn(8)}) // recorded as a plain cleanup if markStale does not rotate
			} else {
				w.do(Evt{Op: "cleanup"})
			}
		case x < 95:
			w.do(Evt{Op: "gcgens"}) // also while creators are parked on an older generation (pattern R2, repaired by b9905fa)
		default:
			if len(w.caches) < 7 && len(w.cl.VerifBuckets()) > 0 && r.Chance(1, 3) {
				w.do(Evt{Op: "relbuckets_new", T: r.Intn(8)})
			} else {
				w.do(Evt{Op: "relbuckets"})
			}
		}
	}
	w.drain()
	class := "seq-random"
	if conc {
		class = "sched-random"
	}
	w.emit(cw, class, true)
}

// boundary schedules: every entry has size exactly 100 and the limits are multiples of 100, so that the
// comparisons of Rotate (lastGenSize vs maxGenSize), Cleanup (totalSize vs sizeLimit) and markStale
// (bytes vs sizeToClean) are hit with equality
func genBoundary(r *rng.R, cw *casefile.Writer) {
	w := newWorld(rng.Pick(r, []uint64{200, 300, 400, 500, 2000, 4000}))
	w.do(Evt{Op: "new"})
	if r.Bool() {
		w.do(Evt{Op: "new"})
	}
	var v int64 = 100
	nextKey := 0
	n := r.Range(6, 20)
	for i := 0; i < n && w.dead == ""; i++ {
		switch x := r.Intn(100); {
		case x < 45:
			v++
			k := nextKey
			if nextKey > 0 && r.Chance(1, 4) {
				k = r.Intn(nextKey) // an old key: a hit moves the entry to the current generation (or a reload)
			} else {
				nextKey++
			}
			w.do(Evt{Op: "call", C: r.Intn(len(w.caches)), K: k, V: v, Sz: int64(100*r.Range(1, 2)) - int64(w.esz)})
			if id := len(w.thr) - 1; w.dead == "" && w.thr[id].status == 10 {
				w.do(Evt{Op: "resume", T: id})
			}
		case x < 70:
			w.do(Evt{Op: "rotate"})
		case x < 92:
			w.do(Evt{Op: "cleanup"})
		default:
			w.do(Evt{Op: "gcgens"})
		}
	}
	w.drain()
	w.emit(cw, "boundary", true)
}

// rebuild schedules: one cache gets 200..260 entries of size 70 in generation G0; rotation; a few of them are hit
// (they move to the fresh generation G1 and survive); one or two loaders for new keys are parked in G1; a
// cleaning pass marks G0 stale and deletes the rest: around the threshold "len*10 <= maxPayloadSize" the payload
// map is (or is not) rebuilt while those loaders are running; then a second Get of each parked key arrives (it
// must wait for the first loader, not load again), then the loaders return a value / an error / panic.
func genRebuild(r *rng.R, cw *casefile.Writer) {
	esz := int64(cache.NewCache[[]byte](nil, nil).VerifEntrySize())
	n := r.Range(200, 260)
	p := r.Range(1, 2)
	if r.Bool() { // make (n+p) a multiple of 10, so that "len*10 > maxPayloadSize" is also met with equality
		n -= (n + p) % 10
		if n < 200 {
			n += 10
		}
	}
	w := newWorld(uint64(70*n - 500))
	w.do(Evt{Op: "new"})
	if r.Chance(1, 3) {
		w.do(Evt{Op: "new"})
	}
	w.do(Evt{Op: "fill", C: 0, K: 100, N: n, V: 1000, Sz: 70 - esz})
	w.do(Evt{Op: "rotate"})
	thr := (n+p)/10 - p // survivors + parked <= (n+p)/10  <=>  rebuild
	m := r.Intn(3)
	switch r.Intn(3) {
	case 0:
		m = thr // exactly at the threshold
	case 1:
		m = thr - 2 + r.Intn(5)
	}
	if m < 0 {
		m = 0
	}
	var v int64 = 5000
	if m > 0 {
		w.do(Evt{Op: "fill", Hits: true, C: 0, K: 100 + r.Intn(n-m), N: m, V: 3000, Sz: 1})
	}
	var creators []int
	for k := 1; k <= p && w.dead == ""; k++ {
		v++
		e := Evt{Op: "call", C: 0, K: k, V: v, Sz: int64(r.Range(0, 60)), ErrAPI: r.Bool()}
		switch x := r.Intn(10); {
		case x < 6:
			e.Kind = kVal
		case x < 8:
			e.Kind = kErr
		default:
			e.Kind = kPanic
		}
		w.do(e)
		creators = append(creators, len(w.thr)-1)
	}
	w.do(Evt{Op: "cleanup"})
	for k := 1; k <= p && w.dead == ""; k++ { // the second callers: must wait behind the parked creators
		v++
		w.do(Evt{Op: "call", C: 0, K: k, V: v, Sz: int64(r.Range(0, 60)), ErrAPI: r.Bool()})
	}
	if r.Chance(1, 3) {
		w.do(Evt{Op: "gcgens"})
	}
	rng.Shuffle(r, creators)
	for _, id := range creators {
		if w.dead == "" && w.thr[id].status == 10 {
			w.do(w.resumeEvt(r, id, true))
		}
	}
	w.drain()
	for i := r.Intn(3); i > 0 && w.dead == ""; i-- {
		switch r.Intn(3) {
		case 0:
			w.do(Evt{Op: "cleanup"})
		case 1:
			w.do(Evt{Op: "rotate"})
		default:
			v++
			w.do(Evt{Op: "call", C: 0, K: r.Range(1, 2), V: v, Sz: 5})
			if id := len(w.thr) - 1; w.dead == "" && w.thr[id].status == 10 {
				w.do(Evt{Op: "resume", T: id})
			}
		}
	}
	w.drain()
	w.emit(cw, "payload-rebuild", true)
}

// retry-window schedules: >= 3 callers of ONE key. Creator A (loader returns an error or panics) is parked in its
// loader, 1..3 waiters block behind it, A fails with the waiters parked between their wake-up and their re-lock
// (inside reportReattempt). Then, in random order: further callers of the key arrive in that window (their loaders
// return a value / an error / panic, at once or later), parked creators finish (plain, parked after save's unlock, or
// again with their waiters parked before the retry), waiters re-take the lock one by one (each must hit the valid
// entry of a later caller, wait for a later caller's loading entry, or create the entry when the key is absent),
// and now and then a rotation / cleaning pass / CleanEmptyGenerations runs in between.
func genRetry(r *rng.R, cw *casefile.Writer) {
	w := newWorld(rng.Pick(r, []uint64{0, 300, 700, 3000}))
	w.do(Evt{Op: "new"})
	if r.Chance(1, 3) {
		w.do(Evt{Op: "new"})
	}
	c, k := r.Intn(len(w.caches)), r.Intn(3)
	var v int64 = 100
	kind := func(pv int) int {
		switch x := r.Intn(100); {
		case x < pv:
			return kVal
		case x < pv+(100-pv)/2:
			return kErr
		}
		return kPanic
	}
	call := func(kd int) {
		v++
		w.do(Evt{Op: "call", C: c, K: k, V: v, Sz: int64(r.Range(0, 400)), Kind: kd, ErrAPI: r.Bool()})
	}
	if r.Chance(1, 3) { // something else in the cache, so that the cleaner has work
		v++
		w.do(Evt{Op: "call", C: c, K: 7, V: v, Sz: int64(r.Range(100, 400))})
		w.do(Evt{Op: "resume", T: len(w.thr) - 1})
		if r.Bool() {
			w.do(Evt{Op: "rotate"})
		}
	}
	fk := kErr
	if r.Bool() {
		fk = kPanic
	}
	call(fk) // A
	a := len(w.thr) - 1
	for i := r.Range(1, 3); i > 0 && w.dead == ""; i-- {
		call(kind(60)) // the waiters
	}
	if r.Chance(1, 5) {
		w.do(Evt{Op: rng.Pick(r, []string{"rotate", "cleanup", "gcgens"})})
	}
	w.do(Evt{Op: "resumepark", T: a})
	late := 0
	for i := 0; i < 14 && w.dead == ""; i++ {
		ret, par, sav := w.atRetry(), w.parked(), w.inSave()
		if len(ret)+len(par)+len(sav) == 0 {
			break
		}
		x := r.Intn(100)
		switch {
		case x < 30 && late < 3 && len(ret) > 0:
			late++
			call(kind(60)) // a later caller inside the window
			if id := len(w.thr) - 1; w.dead == "" && w.thr[id].status == 10 && r.Bool() {
				w.do(w.resumeEvt(r, id, true)) // ... that finishes its load at once
			}
		case x < 60 && len(ret) > 0:
			w.do(Evt{Op: "relock", T: rng.Pick(r, ret)})
		case x < 85 && len(par) > 0:
			id := rng.Pick(r, par)
			if w.thr[id].kind != kVal && w.waitersOf(id) > 0 {
				w.do(Evt{Op: "resumepark", T: id})
			} else {
				w.do(w.resumeEvt(r, id, true))
			}
		case x < 92 && len(sav) > 0:
			w.do(Evt{Op: "add", T: rng.Pick(r, sav)})
		case x >= 92:
			w.do(Evt{Op: rng.Pick(r, []string{"rotate", "cleanup", "gcgens"})})
		}
	}
	w.drain()
	if r.Bool() {
		w.do(Evt{Op: "cleanup"})
	}
	w.emit(cw, "retry-window", true)
}

// windowStep: one event inside the window of a parked cleaning pass (generations marked stale, no cache swept yet): a
// creator that entered its loader before the pass finishes (value / error / panic; plain, parked after save's unlock, or
// with its waiters parked before their retry), a saver does its Add, a waiter re-locks, a lookup of a cached key (a hit
// re-homes the entry to the current generation), a lookup of a new key, or a Rotate.
func (w *world) windowStep(r *rng.R, nextV *int64, keys int) {
	par, sav, ret := w.parked(), w.inSave(), w.atRetry()
	x := r.Intn(100)
	switch {
	case x < 45 && len(par) > 0:
		w.do(w.resumeEvt(r, rng.Pick(r, par), true))
	case x < 55 && len(sav) > 0:
		w.do(Evt{Op: "add", T: rng.Pick(r, sav)})
	case x < 62 && len(ret) > 0:
		w.do(Evt{Op: "relock", T: rng.Pick(r, ret)})
	case x < 90:
		lc := w.liveCaches()
		if len(lc) == 0 {
			return
		}
		*nextV++
		e := Evt{Op: "call", C: rng.Pick(r, lc), K: r.Intn(keys), V: *nextV, Sz: int64(r.Range(0, 400)), ErrAPI: r.Bool()}
		if cr, ok := w.latest[[2]int{e.C, e.K}]; ok && w.thr[cr].status == 10 && w.thr[cr].kind != kVal && w.waitersOf(cr) >= 3 {
			return
		}
		w.do(e)
		if id := len(w.thr) - 1; w.dead == "" && w.thr[id].status == 10 && r.Bool() {
			w.do(w.resumeEvt(r, id, true))
		}
	default:
		w.do(Evt{Op: "rotate"})
	}
}

// pass-window schedules: a cleaning pass interrupted between markStale and the sweeps. Some entries are cached (enough to
// exceed the limit), possibly a Rotate, then 1..3 loaders are parked (before and/or after the rotation, so that their
// entries sit in generations the pass marks stale or in the last one); Cleaner.Cleanup is started and parked at the end of
// markStale; inside the window the loaders finish (value, error, panic), cached keys are hit, new keys are looked up, a
// Rotate runs; then the pass sweeps the caches and returns; afterwards the keys are looked up again (a key saved inside
// the window must be served as a hit), and further uninterrupted passes run.
func genPassWindow(r *rng.R, cw *casefile.Writer) {
	w := newWorld(rng.Pick(r, []uint64{100, 300, 700, 1500}))
	w.do(Evt{Op: "new"})
	if r.Chance(1, 3) {
		w.do(Evt{Op: "new"})
	}
	var v int64 = 100
	const keys = 6
	get := func(k int, kd int, finish bool) {
		v++
		w.do(Evt{Op: "call", C: r.Intn(len(w.caches)), K: k, V: v, Sz: int64(r.Range(50, 400)), Kind: kd, ErrAPI: r.Bool()})
		if id := len(w.thr) - 1; finish && w.dead == "" && w.thr[id].status == 10 {
			w.do(Evt{Op: "resume", T: id})
		}
	}
	kind := func() int {
		switch x := r.Intn(10); {
		case x < 6:
			return kVal
		case x < 8:
			return kErr
		}
		return kPanic
	}
	for i := r.Range(1, 4); i > 0; i-- {
		get(r.Intn(keys), kVal, true)
	}
	early := r.Intn(3) // loaders parked before the rotation
	for i := 0; i < early; i++ {
		get(r.Intn(keys), kind(), false)
	}
	if r.Bool() {
		w.do(Evt{Op: "rotate"})
		for i := r.Intn(3); i > 0; i-- {
			get(r.Intn(keys), kVal, true)
		}
	}
	for i := r.Range(0, 2); i > 0 || len(w.parked()) == 0; i-- {
		get(r.Intn(keys), kind(), false)
		if i < -4 {
			break
		}
	}
	for pass := r.Range(1, 2); pass > 0 && w.dead == ""; pass-- {
		w.do(Evt{Op: "cleanmark"})
		if w.inPass {
			for i := r.Range(1, 5); i > 0 && w.dead == ""; i-- {
				w.windowStep(r, &v, keys)
			}
			w.do(Evt{Op: "cleansweeps"})
		}
		for i := r.Intn(4); i > 0 && w.dead == ""; i-- {
			get(r.Intn(keys), kind(), r.Bool())
		}
	}
	w.drain()
	for i := r.Intn(3); i > 0 && w.dead == ""; i-- {
		switch r.Intn(3) {
		case 0:
			w.do(Evt{Op: "cleanup"})
		case 1:
			w.do(Evt{Op: "gcgens"})
		default:
			get(r.Intn(keys), kVal, true)
		}
	}
	w.emit(cw, "pass-window", true)
}

// rotation schedules: n caches, a rotation (through Rotate, or through markStale when Cleanup has to mark the last
// generation stale as well) from whose pos-th SetGeneration call a NewCache -> AddBucket is started; then loads on
// the new cache and cleaning passes that drop the old generation
func genRotationNew(cw *casefile.Writer, n, pos int, viaCleanup bool) {
	w := newWorld(500)
	var v int64 = 100
	for i := 0; i < n; i++ {
		w.do(Evt{Op: "new"})
	}
	get := func(c, k int, sz int64) {
		v++
		w.do(Evt{Op: "call", C: c, K: k, V: v, Sz: sz})
		if id := len(w.thr) - 1; w.dead == "" && w.thr[id].status == 10 {
			w.do(Evt{Op: "resume", T: id})
		}
	}
	if viaCleanup {
		get(0, 1, 700) // one generation, over the limit: markStale rotates and marks it stale
		w.do(Evt{Op: "cleanup_new", T: pos})
	} else {
		get(0, 1, 200)
		w.do(Evt{Op: "rotate_new", T: pos})
	}
	nc := len(w.caches) - 1
	get(0, 2, 300)
	w.do(Evt{Op: "cleanup"})
	get(nc, 1, 400)
	get(nc, 2, 300)
	w.do(Evt{Op: "cleanup"})
	w.do(Evt{Op: "rotate"})
	get(nc, 3, 100)
	w.do(Evt{Op: "cleanup"})
	w.do(Evt{Op: "gcgens"})
	w.emit(cw, "rotation-new-cache-inside", true)
}

// exhaustive: n caches, every subset of them released (in the given order), then ReleaseBuckets
// and the maintenance calls that show whether a live cache fell out of the cleaner's management
func genReleaseSubset(cw *casefile.Writer, n int, mask int, order []int, lim uint64, newAt int) {
	w := newWorld(lim)
	var v int64 = 100
	for i := 0; i < n; i++ {
		w.do(Evt{Op: "new"})
	}
	get := func(c, k int) {
		v++
		w.do(Evt{Op: "call", C: c, K: k, V: v, Sz: 40})
		if id := len(w.thr) - 1; w.dead == "" && w.thr[id].status == 10 {
			w.do(Evt{Op: "resume", T: id})
		}
	}
	for i := 0; i < n; i++ {
		get(i, 1)
	}
	for _, c := range order {
		if mask&(1<<c) != 0 {
			w.do(Evt{Op: "release", C: c})
		}
	}
	nc := n
	if newAt >= 0 {
		// a new cache is added while ReleaseBuckets is between its scan and its removal
		w.do(Evt{Op: "relbuckets_new", T: newAt})
		nc = n + 1
	} else {
		w.do(Evt{Op: "relbuckets"})
	}
	w.do(Evt{Op: "rotate"})
	for i := 0; i < nc; i++ {
		if i >= n || mask&(1<<i) == 0 {
			get(i, 2)
		}
	}
	w.do(Evt{Op: "cleanup"})
	w.do(Evt{Op: "gcgens"})
	w.do(Evt{Op: "relbuckets"})
	if newAt >= 0 {
		w.emit(cw, "release-subsets-new-cache-inside", true)
		return
	}
	w.emit(cw, "release-subsets", true)
}

// Permanent regression stream: the interleavings that broke the accounting before the repairs
// 290ab18 (R1) and b9905fa (R2) (Props.v: C18_recover_v0_refuted, C18_save_v0_refuted), checked
// strictly; R3 (Release during a load) is outside the stated domain: the model must reproduce it
// exactly, the accounting is not required (strict = false).
func witnesses(cw *casefile.Writer) {
	// R1: recover deletes payload[key] by key although the entry there belongs to another goroutine
	w := newWorld(1)
	w.do(Evt{Op: "new"})
	w.do(Evt{Op: "call", C: 0, K: 7, V: 1, Sz: 100})
	w.do(Evt{Op: "resume", T: 0})
	w.do(Evt{Op: "call", C: 0, K: 1, Kind: kErr})
	w.do(Evt{Op: "cleanup"})
	w.do(Evt{Op: "call", C: 0, K: 1, V: 2, Sz: 50})
	w.do(Evt{Op: "resume", T: 2})
	w.do(Evt{Op: "resume", T: 1})
	w.emit(cw, "witness-R1", true)
	// R2: CleanEmptyGenerations drops a generation that a loading entry still points to
	w = newWorld(2000)
	w.do(Evt{Op: "new"})
	w.do(Evt{Op: "call", C: 0, K: 7, V: 1, Sz: 100})
	w.do(Evt{Op: "resume", T: 0})
	w.do(Evt{Op: "call", C: 0, K: 1, V: 2, Sz: 50})
	w.do(Evt{Op: "rotate"})
	w.do(Evt{Op: "call", C: 0, K: 7, V: 3, Sz: 100})
	w.do(Evt{Op: "gcgens"})
	w.do(Evt{Op: "resume", T: 1})
	w.do(Evt{Op: "call", C: 0, K: 8, V: 4, Sz: 5000})
	w.do(Evt{Op: "resume", T: 3})
	w.do(Evt{Op: "cleanup"})
	w.do(Evt{Op: "cleanup"})
	w.emit(cw, "witness-R2", true)
	// R4 (regression stream, strict): CleanEmptyGenerations while a saver is parked after save's unlock. Before
	// the repair "Add before Unlock" the Add landed on a generation the cleaner no longer lists (268 vs 386)
	w = newWorld(2000)
	w.do(Evt{Op: "new"})
	w.do(Evt{Op: "call", C: 0, K: 2, V: 1, Sz: 200})
	w.do(Evt{Op: "resume", T: 0})
	w.do(Evt{Op: "call", C: 0, K: 1, V: 2, Sz: 50})
	w.do(Evt{Op: "resumesave", T: 1})
	w.do(Evt{Op: "rotate"})
	w.do(Evt{Op: "call", C: 0, K: 2, V: 3, Sz: 1})
	w.do(Evt{Op: "gcgens"})
	w.do(Evt{Op: "add", T: 1})
	w.emit(cw, "witness-R4", true)
	// M9 (regression stream, strict; Props.v: C18_retry_without_recheck_refuted / _two_loaders): three callers of one key.
	// A's loader fails while B waits; B is woken and parked before its re-lock; C loads and caches the key (a) or is
	// still inside its loader (b); B re-takes the lock and must be served from / wait for C's entry. With the waiter's
	// retry loop turned into `if ok` B wrote a fresh entry over C's: accounted 336, live 168, the key loaded twice.
	for _, fk := range []int{kErr, kPanic} {
		w = newWorld(2000)
		w.do(Evt{Op: "new"})
		w.do(Evt{Op: "call", C: 0, K: 1, Kind: fk})
		w.do(Evt{Op: "call", C: 0, K: 1, V: 7, Sz: 100})
		w.do(Evt{Op: "resumepark", T: 0})
		w.do(Evt{Op: "call", C: 0, K: 1, V: 8, Sz: 100})
		w.do(Evt{Op: "resume", T: 2})
		w.do(Evt{Op: "relock", T: 1})
		w.drain()
		w.do(Evt{Op: "release", C: 0})
		w.emit(cw, "witness-M9", true)
		w = newWorld(2000)
		w.do(Evt{Op: "new"})
		w.do(Evt{Op: "call", C: 0, K: 1, Kind: fk})
		w.do(Evt{Op: "call", C: 0, K: 1, V: 7, Sz: 100})
		w.do(Evt{Op: "resumepark", T: 0})
		w.do(Evt{Op: "call", C: 0, K: 1, V: 8, Sz: 100})
		w.do(Evt{Op: "relock", T: 1})
		w.do(Evt{Op: "resume", T: 2})
		w.drain()
		w.do(Evt{Op: "release", C: 0})
		w.emit(cw, "witness-M9", true)
	}
	// M12 (regression stream, strict; Props.v: C18_save_stale_zero_refuted): a load that was started before a cleaning pass
	// finishes after markStale marked its generation stale and before its cache is swept. save re-homes the entry to the
	// current generation, the sweep keeps it, a later lookup is a hit: its full size must be accounted. With save's
	// `if e.deleted` widened to `e.deleted || e.gen.stale` the entry lived on with size 0 (accounted 0, occupied 168).
	for _, rot := range []bool{false, true} {
		w = newWorld(100)
		w.do(Evt{Op: "new"})
		w.do(Evt{Op: "call", C: 0, K: 7, V: 1, Sz: 100})
		w.do(Evt{Op: "resume", T: 0})
		w.do(Evt{Op: "call", C: 0, K: 1, V: 2, Sz: 100})
		if rot { // the ordinary path of markStale (an older generation) instead of the rotate-and-drop-last fallback
			w.do(Evt{Op: "rotate"})
			w.do(Evt{Op: "call", C: 0, K: 8, V: 3, Sz: 10})
			w.do(Evt{Op: "resume", T: 2})
		}
		w.do(Evt{Op: "cleanmark"})
		w.do(Evt{Op: "resume", T: 1})
		w.do(Evt{Op: "cleansweeps"})
		w.do(Evt{Op: "call", C: 0, K: 1, V: 9, Sz: 1})
		w.drain()
		w.emit(cw, "witness-M12", true)
	}
	// R3: Release while a creator is inside its loader (outside the stated domain: callers finish
	// before a cache is released; counted, not reported)
	w = newWorld(2000)
	w.do(Evt{Op: "new"})
	w.do(Evt{Op: "call", C: 0, K: 1, V: 1, Sz: 50})
	w.do(Evt{Op: "release", C: 0})
	w.do(Evt{Op: "resume", T: 0})
	if w.dead == "" {
		if a, l := w.cl.VerifGetSize(), w.liveSum(); a != l {
			cw.Count("witness-R3-release-during-load-overaccounts")
		}
	}
	w.emit(cw, "witness-R3", false)
}

func runScenario(cw *casefile.Writer, sc scenario, class string) {
	w := newWorld(sc.Lim)
	for _, e := range sc.Evs {
		w.do(e)
	}
	w.drain()
	w.emit(cw, class, sc.Strict)
}

func perms(n int) [][]int {
	if n == 0 {
		return [][]int{{}}
	}
	var out [][]int
	for _, p := range perms(n - 1) {
		for i := 0; i <= len(p); i++ {
			q := append(append(append([]int{}, p[:i]...), n-1), p[i:]...)
			out = append(out, q)
		}
	}
	return out
}

func main() {
	seed := flag.Uint64("seed", 1, "")
	tier := flag.String("tier", "quick", "")
	out := flag.String("out", "", "")
	replay := flag.String("replay", "", "")
	flag.Parse()
	if *out == "" {
		fmt.Fprintln(os.Stderr, "need -out")
		os.Exit(2)
	}
	cw, err := casefile.New(*out, "C18", "From Coq Require Import ZArith List.\nImport ListNotations.\nFrom C18 Require Import Model CaseDefs.", 150)
	if err != nil {
		panic(err)
	}
	if *replay != "" {
		doReplay(cw, *replay)
		if err := cw.Close(); err != nil {
			panic(err)
		}
		return
	}
	installHook()
	r := rng.New(*seed)
	nSeq, nConc, maxN, nRebuild, nRetry, nPass := 1000, 1000, 5, 16, 300, 300
	if *tier == "thorough" {
		nSeq, nConc, maxN, nRebuild, nRetry, nPass = 20000, 20000, 6, 300, 3000, 2500
	}
	witnesses(cw)
	// exhaustive release subsets, ascending release order, for 1..maxN caches (6 in the thorough tier);
	// for <= 3 caches additionally every release order
	for n := 1; n <= maxN; n++ {
		asc := make([]int, n)
		for i := range asc {
			asc[i] = i
		}
		for mask := 0; mask < 1<<n; mask++ {
			genReleaseSubset(cw, n, mask, asc, 300, -1)
			if n <= 3 {
				for _, p := range perms(n)[1:] {
					genReleaseSubset(cw, n, mask, p, 300, -1)
				}
			}
			// the same subset with a NewCache landing inside ReleaseBuckets, created from the first and
			// from the last Released() call of the scan
			genReleaseSubset(cw, n, mask, asc, 300, 0)
			if n > 1 {
				genReleaseSubset(cw, n, mask, asc, 300, n-1)
			}
		}
	}
	for n := 1; n <= 4; n++ {
		for pos := 0; pos < n; pos++ {
			genRotationNew(cw, n, pos, false)
			genRotationNew(cw, n, pos, true)
		}
	}
	cw.Exhaust = true
	cw.Extra["exhaustive_scope"] = fmt.Sprintf("every subset of released caches for 1..%d caches sharing a cleaner (every release order for <= 3 caches)", maxN)
	// the payload-rebuild cases (200..260 entries each: a few seconds of model evaluation per case) are spread evenly
	// over the other streams, so that they do not all land in one case file (files are evaluated in parallel)
	total, emitted, rebuilt := nRetry+nPass+nSeq/4+nSeq+nConc, 0, 0
	tick := func() {
		emitted++
		for rebuilt < nRebuild && rebuilt*total < emitted*nRebuild {
			rebuilt++
			genRebuild(r, cw)
		}
	}
	for i := 0; i < nRetry; i++ {
		genRetry(r, cw)
		tick()
	}
	for i := 0; i < nPass; i++ {
		genPassWindow(r, cw)
		tick()
	}
	for i := 0; i < nSeq/4; i++ {
		genBoundary(r, cw)
		tick()
	}
	for i := 0; i < nSeq; i++ {
		genRandom(r, cw, false)
		tick()
	}
	for i := 0; i < nConc; i++ {
		genRandom(r, cw, true)
		tick()
	}
	for ; rebuilt < nRebuild; rebuilt++ {
		genRebuild(r, cw)
	}
	if err := cw.Close(); err != nil {
		panic(err)
	}
}

func doReplay(cw *casefile.Writer, path string) {
	installHook()
	b, err := os.ReadFile(path)
	if err != nil {
		panic(err)
	}
	var rp struct {
		Replay struct {
			Case struct {
				Class string   `json:"class"`
				Input scenario `json:"input"`
			} `json:"case"`
			Input *scenario `json:"input"`
		} `json:"replay"`
	}
	if err := json.Unmarshal(b, &rp); err != nil {
		panic(err)
	}
	sc := rp.Replay.Case.Input
	class := rp.Replay.Case.Class
	if rp.Replay.Input != nil {
		sc, class = *rp.Replay.Input, "replay"
		sc.Strict = true
	}
	runScenario(cw, sc, class)
	fmt.Printf("replayed %d events (class %s)\n", len(sc.Evs), class)
}
