package main

import (
	"context"
	"fmt"
	"time"

	"github.com/ozontech/seq-db/conf"
	"github.com/ozontech/seq-db/parser"
	"github.com/ozontech/seq-db/pattern"
	"github.com/ozontech/seq-db/proxy/bulk"
	"github.com/ozontech/seq-db/seq"
	"github.com/ozontech/seq-db/tokenizer"
)

type tp struct{ toks [][]byte }

func (t tp) GetToken(i uint32) []byte { return t.toks[i-1] }
func (t tp) FirstTID() uint32         { return 1 }
func (t tp) LastTID() uint32          { return uint32(len(t.toks)) }
func (t tp) Ordered() bool            { return false }

func probe() {
	for _, c := range []struct {
		cs, partial bool
		max         int
		doc, q      string
	}{
		{true, false, 72, "{\"k\":\"ab\xffcd\"}", "k:\"ab\xffcd\""},
		{false, false, 72, "{\"k\":\"ab\xffcd\"}", "k:\"ab\xffcd\""},
		{true, true, 4, "{\"k\":\"abc\u00e9d\"}", "k:\"abc\u00e9d\""},
		{true, true, 4, "{\"k\":\"abc\u00e9d\"}", "k:\"abc\xc3\""},
		{false, true, 4, "{\"k\":\"abc\u00e9d\"}", "k:\"abc\xc3\""},
	} {
		conf.CaseSensitive = c.cs
		m := seq.Mapping{"k": seq.NewSingleType(seq.TokenizerTypeKeyword, "", 0)}
		tk := map[seq.TokenizerType]tokenizer.Tokenizer{
			seq.TokenizerTypeText:    tokenizer.NewTextTokenizer(c.max, c.cs, c.partial, 32768),
			seq.TokenizerTypeKeyword: tokenizer.NewKeywordTokenizer(c.max, c.cs, c.partial),
			seq.TokenizerTypePath:    tokenizer.NewPathTokenizer(c.max, c.cs, c.partial),
			seq.TokenizerTypeExists:  tokenizer.NewExistsTokenizer(),
		}
		ix := bulk.VerifNewIndexer(m, tk)
		metas, err := ix.Index([]byte(c.doc), time.Now())
		fmt.Printf("cs=%v partial=%v max=%d doc=%q err=%v\n", c.cs, c.partial, c.max, c.doc, err)
		var toks [][]byte
		for _, t := range metas[0] {
			fmt.Printf("   token %q:%q\n", t.Key, t.Value)
			if string(t.Key) == "k" {
				toks = append(toks, t.Value)
			}
		}
		q, err := parser.ParseSeqQL(c.q, m)
		if err != nil {
			fmt.Println("   parse error", err)
			continue
		}
		lit := q.Root.Value.(*parser.Literal)
		fmt.Printf("   query %q -> terms %q\n", c.q, lit.Terms)
		tids, _ := pattern.Search(context.Background(), lit, tp{toks})
		fmt.Printf("   found=%v\n", len(tids) > 0)
	}
}

func probe2() {
	conf.CaseSensitive = false
	m := seq.Mapping{"k": seq.NewSingleType(seq.TokenizerTypeKeyword, "", 0), "t": seq.NewSingleType(seq.TokenizerTypeText, "", 0)}
	tk := map[seq.TokenizerType]tokenizer.Tokenizer{
		seq.TokenizerTypeText:    tokenizer.NewTextTokenizer(72, false, false, 32768),
		seq.TokenizerTypeKeyword: tokenizer.NewKeywordTokenizer(72, false, false),
		seq.TokenizerTypePath:    tokenizer.NewPathTokenizer(72, false, false),
		seq.TokenizerTypeExists:  tokenizer.NewExistsTokenizer(),
	}
	ix := bulk.VerifNewIndexer(m, tk)
	doc := []byte("{\"k\":\"HELLO World\",\"t\":\"Some TEXT Here\"}")
	fmt.Printf("before: %s\n", doc)
	_, err := ix.Index(doc, time.Now())
	fmt.Printf("after : %s err=%v\n", doc, err)
}
