// Extension of the C11 driver: the REAL BINARY (class bin-e2e, a per-run sample — a test, not a proof).
//
// cmd/seq-db is package main: its wiring (main(): conf.CaseSensitive = *flagCaseSensitive; startProxy(): the
// bulk.IngestorConfig literal filled from --max-token-size / --case-sensitive / --partial-indexing) cannot be called
// from the harness, so the wire-* classes transcribe it (binaryWiring). Here the transcription is not trusted: the
// driver builds ./cmd/seq-db from the tree under test, starts it in single mode once per combination of
// --case-sensitive x --partial-indexing (small / default --max-token-size alternating), posts documents to /_bulk and
// sends, over HTTP /search, every query the property names for the flags the process was started with (values with
// upper-case letters and values beyond the limit in every run); each must return the document.
//
// Infrastructure trouble (no Go toolchain, no free port, the process not ready in time) is NOT a violation: the class
// is skipped for that run and counted under "binary:*" in the statistics.
package main

import (
	"bytes"
	"encoding/json"
	"fmt"
	"io"
	"net"
	"net/http"
	"os"
	"os/exec"
	"path/filepath"
	"reflect"
	"runtime"
	"strings"
	"syscall"
	"time"
	"unicode/utf8"

	"github.com/ozontech/seq-db/proxy/bulk"
	"github.com/ozontech/seq-db/seq"

	"verif/harness/internal/rng"
)

// repoRoot: the tree the harness was compiled against (-repo, or the source path recorded for bulk.NewIngestor)
func repoRoot(flagRepo string) string {
	if flagRepo != "" {
		return flagRepo
	}
	fn := runtime.FuncForPC(reflect.ValueOf(bulk.NewIngestor).Pointer())
	if fn == nil {
		return ""
	}
	file, _ := fn.FileLine(fn.Entry())
	root := filepath.Dir(filepath.Dir(filepath.Dir(file))) // <root>/proxy/bulk/ingestor.go
	if _, err := os.Stat(filepath.Join(root, "cmd", "seq-db")); err != nil {
		return ""
	}
	return root
}

func buildBinary(repo, dir string) (string, error) {
	for _, f := range []string{"go.mod", "go.sum"} {
		b, err := os.ReadFile(filepath.Join(repo, f))
		if err != nil {
			return "", err
		}
		if err := os.WriteFile(filepath.Join(dir, f), b, 0o644); err != nil {
			return "", err
		}
	}
	exe := filepath.Join(dir, "seq-db")
	// -modfile: whatever the go command wants to note goes to the copy, never to the tree under test
	cmd := exec.Command("go", "build", "-modfile="+filepath.Join(dir, "go.mod"), "-o", exe, "./cmd/seq-db")
	cmd.Dir = repo
	var env []string
	for _, e := range os.Environ() {
		if strings.HasPrefix(e, "GOFLAGS=") || strings.HasPrefix(e, "GOPROXY=") || strings.HasPrefix(e, "GOTOOLCHAIN=") ||
			strings.HasPrefix(e, "GOSUMDB=") || strings.HasPrefix(e, "GOWORK=") {
			continue
		}
		env = append(env, e)
	}
	cmd.Env = append(env, "GOFLAGS=-mod=mod", "GOPROXY=off", "GOWORK=off")
	out, err := cmd.CombinedOutput()
	if err != nil {
		return "", fmt.Errorf("%v: %s", err, out)
	}
	return exe, nil
}

func freePorts(n int) ([]int, error) {
	var ls []net.Listener
	var ports []int
	defer func() {
		for _, l := range ls {
			l.Close()
		}
	}()
	for i := 0; i < n; i++ {
		l, err := net.Listen("tcp", "127.0.0.1:0")
		if err != nil {
			return nil, err
		}
		ls = append(ls, l)
		ports = append(ports, l.Addr().(*net.TCPAddr).Port)
	}
	return ports, nil
}

type binProc struct {
	cmd  *exec.Cmd
	addr string
	dir  string
}

func (p *binProc) stop() {
	if p.cmd != nil && p.cmd.Process != nil {
		p.cmd.Process.Kill()
		p.cmd.Wait()
	}
	os.RemoveAll(p.dir)
}

const binMapping = `mapping-list:
  - type: "keyword"
    name: "uid"
  - type: "keyword"
    name: "k"
  - type: "text"
    name: "t"
  - type: "path"
    name: "p"
  - type: "object"
    name: "o"
    mapping-list:
      - type: "path"
        name: "p"
`

// startBinary: seq-db --mode single with the flags under test; every other flag at its default
func startBinary(exe string, f binFlags, seqql bool) (*binProc, error) {
	var lastErr error
	for attempt := 0; attempt < 3; attempt++ {
		dir, err := os.MkdirTemp("", "verif-c11-bin-")
		if err != nil {
			return nil, err
		}
		ports, err := freePorts(3)
		if err != nil {
			os.RemoveAll(dir)
			return nil, err
		}
		os.Mkdir(filepath.Join(dir, "data"), 0o755)
		os.WriteFile(filepath.Join(dir, "mapping.yaml"), []byte(binMapping), 0o644)
		args := []string{"--mode", "single",
			"--addr", fmt.Sprintf("127.0.0.1:%d", ports[0]),
			"--proxy-grpc-addr", fmt.Sprintf("127.0.0.1:%d", ports[1]),
			"--debug-addr", fmt.Sprintf("127.0.0.1:%d", ports[2]),
			"--data-dir", filepath.Join(dir, "data"), "--mapping", filepath.Join(dir, "mapping.yaml"),
			"--query-rate-limit", "1000000", "--skip-fsync",
			"--max-token-size", fmt.Sprint(f.maxTokenSize)}
		if f.caseSensitive {
			args = append(args, "--case-sensitive")
		}
		if f.partial {
			args = append(args, "--partial-indexing")
		}
		if seqql {
			args = append(args, "--use-seq-ql-by-default")
		}
		logf, _ := os.Create(filepath.Join(dir, "log"))
		cmd := exec.Command(exe, args...)
		cmd.Stdout, cmd.Stderr = logf, logf
		cmd.Env = append(os.Environ(), "LOG_LEVEL=fatal")
		cmd.SysProcAttr = &syscall.SysProcAttr{Pdeathsig: syscall.SIGKILL}
		if err := cmd.Start(); err != nil {
			logf.Close()
			os.RemoveAll(dir)
			return nil, err
		}
		logf.Close()
		p := &binProc{cmd: cmd, addr: fmt.Sprintf("http://127.0.0.1:%d", ports[0]), dir: dir}
		exited := make(chan struct{})
		go func() { cmd.Wait(); close(exited) }()
		ready := false
		deadline := time.Now().Add(20 * time.Second)
	poll:
		for time.Now().Before(deadline) {
			select {
			case <-exited:
				break poll
			default:
			}
			resp, err := http.Get(fmt.Sprintf("http://127.0.0.1:%d/ready", ports[2]))
			if err == nil {
				resp.Body.Close()
				if resp.StatusCode == http.StatusOK {
					ready = true
					break
				}
			}
			time.Sleep(50 * time.Millisecond)
		}
		if ready {
			return p, nil
		}
		tail, _ := os.ReadFile(filepath.Join(dir, "log"))
		if len(tail) > 600 {
			tail = tail[len(tail)-600:]
		}
		lastErr = fmt.Errorf("seq-db not ready (attempt %d): %s", attempt+1, tail)
		cmd.Process.Kill()
		<-exited
		p.cmd = nil
		p.stop()
	}
	return nil, lastErr
}

type searchResp struct {
	Docs []struct {
		Data json.RawMessage `json:"data"`
	} `json:"docs"`
	Error struct {
		Code    string `json:"code"`
		Message string `json:"message"`
	} `json:"error"`
}

func (p *binProc) search(query string) (uids map[string]bool, errText string) {
	body, _ := json.Marshal(map[string]any{
		"query": map[string]any{"query": query, "from": "2000-01-01T00:00:00Z", "to": "2100-01-01T00:00:00Z"},
		"size":  50, "offset": 0,
	})
	resp, err := http.Post(p.addr+"/search", "application/json", bytes.NewReader(body))
	if err != nil {
		return nil, "transport: " + err.Error()
	}
	defer resp.Body.Close()
	raw, _ := io.ReadAll(resp.Body)
	var sr searchResp
	if err := json.Unmarshal(raw, &sr); err != nil {
		return nil, fmt.Sprintf("status %d, undecodable answer: %.200s", resp.StatusCode, raw)
	}
	if resp.StatusCode != http.StatusOK || (sr.Error.Code != "" && sr.Error.Code != "ERROR_CODE_NO") {
		return nil, fmt.Sprintf("status %d: %.300s", resp.StatusCode, raw)
	}
	uids = map[string]bool{}
	for _, d := range sr.Docs {
		var m map[string]any
		if json.Unmarshal(d.Data, &m) == nil {
			if u, ok := m["uid"].(string); ok {
				uids[u] = true
			}
		}
	}
	return uids, ""
}

// values for the binary runs: valid UTF-8, printable (they cross JSON twice), with upper-case letters
func genBinValue(r *rng.R, ty seq.TokenizerType, wantLong bool, limit int) []byte {
	units := []string{"a", "b", "x", "y", "z", "0", "7", "_", "A", "B", "Q", "Z", "Ä", "ж", "Ж", "Σ", "İ", "K", "é", "ß", "東", "-", ".", ":"}
	var sb strings.Builder
	n := r.Range(2, 10)
	if wantLong {
		n = limit + r.Range(1, 12)
	}
	for i := 0; sb.Len() < n || i < 2; i++ {
		u := rng.Pick(r, units)
		if ty == seq.TokenizerTypePath && r.Chance(1, 4) {
			u = "/"
		}
		if ty == seq.TokenizerTypeText && r.Chance(1, 5) {
			u = " "
		}
		sb.WriteString(u)
	}
	v := []byte(sb.String())
	if !hasUpper(v) {
		v = append([]byte(rng.Pick(r, []string{"A", "Ж", "Q"})), v...)
	}
	return v
}

func (g *gen) binaryRuns(tier, flagRepo string) {
	r := g.r
	repo := repoRoot(flagRepo)
	if repo == "" {
		g.w.Count("binary:skipped-no-repo")
		return
	}
	dir, err := os.MkdirTemp("", "verif-c11-build-")
	if err != nil {
		g.w.Count("binary:skipped-no-tmp")
		return
	}
	defer os.RemoveAll(dir)
	exe, err := buildBinary(repo, dir)
	if err != nil {
		fmt.Fprintln(os.Stderr, "hC11: cannot build ./cmd/seq-db, class bin-e2e skipped:", err)
		g.w.Count("binary:skipped-build-failed")
		return
	}
	nDocs, rounds := 10, 1
	if tier == "thorough" {
		nDocs, rounds = 40, 2
	}
	queries := 0
	for round := 0; round < rounds; round++ {
		for combo := 0; combo < 4; combo++ {
			f := binFlags{caseSensitive: combo&1 != 0, partial: combo&2 != 0, maxTokenSize: 72}
			if (combo+round+r.Intn(2))%2 == 0 {
				f.maxTokenSize = r.Range(6, 14)
			}
			seqql := r.Bool()
			p, err := startBinary(exe, f, seqql)
			if err != nil {
				fmt.Fprintln(os.Stderr, "hC11: seq-db did not start, one bin-e2e run skipped:", err)
				g.w.Count("binary:skipped-not-ready")
				continue
			}
			queries += g.binaryRun(p, f, seqql, nDocs)
			p.stop()
		}
	}
	g.w.Extra["binary_e2e_queries"] = queries
}

func (g *gen) binaryRun(p *binProc, f binFlags, seqql bool, nDocs int) int {
	r := g.r
	c := f.propCfg()
	type fld struct {
		name string
		ty   seq.TokenizerType
		val  []byte
	}
	type bdoc struct {
		uid, body string
		flds      []fld
	}
	var docs []bdoc
	var buf bytes.Buffer
	for i := 0; i < nDocs; i++ {
		d := bdoc{uid: fmt.Sprintf("d%d", i)}
		long := i%2 == 1
		k := genBinValue(r, seq.TokenizerTypeKeyword, long, f.maxTokenSize)
		t := genBinValue(r, seq.TokenizerTypeText, long, f.maxTokenSize)
		pp := genBinValue(r, seq.TokenizerTypePath, long, f.maxTokenSize)
		op := genBinValue(r, seq.TokenizerTypePath, !long, f.maxTokenSize)
		d.flds = []fld{{"k", seq.TokenizerTypeKeyword, k}, {"t", seq.TokenizerTypeText, t}, {"p", seq.TokenizerTypePath, pp}, {"o.p", seq.TokenizerTypePath, op}}
		d.body = fmt.Sprintf(`{"uid":%s,"k":%s,"t":%s,"p":%s,"o":{"p":%s}}`, jsonString([]byte(d.uid)), jsonString(k), jsonString(t), jsonString(pp), jsonString(op))
		docs = append(docs, d)
		buf.WriteString(`{"index":"seq-db"}` + "\n" + d.body + "\n")
	}
	flagsJSON := f.json()
	flagsJSON["use-seq-ql-by-default"] = seqql
	resp, err := http.Post(p.addr+"/_bulk", "", &buf)
	if err != nil {
		g.w.Count("binary:skipped-bulk-transport")
		return 0
	}
	body, _ := io.ReadAll(resp.Body)
	resp.Body.Close()
	if resp.StatusCode != http.StatusOK || strings.Contains(string(body), `"errors":true`) {
		g.w.Violate("bin-e2e-bulk-rejected", fmt.Sprintf("the binary rejected a bulk of well-formed documents: %s %.300s", resp.Status, body),
			map[string]any{"flags": flagsJSON, "docs": len(docs)})
		return 0
	}
	// the store indexes a bulk in the background: wait until every document answers to its uid
	settled := false
	for deadline := time.Now().Add(15 * time.Second); !settled && time.Now().Before(deadline); {
		settled = true
		for _, d := range docs {
			uids, errText := p.search("uid:" + d.uid)
			if errText != "" || !uids[d.uid] {
				settled = false
				time.Sleep(100 * time.Millisecond)
				break
			}
		}
	}
	if !settled {
		g.w.Count("binary:skipped-not-settled")
		return 0
	}
	n, retries := 0, 0
	ask := func(d bdoc, q, what string, want bool) {
		n++
		g.w.Evals(1)
		g.w.Count("binary:queries")
		uids, errText := p.search(q)
		if strings.HasPrefix(errText, "transport:") {
			g.w.Count("binary:skipped-search-transport")
			return
		}
		got := errText == "" && uids[d.uid]
		if got != want && want && retries < 5 {
			// once more after a pause (a few times per run): only an answer that stays wrong is reported
			retries++
			time.Sleep(300 * time.Millisecond)
			uids, errText = p.search(q)
			got = errText == "" && uids[d.uid]
		}
		if got != want {
			fp, msg := "bin-e2e-not-found", "real binary: the query made from the document's own "+what+" does not return the document"
			if !want {
				fp, msg = "bin-e2e-control", "real binary: control query ("+what+") returned the document"
			}
			g.w.Violate(fp, msg, map[string]any{"flags": flagsJSON, "doc": d.body, "query": q, "error": errText, "answers": len(uids)})
		}
	}
	for _, d := range docs {
		for _, fl := range d.flds {
			qs, cut, skipped := specQueries(fl.ty, c, 0, fl.val)
			if skipped {
				g.w.Count("binary:value-skipped")
			}
			if cut {
				g.w.Count("binary:value-indexed-by-prefix")
			}
			if len(qs) > 5 {
				rng.Shuffle(r, qs)
				qs = qs[:5]
			}
			for _, s := range qs {
				if !utf8.Valid(s) {
					continue // a cut inside a rune: the known finding's input class in case-sensitive mode, not asked here
				}
				if seqql {
					ask(d, fl.name+":"+quote(s, rng.Pick(r, []int{qDouble, qSingle}), r)+" and uid:"+d.uid, "field "+fl.name, true)
				} else {
					lq, _ := legacyQuote(s, r)
					ask(d, fl.name+":"+lq+" AND uid:"+d.uid, "field "+fl.name+" (legacy parser)", true)
				}
			}
			and := " AND "
			if seqql {
				and = " and "
			}
			ask(d, seq.TokenExists+":"+fl.name+and+"uid:"+d.uid, "field name "+fl.name+" (_exists_)", true)
		}
	}
	// control: a value no document has
	and := " AND "
	if seqql {
		and = " and "
	}
	ask(docs[0], "k:no_such_value_zzz"+and+"uid:"+docs[0].uid, "a value that was never indexed", false)
	g.w.Count(fmt.Sprintf("binary:run cs=%v,partial=%v,max-token-size=%d,seqql=%v", f.caseSensitive, f.partial, f.maxTokenSize, seqql))
	return n
}
