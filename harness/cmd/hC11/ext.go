// Extension of the C11 driver: the step from a field value to the query TEXT and through the query lexer
// (classes lex / qtext / roundtrip) and multi-type fields with in-place lower-casing (class multitype).
package main

import (
	"fmt"
	"strings"
	"unicode"
	"unicode/utf8"

	insaneJSON "github.com/ozontech/insane-json"

	"github.com/ozontech/seq-db/conf"
	"github.com/ozontech/seq-db/frac"
	"github.com/ozontech/seq-db/parser"
	"github.com/ozontech/seq-db/proxy/bulk"
	"github.com/ozontech/seq-db/seq"

	"verif/harness/internal/casefile"
	"verif/harness/internal/rng"
)

// ---------------------------------------------------------------- rendering with recorded choices

// quoteRec is quote() that also reports, for the double-escaped style, the choice made for every decoded
// unit of s (an ASCII byte or one DecodeRune step): true = the escaped form was written. The model's
// renderer (ModelLex.render) is replayed with these choices and must produce the same text.
func quoteRec(s []byte, style int, r *rng.R) (string, []bool) {
	if style != qDoubleEsc {
		return quote(s, style, r), nil
	}
	var sb strings.Builder
	var choices []bool
	q := byte('"')
	sb.WriteByte(q)
	for i := 0; i < len(s); {
		c := s[i]
		switch {
		case c == q || c == '\\' || c == '*':
			sb.WriteByte('\\')
			sb.WriteByte(c)
			choices = append(choices, false)
			i++
		case c < utf8.RuneSelf && (c < 0x20 || r.Chance(1, 6)):
			switch c {
			case '\n':
				sb.WriteString(`\n`)
			case '\t':
				sb.WriteString(`\t`)
			default:
				fmt.Fprintf(&sb, `\x%02x`, c)
			}
			choices = append(choices, true)
			i++
		case c >= utf8.RuneSelf:
			ru, w := utf8.DecodeRune(s[i:])
			if ru != utf8.RuneError && r.Chance(1, 2) {
				if ru > 0xFFFF {
					fmt.Fprintf(&sb, `\U%08x`, ru)
				} else {
					fmt.Fprintf(&sb, `\u%04x`, ru)
				}
				choices = append(choices, true)
			} else {
				sb.Write(s[i : i+w])
				choices = append(choices, false)
			}
			i += w
		default:
			sb.WriteByte(c)
			choices = append(choices, false)
			i++
		}
	}
	sb.WriteByte(q)
	return sb.String(), choices
}

func styleCoq(style int, choices []bool) string {
	switch style {
	case qDouble:
		return "StDouble"
	case qSingle:
		return "StSingle"
	case qRaw:
		return "StRaw"
	case qBare:
		return "StBare"
	}
	parts := make([]string, len(choices))
	for i, c := range choices {
		parts[i] = casefile.Bool(c)
	}
	return "(StDoubleEsc [" + strings.Join(parts, ";") + "])"
}

// ---------------------------------------------------------------- observation of the real parsers on a text

type pobs struct {
	kind  string // "err", "other", "plain", "in", "range"
	lits  [][]term
	ms    [][][]term
	from  term
	to    term
	incF  bool
	incT  bool
	errS  string
	panic bool
}

func termsCoq(l []term) string {
	ts := make([]string, len(l))
	for i, t := range l {
		ts[i] = termCoq(t)
	}
	return "[" + strings.Join(ts, "; ") + "]"
}

func litsListCoq(ls [][]term) string {
	out := make([]string, len(ls))
	for i, l := range ls {
		out[i] = termsCoq(l)
	}
	return "[" + strings.Join(out, "; ") + "]"
}

func (o pobs) coq() string {
	switch o.kind {
	case "err":
		return "OErr"
	case "plain":
		return "(OForm (QPlain " + litsListCoq(o.lits) + "))"
	case "in":
		ms := make([]string, len(o.ms))
		for i, m := range o.ms {
			ms[i] = litsListCoq(m)
		}
		return "(OForm (QIn [" + strings.Join(ms, "; ") + "]))"
	case "range":
		return fmt.Sprintf("(OForm (QRange (%s) (%s) %s %s))", termCoq(o.from), termCoq(o.to), casefile.Bool(o.incF), casefile.Bool(o.incT))
	}
	return "OOther"
}

func (o pobs) json() any {
	switch o.kind {
	case "err":
		return map[string]any{"error": o.errS}
	case "plain":
		return map[string]any{"literals": litsJSON(true, o.lits)}
	case "in":
		var ms []any
		for _, m := range o.ms {
			ms = append(ms, litsJSON(true, m))
		}
		return map[string]any{"in_members": ms}
	case "range":
		return map[string]any{"from": termCoq(o.from), "to": termCoq(o.to), "include_from": o.incF, "include_to": o.incT}
	}
	return "other tree shape"
}

func termOf(t parser.Term) term {
	if t.Kind == parser.TermSymbol {
		return term{star: true}
	}
	return term{data: []byte(t.Data)}
}

func observeRoot(root *parser.ASTNode, field string) pobs {
	if rt, ok := root.Value.(*parser.Range); ok {
		if rt.Field != field {
			return pobs{kind: "other"}
		}
		return pobs{kind: "range", from: termOf(rt.From), to: termOf(rt.To), incF: rt.IncludeFrom, incT: rt.IncludeTo}
	}
	var ms [][]*parser.Literal
	if !collectOr(root, &ms) {
		return pobs{kind: "other"}
	}
	var out [][][]term
	for _, m := range ms {
		var ls [][]term
		for _, l := range m {
			if l.Field != field {
				return pobs{kind: "other"}
			}
			for _, t := range l.Terms {
				if t.Kind == parser.TermSymbol && t.Data != "*" {
					return pobs{kind: "other"}
				}
			}
			ls = append(ls, toTerms(l))
		}
		out = append(out, ls)
	}
	if len(out) == 1 {
		return pobs{kind: "plain", lits: out[0]}
	}
	return pobs{kind: "in", ms: out}
}

// observe runs the real ParseSeqQL / ParseQuery on the query text
func (g *gen) observe(legacy bool, q, field string, mapping seq.Mapping, sens bool) (o pobs) {
	defer func() {
		if p := recover(); p != nil {
			g.w.Violate("parser-panic", fmt.Sprintf("the query parser panicked: %v", p), map[string]any{"query": q, "legacy_parser": legacy})
			o = pobs{kind: "other", panic: true}
		}
	}()
	conf.CaseSensitive = sens
	if legacy {
		root, err := parser.ParseQuery(q, mapping)
		if err != nil {
			return pobs{kind: "err", errS: err.Error()}
		}
		return observeRoot(root, field)
	}
	res, err := parser.ParseSeqQL(q, mapping)
	if err != nil {
		return pobs{kind: "err", errS: err.Error()}
	}
	if len(res.Pipes) != 0 {
		return pobs{kind: "other"}
	}
	return observeRoot(res.Root, field)
}

func (g *gen) lexCase(q string, class string) {
	defer func() {
		if p := recover(); p != nil {
			g.w.Violate("lexer-panic", fmt.Sprintf("the SeqQL lexer panicked: %v", p), map[string]any{"query": q, "query_bytes": bytesCoq([]byte(q))})
		}
	}()
	toks, ended := parser.VerifC11Lex(q, len(q)+2)
	coq := "None"
	var tj []string
	if ended {
		parts := make([]string, len(toks))
		for i, t := range toks {
			parts[i] = fmt.Sprintf("(mkTok %s %s %s %s)", bytesCoq([]byte(t.Text)), casefile.Bool(t.Quoted), casefile.Bool(t.Raw), casefile.Bool(t.Space))
			tj = append(tj, fmt.Sprintf("%q quoted=%v raw=%v space=%v", t.Text, t.Quoted, t.Raw, t.Space))
		}
		coq = "(Some [" + strings.Join(parts, "; ") + "])"
	} else {
		g.w.Violate("lexer-stuck", "the SeqQL lexer did not reach the end of the query", map[string]any{"query": q})
	}
	nontrivial := strings.ContainsAny(q, "\"'`\\*#") && len(toks) > 1
	g.w.Add(fmt.Sprintf("CLex %s %s", bytesCoq([]byte(q)), coq), class, nontrivial,
		map[string]any{"query": q, "query_bytes": bytesCoq([]byte(q))}, map[string]any{"tokens": tj, "ended": ended})
}

var tyShort = map[seq.TokenizerType]string{seq.TokenizerTypeKeyword: "keyword", seq.TokenizerTypeText: "text", seq.TokenizerTypePath: "path",
	seq.TokenizerTypeExists: "exists", seq.TokenizerTypeObject: "object"}

// ---------------------------------------------------------------- round trip: value -> literal text -> real parser

func renderAny(s []byte, r *rng.R) (string, string) {
	st := pickStyle(s, r)
	lit, ch := quoteRec(s, st, r)
	return lit, styleCoq(st, ch)
}

func (g *gen) roundCase() {
	r := g.r
	ty := rng.Pick(r, []seq.TokenizerType{seq.TokenizerTypeKeyword, seq.TokenizerTypeKeyword, seq.TokenizerTypeText,
		seq.TokenizerTypeText, seq.TokenizerTypePath})
	c, fmax := genCfg(r)
	var v []byte
	switch r.Intn(10) {
	case 0:
		v = genEscapeValue(r, r.Range(40, 400)) // very long values
	case 1, 2, 3, 4:
		v = genEscapeValue(r, r.Range(1, 12))
	default:
		v = genValue(r, ty)
	}
	if len(v) > 80 {
		c.maxTok, c.defField, fmax = 1000, 32768, 0
	}
	mapping := seq.Mapping{"f": seq.NewSingleType(ty, "", fmax)}
	buf := append([]byte{}, v...)
	var mt []frac.MetaToken
	mt = tokenizers(c)[ty].Tokenize(mt, []byte("f"), buf, fmax)
	toks := make([][]byte, len(mt))
	for i, t := range mt {
		toks[i] = append([]byte{}, t.Value...)
	}
	qs, _, skipped := specQueries(ty, c, fmax, v)
	if skipped {
		return
	}
	if len(qs) > 3 {
		rng.Shuffle(r, qs)
		qs = qs[:3]
	}
	for _, s := range qs {
		if bytesHasWild(s) || (c.cs && !utf8.Valid(s)) {
			continue // U+E000 is the parser's private wildcard; case-sensitive + invalid UTF-8 is the known finding
		}
		legacy := r.Chance(1, 4)
		var lit, stCoq, stName, posCoq, posName, q string
		if legacy {
			lit, stName = legacyQuote(s, r)
			stCoq = "StDouble"
			if stName == "legacy-bare" {
				stCoq = "StBare"
			}
			posCoq, posName = "PPlain", "plain"
			q = "f:" + lit
		} else {
			st := pickStyle(s, r)
			var ch []bool
			lit, ch = quoteRec(s, st, r)
			stCoq, stName = styleCoq(st, ch), styleNames[st]
			switch k := r.Intn(10); {
			case k < 5:
				posCoq, posName = "PPlain", "plain"
				q = "f:" + lit
			case k < 8:
				posCoq, q = g.inPosition(ty, lit, r)
				posName = "in"
			default:
				if strings.EqualFold(lit, "to") {
					posCoq, posName = "PPlain", "plain"
					q = "f:" + lit
				} else {
					posCoq, posName = "PRange", "range"
					q = "f:[" + lit + " to " + lit + "]"
				}
			}
		}
		o := g.observe(legacy, q, "f", mapping, c.cs)
		g.w.Count("roundtrip-style:" + stName)
		g.w.Count("roundtrip-position:" + posName)
		for _, b := range []byte("\"'`\\* \t\n:()[]|") {
			if strings.IndexByte(string(s), b) >= 0 {
				g.w.Count(fmt.Sprintf("roundtrip-byte:%q", b))
			}
		}
		if strings.Contains(string(s), "�") {
			g.w.Count("roundtrip-byte:U+FFFD")
		}
		if len(s) > 100 {
			g.w.Count("roundtrip:long-value")
		}
		if !utf8.Valid(s) {
			g.w.Count("roundtrip:invalid-utf8")
		}
		nontrivial := strings.ContainsAny(string(s), "\"'`\\* \t\n:()[]|") || !isASCII(s)
		g.w.Add(fmt.Sprintf("CRound %s %s %s %s %s %s %s %s %s", casefile.Bool(legacy), stCoq, posCoq, tyNames[ty], casefile.Bool(c.cs),
			bytesCoq(s), bytesCoq([]byte(q)), o.coq(), bytesListCoq(toks)), "roundtrip-"+tyShort[ty], nontrivial,
			map[string]any{"type": tyShort[ty], "legacy_parser": legacy, "case_sensitive": c.cs, "style": stName, "position": posName,
				"field_value": fmt.Sprintf("%q", v), "string": fmt.Sprintf("%q", s), "query": q, "max_token_size": c.maxTok,
				"partial_indexing": c.partial, "field_max_size": fmax},
			map[string]any{"parsed": o.json(), "index_tokens": fmt.Sprintf("%q", toks)})
		if r.Chance(1, 3) {
			g.lexCase(q, "lex-rendered")
		}
	}
}

// inPosition renders `f:in(b1, .., <lit>, a1, ..)` and the Coq term of the position
func (g *gen) inPosition(ty seq.TokenizerType, lit string, r *rng.R) (string, string) {
	side := func() ([]string, []string) {
		var coq, lits []string
		for i, n := 0, r.Intn(3); i < n; i++ {
			m := genValue(r, ty)
			st := pickStyle(m, r)
			l, ch := quoteRec(m, st, r)
			coq = append(coq, "("+styleCoq(st, ch)+", "+bytesCoq(m)+")")
			lits = append(lits, l)
		}
		return coq, lits
	}
	bc, bl := side()
	ac, al := side()
	var sb strings.Builder
	sb.WriteString("f:in(")
	for _, l := range bl {
		sb.WriteString(l + ", ")
	}
	sb.WriteString(lit)
	for _, l := range al {
		sb.WriteString(", " + l)
	}
	sb.WriteString(")")
	return "(PIn [" + strings.Join(bc, "; ") + "] [" + strings.Join(ac, "; ") + "])", sb.String()
}

func isASCII(s []byte) bool {
	for _, b := range s {
		if b >= 0x80 {
			return false
		}
	}
	return true
}

// values dense in the bytes that matter for quoting
const escapeBytes = "\"\"''``\\\\** \t\n:()[]|,#-._/{}"

func genEscapeValue(r *rng.R, n int) []byte {
	var sb strings.Builder
	for i := 0; i < n; i++ {
		switch k := r.Intn(20); {
		case k < 8:
			sb.WriteByte(escapeBytes[r.Intn(len(escapeBytes))])
		case k < 13:
			sb.WriteByte(asciiWord[r.Intn(len(asciiWord))])
		case k < 15:
			sb.WriteString(rng.Pick(r, special))
		case k < 16:
			sb.WriteString("�")
		case k < 17:
			sb.WriteString(rng.Pick(r, invalidSeqs))
		case k < 18:
			sb.WriteByte(byte(r.Intn(0x20)))
		default:
			sb.WriteString(genUnit(r))
		}
	}
	return []byte(sb.String())
}

// ---------------------------------------------------------------- malformed / free query texts

var textFrags = []string{"f", "f", "f", "_exists_", "g", "F", "f*", "\"f\"", "'f'", "`f`", ":", ":", ":", ": ", " :", "in", "IN", "In", "(", ")", "(", ")",
	"[", "]", "{", "}", ",", ", ", " to ", " TO ", "to", " and ", " or ", " AND ", "not ", "NOT ", "|", " | fields a", "*", "*", "\\*", "\\", "\\\\", "\"", "\"", "'", "'", "`", "`",
	" ", "  ", "\t", "\n", " ", " ", "#", "# c\n", "#x", "-", "_", ".", "a", "b", "ab", "Ab", "x1", "\\n", "\\t", "\\x41", "\\x4", "\\xZZ", "\\u0041", "\\u00e9", "\\u12",
	"\\ud800", "\\U0001F600", "\\U00110000", "\\101", "\\400", "\\8", "\\a", "\\'", "\\\"", "\\-", "\\/", "\\ ", "\\:", "é", "İ", "K", "�", "", "\xff", "\xc3", "\xe2\x82",
	"\"a b\"", "'a'", "`a`", "\"\"", "''", "``", "\"a\\\"b\"", "\"a*b\"", "\"a\\*b\"", "a*b", "*a", "a*", "**", "and", "or", "ſ", "in(", "in (", "[a to b]", "(1, 2]"}

var litFrags = []string{"a", "b", "ab", "Ab", "x1", "a-b", "a.b", "_", "-", "é", "İ", "K", "ſ", "*", "a*", "*a", "a*b", "\"a b\"", "'a'", "`a`", "\"\"", "''", "``",
	"\"a\\\"b\"", "\"a*b\"", "\"a\\*b\"", "\"\\n\\t\"", "\"\\x41\\u00e9\"", "'\\U0001F600'", "\"\\101\"", "\"\\xZZ\"", "\"\\u12\"", "'it\\'s'", "\"a\"b", "`a`\"`\"`b`",
	"\"(\"", "\"]\"", "\"a:b\"", "\"a|b\"", "\"\uFFFD\"", "\"\uE000\"", "\"\xff\"", "'\xc3'", "and", "to", "in", "\"and\"", "A_B.c-d"}

func (g *gen) lit() string {
	r := g.r
	if r.Chance(1, 7) {
		return rng.Pick(r, textFrags)
	}
	if r.Chance(1, 5) {
		v := genEscapeValue(r, r.Range(0, 6))
		return quote(v, pickStyle(v, r), r)
	}
	s := rng.Pick(r, litFrags)
	if r.Chance(1, 8) {
		s += rng.Pick(r, litFrags)
	}
	return s
}

func (g *gen) genText() string {
	r := g.r
	var sb strings.Builder
	ok := func(good string, bad ...string) string {
		if r.Chance(1, 8) {
			return rng.Pick(r, bad)
		}
		return good
	}
	switch r.Intn(8) {
	case 0: // any fragments
		for i, n := 0, r.Range(1, 9); i < n; i++ {
			sb.WriteString(rng.Pick(r, textFrags))
		}
	default: // field filter skeleton, mostly well formed
		sb.WriteString(ok("f", "_exists_", "g", " f", "f ", "\"f\"", "`f`", "F", "f*", ""))
		sb.WriteString(ok(":", ": ", " : ", "", "::"))
		switch r.Intn(4) {
		case 0:
			sb.WriteString(ok("in(", "in (", "IN(", "in", "In( "))
			for i, n := 0, r.Range(0, 4); i < n; i++ {
				if i > 0 {
					sb.WriteString(ok(rng.Pick(r, []string{",", ", "}), " ,", " ", ",,", ""))
				}
				sb.WriteString(g.lit())
			}
			sb.WriteString(ok(")", "", "]", ") ", "))"))
		case 1:
			sb.WriteString(ok(rng.Pick(r, []string{"[", "("}), "[ ", "{", ""))
			sb.WriteString(g.lit())
			sb.WriteString(ok(rng.Pick(r, []string{" to ", " TO ", ", ", ","}), " ", " To ", "to", ""))
			sb.WriteString(g.lit())
			sb.WriteString(ok(rng.Pick(r, []string{"]", ")"}), "", "}", "] ", "]]"))
		default:
			sb.WriteString(g.lit())
			if r.Chance(1, 6) {
				sb.WriteString(rng.Pick(r, []string{" ", "", "\t", "\n# c"}) + g.lit())
			}
		}
		if r.Chance(1, 10) {
			sb.WriteString(rng.Pick(r, []string{" and f:a", " or f:b", " | fields f", ")", " x", " ", "\n"}))
		}
	}
	return sb.String()
}

func (g *gen) qtextCase() {
	r := g.r
	ty := rng.Pick(r, []seq.TokenizerType{seq.TokenizerTypeKeyword, seq.TokenizerTypeKeyword, seq.TokenizerTypeText, seq.TokenizerTypeText, seq.TokenizerTypePath})
	if r.Chance(1, 12) {
		ty = rng.Pick(r, []seq.TokenizerType{seq.TokenizerTypeExists, seq.TokenizerTypeObject})
	}
	sens := r.Chance(2, 5)
	legacy := r.Chance(1, 3)
	q := g.genText()
	if legacy && r.Chance(3, 4) {
		// the legacy grammar: field:term / field:"quoted term", escapes \" \\ \* in quotes, \<special> outside
		var sb strings.Builder
		sb.WriteString(rng.Pick(r, []string{"f", "f", "f", "f ", " f", "_exists_", "g", "F"}))
		sb.WriteString(rng.Pick(r, []string{":", ":", ":", ": ", " :"}))
		if r.Chance(1, 2) {
			v := genEscapeValue(r, r.Range(0, 8))
			l, _ := legacyQuote(v, r)
			if r.Chance(1, 4) {
				l = strings.Replace(l, "\\*", "*", 1)
			}
			sb.WriteString(l)
		} else {
			for i, n := 0, r.Range(1, 4); i < n; i++ {
				sb.WriteString(rng.Pick(r, []string{"a", "b", "Ab", "x1", "é", "İ", "K", "*", "a*", "\\-", "\\/", "\\ ", "\\:", "\\*", "\\\\", "\\\"", "\\(", "-", "_", ".", "/", "\"a b\"", "\"a\\\"b\"", "\"\\q\"", "\\q", "\uFFFD", "\xff", "'", "`"}))
			}
		}
		if r.Chance(1, 10) {
			sb.WriteString(rng.Pick(r, []string{" ", " AND f:a", " x", ")", "\""}))
		}
		q = sb.String()
	}
	mapping := seq.Mapping{"f": seq.NewSingleType(ty, "", 0)}
	field := "f"
	if strings.HasPrefix(strings.TrimLeft(q, " "), "_exists_") {
		field = "_exists_"
	}
	o := g.observe(legacy, q, field, mapping, sens)
	if o.panic {
		return
	}
	g.w.Count("qtext:" + o.kind)
	class := "qtext-seqql"
	if legacy {
		class = "qtext-legacy"
	}
	g.w.Add(fmt.Sprintf("CQText %s %s %s %s %s %s", casefile.Bool(legacy), bytesCoq([]byte("f")), tyNames[ty], casefile.Bool(sens), bytesCoq([]byte(q)), o.coq()),
		class, o.kind != "err" && o.kind != "other",
		map[string]any{"query": q, "query_bytes": bytesCoq([]byte(q)), "type": tyShort[ty], "case_sensitive": sens, "legacy_parser": legacy},
		map[string]any{"parsed": o.json()})
	if !legacy {
		g.lexCase(q, "lex-free")
	}
}

// ---------------------------------------------------------------- multi-type fields, in-place lower-casing

func genCaseValue(r *rng.R) []byte {
	var sb strings.Builder
	for i, n := 0, r.Range(1, 14); i < n; i++ {
		switch k := r.Intn(20); {
		case k < 4:
			sb.WriteByte("ABCDEFGHXYZ"[r.Intn(11)])
		case k < 6:
			sb.WriteByte(asciiWord[r.Intn(len(asciiWord))])
		case k < 9:
			sb.WriteRune(rng.Pick(r, sameWidthUp))
		case k < 13:
			sb.WriteRune(rng.Pick(r, widthChanging))
		case k < 14:
			sb.WriteString(rng.Pick(r, []string{"İ", "K", "Ω", "Ⱥ", "ẞ", "Å", "Ɐ"}))
		case k < 16:
			sb.WriteString(rng.Pick(r, []string{"/", "/", " ", "-", "_", "*"}))
		case k < 18:
			sb.WriteString(rng.Pick(r, invalidSeqs))
		default:
			sb.WriteString(genUnit(r))
		}
	}
	return []byte(sb.String())
}

func (g *gen) multiCase() {
	r := g.r
	c, _ := genCfg(r)
	if r.Chance(3, 4) {
		c.cs = false
	}
	var v []byte
	if r.Chance(2, 3) {
		v = genCaseValue(r)
	} else {
		v = genValue(r, rng.Pick(r, []seq.TokenizerType{seq.TokenizerTypeKeyword, seq.TokenizerTypeText, seq.TokenizerTypePath}))
	}
	n := r.Range(2, 4)
	var all []seq.MappingType
	mapping := seq.Mapping{}
	for i := 0; i < n; i++ {
		t := rng.Pick(r, []seq.TokenizerType{seq.TokenizerTypeKeyword, seq.TokenizerTypeKeyword, seq.TokenizerTypeText, seq.TokenizerTypeText,
			seq.TokenizerTypePath, seq.TokenizerTypePath, seq.TokenizerTypeExists})
		title := fmt.Sprintf("k.t%d", i)
		if i == 0 {
			title = "k"
		}
		sz := 0
		if r.Chance(1, 2) {
			sz = r.Range(1, 16)
		}
		all = append(all, seq.MappingType{Title: title, TokenizerType: t, MaxSize: sz})
	}
	main := all[0]
	rng.Shuffle(r, all) // title order permuted: the main type anywhere
	if r.Chance(1, 5) {
		for i := range all {
			if all[i].Title == "k" {
				all[i].Title = "" // the field name itself
			}
		}
	}
	mapping["k"] = seq.MappingTypes{Main: main, All: all}
	doc := `{"k":` + jsonString(v) + `}`
	// the value as insaneJSON hands it to the indexer
	root := insaneJSON.Spawn()
	defer insaneJSON.Release(root)
	if err := root.DecodeString(doc); err != nil {
		panic("harness produced a document insaneJSON rejects: " + doc)
	}
	val := append([]byte{}, root.Dig("k").AsBytes()...)
	ix := bulk.VerifNewIndexer(mapping, tokenizers(c))
	metas, err := g.safeIndex(ix, doc)
	if err != nil && err.Error() == "panic" {
		return
	}
	if err != nil || len(metas) != 1 {
		g.w.Violate("multitype-index-error", fmt.Sprintf("bulk processor failed on a well-formed document: %v", err), map[string]any{"doc": doc})
		return
	}
	var ts, tj []string
	for _, t := range metas[0] {
		ts = append(ts, "("+bytesCoq(t.Key)+", "+bytesCoq(t.Value)+")")
		tj = append(tj, fmt.Sprintf("%q:%q", t.Key, t.Value))
	}
	// every title's REAL tokenizer on a fresh copy of the original value
	var per, allCoq []string
	var perJ [][]string
	tk := tokenizers(c)
	for _, t := range all {
		var mt []frac.MetaToken
		mt = tk[t.TokenizerType].Tokenize(mt, []byte("x"), append([]byte{}, val...), t.MaxSize)
		vals := make([][]byte, len(mt))
		var pj []string
		for i, m := range mt {
			vals[i] = append([]byte{}, m.Value...)
			pj = append(pj, fmt.Sprintf("%q", m.Value))
		}
		per = append(per, bytesListCoq(vals))
		perJ = append(perJ, pj)
		allCoq = append(allCoq, fmt.Sprintf("(%s, %s, %d)", bytesCoq([]byte(t.Title)), tyNames[t.TokenizerType], t.MaxSize))
	}
	wc, sw := false, false
	for _, ru := range string(val) {
		if l := unicode.ToLower(ru); l != ru {
			if utf8.RuneLen(l) != utf8.RuneLen(ru) {
				wc = true
			} else if ru >= 0x80 {
				sw = true
			}
		}
	}
	if wc {
		g.w.Count("multitype:length-changing-lower-case")
	}
	if sw {
		g.w.Count("multitype:length-preserving-lower-case")
	}
	if !utf8.Valid(val) {
		g.w.Count("multitype:invalid-utf8")
	}
	g.w.Count(fmt.Sprintf("multitype:titles-%d", len(all)))
	g.w.Count(fmt.Sprintf("multitype:case-sensitive-%v", c.cs))
	g.w.Add(fmt.Sprintf("CMulti %s [%s] %s %s [%s] [%s]", c.coq(), strings.Join(allCoq, "; "), bytesCoq([]byte("k")), bytesCoq(val),
		strings.Join(per, "; "), strings.Join(ts, "; ")), "multitype", !c.cs && (wc || sw || !isASCII(val)),
		map[string]any{"doc": doc, "titles": allCoq, "case_sensitive": c.cs, "partial_indexing": c.partial, "max_token_size": c.maxTok,
			"default_max_field_value_length": c.defField, "value": fmt.Sprintf("%q", val)},
		map[string]any{"meta": tj, "tokenizers_on_original_value": perJ})
}

func (g *gen) extCases(tier string) {
	nRound, nText, nMulti := 800, 800, 400
	if tier == "thorough" {
		nRound, nText, nMulti = 12000, 12000, 5000
	}
	for i := 0; i < nRound; i++ {
		g.roundCase()
	}
	for i := 0; i < nText; i++ {
		g.qtextCase()
	}
	for i := 0; i < nMulti; i++ {
		g.multiCase()
	}
}
