package main

func main() { probe() }
