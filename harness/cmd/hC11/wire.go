// Extension of the C11 driver: the WIRING from the configuration of the binary to the tokenizers and to the case
// rule of the query side (classes wire-keyword / wire-text / wire-path [-legacy] and wire-doc).
//
// Unlike the other classes, nothing here builds a tokenizer or a bulk processor itself: the indexer is made ONLY by
// the production constructor bulk.NewIngestor from a bulk.IngestorConfig filled the way cmd/seq-db startProxy() fills
// it from the flags, documents go through Ingestor.ProcessDocuments (processor pool, JSON decode, indexer with the
// tokenizer map, meta marshalling, compression) to a recording storage client, and the tokens are read back from
// the bytes the client received. The query side runs with conf.CaseSensitive set the way cmd/seq-db main() sets it
// from the same flags. (cmd/seq-db is package main and cannot be imported: binaryWiring below is its transcription,
// mirrored by ModelWire.start_proxy_bulk / main_conf_case_sensitive.)
package main

import (
	"context"
	"fmt"
	"strings"
	"time"
	"unicode"
	"unicode/utf8"

	insaneJSON "github.com/ozontech/insane-json"

	"github.com/ozontech/seq-db/conf"
	"github.com/ozontech/seq-db/consts"
	"github.com/ozontech/seq-db/disk"
	"github.com/ozontech/seq-db/frac"
	"github.com/ozontech/seq-db/packer"
	"github.com/ozontech/seq-db/parser"
	"github.com/ozontech/seq-db/proxy/bulk"
	"github.com/ozontech/seq-db/seq"

	"verif/harness/internal/casefile"
	"verif/harness/internal/rng"
)

// the three flags of cmd/seq-db the wiring reads
type binFlags struct {
	maxTokenSize  int  // --max-token-size
	caseSensitive bool // --case-sensitive
	partial       bool // --partial-indexing
}

func (f binFlags) coq() string {
	return fmt.Sprintf("(Flags %d %s %s)", f.maxTokenSize, casefile.Bool(f.caseSensitive), casefile.Bool(f.partial))
}

func (f binFlags) json() map[string]any {
	return map[string]any{"max-token-size": f.maxTokenSize, "case-sensitive": f.caseSensitive, "partial-indexing": f.partial}
}

// the configuration as the PROPERTY reads it (for the Go-side list of queries; re-derived inside Coq)
func (f binFlags) propCfg() icfg {
	return icfg{cs: f.caseSensitive, partial: f.partial, maxTok: f.maxTokenSize, defField: consts.MaxTextFieldValueLength}
}

type fixedMapping struct{ m seq.Mapping }

func (p fixedMapping) GetMapping() seq.Mapping        { return p.m }
func (p fixedMapping) GetRawMapping() *seq.RawMapping { return nil }

// binaryWiring: cmd/seq-db/seq-db.go — main(): conf.CaseSensitive = *flagCaseSensitive; startProxy(): the
// bulk.IngestorConfig literal (the other fields with the defaults of flags.go)
func binaryWiring(f binFlags, mapping seq.Mapping) (bulk.IngestorConfig, bool) {
	cfg := bulk.IngestorConfig{
		MaxInflightBulks:       consts.IngestorMaxInflightBulks,
		AllowedTimeDrift:       24 * time.Hour,
		FutureAllowedTimeDrift: 5 * time.Minute,
		MappingProvider:        fixedMapping{mapping},
		MaxTokenSize:           f.maxTokenSize,
		CaseSensitive:          f.caseSensitive,
		PartialFieldIndexing:   f.partial,
		DocsZSTDCompressLevel:  1,
		MetasZSTDCompressLevel: 1,
		MaxDocumentSize:        128 * consts.KB,
	}
	confCaseSensitive := f.caseSensitive
	return cfg, confCaseSensitive
}

// recording storage client: keeps a copy of the compressed metas block of the last bulk
type recClient struct {
	metas []byte
	count int
	calls int
}

func (c *recClient) StoreDocuments(_ context.Context, count int, _, metas []byte) error {
	c.metas = append(c.metas[:0], metas...)
	c.count = count
	c.calls++
	return nil
}

type wiredIngestor struct {
	ing    *bulk.Ingestor
	client *recClient
	confCS bool
}

func newWired(f binFlags, mapping seq.Mapping) *wiredIngestor {
	cfg, confCS := binaryWiring(f, mapping)
	c := &recClient{}
	return &wiredIngestor{ing: bulk.NewIngestor(cfg, c), client: c, confCS: confCS}
}

// ingest pushes ONE document through Ingestor.ProcessDocuments and decodes the metas the client received
func (g *gen) ingest(wi *wiredIngestor, doc string, in map[string]any) (metas [][]bulk.VerifToken, ok bool) {
	defer func() {
		if p := recover(); p != nil {
			g.w.Violate("wire-ingest-panic", fmt.Sprintf("Ingestor.ProcessDocuments panicked: %v", p), in)
			metas, ok = nil, false
		}
	}()
	wi.client.calls = 0
	docs := [][]byte{[]byte(doc)}
	n, err := wi.ing.ProcessDocuments(context.Background(), time.Now(), func() ([]byte, error) {
		if len(docs) == 0 {
			return nil, nil
		}
		d := docs[0]
		docs = docs[1:]
		return d, nil
	})
	if err != nil || n != 1 || wi.client.calls != 1 || wi.client.count != 1 {
		g.w.Violate("wire-ingest-error", fmt.Sprintf("a well-formed document was not stored through the production ingestor: n=%d err=%v client calls=%d", n, err, wi.client.calls), in)
		return nil, false
	}
	raw, err := disk.DocBlock(wi.client.metas).DecompressTo(nil)
	if err != nil {
		g.w.Violate("wire-metas-undecodable", "the metas block handed to the storage client does not decompress: "+err.Error(), in)
		return nil, false
	}
	u := packer.NewBytesUnpacker(raw)
	for u.Len() > 0 {
		md := frac.MetaData{}
		if err := md.UnmarshalBinary(u.GetBinary()); err != nil {
			g.w.Violate("wire-metas-undecodable", "a meta handed to the storage client does not unmarshal: "+err.Error(), in)
			return nil, false
		}
		ts := make([]bulk.VerifToken, len(md.Tokens))
		for i, t := range md.Tokens {
			ts[i] = bulk.VerifToken{Key: append([]byte{}, t.Key...), Value: append([]byte{}, t.Value...)}
		}
		metas = append(metas, ts)
	}
	return metas, true
}

func metaCoq(meta []bulk.VerifToken) (string, []string) {
	var ts, tj []string
	for _, t := range meta {
		ts = append(ts, "("+bytesCoq(t.Key)+", "+bytesCoq(t.Value)+")")
		tj = append(tj, fmt.Sprintf("%q:%q", t.Key, t.Value))
	}
	return "[" + strings.Join(ts, "; ") + "]", tj
}

func hasUpper(v []byte) bool {
	for _, ru := range string(v) {
		if ru != utf8.RuneError && unicode.ToLower(ru) != ru {
			return true
		}
	}
	return false
}

var upperUnits = []string{"A", "Q", "Z", "X", "Ä", "Ж", "Σ", "İ", "K", "Ⱥ", "ẞ", "Å", "Ǆ", "Ｚ"}

// insertAtRuneStart puts u into v at a random position that does not split a rune of v
func insertAtRuneStart(r *rng.R, v []byte, u string) []byte {
	var starts []int
	for i := 0; i <= len(v); {
		starts = append(starts, i)
		if i == len(v) {
			break
		}
		_, w := utf8.DecodeRune(v[i:])
		i += w
	}
	k := starts[r.Intn(len(starts))]
	out := append([]byte{}, v[:k]...)
	out = append(out, u...)
	return append(out, v[k:]...)
}

type wireCombo struct {
	cs, partial, large bool
}

func (c wireCombo) name() string {
	sz := "small"
	if c.large {
		sz = "large"
	}
	return fmt.Sprintf("cs=%v,partial=%v,max-token-size=%s", c.cs, c.partial, sz)
}

func (c wireCombo) flags(r *rng.R) binFlags {
	f := binFlags{caseSensitive: c.cs, partial: c.partial}
	if c.large {
		f.maxTokenSize = rng.Pick(r, []int{72, 72, 72, 64, 100})
	} else {
		f.maxTokenSize = r.Range(2, 14)
	}
	return f
}

var wireTypes = []seq.TokenizerType{seq.TokenizerTypePath, seq.TokenizerTypeKeyword, seq.TokenizerTypeText}

// wireCase: the find-keyword / find-text / find-path / exists streams through the production wiring
func (g *gen) wireCase(i int, cache map[string]*wiredIngestor) {
	r := g.r
	combo := wireCombo{cs: i&1 != 0, partial: i&2 != 0, large: i&4 != 0}
	ty := wireTypes[(i/8)%3]
	f := combo.flags(r)
	c := f.propCfg()
	fmax := 0
	if r.Chance(1, 3) {
		fmax = r.Range(1, 30)
	}
	wantUpper := r.Chance(3, 4)
	wantLong := r.Chance(2, 5)

	var v []byte
	if c.cs && ty != seq.TokenizerTypeText && r.Chance(3, 4) {
		v = genValidValue(r, ty) // keep the known finding cs-invalid-utf8 rare in this stream
	} else {
		v = genValue(r, ty)
	}
	if wantUpper && !hasUpper(v) {
		v = insertAtRuneStart(r, v, rng.Pick(r, upperUnits))
	}
	if wantLong {
		if ty == seq.TokenizerTypeText {
			// a word longer than MaxTokenSize, and (with a per-field size) a value longer than the field limit
			var sb strings.Builder
			for sb.Len() <= f.maxTokenSize+r.Intn(4) {
				sb.WriteByte(asciiWord[r.Intn(len(asciiWord)-4)])
			}
			v = append(append(v, ' '), sb.String()...)
			if fmax == 0 && r.Chance(1, 2) {
				fmax = r.Range(4, 40)
			}
		}
		for lim := limitOf(ty, c, fmax); lim < 4096 && len(v) <= lim; {
			more := genValue(r, ty)
			if c.cs && ty != seq.TokenizerTypeText {
				more = genValidValue(r, ty)
			}
			if ty == seq.TokenizerTypePath && len(v) > 0 && r.Chance(1, 2) {
				v = append(v, '/')
			}
			v = append(v, more...)
			v = append(v, rng.Pick(r, upperUnits)...)
		}
	}

	mapping := seq.Mapping{"f": seq.NewSingleType(ty, "", fmax)}
	key := fmt.Sprintf("%v/%d/%d", f, ty, fmax)
	wi := cache[key]
	if wi == nil {
		wi = newWired(f, mapping)
		cache[key] = wi
	}
	doc := `{"f":` + jsonString(v) + `}`
	// the value as insaneJSON hands it to the indexer
	root := insaneJSON.Spawn()
	defer insaneJSON.Release(root)
	if err := root.DecodeString(doc); err != nil {
		panic("harness produced a document insaneJSON rejects: " + doc)
	}
	val := append([]byte{}, root.Dig("f").AsBytes()...)

	tyn := map[seq.TokenizerType]string{seq.TokenizerTypeKeyword: "keyword", seq.TokenizerTypeText: "text", seq.TokenizerTypePath: "path"}[ty]
	in := map[string]any{"flags": f.json(), "constructor": "bulk.NewIngestor(startProxy's IngestorConfig) + Ingestor.ProcessDocuments",
		"mapping": map[string]any{"f": tyn, "max_size": fmax}, "doc": doc, "value": fmt.Sprintf("%q", val), "value_bytes": bytesCoq(val)}
	metas, ok := g.ingest(wi, doc, in)
	if !ok {
		return
	}
	if len(metas) != 1 {
		g.w.Violate("wire-metas-count", fmt.Sprintf("a flat document produced %d metas", len(metas)), in)
		return
	}
	var toks, exists [][]byte
	for _, t := range metas[0] {
		switch string(t.Key) {
		case "f":
			toks = append(toks, t.Value)
		case seq.TokenExists:
			exists = append(exists, t.Value)
		}
	}

	// query side: conf.CaseSensitive as main() sets it from the same flags
	qs, cut, skipped := specQueries(ty, c, fmax, val)
	ordered := r.Bool()
	legacy := r.Chance(1, 3)
	var qcoq []string
	var qjson []any
	allFound := true
	for _, s := range qs {
		var (
			lit, stName string
			pok         bool
			lits        [][]term
			leaves      []*parser.Literal
			perr        string
		)
		if legacy {
			lit, stName = legacyQuote(s, r)
			pok, lits, leaves, perr = runLegacy("f", lit, mapping, wi.confCS)
		} else {
			st := pickStyle(s, r)
			lit, stName = quote(s, st, r), styleNames[st]
			pok, lits, leaves, perr = runQuery("f", lit, mapping, wi.confCS)
		}
		fd := pok && found(leaves, toks, ordered)
		allFound = allFound && fd
		qcoq = append(qcoq, fmt.Sprintf("(%s, %s, %s)", bytesCoq(s), litsCoq(pok, lits), casefile.Bool(fd)))
		qjson = append(qjson, map[string]any{"query": "f:" + lit, "string": fmt.Sprintf("%q", s), "style": stName,
			"literals": litsJSON(pok, lits), "found": fd, "error": perr, "conf.CaseSensitive": wi.confCS})
	}
	// field existence
	eok, elits, eleaves, eerr := runQuery(seq.TokenExists, quote([]byte("f"), rng.Pick(r, []int{qDouble, qSingle, qRaw, qBare}), r), mapping, wi.confCS)
	efound := eok && found(eleaves, exists, r.Bool())

	part := val
	if cut {
		part = val[:limitOf(ty, c, fmax)]
	}
	class := "wire-" + tyn
	if legacy {
		class += "-legacy"
	}
	known := c.cs && ty != seq.TokenizerTypeText && !skipped && !utf8.Valid(part)
	up := hasUpper(val)
	over := cut || skipped
	if ty == seq.TokenizerTypeText && !over {
		for _, w := range strings.FieldsFunc(string(val), func(ru rune) bool { return !isWordRune(ru) }) {
			over = over || len(w) > f.maxTokenSize
		}
	}
	cn := combo.name()
	g.w.Count("wire:" + cn)
	g.w.Count("wire-type:" + tyn)
	if up {
		g.w.Count("wire-upper:" + cn)
	}
	if over {
		g.w.Count("wire-over-limit:" + cn)
	}
	if cut {
		g.w.Count("wire:indexed-by-prefix")
	}
	if skipped {
		g.w.Count("wire:skipped")
	}
	mc, mj := metaCoq(metas[0])
	coq := fmt.Sprintf("CWire %s %s %s %d %s %s [%s] (%s, %s)", casefile.Bool(legacy), f.coq(), tyNames[ty], fmax, bytesCoq(val), mc,
		strings.Join(qcoq, "; "), litsCoq(eok, elits), casefile.Bool(efound))
	if known {
		class = "cs-invalid-utf8"
		if !allFound {
			coq = "CKnown (" + coq + ")"
			g.w.Violate("cs-invalid-utf8", "case-sensitive mode: the query made from a keyword/path value (or its cut prefix) that is not valid UTF-8 does not find the indexed token",
				map[string]any{"type": tyn, "legacy_parser": legacy, "value": fmt.Sprintf("%q", val), "flags": f.json(), "field_max_size": fmax,
					"index_tokens": fmt.Sprintf("%q", toks), "queries": qjson, "through": "bulk.NewIngestor"})
		}
	}
	in["legacy_parser"] = legacy
	g.w.Add(coq, class, (up || over) && !skipped && len(qs) > 0, in,
		map[string]any{"meta": mj, "queries": qjson, "all_found": allFound,
			"exists_query": map[string]any{"literals": litsJSON(eok, elits), "found": efound, "error": eerr}})
}

// wireDocCase: a generated nested document (objects, tags, nested arrays, multi-type fields) through the production path
func (g *gen) wireDocCase(i int) {
	r := g.r
	combo := wireCombo{cs: i&1 != 0, partial: i&2 != 0, large: i&4 != 0}
	f := combo.flags(r)
	d := &docGen{r: r, mapping: seq.Mapping{}}
	doc := d.object("", 0)
	wi := newWired(f, d.mapping)
	defer wi.ing.Stop()
	in := map[string]any{"flags": f.json(), "constructor": "bulk.NewIngestor(startProxy's IngestorConfig) + Ingestor.ProcessDocuments",
		"doc": doc, "mapping": mappingCoq(d.mapping)}
	metas, ok := g.ingest(wi, doc, in)
	if !ok {
		return
	}
	root := insaneJSON.Spawn()
	defer insaneJSON.Release(root)
	if err := root.DecodeString(doc); err != nil {
		panic("harness produced a document insaneJSON rejects: " + doc)
	}
	var ms []string
	var mj [][]string
	nTok := 0
	for _, meta := range metas {
		mc, tj := metaCoq(meta)
		ms = append(ms, mc)
		mj = append(mj, tj)
		nTok += len(meta)
	}
	g.w.Count("wire-doc:" + combo.name())
	container := false
	for _, mt := range d.mapping {
		switch mt.Main.TokenizerType {
		case seq.TokenizerTypeObject, seq.TokenizerTypeTags, seq.TokenizerTypeNested:
			container = true
		}
	}
	g.w.Add(fmt.Sprintf("CWireDoc %s %s %s [%s]", f.coq(), mappingCoq(d.mapping), jvalCoq(root.Node), strings.Join(ms, "; ")),
		"wire-doc", nTok > 3 && container, in, map[string]any{"metas": mj})
}

func (g *gen) wireCases(tier string) {
	nWire, nDoc := 1680, 160
	if tier == "thorough" {
		nWire, nDoc = 24000, 2400
	}
	old := conf.CaseSensitive
	defer func() { conf.CaseSensitive = old }()
	cache := map[string]*wiredIngestor{}
	for i := 0; i < nWire; i++ {
		g.wireCase(i, cache)
	}
	for _, wi := range cache {
		wi.ing.Stop()
	}
	for i := 0; i < nDoc; i++ {
		g.wireDocCase(i)
	}
}
