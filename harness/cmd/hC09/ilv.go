// Interleaving class of hC09: the replicas of the real client are GATED fakes.  A replica call
// arrives (the goroutine started by shard.Bulk has entered StoreApiClient.Bulk), waits for the
// controller's permit to begin (only then does it look at the context, like a gRPC call that does
// not send on a done context), reports the store-side accept, and blocks until the controller
// releases it or its context is done.  The controller executes the planned schedule of the visit
// (start i / return i / cancel the request context) and records what really happened; the Coq
// model (ModelIlv.v) is run under the OBSERVED schedule.
//
// Ragged class: tiers whose shards have different replica counts (ModelFlat.v).
package main

import (
	"context"
	"errors"
	"fmt"
	"sort"
	"strings"
	"time"

	"google.golang.org/protobuf/types/known/emptypb"

	"github.com/ozontech/seq-db/pkg/storeapi"

	"verif/harness/internal/casefile"
	"verif/harness/internal/rng"
)

const ackWait = 5 * time.Second

func (f *fake) bulkIlv(rc *runCtx, ctx context.Context, in *storeapi.BulkRequest) (*emptypb.Empty, error) {
	rc.mu.Lock()
	key := fmt.Sprintf("%s/%d/%d", f.tier, f.shard, f.rep)
	n := rc.ncall[key]
	rc.ncall[key] = n + 1
	sc := rc.tierOf(f.tier)[f.shard].Reps[f.rep]
	o := oOk
	if n < len(sc) {
		o = sc[n]
	}
	pay := 99
	for j, p := range rc.pays {
		if in != nil && in.Count == p.count && string(in.Docs) == string(p.docs) && string(in.Metas) == string(p.metas) {
			pay = j
		}
	}
	ic := &icall{tier: f.tier, shard: f.shard, rep: f.rep, o: o,
		permit: make(chan struct{}), release: make(chan struct{}), ack: make(chan struct{}, 4)}
	rc.arrived = append(rc.arrived, ic)
	rc.cond.Broadcast()
	rc.mu.Unlock()

	<-ic.permit // the call begins: it observes the context now

	rc.mu.Lock()
	if err := ctx.Err(); err != nil {
		rc.pending = append(rc.pending, pcall{f.tier, f.shard, call{f.rep, oCtx, pay}})
		rc.curSched = append(rc.curSched, evJ{"s", f.rep})
		ic.state = 2
		rc.mu.Unlock()
		ic.ack <- struct{}{}
		return nil, err
	}
	if accepted(o) {
		a := f.rep
		if pay != rc.self {
			a += 100 // the store accepted something that is not this bulk's payload
		}
		rc.curAccs = append(rc.curAccs, a)
	}
	rc.curSched = append(rc.curSched, evJ{"s", f.rep})
	ic.state = 1
	rc.mu.Unlock()
	ic.ack <- struct{}{}

	late := false
	select {
	case <-ic.release:
	case <-ctx.Done():
		if o == oSlowOk {
			<-ic.release // a stub that ignores the context: answers when the store does
		} else {
			late = true
		}
	}
	if !late && o != oSlowOk && ctx.Err() != nil {
		late = true // released and expired at the same moment: the context wins, as in the model
	}
	logged := o
	if late {
		logged = oTimeout // the call returns the context's error, whatever the store did
	}
	rc.mu.Lock()
	rc.pending = append(rc.pending, pcall{f.tier, f.shard, call{f.rep, logged, pay}})
	rc.curSched = append(rc.curSched, evJ{"r", f.rep})
	ic.state = 2
	if !late && accepted(o) {
		rc.okReps[key] = true
	}
	rc.mu.Unlock()
	ic.ack <- struct{}{}
	if late {
		return nil, ctx.Err()
	}
	if accepted(o) {
		return &emptypb.Empty{}, nil
	}
	return nil, errors.New("scripted store error")
}

func waitAck(ic *icall) {
	select {
	case <-ic.ack:
	case <-time.After(ackWait):
	}
}

// controller drives the gated calls of one bulk, visit after visit
func (rc *runCtx) controller() {
	for {
		rc.mu.Lock()
		for len(rc.arrived) == 0 && !rc.stopped {
			rc.cond.Wait()
		}
		if rc.stopped {
			rc.mu.Unlock()
			return
		}
		first := rc.arrived[0]
		ordinal := rc.total
		expected := 0
		for i := range rc.tierOf(first.tier)[first.shard].Reps {
			if !rc.okReps[fmt.Sprintf("%s/%d/%d", first.tier, first.shard, i)] {
				expected++
			}
		}
		var plan []evJ
		if rc.sc.Ilv != nil && ordinal < len(rc.sc.Ilv.Visits) {
			plan = rc.sc.Ilv.Visits[ordinal]
		}
		rc.mu.Unlock()
		// gather the calls of the visit (all unwritten replicas, by the fakes' own bookkeeping)
		deadline := time.Now().Add(150 * time.Millisecond)
		for {
			rc.mu.Lock()
			n := len(rc.arrived)
			rc.mu.Unlock()
			if n >= expected || time.Now().After(deadline) {
				break
			}
			time.Sleep(20 * time.Microsecond)
		}
		for _, e := range plan {
			rc.doEvent(e)
		}
		// drain: begin and release whatever is left, in replica order, until the visit is closed
		for {
			rc.mu.Lock()
			if rc.total != ordinal || rc.stopped {
				rc.mu.Unlock()
				break
			}
			var next *icall
			for _, ic := range rc.arrived {
				if ic.state != 2 && (next == nil || ic.rep < next.rep) {
					next = ic
				}
			}
			rc.mu.Unlock()
			if next == nil {
				time.Sleep(20 * time.Microsecond)
				continue
			}
			if next.state == 0 {
				rc.doEvent(evJ{"s", next.rep})
			} else {
				rc.doEvent(evJ{"r", next.rep})
			}
		}
	}
}

func (rc *runCtx) doEvent(e evJ) {
	rc.mu.Lock()
	var ic *icall
	for _, c := range rc.arrived {
		if c.rep == e.I {
			ic = c
		}
	}
	switch e.K {
	case "s":
		if ic == nil || ic.state != 0 {
			rc.mu.Unlock()
			return
		}
		rc.mu.Unlock()
		close(ic.permit)
		waitAck(ic)
		rc.mu.Lock()
		if ic.state == 0 { // cannot happen: the fake always acknowledges
			ic.state = 1
		}
		rc.mu.Unlock()
	case "r":
		if ic == nil || ic.state != 1 {
			rc.mu.Unlock()
			return
		}
		rc.mu.Unlock()
		select {
		case <-ic.release:
		default:
			close(ic.release)
		}
		waitAck(ic)
	case "x":
		if rc.expired {
			rc.mu.Unlock()
			return
		}
		rc.expired = true
		rc.cancel()
		rc.curSched = append(rc.curSched, evJ{"x", 0})
		var fly []*icall
		for _, c := range rc.arrived {
			if c.state == 1 && c.o != oSlowOk {
				fly = append(fly, c)
			}
		}
		rc.mu.Unlock()
		for _, c := range fly { // the calls in flight return the context's error
			select {
			case <-c.ack:
			case <-time.After(250 * time.Millisecond): // a call that does not see the expiry (reported through the log)
			}
		}
	default:
		rc.mu.Unlock()
	}
}

// closeVisitIlv is called by the circuit's collector when a visit ends (rc.mu held)
func (rc *runCtx) closeVisitIlv(expireNow bool) {
	s := append([]evJ{}, rc.curSched...)
	if expireNow {
		s = append(s, evJ{"x", 0})
	}
	a := append([]int{}, rc.curAccs...)
	sort.Ints(a)
	rc.scheds = append(rc.scheds, s)
	rc.accs = append(rc.accs, a)
	rc.curSched, rc.curAccs, rc.arrived = nil, nil, nil
}

// ---------------------------------------------------------------- generators

func perms(n int) [][]int {
	if n == 0 {
		return [][]int{{}}
	}
	var out [][]int
	for _, p := range perms(n - 1) {
		for k := 0; k <= len(p); k++ {
			q := append(append(append([]int{}, p[:k]...), n-1), p[k:]...)
			out = append(out, q)
		}
	}
	return out
}

func repScripts(r *rng.R, nrep, n int, pBad, pSlow int) [][]int {
	reps := make([][]int, nrep)
	for i := range reps {
		sc := make([]int, n)
		for k := range sc {
			switch {
			case r.Chance(pBad, 100):
				sc[k] = oErr
			case r.Chance(pSlow, 100):
				sc[k] = oSlowOk
			}
		}
		reps[i] = sc
	}
	return reps
}

func ilvTier(r *rng.R, reps []int, n, pBad, pSlow, pOpen int) []shardIn {
	t := make([]shardIn, len(reps))
	for s, nr := range reps {
		op := make([]bool, n)
		for k := range op {
			op[k] = r.Chance(pOpen, 100)
		}
		t[s] = shardIn{Open: op, Reps: repScripts(r, nr, n, pBad, pSlow)}
	}
	return t
}

// a random linearisation of the start/return steps of nrep calls
func randSchedule(r *rng.R, nrep int) []evJ {
	state := make([]int, nrep)
	var out []evJ
	for len(out) < 2*nrep {
		i := r.Intn(nrep)
		if state[i] == 0 {
			out = append(out, evJ{"s", i})
			state[i] = 1
		} else if state[i] == 1 {
			out = append(out, evJ{"r", i})
			state[i] = 2
		}
	}
	return out
}

func insertAt(s []evJ, k int, e evJ) []evJ {
	out := append([]evJ{}, s[:k]...)
	out = append(out, e)
	return append(out, s[k:]...)
}

func genIlv(r *rng.R, tier string, tries int) []script {
	var out []script
	n := tries
	// (a) one shard of 2 / 3 replicas: every release order x every start order (first visit), scripts random
	for _, nr := range []int{2, 3} {
		for _, ps := range perms(nr) {
			for _, pr := range perms(nr) {
				if nr == 3 && tier != "thorough" && r.Chance(1, 2) {
					continue
				}
				var plan []evJ
				for _, i := range ps {
					plan = append(plan, evJ{"s", i})
				}
				for _, i := range pr {
					plan = append(plan, evJ{"r", i})
				}
				sc := script{Gen: fmt.Sprintf("ilv-perm-hot1x%d", nr), Cold: []shardIn{}, Shuffle: int64(r.U64() >> 1),
					Hot: ilvTier(r, []int{nr}, n, 35, 0, 0), Ilv: &ilvScript{Visits: [][]evJ{plan, randSchedule(r, nr)}}}
				out = append(out, sc)
			}
		}
	}
	// (b) one shard of r replicas, all accepting or one failing: the context expires while k of r
	// calls are in flight, after j of them returned (every k, every j), and before any began
	for _, nr := range []int{1, 2, 3} {
		for k := 0; k <= nr; k++ {
			for j := 0; j <= k; j++ {
				for variant := 0; variant < 3; variant++ {
					var plan []evJ
					for i := 0; i < k; i++ {
						plan = append(plan, evJ{"s", i})
					}
					for i := 0; i < j; i++ {
						plan = append(plan, evJ{"r", (i + variant) % nr})
					}
					plan = append(plan, evJ{"x", 0})
					pBad, pSlow := 0, 0
					if variant == 1 {
						pBad = 30
					}
					if variant == 2 {
						pSlow = 40
					}
					sc := script{Gen: fmt.Sprintf("ilv-expire-inflight-hot1x%d", nr), Cold: []shardIn{}, Shuffle: int64(r.U64() >> 1),
						Hot: ilvTier(r, []int{nr}, n, pBad, pSlow, 0), Ilv: &ilvScript{Visits: [][]evJ{plan}}}
					if r.Chance(1, 3) { // the same in the second visit, after a failed first one
						sc.Hot[0].Reps[r.Intn(nr)][0] = oErr
						sc.Ilv.Visits = [][]evJ{randSchedule(r, nr), plan}
					}
					out = append(out, sc)
				}
			}
		}
	}
	// (c) random topologies, scripts, schedules and expiry points; 4-5 replicas in some
	nrand := 420
	if tier == "thorough" {
		nrand = 8000
	}
	for q := 0; q < nrand; q++ {
		mkReps := func() []int {
			ns := r.Range(1, 3)
			reps := make([]int, ns)
			nr := r.Range(1, 3)
			if r.Chance(1, 6) {
				nr = r.Range(4, 5)
			}
			for i := range reps {
				reps[i] = nr
			}
			return reps
		}
		pBad := []int{10, 30, 55}[r.Intn(3)]
		pSlow := 0
		if r.Chance(1, 3) {
			pSlow = 15
		}
		hot := mkReps()
		sc := script{Gen: "ilv-random", Cold: []shardIn{}, Shuffle: int64(r.U64() >> 1), Hot: ilvTier(r, hot, n, pBad, pSlow, 8)}
		maxr := hot[0]
		if r.Chance(2, 5) {
			cold := mkReps()
			sc.Cold = ilvTier(r, cold, n, pBad, pSlow, 8)
			if cold[0] > maxr {
				maxr = cold[0]
			}
		}
		nv := r.Range(1, 6)
		plans := make([][]evJ, nv)
		for v := range plans {
			plans[v] = randSchedule(r, maxr)
		}
		switch p := r.Intn(100); {
		case p < 45: // expiry inside a visit
			v := r.Intn(nv)
			plans[v] = insertAt(plans[v], r.Intn(len(plans[v])+1), evJ{"x", 0})
			sc.Gen += "+expire-in-visit"
		case p < 65: // expiry at a visit boundary (also: in the back-off after it) / before the call
			sc.Ctx = &ctxScript{Mode: "cancel", AfterVisits: r.Intn(5)}
			sc.Gen += "+expire-at-boundary"
		case p < 72: // malformed plan: steps of replicas that do not exist, returns before starts, repeats
			for v := range plans {
				for x := 0; x < 3; x++ {
					plans[v] = insertAt(plans[v], r.Intn(len(plans[v])+1), evJ{[]string{"s", "r", "r", "q"}[r.Intn(4)], r.Intn(8)})
				}
			}
			sc.Gen += "+malformed-plan"
		}
		sc.Ilv = &ilvScript{Visits: plans}
		out = append(out, sc)
	}
	return out
}

// ragged tiers.  narrow: every shard has at most as many replicas as the last one (incl. shards
// without replicas) — runs like any other script (CBulk); zero-last: the last shard has no replica,
// the calls of the others all fail (one success would kill the process, see ModelFlat.v); wide: a
// shard has more replicas than the last one — StoreDocuments panics when it visits it (CRagged)
func genRagged(r *rng.R, tier string, tries int) []script {
	var out []script
	n := tries + 1
	narrow := [][]int{{1, 2}, {1, 3}, {2, 1, 3}, {0, 1}, {0, 2}, {1, 0, 2}, {2, 2, 3}, {0}, {1, 1, 2}}
	wide := [][]int{{2, 1}, {3, 1}, {3, 2}, {1, 3, 2}, {2, 3, 1}, {3, 3, 2}, {1, 2, 1}}
	reps := 12
	if tier == "thorough" {
		reps = 100
	}
	for q := 0; q < reps; q++ {
		for _, sh := range narrow {
			pBad := []int{0, 30, 60}[r.Intn(3)]
			sc := script{Gen: "ragged-narrow", Cold: []shardIn{}, Shuffle: int64(r.U64() >> 1), Hot: genTier(r, len(sh), 1, n, pBad, 10, 0)}
			for s := range sc.Hot {
				sc.Hot[s].Reps = genReps(r, sh[s], n, pBad, 0)
			}
			if r.Chance(1, 3) {
				c := narrow[r.Intn(len(narrow))]
				sc.Cold = genTier(r, len(c), 1, n, pBad, 10, 0)
				for s := range sc.Cold {
					sc.Cold[s].Reps = genReps(r, c[s], n, pBad, 0)
				}
			}
			out = append(out, sc)
		}
		for _, sh := range [][]int{{1, 0}, {2, 0}, {1, 2, 0}} {
			sc := script{Gen: "ragged-zero-last", Cold: []shardIn{}, Shuffle: int64(r.U64() >> 1), Hot: genTier(r, len(sh), 1, n, 0, 15, 0)}
			for s := range sc.Hot {
				sc.Hot[s].Reps = genReps(r, sh[s], n+2, 100, 0) // every call fails
			}
			out = append(out, sc)
		}
		for _, sh := range wide {
			pBad := []int{0, 30, 60}[r.Intn(3)]
			sc := script{Gen: "ragged-wide", Ragged: true, Cold: []shardIn{}, Shuffle: int64(r.U64() >> 1), Hot: genTier(r, len(sh), 1, n, pBad, 10, 0)}
			for s := range sc.Hot {
				sc.Hot[s].Reps = genReps(r, sh[s], n, pBad, 0)
			}
			if r.Chance(1, 3) { // the wide shard in the long-term tier instead
				sc.Cold = sc.Hot
				sc.Hot = genTier(r, r.Range(1, 2), r.Range(1, 2), n, pBad, 10, 0)
			}
			out = append(out, sc)
		}
	}
	return out
}

// ---------------------------------------------------------------- rendering

func schedCoq(ss [][]evJ) string {
	vs := make([]string, len(ss))
	for i, s := range ss {
		es := make([]string, len(s))
		for k, e := range s {
			switch e.K {
			case "s":
				es[k] = fmt.Sprintf("EStart %d", e.I)
			case "r":
				es[k] = fmt.Sprintf("EReturn %d", e.I)
			default:
				es[k] = "EExpire"
			}
		}
		vs[i] = "[" + strings.Join(es, "; ") + "]"
	}
	return "[" + strings.Join(vs, "; ") + "]"
}

func emitIlv(w *casefile.Writer, sc *script, res *result) {
	for _, v := range res.Viol {
		fp, what, _ := strings.Cut(v, "|")
		w.Violate(fp, what, sc)
	}
	cord := ordersOf(res.Log, "cold", len(sc.Cold))
	hord := ordersOf(res.Log, "hot", len(sc.Hot))
	accs := make([]string, len(res.Accs))
	for i, a := range res.Accs {
		accs[i] = casefile.NatList(a)
	}
	term := fmt.Sprintf("CIlv %d %s %s %s %s %s %s %s %s [%s]", res.Tries, tierCoq(sc.Cold), tierCoq(sc.Hot),
		ordersCoq(cord), ordersCoq(hord), casefile.Bool(res.D0), schedCoq(res.Sched), casefile.Bool(res.Ok), logCoq(res.Log), strings.Join(accs, "; "))
	// what the observed schedules exercised
	outOfOrder, expInVisit, expBoundary, lateAccepted, startedDead, failing := false, false, false, false, false, false
	for vi, s := range res.Sched {
		last := -1
		fly := 0
		for k, e := range s {
			switch e.K {
			case "s":
				fly++
			case "r":
				fly--
				if e.I < last {
					outOfOrder = true
				}
				last = e.I
			case "x":
				if k == len(s)-1 && fly == 0 {
					expBoundary = true
				} else {
					expInVisit = true
					w.Count(fmt.Sprintf("ilv:expired-with-%d-in-flight", fly))
				}
			}
		}
		if vi < len(res.Log) && vi < len(res.Accs) {
			for _, c := range res.Log[vi].Calls {
				if !accepted(c.Out) {
					failing = true
				}
				if c.Out == oCtx {
					startedDead = true
				}
				if c.Out == oTimeout {
					for _, a := range res.Accs[vi] {
						if a == c.Rep {
							lateAccepted = true
						}
					}
				}
			}
			if res.Log[vi].Short {
				failing = true
			}
		}
	}
	class := "ilv:fail"
	if res.Ok {
		class = "ilv:ack"
	}
	if res.D0 || expInVisit || expBoundary {
		class += "+ctx-expired"
	}
	w.Count("gen:" + sc.Gen)
	for name, b := range map[string]bool{"returns-out-of-replica-order": outOfOrder, "expired-inside-visit": expInVisit,
		"expired-at-boundary": expBoundary, "expired-before-call": res.D0, "accepted-but-late": lateAccepted, "call-started-after-expiry": startedDead} {
		if b {
			w.Count("ilv:" + name)
		}
	}
	w.Add(term, class, failing || outOfOrder || expInVisit, sc,
		map[string]any{"ok": res.Ok, "log": res.Log, "tries": res.Tries, "sched": res.Sched, "accs": res.Accs, "d0": res.D0})
}

func emitRagged(w *casefile.Writer, sc *script, res *result) {
	for _, v := range res.Viol {
		fp, what, _ := strings.Cut(v, "|")
		w.Violate(fp, what, sc)
	}
	cord := ordersOf(res.Log, "cold", len(sc.Cold))
	hord := ordersOf(res.Log, "hot", len(sc.Hot))
	verdict := 1
	class := "ragged:fail"
	switch {
	case res.Panicked:
		verdict, class = 2, "ragged:panic-on-wide-shard"
	case res.Ok:
		verdict, class = 0, "ragged:ack-without-visiting-the-wide-shard"
	}
	term := fmt.Sprintf("CRagged %d %s %s %s %s %d %s", res.Tries, tierCoq(sc.Cold), tierCoq(sc.Hot),
		ordersCoq(cord), ordersCoq(hord), verdict, logCoq(res.Log))
	w.Count("gen:" + sc.Gen)
	w.Add(term, class, true, sc, map[string]any{"ok": res.Ok, "panicked": res.Panicked, "log": res.Log, "tries": res.Tries})
}
