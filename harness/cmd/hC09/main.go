// hC09 — correspondence driver for property C09 (a bulk is acknowledged only when a full
// replica set holds it in every tier).
//
// It drives the REAL bulk.SeqDBClient.StoreDocuments (proxy/bulk/seqdb_client.go) against scripted
// fake storeapi.StoreApiClient replicas and scripted circuit-breaker states, observes the result
// and the log of shard visits / replica calls, and writes each run as a Coq case (see
// props/C09/coq/CaseDefs.v).
//
// Circuit breakers are process-global (circuitbreaker.New keeps them by name), so one process
// runs its scripts strictly one after the other; parallelism comes from child processes.  The
// shard order (util.IdxShuffle, math/rand) is made reproducible by seeding the global source per
// script, which needs the pre-1.24 meaning of rand.Seed:
//
//go:debug randseednop=0
package main

import (
	"bufio"
	"bytes"
	"context"
	"encoding/json"
	"errors"
	"flag"
	"fmt"
	"math/rand"
	"os"
	"os/exec"
	"path/filepath"
	"sort"
	"strings"
	"sync"
	"time"

	"github.com/cep21/circuit/v3"
	"go.uber.org/zap/zapcore"
	"google.golang.org/grpc"
	"google.golang.org/protobuf/types/known/emptypb"

	"github.com/ozontech/seq-db/consts"
	"github.com/ozontech/seq-db/logger"
	"github.com/ozontech/seq-db/network/circuitbreaker"
	"github.com/ozontech/seq-db/pkg/storeapi"
	"github.com/ozontech/seq-db/proxy/bulk"
	"github.com/ozontech/seq-db/proxy/stores"

	"verif/harness/internal/casefile"
	"verif/harness/internal/rng"
)

// ---------------------------------------------------------------- scripts

const (
	oOk = iota
	oErr
	oSlowOk
	oTimeout
	oHang   // script only: no answer until the CALLER's context is done (it expires 2 ms later); = OTimeout + context expiry
	oHangOk // script only: accepted, but answered only after the caller's context was done; = OSlowOk + context expiry
	oCtx    // log only: the caller's context was already done, the call returned its error at once
)

// scripts render oHang/oHangOk as the outcome the call is logged with
var outcomeCoq = []string{"OOk", "OErr", "OSlowOk", "OTimeout", "OTimeout", "OSlowOk", "OCtx"}

func accepted(o int) bool { return o == oOk || o == oSlowOk || o == oHangOk }

type shardIn struct {
	Open []bool  `json:"open"` // k-th visit of the shard finds the circuit open
	Reps [][]int `json:"reps"` // per replica: outcome of its n-th call
}

// the caller's request context: it becomes done when the AfterVisits-th shard visit ends (0 = it is
// already done on entry).  mode "cancel": cancelled at exactly that point; mode "deadline": the
// context carries a real 50 ms deadline that falls into the 100 ms back-off following that visit
// (the generator guarantees that the second failed attempt ends there).
type ctxScript struct {
	Mode        string `json:"mode"`
	AfterVisits int    `json:"after_visits"`
}

type script struct {
	Gen     string     `json:"gen"`
	Cold    []shardIn  `json:"cold"`
	Hot     []shardIn  `json:"hot"`
	Shuffle int64      `json:"shuffle_seed"`
	Ctx     *ctxScript `json:"ctx,omitempty"`
	// further bulks sent through the SAME client object after this one (same topology; own
	// scripts, shuffle seed, context and payload)
	More []script `json:"more,omitempty"`
	// interleaving class: the replicas are gated fakes, every shard visit follows a planned schedule
	Ilv *ilvScript `json:"ilv,omitempty"`
	// ragged class with a shard that has more replicas than the last shard of its tier
	Ragged bool `json:"ragged,omitempty"`
}

// one step of a visit's schedule: "s" = the call of replica I begins (it observes the context),
// "r" = it returns, "x" = the request context is cancelled
type evJ struct {
	K string `json:"k"`
	I int    `json:"i"`
}

// planned schedule per shard visit (by ordinal of the visit in the run); steps that are not
// applicable when their turn comes are skipped, what was really done is recorded
type ilvScript struct {
	Visits [][]evJ `json:"visits"`
}

type call struct {
	Rep int `json:"rep"`
	Out int `json:"out"`
	Pay int `json:"pay"` // 0 = exactly the payload given to StoreDocuments
}

type visit struct {
	Tier  string `json:"tier"` // "cold" | "hot"
	Shard int    `json:"shard"`
	Short bool   `json:"short"`
	Calls []call `json:"calls"`
}

type result struct {
	Idx   int      `json:"idx"`
	Ok    bool     `json:"ok"`
	Log   []visit  `json:"log"`
	Viol  []string `json:"viol,omitempty"` // directly observed violations: "fingerprint|what"
	Tries int      `json:"tries"`
	// number of completed shard visits when the caller's context became done (nil: it never did)
	CancelAt *int     `json:"cancel_at,omitempty"`
	More     []result `json:"more,omitempty"` // results of script.More, in order
	// interleaving class: observed schedule and store-side accept log per visit, context done on entry
	Sched [][]evJ `json:"sched,omitempty"`
	Accs  [][]int `json:"accs,omitempty"`
	D0    bool    `json:"d0,omitempty"`
	// ragged class: StoreDocuments panicked
	Panicked bool `json:"panicked,omitempty"`
}

// ---------------------------------------------------------------- generators

func genReps(r *rng.R, nrep, n int, pBad, pSlow int) [][]int {
	reps := make([][]int, nrep)
	for i := range reps {
		sc := make([]int, n)
		for k := range sc {
			switch {
			case r.Chance(pBad, 100):
				if r.Chance(pSlow, 100) {
					sc[k] = oTimeout
				} else {
					sc[k] = oErr
				}
			default:
				if r.Chance(pSlow, 100) {
					sc[k] = oSlowOk
				}
			}
		}
		reps[i] = sc
	}
	return reps
}

func genTier(r *rng.R, ns, nr, n int, pBad, pOpen, pSlow int) []shardIn {
	t := make([]shardIn, ns)
	for s := range t {
		op := make([]bool, n)
		for k := range op {
			op[k] = r.Chance(pOpen, 100)
		}
		t[s] = shardIn{Open: op, Reps: genReps(r, nr, n, pBad, pSlow)}
	}
	return t
}

// random script; the profile decides how hostile the environment is
func genRandom(r *rng.R, tries int) script {
	n := tries + r.Intn(2) // script length per replica / per shard (exhausted = ok / closed)
	var pBad, pOpen int
	gen := ""
	switch p := r.Intn(100); {
	case p < 40:
		gen, pBad, pOpen = "rnd-light", 20, 8
	case p < 70:
		gen, pBad, pOpen = "rnd-mixed", 45, 15
	case p < 80:
		gen, pBad, pOpen = "rnd-heavy", 80, 35
	default:
		gen = "rnd-partial" // first calls fail now and then, later ones succeed: skip logic
	}
	pSlow := 0
	if r.Chance(1, 4) {
		pSlow = 12
	}
	sc := script{Gen: gen, Shuffle: int64(r.U64() >> 1)}
	mk := func() []shardIn {
		ns, nr := r.Range(1, 3), r.Range(1, 3)
		if gen == "rnd-partial" {
			t := genTier(r, ns, nr, n, 0, 0, pSlow)
			for s := range t {
				if r.Chance(1, 5) {
					t[s].Open[0] = true
				}
				for i := range t[s].Reps {
					if r.Chance(1, 2) {
						t[s].Reps[i][0] = oErr
					}
					if r.Chance(1, 6) {
						t[s].Reps[i][1] = oErr
					}
				}
			}
			return t
		}
		return genTier(r, ns, nr, n, pBad, pOpen, pSlow)
	}
	sc.Hot = mk()
	if r.Bool() {
		sc.Cold = mk()
	} else {
		sc.Cold = []shardIn{}
	}
	// the caller's request context expires somewhere in 15% of the scripts
	if r.Chance(15, 100) {
		sc.Gen += "+ctx"
		if r.Chance(3, 5) {
			sc.Ctx = &ctxScript{Mode: "cancel", AfterVisits: r.Intn(8)}
			if r.Chance(1, 3) {
				sc.Ctx.AfterVisits = r.Intn(3)
			}
		} else {
			// a call that hangs until the caller's deadline (answering ok just after it, or never)
			t := sc.Hot
			if len(sc.Cold) > 0 && r.Bool() {
				t = sc.Cold
			}
			sh := t[r.Intn(len(t))]
			o := oHang
			if r.Chance(1, 3) {
				o = oHangOk
			}
			sh.Reps[r.Intn(len(sh.Reps))][r.Intn(2)] = o
		}
	}
	return sc
}

// the real 50 ms deadline of the request falls into the 100 ms back-off after the second failed
// attempt: the first tier tried has a replica that fails its first two calls in every shard, no
// call waits for a timeout, so two attempts (2 x #shards visits) fail within microseconds
func genBackoff(r *rng.R) script {
	sc := script{Gen: "ctx-deadline-in-backoff", Shuffle: int64(r.U64() >> 1), Cold: []shardIn{}}
	sc.Hot = genTier(r, r.Range(1, 3), r.Range(1, 3), 3, 40, 10, 0)
	first := sc.Hot
	if r.Bool() {
		sc.Cold = genTier(r, r.Range(1, 3), r.Range(1, 3), 3, 40, 10, 0)
		first = sc.Cold
	}
	for s := range first {
		first[s].Reps[0][0], first[s].Reps[0][1] = oErr, oErr
	}
	sc.Ctx = &ctxScript{Mode: "deadline", AfterVisits: 2 * len(first)}
	return sc
}

// ---- sequences of bulks on one client

func healthyTier(t []shardIn, n int) []shardIn {
	out := make([]shardIn, len(t))
	for s := range t {
		out[s].Open = make([]bool, n)
		out[s].Reps = make([][]int, len(t[s].Reps))
		for i := range out[s].Reps {
			out[s].Reps[i] = make([]int, n)
		}
	}
	return out
}

// 2..4 bulks through one client: bulks that exhaust their tries after partial success ("down":
// one replica of every shard of a tier rejects every call while the others accept), healthy
// ones, random ones and ones whose request context expires
func genSeq(r *rng.R, tries int) script {
	n := tries
	hot := genTier(r, r.Range(1, 3), r.Range(1, 3), n, 0, 0, 0)
	cold := []shardIn{}
	if r.Chance(2, 5) {
		cold = genTier(r, r.Range(1, 2), r.Range(1, 3), n, 0, 0, 0)
	}
	mk := func(first bool) script {
		b := script{Shuffle: int64(r.U64() >> 1), Hot: healthyTier(hot, n), Cold: healthyTier(cold, n)}
		k := r.Intn(100)
		if first {
			k = r.Intn(70) // the first bulk is more often a failing one
		}
		switch {
		case k < 45: // down
			t := b.Hot
			if len(b.Cold) > 0 && r.Bool() {
				t = b.Cold
			}
			for s := range t {
				for i := range t[s].Reps {
					for c := range t[s].Reps[i] {
						if r.Chance(1, 5) {
							t[s].Reps[i][c] = oErr
						}
					}
				}
				d := r.Intn(len(t[s].Reps))
				for c := range t[s].Reps[d] {
					t[s].Reps[d][c] = oErr
				}
			}
		case k < 60: // random
			for _, t := range [][]shardIn{b.Hot, b.Cold} {
				for s := range t {
					for c := range t[s].Open {
						t[s].Open[c] = r.Chance(15, 100)
					}
					t[s].Reps = genReps(r, len(t[s].Reps), n, 40, 5)
				}
			}
		case k < 72: // context expires
			for _, t := range [][]shardIn{b.Hot, b.Cold} {
				for s := range t {
					t[s].Reps = genReps(r, len(t[s].Reps), n, 30, 0)
				}
			}
			b.Ctx = &ctxScript{Mode: "cancel", AfterVisits: r.Intn(4)}
		default: // healthy
		}
		return b
	}
	sc := mk(true)
	sc.Gen = "seq-random"
	for nb := r.Range(1, 3); nb > 0; nb-- {
		sc.More = append(sc.More, mk(false))
	}
	return sc
}

// every {ok,err} script as the first bulk, followed by a bulk that finds every replica healthy
func genSeqExhaustive(name string, coldR, hotR []int, n int, r *rng.R) []script {
	out := genExhaustive(name, coldR, hotR, n, false, r)
	for i := range out {
		out[i].More = []script{{Shuffle: int64(r.U64() >> 1), Hot: healthyTier(out[i].Hot, n), Cold: healthyTier(out[i].Cold, n)}}
	}
	return out
}

// every {ok,err} script of length n x every expiry point of the request context
func genExhaustiveCtx(name string, coldR, hotR []int, n, maxV int, r *rng.R) []script {
	var out []script
	for v := 0; v <= maxV; v++ {
		for _, sc := range genExhaustive(name, coldR, hotR, n, false, r) {
			sc.Ctx = &ctxScript{Mode: "cancel", AfterVisits: v}
			out = append(out, sc)
		}
	}
	return out
}

// all scripts over {ok, err} of length n for a topology given as replica counts per shard
func genExhaustive(name string, coldR, hotR []int, n int, withOpen bool, r *rng.R) []script {
	cells := 0
	for _, x := range coldR {
		cells += x * n
	}
	for _, x := range hotR {
		cells += x * n
	}
	openCells := 0
	if withOpen {
		openCells = (len(coldR) + len(hotR)) * n
	}
	var out []script
	for m := 0; m < 1<<(cells+openCells); m++ {
		bit := 0
		next := func() bool { b := m>>bit&1 == 1; bit++; return b }
		mk := func(rs []int) []shardIn {
			t := make([]shardIn, len(rs))
			for s, nr := range rs {
				t[s].Open = make([]bool, n)
				t[s].Reps = make([][]int, nr)
				for i := range t[s].Reps {
					t[s].Reps[i] = make([]int, n)
					for k := 0; k < n; k++ {
						if next() {
							t[s].Reps[i][k] = oErr
						}
					}
				}
			}
			return t
		}
		sc := script{Gen: name, Cold: mk(coldR), Hot: mk(hotR), Shuffle: int64(r.U64() >> 1)}
		if withOpen {
			for _, t := range [][]shardIn{sc.Cold, sc.Hot} {
				for s := range t {
					for k := 0; k < n; k++ {
						t[s].Open[k] = next()
					}
				}
			}
		}
		out = append(out, sc)
	}
	return out
}

func genScripts(seed uint64, tier string, tries int) []script {
	r := rng.New(seed)
	var out []script
	n := tries
	if n > 3 {
		n = 3
	}
	if n < 1 {
		n = 1
	}
	out = append(out, genExhaustive("exh-hot1x1-open", nil, []int{1}, n, true, r)...)
	out = append(out, genExhaustive("exh-hot1x2", nil, []int{2}, n, false, r)...)
	out = append(out, genExhaustive("exh-hot2x1", nil, []int{1, 1}, n, false, r)...)
	out = append(out, genExhaustive("exh-cold1x1-hot1x1", []int{1}, []int{1}, n, false, r)...)
	out = append(out, genExhaustiveCtx("exh-ctx-hot1x1", nil, []int{1}, n, 3, r)...)
	if n > 1 {
		out = append(out, genExhaustiveCtx("exh-ctx-cold1x1-hot1x1", []int{1}, []int{1}, 2, 4, r)...)
	}
	out = append(out, genSeqExhaustive("seq-exh-hot1x2-then-healthy", nil, []int{2}, n, r)...)
	if n > 1 {
		out = append(out, genSeqExhaustive("seq-exh-cold1x1-hot1x1-then-healthy", []int{1}, []int{1}, 2, r)...)
	}
	nback := 18
	nrand := 2800
	nseq := 150
	if tier == "thorough" {
		nback = 300
		nseq = 3000
		nrand = 60000
		out = append(out, genExhaustive("exh-cold1x2-hot1x1", []int{2}, []int{1}, n, false, r)...)
		out = append(out, genExhaustive("exh-cold1x1-hot2x1", []int{1}, []int{1, 1}, n, false, r)...)
		out = append(out, genExhaustive("exh-cold1x1-hot1x1-open", []int{1}, []int{1}, 2, true, r)...)
	}
	if tries == 3 { // the placement of the deadline relies on the 0 / 100 ms back-off of three tries
		for i := 0; i < nback; i++ {
			out = append(out, genBackoff(r))
		}
	}
	for i := 0; i < nseq; i++ {
		out = append(out, genSeq(r, tries))
	}
	for i := 0; i < nrand; i++ {
		out = append(out, genRandom(r, tries))
	}
	// new streams draw from forks so that the scripts above stay what they were
	out = append(out, genIlv(r.Fork(), tier, tries)...)
	out = append(out, genRagged(r.Fork(), tier, tries)...)
	return out
}

// ---------------------------------------------------------------- running one script on the real client

type runCtx struct {
	mu      sync.Mutex
	sc      *script
	pays    []payload // payloads of all bulks of the sequence; the one being sent is pays[self]
	self    int
	pending []pcall
	visits  []visit
	nvisit  map[string]int // "tier/shard" -> visits so far
	ncall   map[string]int // "tier/shard/rep" -> calls so far
	viol    []string
	// request context
	cancel      func()
	dead        bool // logical: every later call returns the context error
	pendingDead bool // a hanging call of the visit in progress let the context expire
	total       int  // completed visits
	cancelAt    *int
	// interleaving class
	ilv      bool
	cond     *sync.Cond
	arrived  []*icall // gated calls of the visit in progress
	curSched []evJ
	curAccs  []int
	scheds   [][]evJ
	accs     [][]int
	okReps   map[string]bool // replicas whose fake returned success for this bulk
	stopped  bool
	expired  bool
}

// a replica call held by the controller
type icall struct {
	tier       string
	shard, rep int
	o          int
	state      int // 0 arrived, 1 in flight, 2 returned
	permit     chan struct{}
	release    chan struct{}
	ack        chan struct{}
}

type payload struct {
	docs, metas []byte
	count       int64
}

type pcall struct {
	tier  string
	shard int
	c     call
}

var cur *runCtx // the script being executed (one at a time per process)

type fake struct {
	storeapi.StoreApiClient // nil: any other method panics
	tier                    string
	shard, rep              int
}

func (f *fake) Bulk(ctx context.Context, in *storeapi.BulkRequest, _ ...grpc.CallOption) (*emptypb.Empty, error) {
	rc := cur
	if rc.ilv {
		return f.bulkIlv(rc, ctx, in)
	}
	rc.mu.Lock()
	key := fmt.Sprintf("%s/%d/%d", f.tier, f.shard, f.rep)
	n := rc.ncall[key]
	rc.ncall[key] = n + 1
	sc := rc.tierOf(f.tier)[f.shard].Reps[f.rep]
	o := oOk
	if n < len(sc) {
		o = sc[n]
	}
	pay := 99 // identifier of the bulk whose exact bytes and count the request carries
	for j, p := range rc.pays {
		if in != nil && in.Count == p.count && bytes.Equal(in.Docs, p.docs) && bytes.Equal(in.Metas, p.metas) {
			pay = j
		}
	}
	if rc.dead {
		o = oCtx
	}
	logged := o
	switch o {
	case oHang:
		logged, rc.pendingDead = oTimeout, true
	case oHangOk:
		logged, rc.pendingDead = oSlowOk, true
	}
	rc.pending = append(rc.pending, pcall{f.tier, f.shard, call{f.rep, logged, pay}})
	rc.mu.Unlock()
	switch o {
	case oCtx:
		if err := ctx.Err(); err != nil {
			return nil, err
		}
		return nil, context.Canceled
	case oHang, oHangOk:
		// the replica does not answer; the caller's deadline passes
		time.Sleep(2 * time.Millisecond)
		rc.cancel()
		<-ctx.Done()
		if o == oHangOk {
			return &emptypb.Empty{}, nil
		}
		return nil, ctx.Err()
	case oOk:
		return &emptypb.Empty{}, nil
	case oErr:
		return nil, errors.New("scripted store error")
	}
	// the two timeout outcomes wait for the circuit's execution deadline
	if _, has := ctx.Deadline(); !has {
		rc.mu.Lock()
		rc.viol = append(rc.viol, "no-deadline|replica call context carries no execution deadline (circuit timeout not applied)")
		rc.mu.Unlock()
	} else {
		<-ctx.Done()
	}
	if o == oSlowOk {
		return &emptypb.Empty{}, nil
	}
	if err := ctx.Err(); err != nil {
		return nil, err
	}
	return nil, context.DeadlineExceeded
}

func (rc *runCtx) tierOf(t string) []shardIn {
	if t == "cold" {
		return rc.sc.Cold
	}
	return rc.sc.Hot
}

// collector is appended to a circuit's run metrics: exactly one of its methods is called per
// Execute, after the callback returned (or instead of it when the circuit is open).  It closes
// the visit in the log and puts the circuit into the state scripted for the shard's next visit.
type collector struct {
	c     *circuit.Circuit
	tier  string
	shard int
}

func (m *collector) done(short bool) {
	rc := cur
	if rc == nil {
		return
	}
	rc.mu.Lock()
	v := visit{Tier: m.tier, Shard: m.shard, Short: short, Calls: []call{}}
	for _, p := range rc.pending {
		if p.tier != m.tier || p.shard != m.shard {
			rc.viol = append(rc.viol, fmt.Sprintf("stray-call|replica %s/%d/%d was called during the visit of shard %s/%d", p.tier, p.shard, p.c.Rep, m.tier, m.shard))
			continue
		}
		v.Calls = append(v.Calls, p.c)
	}
	rc.pending = rc.pending[:0]
	sort.SliceStable(v.Calls, func(i, j int) bool { return v.Calls[i].Rep < v.Calls[j].Rep })
	rc.visits = append(rc.visits, v)
	key := fmt.Sprintf("%s/%d", m.tier, m.shard)
	rc.nvisit[key]++
	k := rc.nvisit[key]
	flags := rc.tierOf(m.tier)[m.shard].Open
	open := k < len(flags) && flags[k]
	rc.total++
	doCancel := false
	if !rc.dead && !rc.expired && (rc.pendingDead || (rc.sc.Ctx != nil && rc.sc.Ctx.AfterVisits == rc.total)) {
		rc.dead = true
		n := rc.total
		rc.cancelAt = &n
		doCancel = rc.pendingDead || rc.sc.Ctx.Mode != "deadline"
	}
	if rc.ilv {
		if doCancel {
			rc.expired = true
			rc.cancel() // under the lock: no gated call can begin between the cancel and its record
			doCancel = false
		}
		rc.closeVisitIlv(rc.expired && rc.cancelAt != nil && *rc.cancelAt == rc.total)
	}
	rc.mu.Unlock()
	if doCancel {
		rc.cancel()
	}
	if open {
		m.c.OpenCircuit()
	} else {
		m.c.CloseCircuit()
	}
}

func (m *collector) Success(time.Time, time.Duration)       { m.done(false) }
func (m *collector) ErrFailure(time.Time, time.Duration)    { m.done(false) }
func (m *collector) ErrTimeout(time.Time, time.Duration)    { m.done(false) }
func (m *collector) ErrBadRequest(time.Time, time.Duration) { m.done(false) }
func (m *collector) ErrInterrupt(time.Time, time.Duration)  { m.done(false) }
func (m *collector) ErrConcurrencyLimitReject(time.Time)    { m.done(true) }
func (m *collector) ErrShortCircuit(time.Time)              { m.done(true) }

var collectors = map[*circuit.Circuit]*collector{}

func attach(cb *circuitbreaker.CircuitBreaker, tier string, shard int, open bool) {
	m := collectors[cb.Circuit]
	if m == nil {
		m = &collector{c: cb.Circuit}
		collectors[cb.Circuit] = m
		cb.Circuit.CmdMetricCollector = append(cb.Circuit.CmdMetricCollector, m)
	}
	m.tier, m.shard = tier, shard
	if open {
		cb.Circuit.OpenCircuit()
	} else {
		cb.Circuit.CloseCircuit()
	}
}

// the circuits never change state by themselves: the volume threshold is unreachable and an
// opened circuit does not try to close for an hour; 3 ms execution deadline for the timeouts
var breakerCfg = circuitbreaker.Config{
	Timeout:                  3 * time.Millisecond,
	MaxConcurrent:            1 << 20,
	NumBuckets:               10,
	BucketWidth:              time.Second,
	RequestVolumeThreshold:   1 << 50,
	ErrorThresholdPercentage: 100,
	SleepWindow:              time.Hour,
}

func hostsOf(prefix string, t []shardIn, clients map[string]storeapi.StoreApiClient, tier string) [][]string {
	hosts := make([][]string, len(t))
	for s := range t {
		hosts[s] = make([]string, len(t[s].Reps))
		for i := range t[s].Reps {
			h := fmt.Sprintf("%s-s%d-r%d", prefix, s, i)
			hosts[s][i] = h
			clients[h] = &fake{tier: tier, shard: s, rep: i}
		}
	}
	return hosts
}

func runScript(idx int, sc *script) result {
	bulks := []*script{sc}
	for i := range sc.More {
		bulks = append(bulks, &sc.More[i])
	}
	pays := make([]payload, len(bulks))
	for j := range pays {
		pays[j] = payload{docs: []byte(fmt.Sprintf("docs-%d-%d-\x00\xff", idx, j)),
			metas: []byte(fmt.Sprintf("metas-%d-%d", idx, j)), count: int64((idx+3*j)%7 + 1)}
	}
	clients := map[string]storeapi.StoreApiClient{}
	hot := &stores.Stores{Shards: hostsOf("hot", sc.Hot, clients, "hot")}
	cold := &stores.Stores{Shards: hostsOf("cold", sc.Cold, clients, "cold")}
	res := result{Idx: idx, Tries: consts.BulkMaxTries}
	var client *bulk.SeqDBClient
	func() {
		defer func() {
			if p := recover(); p != nil {
				res.Viol = append(res.Viol, fmt.Sprintf("panic|NewSeqDBClient panicked: %v", p))
			}
		}()
		client = bulk.NewSeqDBClient(hot, cold, breakerCfg, clients)
	}()
	if client == nil {
		return res
	}
	for j, b := range bulks {
		r, stop := runBulk(client, b, j, pays)
		if j == 0 {
			r.Idx, r.Tries = res.Idx, res.Tries
			res = r
		} else {
			r.Tries = res.Tries
			res.More = append(res.More, r)
		}
		if stop {
			break
		}
	}
	return res
}

// one StoreDocuments call on the (possibly already used) client; stop = the client cannot be used further
func runBulk(client *bulk.SeqDBClient, sc *script, self int, pays []payload) (res result, stop bool) {
	rc := &runCtx{sc: sc, nvisit: map[string]int{}, ncall: map[string]int{}, pays: pays, self: self,
		ilv: sc.Ilv != nil, okReps: map[string]bool{}}
	rc.cond = sync.NewCond(&rc.mu)
	cur = rc
	if rc.ilv {
		go rc.controller()
	}
	done := make(chan struct{})
	go func() {
		defer close(done)
		defer func() {
			if p := recover(); p != nil {
				if sc.Ragged && strings.Contains(fmt.Sprint(p), "index out of range") {
					// the latent panic of ragged tiers (ModelFlat.v): the goroutines started before it
					// still make their calls; the visit is not closed by the circuit
					for t0 := time.Now(); time.Since(t0) < 3*time.Second; time.Sleep(50 * time.Microsecond) {
						rc.mu.Lock()
						n, want := len(rc.pending), 1
						if n > 0 { // the window length of the tier = replica count of its last shard
							t := rc.tierOf(rc.pending[0].tier)
							want = len(t[len(t)-1].Reps)
						}
						rc.mu.Unlock()
						if n >= want {
							break
						}
					}
					rc.mu.Lock()
					res.Panicked = true
					if len(rc.pending) > 0 {
						v := visit{Tier: rc.pending[0].tier, Shard: rc.pending[0].shard, Calls: []call{}}
						for _, pc := range rc.pending {
							v.Calls = append(v.Calls, pc.c)
						}
						sort.SliceStable(v.Calls, func(i, j int) bool { return v.Calls[i].Rep < v.Calls[j].Rep })
						rc.visits = append(rc.visits, v)
						rc.pending = rc.pending[:0]
					}
					rc.mu.Unlock()
					return
				}
				rc.mu.Lock()
				rc.viol = append(rc.viol, fmt.Sprintf("panic|StoreDocuments panicked: %v", p))
				rc.mu.Unlock()
			}
		}()
		hb, cb := client.VerifBreakers()
		if len(hb) != len(sc.Hot) || len(cb) != len(sc.Cold) {
			rc.viol = append(rc.viol, "topology|client built a different number of shards than configured")
			return
		}
		for s, b := range hb {
			attach(b, "hot", s, len(sc.Hot[s].Open) > 0 && sc.Hot[s].Open[0])
		}
		for s, b := range cb {
			attach(b, "cold", s, len(sc.Cold[s].Open) > 0 && sc.Cold[s].Open[0])
		}
		// execution deadline of the circuits: 3 ms for the scripted timeouts, none that matters
		// while the controller holds gated calls
		for _, b := range append(append([]*circuitbreaker.CircuitBreaker{}, hb...), cb...) {
			want := breakerCfg.Timeout
			if rc.ilv {
				want = 30 * time.Second
			}
			if cfg := b.Circuit.Config(); cfg.Execution.Timeout != want {
				cfg.Execution.Timeout = want
				b.Circuit.SetConfigThreadSafe(cfg)
			}
		}
		rand.Seed(sc.Shuffle)
		docs := append([]byte(nil), pays[self].docs...)
		metas := append([]byte(nil), pays[self].metas...)
		var ctx context.Context
		if sc.Ctx != nil && sc.Ctx.Mode == "deadline" {
			ctx, rc.cancel = context.WithTimeout(context.Background(), 50*time.Millisecond)
		} else {
			ctx, rc.cancel = context.WithCancel(context.Background())
		}
		defer rc.cancel()
		if sc.Ctx != nil && sc.Ctx.AfterVisits == 0 {
			zero := 0
			rc.dead, rc.cancelAt = true, &zero
			rc.expired, res.D0 = true, true
			rc.cancel()
		}
		err := client.StoreDocuments(ctx, int(pays[self].count), docs, metas)
		res.Ok = err == nil
	}()
	select {
	case <-done:
	case <-time.After(30 * time.Second):
		rc.mu.Lock()
		rc.viol = append(rc.viol, "hang|StoreDocuments did not return within 30 s")
		rc.mu.Unlock()
		stop = true
	}
	rc.mu.Lock()
	defer rc.mu.Unlock()
	rc.stopped = true
	rc.cond.Broadcast()
	if rc.ilv {
		res.Sched, res.Accs = rc.scheds, rc.accs
		if len(rc.arrived) > 0 {
			rc.viol = append(rc.viol, "stray-call|gated replica calls still pending after StoreDocuments returned")
		}
	}
	if len(rc.pending) > 0 {
		rc.viol = append(rc.viol, "stray-call|replica calls outside any circuit-breaker execution")
	}
	res.Log = append([]visit{}, rc.visits...)
	res.Viol = rc.viol
	res.CancelAt = rc.cancelAt
	for _, v := range rc.viol {
		if strings.HasPrefix(v, "panic|") || strings.HasPrefix(v, "topology|") {
			stop = true
		}
	}
	return res, stop
}

// ---------------------------------------------------------------- Coq rendering

func boolList(bs []bool) string {
	p := make([]string, len(bs))
	for i, b := range bs {
		p[i] = casefile.Bool(b)
	}
	return "[" + strings.Join(p, "; ") + "]"
}

func tierCoq(t []shardIn) string {
	ss := make([]string, len(t))
	for s := range t {
		rs := make([]string, len(t[s].Reps))
		for i, sc := range t[s].Reps {
			os := make([]string, len(sc))
			for k, o := range sc {
				os[k] = outcomeCoq[o]
			}
			rs[i] = "[" + strings.Join(os, "; ") + "]"
		}
		ss[s] = "(" + boolList(t[s].Open) + ", [" + strings.Join(rs, "; ") + "])"
	}
	return "[" + strings.Join(ss, "; ") + "]"
}

func logCoq(log []visit) string {
	vs := make([]string, len(log))
	for i, v := range log {
		cs := make([]string, len(v.Calls))
		for k, c := range v.Calls {
			cs[k] = fmt.Sprintf("mkCall %d %s %d%%N", c.Rep, outcomeCoq[c.Out], c.Pay)
		}
		t := "Hot"
		if v.Tier == "cold" {
			t = "Cold"
		}
		vs[i] = fmt.Sprintf("mkVisit %s %d %s [%s]", t, v.Shard, casefile.Bool(v.Short), strings.Join(cs, "; "))
	}
	return "[" + strings.Join(vs, "; ") + "]"
}

// the shard orders the implementation used: the visits of one tier in chunks of <number of
// shards> (an invocation of sendBulkToStores either visits every shard or ends the tier's work
// with its first success), each completed to a permutation with the unvisited indices
func ordersOf(log []visit, tier string, ns int) [][]int {
	var seq []int
	for _, v := range log {
		if v.Tier == tier {
			seq = append(seq, v.Shard)
		}
	}
	var out [][]int
	for len(seq) > 0 && ns > 0 {
		n := ns
		if n > len(seq) {
			n = len(seq)
		}
		o := append([]int{}, seq[:n]...)
		seq = seq[n:]
		for i := 0; i < ns; i++ {
			found := false
			for _, x := range o[:n] {
				if x == i {
					found = true
				}
			}
			if !found {
				o = append(o, i)
			}
		}
		out = append(out, o)
	}
	return out
}

func ordersCoq(os [][]int) string {
	p := make([]string, len(os))
	for i, o := range os {
		p[i] = casefile.NatList(o)
	}
	return "[" + strings.Join(p, "; ") + "]"
}

// the Coq fields "cin hin cord hord cancel ok log" of one bulk
func obsFields(sc *script, res *result) string {
	cord := ordersOf(res.Log, "cold", len(sc.Cold))
	hord := ordersOf(res.Log, "hot", len(sc.Hot))
	cancel := "None"
	if res.CancelAt != nil {
		cancel = fmt.Sprintf("(Some %d)", *res.CancelAt)
	}
	return fmt.Sprintf("%s %s %s %s %s %s %s", tierCoq(sc.Cold), tierCoq(sc.Hot),
		ordersCoq(cord), ordersCoq(hord), cancel, casefile.Bool(res.Ok), logCoq(res.Log))
}

// a sequence of bulks on one client: one CSeq case
func emitSeq(w *casefile.Writer, sc *script, res *result) {
	bulks := []*script{sc}
	for i := range sc.More {
		bulks = append(bulks, &sc.More[i])
	}
	ress := []*result{res}
	for i := range res.More {
		ress = append(ress, &res.More[i])
	}
	var terms, verdicts []string
	var impl []map[string]any
	failing := false
	dirtyThenAck := false // a bulk that exhausted its tries after partial success, followed by an acknowledged one
	dirty := false
	for j, r := range ress {
		for _, v := range r.Viol {
			fp, what, _ := strings.Cut(v, "|")
			w.Violate(fp, what, sc)
		}
		terms = append(terms, fmt.Sprintf("mkB %d%%N %s", j, obsFields(bulks[j], r)))
		verdict := "fail"
		if r.Ok {
			verdict = "ack"
		}
		if r.CancelAt != nil {
			verdict += "(ctx)"
		}
		verdicts = append(verdicts, verdict)
		okCalls := 0
		for _, v := range r.Log {
			if v.Short {
				failing = true
			}
			for _, c := range v.Calls {
				if accepted(c.Out) {
					okCalls++
				} else {
					failing = true
				}
			}
		}
		if r.Ok && dirty {
			dirtyThenAck = true
		}
		if !r.Ok && okCalls > 0 {
			dirty = true
		}
		impl = append(impl, map[string]any{"bulk": j, "ok": r.Ok, "log": r.Log, "cancel_at": r.CancelAt})
	}
	if len(ress) < len(bulks) {
		return // the client died; reported as a direct violation above
	}
	w.Count("gen:" + sc.Gen)
	w.Count(fmt.Sprintf("seq:bulks=%d", len(bulks)))
	term := fmt.Sprintf("CSeq %d [(%s)]", res.Tries, strings.Join(terms, "); ("))
	nack := 0
	for _, r := range ress {
		if r.Ok {
			nack++
		}
	}
	class := "seq:ack-and-fail-mixed"
	switch {
	case dirtyThenAck:
		class = "seq:ack-after-partially-written-failed-bulk"
	case nack == len(ress):
		class = "seq:all-ack"
	case nack == 0:
		class = "seq:all-fail"
	}
	w.Add(term, class, failing, sc, map[string]any{"tries": res.Tries, "verdicts": strings.Join(verdicts, ">"), "bulks": impl})
}

func emit(w *casefile.Writer, sc *script, res *result) {
	if len(sc.More) > 0 {
		emitSeq(w, sc, res)
		return
	}
	if sc.Ilv != nil {
		emitIlv(w, sc, res)
		return
	}
	if sc.Ragged {
		emitRagged(w, sc, res)
		return
	}
	for _, v := range res.Viol {
		fp, what, _ := strings.Cut(v, "|")
		w.Violate(fp, what, sc)
	}
	cord := ordersOf(res.Log, "cold", len(sc.Cold))
	hord := ordersOf(res.Log, "hot", len(sc.Hot))
	term := fmt.Sprintf("CBulk %d %s", res.Tries, obsFields(sc, res))
	// classification by what was observed
	failing, skipped, short, slow, timeout := 0, 0, 0, 0, 0
	for _, v := range res.Log {
		bad := v.Short
		if v.Short {
			short++
		}
		for _, c := range v.Calls {
			if !accepted(c.Out) {
				bad = true
			}
			if c.Out == oSlowOk {
				slow++
			}
			if c.Out == oTimeout {
				timeout++
			}
		}
		if bad {
			failing++
		}
		t := sc.Hot
		if v.Tier == "cold" {
			t = sc.Cold
		}
		if !v.Short && v.Shard < len(t) && len(v.Calls) < len(t[v.Shard].Reps) {
			skipped++
		}
	}
	class := "fail"
	if res.Ok {
		class = "ack-clean"
		if failing > 0 {
			class = "ack-after-failures"
		}
	}
	coldSkip := false // the coldWritten path: hot visited in more than one attempt after cold succeeded
	if len(sc.Cold) > 0 && len(hord) > 1 && len(cord) < len(hord) {
		coldSkip = true
	}
	w.Count("gen:" + sc.Gen)
	if strings.HasPrefix(sc.Gen, "ragged") {
		w.Count("topo:ragged")
	} else {
		w.Count(fmt.Sprintf("topo:hot=%dx%d", len(sc.Hot), len(sc.Hot[0].Reps)))
	}
	if len(sc.Cold) == 0 {
		w.Count("topo:cold=none")
	} else {
		w.Count(fmt.Sprintf("topo:cold=%dx%d", len(sc.Cold), len(sc.Cold[0].Reps)))
	}
	for name, n := range map[string]int{"short-circuit": short, "replica-skipped": skipped, "slow-ok": slow, "timeout": timeout} {
		if n > 0 {
			w.Count("saw:" + name)
		}
	}
	if coldSkip {
		w.Count("saw:cold-skipped-on-retry")
	}
	if res.CancelAt != nil {
		// where in the run the request context expired
		pos := "mid-run"
		switch {
		case *res.CancelAt == 0:
			pos = "on-entry"
		case *res.CancelAt == len(res.Log):
			pos = "after-last-visit"
		case len(sc.Cold) > 0 && len(cord) > 0 && *res.CancelAt <= len(cord)*len(sc.Cold) && *res.CancelAt < len(res.Log) && res.Log[*res.CancelAt].Tier == "hot":
			pos = "cold-done-hot-pending"
		}
		w.Count("ctx-expired:" + pos)
		if sc.Ctx != nil {
			w.Count("ctx-mode:" + sc.Ctx.Mode)
		} else {
			w.Count("ctx-mode:hanging-call")
		}
		class += "+ctx-expired"
	}
	w.Count(fmt.Sprintf("invocations:cold=%d,hot=%d", len(cord), len(hord)))
	w.Add(term, class, failing > 0, sc, map[string]any{"ok": res.Ok, "log": res.Log, "tries": res.Tries, "cancel_at": res.CancelAt})
}

// ---------------------------------------------------------------- main

func main() {
	seed := flag.Uint64("seed", 1, "")
	tier := flag.String("tier", "quick", "")
	out := flag.String("out", "", "")
	replay := flag.String("replay", "", "")
	child := flag.Int("child", -1, "")
	nchild := flag.Int("nchild", 6, "")
	resFile := flag.String("res", "", "")
	flag.Parse()
	logger.SetLevel(zapcore.FatalLevel)

	if *child >= 0 {
		runChild(*seed, *tier, *child, *nchild, *resFile)
		return
	}
	if *out == "" {
		fmt.Fprintln(os.Stderr, "need -out")
		os.Exit(2)
	}
	w, err := casefile.New(*out, "C09", "From VLib Require Import CaseLib.\nFrom C09 Require Import Model ModelIlv CaseDefs.", 400)
	if err != nil {
		panic(err)
	}
	if *replay != "" {
		sc, err := loadReplay(*replay)
		if err != nil {
			panic(err)
		}
		res := runScript(0, sc)
		emit(w, sc, &res)
		if err := w.Close(); err != nil {
			panic(err)
		}
		return
	}
	scripts := genScripts(*seed, *tier, consts.BulkMaxTries)
	results := make([]*result, len(scripts))
	var wg sync.WaitGroup
	errs := make([]error, *nchild)
	for k := 0; k < *nchild; k++ {
		wg.Add(1)
		go func(k int) {
			defer wg.Done()
			rf := filepath.Join(*out, fmt.Sprintf("child_%d.jsonl", k))
			cmd := exec.Command(os.Args[0], "-seed", fmt.Sprint(*seed), "-tier", *tier,
				"-child", fmt.Sprint(k), "-nchild", fmt.Sprint(*nchild), "-res", rf)
			var eb bytes.Buffer
			cmd.Stderr = &eb
			if err := cmd.Run(); err != nil {
				errs[k] = fmt.Errorf("child %d: %v: %s", k, err, tail(eb.String(), 2000))
			}
		}(k)
	}
	wg.Wait()
	for k := 0; k < *nchild; k++ {
		rf := filepath.Join(*out, fmt.Sprintf("child_%d.jsonl", k))
		f, err := os.Open(rf)
		if err == nil {
			s := bufio.NewScanner(f)
			s.Buffer(make([]byte, 1<<20), 1<<26)
			for s.Scan() {
				var r result
				if json.Unmarshal(s.Bytes(), &r) == nil && r.Idx < len(results) {
					rr := r
					results[r.Idx] = &rr
				}
			}
			f.Close()
			os.Remove(rf)
		}
	}
	for k, e := range errs {
		if e != nil {
			// a child died (e.g. a panic in a goroutine of the implementation): the first script
			// without a result is the one it was running
			first := -1
			for i := range scripts {
				if i%*nchild == k && results[i] == nil {
					first = i
					break
				}
			}
			var in any
			if first >= 0 {
				in = scripts[first]
			}
			w.Violate("crash", "driver process died while running the bulk client: "+tail(e.Error(), 1500), in)
		}
	}
	for i := range scripts {
		if results[i] == nil {
			continue
		}
		emit(w, &scripts[i], results[i])
	}
	if err := w.Close(); err != nil {
		panic(err)
	}
}

func tail(s string, n int) string {
	if len(s) > n {
		return s[len(s)-n:]
	}
	return s
}

func runChild(seed uint64, tier string, k, n int, resFile string) {
	scripts := genScripts(seed, tier, consts.BulkMaxTries)
	f, err := os.Create(resFile)
	if err != nil {
		panic(err)
	}
	bw := bufio.NewWriter(f)
	for i := range scripts {
		if i%n != k {
			continue
		}
		r := runScript(i, &scripts[i])
		b, _ := json.Marshal(r)
		bw.Write(b)
		bw.WriteByte('\n')
		bw.Flush() // a later crash must not lose what was observed
	}
	f.Close()
}

// a replay file is what the check wrote: {"replay": {"case": {"input": <script>}}} or {"replay": {"input": <script>}}
func loadReplay(path string) (*script, error) {
	b, err := os.ReadFile(path)
	if err != nil {
		return nil, err
	}
	var top struct {
		Replay struct {
			Case  struct{ Input *script } `json:"case"`
			Input *script                 `json:"input"`
		} `json:"replay"`
	}
	if err := json.Unmarshal(b, &top); err != nil {
		return nil, err
	}
	if top.Replay.Case.Input != nil {
		return top.Replay.Case.Input, nil
	}
	if top.Replay.Input != nil {
		return top.Replay.Input, nil
	}
	return nil, errors.New("no script in replay file")
}
