package main

// e2e_chain.go — stability of a sealed-PRELOADED fraction under later operations on OTHER fractions.
//
// One FracManager, a chain of 3..5 fractions F0, F1, ... with disjoint MID ranges, very different
// document sizes / compressibility and a small DocBlockSize (so that every sorted-docs file has several
// doc blocks). Step j: ingest Fj, ask its requests on the ACTIVE fraction, seal, ask them on the
// freshly sealed (preloaded) fraction, then RE-ASK the requests of every earlier fraction Fi (i < j)
// on its preloaded form (tables and slices handed over by Seal must not alias memory that a later
// seal reuses), with cache resets / evictions in between. At the end the directory is reloaded by a
// second FracManager: every fraction is asked in its loaded form and the preloaded forms once more.
// Cases (CForm, all four lists must be equal):
//   form/fetch, form/search      active | sealed right after its own seal | reloaded | oracle
//   form/stable-fetch, -search   sealed right after its own seal | sealed after k later seals (and
//                                 after the reload) | reloaded | oracle

import (
	"fmt"
	"os"
	"path/filepath"
	"runtime/debug"
	"strings"

	"github.com/ozontech/seq-db/fracmanager"

	"verif/harness/internal/casefile"
	"verif/harness/internal/fracbuild"
	"verif/harness/internal/rng"
)

// eChainBody: bodies from a few bytes to some KiB, either highly compressible or incompressible
func eChainBody(r *rng.R, kind, i int) string {
	var n int
	switch kind {
	case 0: // tiny
		n = r.Range(1, 40)
	case 1: // medium
		n = r.Range(100, 700)
	case 2: // large
		n = r.Range(1500, 6000)
	default:
		n = rng.Pick(r, []int{3, 50, 300, 2500})
	}
	var sb strings.Builder
	fmt.Fprintf(&sb, `{"i":%d,"b":"`, i)
	if r.Chance(1, 2) { // compressible
		sb.WriteString(strings.Repeat(string(rune('a'+r.Intn(26))), n))
	} else {
		const hexd = "0123456789abcdef"
		for k := 0; k < n; k++ {
			sb.WriteByte(hexd[r.Intn(16)])
		}
	}
	sb.WriteString(`"}`)
	return sb.String()
}

func eGenChainFrac(r *rng.R, j int) *eCorpus {
	n := rng.Pick(r, []int{7, 30, 90, 200, 400})
	kind := r.Intn(4)
	c := &eCorpus{shape: "chain", params: map[string]any{"fraction": j, "docs": n, "body_kind": kind}}
	base := uint64(eBaseMID) + uint64(j)*1_000_000
	for i := 0; i < n; i++ {
		mid := base + uint64(r.Intn(3*n))
		toks := []string{fmt.Sprintf("k:v%d", i%3), fmt.Sprintf("f:fr%d", j)}
		c.add(mid, eRid(j*100000+i), eChainBody(r, kind, i), toks...)
	}
	c.finish()
	// fetch EVERY document (lists of <= 16 IDs, descending and shuffled), plus absent ones
	for lo := 0; lo < n; lo += 16 {
		hi := min(n, lo+16)
		ids := make([][2]uint64, 0, hi-lo)
		for k := lo; k < hi; k++ {
			ids = append(ids, c.id(k))
		}
		if r.Bool() {
			rng.Shuffle(r, ids)
		}
		c.fetch("chain-all", ids...)
	}
	c.fetch("chain-mixed", c.id(0), [2]uint64{base + 1, 12345}, c.id(n-1), [2]uint64{base - 5, 1}, c.id(n/2))
	from, to := c.midRange()
	c.search(eAll(), 0, ^uint64(0)>>1, 1<<30, false, true, "chain")
	c.search(eTok("k", "v1"), from, to, 10, true, true, "chain")
	c.search(eAnd(eTok("f", fmt.Sprintf("fr%d", j)), eNot(eTok("k", "v0"))), from, from+(to-from)/2, 100, false, true, "chain")
	c.hist(eAll(), from, to, max(1, (to-from)/7), 5)
	return c
}

type eChainCfg struct {
	ecfg
	Fractions int `json:"fractions"`
}

func eRunChain(tmp string, idx int, seed uint64) (res eresult) {
	r := rng.New(seed)
	cfg := eChainCfg{ecfg: eGenCfg(r, 100), Fractions: r.Range(3, 5)}
	cfg.SkipSortDocs = idx%4 == 3 // mostly with the sorted-docs rewrite
	cfg.DocBlockSize = rng.Pick(r, []int{128, 256, 1024})
	fr := make([]*eCorpus, cfg.Fractions)
	for j := range fr {
		fr[j] = eGenChainFrac(r, j)
		fr[j].seed = seed
	}
	desc := map[string]any{"shape": "chain", "chain_seed": seed, "config": cfg}
	var per []any
	for _, c := range fr {
		per = append(per, c.params)
	}
	desc["fractions"] = per
	res.counts = append(res.counts, "shape:chain", fmt.Sprintf("cfg:skip_sort_docs=%v", cfg.SkipSortDocs),
		fmt.Sprintf("chain:fractions=%d", cfg.Fractions))
	viol := func(fp, what string, in any) {
		res.viols = append(res.viols, casefile.Violation{Fingerprint: fp, What: what, Input: in})
	}
	defer func() {
		if p := recover(); p != nil {
			viol("form-panic:harness", fmt.Sprintf("panic: %v\n%s", p, debug.Stack()), desc)
		}
	}()
	dir := filepath.Join(tmp, fmt.Sprintf("chain%04d", idx))
	defer os.RemoveAll(dir)

	fm, err := fracbuild.NewFM(dir, cfg.mod(cfg.Cache1))
	if err != nil {
		viol("harness-error", "NewFM: "+err.Error(), desc)
		return
	}
	// the fraction holding Fj: MID ranges of the chain are disjoint
	find := func(fm *fracmanager.FracManager, c *eCorpus) fracmanager.List {
		lo, hi := c.midRange()
		for _, f := range fracbuild.Fracs(fm) {
			if info := f.Info(); uint64(info.From) >= lo && uint64(info.To) <= hi && int(info.DocsTotal) == len(c.docs) {
				return fracmanager.List{f}
			}
		}
		return nil
	}
	ask := func(fm *fracmanager.FracManager, j int, form string) [][]uint64 {
		c := fr[j]
		fracs := find(fm, c)
		if fracs == nil {
			viol("harness-error", fmt.Sprintf("chain: fraction %d not found (%s)", j, form), desc)
			return nil
		}
		m := c.mapping()
		out := make([][]uint64, len(c.reqs))
		for i := range c.reqs {
			switch r.Intn(8) {
			case 0:
				fm.VerifC03CacheEvict()
			case 1:
				fm.ResetCacheForTests()
			}
			var what string
			if out[i], what = eAsk(fracs, m, &c.reqs[i]); what != "" {
				viol("form-panic:"+form, what, map[string]any{"chain": desc, "fraction": j, "request": c.reqs[i]})
			}
		}
		return out
	}
	type later struct {
		when string
		ans  [][]uint64
	}
	active := make([][][]uint64, len(fr))
	sealed0 := make([][][]uint64, len(fr))
	laters := make([][]later, len(fr))
	for j, c := range fr {
		docs := make([]fracbuild.Doc, len(c.docs))
		for i, d := range c.docs {
			docs[i] = fracbuild.Doc{MID: d.mid, RID: d.rid, Body: d.body, Tokens: d.toks}
		}
		half := len(docs) / 2
		for _, part := range [][]fracbuild.Doc{docs[half:], docs[:half]} {
			if err := fracbuild.Append(fm, part); err != nil {
				viol("harness-error", "Append: "+err.Error(), desc)
				return
			}
		}
		if active[j] = ask(fm, j, "active"); active[j] == nil {
			return
		}
		var sealPanic any
		func() {
			defer func() {
				if sealPanic = recover(); sealPanic != nil {
					sealPanic = fmt.Sprintf("panic during seal: %v\n%s", sealPanic, debug.Stack())
				}
			}()
			fracbuild.Seal(fm)
		}()
		if sealPanic != nil {
			viol("seal-panic", sealPanic.(string), desc)
			return
		}
		if sealed0[j] = ask(fm, j, "sealed"); sealed0[j] == nil {
			return
		}
		for i := 0; i < j; i++ { // earlier fractions, still served from their preloaded tables
			a := ask(fm, i, "sealed-later")
			if a == nil {
				return
			}
			laters[i] = append(laters[i], later{fmt.Sprintf("after %d later seal(s)", j-i), a})
		}
	}
	fracbuild.Close(fm)
	fm2, err := fracbuild.NewFM(dir, cfg.mod(cfg.Cache2))
	if err != nil {
		viol("reload-error", "second NewFM on the sealed directory: "+err.Error(), desc)
		return
	}
	reloaded := make([][][]uint64, len(fr))
	for j := range fr {
		if reloaded[j] = ask(fm2, j, "reloaded"); reloaded[j] == nil {
			return
		}
	}
	for i := range fr { // the preloaded forms once more, after another manager loaded the same files
		a := ask(fm, i, "sealed-later")
		if a == nil {
			return
		}
		laters[i] = append(laters[i], later{"after all seals and a reload by a second manager", a})
	}
	fracbuild.Close(fm2)

	for j, c := range fr {
		for i := range c.reqs {
			q := &c.reqs[i]
			o := c.oracle(q)
			class := "search"
			if q.Kind == 5 {
				class = "fetch"
			} else if q.Kind == 3 {
				class = "hist"
			}
			in := map[string]any{"chain": desc, "fraction": j, "request": q}
			term := fmt.Sprintf("CForm %d%%N %s %s %s %s", q.Kind, casefile.NList(active[j][i]), casefile.NList(sealed0[j][i]),
				casefile.NList(reloaded[j][i]), casefile.NList(o))
			res.cases = append(res.cases, ecase{term, "form/" + class, len(o) > 2, in,
				map[string]any{"active": active[j][i], "sealed": sealed0[j][i], "reloaded": reloaded[j][i]}})
			for _, l := range laters[j] {
				term := fmt.Sprintf("CForm %d%%N %s %s %s %s", q.Kind+10, casefile.NList(sealed0[j][i]), casefile.NList(l.ans[i]),
					casefile.NList(reloaded[j][i]), casefile.NList(o))
				in2 := map[string]any{"chain": desc, "fraction": j, "request": q, "asked": l.when}
				res.cases = append(res.cases, ecase{term, "form/stable-" + class, len(o) > 2, in2,
					map[string]any{"sealed_at_once": sealed0[j][i], "sealed_later": l.ans[i], "reloaded": reloaded[j][i]}})
			}
			res.counts = append(res.counts, fmt.Sprintf("kind:%d", q.Kind))
		}
	}
	return res
}
