package main

// gen-<func> correspondence classes: validation of the Go-to-Gallina translator (harness/cmd/go2coq).
// The REAL functions (lids.Table accessors, narrowLIDsRange of both LID iterators, token.TableEntry
// arithmetic) are called on boundary and generated arguments; case_agrees evaluates the definitions
// GENERATED from their source (props/C03/coq/Gen.v) on the same arguments (constructor CGo of CaseDefs.v;
// CGen is taken by the LID block generator there).

import (
	"sort"
	"strings"

	"github.com/ozontech/seq-db/frac/lids"
	"github.com/ozontech/seq-db/frac/token"

	"verif/harness/internal/casefile"
	gc "verif/harness/internal/gencase"
	"verif/harness/internal/rng"
)

func u32s(xs []uint32) gc.Arg {
	r := make(gc.Arg, len(xs))
	for i, x := range xs {
		r[i] = gc.U(uint64(x))
	}
	return r
}

func runGen(w *casefile.Writer, r *rng.R, thorough bool) {
	n := 150
	if thorough {
		n = 1500
	}
	add := func(it gc.Item) {
		w.Add(strings.Replace(it.Coq, "CGen ", "CGo ", 1), it.Class, false, it.Input, it.Impl)
		w.Count("gen:" + it.Class)
	}
	for i := 0; i < n; i++ {
		// a table as the sealer builds it (ascending TIDs, a continued block starts with the previous MaxTID + 1
		// stored as MinTID, adjusted back by GetAdjustedMinTID), sometimes malformed (ragged slices, MinTID 0 on a
		// continued block, descending values, values at the uint32 ends)
		nb := r.Intn(7)
		maxT, minT, cont := make([]uint32, nb), make([]uint32, nb), make([]bool, nb)
		cur := uint32(1 + r.Intn(3))
		for j := 0; j < nb; j++ {
			c := j > 0 && r.Bool()
			cont[j] = c
			if c {
				minT[j] = cur + 1 // adjusted: cur
			} else {
				if j > 0 {
					cur++
				}
				minT[j] = cur
			}
			cur += uint32(r.Intn(4))
			maxT[j] = cur
		}
		switch r.Intn(8) {
		case 0:
			if nb > 0 {
				minT[r.Intn(nb)] = 0
				cont[r.Intn(nb)] = true
			}
		case 1:
			if nb > 0 {
				maxT = maxT[:nb-1]
			}
		case 2:
			cont = append(cont, true)
			minT = append(minT, gc.U32(r))
		case 3:
			for j := range maxT {
				maxT[j] = gc.U32(r)
				minT[j] = gc.U32(r)
			}
		}
		t := lids.NewTable(uint32(r.Intn(5)), minT, maxT, cont)
		cz := make(gc.Arg, len(cont))
		for j, c := range cont {
			cz[j] = gc.B(c)
		}
		tArgs := []gc.Arg{u32s(maxT), u32s(minT), cz}
		with := func(xs ...uint32) []gc.Arg {
			a := append([]gc.Arg{}, tArgs...)
			for _, x := range xs {
				a = append(a, gc.S(gc.U(uint64(x))))
			}
			return a
		}
		bi := func() uint32 {
			switch r.Intn(6) {
			case 0:
				return gc.U32(r)
			case 1:
				return uint32(nb)
			case 2:
				return uint32(nb) + 1
			}
			if nb == 0 {
				return 0
			}
			return uint32(r.Intn(nb))
		}
		tid := func() uint32 {
			switch r.Intn(5) {
			case 0:
				return gc.U32(r)
			case 1:
				return cur + uint32(r.Intn(3))
			}
			return uint32(r.Intn(int(cur%1000) + 2))
		}
		b, td := bi(), tid()
		add(gc.Case("gen-GetAdjustedMinTID", 1, with(b), func() []string { return []string{gc.U(uint64(t.GetAdjustedMinTID(b)))} }))
		add(gc.Case("gen-GetChunksCount", 2, with(b), func() []string { return []string{gc.U(uint64(t.GetChunksCount(b)))} }))
		add(gc.Case("gen-GetFirstBlockIndexForTID", 3, with(td), func() []string { return []string{gc.U(uint64(t.GetFirstBlockIndexForTID(td)))} }))
		add(gc.Case("gen-GetLastBlockIndexForTID", 4, with(td), func() []string { return []string{gc.U(uint64(t.GetLastBlockIndexForTID(td)))} }))
		b2, td2 := bi(), tid()
		add(gc.Case("gen-HasTIDInPrevBlock", 5, with(b2, td2), func() []string { return []string{gc.B(t.HasTIDInPrevBlock(b2, td2))} }))
		add(gc.Case("gen-HasTIDInNextBlock", 6, with(b2, td2), func() []string { return []string{gc.B(t.HasTIDInNextBlock(b2, td2))} }))
		add(gc.Case("gen-GetChunkIndex", 7, with(b2, td2), func() []string { return []string{gc.I(int64(t.GetChunkIndex(b2, td2)))} }))
	}
	for i := 0; i < n; i++ {
		// one chunk of LIDs: ascending (as stored), sometimes with duplicates, unsorted or empty; borders on / next to
		// elements, outside on both sides, inverted, at the uint32 ends
		nl := r.Intn(13)
		if r.Chance(1, 10) {
			nl = 0
		}
		ls := make([]uint32, nl)
		base := uint32(r.Intn(50))
		if r.Chance(1, 8) {
			base = 1<<32 - 40
		}
		for j := range ls {
			base += uint32(r.Intn(4))
			if r.Chance(7, 8) && base+1 != 0 {
				base++
			}
			ls[j] = base
		}
		if r.Chance(1, 8) {
			for a := len(ls) - 1; a > 0; a-- {
				b := r.Intn(a + 1)
				ls[a], ls[b] = ls[b], ls[a]
			}
		} else {
			sort.Slice(ls, func(a, b int) bool { return ls[a] < ls[b] })
		}
		border := func() uint32 {
			switch r.Intn(5) {
			case 0:
				return gc.U32(r)
			case 1:
				return base + uint32(r.Intn(4))
			}
			if nl == 0 {
				return uint32(r.Intn(60))
			}
			return ls[r.Intn(nl)] + uint32(r.Intn(3)) - 1
		}
		lo, hi := border(), border()
		if r.Chance(3, 4) && lo > hi {
			lo, hi = hi, lo
		}
		try := r.Bool()
		args := []gc.Arg{gc.S(gc.U(uint64(lo))), gc.S(gc.U(uint64(hi))), u32s(ls), gc.S(gc.B(try))}
		render := func(out []uint32, t bool) []string {
			res := []string{gc.B(t), gc.I(int64(len(out)))}
			return append(res, u32s(out)...)
		}
		add(gc.Case("gen-narrowLIDsRange-asc", 8, args, func() []string {
			return render(lids.VerifGenNarrowAsc(lo, hi, append([]uint32(nil), ls...), try))
		}))
		add(gc.Case("gen-narrowLIDsRange-desc", 9, args, func() []string {
			return render(lids.VerifGenNarrowDesc(lo, hi, append([]uint32(nil), ls...), try))
		}))
	}
	for i := 0; i < n; i++ {
		e := &token.TableEntry{StartIndex: uint32(gc.Small(r, 40000)), StartTID: uint32(gc.Small(r, 100000)), BlockIndex: uint32(r.Intn(100)), ValCount: uint32(gc.Small(r, 20000))}
		if r.Chance(1, 4) {
			e.StartTID, e.ValCount = gc.U32(r), gc.U32(r)
		}
		if r.Chance(1, 6) {
			e.StartIndex = gc.U32(r)
		}
		var td uint32
		switch r.Intn(5) {
		case 0:
			td = gc.U32(r)
		case 1:
			td = e.StartTID + e.ValCount + uint32(r.Intn(3)) - 1
		case 2:
			td = e.StartTID + uint32(r.Intn(3)) - 1
		default:
			td = e.StartTID + uint32(r.Intn(int(e.ValCount%100000)+1))
		}
		eArgs := []gc.Arg{gc.S(gc.U(uint64(e.StartIndex))), gc.S(gc.U(uint64(e.StartTID))), gc.S(gc.U(uint64(e.BlockIndex))), gc.S(gc.U(uint64(e.ValCount)))}
		withT := append(append([]gc.Arg{}, eArgs...), gc.S(gc.U(uint64(td))))
		add(gc.Case("gen-getIndexInTokensBlock", 10, withT, func() []string { return []string{gc.U(uint64(e.VerifGenIndexInTokensBlock(td)))} }))
		add(gc.Case("gen-getLastTID", 11, eArgs, func() []string { return []string{gc.U(uint64(e.VerifGenLastTID()))} }))
		add(gc.Case("gen-checkTIDInBlock", 12, withT, func() []string { return []string{gc.B(e.VerifGenCheckTIDInBlock(td))} }))
	}
}
