package main

// unit_bytes.go — unit-level correspondence for the BYTE-LEVEL block codecs of a sealed fraction
// (props/C03/coq/ModelBytes.v): the real packer (PutVarint/GetVarint/PutUint32/64/GetUint32/GetBinary),
// Chunks.Pack/unpack on bytes, DiskIDsBlock.pack*, DiskPositionsBlock.pack + Loader.loadIDs,
// IDsLoader.Get{MIDs,RIDs,Params}Block + UnpackCache on a real index file, DiskTokensBlock.pack +
// Block.unpack + GetValByTID, DiskTokenTableBlock.pack + TableLoader.load, IndexBlockHeader and the registry of
// a real BlocksWriter read through IndexReader.GetBlockHeader. Every class has a stream of valid structured
// inputs (real bytes compared with model bytes; decode(real bytes) = original judged by the spec) and a
// malformed / truncated stream for the decoders (outcome class value / error / panic compared with the model).

import (
	"encoding/binary"
	"fmt"
	"os"
	"strings"

	"github.com/prometheus/client_golang/prometheus"

	"github.com/ozontech/seq-db/cache"
	"github.com/ozontech/seq-db/disk"
	"github.com/ozontech/seq-db/frac"
	"github.com/ozontech/seq-db/frac/lids"
	"github.com/ozontech/seq-db/frac/token"
	"github.com/ozontech/seq-db/packer"
	"github.com/ozontech/seq-db/seq"

	"verif/harness/internal/casefile"
	"verif/harness/internal/rng"
)

// ---------------------------------------------------------------- rendering

func bl(b []byte) string {
	if len(b) == 0 {
		return "[]"
	}
	var sb strings.Builder
	sb.Grow(len(b)*4 + 2)
	sb.WriteByte('[')
	for i, x := range b {
		if i > 0 {
			sb.WriteByte(';')
		}
		fmt.Fprintf(&sb, "%d", x)
	}
	sb.WriteByte(']')
	return sb.String()
}

func ul(xs []uint64) string {
	if len(xs) == 0 {
		return "[]"
	}
	parts := make([]string, len(xs))
	for i, x := range xs {
		parts[i] = fmt.Sprint(x)
	}
	return "[" + strings.Join(parts, ";") + "]"
}

func bll(xs [][]byte) string {
	parts := make([]string, len(xs))
	for i, x := range xs {
		parts[i] = bl(x)
	}
	return "[" + strings.Join(parts, ";") + "]"
}

// outcome of a real decoder call: "(DOk v)" / "DErr" / "DPanic"
func dres(val string, err error, panicked any) string {
	switch {
	case panicked != nil:
		return "DPanic"
	case err != nil:
		return "DErr"
	}
	return "(DOk " + val + ")"
}

func outcomeClass(err error, panicked any) string {
	switch {
	case panicked != nil:
		return "panic"
	case err != nil:
		return "error"
	}
	return "value"
}

// boundary values named in the task, as uint64
var u64Edges = []uint64{0, 1, 1<<7 - 1, 1 << 7, 1<<14 - 1, 1 << 14, 1<<32 - 1, 1 << 32, 1<<63 - 1, 1 << 63, 1<<64 - 1, 1<<64 - 2, 1<<21 - 1, 1 << 21, 1 << 56, 1<<56 - 1}

func genU64(r *rng.R) uint64 {
	switch r.Intn(4) {
	case 0:
		return rng.Pick(r, u64Edges)
	case 1:
		return r.U64() >> uint(r.Intn(64)) // every bit width
	case 2:
		return uint64(r.Intn(300))
	}
	return r.U64()
}

func mutate(r *rng.R, b []byte) ([]byte, string) {
	out := append([]byte{}, b...)
	switch r.Intn(5) {
	case 0:
		if len(out) > 0 {
			return out[:r.Intn(len(out))], "truncated"
		}
		return out, "empty"
	case 1:
		if len(out) > 0 {
			out[r.Intn(len(out))] ^= byte(1 << uint(r.Intn(8)))
		}
		return out, "bit-flip"
	case 2:
		n := r.Range(1, 3)
		for i := 0; i < n; i++ {
			out = append(out, byte(r.Intn(256)))
		}
		return out, "stray-tail"
	case 3:
		n := r.Range(1, 12)
		for i := 0; i < n; i++ {
			out = append(out, 0x80|byte(r.Intn(128)))
		}
		return out, "continuation-run"
	}
	n := r.Range(0, 14)
	out = out[:0]
	for i := 0; i < n; i++ {
		out = append(out, byte(r.Intn(256)))
	}
	return out, "random"
}

// ---------------------------------------------------------------- varints and fixed width

func getVarintSafe(buf []byte) (v int64, rest int, err error, panicked any) {
	defer func() {
		if p := recover(); p != nil {
			panicked = p
		}
	}()
	u := packer.NewBytesUnpacker(buf[:len(buf):len(buf)])
	v, err = u.GetVarint()
	return v, u.Len(), err, nil
}

func unitVarint(w *casefile.Writer, r *rng.R, n int) {
	for i := 0; i < n; i++ {
		var x int64
		if i < 2*len(u64Edges) { // every boundary as a positive and as a negative value
			x = int64(u64Edges[i/2])
			if i%2 == 1 {
				x = -x
			}
		} else {
			x = int64(genU64(r))
		}
		p := packer.NewBytesPacker(nil)
		p.PutVarint(x)
		enc := append([]byte{}, p.Data...)
		tail := make([]byte, r.Intn(4))
		for j := range tail {
			tail[j] = byte(r.Intn(256))
		}
		v, rest, err, pan := getVarintSafe(append(append([]byte{}, enc...), tail...))
		term := fmt.Sprintf("CVarint (%d)%%Z %s %s %s", x, bl(enc), bl(tail), dres(fmt.Sprintf("((%d)%%Z, %d%%nat)", v, rest), err, pan))
		w.Add(term, "bytes/varint", len(enc) >= 2, map[string]any{"x": x, "tail": tail},
			map[string]any{"enc": enc, "decoded": v, "rest": rest, "outcome": outcomeClass(err, pan)})
		w.Count(fmt.Sprintf("varint:len-%d", len(enc)))
	}
}

func unitVarintDec(w *casefile.Writer, r *rng.R, n int) {
	fixed := [][]byte{{}, {0x80}, {0x80, 0x80}, {0xff, 0xff, 0xff, 0xff, 0xff, 0xff, 0xff, 0xff, 0xff, 0x01},
		{0xff, 0xff, 0xff, 0xff, 0xff, 0xff, 0xff, 0xff, 0xff, 0x02}, {0x80, 0x80, 0x80, 0x80, 0x80, 0x80, 0x80, 0x80, 0x80, 0x80, 0x01},
		{0x80, 0x80, 0x80, 0x80, 0x80, 0x80, 0x80, 0x80, 0x80, 0x80}, {0x80, 0x80, 0x80, 0x80, 0x80, 0x80, 0x80, 0x80, 0x80, 0x7f}}
	for i := 0; i < n; i++ {
		var buf []byte
		kind := "fixed"
		if i < len(fixed) {
			buf = fixed[i]
		} else {
			p := packer.NewBytesPacker(nil)
			p.PutVarint(int64(genU64(r)))
			buf, kind = mutate(r, p.Data)
		}
		v, rest, err, pan := getVarintSafe(buf)
		term := fmt.Sprintf("CVarintDec %s %s", bl(buf), dres(fmt.Sprintf("((%d)%%Z, %d%%nat)", v, rest), err, pan))
		w.Add(term, "bytes/varint-malformed", err != nil, map[string]any{"buf": buf, "kind": kind},
			map[string]any{"decoded": v, "rest": rest, "outcome": outcomeClass(err, pan)})
		w.Count("varint-dec:" + outcomeClass(err, pan))
	}
}

func getU32Safe(buf []byte) (v uint32, rest int, panicked any) {
	defer func() {
		if p := recover(); p != nil {
			panicked = p
		}
	}()
	u := packer.NewBytesUnpacker(buf[:len(buf):len(buf)])
	v = u.GetUint32()
	return v, u.Len(), nil
}

func getBinSafe(buf []byte) (v []byte, rest int, panicked any) {
	defer func() {
		if p := recover(); p != nil {
			panicked = p
		}
	}()
	u := packer.NewBytesUnpacker(buf[:len(buf):len(buf)])
	v = append([]byte{}, u.GetBinary()...)
	return v, u.Len(), nil
}

func unitFixed(w *casefile.Writer, r *rng.R, n int) {
	for i := 0; i < n; i++ {
		x := genU64(r)
		p := packer.NewBytesPacker(nil)
		width := 8
		if r.Bool() {
			width, x = 4, x&0xffffffff
			p.PutUint32(uint32(x))
		} else {
			p.PutUint64(x)
		}
		w.Add(fmt.Sprintf("CFixed %d %d %s", width, x, bl(p.Data)), "bytes/fixed", x >= 256,
			map[string]any{"width": width, "x": x}, map[string]any{"enc": append([]byte{}, p.Data...)})
	}
	for i := 0; i < n; i++ {
		s := make([]byte, r.Intn(9))
		for j := range s {
			s[j] = byte(r.Intn(256))
		}
		p := packer.NewBytesPacker(nil)
		p.PutStringWithSize(string(s))
		buf, kind := append([]byte{}, p.Data...), "valid"
		if r.Chance(1, 2) {
			buf, kind = mutate(r, buf)
		} else {
			for j := r.Intn(3); j > 0; j-- {
				buf = append(buf, byte(r.Intn(256)))
			}
		}
		u, urest, upan := getU32Safe(buf)
		b, brest, bpan := getBinSafe(buf)
		term := fmt.Sprintf("CGetBin %s %s %s", bl(buf), dres(fmt.Sprintf("(%d, %d%%nat)", u, urest), nil, upan),
			dres(fmt.Sprintf("(%s, %d%%nat)", bl(b), brest), nil, bpan))
		w.Add(term, "bytes/getbinary", bpan == nil, map[string]any{"buf": buf, "kind": kind},
			map[string]any{"u32": u, "bin": b, "u32_outcome": outcomeClass(nil, upan), "bin_outcome": outcomeClass(nil, bpan)})
		w.Count("getbinary:" + outcomeClass(nil, bpan))
	}
}

// ---------------------------------------------------------------- Chunks on bytes

func unpackBytesSafe(data []byte) (c *lids.Chunks, err error, panicked any) {
	defer func() {
		if p := recover(); p != nil {
			panicked = p
		}
	}()
	c, err = lids.VerifC03UnpackBytes(data)
	return
}

func chunksRes(c *lids.Chunks, err error, pan any) string {
	if err != nil || pan != nil || c == nil {
		return dres("", err, pan)
	}
	return dres(chunksCoq(lids.VerifC03Chunks(c), c.IsLastLID), nil, nil)
}

func unitChunksBytes(w *casefile.Writer, r *rng.R, n int) {
	for i := 0; i < n; i++ {
		cs, isLast := genChunks(r)
		if i == 0 {
			cs, isLast = nil, true // the empty block body
		}
		data := lids.VerifC03PackBytes(lids.VerifC03NewChunks(cs, isLast))
		back, err, pan := unpackBytesSafe(data)
		term := fmt.Sprintf("CChunksB %s %s %s %s", nll(cs), casefile.Bool(isLast), bl(data), chunksRes(back, err, pan))
		w.Add(term, "bytes/chunks", len(cs) >= 2, map[string]any{"chunks": cs, "isLast": isLast},
			map[string]any{"bytes": data, "outcome": outcomeClass(err, pan)})
		if i%2 == 0 {
			buf, kind := mutate(r, data)
			back, err, pan := unpackBytesSafe(buf)
			w.Add(fmt.Sprintf("CChunksDec %s %s", bl(buf), chunksRes(back, err, pan)), "bytes/chunks-malformed", err != nil,
				map[string]any{"buf": buf, "kind": kind}, map[string]any{"outcome": outcomeClass(err, pan)})
			w.Count("chunks-dec:" + outcomeClass(err, pan))
		}
	}
}

// ---------------------------------------------------------------- ID blocks and the positions block

func unpackIDsSafe(format int, data []byte) (out []uint64, panicked any) {
	defer func() {
		if p := recover(); p != nil {
			panicked = p
		}
	}()
	return frac.VerifC03UnpackIDs(format, data), nil
}

func idsFileSafe(dir string, ids []seq.ID, pos []uint64, size int, total uint32, offs []uint64, level int) (out *frac.VerifC03IDsOut, err error, panicked any) {
	defer func() {
		if p := recover(); p != nil {
			panicked = p
		}
	}()
	out, err = frac.VerifC03IDsFile(dir, ids, pos, size, total, offs, level)
	return
}

func loadPositionsSafe(dir string, data []byte) (bt, it uint32, offs []uint64, err error, panicked any) {
	defer func() {
		if p := recover(); p != nil {
			panicked = p
		}
	}()
	bt, it, offs, err = frac.VerifC03LoadPositions(dir, data)
	return
}

func genU64List(r *rng.R, n int) []uint64 {
	out := make([]uint64, n)
	shape := r.Intn(4)
	cur := genU64(r)
	for i := range out {
		switch shape {
		case 0: // decreasing by small steps (as sorted IDs are): negative deltas
			out[i] = cur
			cur -= uint64(r.Intn(5))
		case 1: // increasing
			out[i] = cur
			cur += uint64(r.Intn(1000))
		default:
			out[i] = genU64(r)
		}
	}
	return out
}

func idsCase(w *casefile.Writer, mids, rids, pos []uint64, dm, dr, dp string, class string, in map[string]any) {
	ids := make([]seq.ID, len(mids))
	idsR := make([]seq.ID, len(rids))
	for i := range mids {
		ids[i] = seq.ID{MID: seq.MID(mids[i]), RID: seq.RID(rids[i])}
		idsR[i] = seq.ID{MID: seq.MID(rids[i])}
	}
	bm, br, bp := frac.VerifC03PackIDs(ids, pos)
	br0, _, _ := frac.VerifC03PackIDs(idsR, nil) // the old RID format: delta varints, as packMIDs writes them
	d0, p0 := unpackIDsSafe(2, br0)
	term := fmt.Sprintf("CIdsB %s %s %s %s %s %s %s %s %s %s %s", ul(mids), ul(rids), ul(pos), bl(bm), bl(br), bl(bp), bl(br0),
		dm, dr, dp, dres(ul(d0), nil, p0))
	w.Add(term, class, len(mids) >= 2, in, map[string]any{"mids_bytes": len(bm), "rids_bytes": len(br), "pos_bytes": len(bp)})
}

func unitIDsBytes(w *casefile.Writer, r *rng.R, tmp string, n int) {
	// direct: pack* and the UnpackCache decoders on the packed bytes (includes the empty and the single-element block)
	for i := 0; i < n; i++ {
		k := r.Range(0, 12)
		if i < 2 {
			k = i
		}
		mids, rids, pos := genU64List(r, k), genU64List(r, k), genU64List(r, k)
		ids := make([]seq.ID, k)
		for j := range ids {
			ids[j] = seq.ID{MID: seq.MID(mids[j]), RID: seq.RID(rids[j])}
		}
		bm, br, bp := frac.VerifC03PackIDs(ids, pos)
		dm, pm := unpackIDsSafe(0, bm)
		dr, pr := unpackIDsSafe(1, br)
		dp, pp := unpackIDsSafe(0, bp)
		idsCase(w, mids, rids, pos, dres(ul(dm), nil, pm), dres(ul(dr), nil, pr), dres(ul(dp), nil, pp), "bytes/ids",
			map[string]any{"mids": mids, "rids": rids, "pos": pos})
		if k == 0 {
			w.Count("ids:empty-block")
		}
	}
	// through a real index file: generator -> writeIDsBlocks (zstd) -> loadIDs -> load{MID,RID,Params}Block -> UnpackCache
	for it := 0; it < n/4+1; it++ {
		size := r.Range(1, 6)
		k := r.Range(1, 4*size)
		if it%3 == 0 {
			k = size * r.Range(1, 3)
		}
		seen := map[seq.ID]bool{}
		var mids, rids, pos []uint64
		var ids []seq.ID
		ml, rl := genU64List(r, k), genU64List(r, k)
		for j := 0; j < k; j++ {
			id := seq.ID{MID: seq.MID(ml[j]), RID: seq.RID(rl[j])}
			if seen[id] {
				continue
			}
			seen[id] = true
			ids, mids, rids, pos = append(ids, id), append(mids, ml[j]), append(rids, rl[j]), append(pos, genU64(r))
		}
		total := uint32(genU64(r))
		offs := genU64List(r, r.Range(0, 6))
		dir := fmt.Sprintf("%s/i%05d", tmp, it)
		os.MkdirAll(dir, 0o755)
		out, err, pan := idsFileSafe(dir, ids, pos, size, total, offs, rng.Pick(r, []int{-5, 1, 3}))
		os.RemoveAll(dir)
		in := map[string]any{"ids": len(ids), "size": size, "mids": mids, "rids": rids, "pos": pos, "total": total, "offsets": offs}
		if err != nil || pan != nil {
			w.Violate("ids-file-failed", fmt.Sprintf("writing / loading the ID blocks failed: err=%v panic=%v", err, pan), in)
			continue
		}
		pb := frac.VerifC03PackPositions(total, offs)
		w.Add(fmt.Sprintf("CPosB %d %s %s (DOk (%d, %d, %s))", total, ul(offs), bl(pb), out.Table.IDBlocksTotal, out.Table.IDsTotal, ul(out.Offsets)),
			"bytes/positions", len(offs) >= 2, in, map[string]any{"ids_total": out.Table.IDsTotal, "offsets": out.Offsets})
		nb := (len(ids) + size - 1) / size
		if len(out.MIDs) != nb {
			w.Violate("ids-file-blocks", fmt.Sprintf("expected %d ID blocks, loader found %d", nb, len(out.MIDs)), in)
			continue
		}
		for b := 0; b < nb; b++ {
			lo, hi := b*size, min((b+1)*size, len(ids))
			idsCase(w, mids[lo:hi], rids[lo:hi], pos[lo:hi], dres(ul(out.MIDs[b]), nil, nil), dres(ul(out.RIDs[b]), nil, nil),
				dres(ul(out.Params[b]), nil, nil), "bytes/ids-file", map[string]any{"block": b, "of": in})
			if hi-lo == 1 {
				w.Count("ids:single-element-block")
			}
		}
	}
	// malformed
	for i := 0; i < n; i++ {
		k := r.Range(0, 5)
		vals := genU64List(r, k)
		ids := make([]seq.ID, k)
		for j := range ids {
			ids[j] = seq.ID{MID: seq.MID(vals[j]), RID: seq.RID(vals[j])}
		}
		bm, br, _ := frac.VerifC03PackIDs(ids, nil)
		format := r.Intn(3)
		src := bm
		if format == 1 {
			src = br
		}
		buf, kind := mutate(r, src)
		out, pan := unpackIDsSafe(format, buf)
		w.Add(fmt.Sprintf("CIdsDec %d %s %s", format, bl(buf), dres(ul(out), nil, pan)), "bytes/ids-malformed", pan != nil,
			map[string]any{"format": format, "buf": buf, "kind": kind}, map[string]any{"outcome": outcomeClass(nil, pan), "values": out})
		w.Count("ids-dec:" + outcomeClass(nil, pan))
	}
	for i := 0; i < n/2; i++ {
		total := uint32(genU64(r))
		offs := genU64List(r, r.Range(0, 5))
		buf, kind := mutate(r, frac.VerifC03PackPositions(total, offs))
		if i%4 == 0 {
			buf, kind = frac.VerifC03PackPositions(total, offs), "valid"
		}
		dir := fmt.Sprintf("%s/p%05d", tmp, i)
		os.MkdirAll(dir, 0o755)
		bt, itot, got, err, pan := loadPositionsSafe(dir, buf)
		os.RemoveAll(dir)
		w.Add(fmt.Sprintf("CPosDec %s %s", bl(buf), dres(fmt.Sprintf("(%d, %d, %s)", bt, itot, ul(got)), err, pan)), "bytes/positions-malformed",
			err != nil || pan != nil, map[string]any{"buf": buf, "kind": kind}, map[string]any{"outcome": outcomeClass(err, pan)})
		w.Count("positions-dec:" + outcomeClass(err, pan))
	}
}

// ---------------------------------------------------------------- token blocks

func blockUnpackSafe(data []byte) (offs []byte, err error, panicked any) {
	defer func() {
		if p := recover(); p != nil {
			panicked = p
		}
	}()
	offs, err = token.VerifC03BlockUnpack(data)
	return
}

func getValSafe(payload, offs []byte, k uint32) (v []byte, panicked any) {
	defer func() {
		if p := recover(); p != nil {
			panicked = p
		}
	}()
	return token.VerifC03GetVal(payload, offs, k), nil
}

func genTokGroups(r *rng.R) [][][]byte {
	groups := make([][][]byte, r.Range(1, 4))
	for g := range groups {
		k := r.Range(0, 5)
		if r.Chance(1, 4) {
			k = 1 // single-element block
		}
		for t := 0; t < k; t++ {
			l := r.Range(0, 12)
			if r.Chance(1, 10) {
				l = r.Range(250, 300) // length word with a second byte
			}
			tok := make([]byte, l)
			for j := range tok {
				tok[j] = byte(r.Intn(256))
			}
			if l >= 4 && r.Chance(1, 4) { // token content that looks like a separator
				copy(tok, []byte{0xff, 0xff, 0xff, 0xff})
			}
			groups[g] = append(groups[g], tok)
		}
	}
	return groups
}

func unitTokBytes(w *casefile.Writer, r *rng.R, n int) {
	// the witnesses of Props.v C03_tokens_unpack_value_or_error_refuted / C03_tokens_unpack_malformed, on the real code
	for _, buf := range [][]byte{{1}, {1, 2, 3}, {2, 0, 0, 0, 5, 6, 0xff, 0xff, 0xff, 0xff, 0, 0}, {9, 0, 0, 0, 1, 2}} {
		offs, err, pan := blockUnpackSafe(buf)
		w.Add(fmt.Sprintf("CTokDec %s %s 0 DPanic", bl(buf), dres(bl(offs), err, pan)), "bytes/tokens-malformed", true,
			map[string]any{"buf": buf, "kind": "refutation-witness"}, map[string]any{"outcome": outcomeClass(err, pan)})
		w.Count("tokens-dec:witness-" + outcomeClass(err, pan))
	}
	for i := 0; i < n; i++ {
		groups := genTokGroups(r)
		data := frac.VerifC03PackTokens(groups)
		offs, err, pan := blockUnpackSafe(data)
		total := 0
		for _, g := range groups {
			total += len(g)
		}
		vals := make([]string, 0, total+1)
		for k := 0; k <= total; k++ { // one beyond the last token: panics
			if err != nil || pan != nil {
				vals = append(vals, "DPanic")
				continue
			}
			v, p := getValSafe(data, offs, uint32(k))
			vals = append(vals, dres(bl(v), nil, p))
		}
		gs := make([]string, len(groups))
		for g := range groups {
			gs[g] = bll(groups[g])
		}
		term := fmt.Sprintf("CTokB [%s] %s %s [%s]", strings.Join(gs, ";"), bl(data), dres(bl(offs), err, pan), strings.Join(vals, ";"))
		w.Add(term, "bytes/tokens", len(groups) >= 2 && total >= 2, map[string]any{"groups": groups},
			map[string]any{"bytes": len(data), "outcome": outcomeClass(err, pan), "tokens": total})
		w.Evals(total + 1)
		if i%2 == 0 {
			buf, kind := mutate(r, data)
			if r.Chance(1, 4) { // the last token fills the rest of the block exactly (l == len(data))
				buf, kind = append([]byte{}, data[:len(data)-4]...), "cut-last-separator"
			}
			offs, err, pan := blockUnpackSafe(buf)
			k := uint32(r.Intn(total + 2))
			val := "DPanic"
			if err == nil && pan == nil {
				v, p := getValSafe(buf, offs, k)
				val = dres(bl(v), nil, p)
			}
			w.Add(fmt.Sprintf("CTokDec %s %s %d %s", bl(buf), dres(bl(offs), err, pan), k, val), "bytes/tokens-malformed", err != nil || pan != nil,
				map[string]any{"buf": buf, "kind": kind, "k": k}, map[string]any{"outcome": outcomeClass(err, pan)})
			w.Count("tokens-dec:" + outcomeClass(err, pan))
			if pan != nil && len(buf)%4 != 0 {
				w.Count("tokens-dec:short-tail-panic (Block.unpack is not value-or-error)")
			}
		}
	}
}

// ---------------------------------------------------------------- token table blocks

func loadTableSafe(dir string, blocks [][]byte) (fs []token.VerifC03Field, err error, panicked any) {
	defer func() {
		if p := recover(); p != nil {
			panicked = p
		}
	}()
	fs, err = token.VerifC03LoadTable(dir, blocks)
	return
}

func tableRes(fs []token.VerifC03Field, err error, pan any) string {
	if err != nil || pan != nil {
		return dres("", err, pan)
	}
	parts := make([]string, len(fs))
	for i, f := range fs {
		es := make([]string, len(f.Entries))
		for j, e := range f.Entries {
			es[j] = fmt.Sprintf("(%d, %d, %d, %d, %s)", e.StartTID, e.ValCount, e.StartIndex, e.BlockIndex, bl([]byte(e.MaxVal)))
		}
		parts[i] = fmt.Sprintf("(%s, %s, [%s])", bl([]byte(f.Name)), bl([]byte(f.MinVal)), strings.Join(es, ";"))
	}
	return "(DOk [" + strings.Join(parts, ";") + "])"
}

func unitTabBytes(w *casefile.Writer, r *rng.R, tmp string, n int) {
	rb := func(maxLen int) string {
		b := make([]byte, r.Intn(maxLen+1))
		for j := range b {
			b[j] = byte(r.Intn(256))
		}
		return string(b)
	}
	u32 := func() uint32 { return uint32(genU64(r)) }
	for i := 0; i < n; i++ {
		nf := r.Range(0, 4)
		fields := make([]frac.VerifC03TableField, nf)
		var coq []string
		for f := range fields {
			fields[f].Field = fmt.Sprintf("f%02d%s", f, rb(3)) // unique, sorted by construction
			ne := r.Range(0, 4)
			var es []string
			for e := 0; e < ne; e++ {
				te := token.TableEntry{StartTID: u32(), ValCount: u32(), StartIndex: u32(), BlockIndex: u32(), MinVal: rb(5), MaxVal: rb(6)}
				fields[f].Entries = append(fields[f].Entries, te)
				es = append(es, fmt.Sprintf("mkTEB %d %d %d %d %s %s", te.StartTID, te.ValCount, te.StartIndex, te.BlockIndex, bl([]byte(te.MinVal)), bl([]byte(te.MaxVal))))
			}
			coq = append(coq, fmt.Sprintf("(%s, [%s])", bl([]byte(fields[f].Field)), strings.Join(es, ";")))
		}
		data := frac.VerifC03PackTable(fields)
		var blocks [][]byte
		if nf >= 2 && r.Bool() { // two physical blocks, cut at a field boundary
			cut := len(frac.VerifC03PackTable(fields[:nf/2]))
			blocks = [][]byte{data[:cut], data[cut:]}
		} else if len(data) > 0 {
			blocks = [][]byte{data}
		}
		dir := fmt.Sprintf("%s/b%05d", tmp, i)
		os.MkdirAll(dir, 0o755)
		fs, err, pan := loadTableSafe(dir, blocks)
		term := fmt.Sprintf("CTabB [%s] %s %s", strings.Join(coq, ";"), bl(data), tableRes(fs, err, pan))
		w.Add(term, "bytes/token-table", nf >= 2, map[string]any{"fields": fields, "physical_blocks": len(blocks)},
			map[string]any{"bytes": len(data), "outcome": outcomeClass(err, pan)})
		if len(data) > 1 && i%2 == 0 { // malformed: truncated, or 1..3 stray bytes (never touches an entry count: no huge allocation)
			buf, kind := data[:r.Range(1, len(data)-1)], "truncated"
			if r.Chance(1, 3) {
				buf, kind = append(append([]byte{}, data...), make([]byte, r.Range(1, 3))...), "stray-tail"
			}
			fs, err, pan := loadTableSafe(dir, [][]byte{buf})
			w.Add(fmt.Sprintf("CTabDec %s %s", bl(buf), tableRes(fs, err, pan)), "bytes/token-table-malformed", pan != nil,
				map[string]any{"buf": buf, "kind": kind}, map[string]any{"outcome": outcomeClass(err, pan)})
			w.Count("token-table-dec:" + outcomeClass(err, pan))
		}
		os.RemoveAll(dir)
	}
}

// ---------------------------------------------------------------- index block header and registry

func unitHdrBytes(w *casefile.Writer, r *rng.R, tmp string, n int) {
	for i := 0; i < n; i++ {
		codec, ln, raw, e1, e2, pos := uint8(r.Intn(256)), uint32(genU64(r)), uint32(genU64(r)), genU64(r), genU64(r), genU64(r)
		h := disk.NewEmptyIndexBlockHeader()
		h.SetExt1(e1)
		h.SetExt2(e2)
		h.SetLen(ln)
		h.SetRawLen(raw)
		h.SetCodec(disk.Codec(codec))
		h.SetPos(pos)
		term := fmt.Sprintf("CHdr (mkHdrB %d %d %d %d %d %d) %s (mkHdrB %d %d %d %d %d %d)", codec, ln, raw, e1, e2, pos, bl(h),
			uint8(h.Codec()), h.Len(), h.RawLen(), h.GetExt1(), h.GetExt2(), h.GetPos())
		w.Add(term, "bytes/index-header", ln >= 256, map[string]any{"codec": codec, "len": ln, "rawlen": raw, "ext1": e1, "ext2": e2, "pos": pos},
			map[string]any{"bytes": []byte(h)})
	}
	for i := 0; i < n/3+1; i++ {
		path := fmt.Sprintf("%s/r%05d.index", tmp, i)
		f, err := os.Create(path)
		if err != nil {
			w.Violate("harness-error", "create: "+err.Error(), nil)
			return
		}
		f.Seek(16, 0)
		bw := disk.NewBlocksWriter(f)
		k := r.Range(0, 6)
		var hs []string
		var want []any
		off := uint64(16)
		for b := 0; b < k; b++ {
			if b > 0 && r.Chance(1, 5) { // block 0 is the info block in every real index file: never empty
				bw.WriteEmptyBlock()
				hs = append(hs, "mkHdrB 0 0 0 0 0 0")
				want = append(want, "empty")
				continue
			}
			data := make([]byte, r.Intn(40))
			if b == 0 {
				data = make([]byte, r.Range(1, 40))
			}
			for j := range data {
				data[j] = byte(r.Intn(256))
			}
			e1, e2 := genU64(r), genU64(r)
			if _, err := bw.WriteBlock("verif", data, false, 0, e1, e2); err != nil {
				w.Violate("harness-error", "WriteBlock: "+err.Error(), nil)
			}
			hs = append(hs, fmt.Sprintf("mkHdrB %d %d %d %d %d %d", uint8(disk.CodecNo), len(data), len(data), e1, e2, off))
			want = append(want, map[string]any{"len": len(data), "ext1": e1, "ext2": e2, "pos": off})
			off += uint64(len(data))
		}
		if err := bw.WriteBlocksRegistry(); err != nil {
			w.Violate("harness-error", "WriteBlocksRegistry: "+err.Error(), nil)
		}
		head := make([]byte, 16)
		f.ReadAt(head, 0)
		reg := make([]byte, binary.LittleEndian.Uint64(head[8:]))
		f.ReadAt(reg, int64(binary.LittleEndian.Uint64(head)))
		rl := disk.NewReadLimiter(1, prometheus.NewCounter(prometheus.CounterOpts{Name: "verif_c03_reg_reads"}))
		reader := disk.NewIndexReader(rl, f, cache.NewCache[[]byte](nil, nil))
		var seen []string
		for b := 0; b < k; b++ {
			h, err := reader.GetBlockHeader(uint32(b))
			if err != nil {
				seen = append(seen, "(0,0,0)") // shows as a difference
				continue
			}
			seen = append(seen, fmt.Sprintf("(%d, %d, %d)", h.Len(), h.GetExt1(), h.GetExt2()))
		}
		hb, err := reader.GetBlockHeader(uint32(k))
		beyond := dres(bl(hb), err, nil)
		f.Close()
		os.Remove(path)
		term := fmt.Sprintf("CReg [%s] %s [%s] %s", strings.Join(hs, ";"), bl(reg), strings.Join(seen, ";"), beyond)
		w.Add(term, "bytes/registry", k >= 2, map[string]any{"blocks": want}, map[string]any{"registry_bytes": len(reg)})
	}
}

// ----------------------------------------------------------------

func unitBytes(w *casefile.Writer, r *rng.R, k int) {
	tmp, err := os.MkdirTemp("", "verif-hC03-bytes-")
	if err != nil {
		w.Violate("harness-error", "MkdirTemp: "+err.Error(), nil)
		return
	}
	defer os.RemoveAll(tmp)
	unitVarint(w, r.Fork(), 300*k)
	unitVarintDec(w, r.Fork(), 250*k)
	unitFixed(w, r.Fork(), 100*k)
	unitChunksBytes(w, r.Fork(), 200*k)
	unitIDsBytes(w, r.Fork(), tmp, 100*k)
	unitTokBytes(w, r.Fork(), 110*k)
	unitTabBytes(w, r.Fork(), tmp, 60*k)
	unitHdrBytes(w, r.Fork(), tmp, 90*k)
}
