// hC03 — correspondence driver for property C03 (answers do not depend on the fraction form:
// active = sealed = reloaded = any cache). Two parts:
//
//	unit.go  unit-level correspondence through the export files at high volume with SMALL block
//	         constants: the real LID block generator, Chunks.Pack/unpack, lids.Table and both LID
//	         iterators, the token block generator and the ID block generator, compared with the
//	         Coq model (props/C03/coq/Model.v) and judged by the executable spec (CaseDefs.v);
//	e2e.go   end-to-end: one corpus -> real active fraction, real Seal (preloaded), real reload
//	         in a fresh FracManager; the same requests to all three, compared pairwise and with a
//	         brute-force oracle (CForm cases).
package main

import (
	"flag"
	"fmt"
	"os"
	"time"

	"verif/harness/internal/casefile"
	"verif/harness/internal/rng"
)

func main() {
	seed := flag.Uint64("seed", 1, "seed")
	tier := flag.String("tier", "quick", "quick|thorough")
	out := flag.String("out", "", "output directory")
	only := flag.String("only", "", "unit|e2e (debug)")
	flag.Parse()
	if e := os.Getenv("HC03_ONLY"); e != "" && *only == "" { // debugging / mutation runs: restrict to one part
		*only = e
	}
	if *out == "" {
		fmt.Fprintln(os.Stderr, "hC03: -out required")
		os.Exit(2)
	}
	w, err := casefile.New(*out, "C03", "From Coq Require Import ZArith.\nFrom VLib Require Import CaseLib.\nFrom C03 Require Import Model ModelBytes CaseDefs.\nLocal Open Scope N_scope.", 300)
	if err != nil {
		fmt.Fprintln(os.Stderr, err)
		os.Exit(2)
	}
	r := rng.New(*seed)
	ru, re := r.Fork(), r.Fork()
	t0 := time.Now()
	if *only == "" || *only == "unit" {
		runUnit(w, ru, *tier)
	}
	t1 := time.Now()
	if *only == "" || *only == "e2e" {
		runE2E(w, re, *tier)
	}
	w.Extra["unit_s"] = t1.Sub(t0).Seconds()
	w.Extra["e2e_s"] = time.Since(t1).Seconds()
	if *only == "" || *only == "gen" { // gen-* classes: validation of the translated definitions (gen.go)
		runGen(w, r.Fork(), *tier == "thorough")
	}
	if err := w.Close(); err != nil {
		fmt.Fprintln(os.Stderr, err)
		os.Exit(2)
	}
}
