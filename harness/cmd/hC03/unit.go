package main

import (
	"verif/harness/internal/casefile"
	"verif/harness/internal/rng"
)

func runUnit(w *casefile.Writer, r *rng.R, tier string) {}
