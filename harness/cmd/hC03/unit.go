package main

import (
	"bytes"
	"fmt"
	"sort"
	"strings"

	"github.com/ozontech/seq-db/frac"
	"github.com/ozontech/seq-db/frac/lids"
	"github.com/ozontech/seq-db/seq"

	"verif/harness/internal/casefile"
	"verif/harness/internal/rng"
)

// ---------------------------------------------------------------- rendering

func nl(xs []uint32) string {
	if len(xs) == 0 {
		return "[]"
	}
	parts := make([]string, len(xs))
	for i, x := range xs {
		parts[i] = fmt.Sprint(x)
	}
	return "[" + strings.Join(parts, ";") + "]"
}

func nll(xs [][]uint32) string {
	parts := make([]string, len(xs))
	for i, x := range xs {
		parts[i] = nl(x)
	}
	return "[" + strings.Join(parts, ";") + "]"
}

func nlll(xs [][][]uint32) string {
	parts := make([]string, len(xs))
	for i, x := range xs {
		parts[i] = nll(x)
	}
	return "[" + strings.Join(parts, ";") + "]"
}

func zl(xs []int64) string {
	parts := make([]string, len(xs))
	for i, x := range xs {
		parts[i] = fmt.Sprintf("(%d)%%Z", x)
	}
	return "[" + strings.Join(parts, ";") + "]"
}

func chunksCoq(cs [][]uint32, isLast bool) string {
	return fmt.Sprintf("(mkChunks %s %s)", nll(cs), casefile.Bool(isLast))
}

func blockCoq(b *lids.Block) string {
	return fmt.Sprintf("(mkBlock %d %d %s %s)", b.MinTID, b.MaxTID, casefile.Bool(b.IsContinued),
		chunksCoq(lids.VerifC03Chunks(&b.Chunks), b.Chunks.IsLastLID))
}

func resList(out []uint32, hung bool, panicked any) string {
	switch {
	case panicked != nil:
		return "Panic"
	case hung:
		return "OutOfFuel"
	}
	return "(Ok " + nl(out) + ")"
}

// ---------------------------------------------------------------- Chunks.Pack / unpack

const maxLID = 1<<32 - 2 // MaxUint32 is the end marker

func genChunks(r *rng.R) ([][]uint32, bool) {
	n := r.Range(0, 6)
	cs := make([][]uint32, n)
	for i := range cs {
		k := r.Range(0, 5)
		if r.Chance(1, 6) {
			k = 0 // empty chunk in the middle (a token without postings)
		}
		var cur uint32
		switch r.Intn(4) {
		case 0:
			cur = uint32(r.Intn(4))
		case 1:
			cur = maxLID - uint32(r.Intn(12))
		default:
			cur = uint32(r.U64() % maxLID)
		}
		for j := 0; j < k; j++ {
			cs[i] = append(cs[i], cur)
			step := uint32(1 + r.Intn(3))
			if r.Chance(1, 5) {
				step = uint32(r.U64() % (1 << 31))
			}
			if r.Chance(1, 8) { // not increasing (the codec itself does not need order)
				cur = uint32(r.U64() % maxLID)
			} else if cur > maxLID-step {
				break
			} else {
				cur += step
			}
		}
	}
	isLast := r.Bool()
	if !isLast { // shape the generator guarantees: an open block ends inside a non-empty chunk
		if n == 0 || len(cs[n-1]) == 0 {
			isLast = true
		}
	}
	return cs, isLast
}

func unitChunks(w *casefile.Writer, r *rng.R, n int) {
	for i := 0; i < n; i++ {
		cs, isLast := genChunks(r)
		c := lids.VerifC03NewChunks(cs, isLast)
		vals, back, err := lids.VerifC03PackUnpack(c)
		backCoq := "None"
		var impl any = "error"
		if err == nil && back != nil {
			bl := lids.VerifC03Chunks(back)
			backCoq = "(Some " + chunksCoq(bl, back.IsLastLID) + ")"
			impl = map[string]any{"chunks": bl, "isLast": back.IsLastLID}
		}
		term := fmt.Sprintf("CChunks %s %s %s %s", nll(cs), casefile.Bool(isLast), zl(vals), backCoq)
		nt := len(cs) >= 2
		w.Add(term, "chunks/codec", nt, map[string]any{"chunks": cs, "isLast": isLast}, impl)
		if !isLast {
			w.Count("chunks:open-block")
		}
	}
}

// ---------------------------------------------------------------- LID blocks: generator, table, iterators

type corpus struct {
	cap    int
	fields [][][]uint32 // new LIDs, strictly increasing, per field per token (dictionary order)
	maxLID uint32
	shape  string
}

// posting list of n strictly increasing LIDs in [1, m]
func genPostings(r *rng.R, n int, m uint32, edge bool) []uint32 {
	out := make([]uint32, 0, n)
	if edge { // values at the top of the uint32 range (the end marker is 2^32-1)
		cur := uint32(maxLID) - uint32(n) - uint32(r.Intn(5))
		for i := 0; i < n; i++ {
			out = append(out, cur)
			cur++
		}
		return out
	}
	seen := map[uint32]bool{}
	for len(out) < n {
		v := 1 + uint32(r.U64()%uint64(m))
		if !seen[v] {
			seen[v] = true
			out = append(out, v)
		}
	}
	sort.Slice(out, func(i, j int) bool { return out[i] < out[j] })
	return out
}

func genCorpus(r *rng.R) corpus {
	c := corpus{cap: rng.Pick(r, []int{1, 2, 3, 4, 5, 8})}
	nf := r.Range(1, 3)
	c.maxLID = uint32(r.Range(c.cap*3+2, c.cap*6+8))
	shape := r.Intn(5)
	for f := 0; f < nf; f++ {
		nt := r.Range(1, 5)
		var toks [][]uint32
		for t := 0; t < nt; t++ {
			var n int
			switch shape {
			case 0: // multiples of the capacity: tokens end exactly at block ends
				n = c.cap * r.Range(1, 3)
			case 1: // one off
				n = c.cap*r.Range(1, 3) + r.Range(-1, 1)
			case 2: // many tiny tokens
				n = r.Range(1, 2)
			default:
				n = r.Range(1, c.cap*3+1)
			}
			if n < 1 {
				n = 1
			}
			if uint32(n) > c.maxLID {
				n = int(c.maxLID)
			}
			toks = append(toks, genPostings(r, n, c.maxLID, shape == 4 && r.Chance(1, 3)))
		}
		c.fields = append(c.fields, toks)
	}
	c.shape = []string{"exact-multiples", "one-off", "tiny-tokens", "random", "random+uint32-edge"}[shape]
	return c
}

// hand over the corpus to the real generator: field names/token values in dictionary order, inserted in
// shuffled order (TIDs of the active fraction are arrival ordered). Old LIDs are 1..K (K = number of
// distinct new LIDs), oldToNew is monotone (rank) or a random permutation.
func (c corpus) toReal(r *rng.R, permute bool) (map[string][]frac.VerifC03Token, []uint32, [][][]uint32) {
	seen := map[uint32]bool{}
	var distinct []uint32
	for _, f := range c.fields {
		for _, t := range f {
			for _, l := range t {
				if !seen[l] {
					seen[l] = true
					distinct = append(distinct, l)
				}
			}
		}
	}
	sort.Slice(distinct, func(i, j int) bool { return distinct[i] < distinct[j] })
	k := len(distinct)
	olds := make([]uint32, k)
	for i := range olds {
		olds[i] = uint32(i + 1)
	}
	if permute {
		rng.Shuffle(r, olds)
	}
	o2n := make([]uint32, k+1)
	n2o := map[uint32]uint32{}
	for i, nw := range distinct {
		o2n[olds[i]] = nw
		n2o[nw] = olds[i]
	}
	m := map[string][]frac.VerifC03Token{}
	old := make([][][]uint32, len(c.fields))
	for fi, toks := range c.fields {
		name := fmt.Sprintf("f%02d", fi)
		list := make([]frac.VerifC03Token, len(toks))
		old[fi] = make([][]uint32, len(toks))
		for ti, p := range toks {
			ol := make([]uint32, len(p))
			for i, l := range p {
				ol[i] = n2o[l]
			}
			old[fi][ti] = ol
			list[ti] = frac.VerifC03Token{Val: []byte(fmt.Sprintf("v%03d", ti)), LIDs: ol}
		}
		rng.Shuffle(r, list)
		m[name] = list
	}
	return m, o2n, old
}

func genBlocksSafe(fields map[string][]frac.VerifC03Token, o2n []uint32, cap int) (bs []*lids.Block, err error, panicked any) {
	defer func() {
		if p := recover(); p != nil {
			panicked = p
		}
	}()
	bs, err = frac.VerifC03LIDBlocks(fields, o2n, cap)
	return
}

func unitGen(w *casefile.Writer, r *rng.R, n int) {
	for i := 0; i < n; i++ {
		c := genCorpus(r)
		real, o2n, old := c.toReal(r, true)
		bs, err, p := genBlocksSafe(real, o2n, c.cap)
		impl := "Panic"
		if p == nil && err == nil {
			parts := make([]string, len(bs))
			for j, b := range bs {
				parts[j] = blockCoq(b)
			}
			impl = "(Ok [" + strings.Join(parts, ";") + "])"
		}
		term := fmt.Sprintf("CGen %d %s %s %s", c.cap, nl(o2n), nlll(old), impl)
		w.Add(term, "lids/generator", len(bs) >= 2, map[string]any{"cap": c.cap, "oldToNew": o2n, "fields": old, "shape": c.shape},
			map[string]any{"blocks": len(bs), "panic": fmt.Sprint(p), "err": fmt.Sprint(err)})
		w.Count("gen-shape:" + c.shape)
	}
}

func unitIter(w *casefile.Writer, r *rng.R, n int) {
	for i := 0; i < n; i++ {
		c := genCorpus(r)
		real, o2n, _ := c.toReal(r, false)
		bs, err, p := genBlocksSafe(real, o2n, c.cap)
		if p != nil || err != nil {
			w.Violate("lids-generator-failed", fmt.Sprintf("getLIDsBlockGenerator failed: panic=%v err=%v", p, err),
				map[string]any{"cap": c.cap, "fields": c.fields})
			continue
		}
		// real Table (as the sealing writer builds it), real Pack + unpack of every block
		t := lids.NewTable(7, nil, nil, nil)
		var backs []*lids.Chunks
		bad := false
		for _, b := range bs {
			t.Add(b)
			_, back, err := lids.VerifC03PackUnpack(&b.Chunks)
			if err != nil {
				w.Violate("lids-unpack-error", "Chunks.unpack failed on Chunks.Pack output: "+err.Error(),
					map[string]any{"cap": c.cap, "fields": c.fields})
				bad = true
				break
			}
			backs = append(backs, back)
		}
		if bad {
			continue
		}
		// queries: every tid, both directions, borders around the stored values
		var qs []string
		var qin []any
		tid := uint32(0)
		cont := false
		for _, bl := range bs {
			if bl.IsContinued {
				cont = true
			}
		}
		for _, f := range c.fields {
			for _, post := range f {
				tid++
				for k := 0; k < 4; k++ {
					lo, hi := uint32(0), uint32(1<<32-1)
					pick := func() uint32 {
						v := post[r.Intn(len(post))]
						switch r.Intn(4) {
						case 0:
							if v > 0 {
								v--
							}
						case 1:
							v++
						}
						return v
					}
					switch k {
					case 0:
					case 1:
						lo, hi = pick(), pick()
						if lo > hi && r.Chance(3, 4) {
							lo, hi = hi, lo
						}
					case 2:
						lo = pick()
					case 3:
						hi = pick()
					}
					asc := r.Bool()
					out, hung, pan := lids.VerifC03Iterate(t, backs, tid, lo, hi, asc, 4*int(c.maxLID)+1000)
					qs = append(qs, fmt.Sprintf("mkQ %d %d %d %s %s", tid, lo, hi, casefile.Bool(asc), resList(out, hung, pan)))
					qin = append(qin, map[string]any{"tid": tid, "lo": lo, "hi": hi, "asc": asc, "got": out, "hung": hung, "panic": fmt.Sprint(pan)})
				}
			}
		}
		term := fmt.Sprintf("CIter %d %s [%s]", c.cap, nlll(c.fields), strings.Join(qs, ";"))
		w.Add(term, "lids/roundtrip", cont, map[string]any{"cap": c.cap, "fields": c.fields, "shape": c.shape}, qin)
		w.Count("iter-shape:" + c.shape)
		if cont {
			w.Count("iter:token-spans-blocks")
		}
		w.Evals(len(qs))
	}
}

// ---------------------------------------------------------------- token block generator

type tokField struct {
	name string
	toks [][]byte
}

func mkTok(prefix string, idx, length int) []byte {
	s := fmt.Sprintf("%s%06d", prefix, idx)
	if len(s) >= length {
		return []byte(s[len(s)-length:])
	}
	return append([]byte(s), bytes.Repeat([]byte{'x'}, length-len(s))...)
}

func genTokFields(r *rng.R) ([]tokField, string) {
	const blk = 16384
	shape := r.Intn(7)
	name := []string{"one-huge-token", "three-9000", "exact-threshold", "few-big", "many-small", "mixed", "random"}[shape]
	nf := r.Range(1, 3)
	var out []tokField
	for f := 0; f < nf; f++ {
		tf := tokField{name: fmt.Sprintf("f%02d", f)}
		sh := shape
		if f > 0 && r.Bool() {
			sh = 6
		}
		switch sh {
		case 0: // fewer tokens than blocks: one token of 20000 bytes
			tf.toks = [][]byte{mkTok("h", 0, 20000+r.Intn(3)*16384)}
		case 1:
			for i := 0; i < 3; i++ {
				tf.toks = append(tf.toks, mkTok("t", i, 9000))
			}
		case 2: // total size exactly k*16384 (+-1)
			k := r.Range(1, 3)
			n := rng.Pick(r, []int{1, 2, 4, 16, 64, 100})
			total := k*blk + r.Range(-1, 1)
			each := total / n
			if each < 8 {
				each = 8
			}
			for i := 0; i < n; i++ {
				l := each
				if i == n-1 {
					l = total - each*(n-1)
				}
				if l < 7 {
					l = 7
				}
				tf.toks = append(tf.toks, mkTok("e", i, l))
			}
		case 3: // tokens larger than a block, fewer than blocks
			n := r.Range(1, 4)
			for i := 0; i < n; i++ {
				tf.toks = append(tf.toks, mkTok("b", i, r.Range(9000, 40000)))
			}
		case 4:
			n := r.Range(1, 3000)
			for i := 0; i < n; i++ {
				tf.toks = append(tf.toks, mkTok("s", i, r.Range(7, 30)))
			}
		case 5:
			n := r.Range(1, 30)
			for i := 0; i < n; i++ {
				l := r.Range(7, 40)
				if r.Chance(1, 5) {
					l = r.Range(5000, 30000)
				}
				tf.toks = append(tf.toks, mkTok("m", i, l))
			}
		default:
			n := r.Range(1, 200)
			for i := 0; i < n; i++ {
				tf.toks = append(tf.toks, mkTok("r", i, r.Range(7, 600)))
			}
		}
		out = append(out, tf)
	}
	return out, name
}

func tokBlocksSafe(fields map[string][]frac.VerifC03Token, limit int) (bs []frac.VerifC03TokenBlock, stopped bool, err error, panicked any) {
	defer func() {
		if p := recover(); p != nil {
			panicked = p
		}
	}()
	bs, stopped, err = frac.VerifC03TokenBlocks(fields, limit)
	return
}

func unitTok(w *casefile.Writer, r *rng.R, n int) {
	for i := 0; i < n; i++ {
		fields, shape := genTokFields(r)
		real := map[string][]frac.VerifC03Token{}
		type key struct{ f, v string }
		var all []key
		var fcoq []string
		var desc []any
		total := 0
		for _, f := range fields {
			size := 0
			list := make([]frac.VerifC03Token, len(f.toks))
			for j, t := range f.toks {
				list[j] = frac.VerifC03Token{Val: t, LIDs: []uint32{1}}
				size += len(t)
				all = append(all, key{f.name, string(t)})
			}
			rng.Shuffle(r, list)
			real[f.name] = list
			fcoq = append(fcoq, fmt.Sprintf("(%d,%d)", size, len(f.toks)))
			desc = append(desc, map[string]any{"field": f.name, "size": size, "tokens": len(f.toks)})
			total += len(f.toks)
		}
		sort.Slice(all, func(a, b int) bool {
			if all[a].f != all[b].f {
				return all[a].f < all[b].f
			}
			return all[a].v < all[b].v
		})
		rank := map[key]int{}
		for j, k := range all {
			rank[k] = j
		}
		bs, stopped, err, p := tokBlocksSafe(real, 4*total+16)
		impl := ""
		var ranks []string
		switch {
		case p != nil || err != nil:
			impl = "Panic"
		case stopped:
			impl = "OutOfFuel"
		default:
			parts := make([]string, len(bs))
			for j, b := range bs {
				parts[j] = fmt.Sprintf("(%d,%d,%s)", b.StartTID, len(b.Tokens), casefile.Bool(b.IsStartOfField))
				rk := make([]uint32, len(b.Tokens))
				for k, t := range b.Tokens {
					rk[k] = uint32(rank[key{b.Field, string(t)}])
				}
				ranks = append(ranks, nl(rk))
			}
			impl = "(Ok [" + strings.Join(parts, ";") + "])"
		}
		term := fmt.Sprintf("CTok [%s] %s [%s]", strings.Join(fcoq, ";"), impl, strings.Join(ranks, ";"))
		w.Add(term, "tokens/generator", len(bs) > len(fields), map[string]any{"shape": shape, "fields": desc},
			map[string]any{"blocks": len(bs), "stopped": stopped, "panic": fmt.Sprint(p), "err": fmt.Sprint(err)})
		w.Count("tok-shape:" + shape)
	}
}

// ---------------------------------------------------------------- ID block generator

func unitIDs(w *casefile.Writer, r *rng.R, n int) {
	for i := 0; i < n; i++ {
		size := r.Range(1, 6)
		var cnt int
		switch r.Intn(3) {
		case 0:
			cnt = size * r.Range(0, 4)
		case 1:
			cnt = size*r.Range(1, 4) + r.Range(-1, 1)
		default:
			cnt = r.Range(0, 25)
		}
		ids := make([]seq.ID, 0, cnt)
		mid, rid := uint64(1000+cnt*3), uint64(50)
		for j := 0; j < cnt; j++ {
			ids = append(ids, seq.ID{MID: seq.MID(mid), RID: seq.RID(rid)})
			if r.Chance(1, 3) && rid > 0 {
				rid -= uint64(r.Range(1, 3))
				if rid > 1<<62 {
					rid = 0
					mid--
				}
			} else {
				mid -= uint64(r.Range(1, 3))
				rid = uint64(r.Intn(100))
			}
		}
		blocks, mins, err, p := idBlocksSafe(ids, size)
		idc := func(xs []seq.ID) string {
			parts := make([]string, len(xs))
			for k, x := range xs {
				parts[k] = fmt.Sprintf("(%d,%d)", uint64(x.MID), uint64(x.RID))
			}
			return "[" + strings.Join(parts, ";") + "]"
		}
		impl := "None"
		if err == nil && p == nil {
			parts := make([]string, len(blocks))
			for k, b := range blocks {
				parts[k] = idc(b)
			}
			impl = "(Some [" + strings.Join(parts, ";") + "])"
		}
		term := fmt.Sprintf("CIds %d %s %s %s", size, idc(ids), impl, idc(mins))
		w.Add(term, "ids/generator", len(blocks) >= 2, map[string]any{"size": size, "ids": len(ids), "first": fmt.Sprint(ids)},
			map[string]any{"blocks": len(blocks), "panic": fmt.Sprint(p), "err": fmt.Sprint(err)})
		if cnt > 0 && cnt%size == 0 {
			w.Count("ids:exact-multiple")
		}
	}
}

func idBlocksSafe(ids []seq.ID, size int) (blocks [][]seq.ID, mins []seq.ID, err error, panicked any) {
	defer func() {
		if p := recover(); p != nil {
			panicked = p
		}
	}()
	blocks, mins, err = frac.VerifC03IDsBlocks(ids, size)
	return
}

// ----------------------------------------------------------------

func runUnit(w *casefile.Writer, r *rng.R, tier string) {
	k := 1
	if tier == "thorough" {
		k = 8
	}
	unitChunks(w, r.Fork(), 1000*k)
	unitGen(w, r.Fork(), 300*k)
	unitIter(w, r.Fork(), 400*k)
	unitTok(w, r.Fork(), 150*k)
	unitIDs(w, r.Fork(), 200*k)
	unitDocs(w, r.Fork(), 200*k)
	unitTokTab(w, r.Fork(), 90*k)
	unitBytes(w, r.Fork(), k)
}
