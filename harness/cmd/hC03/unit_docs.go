package main

// unit_docs.go — unit-level correspondence for the sorted-docs rewrite (CDocs cases): the real
// writeDocsInOrder + docBlocksWriter + DocsReader on small files with SMALL block sizes.

import (
	"fmt"
	"os"
	"sort"
	"strings"

	"github.com/ozontech/seq-db/frac"
	"github.com/ozontech/seq-db/seq"

	"verif/harness/internal/casefile"
	"verif/harness/internal/rng"
)

func docCoq(d []byte) string {
	parts := make([]string, len(d))
	for i, b := range d {
		parts[i] = fmt.Sprint(b)
	}
	return "[" + strings.Join(parts, ";") + "]"
}

func optDocCoq(d []byte, ok bool) string {
	if !ok {
		return "None"
	}
	return "(Some " + docCoq(d) + ")"
}

func sortDocsSafe(dir string, blocks [][][]byte, owners [][]seq.ID, order []seq.ID, bsz int) (out *frac.VerifC03SortDocsOut, err error, panicked any) {
	defer func() {
		if p := recover(); p != nil {
			panicked = p
		}
	}()
	out, err = frac.VerifC03SortDocs(dir, blocks, owners, order, bsz, 1)
	return
}

func unitDocs(w *casefile.Writer, r *rng.R, n int) {
	tmp, err := os.MkdirTemp("", "verif-hC03-docs-")
	if err != nil {
		w.Violate("harness-error", "MkdirTemp: "+err.Error(), nil)
		return
	}
	defer os.RemoveAll(tmp)
	for it := 0; it < n; it++ {
		nb := r.Range(1, 4)
		var blocks [][][]byte
		var owners [][]seq.ID
		var all []seq.ID
		truth := map[seq.ID][]byte{}
		next := uint64(1000)
		for b := 0; b < nb; b++ {
			nd := r.Range(1, 6)
			var docs [][]byte
			var ids []seq.ID
			for i := 0; i < nd; i++ {
				l := rng.Pick(r, []int{0, 1, 3, 7, 12, 30})
				d := make([]byte, l)
				for k := range d {
					d[k] = byte(r.Intn(256))
				}
				id := seq.ID{MID: seq.MID(next + uint64(r.Intn(2))), RID: seq.RID(r.Intn(1 << 20))}
				for truth[id] != nil || id == (seq.ID{}) {
					id.RID++
				}
				next = uint64(id.MID) + uint64(r.Intn(2))
				truth[id] = append(d, 0)[:l:l] // non-nil even when empty
				if l == 0 {
					truth[id] = []byte{}
				}
				docs, ids, all = append(docs, d), append(ids, id), append(all, id)
			}
			blocks, owners = append(blocks, docs), append(owners, ids)
		}
		// the order of the sealer: IDs descending; nested documents repeat their ID (consecutively)
		order := append([]seq.ID{}, all...)
		sort.Slice(order, func(i, j int) bool { return seq.Less(order[j], order[i]) })
		var ord2 []seq.ID
		for _, id := range order {
			ord2 = append(ord2, id)
			for r.Chance(1, 5) {
				ord2 = append(ord2, id)
			}
		}
		order = ord2
		if r.Chance(1, 6) { // arbitrary order (the rewrite itself does not need sortedness)
			rng.Shuffle(r, order)
		}
		bsz := rng.Pick(r, []int{1, 8, 16, 24, 40, 80, 200})
		dir := fmt.Sprintf("%s/d%05d", tmp, it)
		os.MkdirAll(dir, 0o755)
		out, err, p := sortDocsSafe(dir, blocks, owners, order, bsz)
		os.RemoveAll(dir)
		in := map[string]any{"block_size": bsz, "active_blocks": blocks, "owners": fmt.Sprint(owners), "order": fmt.Sprint(order)}
		if err != nil || p != nil {
			w.Violate("sortdocs-failed", fmt.Sprintf("writeDocsInOrder failed: err=%v panic=%v", err, p), in)
			continue
		}
		// Coq term
		var lens, pa, oa, fa, ids, pn, on, ga, gs, tr []string
		for i, o := range out.NewOffsets {
			end := out.NewSize
			if i+1 < len(out.NewOffsets) {
				end = out.NewOffsets[i+1]
			}
			lens = append(lens, fmt.Sprint(end-o))
			on = append(on, fmt.Sprint(o))
		}
		for b := range blocks {
			var ds []string
			for _, d := range blocks[b] {
				ds = append(ds, docCoq(d))
			}
			fa = append(fa, fmt.Sprintf("(%d,[%s])", out.ActiveLens[b], strings.Join(ds, ";")))
			oa = append(oa, fmt.Sprint(out.ActiveOffsets[b]))
			for _, id := range owners[b] {
				pa = append(pa, fmt.Sprintf("((%d,%d),%d)", uint64(id.MID), uint64(id.RID), uint64(out.ActivePos[id])))
			}
		}
		seen := map[seq.ID]bool{}
		for _, id := range order {
			ids = append(ids, fmt.Sprintf("(%d,%d)", uint64(id.MID), uint64(id.RID)))
			if p, ok := out.NewPos[id]; ok && !seen[id] {
				pn = append(pn, fmt.Sprintf("((%d,%d),%d)", uint64(id.MID), uint64(id.RID), uint64(p)))
			}
			seen[id] = true
			a, oka := out.FromActive[id]
			s, oks := out.FromSorted[id]
			ga, gs = append(ga, optDocCoq(a, oka)), append(gs, optDocCoq(s, oks))
			tr = append(tr, docCoq(truth[id]))
		}
		j := func(x []string) string { return "[" + strings.Join(x, ";") + "]" }
		term := fmt.Sprintf("CDocs %d %s %s %s %s %s %s %s %s %s %s", bsz, j(lens), j(pa), j(oa), j(fa), j(ids), j(pn), j(on), j(ga), j(gs), j(tr))
		w.Add(term, "docs/sorted-rewrite", len(out.NewOffsets) >= 2, in,
			map[string]any{"new_offsets": out.NewOffsets, "missing": fmt.Sprint(out.Missing)})
		if len(out.NewOffsets) >= 2 {
			w.Count("docs:several-sorted-blocks")
		}
	}
}
