package main

// unit_toktab.go — unit-level correspondence for the token table of a sealed fraction (CTokTab cases):
// real writeTokensBlocks / writeTokenTableBlocks into an index file, real TableLoader / BlockLoader,
// and for EVERY TID the value found by Table.GetEntryByTID + Block.GetValByTID.

import (
	"fmt"
	"os"
	"sort"
	"strings"

	"github.com/ozontech/seq-db/frac"

	"verif/harness/internal/casefile"
	"verif/harness/internal/rng"
)

func tokTabSafe(dir string, fields map[string][]frac.VerifC03Token) (out *frac.VerifC03TokenTableOut, err error, panicked any) {
	defer func() {
		if p := recover(); p != nil {
			panicked = p
		}
	}()
	out, err = frac.VerifC03TokenTable(dir, fields, 1)
	return
}

func unitTokTab(w *casefile.Writer, r *rng.R, n int) {
	tmp, err := os.MkdirTemp("", "verif-hC03-toktab-")
	if err != nil {
		w.Violate("harness-error", "MkdirTemp: "+err.Error(), nil)
		return
	}
	defer os.RemoveAll(tmp)
	for it := 0; it < n; it++ {
		fields, shape := genTokFields(r)
		for i := range fields { // keep the Coq evaluation cheap: at most ~600 tokens per case
			if lim := 600 / len(fields); len(fields[i].toks) > lim {
				fields[i].toks = fields[i].toks[:lim]
			}
		}
		real := map[string][]frac.VerifC03Token{}
		type key struct{ f, v string }
		var all []key
		var desc []any
		for _, f := range fields {
			list := make([]frac.VerifC03Token, len(f.toks))
			size := 0
			for j, t := range f.toks {
				list[j] = frac.VerifC03Token{Val: t, LIDs: []uint32{1}}
				all = append(all, key{f.name, string(t)})
				size += len(t)
			}
			rng.Shuffle(r, list)
			real[f.name] = list
			desc = append(desc, map[string]any{"field": f.name, "size": size, "tokens": len(f.toks)})
		}
		sort.Slice(all, func(a, b int) bool {
			if all[a].f != all[b].f {
				return all[a].f < all[b].f
			}
			return all[a].v < all[b].v
		})
		tidOf := map[key]int{} // (field, value) -> TID
		var fcoq []string
		var cur []string
		for j, k := range all {
			tidOf[k] = j + 1
			if j > 0 && all[j-1].f != k.f {
				fcoq, cur = append(fcoq, "["+strings.Join(cur, ";")+"]"), nil
			}
			cur = append(cur, fmt.Sprint(len(k.v)))
		}
		fcoq = append(fcoq, "["+strings.Join(cur, ";")+"]")
		dir := fmt.Sprintf("%s/t%05d", tmp, it)
		os.MkdirAll(dir, 0o755)
		out, err, p := tokTabSafe(dir, real)
		os.RemoveAll(dir)
		in := map[string]any{"shape": shape, "fields": desc}
		if err != nil || p != nil {
			w.Violate("toktab-failed", fmt.Sprintf("writing / loading the token table failed: err=%v panic=%v", err, p), in)
			continue
		}
		ents := func(es []frac.VerifC03Entry) string {
			parts := make([]string, len(es))
			for i, e := range es {
				parts[i] = fmt.Sprintf("mkTE %d %d %d %d", e.StartTID, e.ValCount, e.StartIndex, e.BlockIdx)
			}
			return "[" + strings.Join(parts, ";") + "]"
		}
		bad := 0
		vals := func(vs [][]byte, ps []string) string {
			parts := make([]string, len(vs))
			for i, v := range vs {
				t, ok := tidOf[key{all[i].f, string(v)}] // the value is looked up in the field the TID belongs to first
				for _, f := range fields {
					if !ok {
						t, ok = tidOf[key{f.name, string(v)}]
					}
				}
				if ok && ps[i] == "" && v != nil {
					parts[i] = fmt.Sprintf("Some %d", t)
					if t != i+1 {
						bad++
					}
				} else {
					parts[i] = "None"
					bad++
				}
			}
			return "[" + strings.Join(parts, ";") + "]"
		}
		term := fmt.Sprintf("CTokTab [%s] %s %s %s %s", strings.Join(fcoq, ";"), ents(out.Preloaded), ents(out.Loaded),
			vals(out.ValsPre, out.PanicsPre), vals(out.ValsLoaded, out.PanicsLoaded))
		blocks := map[uint32]bool{}
		for _, e := range out.Preloaded {
			blocks[e.BlockIdx] = true
		}
		var firstPanic string
		for i, p := range append(append([]string{}, out.PanicsPre...), out.PanicsLoaded...) {
			if p != "" {
				firstPanic = fmt.Sprintf("tid %d: %s", i%max(1, out.N)+1, p)
				break
			}
		}
		w.Add(term, "tokens/table", len(blocks) >= 2, in,
			map[string]any{"entries": len(out.Preloaded), "physical_blocks": len(blocks), "tids": out.N, "wrong_or_failed_lookups": bad, "first_panic": firstPanic})
		if len(blocks) >= 2 {
			w.Count("toktab:several-physical-blocks")
		}
		w.Evals(2 * out.N)
	}
}
