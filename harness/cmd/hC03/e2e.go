package main

import (
	"verif/harness/internal/casefile"
	"verif/harness/internal/rng"
)

func runE2E(w *casefile.Writer, r *rng.R, tier string) {}
