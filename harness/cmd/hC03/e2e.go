package main

// e2e.go — end-to-end part of hC03: ONE corpus -> three forms of the same fraction built by the
// REAL code: (A) active, (S) sealed from PreloadedData on the same manager, (R) sealed loaded from
// its files by a second FracManager (possibly another CacheSize). The same batch of requests goes
// to A, S, R; every request gives one case
//
//	CForm <kind>%N [active]%N [sealed]%N [reloaded]%N [oracle]%N
//
// where the four lists are the canonical answers (see eAnswer.canon / eCanonFetch / eCompress) and the
// oracle is computed by brute force from the document list only (no /repo code involved).
// kind: 1 search desc, 2 search asc, 3 histogram, 4 aggregation (count group by), 5 fetch.
//
// Oracle independence: search, histogram, count-aggregation and fetch all have an independent
// oracle. Two deliberate omissions from the canonical answer (so that the oracle stays exact):
//   - fetch lists with a repeated ID: the real Fetcher delivers the document at ONE of the
//     positions of that ID (reversPos keeps the last); which position is a C04 matter, so every
//     position of a repeated ID shows the document delivered at any of its positions;
//   - aggregation bins without time series carry consts.DummyMID; rendered as 0.

import (
	"fmt"
	"os"
	"path/filepath"
	"runtime"
	"runtime/debug"
	"sort"
	"strings"
	"sync"

	"github.com/ozontech/seq-db/frac"
	"github.com/ozontech/seq-db/frac/processor"
	"github.com/ozontech/seq-db/fracmanager"
	"github.com/ozontech/seq-db/logger"
	"github.com/ozontech/seq-db/parser"
	"github.com/ozontech/seq-db/seq"

	"go.uber.org/zap/zapcore"

	"verif/harness/internal/casefile"
	"verif/harness/internal/fracbuild"
	"verif/harness/internal/rng"
)

const (
	eLidCap   = 65536 // consts.LIDBlockCap
	eIdsBlock = 4096  // consts.IDsBlockSize
	eTokBlock = 16384 // consts.RegularBlockSize
	eBaseMID  = 1_700_000_000_000
)

// ---------------------------------------------------------------- eCorpus

type edoc struct {
	mid, rid uint64
	body     []byte
	toks     []string // "field:value"
}

type ecfg struct {
	SkipSortDocs bool   `json:"skip_sort_docs"`
	Zstd         [6]int `json:"zstd_ids_lids_tokens_pos_table_docs"`
	DocBlockSize int    `json:"doc_block_size"`
	Cache1       uint64 `json:"cache_size"`
	Cache2       uint64 `json:"cache_size_reloaded"`
	Bulks        int    `json:"bulks"`
	Order        int    `json:"arrival_order"` // 0 interleaved ascending, 1 contiguous descending, 2 shuffled
}

type eCorpus struct {
	shape  string
	params map[string]any
	seed   uint64
	docs   []edoc
	cfg    ecfg
	reqs   []ereq
	fields []string        // every field used (keyword mapping)
	posts  map[string]int  // "field:value" -> number of postings (harness bookkeeping for `nontrivial` only)
	multi  map[string]bool // field -> its dictionary has more than one token block
	sorted []int           // doc indexes by ID descending (LID order of the sealed fraction, LID = rank+1)
}

func (c *eCorpus) add(mid, rid uint64, body string, toks ...string) {
	c.docs = append(c.docs, edoc{mid, rid, []byte(body), toks})
}

// finish computes the bookkeeping after all documents are generated.
func (c *eCorpus) finish() {
	c.posts, c.multi = map[string]int{}, map[string]bool{}
	fs, size, seen := map[string]bool{}, map[string]int{}, map[string]bool{}
	for _, d := range c.docs {
		for _, t := range d.toks {
			c.posts[t]++
			f := t[:strings.IndexByte(t, ':')]
			fs[f] = true
			if !seen[t] {
				seen[t] = true
				size[f] += len(t) - len(f) - 1
			}
		}
	}
	c.posts["_all_:"] = len(c.docs)
	for f := range fs {
		c.fields = append(c.fields, f)
		c.multi[f] = size[f] >= eTokBlock
	}
	sort.Strings(c.fields)
	c.sorted = make([]int, len(c.docs))
	for i := range c.sorted {
		c.sorted[i] = i
	}
	sort.Slice(c.sorted, func(a, b int) bool { return eIdLess(c.docs[c.sorted[b]], c.docs[c.sorted[a]]) })
}

func eIdLess(a, b edoc) bool { return a.mid < b.mid || (a.mid == b.mid && a.rid < b.rid) }

func eRid(i int) uint64 { return uint64(uint32(i)*2654435761) + 1 } // distinct for distinct i < 2^32

func (c *eCorpus) mapping() seq.Mapping {
	m := seq.Mapping{}
	for _, f := range c.fields {
		m[f] = seq.NewSingleType(seq.TokenizerTypeKeyword, "", 0)
	}
	return m
}

func eGenCfg(r *rng.R, ndocs int) ecfg {
	lv := []int{1, 3, -1, 7}
	c := ecfg{SkipSortDocs: r.Chance(1, 3), DocBlockSize: rng.Pick(r, []int{0, 256, 2048, 65536}),
		Cache1: rng.Pick(r, []uint64{16 << 10, 64 << 10, 1 << 20, 1 << 28}),
		Cache2: rng.Pick(r, []uint64{16 << 10, 256 << 10, 1 << 28}), Order: r.Intn(3)}
	for i := range c.Zstd {
		c.Zstd[i] = rng.Pick(r, lv)
	}
	c.Bulks = max(1, min(r.Range(2, 5), ndocs))
	if ndocs > 40000 {
		c.Bulks = (ndocs + 24999) / 25000
	}
	return c
}

func (c ecfg) mod(cache uint64) func(*fracmanager.Config) {
	return func(fc *fracmanager.Config) {
		fc.CacheSize = cache
		fc.Fraction.SkipSortDocs = c.SkipSortDocs
		fc.SealParams = frac.SealParams{IDsZstdLevel: c.Zstd[0], LIDsZstdLevel: c.Zstd[1], TokenListZstdLevel: c.Zstd[2],
			DocsPositionsZstdLevel: c.Zstd[3], TokenTableZstdLevel: c.Zstd[4], DocBlocksZstdLevel: c.Zstd[5], DocBlockSize: c.DocBlockSize}
	}
}

// ---------------------------------------------------------------- requests and the oracle

// eExpr is a query: leaves are `tok` (f:A), `pre` (f:A*), `suf` (f:*A), `wild` (f:A*B), `all` (*).
type eExpr struct {
	Op   string
	F    string
	A, B string
	L, R *eExpr
}

func eTok(f, v string) *eExpr { return &eExpr{Op: "tok", F: f, A: v} }
func ePre(f, v string) *eExpr { return &eExpr{Op: "pre", F: f, A: v} }
func eAnd(l, r *eExpr) *eExpr { return &eExpr{Op: "and", L: l, R: r} }
func eOr(l, r *eExpr) *eExpr  { return &eExpr{Op: "or", L: l, R: r} }
func eNot(l *eExpr) *eExpr    { return &eExpr{Op: "not", L: l} }
func eAll() *eExpr            { return &eExpr{Op: "all"} }

func (e *eExpr) text() string {
	switch e.Op {
	case "tok":
		return e.F + ":" + e.A
	case "pre":
		return e.F + ":" + e.A + "*"
	case "suf":
		return e.F + ":*" + e.A
	case "wild":
		return e.F + ":" + e.A + "*" + e.B
	case "all":
		return "*"
	case "not":
		return "not (" + e.L.text() + ")"
	}
	return "(" + e.L.text() + ") " + e.Op + " (" + e.R.text() + ")"
}

func (e *eExpr) match(d *edoc) bool {
	switch e.Op {
	case "all":
		return true
	case "and":
		return e.L.match(d) && e.R.match(d)
	case "or":
		return e.L.match(d) || e.R.match(d)
	case "not":
		return !e.L.match(d)
	}
	for _, t := range d.toks {
		if len(t) <= len(e.F) || t[len(e.F)] != ':' || t[:len(e.F)] != e.F {
			continue
		}
		v := t[len(e.F)+1:]
		switch e.Op {
		case "tok":
			if v == e.A {
				return true
			}
		case "pre":
			if strings.HasPrefix(v, e.A) {
				return true
			}
		case "suf":
			if strings.HasSuffix(v, e.A) {
				return true
			}
		case "wild":
			if len(v) >= len(e.A)+len(e.B) && strings.HasPrefix(v, e.A) && strings.HasSuffix(v, e.B) {
				return true
			}
		}
	}
	return false
}

// span: does the query touch a structure that spans an on-disk block border (for `nontrivial`)?
func (e *eExpr) span(c *eCorpus) bool {
	switch e.Op {
	case "all":
		return len(c.docs) > eLidCap
	case "and", "or":
		return e.L.span(c) || e.R.span(c)
	case "not":
		return e.L.span(c)
	case "tok":
		return c.posts[e.F+":"+e.A] > eLidCap || c.multi[e.F]
	}
	return c.multi[e.F]
}

type ereq struct {
	Kind      int         `json:"kind"`
	Text      string      `json:"query,omitempty"`
	From      uint64      `json:"from,omitempty"`
	To        uint64      `json:"to,omitempty"`
	Limit     int         `json:"limit,omitempty"`
	WithTotal bool        `json:"with_total,omitempty"`
	Hist      uint64      `json:"hist_interval,omitempty"`
	AggBy     string      `json:"agg_group_by,omitempty"`
	AggIv     uint64      `json:"agg_interval,omitempty"`
	AggField  string      `json:"agg_sum_field,omitempty"` // numeric field: sum/min/max/count per group (two-source aggregation)
	IDs       [][2]uint64 `json:"ids,omitempty"`
	Tag       string      `json:"tag,omitempty"`
	e         *eExpr
}

// oracle: brute force over the documents.
func (c *eCorpus) oracle(q *ereq) []uint64 {
	if q.Kind == 5 {
		byID := make(map[[2]uint64]*edoc, len(q.IDs))
		want := map[[2]uint64]bool{}
		for _, id := range q.IDs {
			want[id] = true
		}
		for i := range c.docs {
			if k := [2]uint64{c.docs[i].mid, c.docs[i].rid}; want[k] {
				byID[k] = &c.docs[i]
			}
		}
		out := make([][]byte, len(q.IDs))
		for i, id := range q.IDs {
			if d := byID[id]; d != nil {
				out[i] = d.body
			}
		}
		return eCanonFetch(q.IDs, out)
	}
	var hit []*edoc
	for i := range c.docs {
		if d := &c.docs[i]; d.mid >= q.From && d.mid <= q.To && q.e.match(d) {
			hit = append(hit, d)
		}
	}
	sort.Slice(hit, func(a, b int) bool {
		if q.Kind == 2 {
			return eIdLess(*hit[a], *hit[b])
		}
		return eIdLess(*hit[b], *hit[a])
	})
	a := eAnswer{}
	if q.WithTotal {
		a.total = uint64(len(hit))
	}
	for _, d := range hit[:min(len(hit), q.Limit)] {
		a.ids = append(a.ids, [2]uint64{d.mid, d.rid})
	}
	if q.Hist > 0 {
		a.hist = map[uint64]uint64{}
		for _, d := range hit {
			a.hist[d.mid-d.mid%q.Hist]++
		}
	}
	if q.Kind == 4 && q.AggField != "" {
		a.sums = map[eAggKey][5]uint64{}
		val := func(d *edoc, f string) (string, bool) {
			for _, t := range d.toks {
				if strings.HasPrefix(t, f+":") {
					return t[len(f)+1:], true
				}
			}
			return "", false
		}
		for _, d := range hit {
			g, hasG := val(d, q.AggBy)
			v, hasV := val(d, q.AggField)
			switch {
			case !hasG && !hasV:
			case !hasG:
				a.notExists++
			case !hasV:
				x := a.sums[eAggKey{0, g}]
				x[4]++
				a.sums[eAggKey{0, g}] = x
			default:
				var n uint64
				fmt.Sscan(v, &n)
				x := a.sums[eAggKey{0, g}]
				if x[0] == 0 || n < x[2] {
					x[2] = n
				}
				if x[0] == 0 || n > x[3] {
					x[3] = n
				}
				x[0]++
				x[1] += n
				a.sums[eAggKey{0, g}] = x
			}
		}
	} else if q.Kind == 4 {
		a.bins = map[eAggKey]uint64{}
		for _, d := range hit {
			v, has := "", false
			for _, t := range d.toks {
				if strings.HasPrefix(t, q.AggBy+":") {
					v, has = t[len(q.AggBy)+1:], true
				}
			}
			if !has {
				a.notExists++
				continue
			}
			k := eAggKey{0, v}
			if q.AggIv > 0 {
				k.mid = d.mid - d.mid%q.AggIv
			}
			a.bins[k]++
		}
	}
	return a.canon(q)
}

// ---------------------------------------------------------------- canonical answers

type eAggKey struct {
	mid uint64
	tok string
}

type eAnswer struct {
	total     uint64
	ids       [][2]uint64
	hist      map[uint64]uint64
	bins      map[eAggKey]uint64
	sums      map[eAggKey][5]uint64 // two-source aggregation: total, sum, min, max, notExists per group
	notExists uint64
}

func eChk(xs []uint64) (uint64, uint64) {
	var a, b uint64 = 7, 11
	for _, x := range xs {
		x = (x ^ x>>31 ^ x>>47) & 0x7fffffff
		a = (a*1000003 + x) & 0x7fffffff
		b = (b*8191 + x*31 + 5) & 0x7fffffff
	}
	return a, b
}

func eChkBytes(b []byte) uint64 {
	var a uint64 = 17
	for _, x := range b {
		a = (a*1000003 + uint64(x) + 1) & 0x7fffffff
	}
	return a
}

// compress keeps a list short: [888888, n, first 50, last 50, two checksums over everything].
func eCompress(xs []uint64) []uint64 {
	if len(xs) <= 140 {
		return xs
	}
	a, b := eChk(xs)
	out := append([]uint64{888888, uint64(len(xs))}, xs[:50]...)
	out = append(out, xs[len(xs)-50:]...)
	return append(out, a, b)
}

// canon: [total, #ids, mid,rid ..., (hist: #buckets, bucket,count ... ascending), (agg: notExists, #bins, mid,tokchk,count ... by token then mid)]
func (a eAnswer) canon(q *ereq) []uint64 {
	out := []uint64{a.total, uint64(len(a.ids))}
	for _, id := range a.ids {
		out = append(out, id[0], id[1])
	}
	if q.Hist > 0 {
		ks := make([]uint64, 0, len(a.hist))
		for k := range a.hist {
			ks = append(ks, k)
		}
		sort.Slice(ks, func(i, j int) bool { return ks[i] < ks[j] })
		out = append(out, uint64(len(ks)))
		for _, k := range ks {
			out = append(out, k, a.hist[k])
		}
	}
	if q.Kind == 4 && q.AggField != "" {
		ks := make([]eAggKey, 0, len(a.sums))
		for k := range a.sums {
			ks = append(ks, k)
		}
		sort.Slice(ks, func(i, j int) bool { return ks[i].tok < ks[j].tok })
		out = append(out, a.notExists, uint64(len(ks)))
		for _, k := range ks {
			x := a.sums[k]
			out = append(out, eChkBytes([]byte(k.tok)), x[0], x[1], x[2], x[3], x[4])
		}
	} else if q.Kind == 4 {
		ks := make([]eAggKey, 0, len(a.bins))
		for k := range a.bins {
			ks = append(ks, k)
		}
		sort.Slice(ks, func(i, j int) bool {
			return ks[i].tok < ks[j].tok || (ks[i].tok == ks[j].tok && ks[i].mid < ks[j].mid)
		})
		out = append(out, a.notExists, uint64(len(ks)))
		for _, k := range ks {
			out = append(out, k.mid, eChkBytes([]byte(k.tok)), a.bins[k])
		}
	}
	return eCompress(out)
}

func eCanonFetch(ids [][2]uint64, docs [][]byte) []uint64 {
	first := map[[2]uint64][]byte{} // a repeated ID shows the document delivered at any of its positions
	for i, id := range ids {
		if i < len(docs) && len(docs[i]) > 0 && first[id] == nil {
			first[id] = docs[i]
		}
	}
	out := []uint64{uint64(len(docs))}
	for _, id := range ids {
		if d := first[id]; len(d) > 0 {
			out = append(out, uint64(len(d)), eChkBytes(d))
		} else {
			out = append(out, 0, 0)
		}
	}
	return eCompress(out)
}

func eErrList(err error) []uint64 {
	class := uint64(1)
	if strings.Contains(err.Error(), "panicked") {
		class = 2
	}
	return []uint64{999999, class}
}

// ePanicText: the store's searcher/fetcher turn a panic inside a fraction into an error; still a panic of that form.
func ePanicText(err error) string {
	if strings.Contains(err.Error(), "panicked") {
		return err.Error()
	}
	return ""
}

func eLiteral(field string) *parser.Literal {
	return &parser.Literal{Field: field, Terms: []parser.Term{{Kind: parser.TermSymbol, Data: "*"}}}
}

// ask sends one request to a form and canonicalises the eAnswer; a panic reaching us is reported.
func eAsk(fracs fracmanager.List, m seq.Mapping, q *ereq) (out []uint64, what string) {
	defer func() {
		if p := recover(); p != nil {
			out, what = []uint64{999999, 3}, fmt.Sprintf("panic: %v\n%s", p, debug.Stack())
		}
	}()
	if q.Kind == 5 {
		ids := make([]seq.ID, len(q.IDs))
		for i, x := range q.IDs {
			ids[i] = seq.ID{MID: seq.MID(x[0]), RID: seq.RID(x[1])}
		}
		docs, err := fracbuild.Fetch(fracs, ids)
		if err != nil {
			return eErrList(err), ePanicText(err)
		}
		return eCanonFetch(q.IDs, docs), ""
	}
	fq := fracbuild.Query{Text: q.Text, Mapping: m, From: q.From, To: q.To, Limit: q.Limit, Reverse: q.Kind == 2,
		WithTotal: q.WithTotal, Hist: q.Hist}
	if q.Kind == 4 {
		fq.AggQ = []processor.AggQuery{{GroupBy: eLiteral(q.AggBy), Func: seq.AggFuncCount, Interval: int64(q.AggIv)}}
		if q.AggField != "" {
			fq.AggQ = []processor.AggQuery{{Field: eLiteral(q.AggField), GroupBy: eLiteral(q.AggBy), Func: seq.AggFuncSum}}
		}
	}
	qpr, err := fracbuild.Search(fracs, fq, 0)
	if err != nil {
		return eErrList(err), ePanicText(err)
	}
	a := eAnswer{total: qpr.Total}
	for _, id := range qpr.IDs {
		a.ids = append(a.ids, [2]uint64{uint64(id.ID.MID), uint64(id.ID.RID)})
	}
	if q.Hist > 0 {
		a.hist = map[uint64]uint64{}
		for k, v := range qpr.Histogram {
			a.hist[uint64(k)] = v
		}
	}
	if q.Kind == 4 {
		a.bins = map[eAggKey]uint64{}
		if len(qpr.Aggs) != 1 {
			return []uint64{999999, 4}, ""
		}
		a.notExists = uint64(qpr.Aggs[0].NotExists)
		if q.AggField != "" { // bins of one group token are merged (the not-exists bin carries MID 0, the others the dummy MID)
			a.sums = map[eAggKey][5]uint64{}
			for k, v := range qpr.Aggs[0].SamplesByBin {
				key := eAggKey{0, k.Token}
				x := a.sums[key]
				if v.Total > 0 {
					if x[0] == 0 || uint64(v.Min) < x[2] {
						x[2] = uint64(v.Min)
					}
					if x[0] == 0 || uint64(v.Max) > x[3] {
						x[3] = uint64(v.Max)
					}
					x[0] += uint64(v.Total)
					x[1] += uint64(v.Sum)
				}
				x[4] += uint64(v.NotExists)
				a.sums[key] = x
			}
			return a.canon(q), ""
		}
		for k, v := range qpr.Aggs[0].SamplesByBin {
			if k.Token == "_not_exists" { // legacy duplicate of NotExists
				continue
			}
			key := eAggKey{0, k.Token}
			if q.AggIv > 0 {
				key.mid = uint64(k.MID)
			}
			a.bins[key] = uint64(v.Total)
		}
	}
	return a.canon(q), ""
}

// ---------------------------------------------------------------- request generators

func (c *eCorpus) search(e *eExpr, from, to uint64, limit int, asc, wt bool, tag string) {
	k := 1
	if asc {
		k = 2
	}
	c.reqs = append(c.reqs, ereq{Kind: k, Text: e.text(), e: e, From: from, To: to, Limit: limit, WithTotal: wt, Tag: tag})
}

func (c *eCorpus) hist(e *eExpr, from, to, iv uint64, limit int) {
	c.reqs = append(c.reqs, ereq{Kind: 3, Text: e.text(), e: e, From: from, To: to, Limit: limit, WithTotal: true, Hist: iv})
}

func (c *eCorpus) agg(e *eExpr, from, to uint64, by string, iv uint64) {
	c.reqs = append(c.reqs, ereq{Kind: 4, Text: e.text(), e: e, From: from, To: to, AggBy: by, AggIv: iv})
}

// aggSum: sum of the numeric field `field` grouped by `by` (both single-valued in the corpora that use it).
func (c *eCorpus) aggSum(e *eExpr, from, to uint64, by, field, tag string) {
	c.reqs = append(c.reqs, ereq{Kind: 4, Text: e.text(), e: e, From: from, To: to, AggBy: by, AggField: field, Tag: tag})
}

func (c *eCorpus) fetch(tag string, ids ...[2]uint64) {
	if len(ids) > 0 { // the real Fetcher indexes ids[0]: an empty list is not a request
		c.reqs = append(c.reqs, ereq{Kind: 5, IDs: ids, Tag: tag})
	}
}

func (c *eCorpus) id(rank int) [2]uint64 { d := c.docs[c.sorted[rank]]; return [2]uint64{d.mid, d.rid} }

func (c *eCorpus) midRange() (uint64, uint64) {
	return c.docs[c.sorted[len(c.sorted)-1]].mid, c.docs[c.sorted[0]].mid
}

var eLimits = []int{0, 1, 3, 10, 100, 1 << 30}

// borderSearches: for query e, ranges whose border falls so that exactly n matching documents lie
// above (To cut) or below (From cut) the border, n around every multiple of `block`.
func (c *eCorpus) borderSearches(r *rng.R, e *eExpr, block int, tag string) {
	var hit []int // matching docs by ID descending
	for _, i := range c.sorted {
		if e.match(&c.docs[i]) {
			hit = append(hit, i)
		}
	}
	lo, hi := c.midRange()
	for k := block; k-2 < len(hit); k += block {
		for _, n := range []int{k - 2, k - 1, k, k + 1} {
			if n < 0 || n >= len(hit) {
				continue
			}
			// hit[n] is the (n+1)-th newest: From = its MID keeps >= n+1 docs, To = its MID drops the n newer ones (modulo equal MIDs)
			c.search(e, c.docs[hit[n]].mid, hi+1, rng.Pick(r, eLimits), r.Bool(), true, tag)
			c.search(e, lo-1, c.docs[hit[n]].mid, rng.Pick(r, eLimits), r.Bool(), true, tag)
			m := len(hit) - 1 - n // the same counted from the oldest
			c.search(e, c.docs[hit[m]].mid, hi, rng.Pick(r, eLimits[:5]), r.Bool(), r.Bool(), tag)
			c.search(e, lo, c.docs[hit[m]].mid, rng.Pick(r, eLimits[:5]), r.Bool(), true, tag)
		}
	}
}

// idBorderRequests: searches and fetches around ID-block borders (LID = rank+1; block borders at LID 4096*k).
func (c *eCorpus) idBorderRequests(r *rng.R, e *eExpr) {
	n := len(c.docs)
	lo, hi := c.midRange()
	for b := eIdsBlock; b-4 < n+1; b += eIdsBlock {
		var ids [][2]uint64
		for rank := b - 7; rank <= b+5; rank++ { // LIDs b-6 .. b+6
			if rank < 0 || rank >= n {
				continue
			}
			ids = append(ids, c.id(rank))
			if rank >= b-3 && rank <= b {
				m := c.docs[c.sorted[rank]].mid
				c.search(e, m, hi, rng.Pick(r, eLimits), r.Bool(), true, "idborder")
				c.search(e, lo, m, rng.Pick(r, eLimits), r.Bool(), true, "idborder")
			}
		}
		c.fetch("idborder-desc", ids...)
		sh := append([][2]uint64{}, ids...)
		rng.Shuffle(r, sh)
		c.fetch("idborder-shuffled", sh...)
		c.fetch("idborder-absent-mixed", append(sh, [2]uint64{sh[0][0], sh[0][1] + 1}, [2]uint64{sh[0][0], 0})...)
	}
}

// fetchRequests: present / absent / duplicate / mixed lists.
func (c *eCorpus) fetchRequests(r *rng.R, n int) {
	lo, hi := c.midRange()
	exists := map[[2]uint64]bool{}
	for _, d := range c.docs {
		exists[[2]uint64{d.mid, d.rid}] = true
	}
	absent := func() [2]uint64 {
		for {
			var id [2]uint64
			switch r.Intn(6) {
			case 0:
				id = [2]uint64{lo, 0} // smaller than every stored ID, MID inside the fraction
			case 1:
				id = [2]uint64{hi, ^uint64(0)} // larger than every stored ID
			case 2:
				id = [2]uint64{lo - 1, uint64(r.Intn(100))} // outside the fraction
			case 3:
				id = [2]uint64{hi + 1, uint64(r.Intn(100))}
			default:
				id = c.id(r.Intn(len(c.docs))) // MID of a stored document, neighbouring RID
				id[1] += uint64(r.Range(1, 3))
				if r.Bool() {
					id[1] -= 4
				}
			}
			if !exists[id] {
				return id
			}
		}
	}
	for i := 0; i < n; i++ {
		var ids [][2]uint64
		k := r.Range(1, 12)
		mode := r.Intn(5) // 0 present desc, 1 present random, 2 with duplicates, 3 absent only, 4 mixed
		for j := 0; j < k; j++ {
			switch {
			case mode == 3 || (mode == 4 && r.Bool()):
				ids = append(ids, absent())
			case mode == 2 && j > 0 && r.Bool():
				ids = append(ids, ids[r.Intn(len(ids))])
			default:
				ids = append(ids, c.id(r.Intn(len(c.docs))))
			}
		}
		if mode == 0 {
			sort.Slice(ids, func(a, b int) bool { return ids[b][0] < ids[a][0] || (ids[b][0] == ids[a][0] && ids[b][1] < ids[a][1]) })
		}
		c.fetch([]string{"present-desc", "present-random", "duplicates", "absent", "mixed"}[mode], ids...)
	}
	c.fetch("first-last", c.id(0), c.id(len(c.docs)-1))
	c.fetch("absent-extremes", [2]uint64{lo, 0}, [2]uint64{hi, ^uint64(0)}, [2]uint64{lo - 1, 5}, [2]uint64{hi + 1, 5})
}

// randomRequests: random queries over the vocabulary (field -> some values) of the eCorpus.
func (c *eCorpus) randomRequests(r *rng.R, n int, vocab map[string][]string, aggBy string) {
	fs := make([]string, 0, len(vocab))
	for f := range vocab {
		fs = append(fs, f)
	}
	sort.Strings(fs)
	for _, f := range append([]string{aggBy}, fs...) { // a queried field no document carries still needs a mapping
		if i := sort.SearchStrings(c.fields, f); i == len(c.fields) || c.fields[i] != f {
			c.fields = append(c.fields, f)
			sort.Strings(c.fields)
		}
	}
	var leaf func() *eExpr
	leaf = func() *eExpr {
		f := rng.Pick(r, fs)
		v := rng.Pick(r, vocab[f])
		switch r.Intn(8) {
		case 0:
			return ePre(f, v[:r.Intn(len(v)+1)])
		case 1:
			return &eExpr{Op: "suf", F: f, A: v[r.Intn(len(v)):]}
		case 2:
			i := r.Intn(len(v) + 1)
			return &eExpr{Op: "wild", F: f, A: v[:i], B: v[i+r.Intn(len(v)-i+1):]}
		case 3:
			return eTok(f, v+"q") // unknown token
		}
		return eTok(f, v)
	}
	var gen func(d int) *eExpr
	gen = func(d int) *eExpr {
		if d == 0 || r.Chance(2, 5) {
			return leaf()
		}
		switch r.Intn(5) {
		case 0:
			return eNot(gen(d - 1))
		case 1, 2:
			return eAnd(gen(d-1), gen(d-1))
		}
		return eOr(gen(d-1), gen(d-1))
	}
	lo, hi := c.midRange()
	for i := 0; i < n; i++ {
		e := gen(2)
		if r.Chance(1, 12) {
			e = eAll() // `*` is only accepted as the whole query
		}
		from, to := lo-1, hi+1
		if r.Chance(2, 3) {
			a, b := c.docs[r.Intn(len(c.docs))].mid, c.docs[r.Intn(len(c.docs))].mid
			if a > b {
				a, b = b, a
			}
			from, to = a+uint64(r.Intn(3))-1, b+uint64(r.Intn(3))-1 // may become empty (from > to)
		}
		switch x := r.Intn(10); {
		case x < 6:
			c.search(e, from, to, rng.Pick(r, eLimits), r.Bool(), r.Chance(3, 4), "random")
		case x < 8:
			c.hist(e, from, to, rng.Pick(r, []uint64{1, 7, 100, 1000, 100000}), rng.Pick(r, eLimits[:4]))
		default:
			c.agg(e, from, to, aggBy, rng.Pick(r, []uint64{0, 0, 50, 5000}))
		}
	}
}

// ---------------------------------------------------------------- eCorpus shapes

// lid64k: tokens with exactly 65536, 65537 and 131072 postings; field k starts with a small token so
// that the big ones begin in the middle of a LID block, field m starts with the 65536 one (aligned).
func eGenLid64k(r *rng.R, ndocs int) *eCorpus {
	c := &eCorpus{shape: "lid64k"}
	small := [3]int{r.Range(1, 60), r.Range(1, 60), r.Range(1, 60)}
	step := uint64(r.Range(1, 2)) // 2: every MID is shared by two documents
	off := [6]int{r.Intn(ndocs), r.Intn(ndocs), r.Intn(ndocs), r.Intn(ndocs), r.Intn(ndocs), r.Intn(ndocs)}
	big := 2 * eLidCap
	if ndocs >= 3*eLidCap+1000 {
		big = 3 * eLidCap
	}
	c.params = map[string]any{"docs": ndocs, "small": small, "mid_step_div": step, "window_offsets": off, "biggest": big}
	perm := make([]int, ndocs) // scattered membership for the tokens "d" of k and "a" of m
	for i := range perm {
		perm[i] = i
	}
	rng.Shuffle(r, perm)
	sc := make([]uint8, ndocs)
	for _, i := range perm[:eLidCap+1] {
		sc[i] |= 1
	}
	for _, i := range perm[ndocs-eLidCap:] {
		sc[i] |= 2
	}
	in := func(i, start, cnt int) bool { return (i-start+ndocs)%ndocs < cnt } // cyclic window
	for i := 0; i < ndocs; i++ {
		var t []string
		add := func(cond bool, s string) {
			if cond {
				t = append(t, s)
			}
		}
		add(in(i, off[0], small[0]), "k:a")
		add(in(i, off[1], eLidCap), "k:b") // 65536, contiguous
		add(in(i, off[2], small[1]), "k:c")
		add(sc[i]&1 != 0, "k:d") // 65537, scattered
		add(in(i, off[3], big), "k:e")
		add(in(i, off[4], small[2]), "k:f")
		add(sc[i]&2 != 0, "m:a") // 65536, scattered, first token of its field: fills block 0 exactly
		add(in(i, off[5], big), "m:b")
		add(in(i, off[0], eLidCap+1), "m:c")
		add(i%1000 == 3, "m:d")
		add(i%7 != 0, fmt.Sprintf("g:v%d", i%5))
		c.add(eBaseMID+uint64(i)/step, eRid(i), fmt.Sprintf(`{"i":%d}`, i), t...)
	}
	c.finish()
	lo, hi := c.midRange()
	bigs := []*eExpr{eTok("k", "b"), eTok("k", "d"), eTok("k", "e"), eTok("m", "a"), eTok("m", "b"), eTok("m", "c"), eAll()}
	for _, e := range bigs {
		c.search(e, lo, hi, 10, false, true, "full")
		c.search(e, 0, ^uint64(0), 7, true, true, "full")
		c.borderSearches(r, e, eLidCap, "lidborder")
	}
	c.search(eTok("k", "e"), lo, hi, 1<<30, r.Bool(), true, "limit-above-hits")
	c.search(eTok("k", "d"), lo, hi, 70000, r.Bool(), false, "limit-above-hits")
	mid := func() uint64 { return lo + uint64(r.Intn(int(hi-lo+1))) }
	combos := []*eExpr{eOr(eTok("k", "b"), eTok("k", "d")), eAnd(eTok("k", "e"), eTok("m", "c")), eNot(eTok("k", "e")), eOr(eTok("k", "a"), eTok("k", "f")),
		eAnd(eTok("k", "e"), eNot(eTok("m", "b"))), eAnd(eTok("m", "a"), eTok("k", "d")), ePre("k", ""), eOr(ePre("m", "a"), eTok("m", "d")), eNot(ePre("k", "")),
		eAnd(eNot(eTok("m", "a")), eNot(eTok("k", "d"))), eTok("k", "c"), eTok("m", "d"), eTok("k", "zz")}
	for _, e := range combos {
		c.search(e, lo, hi, rng.Pick(r, eLimits[:5]), r.Bool(), true, "combo")
		a, b := mid(), mid()
		c.search(e, min(a, b), max(a, b), rng.Pick(r, eLimits[:5]), r.Bool(), true, "combo-range")
	}
	c.borderSearches(r, eNot(eTok("k", "e")), eLidCap, "lidborder-not") // only when there are >= 65534 such documents
	for _, e := range []*eExpr{eTok("k", "e"), eTok("m", "a"), eAll(), eAnd(eTok("k", "d"), eTok("m", "b"))} {
		c.hist(e, lo, hi, uint64(ndocs)/uint64(r.Range(3, 30))+1, 3)
		c.hist(e, mid(), hi, 1000, 0)
		c.agg(e, lo, hi, "g", 0)
		c.agg(e, lo, mid(), "g", uint64(ndocs)/4)
	}
	c.idBorderRequests(r, rng.Pick(r, bigs))
	c.fetchRequests(r, 12)
	return c
}

// ids4k: the number of stored IDs (documents + the system ID at LID 0) and the number of documents
// sit exactly at / next to a multiple of 4096.
func eGenIds4k(r *rng.R, k, off int) *eCorpus {
	n := eIdsBlock*k + off
	c := &eCorpus{shape: "ids4k", params: map[string]any{"k": k, "off": off, "docs": n}}
	div := uint64(rng.Pick(r, []int{1, 3, 5, 8})) // up to 8 documents share a MID: borders inside a MID group are decided by RIDs
	sh := uint64(r.Intn(int(div)))
	vocab := map[string][]string{"f": nil, "s": nil}
	for i := 0; i < 13; i++ {
		vocab["f"] = append(vocab["f"], fmt.Sprintf("v%d", i))
	}
	for i := 0; i < 200; i++ {
		vocab["s"] = append(vocab["s"], fmt.Sprintf("s%03d", i))
	}
	c.params["mid_div"], c.params["mid_shift"] = div, sh
	for i := 0; i < n; i++ {
		t := []string{"f:" + vocab["f"][i%13], "s:" + vocab["s"][(i*7)%200]}
		if i%4 != 1 {
			t = append(t, fmt.Sprintf("g:g%d", i%6))
		}
		c.add(eBaseMID+(uint64(i)+sh)/div, eRid(i), `{"i":`+fmt.Sprint(i)+`,"p":"`+strings.Repeat("x", int(eRid(i)%57))+`"}`, t...)
	}
	// fat: the 11 documents around every ID-block border share one MID (document i has rank n-1-i, LID n-i;
	// MIDs stay monotone in i), so the block's min ID and its neighbours differ by RID only
	fat := r.Bool()
	c.params["fat_border"] = fat
	for ic := n - eIdsBlock; fat && ic > 0; ic -= eIdsBlock {
		for i := max(0, ic-5); i <= min(n-1, ic+5); i++ {
			c.docs[i].mid = c.docs[min(n-1, ic+5)].mid
		}
	}
	c.finish()
	c.idBorderRequests(r, eAll())
	c.idBorderRequests(r, eTok("f", "v3"))
	c.borderSearches(r, eAll(), eIdsBlock, "idborder-all")
	c.randomRequests(r, 40, vocab, "g")
	c.fetchRequests(r, 15)
	return c
}

// code4 is the 4-letter base-7 code of i (order preserving), the head of every dictionary token.
func eCode4(i int) string {
	b := [4]byte{}
	for p := 3; p >= 0; p-- {
		b[p] = "abcdefg"[i%7]
		i /= 7
	}
	return string(b[:])
}

// dict16k: field d has ntok tokens whose total size is exactly `size` bytes (token blocks of the
// sealed dictionary: size/16384+1 blocks of ntok/blocks tokens); `big` has ONE token of 20000 bytes,
// `tri` three tokens of 9000 bytes (fewer tokens than blocks: defect #9 when the repair is reverted).
func eGenDict16k(r *rng.R, size int) *eCorpus {
	c := &eCorpus{shape: "dict16k"}
	ntok := r.Range(size/40, min(size/6, 2400))
	c.params = map[string]any{"size": size, "ntok": ntok}
	toks := make([]string, ntok)
	for i := range toks {
		l := size / ntok
		if i < size%ntok {
			l++
		}
		toks[i] = eCode4(i) + strings.Repeat(string("xyz"[i%3]), l-4)
	}
	bigTok := "q" + strings.Repeat("w", 19998) + "e"
	tri := []string{strings.Repeat("a", 9000), strings.Repeat("a", 8999) + "b", "b" + strings.Repeat("c", 8999)}
	ndocs := ntok * r.Range(1, 3)
	for i := 0; i < ndocs; i++ {
		t := []string{"d:" + toks[i%ntok], fmt.Sprintf("f:v%d", i%9)}
		if i%7 != 3 { // dd: the same dictionary as d (several physical token blocks), single-valued: group-by field
			t = append(t, "dd:"+toks[(i*13+5)%ntok])
		}
		if i%4 != 1 { // n: numeric, single-valued
			t = append(t, fmt.Sprintf("n:%d", (i*7)%1000))
		}
		if i%5 == 0 {
			t = append(t, "d:"+toks[(i*31+7)%ntok])
		}
		if i%3 != 0 {
			t = append(t, fmt.Sprintf("g:g%d", i%4))
		}
		if i%97 == 5 {
			t = append(t, "big:"+bigTok)
		}
		if i%50 == 1 {
			t = append(t, "tri:"+tri[(i/50)%3])
		}
		c.add(eBaseMID+uint64(i)*3, eRid(i), fmt.Sprintf(`{"i":%d,"pad":"%s"}`, i, strings.Repeat("-", i%40)), t...)
	}
	c.finish()
	lo, hi := c.midRange()
	blocks := size/eTokBlock + 1
	per := max(1, ntok/blocks)
	nxt := min(per, ntok-1) // first token of the second block (when there is one)
	sq := func(e *eExpr, tag string) { c.search(e, lo, hi, rng.Pick(r, eLimits), r.Bool(), true, tag) }
	// tokens at the block borders: last of a block (= the block's max value), first of the next
	for b := per; b-1 < ntok; b += per {
		for _, i := range []int{b - 2, b - 1, b, b + 1} {
			if i < 0 || i >= ntok {
				continue
			}
			t := toks[i]
			sq(eTok("d", t), "dict-border-exact")
			for _, pl := range []int{1, 2, 3, 4, 5, len(t) - 1, len(t)} {
				if pl <= len(t) {
					sq(ePre("d", t[:pl]), "dict-border-prefix")
				}
			}
			sq(&eExpr{Op: "wild", F: "d", A: t[:3], B: t[len(t)-1:]}, "dict-border-wild")
			sq(eTok("d", t[:len(t)-1]), "dict-border-absent") // not a token (shorter)
			sq(eTok("d", t+"x"), "dict-border-absent")
		}
	}
	for _, s := range []string{"x", "y", "z", "zz", "gx"} {
		sq(&eExpr{Op: "suf", F: "d", A: s}, "dict-suffix")
	}
	sq(ePre("d", ""), "dict-all")
	sq(ePre("d", "0"), "dict-below-min")
	sq(ePre("d", "h"), "dict-above-max")
	sq(eTok("d", "aaaa"), "dict-short")
	sq(eOr(eTok("d", toks[0]), eTok("d", toks[ntok-1])), "dict-first-last")
	sq(eAnd(ePre("d", toks[per-1][:2]), eNot(eTok("f", "v1"))), "dict-combo")
	// the huge tokens
	sq(ePre("big", "q"), "big-prefix")
	sq(ePre("big", "qwwwwwwww"), "big-prefix")
	sq(eTok("big", bigTok), "big-exact")
	sq(&eExpr{Op: "suf", F: "big", A: "we"}, "big-suffix")
	sq(ePre("tri", "a"), "tri-prefix")
	sq(ePre("tri", strings.Repeat("a", 8999)), "tri-prefix-long")
	sq(eTok("tri", tri[1]), "tri-exact")
	sq(ePre("tri", "b"), "tri-prefix")
	sq(ePre("tri", ""), "tri-all")
	c.hist(ePre("d", toks[nxt][:2]), lo, hi, 500, 2)
	c.agg(ePre("d", toks[per-1][:3]), lo, hi, "g", 0)
	c.agg(ePre("tri", ""), lo, hi, "g", 1000)
	// group by the fields whose dictionaries span several physical token blocks, over ALL documents: every
	// TID of the dictionary is mapped back to its value (Table.GetEntryByTID -> Block.GetValByTID)
	c.agg(eAll(), 0, ^uint64(0)>>1, "dd", 0)
	c.agg(eAll(), lo, hi, "tri", 0)
	c.agg(eAll(), lo, hi, "big", 0)
	c.agg(eAll(), lo, hi, "dd", uint64(ndocs))
	c.aggSum(eAll(), lo, hi, "dd", "n", "agg-sum-by-dict")
	c.aggSum(eAll(), lo, hi, "tri", "n", "agg-sum-by-dict")
	c.aggSum(ePre("d", toks[nxt][:2]), lo, hi, "dd", "n", "agg-sum-by-dict")
	vocab := map[string][]string{"d": {toks[0], toks[per-1], toks[nxt], toks[ntok/2], toks[ntok-1]}, "f": {"v0", "v1", "v8"}}
	c.randomRequests(r, 30, vocab, "g")
	c.fetchRequests(r, 8)
	return c
}

// small: tiny random corpora.
func eGenSmall(r *rng.R) *eCorpus {
	n := r.Range(1, 80)
	c := &eCorpus{shape: "small", params: map[string]any{"docs": n}}
	vocab := map[string][]string{"a": {"x", "y", "xy", "xyz", "z1"}, "b": {"0", "1", "10", "101"}, "c": {"p", "q"}}
	span := uint64(r.Range(1, 200))
	used := map[[2]uint64]bool{}
	for i := 0; i < n; i++ {
		var t []string
		for _, f := range []string{"a", "b", "c"} {
			if r.Chance(3, 4) {
				t = append(t, f+":"+rng.Pick(r, vocab[f]))
			}
		}
		if r.Chance(1, 6) {
			t = append(t, "a:"+rng.Pick(r, vocab["a"])) // a second value (possibly the same one)
		}
		if r.Chance(2, 3) {
			t = append(t, fmt.Sprintf("g:g%d", r.Intn(4)))
		}
		id := [2]uint64{eBaseMID + uint64(r.Intn(int(span))), uint64(r.Intn(5))}
		for used[id] {
			id[1]++
		}
		used[id] = true
		c.add(id[0], id[1], fmt.Sprintf(`{"n":%d,"s":"%s"}`, i, strings.Repeat("ab", r.Intn(30))), eDedup(t)...)
	}
	c.finish()
	c.randomRequests(r, 40, vocab, "g")
	c.fetchRequests(r, 8)
	return c
}

func eDedup(t []string) []string {
	seen := map[string]bool{}
	out := t[:0]
	for _, s := range t {
		if !seen[s] {
			seen[s] = true
			out = append(out, s)
		}
	}
	return out
}

// ---------------------------------------------------------------- running one eCorpus

type ecase struct {
	term, class string
	nontrivial  bool
	input, impl any
}

type eresult struct {
	cases  []ecase
	viols  []casefile.Violation
	counts []string
}

func (c *eCorpus) describe() map[string]any {
	return map[string]any{"shape": c.shape, "params": c.params, "corpus_seed": c.seed, "docs": len(c.docs), "config": c.cfg}
}

func eRunCorpus(tmp string, idx int, c *eCorpus) (res eresult) {
	desc := c.describe()
	res.counts = append(res.counts, "shape:"+c.shape, fmt.Sprintf("cfg:skip_sort_docs=%v", c.cfg.SkipSortDocs),
		fmt.Sprintf("cfg:cache=%d", c.cfg.Cache1), fmt.Sprintf("cfg:cache_reloaded=%d", c.cfg.Cache2), fmt.Sprintf("cfg:doc_block=%d", c.cfg.DocBlockSize))
	viol := func(fp, what string, in any) {
		res.viols = append(res.viols, casefile.Violation{Fingerprint: fp, What: what, Input: in})
	}
	defer func() {
		if p := recover(); p != nil {
			viol("form-panic:harness", fmt.Sprintf("panic: %v\n%s", p, debug.Stack()), desc)
		}
	}()
	dir := filepath.Join(tmp, fmt.Sprintf("c%04d", idx))
	defer os.RemoveAll(dir)
	r := rng.New(c.seed ^ 0x5eed) // cache eviction schedule and arrival order
	m := c.mapping()

	fm, err := fracbuild.NewFM(dir, c.cfg.mod(c.cfg.Cache1))
	if err != nil {
		viol("harness-error", "NewFM: "+err.Error(), desc)
		return
	}
	// arrival: several bulks, MIDs out of order across bulks
	order := make([]int, len(c.docs))
	for i := range order {
		order[i] = i
	}
	nb := c.cfg.Bulks
	switch c.cfg.Order {
	case 0: // bulk b holds the documents i = b (mod nb)
		sort.SliceStable(order, func(a, b int) bool { return order[a]%nb < order[b]%nb })
	case 1:
		for i := range order {
			order[i] = len(order) - 1 - i
		}
	default:
		rng.Shuffle(r, order)
	}
	for b := 0; b < nb; b++ {
		part := order[len(order)*b/nb : len(order)*(b+1)/nb]
		docs := make([]fracbuild.Doc, len(part))
		for j, i := range part {
			d := c.docs[i]
			docs[j] = fracbuild.Doc{MID: d.mid, RID: d.rid, Body: d.body, Tokens: d.toks}
		}
		if err := fracbuild.Append(fm, docs); err != nil {
			viol("harness-error", "Append: "+err.Error(), desc)
			return
		}
		if b+1 < nb && r.Bool() { // a search between bulks: the active index merges its queues piecewise
			eAsk(fracbuild.Fracs(fm), m, &ereq{Kind: 1, Text: "*", To: ^uint64(0), Limit: 3})
		}
	}

	forms := [3][][]uint64{}
	names := [3]string{"active", "sealed", "reloaded"}
	batch := func(k int, fm *fracmanager.FracManager) bool {
		fracs := fracbuild.Fracs(fm)
		if len(fracs) != 1 {
			viol("harness-error", fmt.Sprintf("%s: expected one fraction, got %d", names[k], len(fracs)), desc)
			return false
		}
		forms[k] = make([][]uint64, len(c.reqs))
		for i := range c.reqs {
			switch r.Intn(8) { // cache pressure between requests
			case 0, 1:
				fm.VerifC03CacheEvict()
			case 2:
				fm.ResetCacheForTests()
			}
			var what string
			if forms[k][i], what = eAsk(fracs, m, &c.reqs[i]); what != "" {
				viol("form-panic:"+names[k], what, map[string]any{"corpus": desc, "request": c.reqs[i]})
			}
		}
		return true
	}
	if !batch(0, fm) {
		return
	}
	var sealPanic any
	func() {
		defer func() {
			if sealPanic = recover(); sealPanic != nil {
				sealPanic = fmt.Sprintf("panic during seal: %v\n%s", sealPanic, debug.Stack())
			}
		}()
		fracbuild.Seal(fm)
	}()
	if sealPanic != nil {
		viol("seal-panic", sealPanic.(string), desc)
		return
	}
	if !batch(1, fm) {
		return
	}
	fracbuild.Close(fm)
	fm2, err := fracbuild.NewFM(dir, c.cfg.mod(c.cfg.Cache2))
	if err != nil {
		viol("reload-error", "second NewFM on the sealed directory: "+err.Error(), desc)
		return
	}
	if !batch(2, fm2) {
		return
	}
	fracbuild.Close(fm2)

	manyIDs := len(c.docs)+1 > eIdsBlock
	for i := range c.reqs {
		q := &c.reqs[i]
		o := c.oracle(q)
		class := [...]string{"", "form/search", "form/search", "form/hist", "form/agg", "form/fetch"}[q.Kind]
		nonEmpty := len(o) > 2 && (o[0] > 0 || o[1] > 0)
		span := manyIDs
		if q.Kind == 5 {
			nonEmpty = false
			for j := 1; j < len(o); j++ {
				nonEmpty = nonEmpty || o[j] != 0
			}
		} else if q.Kind == 4 {
			nonEmpty = len(o) > 3 && (o[2] > 0 || o[3] > 0) // notExists or bins
			span = span || q.e.span(c)
		} else {
			span = span || q.e.span(c)
		}
		term := fmt.Sprintf("CForm %d%%N %s %s %s %s", q.Kind, casefile.NList(forms[0][i]), casefile.NList(forms[1][i]),
			casefile.NList(forms[2][i]), casefile.NList(o))
		var impl any = map[string]any{"active": forms[0][i], "sealed": forms[1][i], "reloaded": forms[2][i]}
		if len(forms[0][i]) > 40 {
			impl = "see the case term"
		}
		res.cases = append(res.cases, ecase{term, class, nonEmpty && span, map[string]any{"corpus": desc, "request": q}, impl})
		res.counts = append(res.counts, fmt.Sprintf("kind:%d", q.Kind))
		if q.Tag != "" {
			res.counts = append(res.counts, "req:"+q.Tag)
		}
		if nonEmpty {
			res.counts = append(res.counts, "answer:nonempty")
		} else {
			res.counts = append(res.counts, "answer:empty")
		}
	}
	return res
}

// ---------------------------------------------------------------- driver

func runE2E(w *casefile.Writer, r *rng.R, tier string) {
	defer runtime.GOMAXPROCS(runtime.GOMAXPROCS(min(6, runtime.NumCPU())))
	logger.SetLevel(zapcore.ErrorLevel) // the store logs every rotation / seal / load at info level
	thorough := tier == "thorough"
	type job struct {
		seed uint64
		gen  func(*rng.R) *eCorpus
	}
	var jobs []job
	add := func(gen func(*rng.R) *eCorpus) { jobs = append(jobs, job{r.U64(), gen}) }
	// quick: 2 lid64k (~137k and ~199k documents), 4 ids4k (one per offset), 4 dict16k (one per threshold), 10 small
	nl, nsmall := 2, 10
	sizes := []int{eTokBlock, eTokBlock - 1, eTokBlock + 1, 3 * eTokBlock}
	if thorough {
		nl, nsmall = 14, 150
		sizes = append(sizes, 2*eTokBlock, 2*eTokBlock-1, 3*eTokBlock+1, 4*eTokBlock-1, eTokBlock, eTokBlock+1, 5*eTokBlock)
		sizes = append(sizes, sizes...)
	}
	for i := 0; i < nl; i++ {
		i := i
		add(func(r *rng.R) *eCorpus {
			n := 2*eLidCap + r.Range(3000, 9000)
			if i == 1 {
				n = 3*eLidCap + r.Range(1000, 3400) // biggest token: 196608 postings = exactly three LID blocks
			} else if i > 1 {
				n = r.Range(2*eLidCap+1, 300000)
			}
			return eGenLid64k(r, n)
		})
	}
	for rep := 0; rep < map[bool]int{false: 1, true: 6}[thorough]; rep++ {
		for _, off := range []int{-2, -1, 0, 1} { // IDsTotal = docs+1: -1 -> IDsTotal = 4096k, 0 -> docs = 4096k
			off := off
			add(func(r *rng.R) *eCorpus { return eGenIds4k(r, r.Range(1, 3), off) })
		}
	}
	for _, s := range sizes {
		s := s
		add(func(r *rng.R) *eCorpus { return eGenDict16k(r, s) })
	}
	for i := 0; i < nsmall; i++ {
		add(eGenSmall)
	}

	tmp, err := os.MkdirTemp("", "verif-hC03-")
	if err != nil {
		w.Violate("harness-error", "MkdirTemp: "+err.Error(), nil)
		return
	}
	defer os.RemoveAll(tmp)

	// phase 1: chains of seals in one manager (see e2e_chain.go); few allocations besides, so that the
	// pooled writers of one seal are really reused by the next
	nchains := 8
	if thorough {
		nchains = 48
	}
	chainSeeds := make([]uint64, nchains)
	for i := range chainSeeds {
		chainSeeds[i] = r.U64()
	}
	chainRes := make([]eresult, nchains)
	{
		var wg sync.WaitGroup
		next := make(chan int, nchains)
		for i := range chainSeeds {
			next <- i
		}
		close(next)
		for k := 0; k < 3; k++ {
			wg.Add(1)
			go func() {
				defer wg.Done()
				for i := range next {
					chainRes[i] = eRunChain(tmp, i, chainSeeds[i])
				}
			}()
		}
		wg.Wait()
	}

	results := make([]eresult, len(jobs))
	var wg sync.WaitGroup
	next := make(chan int, len(jobs))
	for i := range jobs {
		next <- i
	}
	close(next)
	workers := 6
	if thorough {
		workers = 4 // several 300k-document corpora at once need memory (about 0.3 GB each)
	}
	for k := 0; k < workers; k++ {
		wg.Add(1)
		go func() {
			defer wg.Done()
			for i := range next {
				cr := rng.New(jobs[i].seed)
				c := jobs[i].gen(cr)
				c.seed = jobs[i].seed
				c.cfg = eGenCfg(cr, len(c.docs))
				results[i] = eRunCorpus(tmp, i, c)
			}
		}()
	}
	wg.Wait()
	for _, res := range append(chainRes, results...) { // single goroutine, eCorpus order: deterministic output
		for _, k := range res.counts {
			w.Count(k)
		}
		for _, v := range res.viols {
			w.Violate(v.Fingerprint, v.What, v.Input)
		}
		for _, c := range res.cases {
			w.Add(c.term, c.class, c.nontrivial, c.input, c.impl)
		}
	}
}
