module verif/harness

go 1.24

require github.com/ozontech/seq-db v0.0.0

require (
	github.com/KimMachineGun/automemlimit v0.7.3 // indirect
	github.com/beorn7/perks v1.0.1 // indirect
	github.com/c2h5oh/datasize v0.0.0-20200112174442-28bbd4740fee // indirect
	github.com/cespare/xxhash/v2 v2.3.0 // indirect
	github.com/munnerz/goautoneg v0.0.0-20191010083416-a7dc8b61c822 // indirect
	github.com/oklog/ulid/v2 v2.1.1 // indirect
	github.com/ozontech/insane-json v0.1.9 // indirect
	github.com/pbnjay/memory v0.0.0-20210728143218-7b4eea64cf58 // indirect
	github.com/pierrec/lz4/v4 v4.1.22 // indirect
	github.com/prometheus/client_golang v1.22.0 // indirect
	github.com/prometheus/client_model v0.6.1 // indirect
	github.com/prometheus/common v0.62.0 // indirect
	github.com/prometheus/procfs v0.15.1 // indirect
	github.com/valyala/fastrand v1.1.0 // indirect
	github.com/valyala/gozstd v1.22.0 // indirect
	go.uber.org/atomic v1.11.0 // indirect
	go.uber.org/automaxprocs v1.6.0 // indirect
	go.uber.org/multierr v1.11.0 // indirect
	go.uber.org/zap v1.27.0 // indirect
	golang.org/x/sys v0.31.0 // indirect
	google.golang.org/protobuf v1.36.6 // indirect
	gopkg.in/yaml.v2 v2.4.0 // indirect
)

replace github.com/ozontech/seq-db => /repo
