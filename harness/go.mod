module verif/harness

go 1.24

require (
	github.com/cep21/circuit/v3 v3.2.2
	github.com/ozontech/insane-json v0.1.9
	github.com/ozontech/seq-db v0.0.0
	github.com/prometheus/client_golang v1.22.0
	github.com/prometheus/client_model v0.6.1
	go.uber.org/zap v1.27.0
	google.golang.org/grpc v1.73.0
	google.golang.org/protobuf v1.36.6
)

require (
	contrib.go.opencensus.io/exporter/jaeger v0.2.1 // indirect
	github.com/KimMachineGun/automemlimit v0.7.3 // indirect
	github.com/aead/chacha20 v0.0.0-20180709150244-8b13a72661da // indirect
	github.com/beorn7/perks v1.0.1 // indirect
	github.com/c2h5oh/datasize v0.0.0-20200112174442-28bbd4740fee // indirect
	github.com/cespare/xxhash/v2 v2.3.0 // indirect
	github.com/davecgh/go-spew v1.1.1 // indirect
	github.com/golang/groupcache v0.0.0-20210331224755-41bb18bfe9da // indirect
	github.com/google/uuid v1.6.0 // indirect
	github.com/grpc-ecosystem/grpc-gateway/v2 v2.27.1 // indirect
	github.com/klauspost/compress v1.18.0 // indirect
	github.com/munnerz/goautoneg v0.0.0-20191010083416-a7dc8b61c822 // indirect
	github.com/oklog/ulid/v2 v2.1.1 // indirect
	github.com/pbnjay/memory v0.0.0-20210728143218-7b4eea64cf58 // indirect
	github.com/pierrec/lz4/v4 v4.1.22 // indirect
	github.com/planetscale/vtprotobuf v0.6.1-0.20240319094008-0393e58bdf10 // indirect
	github.com/pmezard/go-difflib v1.0.0 // indirect
	github.com/prometheus/common v0.62.0 // indirect
	github.com/prometheus/procfs v0.15.1 // indirect
	github.com/stretchr/testify v1.10.0 // indirect
	github.com/uber/jaeger-client-go v2.25.0+incompatible // indirect
	github.com/valyala/fastrand v1.1.0 // indirect
	github.com/valyala/gozstd v1.22.0 // indirect
	go.opencensus.io v0.24.0 // indirect
	go.uber.org/atomic v1.11.0 // indirect
	go.uber.org/automaxprocs v1.6.0 // indirect
	go.uber.org/multierr v1.11.0 // indirect
	golang.org/x/net v0.38.0 // indirect
	golang.org/x/sync v0.15.0 // indirect
	golang.org/x/sys v0.31.0 // indirect
	golang.org/x/text v0.26.0 // indirect
	google.golang.org/api v0.95.0 // indirect
	google.golang.org/genproto/googleapis/api v0.0.0-20250603155806-513f23925822 // indirect
	google.golang.org/genproto/googleapis/rpc v0.0.0-20250603155806-513f23925822 // indirect
	gopkg.in/yaml.v2 v2.4.0 // indirect
	gopkg.in/yaml.v3 v3.0.1 // indirect
	lukechampine.com/frand v1.4.2 // indirect
)

replace github.com/ozontech/seq-db => /repo
