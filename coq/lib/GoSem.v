(* Go integer semantics used by the definitions that harness/cmd/go2coq generates from the Go
   sources (props/Cxx/coq/Gen.v). Hand-written, NO proofs; part of the trusted base of the
   translator (DESIGN 6). Every machine integer is a Z holding the mathematical value of the Go
   value (an int64 -5 is the Z -5, a uint64 2^64-1 is the Z 2^64-1); `int`/`uint` are 64 bits wide
   (GOARCH amd64/arm64).

   Fixed-width arithmetic is written out as `mod 2^k`:
     unsigned k bits:  x mod 2^k
     signed   k bits:  (x + 2^(k-1)) mod 2^k - 2^(k-1)          (two's complement normalisation)
   The translator wraps the exact result of every +, -, *, <<, unary -, ^x and of every conversion
   that can leave the target range with the function of the result type. Signed / and % are
   Z.quot / Z.rem (truncation toward zero), unsigned ones Z.div / Z.modulo; a divisor that is not a
   non-zero constant is guarded: `if d =? 0 then Panic`. Bit operations on signed values are the
   two's complement ones of Z (Z.land, Z.lor, Z.lxor, Z.ldiff on negative numbers). *)
From Coq Require Import ZArith List Bool.
Import ListNotations.
Open Scope Z_scope.

(* result of a Go function that can panic (run-time error or an explicit panic) or whose loops
   are cut by the fuel of the translation *)
Inductive outcome (A : Type) := Val (a : A) | Panic | OutOfFuel.
Arguments Val {A} a. Arguments Panic {A}. Arguments OutOfFuel {A}.

Definition bind {A B : Type} (m : outcome A) (f : A -> outcome B) : outcome B :=
  match m with Val a => f a | Panic => Panic | OutOfFuel => OutOfFuel end.

Definition u8 (x : Z) : Z := x mod 256.
Definition u16 (x : Z) : Z := x mod 65536.
Definition u32 (x : Z) : Z := x mod 4294967296.
Definition u64 (x : Z) : Z := x mod 18446744073709551616.
Definition i8 (x : Z) : Z := (x + 128) mod 256 - 128.
Definition i16 (x : Z) : Z := (x + 32768) mod 65536 - 32768.
Definition i32 (x : Z) : Z := (x + 2147483648) mod 4294967296 - 2147483648.
Definition i64 (x : Z) : Z := (x + 9223372036854775808) mod 18446744073709551616 - 9223372036854775808.

(* x << n and x >> n (n >= 0 is guarded by the translator for signed counts). A count of 64 or more
   gives 0 (resp. the sign) in every width up to 64 bits; written as a case so that evaluation never
   builds 2^n for a huge n. The result of shl is wrapped by the translator with the result type. *)
Definition shl (x n : Z) : Z := if 64 <=? n then 0 else Z.shiftl x n.
Definition shr (x n : Z) : Z := if 64 <=? n then (if x <? 0 then -1 else 0) else Z.shiftr x n.

(* len(s) and s[i] (the translator guards every s[i] with `(i <? 0) || (len s <=? i)` -> Panic) *)
Definition len {A : Type} (s : list A) : Z := Z.of_nat (length s).
Definition idx (s : list Z) (i : Z) : Z := nth (Z.to_nat i) s 0.
(* s[a:b] on a slice whose capacity is not modelled: the translator guards it with
   `(a <? 0) || (b <? a) || (len s <? b)` -> Panic, which is Go's rule when cap(s) = len(s) *)
Definition slice {A : Type} (s : list A) (a b : Z) : list A := firstn (Z.to_nat (b - a)) (skipn (Z.to_nat a) s).

(* ------------------------------------------------------------------ the gen-* correspondence cases:
   arguments and results are exchanged with the Go harness as lists of integers *)
Inductive gres := GVal (l : list Z) | GPanic | GFuel.

Definition gres_eqb (a b : gres) : bool :=
  match a, b with
  | GVal x, GVal y => (fix eq (x y : list Z) : bool :=
                         match x, y with
                         | [], [] => true
                         | p :: x', q :: y' => (p =? q) && eq x' y'
                         | _, _ => false
                         end) x y
  | GPanic, GPanic => true
  | GFuel, GFuel => true
  | _, _ => false
  end.

Definition gres_of {A : Type} (enc : A -> list Z) (o : outcome A) : gres :=
  match o with Val a => GVal (enc a) | Panic => GPanic | OutOfFuel => GFuel end.

Definition b2z (b : bool) : Z := if b then 1 else 0.
Definition enc_z (x : Z) : list Z := [x].
Definition enc_b (b : bool) : list Z := [b2z b].
Definition enc_zz (p : Z * Z) : list Z := [fst p; snd p].
(* i-th argument as a list / as a scalar *)
Definition argl (args : list (list Z)) (i : nat) : list Z := nth i args [].
Definition arg (args : list (list Z)) (i : nat) : Z := hd 0 (argl args i).
