(* Shared helpers for the generated case files (evaluated with vm_compute). *)
From Coq Require Export List Bool Arith NArith.
Export ListNotations.

Section Indices.
  Context {A : Type}.
  (* indices (from 0) of the elements on which [bad] holds *)
  Fixpoint bad_indices_from (bad : A -> bool) (i : nat) (l : list A) : list nat :=
    match l with
    | [] => []
    | x :: r => if bad x then i :: bad_indices_from bad (S i) r else bad_indices_from bad (S i) r
    end.
  Definition bad_indices (bad : A -> bool) (l : list A) : list nat := bad_indices_from bad 0 l.
End Indices.

Fixpoint list_eqb {A} (eqb : A -> A -> bool) (a b : list A) : bool :=
  match a, b with
  | [], [] => true
  | x :: a', y :: b' => eqb x y && list_eqb eqb a' b'
  | _, _ => false
  end.

Definition option_eqb {A} (eqb : A -> A -> bool) (a b : option A) : bool :=
  match a, b with
  | None, None => true
  | Some x, Some y => eqb x y
  | _, _ => false
  end.

Definition pair_eqb {A B} (ea : A -> A -> bool) (eb : B -> B -> bool) (a b : A * B) : bool :=
  ea (fst a) (fst b) && eb (snd a) (snd b).
