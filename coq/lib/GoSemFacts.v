(* Facts about the Go integer semantics of GoSem.v, used by the refinement proofs
   (props/Cxx/coq/ProofsGen.v) of the generated definitions. *)
From Coq Require Import ZArith List Bool Lia.
From VLib Require Import GoSem.
Open Scope Z_scope.

Lemma u8_small : forall x, 0 <= x < 256 -> u8 x = x.
Proof. intros x H. unfold u8. apply Z.mod_small. lia. Qed.
Lemma u16_small : forall x, 0 <= x < 65536 -> u16 x = x.
Proof. intros x H. unfold u16. apply Z.mod_small. lia. Qed.
Lemma u32_small : forall x, 0 <= x < 4294967296 -> u32 x = x.
Proof. intros x H. unfold u32. apply Z.mod_small. lia. Qed.
Lemma u64_small : forall x, 0 <= x < 18446744073709551616 -> u64 x = x.
Proof. intros x H. unfold u64. apply Z.mod_small. lia. Qed.
Lemma i8_small : forall x, -128 <= x < 128 -> i8 x = x.
Proof. intros x H. unfold i8. rewrite Z.mod_small by lia. lia. Qed.
Lemma i16_small : forall x, -32768 <= x < 32768 -> i16 x = x.
Proof. intros x H. unfold i16. rewrite Z.mod_small by lia. lia. Qed.
Lemma i32_small : forall x, -2147483648 <= x < 2147483648 -> i32 x = x.
Proof. intros x H. unfold i32. rewrite Z.mod_small by lia. lia. Qed.
Lemma i64_small : forall x, -9223372036854775808 <= x < 9223372036854775808 -> i64 x = x.
Proof. intros x H. unfold i64. rewrite Z.mod_small by lia. lia. Qed.

Lemma u8_range : forall x, 0 <= u8 x < 256.
Proof. intros x. unfold u8. apply Z.mod_pos_bound. lia. Qed.
Lemma u32_range : forall x, 0 <= u32 x < 4294967296.
Proof. intros x. unfold u32. apply Z.mod_pos_bound. lia. Qed.
Lemma u64_range : forall x, 0 <= u64 x < 18446744073709551616.
Proof. intros x. unfold u64. apply Z.mod_pos_bound. lia. Qed.
Lemma i64_range : forall x, -9223372036854775808 <= i64 x < 9223372036854775808.
Proof.
  intros x. unfold i64.
  pose proof (Z.mod_pos_bound (x + 9223372036854775808) 18446744073709551616 ltac:(lia)). lia.
Qed.

Lemma len_nonneg : forall (A : Type) (s : list A), 0 <= len s.
Proof. intros. unfold len. lia. Qed.

Lemma bind_val : forall (A B : Type) (a : A) (f : A -> outcome B), bind (Val a) f = f a.
Proof. reflexivity. Qed.

(* N and Z bit operations agree on the naturals (the hand-written models of some properties are over N) *)
Lemma of_N_lor : forall a b, Z.of_N (N.lor a b) = Z.lor (Z.of_N a) (Z.of_N b).
Proof. intros [|a] [|b]; reflexivity. Qed.
Lemma of_N_land : forall a b, Z.of_N (N.land a b) = Z.land (Z.of_N a) (Z.of_N b).
Proof. intros [|a] [|b]; reflexivity. Qed.
Lemma of_N_shiftl : forall a n, Z.of_N (N.shiftl a n) = Z.shiftl (Z.of_N a) (Z.of_N n).
Proof.
  intros a n. rewrite N.shiftl_mul_pow2, Z.shiftl_mul_pow2 by lia.
  rewrite N2Z.inj_mul, N2Z.inj_pow. reflexivity.
Qed.
Lemma of_N_shiftr : forall a n, Z.of_N (N.shiftr a n) = Z.shiftr (Z.of_N a) (Z.of_N n).
Proof.
  intros a n. rewrite N.shiftr_div_pow2, Z.shiftr_div_pow2 by lia.
  rewrite N2Z.inj_div, N2Z.inj_pow. reflexivity.
Qed.
